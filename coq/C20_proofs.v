(* C20_proofs.v -- proofs about GuiLoop.v: the repaired receive loop, sharing the client mutex with an
   arbitrary GUI thread, never spins, stops once the session has ended, forwards exactly what it received and
   drains the TLS buffer -- under an explicit fairness hypothesis on the schedule where one is needed; the two
   threads are never both inside the client, never wait for each other in a cycle, GUI writes do not disturb
   the receive side, the client is released when the thread ends; the loop as found spins / stalls (witnesses). *)
From RdpV Require Import Base GuiLoop.

Ltac dst s := destruct s as [sk cl tl sy p o lk rf ob ws h c l].
Ltac fld := cbn [pcs sock closed tls sync out lock refs outb wshut hist cons lost] in *.

(* ------------------------------------------------------------------ termination measure *)

Lemma step_decreases s s' : tstep repaired s = Some s' -> (measure s' < measure s)%nat.
Proof.
  dst s. unfold tstep, measure, ntok, lock_free, set_read, set_pc, set_lock_pc. fld.
  destruct p.
  - destruct (is_nil sk && match cl with None => true | Some _ => false end); [discriminate|].
    intros H; inversion H; subst; clear H. cbn. lia.
  - intros H; inversion H; subst; clear H. cbn. destruct sy; cbn; lia.
  - destruct lk; try discriminate. intros H; inversion H; subst; clear H. cbn. lia.
  - destruct tl as [|t rest].
    + destruct sk as [|r rs].
      * destruct cl; [|discriminate]. intros H; inversion H; subst; clear H. cbn. lia.
      * intros H; inversion H; subst; clear H. cbn. rewrite app_length. lia.
    + destruct t as [|[evs|c0]]; intros H; inversion H; subst; clear H; cbn; try lia.
      destruct (negb (is_nil rest)); cbn; lia.
  - intros H; inversion H; subst; clear H. cbn. lia.
  - intros H; inversion H; subst; clear H. cbn. lia.
  - intros H; inversion H; subst; clear H. cbn. lia.
  - discriminate.
Qed.

Inductive steps : st -> st -> Prop :=
| steps_refl s : steps s s
| steps_cons s s1 s2 : tstep repaired s = Some s1 -> steps s1 s2 -> steps s s2.

Lemma quiesce_quiet :
  forall fuel s, (measure s < fuel)%nat ->
    exists s', quiesce repaired fuel s = RQuiet s' /\ steps s s' /\ tstep repaired s' = None.
Proof.
  induction fuel as [|f IH]; intros s Hm; [lia|].
  cbn [quiesce]. destruct (tstep repaired s) as [s1|] eqn:E.
  - destruct (IH s1) as (s' & Hq & Hs & Hn); [apply step_decreases in E; lia|].
    exists s'. split; [exact Hq|]. split; [econstructor; eauto|exact Hn].
  - exists s. split; [reflexivity|]. split; [constructor|exact E].
Qed.

(* ------------------------------------------------------------------ what a token stream delivers *)

Definition nofail (l : list token) : Prop := forall c, ~ In (Fin (PFail c)) l.

Lemma nofail_nil : nofail [].
Proof. intros c H. inversion H. Qed.

Lemma nofail_snoc l t : nofail l -> (forall c, t <> Fin (PFail c)) -> nofail (l ++ [t]).
Proof.
  intros Hl Ht c Hin. apply in_app_or in Hin. destruct Hin as [Hin|[Hin|[]]].
  - exact (Hl c Hin).
  - exact (Ht c Hin).
Qed.

Lemma evs_of_app a b : nofail a -> evs_of (a ++ b) = evs_of a ++ evs_of b.
Proof.
  induction a as [|t a IH]; intros Hn; [reflexivity|].
  assert (Hn' : nofail a) by (intros c Hin; apply (Hn c); right; exact Hin).
  destruct t as [|[e|c]]; cbn [app evs_of].
  - apply IH, Hn'.
  - rewrite IH by exact Hn'. apply app_assoc.
  - exfalso. apply (Hn c). left. reflexivity.
Qed.

(* ------------------------------------------------------------------ the invariant *)

(* program points before the read of a lock cycle / after its last read: nothing decrypted is left unread *)
Definition outside_read (p : pc) : bool :=
  match p with AtWait | AtSync | AtLock | AtUnlock => true | _ => false end.
(* the thread is on its way out *)
Definition leaving (p : pc) : bool :=
  match p with AtDrop | AtRet | Exited => true | _ => false end.
Definition lock_is_recv (s : st) : bool := match lock s with HeldByRecv => true | _ => false end.

Definition Inv (s : st) : Prop :=
  hist s = cons s ++ tls s ++ concat (sock s) ++ lost s /\
  (closed s <> Some Reset -> lost s = []) /\
  (outside_read (pcs s) = true -> tls s = []) /\
  lock_is_recv s = recv_inside s /\
  refs s = (match pcs s with Exited => 1 | _ => 2 end)%nat /\
  ((nofail (cons s) /\ out s = evs_of (cons s) /\
    (leaving (pcs s) = true -> sync s = false \/ (closed s <> None /\ tls s = [] /\ sock s = [])))
   \/
   (leaving (pcs s) = true /\ exists c0 c, cons s = c0 ++ [Fin (PFail c)] /\ nofail c0 /\ out s = evs_of c0)).

Lemma Inv_init : Inv init.
Proof.
  unfold Inv, init; cbn. repeat split; auto; try discriminate.
  left. split; [exact nofail_nil|]. split; [reflexivity|]. intros H; discriminate.
Qed.

Lemma Inv_tstep s s' : Inv s -> tstep repaired s = Some s' -> Inv s'.
Proof.
  dst s. unfold Inv, tstep, lock_is_recv, recv_inside, lock_free, set_read, set_pc, set_lock_pc. fld.
  intros (Hh & Hl & Hw & Hk & Hr & Hd) Hs.
  destruct p.
  - (* AtWait *)
    destruct (is_nil sk && match cl with None => true | Some _ => false end); [discriminate|].
    injection Hs as <-. fld. cbn [outside_read leaving] in *.
    destruct Hd as [(Hn & Ho & _)|(Hx & _)]; [|discriminate].
    repeat (split; [assumption || (intros; auto; fail)|]).
    left. split; [exact Hn|]. split; [exact Ho|]. intros H; discriminate.
  - (* AtSync *)
    injection Hs as <-. fld. cbn [outside_read leaving] in *.
    destruct Hd as [(Hn & Ho & _)|(Hx & _)]; [|discriminate].
    split; [exact Hh|]. split; [exact Hl|].
    split; [intros _; apply Hw; reflexivity|].
    split; [destruct sy; exact Hk|].
    split; [destruct sy; exact Hr|].
    left. split; [exact Hn|]. split; [exact Ho|].
    destruct sy; cbn; [intros H; discriminate|intros _; left; reflexivity].
  - (* AtLock *)
    destruct lk; try discriminate.
    injection Hs as <-. fld. cbn [outside_read leaving] in *.
    destruct Hd as [(Hn & Ho & _)|(Hx & _)]; [|discriminate].
    split; [exact Hh|]. split; [exact Hl|].
    split; [intros H; discriminate|].
    split; [reflexivity|]. split; [exact Hr|].
    left. split; [exact Hn|]. split; [exact Ho|]. intros H; discriminate.
  - (* AtRead *)
    cbn [outside_read leaving] in *.
    destruct Hd as [(Hn & Ho & _)|(Hx & _)]; [|discriminate].
    destruct tl as [|t rest].
    + destruct sk as [|r rs].
      * destruct cl as [k|]; [|discriminate]. injection Hs as <-. fld. cbn.
        split; [exact Hh|]. split; [exact Hl|].
        split; [intros H; discriminate|].
        split; [exact Hk|]. split; [exact Hr|].
        left. split; [exact Hn|]. split; [exact Ho|].
        intros _. right. split; [discriminate|]. split; reflexivity.
      * injection Hs as <-. fld. cbn [outside_read leaving].
        split; [rewrite Hh; cbn; rewrite <- app_assoc; reflexivity|].
        split; [exact Hl|]. split; [intros H; discriminate|].
        split; [exact Hk|]. split; [exact Hr|].
        left. split; [exact Hn|]. split; [exact Ho|]. intros H; discriminate.
    + assert (Hh' : h = (c ++ [t]) ++ rest ++ concat sk ++ l)
        by (rewrite Hh; rewrite <- app_assoc; reflexivity).
      destruct t as [|[evs|c0]]; injection Hs as <-; fld; cbn [outside_read leaving after_err repaired break_any drain andb].
      * split; [exact Hh'|]. split; [exact Hl|]. split; [intros H; discriminate|].
        split; [exact Hk|]. split; [exact Hr|].
        left. split; [apply nofail_snoc; [exact Hn|intros c1 H; discriminate]|].
        split; [rewrite evs_of_app by exact Hn; cbn; rewrite app_nil_r; exact Ho|].
        intros H; discriminate.
      * split; [exact Hh'|]. split; [exact Hl|].
        split; [destruct rest; cbn; [intros _; reflexivity|intros H; discriminate]|].
        split; [destruct rest; exact Hk|]. split; [destruct rest; exact Hr|].
        left. split; [apply nofail_snoc; [exact Hn|intros c1 H; discriminate]|].
        split; [rewrite evs_of_app by exact Hn; cbn; rewrite app_nil_r; rewrite Ho; reflexivity|].
        destruct rest; cbn; intros H; discriminate.
      * split; [exact Hh'|]. split; [exact Hl|]. split; [intros H; discriminate|].
        split; [exact Hk|]. split; [exact Hr|].
        right. split; [reflexivity|]. exists c, c0. split; [reflexivity|]. split; [exact Hn|exact Ho].
  - (* AtUnlock *)
    injection Hs as <-. fld. cbn [outside_read leaving] in *.
    destruct Hd as [(Hn & Ho & _)|(Hx & _)]; [|discriminate].
    split; [exact Hh|]. split; [exact Hl|].
    split; [intros _; apply Hw; reflexivity|].
    split; [reflexivity|]. split; [exact Hr|].
    left. split; [exact Hn|]. split; [exact Ho|]. intros H; discriminate.
  - (* AtDrop *)
    injection Hs as <-. fld. cbn [outside_read leaving] in *.
    split; [exact Hh|]. split; [exact Hl|].
    split; [intros H; discriminate|].
    split; [reflexivity|]. split; [exact Hr|].
    exact Hd.
  - (* AtRet *)
    injection Hs as <-. fld. cbn [outside_read leaving] in *.
    split; [exact Hh|]. split; [exact Hl|].
    split; [intros H; discriminate|].
    split; [exact Hk|]. split; [rewrite Hr; reflexivity|].
    exact Hd.
  - discriminate.
Qed.

(* the disjunct about what was delivered is stable when the connection state only moves forward *)
Lemma Inv_env a s : Inv s -> Inv (env_step a s).
Proof.
  dst s. unfold Inv, env_step, gui_put, lock_is_recv, recv_inside, lock_free, gui_holds, set_lock, set_lock_pc. fld.
  intros (Hh & Hl & Hw & Hk & Hr & Hd).
  destruct a as [r|k| | |n| |].
  - (* Send *)
    destruct cl as [k0|]; fld; [repeat split; assumption|].
    assert (Hl0 : l = []) by (apply Hl; discriminate). subst l.
    split; [rewrite Hh; rewrite concat_app; cbn; rewrite !app_nil_r; rewrite <- !app_assoc; reflexivity|].
    split; [intros _; reflexivity|]. split; [exact Hw|]. split; [exact Hk|]. split; [exact Hr|].
    destruct Hd as [(Hn & Ho & He)|Hx]; [|right; exact Hx].
    left. split; [exact Hn|]. split; [exact Ho|].
    intros Hp. destruct (He Hp) as [H|(H & _)]; [left; exact H|exfalso; apply H; reflexivity].
  - (* Close *)
    destruct cl as [k0|]; fld; [repeat split; assumption|].
    assert (Hl0 : l = []) by (apply Hl; discriminate). subst l.
    destruct k; fld.
    + split; [exact Hh|]. split; [intros _; reflexivity|]. split; [exact Hw|]. split; [exact Hk|]. split; [exact Hr|].
      destruct Hd as [(Hn & Ho & He)|Hx]; [|right; exact Hx].
      left. split; [exact Hn|]. split; [exact Ho|].
      intros Hp. destruct (He Hp) as [H|(H & _)]; [left; exact H|exfalso; apply H; reflexivity].
    + split; [exact Hh|]. split; [intros _; reflexivity|]. split; [exact Hw|]. split; [exact Hk|]. split; [exact Hr|].
      destruct Hd as [(Hn & Ho & He)|Hx]; [|right; exact Hx].
      left. split; [exact Hn|]. split; [exact Ho|].
      intros Hp. destruct (He Hp) as [H|(H & _)]; [left; exact H|exfalso; apply H; reflexivity].
    + split; [rewrite Hh; cbn; rewrite !app_nil_r; reflexivity|].
      split; [intros H; exfalso; apply H; reflexivity|]. split; [exact Hw|]. split; [exact Hk|]. split; [exact Hr|].
      destruct Hd as [(Hn & Ho & He)|Hx]; [|right; exact Hx].
      left. split; [exact Hn|]. split; [exact Ho|].
      intros Hp. destruct (He Hp) as [H|(H & _)]; [left; exact H|exfalso; apply H; reflexivity].
  - (* GuiStop *)
    fld. split; [exact Hh|]. split; [exact Hl|]. split; [exact Hw|]. split; [exact Hk|]. split; [exact Hr|].
    destruct Hd as [(Hn & Ho & He)|Hx]; [|right; exact Hx].
    left. split; [exact Hn|]. split; [exact Ho|]. intros _. left. reflexivity.
  - (* GuiLock *)
    destruct lk; fld; repeat split; try assumption.
  - (* GuiWrite *)
    destruct lk, ws, cl; fld; repeat split; try assumption.
  - (* GuiShutdown *)
    destruct lk, ws, cl; fld; repeat split; try assumption.
  - (* GuiUnlock *)
    destruct lk; fld; repeat split; try assumption.
Qed.

Lemma Inv_sched s x : Inv s -> Inv (sched_step repaired s x).
Proof.
  intros HI. destruct x as [a|]; cbn [sched_step]; [apply Inv_env; exact HI|].
  destruct (tstep repaired s) as [s'|] eqn:E; [eapply Inv_tstep; eauto|exact HI].
Qed.

Lemma Inv_run sc : forall s, Inv s -> Inv (run repaired sc s).
Proof.
  unfold run. induction sc as [|x sc IH]; intros s HI; cbn [fold_left]; [exact HI|].
  apply IH, Inv_sched, HI.
Qed.

Lemma Inv_steps s s' : steps s s' -> Inv s -> Inv s'.
Proof. induction 1; intros HI; [exact HI|]. apply IHsteps. eapply Inv_tstep; eauto. Qed.

(* ------------------------------------------------------------------ frames *)

(* thread steps do not touch the environment's own fields *)
Lemma tstep_frame v s s' :
  tstep v s = Some s' -> hist s' = hist s /\ closed s' = closed s /\ sync s' = sync s /\ outb s' = outb s /\ wshut s' = wshut s.
Proof.
  dst s. unfold tstep, lock_free, set_read, set_pc, set_lock_pc. fld.
  destruct p.
  - destruct (is_nil sk && match cl with None => true | Some _ => false end); [discriminate|].
    intros H; inversion H; subst; cbn; auto.
  - intros H; inversion H; subst; cbn; auto.
  - destruct lk; try discriminate. intros H; inversion H; subst; cbn; auto.
  - destruct tl as [|t rest].
    + destruct sk as [|r rs]; [destruct cl; [|discriminate]|]; intros H; inversion H; subst; cbn; auto.
    + destruct t as [|[e|c0]]; intros H; inversion H; subst; cbn; auto.
  - intros H; inversion H; subst; cbn; auto.
  - intros H; inversion H; subst; cbn; auto.
  - intros H; inversion H; subst; cbn; auto.
  - discriminate.
Qed.

Lemma steps_frame s s' : steps s s' -> hist s' = hist s /\ closed s' = closed s /\ sync s' = sync s.
Proof.
  induction 1; [auto|]. apply tstep_frame in H. destruct H as (A & B & C & _), IHsteps as (A' & B' & C').
  repeat split; congruence.
Qed.

(* actions of the GUI thread touch only `sync`, the mutex and the outbound side *)
Lemma gui_frame a s :
  silent (Some a) = true ->
  sock (env_step a s) = sock s /\ closed (env_step a s) = closed s /\ tls (env_step a s) = tls s /\
  pcs (env_step a s) = pcs s /\ out (env_step a s) = out s /\ hist (env_step a s) = hist s /\
  cons (env_step a s) = cons s /\ lost (env_step a s) = lost s /\ refs (env_step a s) = refs s.
Proof.
  dst s. unfold env_step, gui_put, lock_free, gui_holds, set_lock, set_lock_pc. fld.
  destruct a as [r|k| | |n| |]; cbn [silent]; try discriminate; intros _.
  - cbn. repeat split.
  - destruct lk; cbn; repeat split.
  - destruct lk, ws, cl; cbn; repeat split.
  - destruct lk, ws, cl; cbn; repeat split.
  - destruct lk; cbn; repeat split.
Qed.

Lemma gui_measure a s : silent (Some a) = true -> measure (env_step a s) = measure s.
Proof.
  intros H. destruct (gui_frame a s H) as (A & _ & B & C & _). unfold measure, ntok. rewrite A, B, C. reflexivity.
Qed.

(* a state in which the thread cannot move *)
Lemma quiet_cases s :
  tstep repaired s = None ->
  pcs s = Exited \/
  (pcs s = AtWait /\ sock s = [] /\ closed s = None) \/
  (pcs s = AtRead /\ tls s = [] /\ sock s = [] /\ closed s = None) \/
  (pcs s = AtLock /\ lock s <> Free).
Proof.
  dst s. unfold tstep, lock_free, set_read, set_pc, set_lock_pc. fld.
  destruct p; try discriminate.
  - destruct sk, cl; cbn; try discriminate. intros _. right. left. auto.
  - destruct lk; try discriminate; intros _; right; right; right; split; auto; discriminate.
  - destruct tl as [|t rest].
    + destruct sk; [destruct cl; [discriminate|]|discriminate]. intros _. right. right. left. auto.
    + destruct t as [|[e|c0]]; discriminate.
  - intros _. left. reflexivity.
Qed.

(* ... and is not waiting for the GUI either *)
Lemma settled_cases s :
  Inv s -> settled repaired s = true ->
  pcs s = Exited \/
  (pcs s = AtWait /\ sock s = [] /\ closed s = None) \/
  (pcs s = AtRead /\ tls s = [] /\ sock s = [] /\ closed s = None).
Proof.
  intros HI. unfold settled. destruct (tstep repaired s) eqn:E; [discriminate|]. intros Hm.
  destruct (quiet_cases s E) as [H|[H|[H|(Hp & Hl)]]]; auto.
  exfalso. destruct HI as (_ & _ & _ & Hk & _).
  unfold mutex_blocked, gui_holds in Hm. unfold lock_is_recv, recv_inside in Hk. rewrite Hp in *.
  destruct (lock s); try discriminate. apply Hl; reflexivity.
Qed.

(* ------------------------------------------------------------------ fairness: turns => the thread settles *)

Lemma mutex_blocked_stuck s : mutex_blocked s = true -> tstep repaired s = None.
Proof.
  dst s. unfold mutex_blocked, gui_holds, tstep, lock_free. fld. destruct p; try discriminate.
  destruct lk; try discriminate. reflexivity.
Qed.

Definition conn_open (s : st) : bool := match closed s with None => true | Some _ => false end.

Lemma settled_char s :
  settled repaired s =
  match pcs s with
  | Exited => true
  | AtWait => is_nil (sock s) && conn_open s
  | AtRead => is_nil (tls s) && is_nil (sock s) && conn_open s
  | AtLock => lock_is_recv s
  | _ => false
  end.
Proof.
  dst s. unfold settled, mutex_blocked, tstep, lock_free, gui_holds, lock_is_recv, conn_open, set_pc, set_lock_pc, set_read. fld.
  destruct p; try reflexivity.
  - destruct (is_nil sk && match cl with None => true | Some _ => false end); reflexivity.
  - destruct lk; reflexivity.
  - destruct tl as [|[|[e|c0]] rest]; cbn; try reflexivity.
    destruct sk; cbn; [|reflexivity]. destruct cl; reflexivity.
Qed.

Lemma gui_lock_is_recv a s : silent (Some a) = true -> lock_is_recv (env_step a s) = lock_is_recv s.
Proof.
  dst s. unfold env_step, gui_put, lock_free, gui_holds, lock_is_recv, set_lock, set_lock_pc. fld.
  destruct a as [r|k| | |n| |]; cbn [silent]; try discriminate; intros _; try reflexivity.
  - destruct lk; reflexivity.
  - destruct lk, ws, cl; reflexivity.
  - destruct lk, ws, cl; reflexivity.
  - destruct lk; reflexivity.
Qed.

Lemma settled_sched s x : silent x = true -> settled repaired s = true -> settled repaired (sched_step repaired s x) = true.
Proof.
  intros Hx Hs. destruct x as [a|]; cbn [sched_step].
  - rewrite settled_char in *. unfold conn_open in *.
    destruct (gui_frame a s Hx) as (A & B & C & D & _).
    rewrite A, B, C, D, (gui_lock_is_recv a s Hx). exact Hs.
  - unfold settled in Hs. destruct (tstep repaired s) eqn:E; [discriminate|].
    unfold settled. rewrite E. exact Hs.
Qed.

Lemma settled_run fin : forall s, forallb silent fin = true -> settled repaired s = true -> settled repaired (run repaired fin s) = true.
Proof.
  unfold run. induction fin as [|x r IH]; intros s Hf Hs; cbn [fold_left]; [exact Hs|].
  cbn [forallb] in Hf. apply andb_prop in Hf. destruct Hf as (Hx & Hr).
  apply IH; [exact Hr|]. apply settled_sched; assumption.
Qed.

(* the fairness lemma: a silent schedule that gives the thread more than [measure s] turns not wasted on a mutex
   held by the GUI brings the thread to rest *)
Lemma settles fin : forall s,
  forallb silent fin = true -> (measure s < turns repaired fin s)%nat -> settled repaired (run repaired fin s) = true.
Proof.
  induction fin as [|x r IH]; intros s Hf Ht; cbn [turns] in Ht; [lia|].
  cbn [forallb] in Hf. apply andb_prop in Hf. destruct Hf as (Hx & Hr).
  unfold run. cbn [fold_left]. fold (run repaired r (sched_step repaired s x)).
  destruct x as [a|].
  - apply IH; [exact Hr|]. cbn [sched_step] in *. rewrite gui_measure by exact Hx. lia.
  - cbn [sched_step] in *. destruct (mutex_blocked s) eqn:Em.
    + rewrite (mutex_blocked_stuck s Em) in *. apply IH; [exact Hr|lia].
    + destruct (tstep repaired s) as [s1|] eqn:E.
      * apply IH; [exact Hr|]. apply step_decreases in E. lia.
      * apply settled_run; [exact Hr|]. unfold settled. rewrite E, Em. reflexivity.
Qed.

(* never more steps than the measure, whatever the GUI does *)
Lemma moves_bound fin : forall s,
  forallb silent fin = true -> (moves repaired fin s + measure (run repaired fin s) <= measure s)%nat.
Proof.
  induction fin as [|x r IH]; intros s Hf; cbn [moves]; [cbn; lia|].
  cbn [forallb] in Hf. apply andb_prop in Hf. destruct Hf as (Hx & Hr).
  unfold run. cbn [fold_left]. fold (run repaired r (sched_step repaired s x)).
  specialize (IH (sched_step repaired s x) Hr).
  destruct x as [a|]; cbn [sched_step] in *.
  - rewrite gui_measure in IH by exact Hx. lia.
  - destruct (tstep repaired s) as [s1|] eqn:E; [apply step_decreases in E; lia|lia].
Qed.

(* a silent schedule leaves the server's side alone *)
Lemma silent_sched_frame s x :
  silent x = true ->
  hist (sched_step repaired s x) = hist s /\ closed (sched_step repaired s x) = closed s.
Proof.
  intros Hx. destruct x as [a|]; cbn [sched_step].
  - destruct (gui_frame a s Hx) as (_ & B & _ & _ & _ & F & _). auto.
  - destruct (tstep repaired s) as [s1|] eqn:E; [|auto]. apply tstep_frame in E. destruct E as (A & B & _). auto.
Qed.

Lemma silent_run_frame fin : forall s,
  forallb silent fin = true -> hist (run repaired fin s) = hist s /\ closed (run repaired fin s) = closed s.
Proof.
  unfold run. induction fin as [|x r IH]; intros s Hf; cbn [fold_left]; [auto|].
  cbn [forallb] in Hf. apply andb_prop in Hf. destruct Hf as (Hx & Hr).
  destruct (IH (sched_step repaired s x) Hr) as (A & B).
  destruct (silent_sched_frame s x Hx) as (A' & B'). split; congruence.
Qed.

(* ------------------------------------------------------------------ order *)

Lemma order_of_Inv s : Inv s -> exists rest, evs_of (hist s) = out s ++ rest.
Proof.
  intros (Hh & _ & _ & _ & _ & [(Hn & Ho & _)|(_ & c0 & c & Hc & Hn & Ho)]).
  - rewrite Hh, Ho. rewrite evs_of_app by exact Hn. eexists; reflexivity.
  - rewrite Hh, Hc, Ho. rewrite <- !app_assoc. rewrite evs_of_app by exact Hn. cbn.
    exists []. reflexivity.
Qed.

Lemma loop_order sc : exists rest, evs_of (hist (run repaired sc init)) = out (run repaired sc init) ++ rest.
Proof. apply order_of_Inv, Inv_run, Inv_init. Qed.

(* ------------------------------------------------------------------ never spins *)

Lemma loop_never_spins sc fin :
  forallb silent fin = true ->
  (moves repaired fin (run repaired sc init) <= measure (run repaired sc init))%nat.
Proof. intros Hf. pose proof (moves_bound fin (run repaired sc init) Hf). lia. Qed.

(* the thread alone (GUI idle) comes to rest within the fuel *)
Lemma loop_comes_to_rest sc :
  exists s', quiesce repaired (fuel_of (run repaired sc init)) (run repaired sc init) = RQuiet s'.
Proof.
  destruct (quiesce_quiet (fuel_of (run repaired sc init)) (run repaired sc init)) as (s' & Hq & _);
    [unfold fuel_of; lia|]. exists s'. exact Hq.
Qed.

(* ------------------------------------------------------------------ drains *)

(* SAFETY, no fairness: whenever the thread is at rest and not waiting for the GUI, everything sent was forwarded *)
Lemma drained_of_settled s :
  Inv s -> settled repaired s = true -> closed s <> Some Reset -> sync s = true ->
  out s = evs_of (hist s) /\ (pcs s <> Exited -> tls s = [] /\ sock s = [] /\ closed s = None).
Proof.
  intros HI Hs Hc Hsy.
  pose proof HI as (Hh & Hl & Hw & _ & _ & Hd).
  assert (Hl0 : lost s = []) by (apply Hl; exact Hc).
  destruct (settled_cases s HI Hs) as [Hp|[(Hp & Hk & Hcl)|(Hp & Ht & Hk & Hcl)]].
  - split; [|intros H; contradiction].
    destruct Hd as [(Hnf & Ho & He)|(_ & c0 & c & Hcs & Hnf & Ho)].
    + destruct He as [H|(_ & Ht & Hk)]; [rewrite Hp; reflexivity|rewrite Hsy in H; discriminate|].
      rewrite Hh, Ht, Hk, Hl0. cbn. rewrite app_nil_r. exact Ho.
    + rewrite Hh, Hcs, Ho. rewrite <- !app_assoc. rewrite evs_of_app by exact Hnf. cbn.
      rewrite app_nil_r. reflexivity.
  - assert (Ht : tls s = []) by (apply Hw; rewrite Hp; reflexivity).
    destruct Hd as [(Hnf & Ho & _)|(Hx & _)]; [|rewrite Hp in Hx; discriminate].
    split; [rewrite Hh, Ht, Hk, Hl0; cbn; rewrite app_nil_r; exact Ho|]. intros _. auto.
  - destruct Hd as [(Hnf & Ho & _)|(Hx & _)]; [|rewrite Hp in Hx; discriminate].
    split; [rewrite Hh, Ht, Hk, Hl0; cbn; rewrite app_nil_r; exact Ho|]. intros _. auto.
Qed.

Lemma loop_drained sc :
  let s := run repaired sc init in
  settled repaired s = true -> closed s <> Some Reset -> sync s = true ->
  out s = evs_of (hist s) /\ (pcs s <> Exited -> tls s = [] /\ sock s = [] /\ closed s = None).
Proof. intros s. apply drained_of_settled, Inv_run, Inv_init. Qed.

(* LIVENESS under fairness *)
Lemma loop_drains sc fin :
  let s := run repaired sc init in
  let s' := run repaired fin s in
  forallb silent fin = true -> (fuel_of s <= turns repaired fin s)%nat ->
  closed s <> Some Reset -> sync s' = true ->
  out s' = evs_of (hist s) /\ (pcs s' <> Exited -> tls s' = [] /\ sock s' = [] /\ closed s' = None).
Proof.
  intros s s' Hf Ht Hc Hsy.
  destruct (silent_run_frame fin s Hf) as (Fh & Fc). fold s' in Fh, Fc.
  rewrite <- Fh. apply drained_of_settled; [apply Inv_run, Inv_run, Inv_init| |rewrite Fc; exact Hc|exact Hsy].
  apply settles; [exact Hf|]. unfold fuel_of in Ht. lia.
Qed.

(* ------------------------------------------------------------------ stops with the session *)

Definition ended (s : st) : Prop := closed s <> None \/ exists c, In (Fin (PFail c)) (hist s).

Lemma ended_env a s : ended s -> ended (env_step a s).
Proof.
  destruct (silent (Some a)) eqn:Hs.
  - destruct (gui_frame a s Hs) as (_ & B & _ & _ & _ & F & _). unfold ended. rewrite B, F. auto.
  - dst s. unfold ended, env_step. fld.
    intros [H|(c1 & H)].
    + left. destruct a as [r|[]| | |n| |]; try discriminate; destruct cl; fld; try discriminate; exfalso; apply H; reflexivity.
    + destruct a as [r|[]| | |n| |]; try discriminate; destruct cl; fld; try (left; discriminate);
        right; exists c1; try exact H.
      apply in_or_app. left. exact H.
Qed.

Lemma ended_sched s x : ended s -> ended (sched_step repaired s x).
Proof.
  intros He. destruct x as [a|]; cbn [sched_step]; [apply ended_env; exact He|].
  destruct (tstep repaired s) as [s'|] eqn:E; [|exact He].
  apply tstep_frame in E. destruct E as (A & B & _). unfold ended. rewrite A, B. exact He.
Qed.

Lemma ended_run sc : forall s, ended s -> ended (run repaired sc s).
Proof.
  unfold run. induction sc as [|x sc IH]; intros s He; cbn [fold_left]; [exact He|].
  apply IH, ended_sched, He.
Qed.

Lemma end_action_ends k s : ended (env_step (end_action k) s).
Proof.
  dst s. unfold ended, env_step, end_action.
  destruct cl as [k0|].
  - destruct k as [|c0|k1]; cbn; left; discriminate.
  - destruct k as [|c0|k1]; cbn.
    + right. exists ERdp. apply in_or_app. right. left. reflexivity.
    + right. exists c0. apply in_or_app. right. left. reflexivity.
    + left. destruct k1; discriminate.
Qed.

(* SAFETY, no fairness: once the session has ended the thread cannot be at rest anywhere but at its exit *)
Lemma exited_of_settled s : Inv s -> ended s -> settled repaired s = true -> pcs s = Exited.
Proof.
  intros HI He Hs.
  pose proof HI as (Hh & Hl & Hw & _ & _ & Hd).
  assert (Hblocked : pcs s <> Exited -> tls s = [] -> sock s = [] -> closed s = None -> False).
  { intros Hp Ht Hk Hcl.
    destruct He as [Hc|(c1 & Hin)]; [apply Hc; exact Hcl|].
    destruct Hd as [(Hnf & _)|(Hx & c0 & c & Hcs & _)].
    - assert (Hl0 : lost s = []) by (apply Hl; rewrite Hcl; discriminate).
      rewrite Hh, Ht, Hk, Hl0 in Hin. cbn in Hin. rewrite app_nil_r in Hin.
      exact (Hnf c1 Hin).
    - destruct (settled_cases s HI Hs) as [H|[(H & _)|(H & _)]]; [contradiction|rewrite H in Hx; discriminate..]. }
  destruct (settled_cases s HI Hs) as [Hp|[(Hp & Hk & Hcl)|(Hp & Ht & Hk & Hcl)]]; [exact Hp| |].
  - exfalso. apply Hblocked; [rewrite Hp; discriminate|apply Hw; rewrite Hp; reflexivity|exact Hk|exact Hcl].
  - exfalso. apply Hblocked; [rewrite Hp; discriminate|exact Ht|exact Hk|exact Hcl].
Qed.

(* the client is released when the thread has ended *)
Lemma released_of_exited s : Inv s -> pcs s = Exited -> released s = true /\ refs s = 1%nat /\ lock s <> HeldByRecv.
Proof.
  intros (_ & _ & _ & Hk & Hr & _) Hp. unfold released, lock_is_recv, recv_inside in *. rewrite Hp in *.
  rewrite Hr. destruct (lock s); try discriminate; repeat split; discriminate.
Qed.

Lemma loop_terminates sc k more fin :
  let s := run repaired (sc ++ [Some (end_action k)] ++ more) init in
  let s' := run repaired fin s in
  forallb silent fin = true -> (fuel_of s <= turns repaired fin s)%nat ->
  pcs s' = Exited /\ released s' = true.
Proof.
  intros s s' Hf Ht.
  assert (HI : Inv s') by (apply Inv_run, Inv_run, Inv_init).
  assert (Hp : pcs s' = Exited).
  { apply exited_of_settled; [exact HI| |apply settles; [exact Hf|unfold fuel_of in Ht; lia]].
    apply ended_run. subst s. unfold run. rewrite !fold_left_app. apply ended_run. cbn [fold_left sched_step].
    apply end_action_ends. }
  split; [exact Hp|]. apply released_of_exited; assumption.
Qed.

Lemma loop_exited_if_settled sc k more :
  let s := run repaired (sc ++ [Some (end_action k)] ++ more) init in
  settled repaired s = true -> pcs s = Exited.
Proof.
  intros s. apply exited_of_settled; [apply Inv_run, Inv_init|].
  subst s. unfold run. rewrite !fold_left_app. apply ended_run. cbn [fold_left sched_step]. apply end_action_ends.
Qed.

Lemma loop_release sc :
  let s := run repaired sc init in
  (pcs s = Exited -> released s = true /\ refs s = 1%nat /\ lock s <> HeldByRecv /\
                     (lock s = Free \/ lock (env_step GuiUnlock s) = Free)) /\
  (pcs s <> Exited -> released s = false /\ refs s = 2%nat).
Proof.
  intros s. assert (HI : Inv s) by (apply Inv_run, Inv_init). split.
  - intros Hp. destruct (released_of_exited s HI Hp) as (A & B & C). repeat split; auto.
    unfold env_step, gui_holds, set_lock, set_lock_pc. destruct (lock s) eqn:E; auto. exfalso. apply C; reflexivity.
  - intros Hp. destruct HI as (_ & _ & _ & _ & Hr & _). unfold released. rewrite Hr.
    destruct (pcs s); try (split; reflexivity). exfalso; apply Hp; reflexivity.
Qed.

(* ------------------------------------------------------------------ the mutex *)

Lemma loop_mutex_exclusion sc :
  let s := run repaired sc init in
  (recv_inside s = true <-> lock s = HeldByRecv) /\
  ~ (recv_inside s = true /\ gui_holds s = true) /\
  (* the GUI's accesses to the client (the only actions that change the outbound side) happen outside the
     thread's critical section *)
  (forall a, outb (env_step a s) <> outb s \/ wshut (env_step a s) <> wshut s ->
             gui_holds s = true /\ recv_inside s = false).
Proof.
  intros s. assert (HI : Inv s) by (apply Inv_run, Inv_init).
  destruct HI as (_ & _ & _ & Hk & _). unfold lock_is_recv, gui_holds in *.
  split; [|split].
  - rewrite <- Hk. destruct (lock s); split; intros H; try discriminate; reflexivity.
  - intros (A & B). rewrite <- Hk in A. destruct (lock s); discriminate.
  - intros a Ha.
    assert (Hg : match lock s with HeldByGui => true | _ => false end = true).
    { revert Ha. generalize s. intros t. dst t. unfold env_step, gui_put, lock_free, gui_holds, set_lock, set_lock_pc. fld.
      destruct a as [r|k| | |n| |]; try (destruct cl as [?|]; try destruct k); fld;
        try (intros [H|H]; exfalso; apply H; reflexivity);
        destruct lk; fld; try (intros [H|H]; exfalso; apply H; reflexivity); reflexivity. }
    split; [exact Hg|]. rewrite <- Hk. destruct (lock s); try discriminate; reflexivity.
Qed.

(* who waits for whom *)
Definition waits_for_server (s : st) : Prop :=
  (pcs s = AtWait /\ sock s = [] /\ closed s = None) \/
  (pcs s = AtRead /\ tls s = [] /\ sock s = [] /\ closed s = None).

Lemma loop_no_deadlock sc :
  let s := run repaired sc init in
  (* the receive thread: can step, or is gone, or waits for the server, or waits for a mutex that the GUI holds
     and can release at once -- after which the thread can step *)
  (tstep repaired s <> None \/ pcs s = Exited \/ waits_for_server s \/
   (pcs s = AtLock /\ lock s = HeldByGui /\ tstep repaired (env_step GuiUnlock s) <> None)) /\
  (* the GUI thread: its lock() can block only on a mutex held by the receive thread, which then can step or
     waits for the server in the middle of a PDU *)
  (lock s <> Free -> lock s <> HeldByGui ->
   recv_inside s = true /\ (tstep repaired s <> None \/ (pcs s = AtRead /\ tls s = [] /\ sock s = [] /\ closed s = None))) /\
  (* never both waiting for the mutex *)
  (lock s = Free -> pcs s = AtLock -> tstep repaired s <> None).
Proof.
  intros s. assert (HI : Inv s) by (apply Inv_run, Inv_init).
  pose proof HI as (_ & _ & _ & Hk & _). unfold lock_is_recv, recv_inside in Hk.
  split; [|split].
  - destruct (tstep repaired s) as [s1|] eqn:E; [left; discriminate|right].
    destruct (quiet_cases s E) as [H|[H|[H|(Hp & Hl)]]]; auto.
    + right. left. left. exact H.
    + right. left. right. exact H.
    + right. right. split; [exact Hp|]. rewrite Hp in Hk.
      destruct (lock s) eqn:El; try discriminate; [exfalso; apply Hl; reflexivity|].
      split; [reflexivity|].
      revert Hp El. generalize s. intros t. dst t. unfold tstep, env_step, gui_holds, lock_free, set_lock, set_lock_pc. fld.
      intros -> ->. cbn. discriminate.
  - intros H1 H2. destruct (lock s) eqn:El; try (exfalso; auto; fail).
    split; [symmetry; exact Hk|].
    destruct (tstep repaired s) as [s1|] eqn:E; [left; discriminate|right].
    destruct (quiet_cases s E) as [H|[(H & _)|[H|(H & _)]]]; auto; rewrite H in Hk; discriminate.
  - intros Hl Hp. revert Hl Hp. generalize s. intros t. dst t. unfold tstep, lock_free. fld.
    intros -> ->. discriminate.
Qed.

(* ------------------------------------------------------------------ GUI writes do not disturb the receive side *)

Definition erase_writes (sc : list (option action)) : list (option action) :=
  filter (fun x => negb (is_gui_write x)) sc.

Lemma view_sched v s s' x :
  recv_view s = recv_view s' -> recv_view (sched_step v s x) = recv_view (sched_step v s' x).
Proof.
  dst s. destruct s' as [sk' cl' tl' sy' p' o' lk' rf' ob' ws' h' c' l'].
  unfold recv_view. fld. intros H. injection H as -> -> -> -> -> -> -> -> -> -> ->.
  destruct x as [a|]; cbn [sched_step].
  - unfold env_step, gui_put, lock_free, gui_holds, set_lock, set_lock_pc. fld.
    destruct a as [r|k| | |n| |]; try (destruct cl' as [?|]; try destruct k); fld; try reflexivity;
      destruct lk'; fld; try reflexivity; destruct ws, ws'; fld; reflexivity.
  - unfold tstep, lock_free, set_pc, set_lock_pc, set_read. fld.
    destruct p'; fld; try reflexivity.
    + destruct (is_nil sk' && match cl' with None => true | Some _ => false end); reflexivity.
    + destruct lk'; reflexivity.
    + destruct tl' as [|[|[e|c0]] rest]; fld; try reflexivity.
      destruct sk'; fld; [|reflexivity]. destruct cl'; reflexivity.
Qed.

Lemma view_write v s x : is_gui_write x = true -> recv_view (sched_step v s x) = recv_view s.
Proof.
  dst s. destruct x as [[r|k| | |n| |]|]; cbn [is_gui_write]; try discriminate; intros _;
    cbn [sched_step env_step]; unfold gui_put, gui_holds, recv_view; fld;
    destruct lk, ws, cl; reflexivity.
Qed.

Lemma view_run v sc : forall s s',
  recv_view s = recv_view s' -> recv_view (run v sc s) = recv_view (run v (erase_writes sc) s').
Proof.
  unfold run. induction sc as [|x r IH]; intros s s' H; cbn [fold_left erase_writes filter]; [exact H|].
  destruct (is_gui_write x) eqn:E; cbn [negb].
  - apply IH. rewrite view_write by exact E. exact H.
  - cbn [fold_left]. apply IH. apply view_sched. exact H.
Qed.

Lemma loop_gui_writes sc :
  recv_view (run repaired sc init) = recv_view (run repaired (erase_writes sc) init) /\
  out (run repaired sc init) = out (run repaired (erase_writes sc) init) /\
  pcs (run repaired sc init) = pcs (run repaired (erase_writes sc) init).
Proof.
  pose proof (view_run repaired sc init init eq_refl) as H. split; [exact H|].
  unfold recv_view in H. injection H. intros. auto.
Qed.

(* ------------------------------------------------------------------ the GUI stops the thread *)

(* `sync` is cleared and the thread is outside its lock cycle: it will not read again *)
Definition stopping (s : st) : bool :=
  negb (sync s) && match pcs s with AtWait | AtSync | AtRet | Exited => true | _ => false end.

Definition readable (s : st) : bool := negb (is_nil (sock s)) || negb (conn_open s).

Lemma stopping_sched s x :
  stopping s = true ->
  stopping (sched_step repaired s x) = true /\ out (sched_step repaired s x) = out s /\
  (readable s = true -> readable (sched_step repaired s x) = true).
Proof.
  dst s. unfold stopping, readable, conn_open. fld. intros H. apply andb_prop in H. destruct H as (Hsy & Hp).
  destruct sy; [discriminate|]. clear Hsy.
  destruct x as [a|]; cbn [sched_step].
  - unfold env_step, gui_put, lock_free, gui_holds, set_lock, set_lock_pc. fld.
    destruct a as [r|k| | |n| |]; try (destruct cl as [?|]; try destruct k); fld;
      try (destruct lk; fld; try (destruct ws; fld)); repeat split; auto;
      destruct sk; cbn; auto.
  - unfold tstep, lock_free, set_pc, set_lock_pc, set_read. fld.
    destruct p; try discriminate; fld; auto.
    destruct (is_nil sk && match cl with None => true | Some _ => false end); fld; auto.
Qed.

Lemma stopping_run more : forall s,
  stopping s = true ->
  stopping (run repaired more s) = true /\ out (run repaired more s) = out s /\
  (readable s = true -> readable (run repaired more s) = true).
Proof.
  unfold run. induction more as [|x r IH]; intros s H; cbn [fold_left]; [auto|].
  destruct (stopping_sched s x H) as (A & B & C). destruct (IH _ A) as (A' & B' & C').
  split; [exact A'|]. split; [congruence|auto].
Qed.

(* After GuiStop, with the thread in (or on its way back to) select: whatever happens next -- server traffic of
   any kind included -- nothing more is forwarded; and once the socket is readable (traffic, or the end of the
   connection) a fair silent schedule takes the thread to its exit and the client is released. *)
Lemma loop_stop_by_gui sc more fin :
  let s := run repaired sc init in
  let s1 := run repaired more s in
  let s2 := run repaired fin s1 in
  stopping s = true ->
  out s2 = out s /\
  (readable s1 = true -> forallb silent fin = true -> (fuel_of s1 <= turns repaired fin s1)%nat ->
   pcs s2 = Exited /\ released s2 = true).
Proof.
  intros s s1 s2 Hst.
  destruct (stopping_run more s Hst) as (A1 & B1 & _). fold s1 in A1, B1.
  destruct (stopping_run fin s1 A1) as (A2 & B2 & C2). fold s2 in A2, B2, C2.
  split; [congruence|]. intros Hr Hf Ht.
  assert (HI : Inv s2) by (apply Inv_run, Inv_run, Inv_run, Inv_init).
  assert (Hs : settled repaired s2 = true) by (apply settles; [exact Hf|unfold fuel_of in Ht; lia]).
  assert (Hp : pcs s2 = Exited).
  { destruct (settled_cases s2 HI Hs) as [Hp|[(Hp & Hk & Hcl)|(Hp & _)]]; [exact Hp| |].
    - specialize (C2 Hr). unfold readable, conn_open in C2. rewrite Hk, Hcl in C2. discriminate.
    - unfold stopping in A2. rewrite Hp in A2. rewrite andb_false_r in A2. discriminate. }
  split; [exact Hp|]. apply released_of_exited; assumption.
Qed.

(* From ANY moment of the cycle: once `sync` is cleared a fair silent schedule takes the thread to its exit or
   to a wait for the server (select on an empty open socket, or the rest of a half-received PDU) *)
Lemma loop_stop_settles sc fin :
  let s := run repaired sc init in
  let s' := run repaired fin s in
  forallb silent fin = true -> (fuel_of s <= turns repaired fin s)%nat ->
  pcs s' = Exited \/ waits_for_server s'.
Proof.
  intros s s' Hf Ht.
  assert (HI : Inv s') by (apply Inv_run, Inv_run, Inv_init).
  assert (Hs : settled repaired s' = true) by (apply settles; [exact Hf|unfold fuel_of in Ht; lia]).
  destruct (settled_cases s' HI Hs) as [H|[H|H]]; [left; exact H|right; left; exact H|right; right; exact H].
Qed.

(* ... and a wait in select on an empty, open socket is not ended by anything the GUI does: not by clearing
   `sync`, not by its final shutdown() (ultimatum + close_notify go OUT; nothing comes in).  The thread is
   woken only by the server. *)
Lemma select_needs_server fin : forall s,
  pcs s = AtWait -> sock s = [] -> closed s = None -> forallb silent fin = true ->
  pcs (run repaired fin s) = AtWait /\ refs (run repaired fin s) = refs s /\ out (run repaired fin s) = out s.
Proof.
  unfold run. induction fin as [|x r IH]; intros s Hp Hk Hc Hf; cbn [fold_left]; [auto|].
  cbn [forallb] in Hf. apply andb_prop in Hf. destruct Hf as (Hx & Hr).
  assert (H : pcs (sched_step repaired s x) = AtWait /\ sock (sched_step repaired s x) = [] /\
              closed (sched_step repaired s x) = None /\ refs (sched_step repaired s x) = refs s /\
              out (sched_step repaired s x) = out s).
  { destruct x as [a|]; cbn [sched_step].
    - destruct (gui_frame a s Hx) as (A & B & _ & D & E & _ & _ & _ & F). rewrite A, B, D, E, F. auto.
    - unfold tstep. rewrite Hp, Hk, Hc. cbn. auto. }
  destruct H as (A & B & C & D & E). destruct (IH _ A B C Hr) as (A' & B' & C').
  split; [exact A'|]. split; congruence.
Qed.

Definition stop_sched : list (option action) := [Some GuiStop; Some GuiLock; Some GuiShutdown; Some GuiUnlock].

Lemma stop_needs_wakeup fin :
  forallb silent fin = true ->
  let s := run repaired (stop_sched ++ fin) init in
  pcs s = AtWait /\ refs s = 2%nat /\ released s = false /\ sync s = false /\
  outb s = [WUltimatum; WCloseNotify].
Proof.
  intros Hf s. subst s. unfold run. rewrite fold_left_app.
  set (s0 := fold_left (sched_step repaired) stop_sched init).
  destruct (select_needs_server fin s0 eq_refl eq_refl eq_refl Hf) as (A & B & _).
  fold (run repaired fin s0) in *.
  split; [exact A|]. split; [rewrite B; reflexivity|]. split; [unfold released; rewrite A; reflexivity|].
  assert (G : forall fin s, forallb silent fin = true -> sync s = false -> wshut s = true ->
              sync (run repaired fin s) = false /\ outb (run repaired fin s) = outb s).
  { clear. unfold run. induction fin as [|x r IH]; intros s Hf Hsy Hw; cbn [fold_left]; [auto|].
    cbn [forallb] in Hf. apply andb_prop in Hf. destruct Hf as (Hx & Hr).
    assert (H : sync (sched_step repaired s x) = false /\ wshut (sched_step repaired s x) = true /\
                outb (sched_step repaired s x) = outb s).
    { destruct x as [a|]; cbn [sched_step].
      - revert Hsy Hw. dst s. fld. intros -> ->.
        unfold env_step, gui_put, lock_free, gui_holds, set_lock, set_lock_pc. fld.
        destruct a as [r0|k| | |n| |]; cbn [silent] in Hx; try discriminate; fld; auto;
          destruct lk; fld; auto.
      - destruct (tstep repaired s) as [s1|] eqn:E; [|auto]. apply tstep_frame in E.
        destruct E as (_ & _ & C & D & F). rewrite C, D, F. auto. }
    destruct H as (A & B & C). destruct (IH _ Hr A B) as (A' & B'). split; congruence. }
  destruct (G fin s0 Hf eq_refl eq_refl) as (G1 & G2). rewrite G1, G2. split; reflexivity.
Qed.

(* ------------------------------------------------------------------ the fairness hypothesis: satisfiable, and needed *)

(* a concrete shape of fair schedules: rounds, each made of any GUI activity that ends by releasing the mutex,
   followed by one turn of the thread ("every lock acquisition is followed by its unlock before the thread's turn") *)
Definition round (g : list action) : list (option action) := map Some g ++ [Some GuiUnlock; None].

Lemma turns_app v a : forall b s, turns v (a ++ b) s = (turns v a s + turns v b (run v a s))%nat.
Proof.
  unfold run. induction a as [|x r IH]; intros b s; cbn [app turns fold_left]; [reflexivity|].
  rewrite IH. lia.
Qed.

Lemma turns_round v g s : (1 <= turns v (round g) s)%nat.
Proof.
  unfold round. rewrite turns_app. cbn [turns sched_step].
  set (s1 := run v (map Some g) s).
  assert (H : mutex_blocked (env_step GuiUnlock s1) = false).
  { generalize s1. intros t. dst t. unfold mutex_blocked, env_step, gui_holds, set_lock, set_lock_pc. fld.
    destruct lk; fld; destruct p; reflexivity. }
  rewrite H. lia.
Qed.

Lemma turns_rounds v gs : forall s, (length gs <= turns v (concat (map round gs)) s)%nat.
Proof.
  induction gs as [|g r IH]; intros s; cbn [map concat length]; [lia|].
  rewrite turns_app. pose proof (turns_round v g s). specialize (IH (run v (round g) s)). lia.
Qed.

Lemma silent_rounds gs :
  Forall (fun g => forallb (fun a => silent (Some a)) g = true) gs -> forallb silent (concat (map round gs)) = true.
Proof.
  induction 1 as [|g r Hg _ IH]; [reflexivity|]. cbn [map concat]. rewrite forallb_app, IH, andb_true_r.
  unfold round. rewrite forallb_app. cbn. rewrite andb_true_r.
  clear -Hg. induction g as [|a g IH]; [reflexivity|]. cbn in *. apply andb_prop in Hg. destruct Hg as (A & B).
  rewrite A, IH by exact B. reflexivity.
Qed.

Lemma loop_terminates_rounds sc k more gs :
  let s := run repaired (sc ++ [Some (end_action k)] ++ more) init in
  Forall (fun g => forallb (fun a => silent (Some a)) g = true) gs -> (fuel_of s <= length gs)%nat ->
  pcs (run repaired (concat (map round gs)) s) = Exited /\ released (run repaired (concat (map round gs)) s) = true.
Proof.
  intros s Hg Hn. apply loop_terminates; [apply silent_rounds; exact Hg|].
  pose proof (turns_rounds repaired gs s). fold s. lia.
Qed.

(* NEEDED (1): a GUI that takes the mutex and never releases it keeps the thread from ever reading again -- whatever
   the server sends, however the session ends, however many turns the thread gets *)
Definition before_lock (p : pc) : bool := match p with AtWait | AtSync | AtLock => true | _ => false end.
Definition keeps_holding (x : option action) : Prop := x <> Some GuiUnlock /\ x <> Some GuiStop.

Lemma held_forever fin : forall s,
  lock s = HeldByGui -> sync s = true -> before_lock (pcs s) = true ->
  Forall keeps_holding fin ->
  let s' := run repaired fin s in
  lock s' = HeldByGui /\ sync s' = true /\ before_lock (pcs s') = true /\ out s' = out s.
Proof.
  unfold run. induction fin as [|x r IH]; intros s Hl Hsy Hp Hf; cbn [fold_left]; [auto|].
  inversion Hf as [|? ? (Hx & Hx') Hr]; subst.
  assert (H : lock (sched_step repaired s x) = HeldByGui /\ sync (sched_step repaired s x) = true /\
              before_lock (pcs (sched_step repaired s x)) = true /\ out (sched_step repaired s x) = out s).
  { revert Hl Hsy Hp. dst s. fld. intros -> -> Hp.
    destruct x as [a|]; cbn [sched_step].
    - unfold env_step, gui_put, lock_free, gui_holds, set_lock, set_lock_pc. fld.
      destruct a as [r0|k| | |n| |]; try (exfalso; apply Hx; reflexivity); try (exfalso; apply Hx'; reflexivity);
        try (destruct cl as [?|]; try destruct k); fld; try (destruct ws; fld); auto.
    - unfold tstep, lock_free, set_pc, set_lock_pc, set_read. fld.
      destruct p; try discriminate; fld; auto.
      destruct (is_nil sk && match cl with None => true | Some _ => false end); fld; auto. }
  destruct H as (A & B & C & D). destruct (IH _ A B C Hr) as (A' & B' & C' & D').
  repeat split; auto. congruence.
Qed.

Lemma fairness_needed_hold k fin :
  Forall keeps_holding fin ->
  let s := run repaired ([Some GuiLock; Some (Send [Fin (PEvents [1])]); Some (end_action k)] ++ fin) init in
  pcs s <> Exited /\ out s = [] /\ released s = false.
Proof.
  intros Hf s. subst s. unfold run. rewrite fold_left_app.
  set (s0 := fold_left (sched_step repaired) [Some GuiLock; Some (Send [Fin (PEvents [1])]); Some (end_action k)] init).
  assert (H0 : lock s0 = HeldByGui /\ sync s0 = true /\ pcs s0 = AtWait /\ out s0 = []) by (destruct k as [|c|[]]; repeat split; reflexivity).
  destruct H0 as (A & A' & B & C).
  destruct (held_forever fin s0 A A') as (_ & _ & P & O); [rewrite B; reflexivity|exact Hf|].
  fold (run repaired fin s0) in *.
  assert (Hp : pcs (run repaired fin s0) <> Exited) by (intros E; rewrite E in P; discriminate).
  split; [exact Hp|]. split; [congruence|].
  unfold released. destruct (pcs (run repaired fin s0)); try reflexivity. exfalso; apply Hp; reflexivity.
Qed.

(* NEEDED (2): it is not enough that the GUI releases the mutex again and again; the thread must get a turn while
   the mutex is free.  A GUI that unlocks and locks again between any two turns of the thread starves it. *)
Definition starve_round : list (option action) := [Some GuiUnlock; Some GuiLock; None].

Lemma starved n : forall s0,
  pcs s0 = AtLock -> lock s0 = HeldByGui ->
  let s := run repaired (concat (repeat starve_round n)) s0 in
  pcs s = AtLock /\ lock s = HeldByGui /\ turns repaired (concat (repeat starve_round n)) s0 = O.
Proof.
  induction n as [|m IH]; intros s0 A B; cbn [repeat concat]; [cbn; auto|].
  unfold run. rewrite fold_left_app. rewrite turns_app.
  assert (H1 : run repaired starve_round s0 = s0 /\ turns repaired starve_round s0 = O).
  { revert A B. dst s0. fld. intros -> ->. split; reflexivity. }
  destruct H1 as (E1 & E2). fold (run repaired starve_round s0). rewrite E1, E2.
  apply IH; assumption.
Qed.

Lemma fairness_needed_starve k n :
  let s0 := run repaired [Some GuiLock; Some (end_action k); None; None] init in
  let s := run repaired (concat (repeat starve_round n)) s0 in
  pcs s = AtLock /\ lock s = HeldByGui /\ released s = false /\ turns repaired (concat (repeat starve_round n)) s0 = O.
Proof.
  intros s0 s.
  assert (H0 : pcs s0 = AtLock /\ lock s0 = HeldByGui) by (destruct k as [|c|[]]; split; reflexivity).
  destruct H0 as (A & B). destruct (starved n s0 A B) as (P & L & T). fold s in P, L.
  repeat split; auto. unfold released. rewrite P. reflexivity.
Qed.

(* ------------------------------------------------------------------ the loop as found (witnesses) *)

Definition dead : st := env_step (Close CloseNotify) init.

Lemma original_spins : forall fuel, exists s, quiesce original fuel dead = RSpin s.
Proof.
  assert (H : forall fuel,
             (exists s, quiesce original fuel dead = RSpin s) /\
             (exists s, quiesce original fuel (set_pc dead AtSync) = RSpin s) /\
             (exists s, quiesce original fuel (set_pc dead AtLock) = RSpin s) /\
             (exists s, quiesce original fuel (set_lock_pc dead HeldByRecv AtRead) = RSpin s) /\
             (exists s, quiesce original fuel (set_lock_pc dead HeldByRecv AtUnlock) = RSpin s)).
  { induction fuel as [|f (H0 & H1 & H2 & H3 & H4)]; [repeat split; eexists; reflexivity|].
    repeat split.
    - destruct H1 as (s & H1). exists s. exact H1.
    - destruct H2 as (s & H2). exists s. exact H2.
    - destruct H3 as (s & H3). exists s. exact H3.
    - destruct H4 as (s & H4). exists s. exact H4.
    - destruct H0 as (s & H0). exists s. exact H0. }
  intros fuel. apply H.
Qed.

(* ... taking the client mutex in turns: it is held at two of the five program points of every iteration *)
Lemma original_spins_with_mutex :
  lock (set_lock_pc dead HeldByRecv AtRead) = HeldByRecv /\
  tstep original (set_pc dead AtLock) = Some (set_lock_pc dead HeldByRecv AtRead).
Proof. split; reflexivity. Qed.

(* two PDUs in one TLS record: the original loop reads one, goes back to select and waits for
   MORE traffic with the second PDU (here: even a disconnect ultimatum) sitting in the TLS buffer *)
Definition coalesced : st := env_step (Send [Fin (PEvents [1]); Fin (PEvents [2]); Fin (PFail ERdp)]) init.

Lemma original_stalls :
  exists s', quiesce original (fuel_of coalesced) coalesced = RQuiet s' /\
             pcs s' = AtWait /\ out s' = [1] /\ tls s' = [Fin (PEvents [2]); Fin (PFail ERdp)] /\
             sock s' = [] /\ closed s' = None /\ lock s' = Free.
Proof. eexists. split; [vm_compute; reflexivity|]. repeat split. Qed.

Lemma repaired_on_witnesses :
  (exists s', quiesce repaired (fuel_of dead) dead = RQuiet s' /\ pcs s' = Exited /\ released s' = true) /\
  (exists s', quiesce repaired (fuel_of coalesced) coalesced = RQuiet s' /\ pcs s' = Exited /\ out s' = [1; 2] /\ released s' = true).
Proof. split; eexists; (split; [vm_compute; reflexivity|]); repeat split. Qed.

(* ------------------------------------------------------------------ non-vacuity *)

(* a packing that splits and coalesces at once, scheduled with thread steps in between, WHILE the GUI takes the
   mutex, writes input and releases it at awkward moments (data arriving while it holds the mutex; the session
   ending while it holds the mutex), and then a fair silent tail of lock/write/unlock rounds *)
Definition ex_sched : list (option action) :=
  [Some (Send [Frag]); None; None; None; None; None;             (* the thread sits in a read, half a PDU, mutex held *)
   Some GuiLock;                                                  (* the GUI's lock() blocks *)
   Some (Send [Fin (PEvents [7])]); None; None; None;             (* rest of the PDU: event 7, mutex released *)
   Some GuiLock; Some (GuiWrite 1);                               (* now the GUI gets it *)
   Some (Send [Frag; Fin (PEvents [8; 9]); Fin (PEvents [])]);    (* data arrives while the GUI holds the mutex *)
   None; None; None;                                              (* the thread wakes up and blocks in lock() *)
   Some (GuiWrite 2); Some (Close AbruptFin); None].              (* the session ends while the GUI holds the mutex *)

Definition ex_tail : list (option action) :=
  concat (map round (repeat [GuiLock; GuiWrite 3] 40)).

Lemma ex_run :
  let s := run repaired ex_sched init in
  let s' := run repaired ex_tail s in
  forallb silent ex_tail = true /\ (fuel_of s <= turns repaired ex_tail s)%nat /\
  pcs s = AtLock /\ lock s = HeldByGui /\ out s = [7] /\
  pcs s' = Exited /\ out s' = [7; 8; 9] /\ evs_of (hist s') = [7; 8; 9] /\ released s' = true /\
  outb s' = [WInput 1; WInput 2].
Proof. vm_compute. repeat split; try reflexivity. repeat constructor. Qed.

(* the GUI stops the session as main_gui_loop does; the server answers by closing the connection *)
Definition ex_stop : list (option action) :=
  [Some (Send [Fin (PEvents [5])]); None; None; None; None; None; None] ++ stop_sched ++
  [None; None; Some (Close CloseNotify)].

Lemma ex_stop_run :
  let s1 := run repaired ex_stop init in
  let s2 := run repaired (repeat None 10) s1 in
  stopping (run repaired ([Some (Send [Fin (PEvents [5])]); None; None; None; None; None; None] ++ [Some GuiStop]) init) = true /\
  readable s1 = true /\ (fuel_of s1 <= turns repaired (repeat None 10) s1)%nat /\
  pcs s2 = Exited /\ released s2 = true /\ out s2 = [5] /\ outb s2 = [WUltimatum; WCloseNotify].
Proof. vm_compute. repeat split; try reflexivity. repeat constructor. Qed.

(* ------------------------------------------------------------------ statements as exported *)

Lemma loop_never_spins_full sc fin :
  forallb silent fin = true ->
  (moves repaired fin (run repaired sc init) <= measure (run repaired sc init))%nat /\
  exists s', quiesce repaired (fuel_of (run repaired sc init)) (run repaired sc init) = RQuiet s'.
Proof. intros H. exact (conj (loop_never_spins sc fin H) (loop_comes_to_rest sc)). Qed.

Lemma loop_fair_rounds sc k more gs :
  let s := run repaired (sc ++ [Some (end_action k)] ++ more) init in
  Forall (fun g => forallb (fun a => silent (Some a)) g = true) gs -> (fuel_of s <= length gs)%nat ->
  (length gs <= turns repaired (concat (map round gs)) s)%nat /\
  pcs (run repaired (concat (map round gs)) s) = Exited /\
  released (run repaired (concat (map round gs)) s) = true.
Proof.
  intros s Hg Hn. exact (conj (turns_rounds repaired gs s) (loop_terminates_rounds sc k more gs Hg Hn)).
Qed.
