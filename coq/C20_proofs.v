(* C20_proofs.v -- proofs about GuiLoop.v: the repaired receive loop never spins, stops once
   the session has ended, forwards exactly what it received, and drains the TLS buffer; the
   loop as found does none of these (witnesses). *)
From RdpV Require Import Base GuiLoop.

(* ------------------------------------------------------------------ termination measure *)

Lemma step_decreases s s' : tstep repaired s = Some s' -> (measure s' < measure s)%nat.
Proof.
  destruct s as [sk cl tl sy p o h c l]. unfold tstep, measure, ntok.
  cbn [pcs sock closed tls sync out hist cons lost].
  destruct p.
  - destruct (is_nil sk && match cl with None => true | Some _ => false end); [discriminate|].
    intros H; inversion H; subst; clear H. cbn. destruct sy; cbn; lia.
  - intros H; inversion H; subst; clear H. cbn. lia.
  - destruct tl as [|t rest].
    + destruct sk as [|r rs].
      * destruct cl; [|discriminate]. intros H; inversion H; subst; clear H. cbn. lia.
      * intros H; inversion H; subst; clear H. cbn. rewrite app_length. lia.
    + destruct t as [|[evs|c0]]; intros H; inversion H; subst; clear H; cbn; try lia.
      destruct (negb (is_nil rest)); cbn; lia.
  - discriminate.
Qed.

Inductive steps : st -> st -> Prop :=
| steps_refl s : steps s s
| steps_cons s s1 s2 : tstep repaired s = Some s1 -> steps s1 s2 -> steps s s2.

Lemma quiesce_quiet :
  forall fuel s, (measure s < fuel)%nat ->
    exists s', quiesce repaired fuel s = RQuiet s' /\ steps s s' /\ tstep repaired s' = None.
Proof.
  induction fuel as [|f IH]; intros s Hm; [lia|].
  cbn [quiesce]. destruct (tstep repaired s) as [s1|] eqn:E.
  - destruct (IH s1) as (s' & Hq & Hs & Hn); [apply step_decreases in E; lia|].
    exists s'. split; [exact Hq|]. split; [econstructor; eauto|exact Hn].
  - exists s. split; [reflexivity|]. split; [constructor|exact E].
Qed.

(* ------------------------------------------------------------------ what a token stream delivers *)

Definition nofail (l : list token) : Prop := forall c, ~ In (Fin (PFail c)) l.

Lemma nofail_nil : nofail [].
Proof. intros c H. inversion H. Qed.

Lemma nofail_snoc l t : nofail l -> (forall c, t <> Fin (PFail c)) -> nofail (l ++ [t]).
Proof.
  intros Hl Ht c Hin. apply in_app_or in Hin. destruct Hin as [Hin|[Hin|[]]].
  - exact (Hl c Hin).
  - exact (Ht c Hin).
Qed.

Lemma evs_of_app a b : nofail a -> evs_of (a ++ b) = evs_of a ++ evs_of b.
Proof.
  induction a as [|t a IH]; intros Hn; [reflexivity|].
  assert (Hn' : nofail a) by (intros c Hin; apply (Hn c); right; exact Hin).
  destruct t as [|[e|c]]; cbn [app evs_of].
  - apply IH, Hn'.
  - rewrite IH by exact Hn'. apply app_assoc.
  - exfalso. apply (Hn c). left. reflexivity.
Qed.

(* ------------------------------------------------------------------ the invariant *)

Definition Inv (s : st) : Prop :=
  hist s = cons s ++ tls s ++ concat (sock s) ++ lost s /\
  (closed s <> Some Reset -> lost s = []) /\
  (pcs s = AtWait \/ pcs s = AtLock -> tls s = []) /\
  ((nofail (cons s) /\ out s = evs_of (cons s) /\
    (pcs s = Exited -> sync s = false \/ (closed s <> None /\ tls s = [] /\ sock s = [])))
   \/
   (pcs s = Exited /\ exists c0 c, cons s = c0 ++ [Fin (PFail c)] /\ nofail c0 /\ out s = evs_of c0)).

Lemma Inv_init : Inv init.
Proof.
  unfold Inv, init; cbn. repeat split; auto.
  left. split; [exact nofail_nil|]. split; [reflexivity|]. intros H; discriminate.
Qed.

Lemma Inv_tstep s s' : Inv s -> tstep repaired s = Some s' -> Inv s'.
Proof.
  destruct s as [sk cl tl sy p o h c l]. unfold Inv, tstep.
  cbn [pcs sock closed tls sync out hist cons lost].
  intros (Hh & Hl & Hw & Hd) Hs.
  destruct p.
  - (* AtWait *)
    destruct (is_nil sk && match cl with None => true | Some _ => false end); [discriminate|].
    injection Hs as <-. cbn.
    destruct Hd as [(Hn & Ho & _)|(Hx & _)]; [|discriminate].
    split; [exact Hh|]. split; [exact Hl|].
    split; [intros _; apply Hw; left; reflexivity|].
    left. split; [exact Hn|]. split; [exact Ho|].
    destruct sy; [intros H; discriminate|intros _; left; reflexivity].
  - (* AtLock *)
    injection Hs as <-. cbn.
    destruct Hd as [(Hn & Ho & _)|(Hx & _)]; [|discriminate].
    split; [exact Hh|]. split; [exact Hl|].
    split; [intros [H|H]; discriminate|].
    left. split; [exact Hn|]. split; [exact Ho|]. intros H; discriminate.
  - (* AtRead *)
    destruct Hd as [(Hn & Ho & _)|(Hx & _)]; [|discriminate].
    destruct tl as [|t rest].
    + destruct sk as [|r rs].
      * destruct cl as [k|]; [|discriminate]. injection Hs as <-. cbn.
        split; [exact Hh|]. split; [exact Hl|].
        split; [intros [H|H]; discriminate|].
        left. split; [exact Hn|]. split; [exact Ho|].
        intros _. right. split; [discriminate|]. split; reflexivity.
      * injection Hs as <-. cbn.
        split; [rewrite Hh; cbn; rewrite <- app_assoc; reflexivity|].
        split; [exact Hl|]. split; [intros [H|H]; discriminate|].
        left. split; [exact Hn|]. split; [exact Ho|]. intros H; discriminate.
    + assert (Hh' : h = (c ++ [t]) ++ rest ++ concat sk ++ l)
        by (rewrite Hh; rewrite <- app_assoc; reflexivity).
      destruct t as [|[evs|c0]]; injection Hs as <-; cbn.
      * split; [exact Hh'|]. split; [exact Hl|]. split; [intros [H|H]; discriminate|].
        left. split; [apply nofail_snoc; [exact Hn|intros c1 H; discriminate]|].
        split; [rewrite evs_of_app by exact Hn; cbn; rewrite app_nil_r; exact Ho|].
        intros H; discriminate.
      * split; [exact Hh'|]. split; [exact Hl|].
        split; [destruct rest; cbn; [intros _; reflexivity|intros [H|H]; discriminate]|].
        left. split; [apply nofail_snoc; [exact Hn|intros c1 H; discriminate]|].
        split; [rewrite evs_of_app by exact Hn; cbn; rewrite app_nil_r; rewrite Ho; reflexivity|].
        destruct rest; cbn; intros H; discriminate.
      * split; [exact Hh'|]. split; [exact Hl|]. split; [intros [H|H]; discriminate|].
        right. split; [reflexivity|]. exists c, c0. split; [reflexivity|]. split; [exact Hn|exact Ho].
  - discriminate.
Qed.

Lemma Inv_env a s : Inv s -> Inv (env_step a s).
Proof.
  destruct s as [sk cl tl sy p o h c l]. unfold Inv, env_step.
  cbn [pcs sock closed tls sync out hist cons lost].
  intros (Hh & Hl & Hw & Hd).
  destruct a as [r|k|].
  - destruct cl as [k0|]; cbn; [repeat split; assumption|].
    assert (Hl0 : l = []) by (apply Hl; discriminate). subst l.
    split; [rewrite Hh; rewrite concat_app; cbn; rewrite !app_nil_r; rewrite <- !app_assoc; reflexivity|].
    split; [intros _; reflexivity|]. split; [exact Hw|].
    destruct Hd as [(Hn & Ho & He)|Hr]; [|right; exact Hr].
    left. split; [exact Hn|]. split; [exact Ho|].
    intros Hp. destruct (He Hp) as [H|(H & _)]; [left; exact H|exfalso; apply H; reflexivity].
  - destruct cl as [k0|]; cbn; [repeat split; assumption|].
    assert (Hl0 : l = []) by (apply Hl; discriminate). subst l.
    destruct k; cbn.
    + split; [exact Hh|]. split; [intros _; reflexivity|]. split; [exact Hw|].
      destruct Hd as [(Hn & Ho & He)|Hr]; [|right; exact Hr].
      left. split; [exact Hn|]. split; [exact Ho|].
      intros Hp. destruct (He Hp) as [H|(H & _)]; [left; exact H|exfalso; apply H; reflexivity].
    + split; [exact Hh|]. split; [intros _; reflexivity|]. split; [exact Hw|].
      destruct Hd as [(Hn & Ho & He)|Hr]; [|right; exact Hr].
      left. split; [exact Hn|]. split; [exact Ho|].
      intros Hp. destruct (He Hp) as [H|(H & _)]; [left; exact H|exfalso; apply H; reflexivity].
    + split; [rewrite Hh; cbn; rewrite !app_nil_r; reflexivity|].
      split; [intros H; exfalso; apply H; reflexivity|]. split; [exact Hw|].
      destruct Hd as [(Hn & Ho & He)|Hr]; [|right; exact Hr].
      left. split; [exact Hn|]. split; [exact Ho|].
      intros Hp. destruct (He Hp) as [H|(H & _)]; [left; exact H|exfalso; apply H; reflexivity].
  - cbn. split; [exact Hh|]. split; [exact Hl|]. split; [exact Hw|].
    destruct Hd as [(Hn & Ho & He)|Hr]; [|right; exact Hr].
    left. split; [exact Hn|]. split; [exact Ho|]. intros _. left. reflexivity.
Qed.

Lemma Inv_sched s x : Inv s -> Inv (sched_step repaired s x).
Proof.
  intros HI. destruct x as [a|]; cbn [sched_step]; [apply Inv_env; exact HI|].
  destruct (tstep repaired s) as [s'|] eqn:E; [eapply Inv_tstep; eauto|exact HI].
Qed.

Lemma Inv_run sc : forall s, Inv s -> Inv (run repaired sc s).
Proof.
  unfold run. induction sc as [|x sc IH]; intros s HI; cbn [fold_left]; [exact HI|].
  apply IH, Inv_sched, HI.
Qed.

Lemma Inv_steps s s' : steps s s' -> Inv s -> Inv s'.
Proof. induction 1; intros HI; [exact HI|]. apply IHsteps. eapply Inv_tstep; eauto. Qed.

(* thread steps do not touch the environment's own fields *)
Lemma tstep_frame v s s' : tstep v s = Some s' -> hist s' = hist s /\ closed s' = closed s /\ sync s' = sync s.
Proof.
  destruct s as [sk cl tl sy p o h c l]. unfold tstep.
  cbn [pcs sock closed tls sync out hist cons lost].
  destruct p.
  - destruct (is_nil sk && match cl with None => true | Some _ => false end); [discriminate|].
    intros H; inversion H; subst; cbn; auto.
  - intros H; inversion H; subst; cbn; auto.
  - destruct tl as [|t rest].
    + destruct sk as [|r rs]; [destruct cl; [|discriminate]|]; intros H; inversion H; subst; cbn; auto.
    + destruct t as [|[e|c0]]; intros H; inversion H; subst; cbn; auto.
  - discriminate.
Qed.

Lemma steps_frame s s' : steps s s' -> hist s' = hist s /\ closed s' = closed s /\ sync s' = sync s.
Proof.
  induction 1; [auto|]. apply tstep_frame in H. destruct H as (A & B & C), IHsteps as (A' & B' & C').
  repeat split; congruence.
Qed.

(* a state in which the thread cannot move *)
Lemma quiet_cases s :
  tstep repaired s = None ->
  pcs s = Exited \/
  (pcs s = AtWait /\ sock s = [] /\ closed s = None) \/
  (pcs s = AtRead /\ tls s = [] /\ sock s = [] /\ closed s = None).
Proof.
  destruct s as [sk cl tl sy p o h c l]. unfold tstep.
  cbn [pcs sock closed tls sync out hist cons lost].
  destruct p.
  - destruct sk, cl; cbn; try discriminate. intros _. right. left. auto.
  - discriminate.
  - destruct tl as [|t rest].
    + destruct sk; [destruct cl; [discriminate|]|discriminate]. intros _. right. right. auto.
    + destruct t as [|[e|c0]]; discriminate.
  - intros _. left. reflexivity.
Qed.

(* ------------------------------------------------------------------ order *)

Lemma order_of_Inv s : Inv s -> exists rest, evs_of (hist s) = out s ++ rest.
Proof.
  intros (Hh & _ & _ & [(Hn & Ho & _)|(_ & c0 & c & Hc & Hn & Ho)]).
  - rewrite Hh, Ho. rewrite evs_of_app by exact Hn. eexists; reflexivity.
  - rewrite Hh, Hc, Ho. rewrite <- !app_assoc. rewrite evs_of_app by exact Hn. cbn.
    exists []. reflexivity.
Qed.

Lemma loop_order sc : exists rest, evs_of (hist (run repaired sc init)) = out (run repaired sc init) ++ rest.
Proof. apply order_of_Inv, Inv_run, Inv_init. Qed.

(* ------------------------------------------------------------------ never spins; drains *)

Lemma loop_never_spins sc :
  exists s', quiesce repaired (fuel_of (run repaired sc init)) (run repaired sc init) = RQuiet s'.
Proof.
  destruct (quiesce_quiet (fuel_of (run repaired sc init)) (run repaired sc init)) as (s' & Hq & _);
    [unfold fuel_of; lia|]. exists s'. exact Hq.
Qed.

Lemma drains_of_Inv s :
  Inv s -> closed s <> Some Reset -> sync s = true ->
  exists s', quiesce repaired (fuel_of s) s = RQuiet s' /\
             out s' = evs_of (hist s) /\
             (pcs s' <> Exited -> tls s' = [] /\ sock s' = [] /\ closed s' = None).
Proof.
  intros HI Hc Hsy.
  destruct (quiesce_quiet (fuel_of s) s) as (s' & Hq & Hst & Hn); [unfold fuel_of; lia|].
  exists s'. split; [exact Hq|].
  pose proof (Inv_steps _ _ Hst HI) as (Hh & Hl & Hw & Hd).
  destruct (steps_frame _ _ Hst) as (Fh & Fc & Fs).
  assert (Hl0 : lost s' = []) by (apply Hl; rewrite Fc; exact Hc).
  rewrite <- Fh.
  destruct (quiet_cases _ Hn) as [Hp|[(Hp & Hk & Hcl)|(Hp & Ht & Hk & Hcl)]].
  - split; [|intros H; contradiction].
    destruct Hd as [(Hnf & Ho & He)|(_ & c0 & c & Hcs & Hnf & Ho)].
    + destruct (He Hp) as [H|(_ & Ht & Hk)]; [rewrite Fs, Hsy in H; discriminate|].
      rewrite Hh, Ht, Hk, Hl0. cbn. rewrite app_nil_r. exact Ho.
    + rewrite Hh, Hcs, Ho. rewrite <- !app_assoc. rewrite evs_of_app by exact Hnf. cbn.
      rewrite app_nil_r. reflexivity.
  - assert (Ht : tls s' = []) by (apply Hw; left; exact Hp).
    destruct Hd as [(Hnf & Ho & _)|(Hx & _)]; [|rewrite Hp in Hx; discriminate].
    split; [rewrite Hh, Ht, Hk, Hl0; cbn; rewrite app_nil_r; exact Ho|]. intros _. auto.
  - destruct Hd as [(Hnf & Ho & _)|(Hx & _)]; [|rewrite Hp in Hx; discriminate].
    split; [rewrite Hh, Ht, Hk, Hl0; cbn; rewrite app_nil_r; exact Ho|]. intros _. auto.
Qed.

Lemma loop_drains sc :
  closed (run repaired sc init) <> Some Reset -> sync (run repaired sc init) = true ->
  exists s', quiesce repaired (fuel_of (run repaired sc init)) (run repaired sc init) = RQuiet s' /\
             out s' = evs_of (hist (run repaired sc init)) /\
             (pcs s' <> Exited -> tls s' = [] /\ sock s' = [] /\ closed s' = None).
Proof. apply drains_of_Inv, Inv_run, Inv_init. Qed.

(* ------------------------------------------------------------------ stops with the session *)

Definition ended (s : st) : Prop := closed s <> None \/ exists c, In (Fin (PFail c)) (hist s).

Lemma ended_env a s : ended s -> ended (env_step a s).
Proof.
  destruct s as [sk cl tl sy p o h c l]. unfold ended, env_step. cbn [closed hist].
  intros [H|(c1 & H)].
  - left. destruct a as [r|[]|]; destruct cl; cbn; try discriminate; exfalso; apply H; reflexivity.
  - destruct a as [r|[]|]; destruct cl; cbn; try (left; discriminate);
      right; exists c1; try exact H.
    apply in_or_app. left. exact H.
Qed.

Lemma ended_sched s x : ended s -> ended (sched_step repaired s x).
Proof.
  intros He. destruct x as [a|]; cbn [sched_step]; [apply ended_env; exact He|].
  destruct (tstep repaired s) as [s'|] eqn:E; [|exact He].
  apply tstep_frame in E. destruct E as (A & B & _). unfold ended. rewrite A, B. exact He.
Qed.

Lemma ended_run sc : forall s, ended s -> ended (run repaired sc s).
Proof.
  unfold run. induction sc as [|x sc IH]; intros s He; cbn [fold_left]; [exact He|].
  apply IH, ended_sched, He.
Qed.

Lemma end_action_ends k s : ended (env_step (end_action k) s).
Proof.
  destruct s as [sk cl tl sy p o h c l]. unfold ended, env_step, end_action.
  destruct cl as [k0|].
  - destruct k as [|c0|k1]; cbn; left; discriminate.
  - destruct k as [|c0|k1]; cbn.
    + right. exists ERdp. apply in_or_app. right. left. reflexivity.
    + right. exists c0. apply in_or_app. right. left. reflexivity.
    + left. destruct k1; discriminate.
Qed.

Lemma exits_of_ended s :
  Inv s -> ended s -> exists s', quiesce repaired (fuel_of s) s = RQuiet s' /\ pcs s' = Exited.
Proof.
  intros HI He.
  destruct (quiesce_quiet (fuel_of s) s) as (s' & Hq & Hst & Hn); [unfold fuel_of; lia|].
  exists s'. split; [exact Hq|].
  pose proof (Inv_steps _ _ Hst HI) as (Hh & Hl & Hw & Hd).
  destruct (steps_frame _ _ Hst) as (Fh & Fc & _).
  assert (Hblocked : pcs s' <> Exited -> tls s' = [] -> sock s' = [] -> closed s' = None -> False).
  { intros Hp Ht Hk Hcl.
    destruct He as [Hc|(c1 & Hin)]; [apply Hc; rewrite <- Fc; exact Hcl|].
    destruct Hd as [(Hnf & _)|(Hx & _)]; [|contradiction].
    assert (Hl0 : lost s' = []) by (apply Hl; rewrite Hcl; discriminate).
    rewrite <- Fh, Hh, Ht, Hk, Hl0 in Hin. cbn in Hin. rewrite app_nil_r in Hin.
    exact (Hnf c1 Hin). }
  destruct (quiet_cases _ Hn) as [Hp|[(Hp & Hk & Hcl)|(Hp & Ht & Hk & Hcl)]]; [exact Hp| |].
  - exfalso. apply Hblocked; [rewrite Hp; discriminate|apply Hw; left; exact Hp|exact Hk|exact Hcl].
  - exfalso. apply Hblocked; [rewrite Hp; discriminate|exact Ht|exact Hk|exact Hcl].
Qed.

Lemma loop_terminates sc k more :
  let s := run repaired (sc ++ [Some (end_action k)] ++ more) init in
  exists s', quiesce repaired (fuel_of s) s = RQuiet s' /\ pcs s' = Exited.
Proof.
  intros s. apply exits_of_ended.
  - apply Inv_run, Inv_init.
  - subst s. unfold run. rewrite !fold_left_app. apply ended_run. cbn [fold_left sched_step].
    apply end_action_ends.
Qed.

(* ------------------------------------------------------------------ the loop as found (witnesses) *)

Definition dead : st := env_step (Close CloseNotify) init.

Lemma original_spins : forall fuel, exists s, quiesce original fuel dead = RSpin s.
Proof.
  assert (H : forall fuel,
             (exists s, quiesce original fuel dead = RSpin s) /\
             (exists s, quiesce original fuel (set_pc dead AtLock) = RSpin s) /\
             (exists s, quiesce original fuel (set_pc dead AtRead) = RSpin s)).
  { induction fuel as [|f (H0 & H1 & H2)]; [repeat split; eexists; reflexivity|].
    repeat split.
    - destruct H1 as (s & H1). exists s. exact H1.
    - destruct H2 as (s & H2). exists s. exact H2.
    - destruct H0 as (s & H0). exists s. exact H0. }
  intros fuel. apply H.
Qed.

(* two PDUs in one TLS record: the original loop reads one, goes back to select and waits for
   MORE traffic with the second PDU (here: even a disconnect ultimatum) sitting in the TLS buffer *)
Definition coalesced : st := env_step (Send [Fin (PEvents [1]); Fin (PEvents [2]); Fin (PFail ERdp)]) init.

Lemma original_stalls :
  exists s', quiesce original (fuel_of coalesced) coalesced = RQuiet s' /\
             pcs s' = AtWait /\ out s' = [1] /\ tls s' = [Fin (PEvents [2]); Fin (PFail ERdp)] /\
             sock s' = [] /\ closed s' = None.
Proof. eexists. split; [vm_compute; reflexivity|]. repeat split. Qed.

Lemma repaired_on_witnesses :
  (exists s', quiesce repaired (fuel_of dead) dead = RQuiet s' /\ pcs s' = Exited) /\
  (exists s', quiesce repaired (fuel_of coalesced) coalesced = RQuiet s' /\ pcs s' = Exited /\ out s' = [1; 2]).
Proof. split; eexists; (split; [vm_compute; reflexivity|]); repeat split. Qed.

(* a packing that splits and coalesces at once, scheduled with thread steps in between *)
Definition ex_sched : list (option action) :=
  [Some (Send [Frag]); None; None; None; Some (Send [Fin (PEvents [7]); Frag]); None;
   Some (Send [Frag; Fin (PEvents [8; 9]); Fin (PEvents [])]); None; Some (Close AbruptFin)].

Lemma ex_run :
  exists s', quiesce repaired (fuel_of (run repaired ex_sched init)) (run repaired ex_sched init) = RQuiet s' /\
             pcs s' = Exited /\ out s' = [7; 8; 9] /\ evs_of (hist s') = [7; 8; 9].
Proof. eexists. split; [vm_compute; reflexivity|]. repeat split. Qed.
