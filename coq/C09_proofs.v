(* C09, part 1: 5-6-5 widening is exact rounding; the widening pass, uncompressed 16 bpp and
   uncompressed 32 bpp return exactly the source image, rows top-down. *)
From RdpV Require Import Base Sweep Buf Rle16 Rle32 Bitmap RefRle CodecLemmas CodecContent C08_proofs.

Ltac Zify.zify_post_hook ::= Z.div_mod_to_equations.

(* ---- widening *)
Definition model_widen (v : N) : list N :=
  [((v mod 32) * 527 + 23) / 64 mod 256; (((v / 32) mod 64) * 259 + 33) / 64 mod 256;
   (((v / 2048) mod 32) * 527 + 23) / 64 mod 256; 255].

Lemma widen5 : forall c, c < 32 -> (c * 527 + 23) / 64 mod 256 = nearest c 31.
Proof.
  intros c Hc. apply N.eqb_eq. revert c Hc. apply sweep1. vm_compute. reflexivity.
Qed.
Lemma widen6 : forall c, c < 64 -> (c * 259 + 33) / 64 mod 256 = nearest c 63.
Proof.
  intros c Hc. apply N.eqb_eq. revert c Hc. apply sweep1. vm_compute. reflexivity.
Qed.

Lemma widen_exact v : model_widen v = widen565 v.
Proof.
  unfold model_widen, widen565.
  rewrite (widen5 (v mod 32)) by (apply N.mod_lt; lia).
  rewrite (widen6 ((v / 32) mod 64)) by (apply N.mod_lt; lia).
  rewrite (widen5 ((v / 2048) mod 32)) by (apply N.mod_lt; lia).
  reflexivity.
Qed.

Lemma length_widen565 v : length (widen565 v) = 4%nat.
Proof. reflexivity. Qed.

Lemma nlen_bgra16 img : nlen (bgra16 img) = 4 * nlen img.
Proof. unfold nlen, bgra16. rewrite (length_flat_map_block widen565 4) by apply length_widen565. lia. Qed.

Section Content.
Variable p : prof.
Variables w h : N.
Hypothesis Hw : w < 65536.
Hypothesis Hh : h < 65536.

Let wh_b := wh_b w h Hw Hh.
Let idx_lt := idx_lt w h Hw Hh.

(* ---- the widening pass writes bgra16 of what the input holds *)
Lemma widen_px_content input res i j :
  i < h -> j < w -> w * h <= blen input -> blen res = 4 * (w * h) ->
  exists res', widen_px p input res w i j = Ok res' /\ blen res' = 4 * (w * h) /\
    (forall k, k < 4 * (i * w + j) \/ 4 * (i * w + j) + 4 <= k -> bget_raw res' k = bget_raw res k) /\
    (forall c, c < 4 -> bget_raw res' (4 * (i * w + j) + c) = nth (N.to_nat c) (widen565 (bget_raw input (i * w + j))) 0).
Proof.
  intros Hi Hj Hin Hres. pose proof wh_b as Hb. pose proof (idx_lt i j Hi Hj) as Hidx.
  unfold widen_px.
  rewrite mul64 by lia. cbn [obind]. rewrite add64 by lia. cbn [obind].
  rewrite bget_ok by lia. cbn [obind].
  set (v := bget_raw input (i * w + j)).
  rewrite mul64 by lia. cbn [obind]. rewrite add64 by lia. cbn [obind].
  rewrite bset_ok by lia. cbn [obind].
  pose proof (N.mod_lt (v / 2048) 32). pose proof (N.mod_lt (v / 32) 64). pose proof (N.mod_lt v 32).
  rewrite mul16 by lia. cbn [obind]. rewrite add16 by lia. cbn [obind].
  rewrite add64 by lia. cbn [obind].
  rewrite bset_ok by (rewrite blen_bset_raw; lia). cbn [obind].
  rewrite mul16 by lia. cbn [obind]. rewrite add16 by lia. cbn [obind].
  rewrite add64 by lia. cbn [obind].
  rewrite bset_ok by (rewrite !blen_bset_raw; lia). cbn [obind].
  rewrite mul16 by lia. cbn [obind]. rewrite add16 by lia. cbn [obind].
  rewrite bset_ok by (rewrite !blen_bset_raw; lia).
  eexists. split; [reflexivity|]. split; [rewrite !blen_bset_raw; exact Hres|].
  rewrite <- widen_exact. unfold model_widen. fold v.
  set (q := i * w + j) in *.
  split.
  - intros k Hk. rewrite !bget_raw_bset_raw_other by lia. reflexivity.
  - intros c Hc.
    assert (Hcc : c = 0 \/ c = 1 \/ c = 2 \/ c = 3) by lia.
    destruct Hcc as [->|[->|[->| ->]]]; cbn [N.to_nat Pos.to_nat Pos.iter_op Nat.add nth].
    + replace (4 * q + 0) with (q * 4) by lia. rewrite bget_raw_bset_raw_same. reflexivity.
    + replace (4 * q + 1) with (q * 4 + 1) by lia.
      rewrite bget_raw_bset_raw_other by lia. rewrite bget_raw_bset_raw_same. reflexivity.
    + replace (4 * q + 2) with (q * 4 + 2) by lia.
      rewrite !(bget_raw_bset_raw_other _ _ (q * 4 + 2)) by lia. rewrite bget_raw_bset_raw_same. reflexivity.
    + replace (4 * q + 3) with (q * 4 + 3) by lia.
      rewrite !(bget_raw_bset_raw_other _ _ (q * 4 + 3)) by lia. rewrite bget_raw_bset_raw_same. reflexivity.
Qed.

Section Widen.
Variable input : buf.
Variable img : list N.
Hypothesis Hin : w * h <= blen input.
Hypothesis Himg : forall q, q < w * h -> bget_raw input q = nth (N.to_nat q) img 0.
Hypothesis Hlen : nlen img = w * h.

(* res holds the first n output pixels *)
Definition wdone (n : N) (res : buf) : Prop :=
  blen res = 4 * (w * h) /\ forall k, k < 4 * n -> bget_raw res k = nth (N.to_nat k) (bgra16 img) 0.

Lemma nth_bgra16 q c : q < w * h -> c < 4 ->
  nth (N.to_nat (4 * q + c)) (bgra16 img) 0 = nth (N.to_nat c) (widen565 (nth (N.to_nat q) img 0)) 0.
Proof.
  intros Hq Hc. unfold bgra16.
  replace (N.to_nat (4 * q + c)) with (N.to_nat q * 4 + N.to_nat c)%nat by lia.
  apply nth_flat_map_block; [apply length_widen565| |lia].
  unfold nlen in Hlen. lia.
Qed.

Lemma widen_cols_content i : i < h ->
  forall n j res, j + N.of_nat n = w -> wdone (i * w + j) res ->
  exists res', widen_cols p n input res w i j = Ok res' /\ wdone (i * w + w) res'.
Proof.
  intros Hi. induction n as [|m IH]; intros j res Hn Hd.
  - cbn [widen_cols]. exists res. split; [reflexivity|]. replace w with j at 2 by lia. exact Hd.
  - cbn [widen_cols]. destruct Hd as [Hbl Hd].
    assert (Hj : j < w) by lia.
    destruct (widen_px_content input res i j Hi Hj Hin Hbl) as (r & -> & Hbl' & Hold & Hnew).
    cbn [obind]. apply IH; [lia|].
    split; [exact Hbl'|]. intros k Hk.
    pose proof (idx_lt i j Hi Hj) as Hq.
    destruct (N.lt_ge_cases k (4 * (i * w + j))) as [Hlt|Hge].
    + rewrite Hold by lia. apply Hd. exact Hlt.
    + replace k with (4 * (i * w + j) + (k - 4 * (i * w + j))) by lia.
      rewrite Hnew by lia. rewrite nth_bgra16 by lia. rewrite Himg by exact Hq. reflexivity.
Qed.

Lemma widen_rows_content :
  forall n i res, i + N.of_nat n = h -> wdone (i * w) res ->
  exists res', widen_rows p n input res w i = Ok res' /\ wdone (h * w) res'.
Proof.
  induction n as [|k IH]; intros i res Hn Hd.
  - cbn [widen_rows]. exists res. split; [reflexivity|]. replace h with i by lia. exact Hd.
  - cbn [widen_rows].
    destruct (widen_cols_content i ltac:(lia) (N.to_nat w) 0 res ltac:(lia)) as (r & -> & Hd').
    { replace (i * w + 0) with (i * w) by lia. exact Hd. }
    cbn [obind]. apply IH; [lia|]. replace ((i + 1) * w) with (i * w + w) by lia. exact Hd'.
Qed.

Lemma rgb_content :
  exists r, rgb565torgb32 p input w h = ([4 * (w * h)], Ok r) /\ to_list r = bgra16 img.
Proof.
  pose proof wh_b as Hb. unfold rgb565torgb32.
  rewrite mul64 by lia. cbn [obind]. rewrite mul64 by lia.
  cbn [lift mbind]. unfold alloc.
  assert (Ha : w * h * 4 * 1 <? 2 ^ 63 = true) by (apply N.ltb_lt; rewrite pow63; lia).
  rewrite Ha. cbn [mbind lift app].
  replace (w * h * 4 * 1) with (4 * (w * h)) by lia.
  destruct (widen_rows_content (N.to_nat h) 0 (bmake (w * h * 4)) ltac:(lia)) as (r & -> & Hbl & Hd).
  { split; [rewrite blen_bmake; lia|]. intros k Hk. lia. }
  exists r. split; [reflexivity|].
  apply to_list_eq.
  - rewrite nlen_bgra16, Hlen. exact Hbl.
  - intros k Hk. rewrite nlen_bgra16, Hlen in Hk. apply Hd. lia.
Qed.

End Widen.

(* ---- uncompressed 16 bpp *)
Section Raw16.
Variable rows : list (list N).       (* top-down rows of 16-bit pixels *)
Hypothesis Hrows : length rows = N.to_nat h.
Hypothesis Hunif : uniform (N.to_nat w) rows.
Hypothesis Hpix : Forall (fun r => Forall (fun v => v < 65536) r) rows.

Lemma length_le16 v : length (le16 v) = 2%nat.
Proof. reflexivity. Qed.

Lemma le16s_concat : forall (l : list (list N)), flat_map le16s l = le16s (concat l).
Proof.
  induction l as [|r l IH]; [reflexivity|].
  cbn [flat_map concat]. rewrite IH. unfold le16s. rewrite flat_map_app. reflexivity.
Qed.

Lemma nlen_wire16 : nlen (raw16_wire rows) = 2 * (w * h).
Proof.
  unfold raw16_wire. rewrite le16s_concat. unfold nlen, le16s.
  rewrite (length_flat_map_block le16 2) by apply length_le16.
  rewrite (length_concat_uniform (N.to_nat w)) by (apply uniform_rev; exact Hunif).
  rewrite rev_length, Hrows. lia.
Qed.

Lemma pixel_at i j : i < h -> j < w -> nth (N.to_nat j) (nth (N.to_nat i) rows []) 0 < 65536.
Proof.
  intros Hi Hj.
  assert (Hin : In (nth (N.to_nat i) rows []) rows) by (apply nth_In; lia).
  pose proof (proj1 (Forall_forall _ _) Hpix _ Hin) as Hr. cbv beta in Hr.
  pose proof (proj1 (Forall_forall _ _) Hunif _ Hin) as Hl. cbv beta in Hl.
  apply (proj1 (Forall_forall _ _) Hr). apply nth_In. lia.
Qed.

(* the wire holds pixel (i, j) of the top-down image at offset ((h-1-i)*w + j)*2, little endian *)
Lemma wire16_at i j c : i < h -> j < w -> c < 2 ->
  nth (N.to_nat (((h - i - 1) * w + j) * 2 + c)) (raw16_wire rows) 0 =
  nth (N.to_nat c) (le16 (nth (N.to_nat j) (nth (N.to_nat i) rows []) 0)) 0.
Proof.
  intros Hi Hj Hc. unfold raw16_wire. rewrite le16s_concat. unfold le16s.
  pose proof (idx_lt (h - i - 1) j ltac:(lia) Hj) as Hq.
  replace (N.to_nat (((h - i - 1) * w + j) * 2 + c)) with (N.to_nat ((h - i - 1) * w + j) * 2 + N.to_nat c)%nat by lia.
  rewrite (nth_flat_map_block le16 2 0); [|apply length_le16| |lia].
  2:{ rewrite (length_concat_uniform (N.to_nat w)) by (apply uniform_rev; exact Hunif). rewrite rev_length, Hrows. lia. }
  f_equal. f_equal.
  replace (N.to_nat ((h - i - 1) * w + j)) with (N.to_nat (h - i - 1) * N.to_nat w + N.to_nat j)%nat by lia.
  rewrite (nth_concat_uniform (N.to_nat w)) by (try apply uniform_rev; try exact Hunif; lia).
  f_equal. rewrite rev_nth by lia. f_equal. lia.
Qed.

Definition r16done (n : N) (res : buf) : Prop :=
  blen res = w * h /\ forall q, q < n -> bget_raw res q = nth (N.to_nat q) (concat rows) 0.

Lemma concat_at i j : i < h -> j < w ->
  nth (N.to_nat (i * w + j)) (concat rows) 0 = nth (N.to_nat j) (nth (N.to_nat i) rows []) 0.
Proof.
  intros Hi Hj.
  replace (N.to_nat (i * w + j)) with (N.to_nat i * N.to_nat w + N.to_nat j)%nat by lia.
  apply nth_concat_uniform; [exact Hunif|lia].
Qed.

Lemma raw16_px_content res i j : i < h -> j < w -> blen res = w * h ->
  exists res', raw16_px p (of_list (raw16_wire rows)) res w h i j = Ok res' /\ blen res' = w * h /\
    (forall q, q <> i * w + j -> bget_raw res' q = bget_raw res q) /\
    bget_raw res' (i * w + j) = nth (N.to_nat (i * w + j)) (concat rows) 0.
Proof.
  intros Hi Hj Hres. pose proof wh_b as Hb. pose proof (idx_lt i j Hi Hj) as Hidx.
  assert (Hsrc : (h - i - 1) * w + j < w * h) by (apply idx_lt; lia).
  pose proof nlen_wire16 as Hwl.
  unfold raw16_px.
  rewrite sub64 by lia. cbn [obind]. rewrite sub64 by lia. cbn [obind].
  rewrite mul64 by lia. cbn [obind]. rewrite add64 by lia. cbn [obind].
  rewrite mul64 by lia. cbn [obind].
  rewrite mul64 by lia. cbn [obind]. rewrite add64 by lia. cbn [obind].
  rewrite add64 by lia. cbn [obind].
  rewrite bget_ok by (rewrite blen_of_list; lia). cbn [obind].
  rewrite bget_ok by (rewrite blen_of_list; lia). cbn [obind].
  rewrite bset_ok by lia.
  eexists. split; [reflexivity|]. split; [rewrite blen_bset_raw; exact Hres|]. split.
  - intros q Hq. apply bget_raw_bset_raw_other. lia.
  - rewrite bget_raw_bset_raw_same. rewrite !bget_raw_of_list.
    pose proof (wire16_at i j 1 Hi Hj ltac:(lia)) as H1. pose proof (wire16_at i j 0 Hi Hj ltac:(lia)) as H0.
    rewrite N.add_0_r in H0. rewrite H1, H0. rewrite concat_at by assumption.
    pose proof (pixel_at i j Hi Hj) as Hv. set (v := nth (N.to_nat j) (nth (N.to_nat i) rows []) 0) in *.
    change (N.to_nat 1) with 1%nat. change (N.to_nat 0) with 0%nat. cbn [le16 nth]. unfold of_le16, u16_lo, u16_hi.
    pose proof (N.div_mod v 256 ltac:(lia)) as Hdm.
    assert (Hq : v / 256 < 256) by (apply N.div_lt_upper_bound; lia).
    rewrite (N.mod_small (v / 256) 256) by exact Hq.
    pose proof (N.mod_lt v 256 ltac:(lia)) as Hm.
    rewrite N.mod_small by lia. lia.
Qed.

Lemma raw16_cols_content i : i < h ->
  forall n j res, j + N.of_nat n = w -> r16done (i * w + j) res ->
  exists res', raw16_cols p n (of_list (raw16_wire rows)) res w h i j = Ok res' /\ r16done (i * w + w) res'.
Proof.
  intros Hi. induction n as [|k IH]; intros j res Hn Hd.
  - cbn [raw16_cols]. exists res. split; [reflexivity|]. replace w with j at 2 by lia. exact Hd.
  - cbn [raw16_cols]. destruct Hd as [Hbl Hd].
    destruct (raw16_px_content res i j Hi ltac:(lia) Hbl) as (r & -> & Hbl' & Hold & Hnew).
    cbn [obind]. apply IH; [lia|].
    split; [exact Hbl'|]. intros q Hq.
    destruct (N.eq_dec q (i * w + j)) as [->|Hne]; [exact Hnew|].
    rewrite Hold by exact Hne. apply Hd. lia.
Qed.

Lemma raw16_rows_content :
  forall n i res, i + N.of_nat n = h -> r16done (i * w) res ->
  exists res', raw16_rows p n (of_list (raw16_wire rows)) res w h i = Ok res' /\ r16done (h * w) res'.
Proof.
  induction n as [|k IH]; intros i res Hn Hd.
  - cbn [raw16_rows]. exists res. split; [reflexivity|]. replace h with i by lia. exact Hd.
  - cbn [raw16_rows].
    destruct (raw16_cols_content i ltac:(lia) (N.to_nat w) 0 res ltac:(lia)) as (r & -> & Hd').
    { replace (i * w + 0) with (i * w) by lia. exact Hd. }
    cbn [obind]. apply IH; [lia|]. replace ((i + 1) * w) with (i * w + w) by lia. exact Hd'.
Qed.

Lemma raw16_exact :
  decompress p w h 16 false (raw16_wire rows) = ([2 * (w * h); 4 * (w * h)], Ok (bgra16 (concat rows))).
Proof.
  pose proof wh_b as Hb. pose proof nlen_wire16 as Hwl. unfold decompress.
  change (16 =? 32) with false. change (16 =? 16) with true. cbv iota.
  rewrite mul64 by lia. cbn [obind]. rewrite mul64 by lia. cbn [lift mbind].
  assert (El : nlen (raw16_wire rows) <? w * h * 2 = false) by (apply N.ltb_ge; lia). rewrite El.
  cbn [lift mbind]. rewrite alloc_eq by (rewrite pow63; lia). cbn [mbind lift].
  destruct (raw16_rows_content (N.to_nat h) 0 (bmake (w * h)) ltac:(lia)) as (r & -> & Hbl & Hd).
  { split; [apply blen_bmake|]. intros q Hq. lia. }
  cbn [mbind lift app].
  destruct (rgb_content r (concat rows)) as (o & -> & Ho).
  - lia.
  - intros q Hq. apply Hd. lia.
  - unfold nlen. rewrite (length_concat_uniform (N.to_nat w)) by exact Hunif. rewrite Hrows. lia.
  - cbn [mbind lift app]. rewrite Ho. replace (w * h * 2) with (2 * (w * h)) by lia. reflexivity.
Qed.

End Raw16.

(* ---- uncompressed 32 bpp *)
Section Raw32.
Variable rows : list (list N).     (* top-down rows of B G R A bytes *)
Hypothesis Hrows : length rows = N.to_nat h.
Hypothesis Hunif : uniform (N.to_nat (w * 4)) rows.

Lemma nlen_wire32 : nlen (raw32_wire rows) = 4 * (w * h).
Proof.
  unfold raw32_wire, nlen.
  rewrite (length_concat_uniform (N.to_nat (w * 4))) by (apply uniform_rev; exact Hunif).
  rewrite rev_length, Hrows. lia.
Qed.

Definition r32done (i : N) (res : buf) : Prop :=
  blen res = 4 * (w * h) /\ forall k, k < i * (w * 4) -> bget_raw res k = nth (N.to_nat k) (concat rows) 0.

Lemma raw32_rows_content :
  forall n i res, i + N.of_nat n = h -> r32done i res ->
  exists res', raw32_rows p n (of_list (raw32_wire rows)) res (w * 4) h i = Ok res' /\ r32done h res'.
Proof.
  pose proof wh_b as Hb. pose proof nlen_wire32 as Hwl.
  induction n as [|k IH]; intros i res Hn Hd.
  - cbn [raw32_rows]. exists res. split; [reflexivity|]. replace h with i by lia. exact Hd.
  - cbn [raw32_rows]. destruct Hd as [Hbl Hd].
    assert (Hi : i < h) by lia.
    assert (H1 : (i + 1) * w <= h * w) by (apply N.mul_le_mono_r; lia).
    assert (H2 : (h - i - 1 + 1) * w <= h * w) by (apply N.mul_le_mono_r; lia).
    rewrite sub64 by lia. cbn [obind]. rewrite sub64 by lia. cbn [obind].
    rewrite mul64 by lia. cbn [obind]. rewrite mul64 by lia. cbn [obind].
    rewrite add64 by lia. cbn [obind]. rewrite mul64 by lia. cbn [obind].
    rewrite add64 by lia. cbn [obind].
    unfold copy_slice.
    assert (Hc : (i * (w * 4) <=? (i + 1) * (w * 4)) && ((i + 1) * (w * 4) <=? blen res) &&
                 ((h - i - 1) * (w * 4) <=? (h - i - 1) * (w * 4) + w * 4) &&
                 ((h - i - 1) * (w * 4) + w * 4 <=? blen (of_list (raw32_wire rows))) &&
                 ((i + 1) * (w * 4) - i * (w * 4) =? (h - i - 1) * (w * 4) + w * 4 - (h - i - 1) * (w * 4)) = true).
    { rewrite blen_of_list, Hwl, Hbl. repeat (apply andb_true_intro; split); try apply N.leb_le; try apply N.eqb_eq; lia. }
    rewrite Hc. cbn [obind]. apply IH; [lia|].
    split; [rewrite blen_blit; exact Hbl|].
    intros q Hq. rewrite blit_get.
    replace (N.of_nat (N.to_nat ((i + 1) * (w * 4) - i * (w * 4)))) with (w * 4) by lia.
    destruct (i * (w * 4) <=? q) eqn:E1.
    + apply N.leb_le in E1. assert (E2 : q <? i * (w * 4) + w * 4 = true) by (apply N.ltb_lt; lia). rewrite E2. cbn [andb].
      rewrite bget_raw_of_list. unfold raw32_wire.
      set (c := q - i * (w * 4)).
      replace (N.to_nat ((h - i - 1) * (w * 4) + c)) with (N.to_nat (h - i - 1) * N.to_nat (w * 4) + N.to_nat c)%nat by lia.
      rewrite (nth_concat_uniform (N.to_nat (w * 4))) by (try apply uniform_rev; try exact Hunif; lia).
      rewrite rev_nth by lia.
      replace (N.to_nat q) with (N.to_nat i * N.to_nat (w * 4) + N.to_nat c)%nat by lia.
      rewrite (nth_concat_uniform (N.to_nat (w * 4))) by (try exact Hunif; lia).
      f_equal. f_equal. lia.
    + apply N.leb_gt in E1. cbn [andb]. apply Hd. exact E1.
Qed.

Lemma raw32_exact :
  decompress p w h 32 false (raw32_wire rows) = ([4 * (w * h)], Ok (concat rows)).
Proof.
  pose proof wh_b as Hb. pose proof nlen_wire32 as Hwl. unfold decompress.
  change (32 =? 32) with true. cbv iota.
  rewrite mul64 by lia. cbn [obind]. rewrite mul64 by lia. cbn [lift mbind].
  assert (El : nlen (raw32_wire rows) <? w * h * 4 = false) by (apply N.ltb_ge; lia). rewrite El.
  rewrite mul64 by lia. cbn [lift mbind]. rewrite alloc_eq by (rewrite pow63; lia). cbn [mbind lift].
  destruct (raw32_rows_content (N.to_nat h) 0 (bmake (w * h * 4)) ltac:(lia)) as (r & -> & Hbl & Hd).
  { split; [rewrite blen_bmake; lia|]. intros q Hq. lia. }
  cbn [mbind lift app]. f_equal; [f_equal; lia|]. f_equal.
  assert (Hcl : nlen (concat rows) = 4 * (w * h)).
  { unfold nlen. rewrite (length_concat_uniform (N.to_nat (w * 4))) by exact Hunif. rewrite Hrows. lia. }
  apply to_list_eq.
  - rewrite Hcl. exact Hbl.
  - intros k Hk. apply Hd. rewrite Hcl in Hk. lia.
Qed.

End Raw32.
End Content.
