(* C04, network level authentication: the NTLM NEGOTIATE / AUTHENTICATE tokens (Ntlm.v), the three CredSSP
   TSRequests and the TSCredentials plaintext (CsspGate.v, CsspGateExec.v) are accepted by the strict parsers
   written from MS-NLMP / MS-CSSP (StrictNla.v), and the decoded fields are the configuration's. *)
From RdpV Require Import Base Msg Link Rc4 Rc4_proofs Utf LayoutsNtlmAuth Ntlm NtlmSeal RefNlmp C15_proofs CsspGate C01_proofs CsspGateExec.
From RdpV Require Import LayoutsGlobal LayoutsConnect Tpkt Global RefInput ClientPdus StrictPdu C04_proofs StrictNla.
Open Scope list_scope.
Open Scope N_scope.

Ltac Zify.zify_post_hook ::= Z.to_euclidean_division_equations.

#[local] Arguments nlen : simpl never.

(* ================================================================== byte strings *)
Lemma slice_is_sub b off len : slice b off len = RefNlmp.sub b off len.
Proof. reflexivity. Qed.

Lemma slice_mid (pre f post : bytes) off len :
  off = nlen pre -> len = nlen f -> slice (pre ++ f ++ post) off len = Some f.
Proof. intros. rewrite slice_is_sub. apply sub_mid'; assumption. Qed.

Lemma nlen_N (b : bytes) : N.to_nat (nlen b) = List.length b.
Proof. unfold nlen. apply Nat2N.id. Qed.

Lemma nlen_of_length (b : bytes) k : List.length b = k -> nlen b = N.of_nat k.
Proof. intros <-. reflexivity. Qed.

(* ================================================================== tiling *)
(* six fields laid end to end from [ps] tile [ps, ps + sum) *)
Lemma tiles_chain6 ps stop n1 n2 n3 n4 n5 n6 :
  stop = ps + n1 + n2 + n3 + n4 + n5 + n6 ->
  tiles ps stop [(ps, n1); (ps + n1, n2); (ps + (n1 + n2), n3); (ps + (n1 + n2 + n3), n4);
                 (ps + (n1 + n2 + n3 + n4), n5); (ps + (n1 + n2 + n3 + n4 + n5), n6)] = true.
Proof.
  intros ->. unfold tiles.
  cbn [forallb pairwise_apart total_len]. unfold apart, f_end. cbn [fst snd].
  repeat match goal with
  | |- context [?a <=? ?b] => replace (a <=? b) with true by (symmetry; apply N.leb_le; lia)
  end.
  cbn [andb orb]. apply N.eqb_eq. lia.
Qed.

(* ================================================================== DER lengths *)
Lemma be_value_app a b acc : be_value acc (a ++ b) = be_value (be_value acc a) b.
Proof. revert acc. induction a as [|x a IH]; intro acc; cbn [app be_value]; [reflexivity | apply IH]. Qed.

(* the digits be_digits puts in front of [acc]: the minimal big-endian base-256 form of n *)
Lemma be_digits_spec f : forall k n acc, (k <= f)%nat -> n < 256 ^ N.of_nat k ->
  exists d, CsspGateExec.be_digits f n acc = d ++ acc /\ be_value 0 d = n /\ (List.length d <= k)%nat /\
            (n <> 0 -> d <> [] /\ nth 0 d 0 <> 0) /\ (n = 0 -> d = []).
Proof.
  induction f as [|f IH]; intros k n acc Hk Hn.
  - assert (k = 0%nat) by lia. subst k. cbn in Hn. assert (n = 0) by lia. subst n.
    exists []. cbn. repeat split; try lia; try congruence.
  - cbn [CsspGateExec.be_digits]. destruct (n =? 0) eqn:E.
    + apply N.eqb_eq in E. subst n. exists []. cbn. repeat split; try lia; try congruence.
    + apply N.eqb_neq in E.
      destruct k as [|k]; [cbn in Hn; lia|].
      assert (Hq : n / 256 < 256 ^ N.of_nat k).
      { apply N.div_lt_upper_bound; [lia|]. rewrite Nat2N.inj_succ, N.pow_succ_r' in Hn. lia. }
      destruct (IH k (n / 256) (n mod 256 :: acc) ltac:(lia) Hq) as (d' & Hd & Hv & Hl & Hnz & Hz).
      exists (d' ++ [n mod 256]). split; [|split; [|split; [|split]]].
      * rewrite Hd, <- app_assoc. reflexivity.
      * rewrite be_value_app, Hv. cbn [be_value]. rewrite N.mul_comm. symmetry. apply N.div_mod. lia.
      * rewrite app_length. cbn [Datatypes.length]. clear - Hl. lia.
      * intros _. split; [destruct d'; discriminate|].
        destruct (N.eq_dec (n / 256) 0) as [Hq0|Hq0].
        -- rewrite (Hz Hq0). cbn [app nth]. clear - E Hq0. lia.
        -- destruct (Hnz Hq0) as [Hne Hnth]. destruct d' as [|x d']; [congruence|]. exact Hnth.
      * intros; congruence.
Qed.

Definition DER_MAX : N := 18446744073709551616.       (* 2^64: sizes are usize *)

Ltac pguard_by H := rewrite (bind_step _ _ _ _ _ (guard_true _ _ H)); cbv beta.

Lemma der_digits n : 128 <= n < DER_MAX ->
  exists d, CsspGateExec.der_len n = (128 + nlen d) :: d /\ be_value 0 d = n /\ 1 <= nlen d <= 8 /\ nth 0 d 0 <> 0.
Proof.
  intros [Hlo Hhi]. unfold CsspGateExec.der_len.
  replace (n <? 128) with false by (symmetry; apply N.ltb_ge; lia). cbv zeta.
  destruct (be_digits_spec 9 8 n [] ltac:(lia) Hhi) as (d & Hd & Hv & Hl & Hnz & _).
  rewrite app_nil_r in Hd. rewrite Hd. destruct (Hnz ltac:(lia)) as [Hne Hnth].
  exists d. repeat split; try assumption; unfold nlen; destruct d; try congruence; cbn [Datatypes.length] in *; lia.
Qed.

Lemma der_length_len n r : n < DER_MAX -> der_length (CsspGateExec.der_len n ++ r) = Some (n, r).
Proof.
  intro Hn. destruct (n <? 128) eqn:E.
  - unfold CsspGateExec.der_len. rewrite E. cbn [app]. unfold der_length.
    rewrite (bind_step _ _ (n :: r) n r eq_refl). rewrite E. reflexivity.
  - apply N.ltb_ge in E. destruct (der_digits n ltac:(lia)) as (d & Hd & Hv & Hl & Hnth).
    rewrite Hd. cbn [app]. unfold der_length.
    rewrite (bind_step _ _ (_ :: _) (128 + nlen d) (d ++ r) eq_refl).
    replace (128 + nlen d <? 128) with false by (symmetry; apply N.ltb_ge; lia).
    replace ((129 <=? 128 + nlen d) && (128 + nlen d <=? 136)) with true
      by (symmetry; apply andb_true_iff; split; apply N.leb_le; lia).
    replace (128 + nlen d - 128) with (nlen d) by lia.
    pstep (takeN_app d r).
    assert (Hg : negb (nth 0 d 0 =? 0) = true) by (apply negb_true_iff, N.eqb_neq; exact Hnth).
    pguard_by Hg. cbv zeta. rewrite Hv.
    assert (Hg2 : (128 <=? n) = true) by (apply N.leb_le; lia).
    pguard_by Hg2. reflexivity.
Qed.

Lemma nlen_der_len n : n < DER_MAX -> nlen (CsspGateExec.der_len n) <= 9.
Proof.
  intro Hn. destruct (n <? 128) eqn:E.
  - unfold CsspGateExec.der_len. rewrite E. change (nlen [n]) with 1. lia.
  - apply N.ltb_ge in E. destruct (der_digits n ltac:(lia)) as (d & Hd & _ & Hl & _). rewrite Hd, nlen_cons. lia.
Qed.

Lemma nlen_der_tlv tag body : nlen body < DER_MAX -> nlen (CsspGateExec.der_tlv tag body) <= nlen body + 10.
Proof.
  intro H. unfold CsspGateExec.der_tlv. rewrite nlen_cons, nlen_app. pose proof (nlen_der_len _ H). lia.
Qed.

Lemma der_tlv_app tag body r :
  nlen body < DER_MAX -> StrictNla.der_tlv tag (CsspGateExec.der_tlv tag body ++ r) = Some (body, r).
Proof.
  intro H. unfold StrictNla.der_tlv, CsspGateExec.der_tlv. cbn [app]. rewrite <- app_assoc.
  change (tag :: der_len (nlen body) ++ body ++ r) with ([tag] ++ der_len (nlen body) ++ body ++ r).
  pstep (const_app [tag] (der_len (nlen body) ++ body ++ r)).
  pstep (der_length_len (nlen body) (body ++ r) H). apply takeN_app.
Qed.

Lemma der_explicit_app {A} (m : parser A) n body a r :
  nlen body < DER_MAX -> exactly m body = Some a -> der_explicit n m (der_ctx n body ++ r) = Some (a, r).
Proof.
  intros Hb Hm. unfold der_explicit, der_ctx. pstep (der_tlv_app (160 + n) body r Hb).
  unfold StrictPdu.sub, lift. rewrite Hm. reflexivity.
Qed.

Lemma der_optional_present {A} (m : parser A) n body a r :
  nlen body < DER_MAX -> exactly m body = Some a -> der_optional n m (der_ctx n body ++ r) = Some (Some a, r).
Proof.
  intros Hb Hm. pose proof (der_explicit_app m n body a r Hb Hm) as E.
  unfold der_ctx, CsspGateExec.der_tlv in *. cbn [app] in *. unfold der_optional. rewrite N.eqb_refl.
  rewrite (bind_step _ _ _ _ _ E). reflexivity.
Qed.

Lemma der_optional_other {A} (m : parser A) n k body r :
  k <> n -> der_optional n m (der_ctx k body ++ r) = Some (None, der_ctx k body ++ r).
Proof.
  intro H. unfold der_ctx, CsspGateExec.der_tlv. cbn [app]. unfold der_optional.
  replace (160 + k =? 160 + n) with false by (symmetry; apply N.eqb_neq; lia). reflexivity.
Qed.

Lemma der_optional_end {A} (m : parser A) n : der_optional n m [] = Some (None, []).
Proof. reflexivity. Qed.

Lemma exactly_der_octets b : nlen b < DER_MAX -> exactly der_octets (CsspGateExec.der_octets b) = Some b.
Proof.
  intro H. unfold exactly, der_octets, CsspGateExec.der_octets.
  rewrite <- (app_nil_r (CsspGateExec.der_tlv 4 b)). rewrite (der_tlv_app 4 b [] H). reflexivity.
Qed.

Lemma exactly_der_small_int v : v < 128 -> exactly der_uint (der_small_int v) = Some v.
Proof.
  intro H. unfold exactly, der_uint, der_small_int.
  assert (E : StrictNla.der_tlv 2 [2; 1; v] = Some ([v], [])) by reflexivity.
  pstep E.
  assert (Hg : (v <? 128) = true) by (apply N.ltb_lt; exact H). pguard_by Hg. reflexivity.
Qed.

(* ================================================================== CredSSP structures *)
Definition SMALL : N := 1152921504606846976.      (* 2^60 *)

Lemma exactly_explicit {A} (m : parser A) n body a :
  nlen body < DER_MAX -> exactly m body = Some a -> exactly (der_explicit n m) (der_ctx n body) = Some a.
Proof.
  intros Hb Hm. unfold exactly. rewrite <- (app_nil_r (der_ctx n body)).
  rewrite (der_explicit_app m n body a [] Hb Hm). reflexivity.
Qed.

Lemma exactly_seq {A} (m : parser A) body a :
  nlen body < DER_MAX -> exactly m body = Some a ->
  exactly (c <- StrictNla.der_tlv 48 ;; StrictPdu.sub m c) (der_seq body) = Some a.
Proof.
  intros Hb Hm. unfold exactly at 1, der_seq. rewrite <- (app_nil_r (CsspGateExec.der_tlv 48 body)).
  pstep (der_tlv_app 48 body [] Hb). unfold StrictPdu.sub, lift. rewrite Hm. reflexivity.
Qed.

Lemma many_one {A} (m : parser A) b a :
  b <> [] -> m b = Some (a, []) -> exactly (many (List.length b) m) b = Some [a].
Proof.
  intros Hb Hm. destruct b as [|x b]; [congruence|]. cbn [Datatypes.length many]. unfold exactly.
  pstep Hm. destruct (List.length b); reflexivity.
Qed.

Ltac dbound := unfold SMALL, DER_MAX in *; lia.

Lemma nego_token_parses t : nlen t < SMALL ->
  sp_nego_token (der_seq (der_ctx 0 (CsspGateExec.der_octets t))) = Some (t, []).
Proof.
  intro Ht. pose proof (nlen_der_tlv 4 t ltac:(dbound)) as B1. fold (CsspGateExec.der_octets t) in B1.
  pose proof (nlen_der_tlv (160 + 0) (CsspGateExec.der_octets t) ltac:(dbound)) as B2. fold (der_ctx 0 (CsspGateExec.der_octets t)) in B2.
  unfold sp_nego_token, der_seq. rewrite <- (app_nil_r (CsspGateExec.der_tlv 48 _)).
  pstep (der_tlv_app 48 (der_ctx 0 (CsspGateExec.der_octets t)) [] ltac:(dbound)).
  unfold StrictPdu.sub, lift.
  rewrite (exactly_explicit der_octets 0 (CsspGateExec.der_octets t) t ltac:(dbound) (exactly_der_octets t ltac:(dbound))).
  reflexivity.
Qed.

Definition nego_data_bytes (t : bytes) : bytes := der_seq (der_seq (der_ctx 0 (CsspGateExec.der_octets t))).

Lemma nlen_nego_data t : nlen t < SMALL -> nlen (nego_data_bytes t) <= nlen t + 40.
Proof.
  intro Ht. unfold nego_data_bytes, der_seq, der_ctx, CsspGateExec.der_octets.
  pose proof (nlen_der_tlv 4 t ltac:(dbound)) as B1.
  pose proof (nlen_der_tlv (160 + 0) (CsspGateExec.der_tlv 4 t) ltac:(dbound)) as B2.
  pose proof (nlen_der_tlv 48 (CsspGateExec.der_tlv (160 + 0) (CsspGateExec.der_tlv 4 t)) ltac:(dbound)) as B3.
  pose proof (nlen_der_tlv 48 (CsspGateExec.der_tlv 48 (CsspGateExec.der_tlv (160 + 0) (CsspGateExec.der_tlv 4 t))) ltac:(dbound)) as B4.
  lia.
Qed.

Lemma exactly_nego_data t : nlen t < SMALL -> exactly sp_nego_data (nego_data_bytes t) = Some [t].
Proof.
  intro Ht. unfold sp_nego_data, nego_data_bytes.
  pose proof (nlen_der_tlv 4 t ltac:(dbound)) as B1. fold (CsspGateExec.der_octets t) in B1.
  pose proof (nlen_der_tlv (160 + 0) (CsspGateExec.der_octets t) ltac:(dbound)) as B2. fold (der_ctx 0 (CsspGateExec.der_octets t)) in B2.
  pose proof (nlen_der_tlv 48 (der_ctx 0 (CsspGateExec.der_octets t)) ltac:(dbound)) as B3. fold (der_seq (der_ctx 0 (CsspGateExec.der_octets t))) in B3.
  unfold exactly at 1. unfold der_seq at 1. rewrite <- (app_nil_r (CsspGateExec.der_tlv 48 _)).
  pstep (der_tlv_app 48 (der_seq (der_ctx 0 (CsspGateExec.der_octets t))) [] ltac:(dbound)).
  unfold StrictPdu.sub, lift.
  rewrite (many_one sp_nego_token _ t); [reflexivity | unfold der_seq, CsspGateExec.der_tlv; discriminate | apply nego_token_parses; exact Ht].
Qed.

Lemma nlen_version_field v : nlen (der_ctx 0 (der_small_int v)) <= 15.
Proof.
  unfold der_ctx, der_small_int.
  assert (H : nlen [2; 1; v] < DER_MAX) by (change (nlen [2; 1; v]) with 3; unfold DER_MAX; lia).
  pose proof (nlen_der_tlv (160 + 0) [2; 1; v] H) as B. change (nlen [2; 1; v]) with 3 in B. lia.
Qed.

Lemma small_int_bound v : nlen (der_small_int v) < DER_MAX.
Proof. unfold der_small_int. change (nlen [2; 1; v]) with 3. unfold DER_MAX. lia. Qed.

(* the three TSRequests of the client *)
Theorem ts_request_parses nego : nlen nego < SMALL ->
  exactly sp_ts_request (x_create_ts_request nego) = Some (mkTsRequest 2 (Some [nego]) None None None None).
Proof.
  intro Hn. pose proof (nlen_nego_data nego Hn) as Bn.
  unfold x_create_ts_request, sp_ts_request. fold (nego_data_bytes nego).
  pose proof (nlen_der_tlv (160 + 1) (nego_data_bytes nego) ltac:(dbound)) as B1. fold (der_ctx 1 (nego_data_bytes nego)) in B1.
  pose proof (nlen_version_field 2) as B0.
  apply exactly_seq; [rewrite nlen_app; dbound|].
  unfold exactly, sp_ts_request_fields.
  pstep (der_explicit_app der_uint 0 (der_small_int 2) 2 (der_ctx 1 (nego_data_bytes nego)) (small_int_bound 2) (exactly_der_small_int 2 ltac:(lia))).
  rewrite <- (app_nil_r (der_ctx 1 (nego_data_bytes nego))).
  pstep (der_optional_present sp_nego_data 1 (nego_data_bytes nego) [nego] [] ltac:(dbound) (exactly_nego_data nego Hn)).
  reflexivity.
Qed.

Theorem ts_authenticate_parses nego pka : nlen nego < SMALL -> nlen pka < SMALL ->
  exactly sp_ts_request (x_create_ts_authenticate nego pka) = Some (mkTsRequest 2 (Some [nego]) None (Some pka) None None).
Proof.
  intros Hn Hk. pose proof (nlen_nego_data nego Hn) as Bn.
  unfold x_create_ts_authenticate, sp_ts_request. fold (nego_data_bytes nego).
  pose proof (nlen_der_tlv (160 + 1) (nego_data_bytes nego) ltac:(dbound)) as B1. fold (der_ctx 1 (nego_data_bytes nego)) in B1.
  pose proof (nlen_der_tlv 4 pka ltac:(dbound)) as B2. fold (CsspGateExec.der_octets pka) in B2.
  pose proof (nlen_der_tlv (160 + 3) (CsspGateExec.der_octets pka) ltac:(dbound)) as B3. fold (der_ctx 3 (CsspGateExec.der_octets pka)) in B3.
  pose proof (nlen_version_field 2) as B0.
  apply exactly_seq; [rewrite !nlen_app; dbound|].
  unfold exactly, sp_ts_request_fields.
  pstep (der_explicit_app der_uint 0 (der_small_int 2) 2 (der_ctx 1 (nego_data_bytes nego) ++ der_ctx 3 (CsspGateExec.der_octets pka))
           (small_int_bound 2) (exactly_der_small_int 2 ltac:(lia))).
  pstep (der_optional_present sp_nego_data 1 (nego_data_bytes nego) [nego] (der_ctx 3 (CsspGateExec.der_octets pka)) ltac:(dbound) (exactly_nego_data nego Hn)).
  rewrite <- (app_nil_r (der_ctx 3 (CsspGateExec.der_octets pka))).
  pstep (der_optional_other der_octets 2 3 (CsspGateExec.der_octets pka) [] ltac:(lia)).
  pstep (der_optional_present der_octets 3 (CsspGateExec.der_octets pka) pka [] ltac:(dbound) (exactly_der_octets pka ltac:(dbound))).
  reflexivity.
Qed.

Theorem ts_authinfo_parses info : nlen info < SMALL ->
  exactly sp_ts_request (x_create_ts_authinfo info) = Some (mkTsRequest 2 None (Some info) None None None).
Proof.
  intros Hk.
  unfold x_create_ts_authinfo, sp_ts_request.
  pose proof (nlen_der_tlv 4 info ltac:(dbound)) as B2. fold (CsspGateExec.der_octets info) in B2.
  pose proof (nlen_der_tlv (160 + 2) (CsspGateExec.der_octets info) ltac:(dbound)) as B3. fold (der_ctx 2 (CsspGateExec.der_octets info)) in B3.
  pose proof (nlen_version_field 2) as B0.
  apply exactly_seq; [rewrite !nlen_app; dbound|].
  unfold exactly, sp_ts_request_fields.
  pstep (der_explicit_app der_uint 0 (der_small_int 2) 2 (der_ctx 2 (CsspGateExec.der_octets info))
           (small_int_bound 2) (exactly_der_small_int 2 ltac:(lia))).
  rewrite <- (app_nil_r (der_ctx 2 (CsspGateExec.der_octets info))).
  pstep (der_optional_other sp_nego_data 1 2 (CsspGateExec.der_octets info) [] ltac:(lia)).
  pstep (der_optional_present der_octets 2 (CsspGateExec.der_octets info) info [] ltac:(dbound) (exactly_der_octets info ltac:(dbound))).
  reflexivity.
Qed.

(* TSCredentials / TSPasswordCreds: three OCTET STRINGs, credType 1 *)
Theorem ts_credentials_parses unicode d u pw dn un pn :
  nlen d < SMALL -> nlen u < SMALL -> nlen pw < SMALL ->
  decode_name unicode d = Some dn -> decode_name unicode u = Some un -> decode_name unicode pw = Some pn ->
  exactly (sp_ts_credentials unicode) (x_create_ts_credentials d u pw) = Some (mkPasswordCreds dn un pn).
Proof.
  intros Hd Hu Hp Ed Eu Ep.
  unfold x_create_ts_credentials. cbv zeta.
  pose proof (nlen_der_tlv 4 d ltac:(dbound)) as D1. fold (CsspGateExec.der_octets d) in D1.
  pose proof (nlen_der_tlv (160 + 0) (CsspGateExec.der_octets d) ltac:(dbound)) as D2. fold (der_ctx 0 (CsspGateExec.der_octets d)) in D2.
  pose proof (nlen_der_tlv 4 u ltac:(dbound)) as U1. fold (CsspGateExec.der_octets u) in U1.
  pose proof (nlen_der_tlv (160 + 1) (CsspGateExec.der_octets u) ltac:(dbound)) as U2. fold (der_ctx 1 (CsspGateExec.der_octets u)) in U2.
  pose proof (nlen_der_tlv 4 pw ltac:(dbound)) as P1. fold (CsspGateExec.der_octets pw) in P1.
  pose proof (nlen_der_tlv (160 + 2) (CsspGateExec.der_octets pw) ltac:(dbound)) as P2. fold (der_ctx 2 (CsspGateExec.der_octets pw)) in P2.
  set (fields := der_ctx 0 (CsspGateExec.der_octets d) ++ der_ctx 1 (CsspGateExec.der_octets u) ++ der_ctx 2 (CsspGateExec.der_octets pw)).
  assert (F0 : nlen fields <= nlen d + nlen u + nlen pw + 60) by (unfold fields; rewrite !nlen_app; lia).
  pose proof (nlen_der_tlv 48 fields ltac:(dbound)) as F1. fold (der_seq fields) in F1.
  pose proof (nlen_der_tlv 4 (der_seq fields) ltac:(dbound)) as F2. fold (CsspGateExec.der_octets (der_seq fields)) in F2.
  pose proof (nlen_der_tlv (160 + 1) (CsspGateExec.der_octets (der_seq fields)) ltac:(dbound)) as F3.
  fold (der_ctx 1 (CsspGateExec.der_octets (der_seq fields))) in F3.
  pose proof (nlen_version_field 1) as B0.
  assert (Einner : exactly (sp_ts_password_creds unicode) (der_seq fields) = Some (mkPasswordCreds dn un pn)).
  { unfold sp_ts_password_creds. apply exactly_seq; [dbound|].
    unfold exactly, sp_ts_password_creds_fields, fields.
    pstep (der_explicit_app der_octets 0 (CsspGateExec.der_octets d) d (der_ctx 1 (CsspGateExec.der_octets u) ++ der_ctx 2 (CsspGateExec.der_octets pw))
             ltac:(dbound) (exactly_der_octets d ltac:(dbound))).
    pstep (der_explicit_app der_octets 1 (CsspGateExec.der_octets u) u (der_ctx 2 (CsspGateExec.der_octets pw))
             ltac:(dbound) (exactly_der_octets u ltac:(dbound))).
    rewrite <- (app_nil_r (der_ctx 2 (CsspGateExec.der_octets pw))).
    pstep (der_explicit_app der_octets 2 (CsspGateExec.der_octets pw) pw [] ltac:(dbound) (exactly_der_octets pw ltac:(dbound))).
    unfold lift, bind. rewrite Ed, Eu, Ep. reflexivity. }
  unfold sp_ts_credentials. apply exactly_seq; [rewrite !nlen_app; dbound|].
  unfold exactly, sp_ts_credentials_fields.
  pstep (der_explicit_app der_uint 0 (der_small_int 1) 1 (der_ctx 1 (CsspGateExec.der_octets (der_seq fields)))
           (small_int_bound 1) (exactly_der_small_int 1 ltac:(lia))).
  pguard.
  rewrite <- (app_nil_r (der_ctx 1 (CsspGateExec.der_octets (der_seq fields)))).
  pstep (der_explicit_app der_octets 1 (CsspGateExec.der_octets (der_seq fields)) (der_seq fields) []
           ltac:(dbound) (exactly_der_octets (der_seq fields) ltac:(dbound))).
  unfold lift. rewrite Einner. reflexivity.
Qed.

(* ================================================================== names *)
Lemma utf16le_units s : Utf.utf16le s = ClientPdus.utf16le s.
Proof.
  unfold Utf.utf16le, ClientPdus.utf16le, units_le, ClientPdus.utf16.
  induction s as [|c s IH]; [reflexivity|]. cbn [flat_map]. rewrite flat_map_app, IH. reflexivity.
Qed.

Definition name_of (unicode : bool) (s : list N) : name := if unicode then NUnicode s else NOem (Utf.utf8 s).

Lemma decode_encode_name (u : bool) s : Forall scalar s -> decode_name u (encode_name u s) = Some (name_of u s).
Proof.
  intro Hs. unfold decode_name, encode_name, name_of, unicode. destruct u; [|reflexivity].
  rewrite utf16le_units. unfold ClientPdus.utf16le.
  rewrite units_of_units_le by (apply utf16_units_small; exact Hs).
  rewrite utf16_decode_utf16 by exact Hs. reflexivity.
Qed.

Lemma decode_name_empty u : decode_name u [] = Some (name_of u []).
Proof. destruct u; reflexivity. Qed.

(* ================================================================== AV pairs, NTLMv2 response *)
Lemma takeN0 r : takeN 0 r = Some ([], r).
Proof. unfold takeN. replace (0 <=? nlen r) with true by (symmetry; apply N.leb_le; lia). reflexivity. Qed.

Lemma av_pair_app id v r : id < 65536 -> nlen v < 65536 ->
  sp_av_pair (le16 id ++ le16 (nlen v) ++ v ++ r) = Some ((id, v), r).
Proof.
  intros Hi Hv. unfold sp_av_pair.
  pstep (le16p_app id (le16 (nlen v) ++ v ++ r) Hi).
  pstep (le16p_app (nlen v) (v ++ r) Hv).
  pstep (takeN_app v r). reflexivity.
Qed.

Lemma av_list_parses pairs : forall fuel r, Forall av_ok pairs -> (List.length pairs < fuel)%nat ->
  sp_av_list fuel (av_bytes pairs r) = Some (pairs, r).
Proof.
  unfold av_bytes.
  induction pairs as [|[id v] pairs IH]; intros fuel r Hok Hf.
  - destruct fuel; [lia|]. cbn [flat_map app sp_av_list].
    pose proof (av_pair_app 0 [] r ltac:(lia) ltac:(change (nlen (@nil N)) with 0; lia)) as E.
    change (nlen (@nil N)) with 0 in E. cbn [app] in E.
    pstep E. cbn [fst snd]. change (0 =? 0) with true. cbv iota.
    change (nlen (@nil N) =? 0) with true. reflexivity.
  - destruct fuel; [cbn [Datatypes.length] in Hf; lia|].
    inversion Hok as [|q qs [Hid Hv] Hok']; subst. cbn [fst snd] in Hid, Hv.
    cbn [flat_map sp_av_list]. rewrite <- !app_assoc.
    pstep (av_pair_app id v (flat_map (fun '(id0, v0) => le16 id0 ++ le16 (nlen v0) ++ v0) pairs ++ le16 0 ++ le16 0 ++ r)
             ltac:(lia) Hv).
    cbn [fst snd]. replace (id =? 0) with false by (symmetry; apply N.eqb_neq; lia).
    pguard.
    pstep (IH fuel r Hok' ltac:(cbn [Datatypes.length] in Hf; lia)). reflexivity.
Qed.

Lemma nt_response_parses proof ts nonce pairs :
  List.length proof = 16%nat -> List.length ts = 8%nat -> List.length nonce = 8%nat -> Forall av_ok pairs ->
  exactly sp_ntlmv2_response (proof ++ temp_of ts nonce (av_bytes pairs [])) = Some (mkNtResponse proof ts nonce pairs).
Proof.
  intros Hp Ht Hn Hok. unfold exactly, sp_ntlmv2_response, temp_of.
  pstep (takeN_app_n 16 proof ([1] ++ [1] ++ repeat 0 6 ++ ts ++ nonce ++ repeat 0 4 ++ av_bytes pairs [])
           (eq_sym (nlen_of_length proof 16 Hp))).
  pstep (const_app [1] ([1] ++ repeat 0 6 ++ ts ++ nonce ++ repeat 0 4 ++ av_bytes pairs [])).
  pstep (const_app [1] (repeat 0 6 ++ ts ++ nonce ++ repeat 0 4 ++ av_bytes pairs [])).
  change (repeat 0 6) with ([0; 0] ++ [0; 0; 0; 0]). rewrite <- app_assoc.
  pstep (const_app [0; 0] ([0; 0; 0; 0] ++ ts ++ nonce ++ repeat 0 4 ++ av_bytes pairs [])).
  pstep (const_app [0; 0; 0; 0] (ts ++ nonce ++ repeat 0 4 ++ av_bytes pairs [])).
  pstep (takeN_app_n 8 ts (nonce ++ repeat 0 4 ++ av_bytes pairs []) (eq_sym (nlen_of_length ts 8 Ht))).
  pstep (takeN_app_n 8 nonce (repeat 0 4 ++ av_bytes pairs []) (eq_sym (nlen_of_length nonce 8 Hn))).
  change (repeat 0 4) with [0; 0; 0; 0].
  pstep (const_app [0; 0; 0; 0] (av_bytes pairs [])).
  rewrite (bind_step remaining _ (av_bytes pairs []) (nlen (av_bytes pairs [])) (av_bytes pairs []) eq_refl). cbv beta.
  pstep (av_list_parses pairs (S (N.to_nat (nlen (av_bytes pairs [])))) [] Hok
           ltac:(rewrite nlen_N; apply av_bytes_fuel)).
  rewrite (bind_step remaining _ [] 0 [] eq_refl). cbv beta.
  reflexivity.
Qed.

(* ================================================================== AUTHENTICATE_MESSAGE *)
Lemma descriptor_app len off r : len < 65536 -> off < 4294967296 ->
  sp_descriptor (le16 len ++ le16 len ++ le32 off ++ r) = Some ((off, len), r).
Proof.
  intros Hl Ho. unfold sp_descriptor.
  pstep (le16p_app len (le16 len ++ le32 off ++ r) Hl).
  pstep (le16p_app len (le32 off ++ r) Hl).
  pstep (le32p_app off r Ho).
  assert (Hg : (len =? len) = true) by apply N.eqb_refl. pguard_by Hg. reflexivity.
Qed.

Lemma version_slot_on r : sp_version (version_bytes ++ r) = Some (version_bytes, r).
Proof.
  unfold sp_version. pstep (takeN_app_n 8 version_bytes r eq_refl).
  assert (Hg : (nth 7 version_bytes 0 =? 15) = true) by reflexivity. pguard_by Hg. reflexivity.
Qed.

Definition auth_expected (flags : N) (M lm : bytes) (ntr : ntlmv2_response) (d u : name) (ek : bytes) : authenticate_data :=
  mkAuthenticate flags (if N.testbit flags 25 then Some version_bytes else None) M lm ntr d u
                 (name_of (N.testbit flags 0) []) ek.

Lemma auth_body_stream tokp lm nt dom user ek M flags ntr d u :
  nlen lm = 24 -> nlen nt <= 65535 -> nlen dom <= 65535 -> nlen user <= 65535 -> nlen ek = 16 ->
  flags < 4294967296 -> List.length M = 16%nat ->
  exactly sp_ntlmv2_response nt = Some ntr ->
  decode_name (N.testbit flags 0) dom = Some d -> decode_name (N.testbit flags 0) user = Some u ->
  let off := if N.testbit flags 25 then 88 else 80 in
  nlen tokp = off + nlen (token_payload lm nt dom user ek) ->
  slice tokp off (nlen lm) = Some lm ->
  slice tokp (off + nlen lm) (nlen nt) = Some nt ->
  slice tokp (off + (nlen lm + nlen nt)) (nlen dom) = Some dom ->
  slice tokp (off + (nlen lm + nlen nt + nlen dom)) (nlen user) = Some user ->
  slice tokp (off + (nlen lm + nlen nt + nlen dom + nlen user)) 0 = Some [] ->
  slice tokp (off + (nlen lm + nlen nt + nlen dom + nlen user + 0)) (nlen ek) = Some ek ->
  sp_authenticate_body false tokp (auth_header lm nt dom user [] ek flags ++ M ++ token_payload lm nt dom user ek)
  = Some (auth_expected flags M lm ntr d u ek, []).
Proof.
  intros L1 L2 L3 L4 Lk Hfl HM Hnt Hd Hu off Htot S1 S2 S3 S4 S5 S6.
  unfold auth_header, auth_fixed, FLAG_VERSION. fold off.
  change (nlen (@nil N)) with 0.
  rewrite !C15_proofs.as_u16_small by lia. rewrite !as_u32_small by lia.
  assert (Hoff : off = 80 \/ off = 88) by (unfold off; destruct (N.testbit flags 25); auto).
  unfold sp_authenticate_body. rewrite <- !app_assoc.
  change ntlmssp_sig with NTLMSSP_SIGNATURE.
  match goal with |- context [NTLMSSP_SIGNATURE ++ ?r] => pstep (const_app NTLMSSP_SIGNATURE r) end.
  match goal with |- context [le32 3 ++ ?r] => pstep (le32p_app 3 r ltac:(lia)) end.
  pguard.
  match goal with |- context [le16 (nlen lm) ++ le16 (nlen lm) ++ le32 ?o ++ ?r] => pstep (descriptor_app (nlen lm) o r ltac:(lia) ltac:(lia)) end.
  match goal with |- context [le16 (nlen nt) ++ le16 (nlen nt) ++ le32 ?o ++ ?r] => pstep (descriptor_app (nlen nt) o r ltac:(lia) ltac:(lia)) end.
  match goal with |- context [le16 (nlen dom) ++ le16 (nlen dom) ++ le32 ?o ++ ?r] => pstep (descriptor_app (nlen dom) o r ltac:(lia) ltac:(lia)) end.
  match goal with |- context [le16 (nlen user) ++ le16 (nlen user) ++ le32 ?o ++ ?r] => pstep (descriptor_app (nlen user) o r ltac:(lia) ltac:(lia)) end.
  match goal with |- context [le16 0 ++ le16 0 ++ le32 ?o ++ ?r] => pstep (descriptor_app 0 o r ltac:(lia) ltac:(lia)) end.
  match goal with |- context [le16 (nlen ek) ++ le16 (nlen ek) ++ le32 ?o ++ ?r] => pstep (descriptor_app (nlen ek) o r ltac:(lia) ltac:(lia)) end.
  match goal with |- context [le32 flags ++ ?r] => pstep (le32p_app flags r Hfl) end.
  (* VERSION slot, MIC *)
  assert (Hslot : forall r, sp_version_slot flags false ((if N.testbit flags 25 then version_bytes else []) ++ r)
                            = Some (if N.testbit flags 25 then Some version_bytes else None, r)).
  { intro r. unfold sp_version_slot, BIT_VERSION. destruct (N.testbit flags 25).
    - pstep (version_slot_on r). reflexivity.
    - reflexivity. }
  match goal with |- context [(if N.testbit flags 25 then version_bytes else []) ++ ?r] => pstep (Hslot r) end.
  pstep (takeN_app_n 16 M (token_payload lm nt dom user ek) (eq_sym (nlen_of_length M 16 HM))).
  rewrite (bind_step remaining _ (token_payload lm nt dom user ek) (nlen (token_payload lm nt dom user ek)) _ eq_refl). cbv beta zeta.
  replace (nlen tokp - nlen (token_payload lm nt dom user ek)) with off by lia.
  assert (Htiles : tiles off (nlen tokp)
            [(off, nlen lm); (off + nlen lm, nlen nt); (off + (nlen lm + nlen nt), nlen dom);
             (off + (nlen lm + nlen nt + nlen dom), nlen user); (off + (nlen lm + nlen nt + nlen dom + nlen user), 0);
             (off + (nlen lm + nlen nt + nlen dom + nlen user + 0), nlen ek)] = true).
  { apply tiles_chain6. rewrite Htot. unfold token_payload. rewrite !nlen_app. change (nlen (@nil N)) with 0. lia. }
  pguard_by Htiles.
  rewrite (bind_step rest _ (token_payload lm nt dom user ek) (token_payload lm nt dom user ek) [] eq_refl). cbv beta.
  cbn [fst snd]. unfold BIT_UNICODE, BIT_KEY_EXCH.
  unfold bind, lift, guard, ret.
  rewrite S1. rewrite L1. change (24 =? 24) with true. cbv iota beta.
  rewrite <- L1. rewrite S2. cbv iota beta. rewrite Hnt. cbv iota beta.
  rewrite S3. cbv iota beta. rewrite Hd. cbv iota beta.
  rewrite S4. cbv iota beta. rewrite Hu. cbv iota beta.
  rewrite S5. cbv iota beta. rewrite decode_name_empty. cbv iota beta.
  rewrite S6. cbv iota beta.
  rewrite Lk. change (16 =? 16) with true. rewrite orb_true_r. cbv iota beta.
  reflexivity.
Qed.

Lemma nlen_auth_header lm nt dom user ws ek flags :
  nlen (auth_header lm nt dom user ws ek flags) = if N.testbit flags 25 then 72 else 64.
Proof.
  unfold auth_header, FLAG_VERSION. rewrite nlen_app, nlen_fixed. destruct (N.testbit flags 25); reflexivity.
Qed.

Theorem auth_token_parses lm nt dom user ek M flags ntr d u :
  nlen lm = 24 -> nlen nt <= 65535 -> nlen dom <= 65535 -> nlen user <= 65535 -> nlen ek = 16 ->
  flags < 4294967296 -> List.length M = 16%nat ->
  exactly sp_ntlmv2_response nt = Some ntr ->
  decode_name (N.testbit flags 0) dom = Some d -> decode_name (N.testbit flags 0) user = Some u ->
  sp_authenticate (auth_header lm nt dom user [] ek flags ++ M ++ token_payload lm nt dom user ek)
  = Some (auth_expected flags M lm ntr d u ek).
Proof.
  intros L1 L2 L3 L4 Lk Hfl HM Hnt Hd Hu.
  set (H := auth_header lm nt dom user [] ek flags).
  set (tok := H ++ M ++ token_payload lm nt dom user ek).
  set (off := if N.testbit flags 25 then 88 else 80).
  assert (HH : nlen H + 16 = off).
  { unfold H, off. rewrite nlen_auth_header. destruct (N.testbit flags 25); reflexivity. }
  assert (HMn : nlen M = 16) by (apply (nlen_of_length M 16 HM)).
  assert (Htot : nlen tok = off + nlen (token_payload lm nt dom user ek)).
  { unfold tok. rewrite !nlen_app. lia. }
  assert (S1 : slice tok off (nlen lm) = Some lm).
  { replace tok with ((H ++ M) ++ lm ++ (nt ++ dom ++ user ++ [] ++ ek))
      by (unfold tok, token_payload; rewrite <- !app_assoc; reflexivity).
    apply slice_mid; [rewrite nlen_app; lia | reflexivity]. }
  assert (S2 : slice tok (off + nlen lm) (nlen nt) = Some nt).
  { replace tok with ((H ++ M ++ lm) ++ nt ++ (dom ++ user ++ [] ++ ek))
      by (unfold tok, token_payload; rewrite <- !app_assoc; reflexivity).
    apply slice_mid; [rewrite !nlen_app; lia | reflexivity]. }
  assert (S3 : slice tok (off + (nlen lm + nlen nt)) (nlen dom) = Some dom).
  { replace tok with ((H ++ M ++ lm ++ nt) ++ dom ++ (user ++ [] ++ ek))
      by (unfold tok, token_payload; rewrite <- !app_assoc; reflexivity).
    apply slice_mid; [rewrite !nlen_app; lia | reflexivity]. }
  assert (S4 : slice tok (off + (nlen lm + nlen nt + nlen dom)) (nlen user) = Some user).
  { replace tok with ((H ++ M ++ lm ++ nt ++ dom) ++ user ++ ([] ++ ek))
      by (unfold tok, token_payload; rewrite <- !app_assoc; reflexivity).
    apply slice_mid; [rewrite !nlen_app; lia | reflexivity]. }
  assert (S5 : slice tok (off + (nlen lm + nlen nt + nlen dom + nlen user)) 0 = Some []).
  { replace tok with ((H ++ M ++ lm ++ nt ++ dom ++ user) ++ [] ++ ek)
      by (unfold tok, token_payload; rewrite <- !app_assoc; reflexivity).
    apply slice_mid; [rewrite !nlen_app; lia | reflexivity]. }
  assert (S6 : slice tok (off + (nlen lm + nlen nt + nlen dom + nlen user + 0)) (nlen ek) = Some ek).
  { replace tok with ((H ++ M ++ lm ++ nt ++ dom ++ user) ++ ek ++ [])
      by (unfold tok, token_payload; rewrite <- !app_assoc, ?app_nil_r; reflexivity).
    apply slice_mid; [rewrite !nlen_app; lia | reflexivity]. }
  pose proof (auth_body_stream tok lm nt dom user ek M flags ntr d u L1 L2 L3 L4 Lk Hfl HM Hnt Hd Hu Htot S1 S2 S3 S4 S5 S6) as E.
  fold H in E. fold tok in E.
  unfold sp_authenticate, exactly. rewrite E. reflexivity.
Qed.

(* ================================================================== the client's AUTHENTICATE token *)
Section ClientToken.
Variable hmac : bytes -> bytes -> bytes.
Hypothesis hmac_len : forall k x, List.length (hmac k x) = 16%nat.

(* what a strict parser must decode from the token the client builds for CHALLENGE [c] *)
Definition expected_authenticate (st : ntlm) (c : challenge_fields) (negotiate nonce key ts ek : bytes)
           (pairs : list (N * bytes)) : authenticate_data :=
  let x := pieces_of hmac st c nonce ts ek in
  let flags := c_flags c in
  let H := auth_header (pc_lm x) (pc_nt x) (pc_dom x) (pc_user x) [] ek flags in
  let P := token_payload (pc_lm x) (pc_nt x) (pc_dom x) (pc_user x) ek in
  let u := N.testbit flags 0 in
  mkAuthenticate flags (if N.testbit flags 25 then Some version_bytes else None)
    (hmac key (negotiate ++ challenge_bytes c ++ H ++ repeat 0 16 ++ P))                      (* MIC *)
    (hmac (n_key_lm st) (c_server_challenge c ++ nonce) ++ nonce)                              (* LMv2 response *)
    (mkNtResponse (hmac (n_key_nt st) (c_server_challenge c ++ temp_of ts nonce (c_target_info c))) ts nonce pairs)
    (name_of u (Ntlm.n_domain st)) (name_of u (Ntlm.n_user st)) (name_of u []) ek.

Theorem authenticate_parses p st negotiate c nonce key pairs ts token :
  wf_challenge c -> c_target_info c = av_bytes pairs [] -> Forall av_ok pairs ->
  av_find 7 (rev pairs) = Some ts -> List.length ts = 8%nat ->
  List.length nonce = 8%nat -> List.length key = 16%nat ->
  Forall scalar (Ntlm.n_domain st) -> Forall scalar (Ntlm.n_user st) ->
  read_challenge_message hmac p st negotiate (challenge_bytes c) nonce key = Ok token ->
  exists ek,
    rc4k (hmac (n_key_nt st) (hmac (n_key_nt st) (c_server_challenge c ++ temp_of ts nonce (c_target_info c)))) key = Ok ek /\
    List.length ek = 16%nat /\
    token = token_of hmac (pieces_of hmac st c nonce ts ek) (c_flags c) negotiate (challenge_bytes c) key /\
    nlen token < 1048576 /\
    sp_authenticate token = Some (expected_authenticate st c negotiate nonce key ts ek pairs).
Proof.
  intros Hwf Hti Hok Hav Hts Hnonce Hkey Hsd Hsu Hcl.
  assert (Hrd : read_target_info p (S (List.length (c_target_info c))) (c_target_info c) [] = Ok (rev pairs)).
  { rewrite Hti. rewrite (read_target_info_av p pairs [] [] _ Hok (av_bytes_fuel pairs [])). rewrite app_nil_r. reflexivity. }
  destruct (client_token_shape hmac hmac_len p st negotiate c nonce key (rev pairs) ts Hwf Hrd Hav) as (ek & Hek & Hlek & Hshape).
  exists ek. split; [exact Hek|]. split; [rewrite Hlek; exact Hkey|].
  cbv zeta in Hshape. rewrite Hshape in Hcl. clear Hshape.
  set (x := pieces_of hmac st c nonce ts ek) in *.
  destruct (oversize x) eqn:Hov; [discriminate|]. injection Hcl as <-. split; [reflexivity|].
  unfold oversize in Hov. apply orb_false_iff in Hov. destruct Hov as [Hov Hov3].
  apply orb_false_iff in Hov. destruct Hov as [Hov1 Hov2].
  apply N.ltb_ge in Hov1, Hov2, Hov3.
  assert (Hfl : c_flags c < 4294967296) by (destruct Hwf as (H & _); exact H).
  assert (Hlm : nlen (pc_lm x) = 24).
  { unfold x, pieces_of. cbn [pc_lm]. rewrite nlen_app, (nlen_of_length _ 16 (hmac_len _ _)), (nlen_of_length _ 8 Hnonce). reflexivity. }
  assert (Hekn : nlen (pc_ek x) = 16).
  { unfold x, pieces_of. cbn [pc_ek]. apply (nlen_of_length ek 16). rewrite Hlek. exact Hkey. }
  unfold token_of.
  split.
  { rewrite !nlen_app, nlen_auth_header, (nlen_of_length _ 16 (hmac_len _ _)). unfold token_payload. rewrite !nlen_app.
    change (nlen (@nil N)) with 0. destruct (N.testbit (c_flags c) 25); lia. }
  assert (Hnt : exactly sp_ntlmv2_response (pc_nt x)
                = Some (mkNtResponse (hmac (n_key_nt st) (c_server_challenge c ++ temp_of ts nonce (c_target_info c))) ts nonce pairs)).
  { unfold x, pieces_of. cbn [pc_nt]. rewrite Hti. apply nt_response_parses; [apply hmac_len | exact Hts | exact Hnonce | exact Hok]. }
  assert (Hu : (N.land (c_flags c) 1 =? 1) = N.testbit (c_flags c) 0) by apply bit0_test.
  assert (Hdn : decode_name (N.testbit (c_flags c) 0) (pc_dom x) = Some (name_of (N.testbit (c_flags c) 0) (Ntlm.n_domain st))).
  { unfold x, pieces_of. cbn [pc_dom]. rewrite Hu. apply decode_encode_name. exact Hsd. }
  assert (Hun : decode_name (N.testbit (c_flags c) 0) (pc_user x) = Some (name_of (N.testbit (c_flags c) 0) (Ntlm.n_user st))).
  { unfold x, pieces_of. cbn [pc_user]. rewrite Hu. apply decode_encode_name. exact Hsu. }
  rewrite (auth_token_parses (pc_lm x) (pc_nt x) (pc_dom x) (pc_user x) (pc_ek x) _ (c_flags c) _ _ _
             Hlm Hov1 Hov2 Hov3 Hekn Hfl (hmac_len _ _) Hnt Hdn Hun).
  unfold auth_expected, expected_authenticate. fold x. reflexivity.
Qed.

End ClientToken.

(* ================================================================== NEGOTIATE_MESSAGE *)
Definition negotiate_bytes : bytes :=
  [78; 84; 76; 77; 83; 83; 80; 0; 1; 0; 0; 0; 53; 130; 8; 96; 0; 0; 0; 0; 0; 0; 0; 0; 0; 0; 0; 0; 0; 0; 0; 0].
Definition expected_negotiate : negotiate_data := mkNegotiate client_negotiate_flags [] [] None.

Lemma negotiate_written p : create_negotiate_message p = Ok negotiate_bytes.
Proof. destruct p; vm_compute; reflexivity. Qed.

Lemma negotiate_parses : sp_negotiate negotiate_bytes = Some expected_negotiate.
Proof. vm_compute. reflexivity. Qed.

(* ================================================================== the messages of the CredSSP exchange *)
Lemma nla_negotiate_message :
  strict_parse_nla (x_create_ts_request negotiate_bytes) = Some (NlaNegotiate 2 expected_negotiate).
Proof. vm_compute. reflexivity. Qed.

Lemma nla_authenticate_message token a sealed :
  nlen token < SMALL -> nlen sealed < SMALL -> sp_authenticate token = Some a ->
  strict_parse_nla (x_create_ts_authenticate token sealed) = Some (NlaAuthenticate 2 a sealed).
Proof.
  intros Ht Hs Ha. unfold strict_parse_nla. rewrite (ts_authenticate_parses token sealed Ht Hs).
  cbn [q_error_code q_nego_tokens q_auth_info q_pub_key_auth q_version]. rewrite Ha. reflexivity.
Qed.

Lemma nla_authinfo_message info :
  nlen info < SMALL -> strict_parse_nla (x_create_ts_authinfo info) = Some (NlaCredentials 2 info).
Proof. intro H. unfold strict_parse_nla. rewrite (ts_authinfo_parses info H). reflexivity. Qed.

(* sizes *)
Lemma nlen_utf8_char c : nlen (Utf.utf8_char c) <= 4.
Proof. unfold Utf.utf8_char. destruct (c <? 128), (c <? 2048), (c <? 65536); unfold nlen; cbn [Datatypes.length]; lia. Qed.

Lemma nlen_encode_name u s : nlen (encode_name u s) <= 4 * nlen s.
Proof.
  unfold encode_name, unicode, Utf.utf16le, Utf.utf8. destruct u.
  - induction s as [|c s IH]; [unfold nlen; cbn [flat_map Datatypes.length]; lia|]. cbn [flat_map]. rewrite nlen_app, nlen_cons.
    assert (nlen (flat_map le16 (utf16_units c)) <= 4)
      by (unfold utf16_units; destruct (c <? 65536); unfold nlen; cbn [flat_map le16 app Datatypes.length]; lia). lia.
  - induction s as [|c s IH]; [unfold nlen; cbn [flat_map Datatypes.length]; lia|]. cbn [flat_map]. rewrite nlen_app, nlen_cons.
    pose proof (nlen_utf8_char c). lia.
Qed.

Section Transcript.
Variable md5 : bytes -> bytes.
Variable hmac : bytes -> bytes -> bytes.
Hypothesis hmac_len : forall k x, List.length (hmac k x) = 16%nat.
Variable p : prof.
Variable rd_chal rd_val : bytes -> outcome bytes.

Notation connect := (cssp_connect md5 hmac p x_create_ts_request x_create_ts_authenticate x_create_ts_credentials
                                  x_create_ts_authinfo rd_chal rd_val).

Lemma nlen_wrap c0 data tok c1 : gss_wrapex hmac c0 data = Ok (tok, c1) -> nlen tok = 16 + nlen data.
Proof.
  intro Ew. destruct (own_token_form hmac hmac_len c0 data tok c1 Ew) as (Et & Hc & _).
  rewrite Et. rewrite !nlen_app, nlen_le32. rewrite (nlen_of_length _ 8 Hc).
  unfold nlen at 2. rewrite rc4_process_length. fold (nlen data). change (nlen [1; 0; 0; 0]) with 4. lia.
Qed.

(* TSCredentials as cssp_connect hands it to gss_wrapex *)
Definition creds_plaintext (u restricted : bool) (st : ntlm) : bytes :=
  x_create_ts_credentials (if restricted then [] else encode_name u (Ntlm.n_domain st))
                          (if restricted then [] else encode_name u (Ntlm.n_user st))
                          (if restricted then [] else encode_name u (Ntlm.n_password st)).
Definition expected_creds (u restricted : bool) (st : ntlm) : ts_password_creds :=
  mkPasswordCreds (name_of u (if restricted then [] else Ntlm.n_domain st))
                  (name_of u (if restricted then [] else Ntlm.n_user st))
                  (name_of u (if restricted then [] else Ntlm.n_password st)).

(* what usize / Vec sizes allow, with room for the DER headers *)
Definition BIG : N := 72057594037927936.          (* 2^56 *)
Definition sized (st : ntlm) : Prop :=
  nlen (Ntlm.n_domain st) < BIG /\ nlen (Ntlm.n_user st) < BIG /\ nlen (Ntlm.n_password st) < BIG.
Definition strings (st : ntlm) : Prop :=
  Forall scalar (Ntlm.n_domain st) /\ Forall scalar (Ntlm.n_user st) /\ Forall scalar (Ntlm.n_password st).

Theorem creds_plaintext_parses u restricted st :
  strings st -> sized st ->
  exactly (sp_ts_credentials u) (creds_plaintext u restricted st) = Some (expected_creds u restricted st).
Proof.
  intros (Sd & Su & Sp) (Bd & Bu & Bp). unfold creds_plaintext, expected_creds.
  pose proof (nlen_encode_name u (Ntlm.n_domain st)). pose proof (nlen_encode_name u (Ntlm.n_user st)).
  pose proof (nlen_encode_name u (Ntlm.n_password st)).
  destruct restricted.
  - apply ts_credentials_parses; try (change (nlen (@nil N)) with 0; unfold SMALL; lia); apply decode_name_empty.
  - apply ts_credentials_parses; try (unfold SMALL, BIG in *; lia); apply decode_encode_name; assumption.
Qed.

Lemma nlen_creds_plaintext u restricted st : sized st -> nlen (creds_plaintext u restricted st) < SMALL - 16.
Proof.
  intros (Bd & Bu & Bp). unfold creds_plaintext.
  pose proof (nlen_encode_name u (Ntlm.n_domain st)). pose proof (nlen_encode_name u (Ntlm.n_user st)).
  pose proof (nlen_encode_name u (Ntlm.n_password st)).
  unfold x_create_ts_credentials. cbv zeta.
  match goal with |- context [der_ctx 0 (CsspGateExec.der_octets ?x) ++ _] => set (d := x) end.
  match goal with |- context [der_ctx 1 (CsspGateExec.der_octets ?x) ++ _] => set (us := x) end.
  match goal with |- context [der_ctx 2 (CsspGateExec.der_octets ?x)] => set (pw := x) end.
  assert (Hd : nlen d <= 4 * BIG) by (unfold d; destruct restricted; [change (nlen (@nil N)) with 0; unfold BIG|]; lia).
  assert (Hu : nlen us <= 4 * BIG) by (unfold us; destruct restricted; [change (nlen (@nil N)) with 0; unfold BIG|]; lia).
  assert (Hp : nlen pw <= 4 * BIG) by (unfold pw; destruct restricted; [change (nlen (@nil N)) with 0; unfold BIG|]; lia).
  unfold BIG in *.
  pose proof (nlen_der_tlv 4 d ltac:(dbound)) as D1. fold (CsspGateExec.der_octets d) in D1.
  pose proof (nlen_der_tlv (160 + 0) (CsspGateExec.der_octets d) ltac:(dbound)) as D2. fold (der_ctx 0 (CsspGateExec.der_octets d)) in D2.
  pose proof (nlen_der_tlv 4 us ltac:(dbound)) as U1. fold (CsspGateExec.der_octets us) in U1.
  pose proof (nlen_der_tlv (160 + 1) (CsspGateExec.der_octets us) ltac:(dbound)) as U2. fold (der_ctx 1 (CsspGateExec.der_octets us)) in U2.
  pose proof (nlen_der_tlv 4 pw ltac:(dbound)) as P1. fold (CsspGateExec.der_octets pw) in P1.
  pose proof (nlen_der_tlv (160 + 2) (CsspGateExec.der_octets pw) ltac:(dbound)) as P2. fold (der_ctx 2 (CsspGateExec.der_octets pw)) in P2.
  set (fields := der_ctx 0 (CsspGateExec.der_octets d) ++ der_ctx 1 (CsspGateExec.der_octets us) ++ der_ctx 2 (CsspGateExec.der_octets pw)).
  assert (F0 : nlen fields <= nlen d + nlen us + nlen pw + 60) by (unfold fields; rewrite !nlen_app; lia).
  pose proof (nlen_der_tlv 48 fields ltac:(dbound)) as F1. fold (der_seq fields) in F1.
  pose proof (nlen_der_tlv 4 (der_seq fields) ltac:(dbound)) as F2. fold (CsspGateExec.der_octets (der_seq fields)) in F2.
  pose proof (nlen_der_tlv (160 + 1) (CsspGateExec.der_octets (der_seq fields)) ltac:(dbound)) as F3.
  fold (der_ctx 1 (CsspGateExec.der_octets (der_seq fields))) in F3.
  pose proof (nlen_version_field 1) as B0.
  pose proof (nlen_der_tlv 48 (der_ctx 0 (der_small_int 1) ++ der_ctx 1 (CsspGateExec.der_octets (der_seq fields)))
                ltac:(rewrite nlen_app; dbound)) as F4.
  rewrite nlen_app in F4. fold fields. unfold der_seq at 1. dbound.
Qed.

Lemma challenge_unicode c : wf_challenge c -> challenge_is_unicode p (challenge_bytes c) = N.testbit (c_flags c) 0.
Proof.
  intro Hwf. unfold challenge_is_unicode. destruct (read_challenge_bytes p c Hwf) as [a E]. rewrite E.
  change (cast_num 32 (get (challenge_read c) "NegotiateFlags")) with (Ok (c_flags c)). apply bit0_test.
Qed.

(* the decoded exchange: what each message of the client must decode to *)
Definition nla_decoded (st : ntlm) (restricted : bool) (c : challenge_fields) (nonce key ts : bytes)
           (pairs : list (N * bytes)) (ds : list nla_pdu) : Prop :=
  let u := N.testbit (c_flags c) 0 in
  match ds with
  | [] => False
  | d1 :: tl =>
      d1 = NlaNegotiate 2 expected_negotiate /\
      match tl with
      | [] => True
      | d2 :: tl2 =>
          (exists ek sealed, List.length ek = 16%nat /\
             d2 = NlaAuthenticate 2 (expected_authenticate hmac st c negotiate_bytes nonce key ts ek pairs) sealed) /\
          match tl2 with
          | [] => True
          | [d3] => exists ctx ctx' sealed3,
                      d3 = NlaCredentials 2 sealed3 /\
                      gss_wrapex hmac ctx (creds_plaintext u restricted st) = Ok (sealed3, ctx') /\
                      exactly (sp_ts_credentials u) (creds_plaintext u restricted st) = Some (expected_creds u restricted st)
          | _ => False
          end
      end
  end.

Theorem nla_transcript st restricted cert replies nonce key c pairs ts res ws :
  connect st restricted cert replies nonce key = (res, ws) ->
  (forall chal, rd_chal (fst (link_read0 replies)) = Ok chal -> chal = challenge_bytes c) ->
  wf_challenge c -> c_target_info c = av_bytes pairs [] -> Forall av_ok pairs ->
  av_find 7 (rev pairs) = Some ts -> List.length ts = 8%nat ->
  List.length nonce = 8%nat -> List.length key = 16%nat ->
  strings st -> sized st -> (forall pk, cert = Ok pk -> nlen pk < BIG) ->
  exists ds, Forall2 (fun w d => strict_parse_nla w = Some d) ws ds /\
             nla_decoded st restricted c nonce key ts pairs ds /\
             (res = Ok tt -> List.length ws = 3%nat).
Proof.
  intros Hrun Hchal Hwf Hti Hok Hav Hts Hnonce Hkey Hstr Hsz Hpk.
  unfold cssp_connect in Hrun. rewrite negotiate_written in Hrun.
  destruct (link_read0 replies) as [r1 replies1] eqn:El. cbn [fst] in Hchal.
  assert (D1 : strict_parse_nla (x_create_ts_request negotiate_bytes) = Some (NlaNegotiate 2 expected_negotiate))
    by exact nla_negotiate_message.
  assert (One : forall r, r <> Ok tt -> (res, ws) = (r, [x_create_ts_request negotiate_bytes]) ->
                exists ds, Forall2 (fun w d => strict_parse_nla w = Some d) ws ds /\
                           nla_decoded st restricted c nonce key ts pairs ds /\ (res = Ok tt -> List.length ws = 3%nat)).
  { intros r Hr E. injection E as -> ->. exists [NlaNegotiate 2 expected_negotiate].
    split; [apply Forall2_cons; [exact D1 | apply Forall2_nil]|]. split; [cbn; auto | intro; contradiction]. }
  destruct (rd_chal r1) as [chal|e| |] eqn:Ec; try (symmetry in Hrun; eapply One; [|exact Hrun]; discriminate).
  rewrite (Hchal chal eq_refl) in *. clear Hchal.
  destruct (read_challenge_message hmac p st negotiate_bytes (challenge_bytes c) nonce key) as [token|e| |] eqn:Ecl;
    try (symmetry in Hrun; eapply One; [|exact Hrun]; discriminate).
  destruct Hstr as (Sd & Su & Sp).
  destruct (authenticate_parses hmac hmac_len p st negotiate_bytes c nonce key pairs ts token Hwf Hti Hok Hav Hts Hnonce Hkey Sd Su Ecl)
    as (ek & Hek & Hlek & Htok & Hsize & Hparse).
  destruct (build_security_interface md5 key) as [ctx0|e| |]; try (symmetry in Hrun; eapply One; [|exact Hrun]; discriminate).
  destruct cert as [pubkey|e| |]; try (symmetry in Hrun; eapply One; [|exact Hrun]; discriminate).
  destruct (gss_wrapex hmac ctx0 pubkey) as [[sealed ctx1]|e| |] eqn:Ew; try (symmetry in Hrun; eapply One; [|exact Hrun]; discriminate).
  assert (Hsealed : nlen sealed < SMALL).
  { rewrite (nlen_wrap _ _ _ _ Ew). pose proof (Hpk pubkey eq_refl). unfold SMALL, BIG in *. lia. }
  assert (D2 : strict_parse_nla (x_create_ts_authenticate token sealed)
               = Some (NlaAuthenticate 2 (expected_authenticate hmac st c negotiate_bytes nonce key ts ek pairs) sealed)).
  { apply nla_authenticate_message; [unfold SMALL; lia | exact Hsealed | exact Hparse]. }
  destruct (link_read0 replies1) as [r2 rest2].
  rewrite (challenge_unicode c Hwf) in Hrun.
  assert (Two : forall r, r <> Ok tt -> (res, ws) = (r, [x_create_ts_request negotiate_bytes; x_create_ts_authenticate token sealed] ++ []) ->
                exists ds, Forall2 (fun w d => strict_parse_nla w = Some d) ws ds /\
                           nla_decoded st restricted c nonce key ts pairs ds /\ (res = Ok tt -> List.length ws = 3%nat)).
  { intros r Hr E. injection E as -> ->.
    exists [NlaNegotiate 2 expected_negotiate; NlaAuthenticate 2 (expected_authenticate hmac st c negotiate_bytes nonce key ts ek pairs) sealed].
    split; [apply Forall2_cons; [exact D1 | apply Forall2_cons; [exact D2 | apply Forall2_nil]]|]. split; [|intro; contradiction].
    cbn. split; [reflexivity|]. split; [|exact I]. exists ek, sealed. split; [exact Hlek | reflexivity]. }
  unfold final_round in Hrun.
  destruct (rd_val r2) as [pka|e| |]; try (symmetry in Hrun; eapply Two; [|exact Hrun]; discriminate).
  destruct (gss_unwrapex hmac ctx1 pka) as [[pt|e| |] ctx2]; try (symmetry in Hrun; eapply Two; [|exact Hrun]; discriminate).
  destruct (negb (le_nat pt =? le_nat pubkey + 1)); try (symmetry in Hrun; eapply Two; [|exact Hrun]; discriminate).
  cbv zeta in Hrun.
  match type of Hrun with context [gss_wrapex hmac ctx2 ?x] =>
    change x with (creds_plaintext (N.testbit (c_flags c) 0) restricted st) in Hrun end.
  destruct (gss_wrapex hmac ctx2 (creds_plaintext (N.testbit (c_flags c) 0) restricted st)) as [[sealed3 ctx3]|e| |] eqn:Ew3;
    try (symmetry in Hrun; eapply Two; [|exact Hrun]; discriminate).
  injection Hrun as <- <-.
  assert (Hs3 : nlen sealed3 < SMALL).
  { rewrite (nlen_wrap _ _ _ _ Ew3). pose proof (nlen_creds_plaintext (N.testbit (c_flags c) 0) restricted st Hsz). unfold SMALL in *. lia. }
  exists [NlaNegotiate 2 expected_negotiate; NlaAuthenticate 2 (expected_authenticate hmac st c negotiate_bytes nonce key ts ek pairs) sealed;
          NlaCredentials 2 sealed3].
  split; [apply Forall2_cons; [exact D1 | apply Forall2_cons; [exact D2 | apply Forall2_cons; [apply nla_authinfo_message; exact Hs3 | apply Forall2_nil]]]|].
  split; [|reflexivity].
  cbn. split; [reflexivity|]. split; [exists ek, sealed; split; [exact Hlek | reflexivity]|].
  exists ctx2, ctx3, sealed3. split; [reflexivity|]. split; [exact Ew3|].
  apply creds_plaintext_parses; [repeat split; assumption | exact Hsz].
Qed.

End Transcript.

(* ================================================================== the whole transcript of a connection *)
Lemma bind_inv {A B} (m : parser A) (k : A -> parser B) b y :
  bind m k b = Some y -> exists a r, m b = Some (a, r) /\ k a r = Some y.
Proof. unfold bind. destruct (m b) as [[a r]|]; [|discriminate]. intro H. exists a, r. split; [reflexivity | exact H]. Qed.

Lemma bytes_eqb_eq x y : bytes_eqb x y = true -> x = y.
Proof.
  revert y. induction x as [|a x IH]; intros [|b y] H; cbn [bytes_eqb] in H; try discriminate; [reflexivity|].
  apply andb_true_iff in H. destruct H as [H1 H2]. apply N.eqb_eq in H1. subst b. f_equal. apply IH. exact H2.
Qed.

Lemma const_inv c b r : const c b = Some (tt, r) -> b = c ++ r.
Proof.
  unfold const. intro H. destruct (bind_inv _ _ _ _ H) as (x & r' & Ht & Hg).
  unfold guard in Hg. destruct (bytes_eqb x c) eqn:E; [|discriminate]. injection Hg as Hr.
  apply bytes_eqb_eq in E.
  unfold takeN in Ht. destruct (nlen c <=? nlen b); [|discriminate]. injection Ht as Hx Hr'.
  rewrite <- (firstn_skipn (N.to_nat (nlen c)) b). rewrite Hx, Hr', E, Hr. reflexivity.
Qed.

Lemma strict_parse_head f d : strict_parse f = Some d -> exists r, f = 3 :: r.
Proof.
  unfold strict_parse. destruct (sp_tpkt f) as [t|] eqn:E; [|discriminate]. intros _.
  unfold sp_tpkt, exactly in E.
  match type of E with match ?m with _ => _ end = _ => destruct m as [[a r]|] eqn:E2; [|discriminate] end.
  destruct (bind_inv _ _ _ _ E2) as (n & r1 & Hr & E3). injection Hr as <- <-.
  destruct (bind_inv _ _ _ _ E3) as ([] & r2 & Hc & _).
  apply const_inv in Hc. exists (0 :: r2). exact Hc.
Qed.

Lemma strict_parse_client_rdp f d : strict_parse f = Some d -> strict_parse_client f = Some (CRdp d).
Proof. intro H. destruct (strict_parse_head f d H) as [r ->]. unfold strict_parse_client. rewrite H. reflexivity. Qed.

Lemma strict_parse_nla_head w d : strict_parse_nla w = Some d -> exists r, w = 48 :: r.
Proof.
  unfold strict_parse_nla. destruct (exactly sp_ts_request w) as [q|] eqn:E; [|discriminate]. intros _.
  unfold exactly in E.
  destruct (sp_ts_request w) as [[a r]|] eqn:E2; [|discriminate].
  unfold sp_ts_request in E2. destruct (bind_inv _ _ _ _ E2) as (c & r1 & Ht & _).
  unfold StrictNla.der_tlv in Ht. destruct (bind_inv _ _ _ _ Ht) as ([] & r2 & Hc & _).
  apply const_inv in Hc. exists r2. exact Hc.
Qed.

Lemma strict_parse_client_nla w d : strict_parse_nla w = Some d -> strict_parse_client w = Some (CNla d).
Proof. intro H. destruct (strict_parse_nla_head w d H) as [r ->]. unfold strict_parse_client. rewrite H. reflexivity. Qed.

(* everything the client writes during a connection with network level authentication, in order:
   the connection request, the CredSSP messages [ws] (inside TLS), then the MCS / RDP transcript *)
Definition whole_transcript (p : prof) (swapped : bool) (cfg : config) (i : server_ids) (evs : list input_ev)
           (ws : list bytes) : list (outcome bytes) :=
  emit_cr p cfg :: map Ok ws ++ emitted_session p swapped cfg i evs.

Definition whole_expected (swapped : bool) (cfg : config) (i : server_ids) (evs : list input_ev)
           (ds : list nla_pdu) : list client_pdu :=
  CRdp (PConnectionRequest (if c_ram cfg then 1 else 0) (c_offered cfg))
  :: map CNla ds ++ map CRdp (expected_session swapped cfg i evs).

(* the authentication object holds the configured credentials (Ntlm::new), or the configured domain and
   user with an empty password (Ntlm::from_hash) *)
Definition credentials_of (cfg : config) (st : ntlm) : Prop :=
  Ntlm.n_domain st = c_domain cfg /\ Ntlm.n_user st = c_user cfg /\
  (Ntlm.n_password st = c_password cfg \/ Ntlm.n_password st = []).

Lemma nlen_le_utf16 s : nlen s <= nlen (ClientPdus.utf16 s).
Proof.
  unfold ClientPdus.utf16. induction s as [|c s IH]; [unfold nlen; cbn; lia|].
  cbn [flat_map]. rewrite nlen_app, nlen_cons.
  assert (1 <= nlen (utf16_char c)) by (unfold utf16_char; destruct (c <? 65536); unfold nlen; cbn [Datatypes.length]; lia).
  lia.
Qed.

Lemma credentials_fit swapped cfg i st : valid_cfg swapped cfg i -> credentials_of cfg st -> strings st /\ sized st.
Proof.
  intros (_ & Sd & Su & Sp & _ & _ & _ & _ & _ & _ & _ & _ & Hinfo & _) (Ed & Eu & Ep).
  unfold strings, sized. rewrite Ed, Eu.
  unfold info_size, PER_MAX in Hinfo.
  pose proof (nlen_le_utf16 (c_domain cfg)). pose proof (nlen_le_utf16 (c_user cfg)). pose proof (nlen_le_utf16 (c_password cfg)).
  assert (Hb : nlen (c_domain cfg) < BIG /\ nlen (c_user cfg) < BIG /\ nlen (c_password cfg) < BIG).
  { unfold BIG. destruct (is_rdp_version_5_plus swapped (i_version i)); lia. }
  destruct Hb as (B1 & B2 & B3).
  destruct Ep as [-> | ->].
  - split; [split; [exact Sd | split; [exact Su | exact Sp]] | split; [exact B1 | split; [exact B2 | exact B3]]].
  - split; [split; [exact Sd | split; [exact Su | constructor]] | split; [exact B1 | split; [exact B2 | reflexivity]]].
Qed.

Section Whole.
Variable md5 : bytes -> bytes.
Variable hmac : bytes -> bytes -> bytes.
Hypothesis hmac_len : forall k x, List.length (hmac k x) = 16%nat.
Variable p : prof.
Variable rd_chal rd_val : bytes -> outcome bytes.

Theorem all_parse_whole swapped cfg i evs st restricted cert replies nonce key c pairs ts res ws :
  valid_cfg swapped cfg i -> Forall sendable evs ->
  credentials_of cfg st ->
  cssp_connect md5 hmac p x_create_ts_request x_create_ts_authenticate x_create_ts_credentials x_create_ts_authinfo
               rd_chal rd_val st restricted cert replies nonce key = (res, ws) ->
  (forall chal, rd_chal (fst (link_read0 replies)) = Ok chal -> chal = challenge_bytes c) ->
  wf_challenge c -> c_target_info c = av_bytes pairs [] -> Forall av_ok pairs ->
  av_find 7 (rev pairs) = Some ts -> List.length ts = 8%nat ->
  List.length nonce = 8%nat -> List.length key = 16%nat ->
  (forall pk, cert = Ok pk -> nlen pk < BIG) ->
  exists ds,
    nla_decoded hmac st restricted c nonce key ts pairs ds /\
    (res = Ok tt -> List.length ws = 3%nat) /\
    Forall2 (fun o d => exists f, o = Ok f /\ strict_parse_client f = Some d)
            (whole_transcript p swapped cfg i evs ws) (whole_expected swapped cfg i evs ds).
Proof.
  intros Hv Hev Hcr Hrun Hchal Hwf Hti Hok Hav Hts Hnonce Hkey Hpk.
  destruct (credentials_fit swapped cfg i st Hv Hcr) as [Hstr Hsz].
  destruct (nla_transcript md5 hmac hmac_len p rd_chal rd_val st restricted cert replies nonce key c pairs ts res ws
              Hrun Hchal Hwf Hti Hok Hav Hts Hnonce Hkey Hstr Hsz Hpk) as (ds & Hf & Hd & Hres).
  exists ds. split; [exact Hd|]. split; [exact Hres|].
  pose proof (all_parse p swapped cfg i evs Hv Hev) as Hall.
  unfold emitted, expected in Hall. inversion Hall as [|o d lo ld (f & Ef & Pf) Hrest]; subst.
  unfold whole_transcript, whole_expected.
  apply Forall2_cons; [exists f; split; [exact Ef | apply strict_parse_client_rdp; exact Pf]|].
  apply Forall2_app.
  - clear - Hf. induction Hf as [|w d ws ds Hw Hf IH]; cbn [map]; constructor; [|exact IH].
    exists w. split; [reflexivity | apply strict_parse_client_nla; exact Hw].
  - clear - Hrest. induction Hrest as [|o d lo ld (f & Ef & Pf) Hr IH]; cbn [map]; constructor; [|exact IH].
    exists f. split; [exact Ef | apply strict_parse_client_rdp; exact Pf].
Qed.

End Whole.
