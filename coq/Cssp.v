(* Model of the NLA leg: nla/cssp.rs (read_ts_server_challenge, read_ts_validate,
   create_ts_*, cssp_connect) and the imperative part of nla/ntlm.rs (get_payload_field,
   read_target_info, compute_response_v2, rc4k, mic, mac, Ntlm::read_challenge_message,
   build_security_interface, NTLMv2SecurityInterface::{gss_wrapex, gss_unwrapex}) -- the
   code AFTER the three C07 repairs (negoTokens empty -> Err, no MsvAvTimestamp -> Err,
   get_payload_field bounds-checked).

   Every index / slice / unwrap / assert / unchecked arithmetic of the Rust text is a
   possible [Panic] here; every buffer sized from received data is noted in the
   allocation component of [M].

   External code is a Section variable (a TOTAL function: "returns, never unwinds"):
     ber_ts_request / ber_ts_validate  -- yasna::parse_der over the two TSRequest read
                                          templates: None = Err(ASN1Error), Some = the parsed
                                          structure (token list / pubKeyAuth)
     hmac_md5, md5                     -- hmac / md-5 crates
     rc4st, rc4_init, rc4_run          -- nla/rc4.rs (state, key schedule, process)
   The theorems of C07 quantify over all of them; coq/DerRead.v gives an executable
   model of yasna 0.3.2 to instantiate the first two. *)
From Coq Require Import Ascii.
From RdpV Require Import Base Msg LayoutsGlobal LayoutsNtlm Link.
Open Scope string_scope.
Open Scope list_scope.
Open Scope N_scope.

(* ---- outcome + largest allocation request ---- *)
Definition M (A : Type) : Type := (N * outcome A)%type.
Definition lift {A} (o : outcome A) : M A := (0, o).
Definition note (n : N) : M unit := (n, Ok tt).
Definition abind {A B} (x : M A) (f : A -> M B) : M B :=
  match snd x with
  | Ok v => let r := f v in (N.max (fst x) (fst r), snd r)
  | Err e => (fst x, Err e)
  | Panic => (fst x, Panic)
  | Spin => (fst x, Spin)
  end.

Definition two64 : N := 18446744073709551616.

(* &l[start..end] *)
Definition slice (start e : N) (l : bytes) : outcome bytes :=
  if (start <=? e) && (e <=? nlen l) then Ok (firstn (N.to_nat (e - start)) (skipn (N.to_nat start) l)) else Panic.

Definition ascii_bytes (s : string) : bytes := map N_of_ascii (list_ascii_of_string s).

(* little-endian value of a byte string (BigUint::from_bytes_le) *)
Fixpoint le_val (l : bytes) : N := match l with [] => 0 | b :: tl => b + 256 * le_val tl end.

(* ---- DER writer (yasna::construct_der over the fixed TSRequest shapes; client side) ---- *)
Fixpoint be_digits (fuel : nat) (n : N) (acc : bytes) : bytes :=
  match fuel with
  | O => acc
  | S f => if n =? 0 then acc else be_digits f (n / 256) ((n mod 256) :: acc)
  end.
Definition der_len (n : N) : bytes :=
  if n <? 128 then [n] else let d := be_digits 9 n [] in (128 + nlen d) :: d.
Definition der_tlv (tag : N) (body : bytes) : bytes := tag :: der_len (nlen body) ++ body.
Definition der_seq (body : bytes) := der_tlv 48 body.
Definition der_ctx (n : N) (body : bytes) := der_tlv (160 + n) body.
Definition der_octets (b : bytes) := der_tlv 4 b.
Definition der_small_int (v : N) : bytes := [2; 1; v].           (* 1 and 2 only *)

Definition create_ts_request (nego : bytes) : bytes :=
  der_seq (der_ctx 0 (der_small_int 2) ++ der_ctx 1 (der_seq (der_seq (der_ctx 0 (der_octets nego))))).
Definition create_ts_authenticate (nego pub_key_auth : bytes) : bytes :=
  der_seq (der_ctx 0 (der_small_int 2) ++ der_ctx 1 (der_seq (der_seq (der_ctx 0 (der_octets nego))))
           ++ der_ctx 3 (der_octets pub_key_auth)).
Definition create_ts_credentials (domain user password : bytes) : bytes :=
  let creds := der_seq (der_ctx 0 (der_octets domain) ++ der_ctx 1 (der_octets user) ++ der_ctx 2 (der_octets password)) in
  der_seq (der_ctx 0 (der_small_int 1) ++ der_ctx 1 (der_octets creds)).
Definition create_ts_authinfo (auth_info : bytes) : bytes :=
  der_seq (der_ctx 0 (der_small_int 2) ++ der_ctx 2 (der_octets auth_info)).

(* ---- client data ---- *)
(* the client's strings in both encodings the code uses (UTF-8 bytes / UTF-16LE) *)
Record creds := mkCreds { dom8 : bytes; dom16 : bytes; user8 : bytes; user16 : bytes; pw8 : bytes; pw16 : bytes }.

Section Nla.
Variable p : prof.

(* external, total *)
Variable ber_ts_request : bytes -> option (list bytes).
Variable ber_ts_validate : bytes -> option bytes.
Variable hmac_md5 : bytes -> bytes -> bytes.
Variable md5 : bytes -> bytes.
Variable rc4st : Type.
Variable rc4_init : bytes -> rc4st.
Variable rc4_run : rc4st -> bytes -> rc4st * bytes.

Record ntlm := mkNtlm {
  cr : creds;
  key_nt : bytes; key_lm : bytes;            (* ntowfv2 / lmowfv2 of the credentials *)
  nego_msg : option bytes;                   (* negotiate_message: Option<Vec<u8>> *)
  exported : option bytes;                   (* exported_session_key: Option<Vec<u8>> *)
  is_unicode : bool
}.

Definition rdm (t : msg) (input : bytes) : M msg :=
  match read p t input with
  | ROk m' _ a => (a, Ok m')
  | RErr e _ a => (a, Err e)
  | RPanic => (0, Panic)
  | RSpin => (0, Spin)
  end.

Definition wr (m : msg) : outcome bytes :=
  match write p m with Some b => Ok b | None => Panic end.

Definition mlen (m : msg) : outcome N :=
  match mlength p m with Some n => Ok n | None => Panic end.

(* ------------------------------------------------------------------ cssp.rs: readers *)
(* yasna::parse_der(..)?  then  negoTokens.inner.get(0)  (the cast!(..).unwrap() sites
   cannot fail: the parsed structure has the shape of the read template) *)
Definition read_ts_server_challenge (stream : bytes) : outcome bytes :=
  match ber_ts_request stream with
  | None => Err EAsn1
  | Some toks => match toks with
                 | [] => Err EInvalidOptionalField          (* try_option!(inner.get(0)) *)
                 | t :: _ => Ok t
                 end
  end.

Definition read_ts_validate (request : bytes) : outcome bytes :=
  match ber_ts_validate request with
  | None => Err EAsn1
  | Some k => Ok k
  end.

(* ------------------------------------------------------------------ ntlm.rs *)
(* get_payload_field(message, length: u16, buffer_offset: u32) *)
Definition get_payload_field (m : msg) (length buffer_offset : N) : outcome bytes :=
  obind (cast_bytes (get m "Payload")) (fun payload =>
  obind (mlen m) (fun total =>
  obind (sub_w p 64 total (nlen payload)) (fun offset =>        (* message.length() as usize - payload.len() *)
    if buffer_offset <? offset then Err EInvalidSize             (* checked_sub *)
    else
      let start := buffer_offset - offset in
      if two64 <=? start + length then Err EInvalidSize          (* checked_add *)
      else
        let e := start + length in
        if e <=? nlen payload then slice start e payload else Err EInvalidSize))).

(* read_target_info: AV pairs until MsvAvEOL; a HashMap, newest insertion first here *)
Fixpoint read_target_info (fuel : nat) (data : bytes) (acc : list (N * bytes)) (a : N) : M (list (N * bytes)) :=
  match fuel with
  | O => (a, Spin)
  | S fuel' =>
      match read p av_pair data with
      | ROk el rest a' =>
          let a2 := N.max a a' in
          match cast_num 16 (get el "AvId") with
          | Ok id =>
              if negb (avid_known id) then (a2, Err EInvalidCast)       (* AvId::try_from *)
              else if id =? MSV_AV_EOL then (a2, Ok acc)
              else match cast_bytes (get el "Value") with
                   | Ok v => read_target_info fuel' rest ((id, v) :: acc) a2
                   | Err e => (a2, Err e)
                   | Panic => (a2, Panic)
                   | Spin => (a2, Spin)
                   end
          | Err e => (a2, Err e)
          | Panic => (a2, Panic)
          | Spin => (a2, Spin)
          end
      | RErr e _ a' => (N.max a a', Err e)
      | RPanic => (a, Panic)
      | RSpin => (a, Spin)
      end
  end.

Fixpoint av_lookup (id : N) (l : list (N * bytes)) : option bytes :=
  match l with [] => None | (i, v) :: tl => if i =? id then Some v else av_lookup id tl end.

Definition compute_response_v2 (response_key_nt response_key_lm server_challenge client_challenge time server_name : bytes)
  : bytes * bytes * bytes :=
  let temp := [1; 1] ++ zeros 6 ++ time ++ client_challenge ++ zeros 4 ++ server_name in
  let nt_proof_str := hmac_md5 response_key_nt (server_challenge ++ temp) in
  let nt_challenge_response := nt_proof_str ++ temp in
  let lm_challenge_response := hmac_md5 response_key_lm (server_challenge ++ client_challenge) ++ client_challenge in
  let session_base_key := hmac_md5 response_key_nt nt_proof_str in
  (nt_challenge_response, lm_challenge_response, session_base_key).

(* Rc4::new: assert!(key.len() >= 1 && key.len() <= 256) *)
Definition rc4_new (key : bytes) : outcome rc4st :=
  if (1 <=? nlen key) && (nlen key <=? 256) then Ok (rc4_init key) else Panic.

Definition rc4k (key plaintext : bytes) : outcome bytes :=
  obind (rc4_new key) (fun h => Ok (snd (rc4_run h plaintext))).

Definition get_domain_name (st : ntlm) : bytes := if is_unicode st then dom16 (cr st) else dom8 (cr st).
Definition get_user_name (st : ntlm) : bytes := if is_unicode st then user16 (cr st) else user8 (cr st).
Definition get_password (st : ntlm) : bytes := if is_unicode st then pw16 (cr st) else pw8 (cr st).

Definition create_negotiate_message (st : ntlm) : outcome (bytes * ntlm) :=
  obind (wr (negotiate_message negotiate_flags)) (fun buffer =>
  Ok (buffer, mkNtlm (cr st) (key_nt st) (key_lm st) (Some buffer) (exported st) (is_unicode st))).

(* Ntlm::read_challenge_message(request); [client_challenge] = random(8), [session_key] = random(16).
   Written as three pieces (parse / respond / build) so that each can be reasoned about on its own;
   composed they are the body of the Rust function, statement by statement. *)

(* authenticate_message(..), the MIC over negotiate || challenge || authenticate, the final token *)
Definition rcm_build (st1 : ntlm) (neg_opt : option bytes) (request session_key lm nt enc_key : bytes) (flags : N)
  : M (bytes * ntlm) :=
  abind (lift (authenticate_message p lm nt (get_domain_name st1) (get_user_name st1) [] enc_key flags)) (fun am =>
  abind (lift (wr (fst am))) (fun hdr =>
  let tmp_final := hdr ++ zeros 16 ++ snd am in
  match neg_opt with
  | None => (nlen tmp_final, Panic)                                   (* self.negotiate_message.as_ref().unwrap() *)
  | Some neg =>
      abind (note (nlen neg + nlen request + nlen tmp_final)) (fun _ =>
      let signature := hmac_md5 session_key (neg ++ request ++ tmp_final) in
      abind (lift (wr (fst am))) (fun hdr2 =>
      let final := hdr2 ++ signature ++ snd am in
      (nlen final, Ok (final, st1))))
  end)).

(* compute_response_v2, key exchange, flags *)
Definition rcm_respond (st : ntlm) (request : bytes) (result : msg)
           (server_challenge target_name timestamp client_challenge session_key : bytes) : M (bytes * ntlm) :=
  let crs := compute_response_v2 (key_nt st) (key_lm st) server_challenge client_challenge timestamp target_name in
  let nt := fst (fst crs) in
  let lm := snd (fst crs) in
  let key_exchange_key := snd crs in
  abind (note (nlen nt + nlen server_challenge)) (fun _ =>
  abind (lift (rc4k key_exchange_key session_key)) (fun encrypted_random_session_key =>
  abind (lift (cast_num 32 (get result "NegotiateFlags"))) (fun flags =>
  let st1 := mkNtlm (cr st) (key_nt st) (key_lm st) (nego_msg st) (Some session_key)
                    (N.land flags NTLMSSP_NEGOTIATE_UNICODE =? 1) in
  (* every payload field is addressed by a 16-bit length (guard of commit 7674dc6, C15) *)
  if (65535 <? nlen nt) || (65535 <? nlen (get_domain_name st1)) || (65535 <? nlen (get_user_name st1))
  then (0, Err EInvalidSize)
  else rcm_build st1 (nego_msg st) request session_key lm nt encrypted_random_session_key flags))).

Definition read_challenge_message (st : ntlm) (request client_challenge session_key : bytes) : M (bytes * ntlm) :=
  abind (rdm challenge_message request) (fun result =>
  abind (lift (cast_bytes (get result "ServerChallenge"))) (fun server_challenge =>
  abind (lift (cast_num 16 (get result "TargetInfoLen"))) (fun ti_len =>
  abind (lift (cast_num 32 (get result "TargetInfoBufferOffset"))) (fun ti_off =>
  abind (lift (get_payload_field result ti_len ti_off)) (fun target_name =>
  abind (lift (get_payload_field result ti_len ti_off)) (fun ti =>
  abind (read_target_info (S (List.length ti)) ti [] 0) (fun target_info =>
  match av_lookup MSV_AV_TIMESTAMP target_info with
  | None => (0, Err EInvalidData)                                  (* repaired: was panic!("no timestamp available") *)
  | Some timestamp => rcm_respond st request result server_challenge target_name timestamp client_challenge session_key
  end))))))).

(* ---- NTLMv2SecurityInterface ---- *)
Record secif := mkSecif { encrypt : rc4st; decrypt : rc4st; signing_key : bytes; verify_key : bytes; seq_num : N }.

Definition magic_c2s_sign := ascii_bytes "session key to client-to-server signing key magic constant" ++ [0].
Definition magic_s2c_sign := ascii_bytes "session key to server-to-client signing key magic constant" ++ [0].
Definition magic_c2s_seal := ascii_bytes "session key to client-to-server sealing key magic constant" ++ [0].
Definition magic_s2c_seal := ascii_bytes "session key to server-to-client sealing key magic constant" ++ [0].

Definition build_security_interface (st : ntlm) : outcome secif :=
  match exported st with
  | None => Panic                                                     (* exported_session_key.as_ref().unwrap() *)
  | Some k =>
      obind (rc4_new (md5 (k ++ magic_c2s_seal))) (fun enc =>
      obind (rc4_new (md5 (k ++ magic_s2c_seal))) (fun dec =>
      Ok (mkSecif enc dec (md5 (k ++ magic_c2s_sign)) (md5 (k ++ magic_s2c_sign)) 0)))
  end.

(* mac(rc4, signing_key, seq_num, data): returns the 16-byte signature and the advanced cipher *)
Definition mac (h : rc4st) (skey : bytes) (sq : N) (data : bytes) : outcome (bytes * rc4st) :=
  let signature := hmac_md5 skey (le32 sq ++ data) in
  obind (slice 0 8 signature) (fun s8 =>                               (* &signature[0..8] *)
  let '(h', enc) := rc4_run h s8 in
  obind (message_signature_ex (Some enc) (Some sq)) (fun m =>
  obind (wr m) (fun b => Ok (b, h')))).

Definition gss_wrapex (si : secif) (data : bytes) : M (bytes * secif) :=
  let '(h1, encrypted) := rc4_run (encrypt si) data in
  abind (note (nlen data)) (fun _ =>
  abind (lift (mac h1 (signing_key si) (seq_num si) data)) (fun sg =>
  abind (lift (add_w p 32 (seq_num si) 1)) (fun sq' =>                (* self.seq_num + 1 *)
  let out := fst sg ++ encrypted in
  (nlen out, Ok (out, mkSecif (snd sg) (decrypt si) (signing_key si) (verify_key si) sq'))))).

Definition gss_unwrapex (si : secif) (data : bytes) : M (bytes * secif) :=
  match read p message_signature_ex_t data with
  | ROk signature rest a =>
      let payload := rest in                                           (* Vec<u8>::read = read_to_end *)
      let '(h1, plaintext_payload) := rc4_run (decrypt si) payload in
      let si1 := mkSecif (encrypt si) h1 (signing_key si) (verify_key si) (seq_num si) in
      abind (note (N.max a (nlen payload))) (fun _ =>
      abind (lift (cast_bytes (get signature "Checksum"))) (fun checksum =>
      let '(h2, plaintext_checksum) := rc4_run h1 checksum in
      let si2 := mkSecif (encrypt si) h2 (signing_key si) (verify_key si) (seq_num si) in
      abind (lift (cast_num 32 (get signature "SeqNum"))) (fun sq =>
      let computed := hmac_md5 (verify_key si) (le32 sq ++ plaintext_payload) in
      abind (note (4 + nlen plaintext_payload)) (fun _ =>
      abind (lift (slice 0 8 computed)) (fun c8 =>                     (* &computed_checksum[0..8] *)
      if list_eq_dec N.eq_dec plaintext_checksum c8
      then (0, Ok (plaintext_payload, si2))
      else (0, Err EInvalidChecksum))))))
  | RErr e _ a => (a, Err e)
  | RPanic => (0, Panic)
  | RSpin => (0, Spin)
  end.

(* ------------------------------------------------------------------ cssp_connect *)
(* what the TLS layer hands over when asked for the peer certificate: an error
   (not a TLS link / no certificate / DER problem) or the subjectPublicKey bytes *)
Inductive certres := CertErr (e : err) | CertKey (k : bytes).

Record cssp_result := mkCsspResult {
  c_out : outcome unit;
  c_alloc : N;
  c_written : list bytes;          (* the messages handed to link.write, in order *)
  c_left : stream                  (* what is left in the transport *)
}.

Definition wr_link (msg : bytes) (sched : schedule) : outcome unit * schedule :=
  let '(_, r, s') := link_write msg sched in (r, s').

(* `?` on a failed step: the error is returned, what was written so far stays written *)
Definition cssp_fail {A} (o : outcome A) (a : N) (w : list bytes) (s : stream) : cssp_result :=
  mkCsspResult (match o with Ok _ => Ok tt | Err e => Err e | Panic => Panic | Spin => Spin end) a w s.

Definition cssp_connect (st : ntlm) (restricted_admin_mode : bool) (cert : certres)
           (client_challenge session_key : bytes) (input : stream) (sched : schedule) : cssp_result :=
  match create_negotiate_message st with
  | Ok (nego, st0) =>
      let m1 := create_ts_request nego in
      let '(r1, sched1) := wr_link m1 sched in
      match r1 with
      | Ok _ =>
          let '(rd1, in1) := link_read 0 input in                       (* link.read(0): a 1500-byte buffer *)
          match rd1 with
          | Ok buf1 =>
              match read_ts_server_challenge buf1 with
              | Ok server_challenge =>
                  let rc := read_challenge_message st0 server_challenge client_challenge session_key in
                  let a1 := N.max 1500 (N.max (nlen server_challenge) (fst rc)) in
                  match snd rc with
                  | Ok (client_msg, st1) =>
                      match build_security_interface st1 with
                      | Ok si =>
                          match cert with
                          | CertErr e => mkCsspResult (Err e) a1 [m1] in1
                          | CertKey key =>
                              let w1 := gss_wrapex si key in
                              let a2 := N.max a1 (fst w1) in
                              match snd w1 with
                              | Ok (pka, si1) =>
                                  let m2 := create_ts_authenticate client_msg pka in
                                  let '(r2, sched2) := wr_link m2 sched1 in
                                  match r2 with
                                  | Ok _ =>
                                      let '(rd2, in2) := link_read 0 in1 in
                                      match rd2 with
                                      | Ok buf2 =>
                                          match read_ts_validate buf2 with
                                          | Ok tok =>
                                              let u := gss_unwrapex si1 tok in
                                              let a3 := N.max a2 (N.max (nlen tok) (fst u)) in
                                              match snd u with
                                              | Ok (inc_pub_key, si2) =>
                                                  if negb (le_val inc_pub_key =? le_val key + 1)
                                                  then mkCsspResult (Err EPossibleMITM) a3 [m1; m2] in2
                                                  else
                                                    let domain := if restricted_admin_mode then [] else get_domain_name st1 in
                                                    let user := if restricted_admin_mode then [] else get_user_name st1 in
                                                    let password := if restricted_admin_mode then [] else get_password st1 in
                                                    let w2 := gss_wrapex si2 (create_ts_credentials domain user password) in
                                                    let a4 := N.max a3 (fst w2) in
                                                    match snd w2 with
                                                    | Ok (enc_creds, _) =>
                                                        let m3 := create_ts_authinfo enc_creds in
                                                        let '(r3, _) := wr_link m3 sched2 in
                                                        mkCsspResult r3 a4 [m1; m2; m3] in2
                                                    | o => cssp_fail o a4 [m1; m2] in2
                                                    end
                                              | o => cssp_fail o a3 [m1; m2] in2
                                              end
                                          | o => cssp_fail o a2 [m1; m2] in2
                                          end
                                      | o => cssp_fail o a2 [m1; m2] in2
                                      end
                                  | o => cssp_fail o a2 [m1; m2] in1
                                  end
                              | o => cssp_fail o a2 [m1] in1
                              end
                          end
                      | o => cssp_fail o a1 [m1] in1
                      end
                  | o => cssp_fail o a1 [m1] in1
                  end
              | o => cssp_fail o 1500 [m1] in1
              end
          | o => cssp_fail o 1500 [m1] in1
          end
      | o => cssp_fail o 0 [m1] input
      end
  | o => cssp_fail o 0 [] input
  end.

End Nla.
