(* C07: the NLA parse path (CredSSP / NTLMv2) never panics or spins on server bytes, and
   its allocations are bounded -- proofs about the model of Cssp.v. *)
From RdpV Require Import Base Msg MsgInd MsgSafe MsgShape LayoutsGlobal LayoutsNtlm Link Cssp DerRead.
Open Scope string_scope.
Open Scope list_scope.
Open Scope N_scope.

Definition nocrash {A} (o : outcome A) : Prop := o <> Panic /\ o <> Spin.

Lemma nocrash_ok {A} (a : A) : nocrash (Ok a). Proof. split; discriminate. Qed.
Lemma nocrash_err {A} e : nocrash (@Err A e). Proof. split; discriminate. Qed.
#[global] Hint Resolve nocrash_ok nocrash_err : core.

Lemma obind_nocrash {A B} (o : outcome A) (f : A -> outcome B) :
  nocrash o -> (forall a, o = Ok a -> nocrash (f a)) -> nocrash (obind o f).
Proof. intros [H1 H2] Hf. destruct o; cbn; auto; congruence. Qed.

(* ---- the allocation-tracking monad ---- *)
Lemma abind_snd {A B} (x : M A) (f : A -> M B) : snd (abind x f) = obind (snd x) (fun v => snd (f v)).
Proof. unfold abind. destruct (snd x); reflexivity. Qed.

Lemma abind_nocrash {A B} (x : M A) (f : A -> M B) :
  nocrash (snd x) -> (forall a, snd x = Ok a -> nocrash (snd (f a))) -> nocrash (snd (abind x f)).
Proof. intros H1 H2. rewrite abind_snd. apply obind_nocrash; auto. Qed.

Lemma abind_fst {A B} (x : M A) (f : A -> M B) (Bd : N) :
  fst x <= Bd -> (forall v, snd x = Ok v -> fst (f v) <= Bd) -> fst (abind x f) <= Bd.
Proof.
  intros H1 H2. unfold abind. destruct (snd x) eqn:E; cbn [fst]; auto.
  specialize (H2 a eq_refl). lia.
Qed.

(* ---- bytes ---- *)
Lemma wf_firstn n (l : bytes) : wf_bytes l -> wf_bytes (firstn n l).
Proof. intros H. rewrite <- (firstn_skipn n l) in H. apply wf_app_inv in H. tauto. Qed.
Lemma wf_skipn n (l : bytes) : wf_bytes l -> wf_bytes (skipn n l).
Proof. intros H. rewrite <- (firstn_skipn n l) in H. apply wf_app_inv in H. tauto. Qed.

Lemma nlen_firstn_le n (l : bytes) : nlen (firstn n l) <= nlen l.
Proof. unfold nlen. rewrite firstn_length. lia. Qed.
Lemma nlen_skipn_le n (l : bytes) : nlen (skipn n l) <= nlen l.
Proof. unfold nlen. rewrite skipn_length. lia. Qed.

Lemma slice_spec start e (l : bytes) :
  wf_bytes l -> start <= e -> e <= nlen l ->
  exists b, slice start e l = Ok b /\ wf_bytes b /\ nlen b = e - start.
Proof.
  intros Hwf H1 H2. unfold slice.
  destruct (N.leb_spec start e); [|lia]. destruct (N.leb_spec e (nlen l)); [|lia]. cbn [andb].
  eexists. split; [reflexivity|]. split; [apply wf_firstn, wf_skipn; exact Hwf|].
  unfold nlen in *. rewrite firstn_length, skipn_length. lia.
Qed.

(* ---- every NLA read template passes the checker ---- *)
Lemma safe_layouts :
  safe challenge_message = true /\ safe av_pair = true /\ safe message_signature_ex_t = true /\
  flat challenge_message = true /\ flat message_signature_ex_t = true.
Proof. vm_compute. repeat split. Qed.

Lemma alloc_layouts :
  alloc_bound challenge_message = 0 /\ alloc_bound av_pair = 65535 /\ alloc_bound message_signature_ex_t = 0.
Proof. vm_compute. repeat split. Qed.

Lemma bounded_lookup fs name f : bounded (MComp fs) -> lookup name fs = Some f -> leaf_bounded f.
Proof.
  intros [_ Hb] Hl. induction fs as [|[n v] tl IH]; cbn [lookup] in Hl; [discriminate|].
  inversion Hb as [|? ? Hv Htl]; subst. destruct (String.eqb n name).
  - inversion Hl; subst. exact Hv.
  - apply IH; auto.
Qed.

(* inversion of [shape template value] for a closed template *)
Lemma shape_fields_cons n v tl fs' :
  shape_fields ((n, v) :: tl) fs' -> exists v' tl', fs' = (n, v') :: tl' /\ shape v v' /\ shape_fields tl tl'.
Proof. destruct fs' as [|[n' v'] tl']; cbn [shape_fields]; [contradiction|]. intros [H1 [H2 H3]]. subst. eauto. Qed.
Lemma shape_fields_nil fs' : shape_fields [] fs' -> fs' = [].
Proof. destruct fs' as [|[n' v'] tl']; cbn [shape_fields]; [reflexivity|contradiction]. Qed.
Lemma shape_list_cons v tl l' :
  shape_list (v :: tl) l' -> exists v' tl', l' = v' :: tl' /\ shape v v' /\ shape_list tl tl'.
Proof. destruct l' as [|v' tl']; cbn [shape_list]; [contradiction|]. intros [H2 H3]. eauto. Qed.
Lemma shape_list_nil l' : shape_list [] l' -> l' = [].
Proof. destruct l'; cbn [shape_list]; [reflexivity|contradiction]. Qed.

Ltac inv_shape :=
  repeat match goal with
  | H : shape (MComp _) (MComp _) |- _ => apply shape_comp in H
  | H : shape (MTrame _) (MTrame _) |- _ => apply shape_trame in H
  | H : shape_fields (_ :: _) _ |- _ => apply shape_fields_cons in H; destruct H as [? [? [? [? H]]]]
  | H : shape_fields [] _ |- _ => apply shape_fields_nil in H
  | H : shape_list (_ :: _) _ |- _ => apply shape_list_cons in H; destruct H as [? [? [? [? H]]]]
  | H : shape_list [] _ |- _ => apply shape_list_nil in H
  | H : _ /\ _ |- _ => destruct H
  | H : shape _ ?v |- _ => is_var v; destruct v;
      first [apply shape_comp in H | apply shape_trame in H | (cbn [shape] in H; try contradiction)]
  | H : match ?x with MU8 _ => _ | _ => _ end |- _ => is_var x; destruct x; try contradiction
  | H : ?a = ?b |- _ => is_var b; subst b
  | H : ?a = ?b |- _ => is_var a; subst a
  end.

(* ---- the CHALLENGE as an explicit term ---- *)
Definition ver_value (ma mi bu r0 r1 rev : N) : msg :=
  MComp [("ProductMajorVersion", MU8 ma); ("ProductMinorVersion", MU8 mi); ("ProductBuild", MU16 LE bu);
         ("Reserved", MTrame [MU16 LE r0; MU8 r1]); ("NTLMRevisionCurrent", MU8 rev)].

Definition chal_value (sg : bytes) (mt tnl tnm tno fl : N) (sc rs : bytes) (til tim tio : N) (ver : msg) (pl : bytes) : msg :=
  MComp [
    ("Signature", MCheck (MBytes sg)); ("MessageType", MCheck (MU32 LE mt));
    ("TargetNameLen", MU16 LE tnl); ("TargetNameLenMax", MU16 LE tnm); ("TargetNameBufferOffset", MU32 LE tno);
    ("NegotiateFlags", MDyn (MU32 LE fl) skip_version);
    ("ServerChallenge", MBytes sc); ("Reserved", MBytes rs);
    ("TargetInfoLen", MU16 LE til); ("TargetInfoMaxLen", MU16 LE tim); ("TargetInfoBufferOffset", MU32 LE tio);
    ("Version", ver); ("Payload", MBytes pl)].

Lemma chal_inv m :
  shape challenge_message m ->
  exists sg mt tnl tnm tno fl sc rs til tim tio ma mi bu r0 r1 rev pl,
    m = chal_value sg mt tnl tnm tno fl sc rs til tim tio (ver_value ma mi bu r0 r1 rev) pl /\
    List.length sg = 8%nat /\ List.length sc = 8%nat /\ List.length rs = 8%nat.
Proof.
  intros H. unfold challenge_message, version, u16le, u32le in H.
  inv_shape.
  repeat match goal with H : _ \/ _ |- _ => destruct H as [H|H]; try discriminate H end.
  all: do 18 eexists; (split; [reflexivity|]); auto.
Qed.

(* read_safe / read_shape in inversion style (stated for an abstract template: destructing
   [read p L input] for a CONCRETE layout next to a hypothesis about it makes the kernel
   evaluate the interpreter) *)
Lemma rd_ok p t input m' rest a :
  safe t = true -> flat t = true -> wf_bytes input -> read p t input = ROk m' rest a ->
  shape t m' /\ bounded m' /\ a <= alloc_bound t /\ wf_bytes rest /\ nlen rest <= nlen input.
Proof.
  intros Hs Hf Hwf Hr. pose proof (read_safe p t Hs input Hwf) as H. unfold post in H. rewrite Hr in H.
  destruct H as [_ [_ [Hb [Hw [Hl [Ha _]]]]]]. split; [eapply read_shape; eauto|].
  split; [exact Hb|]. split; [exact Ha|]. split; [exact Hw|]. lia.
Qed.

Lemma rd_err p t input e rest a :
  safe t = true -> wf_bytes input -> read p t input = RErr e rest a -> a <= alloc_bound t.
Proof.
  intros Hs Hwf Hr. pose proof (read_safe p t Hs input Hwf) as H. unfold post in H. rewrite Hr in H. tauto.
Qed.

Lemma rd_nocrash p t input :
  safe t = true -> wf_bytes input -> read p t input <> RPanic /\ read p t input <> RSpin.
Proof. intros Hs Hwf. apply read_no_crash; auto. Qed.

Section Glue.
Variable p : prof.

Definition chal_hdr (fl : N) : N := if N.land (N.shiftr fl 25) 1 =? 0 then 48 else 56.

Lemma nlen_of_length {A} (l : list A) n : List.length l = n -> nlen l = N.of_nat n.
Proof. intros H. unfold nlen. rewrite H. reflexivity. Qed.

Lemma chal_mlen sg mt tnl tnm tno fl sc rs til tim tio ma mi bu r0 r1 rev pl :
  List.length sg = 8%nat -> List.length sc = 8%nat -> List.length rs = 8%nat ->
  mlen p (chal_value sg mt tnl tnm tno fl sc rs til tim tio (ver_value ma mi bu r0 r1 rev) pl) = Ok (chal_hdr fl + nlen pl).
Proof.
  intros H1 H2 H3. unfold mlen, chal_value, ver_value, chal_hdr, skip_version.
  cbn [mlength options eval_clo num_of eval_cond mem String.eqb Ascii.eqb Bool.eqb orb andb].
  destruct (N.land (N.shiftr fl 25) 1 =? 0);
    cbn [mem String.eqb Ascii.eqb Bool.eqb orb andb];
    rewrite (nlen_of_length _ _ H1), (nlen_of_length _ _ H2), (nlen_of_length _ _ H3); f_equal; lia.
Qed.

Definition av_value (id l : N) (v : bytes) : msg :=
  MComp [("AvId", MU16 LE id); ("AvLen", MDyn (MU16 LE l) (CloSize "Value" XSelf)); ("Value", MBytes v)].

Lemma read_av_pair_spec data :
  wf_bytes data ->
  match read p av_pair data with
  | ROk el rest a => exists id l v, el = av_value id l v /\ wf_bytes rest /\ wf_bytes v /\
                                    nlen rest + 4 + nlen v = nlen data /\ a <= 65535 /\ nlen v <= 65535
  | RErr e rest a => a <= 65535
  | _ => False
  end.
Proof.
  intros Hwf. destruct data as [|i0 [|i1 [|l0 [|l1 r]]]].
  1-4: vm_compute; discriminate.
  unfold av_pair, u16le.
  cbn [read]. cbn [read_comp mem]. cbn [read_field dyn_lookup]. cbn [read].
  cbn [options eval_clo eval_cexp num_of]. cbn [String.eqb Ascii.eqb Bool.eqb]. cbn [read_field]. cbn [read options rev app].
  assert (Hsz : of_le16 l0 l1 <= 65535).
  { unfold wf_bytes in Hwf. repeat match goal with H : Forall _ (_ :: _) |- _ => inversion H; clear H; subst end.
    unfold of_le16. lia. }
  assert (Hr : wf_bytes r).
  { unfold wf_bytes in *. repeat match goal with H : Forall _ (_ :: _) |- _ => inversion H; clear H; subst end. assumption. }
  destruct (N.ltb_spec isize_max (of_le16 l0 l1)) as [Hbig|_]; [unfold isize_max in Hbig; lia|].
  destruct (take (N.to_nat (of_le16 l0 l1)) r) as [[local rest]|] eqn:Ht.
  - cbn [options]. apply take_spec in Ht. destruct Ht as [Hr' Hl]. subst r. apply wf_app_inv in Hr. destruct Hr as [Hw1 Hw2].
    exists (of_le16 i0 i1), (of_le16 l0 l1), local. split; [reflexivity|]. split; [exact Hw2|]. split; [exact Hw1|].
    split; [rewrite !nlen_cons, nlen_app; lia|]. split; [lia|]. unfold nlen. rewrite Hl. lia.
  - lia.
Qed.

Lemma av_gets id l v :
  cast_num 16 (get (av_value id l v) "AvId") = Ok id /\ cast_bytes (get (av_value id l v) "Value") = Ok v.
Proof. split; reflexivity. Qed.

(* read_target_info: never panics, never spins; what it allocates is a 16-bit length; every
   value it returns is at most 65535 bytes long *)
Definition av_small (l : list (N * bytes)) : Prop := Forall (fun iv => nlen (snd iv) <= 65535) l.

Lemma av_lookup_small i l v : av_small l -> av_lookup i l = Some v -> nlen v <= 65535.
Proof.
  intros Hs Hl. induction l as [|[i' v'] tl IH]; cbn [av_lookup] in Hl; [discriminate|].
  inversion Hs as [|? ? H1 H2]; subst. destruct (i' =? i); [inversion Hl; subst; exact H1|auto].
Qed.

Lemma rti_ok :
  forall fuel data acc a,
    wf_bytes data -> (List.length data < fuel)%nat -> a <= 65535 -> av_small acc ->
    match read_target_info p fuel data acc a with
    | (a', Ok l) => a' <= 65535 /\ av_small l
    | (a', Err _) => a' <= 65535
    | _ => False
    end.
Proof.
  induction fuel as [|fuel IH]; intros data acc a Hwf Hf Ha Hacc; [lia|].
  cbn [read_target_info].
  pose proof (read_av_pair_spec data Hwf) as Hs.
  destruct (read p av_pair data) as [el rest a'|e rest a'| |]; try contradiction.
  - destruct Hs as [id [l [v [He [Hwr [Hwv [Hlen [Hal Hv65]]]]]]]]. subst el.
    destruct (av_gets id l v) as [-> Hv].
    destruct (avid_known id); cbn [negb]; [|lia].
    destruct (id =? MSV_AV_EOL).
    + split; [lia|exact Hacc].
    + rewrite Hv. apply IH; auto; [|lia|constructor; auto].
      unfold nlen in *. lia.
  - lia.
Qed.

Lemma gpf_spec sg mt tnl tnm tno fl sc rs til tim tio ma mi bu r0 r1 rev pl len off :
  List.length sg = 8%nat -> List.length sc = 8%nat -> List.length rs = 8%nat -> wf_bytes pl ->
  match get_payload_field p (chal_value sg mt tnl tnm tno fl sc rs til tim tio (ver_value ma mi bu r0 r1 rev) pl) len off with
  | Ok b => wf_bytes b /\ nlen b = len
  | Err _ => True
  | _ => False
  end.
Proof.
  intros H1 H2 H3 Hwf. unfold get_payload_field.
  assert (Hp : cast_bytes (get (chal_value sg mt tnl tnm tno fl sc rs til tim tio (ver_value ma mi bu r0 r1 rev) pl) "Payload") = Ok pl)
    by reflexivity.
  rewrite Hp. cbn [obind]. rewrite chal_mlen by assumption. cbn [obind].
  unfold sub_w. destruct (N.leb_spec (nlen pl) (chal_hdr fl + nlen pl)); [|lia]. cbn [obind].
  replace (chal_hdr fl + nlen pl - nlen pl) with (chal_hdr fl) by lia.
  destruct (off <? chal_hdr fl) eqn:E1; auto. apply N.ltb_ge in E1.
  destruct (Cssp.two64 <=? off - chal_hdr fl + len); auto.
  destruct (N.leb_spec (off - chal_hdr fl + len) (nlen pl)); auto.
  destruct (slice_spec (off - chal_hdr fl) (off - chal_hdr fl + len) pl Hwf) as [b [Hb [Hw Hn]]]; [lia|lia|].
  rewrite Hb. split; auto. lia.
Qed.

End Glue.

(* ---- results of the monad: no crash, allocation bound, postcondition ---- *)
Definition good_m {A} (B : N) (Q : A -> Prop) (r : M A) : Prop :=
  nocrash (snd r) /\ fst r <= B /\ forall v, snd r = Ok v -> Q v.

Lemma good_abind {A C} B (R : A -> Prop) (Q : C -> Prop) (x : M A) (f : A -> M C) :
  good_m B R x -> (forall v, R v -> good_m B Q (f v)) -> good_m B Q (abind x f).
Proof.
  intros [H1 [H2 H3]] Hf. unfold good_m, abind. destruct x as [a o]. cbn [fst snd] in *.
  destruct o as [v| | |]; cbn [fst snd]; try (split; [auto|split; [auto|intros ? Hx; discriminate Hx]]).
  - destruct (Hf v (H3 v eq_refl)) as [G1 [G2 G3]]. split; [exact G1|]. split; [lia|exact G3].
  - destruct H1 as [H1 _]. congruence.
  - destruct H1 as [_ H1]. congruence.
Qed.

Lemma good_ok {A} B (Q : A -> Prop) a (v : A) : a <= B -> Q v -> good_m B Q (a, Ok v).
Proof. intros H1 H2. unfold good_m. cbn [fst snd]. split; [auto|]. split; [exact H1|]. intros v' Hv. inversion Hv; subst. exact H2. Qed.

Lemma good_err {A} B (Q : A -> Prop) a e : a <= B -> good_m B Q (a, Err e).
Proof. intros H1. unfold good_m. cbn [fst snd]. split; [auto|]. split; [exact H1|]. intros v' Hv. discriminate. Qed.

Lemma good_lift {A} B (R : A -> Prop) (o : outcome A) :
  match o with Ok v => R v | Err _ => True | _ => False end -> good_m B R (lift o).
Proof.
  intros H. unfold lift. destruct o; try contradiction.
  - apply good_ok; [lia|exact H].
  - apply good_err. lia.
Qed.

Lemma good_note B n : n <= B -> good_m B (fun _ => True) (note n).
Proof. intros H. apply good_ok; auto. Qed.

Lemma add_w_ok p w a b : a + b < 2 ^ w -> add_w p w a b = Ok (a + b).
Proof. intros H. unfold add_w. destruct (N.ltb_spec (a + b) (2 ^ w)); [reflexivity|lia]. Qed.

Lemma auth_ok : forall p lm nt dom user ws key fl,
  nlen lm + nlen nt + nlen dom + nlen user + nlen ws + nlen key < 4294967000 ->
  exists am, authenticate_message p lm nt dom user ws key fl = Ok (am, lm ++ nt ++ dom ++ user ++ ws ++ key) /\
            exists hdr, write p am = Some hdr /\ nlen hdr <= 72.
Proof.
  intros p lm nt dom user ws key fl H. unfold authenticate_message.
  assert (Ho : (if N.land fl NTLMSSP_NEGOTIATE_VERSION =? 0 then 80 else 88) <= 88) by (destruct (N.land fl NTLMSSP_NEGOTIATE_VERSION =? 0); lia).
  set (offset := if N.land fl NTLMSSP_NEGOTIATE_VERSION =? 0 then 80 else 88) in *.
  assert (Hm : forall x, x < 4294967000 -> as_u32 x = x) by (intros x Hx; unfold as_u32; apply N.mod_small; lia).
  rewrite !Hm by lia.
  rewrite !add_w_ok by (change (2 ^ 32) with 4294967296; lia).
  cbn [obind].
  eexists. split; [reflexivity|].
  unfold version, skip_version, u16le, u32le.
  cbn [write options eval_clo num_of eval_cond mem String.eqb Ascii.eqb Bool.eqb orb andb].
  destruct (N.land (N.shiftr fl 25) 1 =? 0); cbn [mem String.eqb Ascii.eqb Bool.eqb orb andb]; eexists; (split; [reflexivity|]);
    unfold nlen; rewrite !app_length; cbn [List.length enc16 enc32 le16 le32 ntlm_signature]; lia.
Qed.

Definition creds_small (c : creds) : Prop :=
  nlen (dom8 c) + nlen (user8 c) < 2147483648 /\ nlen (dom16 c) + nlen (user16 c) < 2147483648.

Definition creds_len (c : creds) : N :=
  nlen (dom8 c) + nlen (user8 c) + nlen (pw8 c) + nlen (dom16 c) + nlen (user16 c) + nlen (pw16 c).

Arguments encrypt {rc4st} _.
Arguments decrypt {rc4st} _.
Arguments signing_key {rc4st} _.
Arguments verify_key {rc4st} _.
Arguments seq_num {rc4st} _.

Section Nla.
Variable p : prof.
Variable ber_ts_request : bytes -> option (list bytes).
Variable ber_ts_validate : bytes -> option bytes.
Variable hmac_md5 : bytes -> bytes -> bytes.
Variable md5 : bytes -> bytes.
Variable rc4st : Type.
Variable rc4_init : bytes -> rc4st.
Variable rc4_run : rc4st -> bytes -> rc4st * bytes.
(* "total functions of fixed output length" *)
Hypothesis hmac_len : forall k d, nlen (hmac_md5 k d) = 16.
Hypothesis md5_len : forall d, nlen (md5 d) = 16.
Hypothesis rc4_len : forall s d, nlen (snd (rc4_run s d)) = nlen d.

Definition rcm_bound (neg request : bytes) (c : creds) : N := nlen request + nlen neg + creds_len c + 140000.

Lemma rc4_new_ok key : nlen key = 16 -> rc4_new rc4st rc4_init key = Ok (rc4_init key).
Proof. intros H. unfold rc4_new. rewrite H. reflexivity. Qed.


Definition rcm_post (sk neg : bytes) (c : creds) (B : N) (r : bytes * ntlm) : Prop :=
  exported (snd r) = Some sk /\ cr (snd r) = c /\ nego_msg (snd r) = Some neg /\ nlen (fst r) <= B.

Lemma rcm_build_good B st1 neg request sk lm nt enc fl :
  nlen lm + nlen nt + nlen (get_domain_name st1) + nlen (get_user_name st1) + nlen enc < 4294967000 ->
  nlen neg + nlen request + 88 + nlen lm + nlen nt + nlen (get_domain_name st1) + nlen (get_user_name st1) + nlen enc <= B ->
  exported st1 = Some sk -> nego_msg st1 = Some neg ->
  good_m B (rcm_post sk neg (cr st1) B) (rcm_build p hmac_md5 st1 (Some neg) request sk lm nt enc fl).
Proof.
  intros Hsmall HB Hex Hng. unfold rcm_build.
  destruct (auth_ok p lm nt (get_domain_name st1) (get_user_name st1) [] enc fl) as [am [Ham [hdr [Hw Hh]]]].
  { change (nlen (@nil N)) with 0. lia. }
  rewrite Ham.
  eapply good_abind with (R := fun v => v = (am, lm ++ nt ++ get_domain_name st1 ++ get_user_name st1 ++ [] ++ enc));
    [apply good_lift; reflexivity|]. intros ? ->. cbn [fst snd].
  set (payload := lm ++ nt ++ get_domain_name st1 ++ get_user_name st1 ++ [] ++ enc).
  assert (Hpay : nlen payload = nlen lm + nlen nt + nlen (get_domain_name st1) + nlen (get_user_name st1) + nlen enc).
  { unfold payload. rewrite !nlen_app. change (nlen (@nil N)) with 0. lia. }
  unfold wr. rewrite Hw.
  eapply good_abind with (R := fun v => v = hdr); [apply good_lift; reflexivity|]. intros ? ->.
  assert (Htmp : nlen (hdr ++ zeros 16 ++ payload) = nlen hdr + 16 + nlen payload).
  { rewrite !nlen_app. change (nlen (zeros 16)) with 16. lia. }
  eapply good_abind with (R := fun _ => True); [apply good_note; lia|]. intros _ _.
  eapply good_abind with (R := fun v => v = hdr); [apply good_lift; reflexivity|]. intros ? ->.
  assert (Hfin : nlen (hdr ++ hmac_md5 sk (neg ++ request ++ hdr ++ zeros 16 ++ payload) ++ payload) <= B).
  { rewrite !nlen_app, hmac_len. lia. }
  apply good_ok; [exact Hfin|]. unfold rcm_post. cbn [fst snd].
  split; [exact Hex|]. split; [reflexivity|]. split; [exact Hng|exact Hfin].
Qed.

Lemma rcm_respond_good st neg request cv sc tn ts cc sk fl :
  nego_msg st = Some neg -> cast_num 32 (get cv "NegotiateFlags") = Ok fl ->
  nlen sc = 8 -> nlen cc = 8 -> nlen sk = 16 -> nlen tn <= 65535 -> nlen ts <= 65535 -> creds_small (cr st) ->
  good_m (rcm_bound neg request (cr st)) (rcm_post sk neg (cr st) (rcm_bound neg request (cr st)))
         (rcm_respond p hmac_md5 rc4st rc4_init rc4_run st request cv sc tn ts cc sk).
Proof.
  intros Hneg Hfl Hsc Hcc Hsk Htn Hts Hcr.
  set (B := rcm_bound neg request (cr st)).
  assert (HB : B = nlen request + nlen neg + creds_len (cr st) + 140000) by reflexivity.
  unfold rcm_respond, compute_response_v2. cbv beta zeta. cbn [fst snd].
  set (temp := [1; 1] ++ zeros 6 ++ ts ++ cc ++ zeros 4 ++ tn).
  assert (Htemp : nlen temp = 20 + nlen ts + nlen tn).
  { unfold temp. rewrite !nlen_app. change (nlen [1; 1]) with 2. change (nlen (zeros 6)) with 6. change (nlen (zeros 4)) with 4. lia. }
  set (ntp := hmac_md5 (key_nt st) (sc ++ temp)).
  assert (Hnt : nlen (ntp ++ temp) = 36 + nlen ts + nlen tn) by (rewrite nlen_app; unfold ntp; rewrite hmac_len; lia).
  eapply good_abind with (R := fun _ => True); [apply good_note; lia|]. intros _ _.
  unfold rc4k. rewrite rc4_new_ok by apply hmac_len. cbn [obind].
  set (enc := snd (rc4_run (rc4_init (hmac_md5 (key_nt st) ntp)) sk)).
  assert (Henc : nlen enc = 16) by (unfold enc; rewrite rc4_len; exact Hsk).
  eapply good_abind with (R := fun v => v = enc); [apply good_lift; reflexivity|]. intros ? ->.
  rewrite Hfl.
  eapply good_abind with (R := fun v => v = fl); [apply good_lift; reflexivity|]. intros ? ->.
  rewrite Hneg.
  match goal with |- context [rcm_build _ _ ?s] => set (st1 := s) end.
  assert (Hdu : nlen (get_domain_name st1) + nlen (get_user_name st1) < 2147483648 /\
                nlen (get_domain_name st1) + nlen (get_user_name st1) <= creds_len (cr st)).
  { unfold get_domain_name, get_user_name, st1, creds_len. cbn [is_unicode cr]. destruct Hcr as [C1 C2].
    destruct (N.land fl NTLMSSP_NEGOTIATE_UNICODE =? 1); split; lia. }
  destruct Hdu as [Hdu1 Hdu2].
  set (lm := hmac_md5 (key_lm st) (sc ++ cc) ++ cc).
  assert (Hlm : nlen lm = 24) by (unfold lm; rewrite nlen_app, hmac_len; lia).
  destruct ((65535 <? nlen (ntp ++ temp)) || (65535 <? nlen (get_domain_name st1)) || (65535 <? nlen (get_user_name st1)));
    [apply good_err; lia|].
  change (cr st) with (cr st1).
  apply rcm_build_good; try reflexivity; lia.
Qed.

Lemma chal_gets sg mt tnl tnm tno fl sc rs til tim tio ver pl :
  let cv := chal_value sg mt tnl tnm tno fl sc rs til tim tio ver pl in
  cast_bytes (get cv "ServerChallenge") = Ok sc /\ cast_num 16 (get cv "TargetInfoLen") = Ok til /\
  cast_num 32 (get cv "TargetInfoBufferOffset") = Ok tio /\ cast_num 32 (get cv "NegotiateFlags") = Ok fl.
Proof. cbv zeta. repeat split; reflexivity. Qed.

Lemma chal_bounded sg mt tnl tnm tno fl sc rs til tim tio ver pl :
  bounded (chal_value sg mt tnl tnm tno fl sc rs til tim tio ver pl) -> wf_bytes pl /\ til <= 65535.
Proof.
  intros Hb. split.
  - destruct (bounded_lookup _ "Payload" _ Hb eq_refl) as [_ H]. apply H. reflexivity.
  - destruct (bounded_lookup _ "TargetInfoLen" _ Hb eq_refl) as [H _]. exact H.
Qed.

Lemma chal_read_spec request :
  wf_bytes request ->
  match read p challenge_message request with
  | ROk m' _ a =>
      a = 0 /\ exists sg mt tnl tnm tno fl sc rs til tim tio ma mi bu r0 r1 rev pl,
        m' = chal_value sg mt tnl tnm tno fl sc rs til tim tio (ver_value ma mi bu r0 r1 rev) pl /\
        List.length sg = 8%nat /\ List.length sc = 8%nat /\ List.length rs = 8%nat /\ wf_bytes pl /\ til <= 65535
  | RErr _ _ a => a = 0
  | _ => False
  end.
Proof.
  intros Hwf. destruct safe_layouts as [Sc [_ [_ [Fc _]]]]. destruct alloc_layouts as [A1 _].
  destruct (rd_nocrash p challenge_message request Sc Hwf) as [Hn1 Hn2].
  destruct (read p challenge_message request) as [m' rest a|e rest a| |] eqn:Hrd; try congruence.
  - destruct (rd_ok p _ _ _ _ _ Sc Fc Hwf Hrd) as [Hsh [Hb [Ha _]]]. rewrite A1 in Ha.
    destruct (chal_inv _ Hsh) as [sg [mt [tnl [tnm [tno [fl [sc [rs [til [tim [tio [ma [mi [bu [r0 [r1 [rev [pl [Hm [L1 [L2 L3]]]]]]]]]]]]]]]]]]]]].
    subst m'. destruct (chal_bounded _ _ _ _ _ _ _ _ _ _ _ _ _ Hb) as [Hpl Htil].
    split; [lia|]. exists sg, mt, tnl, tnm, tno, fl, sc, rs, til, tim, tio, ma, mi, bu, r0, r1, rev, pl.
    split; [reflexivity|]. split; [exact L1|]. split; [exact L2|]. split; [exact L3|]. split; [exact Hpl|exact Htil].
  - pose proof (rd_err p _ _ _ _ _ Sc Hwf Hrd) as Ha. rewrite A1 in Ha. lia.
Qed.

Lemma rcm_good st neg request cc sk :
  wf_bytes request -> nego_msg st = Some neg -> nlen cc = 8 -> nlen sk = 16 -> creds_small (cr st) ->
  good_m (rcm_bound neg request (cr st)) (rcm_post sk neg (cr st) (rcm_bound neg request (cr st)))
         (read_challenge_message p hmac_md5 rc4st rc4_init rc4_run st request cc sk).
Proof.
  intros Hwf Hneg Hcc Hsk Hcr.
  set (B := rcm_bound neg request (cr st)).
  assert (HB : 140000 <= B) by (unfold B, rcm_bound; lia).
  unfold read_challenge_message, rdm.
  pose proof (chal_read_spec request Hwf) as Hspec.
  destruct (read p challenge_message request) as [m' rest a|e rest a| |]; try contradiction.
  2: { subst a. unfold abind. cbn [fst snd]. apply good_err. lia. }
  destruct Hspec as [Ha [sg [mt [tnl [tnm [tno [fl [sc [rs [til [tim [tio [ma [mi [bu [r0 [r1 [rev [pl [Hm [L1 [L2 [L3 [Hpl Htil]]]]]]]]]]]]]]]]]]]]]]]].
  subst a m'.
  assert (Hsc : nlen sc = 8) by (apply (nlen_of_length _ _ L2)).
  pose proof (gpf_spec p sg mt tnl tnm tno fl sc rs til tim tio ma mi bu r0 r1 rev pl til tio L1 L2 L3 Hpl) as Hg.
  destruct (chal_gets sg mt tnl tnm tno fl sc rs til tim tio (ver_value ma mi bu r0 r1 rev) pl) as [E1 [E2 [E3 E4]]].
  remember (chal_value sg mt tnl tnm tno fl sc rs til tim tio (ver_value ma mi bu r0 r1 rev) pl) as cv eqn:Hcv.
  clear Hcv.
  eapply good_abind with (R := fun v => v = cv); [apply good_ok; [lia|reflexivity]|]. intros ? ->.
  rewrite E1, E2, E3.
  eapply good_abind with (R := fun v => v = sc); [apply good_lift; reflexivity|]. intros ? ->.
  eapply good_abind with (R := fun v => v = til); [apply good_lift; reflexivity|]. intros ? ->.
  eapply good_abind with (R := fun v => v = tio); [apply good_lift; reflexivity|]. intros ? ->.
  eapply good_abind with (R := fun b => wf_bytes b /\ nlen b = til); [apply good_lift; exact Hg|]. intros tn [Htn1 Htn2].
  eapply good_abind with (R := fun b => wf_bytes b /\ nlen b = til); [apply good_lift; exact Hg|]. intros ti [Hti1 Hti2].
  eapply good_abind with (R := av_small).
  { pose proof (rti_ok p (S (List.length ti)) ti [] 0 Hti1 (Nat.lt_succ_diag_r _) (N.le_0_l _) (Forall_nil _)) as Hr.
    destruct (read_target_info p (S (List.length ti)) ti [] 0) as [a' [l|e| |]]; try contradiction.
    - destruct Hr as [Hr1 Hr2]. apply good_ok; [lia|exact Hr2].
    - apply good_err. lia. }
  intros info Hinfo.
  destruct (av_lookup MSV_AV_TIMESTAMP info) as [ts|] eqn:Hts; [|apply good_err; lia].
  pose proof (av_lookup_small _ _ _ Hinfo Hts) as Hts65.
  apply rcm_respond_good with (fl := fl); [exact Hneg|exact E4|exact Hsc|exact Hcc|exact Hsk|lia|exact Hts65|exact Hcr].
Qed.

(* ---- the security interface ---- *)
Lemma slice_ok start e (l : bytes) : start <= e -> e <= nlen l -> exists b, slice start e l = Ok b /\ nlen b = e - start.
Proof.
  intros H1 H2. unfold slice.
  destruct (N.leb_spec start e); [|lia]. destruct (N.leb_spec e (nlen l)); [|lia]. cbn [andb].
  eexists. split; [reflexivity|]. unfold nlen in *. rewrite firstn_length, skipn_length. lia.
Qed.

Definition sig_value (v : N) (cs : bytes) (sq : N) : msg :=
  MComp [("Version", MCheck (MU32 LE v)); ("Checksum", MBytes cs); ("SeqNum", MU32 LE sq)].

Lemma sig_inv m : shape message_signature_ex_t m -> exists v cs sq, m = sig_value v cs sq.
Proof.
  intros H. unfold message_signature_ex_t, u32le in H. inv_shape.
  repeat match goal with H : _ \/ _ |- _ => destruct H as [H|H]; try discriminate H end.
  all: do 3 eexists; reflexivity.
Qed.

Lemma build_security_interface_ok st k :
  exported st = Some k ->
  exists si, build_security_interface md5 rc4st rc4_init st = Ok si /\ seq_num si = 0.
Proof.
  intros Hk. unfold build_security_interface. rewrite Hk.
  rewrite !rc4_new_ok by apply md5_len. cbn [obind]. eexists. split; reflexivity.
Qed.

Definition si_post (si : secif rc4st) (n : N) (sq : N) (r : bytes * secif rc4st) : Prop :=
  nlen (fst r) <= n /\ seq_num (snd r) = sq.

Lemma unwrap_good si data :
  wf_bytes data ->
  good_m (nlen data + 4) (si_post si (nlen data) (seq_num si)) (gss_unwrapex p hmac_md5 rc4st rc4_run si data).
Proof.
  intros Hwf. destruct safe_layouts as [_ [_ [Ss [_ Fs]]]]. destruct alloc_layouts as [_ [_ A3]].
  unfold gss_unwrapex.
  destruct (rd_nocrash p message_signature_ex_t data Ss Hwf) as [Hn1 Hn2].
  destruct (read p message_signature_ex_t data) as [m' rest a|e rest a| |] eqn:Hrd; try congruence.
  2: { pose proof (rd_err p _ _ _ _ _ Ss Hwf Hrd) as Ha. rewrite A3 in Ha. apply good_err. lia. }
  destruct (rd_ok p _ _ _ _ _ Ss Fs Hwf Hrd) as [Hsh [_ [Ha [_ Hlen]]]]. rewrite A3 in Ha.
  destruct (sig_inv _ Hsh) as [v [cs [sq ->]]].
  destruct (rc4_run (decrypt si) rest) as [h1 pp] eqn:E1.
  assert (Hpp : nlen pp = nlen rest) by (pose proof (rc4_len (decrypt si) rest) as H; rewrite E1 in H; exact H).
  eapply good_abind with (R := fun _ => True); [apply good_note; lia|]. intros _ _.
  assert (Ec : cast_bytes (get (sig_value v cs sq) "Checksum") = Ok cs) by reflexivity.
  assert (Eq : cast_num 32 (get (sig_value v cs sq) "SeqNum") = Ok sq) by reflexivity.
  rewrite Ec.
  eapply good_abind with (R := fun x => x = cs); [apply good_lift; reflexivity|]. intros ? ->.
  destruct (rc4_run h1 cs) as [h2 pc] eqn:E2.
  rewrite Eq.
  eapply good_abind with (R := fun x => x = sq); [apply good_lift; reflexivity|]. intros ? ->.
  eapply good_abind with (R := fun _ => True); [apply good_note; lia|]. intros _ _.
  destruct (slice_ok 0 8 (hmac_md5 (verify_key si) (le32 sq ++ pp))) as [c8 [Hc8 _]]; [lia|rewrite hmac_len; lia|].
  rewrite Hc8.
  eapply good_abind with (R := fun x => x = c8); [apply good_lift; reflexivity|]. intros ? ->.
  destruct (list_eq_dec N.eq_dec pc c8).
  - apply good_ok; [lia|]. unfold si_post. cbn [fst snd seq_num]. split; [lia|reflexivity].
  - apply good_err. lia.
Qed.

Lemma wrap_good si data :
  seq_num si + 1 < 4294967296 ->
  good_m (nlen data + 16) (fun r => nlen (fst r) = nlen data + 16 /\ seq_num (snd r) = seq_num si + 1)
         (gss_wrapex p hmac_md5 rc4st rc4_run si data).
Proof.
  intros Hseq. unfold gss_wrapex.
  destruct (rc4_run (encrypt si) data) as [h1 encd] eqn:E1.
  assert (Henc : nlen encd = nlen data) by (pose proof (rc4_len (encrypt si) data) as H; rewrite E1 in H; exact H).
  eapply good_abind with (R := fun _ => True); [apply good_note; lia|]. intros _ _.
  unfold mac.
  destruct (slice_ok 0 8 (hmac_md5 (signing_key si) (le32 (seq_num si) ++ data))) as [s8 [Hs8 Hl8]]; [lia|rewrite hmac_len; lia|].
  rewrite Hs8. cbn [obind].
  destruct (rc4_run h1 s8) as [h2 es] eqn:E2.
  assert (Hes : nlen es = 8) by (pose proof (rc4_len h1 s8) as H; rewrite E2 in H; cbn [snd] in H; lia).
  unfold message_signature_ex. rewrite Hes. change (8 <=? 8) with true. cbv iota. cbn [obind].
  assert (Hw : wr p (MComp [("Version", MCheck (u32le 1)); ("Checksum", MBytes (firstn 8 es)); ("SeqNum", u32le (seq_num si))])
               = Ok (le32 1 ++ firstn 8 es ++ le32 (seq_num si) ++ [])) by reflexivity.
  rewrite Hw. cbn [obind].
  assert (Hf8 : nlen (firstn 8 es) = 8) by (unfold nlen in *; rewrite firstn_length; lia).
  eapply good_abind with (R := fun x => x = (le32 1 ++ firstn 8 es ++ le32 (seq_num si) ++ [], h2)); [apply good_lift; reflexivity|]. intros ? ->.
  rewrite add_w_ok by (change (2 ^ 32) with 4294967296; lia).
  eapply good_abind with (R := fun x => x = seq_num si + 1); [apply good_lift; reflexivity|]. intros ? ->.
  cbn [fst snd].
  assert (Hout : nlen ((le32 1 ++ firstn 8 es ++ le32 (seq_num si) ++ []) ++ encd) = nlen data + 16).
  { rewrite !nlen_app, Hf8, Henc. change (nlen (le32 1)) with 4. change (nlen (le32 (seq_num si))) with 4. change (nlen (@nil N)) with 0. lia. }
  apply good_ok; [lia|]. cbn [fst snd seq_num]. split; [exact Hout|reflexivity].
Qed.

(* ---- cssp_connect ---- *)
(* what the BER oracle hands back are byte strings no longer than its input *)
Hypothesis ber_req_ok : forall i toks, wf_bytes i -> ber_ts_request i = Some toks -> Forall (fun t => wf_bytes t /\ nlen t <= nlen i) toks.
Hypothesis ber_val_ok : forall i k, wf_bytes i -> ber_ts_validate i = Some k -> wf_bytes k /\ nlen k <= nlen i.

Lemma read_ts_server_challenge_ok i :
  wf_bytes i ->
  match read_ts_server_challenge ber_ts_request i with
  | Ok t => wf_bytes t /\ nlen t <= nlen i
  | Err _ => True
  | _ => False
  end.
Proof.
  intros Hwf. unfold read_ts_server_challenge. destruct (ber_ts_request i) as [toks|] eqn:E; [|exact I].
  destruct toks as [|t tl]; [exact I|]. pose proof (ber_req_ok i _ Hwf E) as H. inversion H; subst. assumption.
Qed.

Lemma read_ts_validate_ok i :
  wf_bytes i ->
  match read_ts_validate ber_ts_validate i with
  | Ok t => wf_bytes t /\ nlen t <= nlen i
  | Err _ => True
  | _ => False
  end.
Proof.
  intros Hwf. unfold read_ts_validate. destruct (ber_ts_validate i) as [k|] eqn:E; [|exact I]. apply (ber_val_ok i k Hwf E).
Qed.

Definition nego_bytes : bytes :=
  Eval vm_compute in match write Debug (negotiate_message negotiate_flags) with Some b => b | None => [] end.

Lemma nego_write : write p (negotiate_message negotiate_flags) = Some nego_bytes.
Proof. destruct p; vm_compute; reflexivity. Qed.

Lemma tread_ok n cs :
  Forall wf_bytes cs ->
  wf_bytes (fst (tread n cs)) /\ nlen (fst (tread n cs)) <= N.of_nat n /\ Forall wf_bytes (snd (tread n cs)).
Proof.
  intros H. unfold tread. destruct cs as [|c cs']; cbn [fst snd].
  - split; [constructor|]. split; [unfold nlen; cbn; lia|constructor].
  - inversion H as [|? ? Hc Hcs]; subst. destruct (Nat.leb_spec (List.length c) n); cbn [fst snd].
    + split; [exact Hc|]. split; [unfold nlen; lia|exact Hcs].
    + split; [apply wf_firstn; exact Hc|]. split; [unfold nlen; rewrite firstn_length; lia|].
      constructor; [apply wf_skipn; exact Hc|exact Hcs].
Qed.

Lemma wr_link_nocrash m s : nocrash (fst (wr_link m s)).
Proof.
  unfold wr_link, link_write. destruct (write_all m s) as [[o ok] s']. destruct ok; cbn [fst]; auto.
Qed.

Lemma be_digits_len f : forall n acc, nlen (be_digits f n acc) <= N.of_nat f + nlen acc.
Proof.
  induction f as [|f IH]; intros n acc; cbn [be_digits]; [lia|].
  destruct (n =? 0); [lia|]. specialize (IH (n / 256) ((n mod 256) :: acc)). rewrite nlen_cons in IH. lia.
Qed.

Lemma der_tlv_len tag body : nlen (der_tlv tag body) <= nlen body + 11.
Proof.
  unfold der_tlv, der_len. rewrite nlen_cons, nlen_app. destruct (nlen body <? 128).
  - change (nlen [nlen body]) with 1. lia.
  - rewrite nlen_cons. pose proof (be_digits_len 9 (nlen body) []). change (nlen (@nil N)) with 0 in H. lia.
Qed.

Lemma der_tlv_le tag body k : nlen body <= k -> nlen (der_tlv tag body) <= k + 11.
Proof. intros H. pose proof (der_tlv_len tag body). lia. Qed.

Lemma creds_der_len d u pw : nlen (create_ts_credentials d u pw) <= nlen d + nlen u + nlen pw + 130.
Proof.
  unfold create_ts_credentials, der_seq, der_ctx, der_octets, der_small_int.
  eapply N.le_trans; [apply der_tlv_le with (k := nlen d + nlen u + nlen pw + 113)|lia].
  rewrite nlen_app.
  assert (H0 : nlen (der_tlv (160 + 0) [2; 1; 1]) <= 14) by (apply (der_tlv_le _ _ 3); reflexivity).
  assert (H1 : nlen (der_tlv (160 + 1) (der_tlv 4 (der_tlv 48 (der_tlv (160 + 0) (der_tlv 4 d) ++ der_tlv (160 + 1) (der_tlv 4 u) ++ der_tlv (160 + 2) (der_tlv 4 pw)))))
               <= nlen d + nlen u + nlen pw + 66 + 11 + 11 + 11).
  { do 3 apply der_tlv_le. rewrite !nlen_app.
    pose proof (der_tlv_le (160 + 0) _ _ (der_tlv_len 4 d)).
    pose proof (der_tlv_le (160 + 1) _ _ (der_tlv_len 4 u)).
    pose proof (der_tlv_le (160 + 2) _ _ (der_tlv_len 4 pw)). lia. }
  lia.
Qed.

Definition cert_len (c : certres) : N := match c with CertKey k => nlen k | CertErr _ => 0 end.
Definition cssp_bound (c : creds) (cert : certres) : N := creds_len c + cert_len cert + 150000.

Definition cssp_ok (B : N) (r : cssp_result) : Prop := nocrash (c_out r) /\ c_alloc r <= B.

Lemma cssp_fail_ok {A} B (o : outcome A) a w s : nocrash o -> a <= B -> cssp_ok B (cssp_fail o a w s).
Proof. intros [H1 H2] Ha. unfold cssp_ok, cssp_fail. cbn [c_out c_alloc]. split; [|exact Ha]. destruct o; auto; congruence. Qed.

Theorem cssp_good st restricted cert cc sk input sched :
  Forall wf_bytes input -> nlen cc = 8 -> nlen sk = 16 -> creds_small (cr st) ->
  cssp_ok (cssp_bound (cr st) cert)
    (cssp_connect p ber_ts_request ber_ts_validate hmac_md5 md5 rc4st rc4_init rc4_run st restricted cert cc sk input sched).
Proof.
  intros Hin Hcc Hsk Hcr. set (B := cssp_bound (cr st) cert).
  assert (HB : B = creds_len (cr st) + cert_len cert + 150000) by reflexivity.
  clearbody B.
  unfold cssp_connect, create_negotiate_message, wr. rewrite nego_write. cbn [obind].
  set (st0 := mkNtlm (cr st) (key_nt st) (key_lm st) (Some nego_bytes) (exported st) (is_unicode st)).
  set (m1 := create_ts_request nego_bytes).
  pose proof (wr_link_nocrash m1 sched) as Hw1.
  destruct (wr_link m1 sched) as [r1 sched1]. cbn [fst] in Hw1.
  destruct r1 as [u1|e1| |]; try (apply cssp_fail_ok; [exact Hw1|lia]).
  unfold link_read at 1.
  pose proof (tread_ok 1500 input Hin) as [Hb1 [Hl1 Hin1]].
  destruct (tread 1500 input) as [buf1 in1]. cbn [fst snd] in Hb1, Hl1, Hin1.
  pose proof (read_ts_server_challenge_ok buf1 Hb1) as Hsc.
  destruct (read_ts_server_challenge ber_ts_request buf1) as [sc|e| |]; try contradiction;
    [|apply cssp_fail_ok; [auto|lia]].
  destruct Hsc as [Hscw Hscl].
  assert (Hst0 : nego_msg st0 = Some nego_bytes) by reflexivity.
  pose proof (rcm_good st0 nego_bytes sc cc sk Hscw Hst0 Hcc Hsk Hcr) as [Hg1 [Hg2 Hg3]].
  change (cr st0) with (cr st) in *.
  assert (Hrb : rcm_bound nego_bytes sc (cr st) <= B).
  { unfold rcm_bound. change (nlen nego_bytes) with 32. change (N.of_nat 1500) with 1500 in Hl1. lia. }
  set (rc := read_challenge_message p hmac_md5 rc4st rc4_init rc4_run st0 sc cc sk) in *.
  assert (Ha1 : N.max 1500 (N.max (nlen sc) (fst rc)) <= B) by (change (N.of_nat 1500) with 1500 in Hl1; lia).
  destruct (snd rc) as [[client_msg st1]|e| |] eqn:Erc; try (apply cssp_fail_ok; [exact Hg1|exact Ha1]).
  destruct (Hg3 _ eq_refl) as [Hex [Hcr1 [Hng1 Hcm]]]. cbn [fst snd] in Hex, Hcr1, Hng1, Hcm.
  destruct (build_security_interface_ok st1 sk Hex) as [si [Hsi Hsq0]]. rewrite Hsi.
  destruct cert as [ce|key].
  { unfold cssp_ok. cbn [c_out c_alloc]. split; [auto|exact Ha1]. }
  cbn [cert_len] in HB.
  pose proof (wrap_good si key) as [Hw1a [Hw1b Hw1c]]; [rewrite Hsq0; lia|].
  set (w1 := gss_wrapex p hmac_md5 rc4st rc4_run si key) in *.
  assert (Ha2 : N.max (N.max 1500 (N.max (nlen sc) (fst rc))) (fst w1) <= B).
  { apply N.max_lub; [exact Ha1|]. eapply N.le_trans; [exact Hw1b|lia]. }
  destruct (snd w1) as [[pka si1]|e| |] eqn:Ew1; try (apply cssp_fail_ok; [first [exact Hw1a | rewrite <- Ew1; exact Hw1a]|exact Ha2]).
  destruct (Hw1c _ Ew1) as [_ Hsq1]. cbn [snd] in Hsq1.
  set (m2 := create_ts_authenticate client_msg pka).
  pose proof (wr_link_nocrash m2 sched1) as Hw2.
  destruct (wr_link m2 sched1) as [r2 sched2]. cbn [fst] in Hw2.
  destruct r2 as [u2|e2| |]; try (apply cssp_fail_ok; [exact Hw2|exact Ha2]).
  unfold link_read at 1.
  pose proof (tread_ok 1500 in1 Hin1) as [Hb2 [Hl2 Hin2]].
  destruct (tread 1500 in1) as [buf2 in2]. cbn [fst snd] in Hb2, Hl2, Hin2. change (N.of_nat 1500) with 1500 in Hl2.
  pose proof (read_ts_validate_ok buf2 Hb2) as Htv.
  destruct (read_ts_validate ber_ts_validate buf2) as [tok|e| |]; try contradiction;
    [|apply cssp_fail_ok; [auto|exact Ha2]].
  destruct Htv as [Htw Htl].
  pose proof (unwrap_good si1 tok Htw) as [Hu1 [Hu2 Hu3]].
  set (u := gss_unwrapex p hmac_md5 rc4st rc4_run si1 tok) in *.
  assert (Ha3 : N.max (N.max (N.max 1500 (N.max (nlen sc) (fst rc))) (fst w1)) (N.max (nlen tok) (fst u)) <= B).
  { apply N.max_lub; [exact Ha2|]. apply N.max_lub; [lia|]. eapply N.le_trans; [exact Hu2|lia]. }
  destruct (snd u) as [[inc si2]|e| |] eqn:Eu; try (apply cssp_fail_ok; [exact Hu1|exact Ha3]).
  destruct (Hu3 _ eq_refl) as [_ Hsq2]. cbn [snd] in Hsq2.
  destruct (negb (le_val inc =? le_val key + 1)).
  { unfold cssp_ok. cbn [c_out c_alloc]. split; [auto|exact Ha3]. }
  cbv zeta.
  match goal with |- context [gss_wrapex _ _ _ _ si2 ?x] => set (tc := x) end.
  assert (Htc : nlen tc <= creds_len (cr st) + 130).
  { unfold tc. eapply N.le_trans; [apply creds_der_len|]. unfold get_domain_name, get_user_name, get_password, creds_len. rewrite Hcr1.
    destruct restricted; change (nlen (@nil N)) with 0; destruct (is_unicode st1); lia. }
  pose proof (wrap_good si2 tc) as [Hw2a [Hw2b Hw2c]]; [rewrite Hsq2, Hsq1, Hsq0; lia|].
  match goal with |- context [snd (gss_wrapex ?a ?b ?c ?d si2 tc)] => set (w2 := gss_wrapex a b c d si2 tc) in * end.
  assert (Ha4 : N.max (N.max (N.max (N.max 1500 (N.max (nlen sc) (fst rc))) (fst w1)) (N.max (nlen tok) (fst u))) (fst w2) <= B).
  { apply N.max_lub; [exact Ha3|]. eapply N.le_trans; [exact Hw2b|lia]. }
  destruct (snd w2) as [[enc_creds si3]|e| |] eqn:Ew2; try (apply cssp_fail_ok; [first [exact Hw2a | rewrite <- Ew2; exact Hw2a]|exact Ha4]).
  pose proof (wr_link_nocrash (create_ts_authinfo enc_creds) sched2) as Hw3.
  destruct (wr_link (create_ts_authinfo enc_creds) sched2) as [r3 sched3]. cbn [fst] in Hw3.
  unfold cssp_ok. cbn [c_out c_alloc]. split; [exact Hw3|exact Ha4].
Qed.

End Nla.

(* ---------------------------------------------------------------- statements exported to Properties/C07.v *)
(* "total functions of fixed output length" for the external hash / cipher code *)
Definition crypto_ok {rc4st : Type} (hmac_md5 : bytes -> bytes -> bytes) (md5 : bytes -> bytes)
           (rc4_run : rc4st -> bytes -> rc4st * bytes) : Prop :=
  (forall k d, nlen (hmac_md5 k d) = 16) /\ (forall d, nlen (md5 d) = 16) /\
  (forall s d, nlen (snd (rc4_run s d)) = nlen d).

(* the BER oracle hands back byte strings no longer than its input *)
Definition ber_ok (ber_ts_request : bytes -> option (list bytes)) (ber_ts_validate : bytes -> option bytes) : Prop :=
  (forall i toks, wf_bytes i -> ber_ts_request i = Some toks -> Forall (fun t => wf_bytes t /\ nlen t <= nlen i) toks) /\
  (forall i k, wf_bytes i -> ber_ts_validate i = Some k -> wf_bytes k /\ nlen k <= nlen i).

Lemma ts_server_challenge_total ber i : nocrash (read_ts_server_challenge ber i).
Proof. unfold read_ts_server_challenge. destruct (ber i) as [[|t tl]|]; auto. Qed.

Lemma ts_validate_total ber i : nocrash (read_ts_validate ber i).
Proof. unfold read_ts_validate. destruct (ber i); auto. Qed.

Lemma challenge_total_alloc :
  forall p (rc4st : Type) hmac_md5 md5 (rc4_init : bytes -> rc4st) rc4_run st neg request cc sk,
    crypto_ok hmac_md5 md5 rc4_run ->
    wf_bytes request -> nego_msg st = Some neg -> nlen cc = 8 -> nlen sk = 16 -> creds_small (cr st) ->
    let r := read_challenge_message p hmac_md5 rc4st rc4_init rc4_run st request cc sk in
    nocrash (snd r) /\ fst r <= nlen request + nlen neg + creds_len (cr st) + 140000.
Proof.
  intros p rc4st hmac_md5 md5 rc4_init rc4_run st neg request cc sk [H1 [H2 H3]] Hwf Hneg Hcc Hsk Hcr r.
  destruct (rcm_good p hmac_md5 rc4st rc4_init rc4_run H1 H3 st neg request cc sk Hwf Hneg Hcc Hsk Hcr) as [G1 [G2 _]].
  split; [exact G1|exact G2].
Qed.

Lemma unwrap_total_alloc :
  forall p (rc4st : Type) hmac_md5 md5 (rc4_run : rc4st -> bytes -> rc4st * bytes) si data,
    crypto_ok hmac_md5 md5 rc4_run -> wf_bytes data ->
    let r := gss_unwrapex p hmac_md5 rc4st rc4_run si data in
    nocrash (snd r) /\ fst r <= nlen data + 4.
Proof.
  intros p rc4st hmac_md5 md5 rc4_run si data [H1 [H2 H3]] Hwf r.
  destruct (unwrap_good p hmac_md5 rc4st rc4_run H1 H3 si data Hwf) as [G1 [G2 _]]. split; [exact G1|exact G2].
Qed.

Lemma cssp_total_alloc :
  forall p ber_req ber_val (rc4st : Type) hmac_md5 md5 (rc4_init : bytes -> rc4st) rc4_run
         st restricted cert cc sk input sched,
    crypto_ok hmac_md5 md5 rc4_run -> ber_ok ber_req ber_val ->
    Forall wf_bytes input -> nlen cc = 8 -> nlen sk = 16 -> creds_small (cr st) ->
    let r := cssp_connect p ber_req ber_val hmac_md5 md5 rc4st rc4_init rc4_run st restricted cert cc sk input sched in
    nocrash (c_out r) /\ c_alloc r <= creds_len (cr st) + cert_len cert + 150000.
Proof.
  intros p ber_req ber_val rc4st hmac_md5 md5 rc4_init rc4_run st restricted cert cc sk input sched
         [H1 [H2 H3]] [B1 B2] Hin Hcc Hsk Hcr r.
  exact (cssp_good p ber_req ber_val hmac_md5 md5 rc4st rc4_init rc4_run H1 H2 H3 B1 B2 st restricted cert cc sk input sched Hin Hcc Hsk Hcr).
Qed.
