(* C18, PER part, the OTHER direction: what a reader of core/per.rs (model Per.v) accepted
   is written back by the matching writer to exactly the bytes read -- for every input in
   the reader's CANONICAL set, a decidable condition on the bytes stated per primitive
   ([canon_*]); outside it the reader still answers (leniencies, listed below) and the
   writer provably produces different bytes.  Also: every reader agrees with the reference
   decoder of RefPer.v / RefPerDec.v wherever the reference accepts, and the reference
   decoders invert the reference encoders.

   Leniencies of the readers (accepted, but never produced by the writers / the reference):
     length         two-octet form for a value below 128            (80 05 read as 5)
     integer        non-minimal size class (02 00 05, 04 00 00 00 05), two-octet length (80 01 05)
     object id      two-octet length; first octet >= 120 split as /40 and %40; arcs >= 128 taken
                    as single octets (the reader only compares, the writer refuses such arcs)
     octet stream   two-octet length
     numeric string two-octet length; nibbles 10..15 (read as ':'..'?'); non-zero pad nibble
     padding        any octet values, and fewer octets than asked *)
From RdpV Require Import Base Sweep Per RefPer RefPerDec C18_per_proofs Canon C18_inv_base.
Open Scope list_scope.
Open Scope N_scope.

Ltac Zify.zify_post_hook ::= Z.to_euclidean_division_equations.

(* ================================================================ bit facts on octets *)
Lemma land_hi b : 128 <= b -> b < 256 -> N.land b 128 = 128 /\ N.land b 127 = b - 128.
Proof.
  intros H1 H2. replace b with (128 + (b - 128)) at 1 2 by lia. apply land128_hi. lia.
Qed.

(* ================================================================ length determinant *)
Lemma read_length_inv bs n rest : all_bytes bs = true -> per_read_length bs = Ok (n, rest) ->
  (n < 128 /\ bs = n :: rest) \/
  (exists h l, h < 128 /\ l < 256 /\ bs = (128 + h) :: l :: rest /\ n = h * 256 + l).
Proof.
  intros Hb Hr. destruct bs as [|b r]; [discriminate|].
  apply all_bytes_cons in Hb. destruct Hb as [Hb Hr'].
  destruct (N.lt_ge_cases b 128) as [Hs|Hs].
  - rewrite read_length_small in Hr by exact Hs. injection Hr as <- <-. left. split; [exact Hs|reflexivity].
  - right. destruct r as [|l r2].
    + exfalso. unfold per_read_length in Hr. cbn [rd_u8 obind] in Hr.
      destruct (land_hi b Hs Hb) as [E _]. rewrite E in Hr. cbn in Hr. discriminate.
    + apply all_bytes_cons in Hr'. destruct Hr' as [Hl _].
      replace b with (128 + (b - 128)) in Hr by lia. rewrite read_length_two in Hr by lia.
      injection Hr as <- <-. exists (b - 128), l. repeat split; try lia. f_equal. lia.
Qed.

Theorem per_length_inverse bs n rest : all_bytes bs = true -> per_read_length bs = Ok (n, rest) ->
  n < 32768 /\ (per_write_length n ++ rest = bs <-> canon_length bs = true).
Proof.
  intros Hb Hr. destruct (read_length_inv bs n rest Hb Hr) as [[Hn ->]|(h & l & Hh & Hl & -> & ->)].
  - split; [lia|]. rewrite write_length_small by exact Hn. cbn [app canon_length].
    apply N.ltb_lt in Hn. rewrite Hn. cbn [orb]. tauto.
  - split; [lia|]. cbn [canon_length].
    destruct (N.ltb_spec (128 + h) 128) as [?|_]; [lia|]. cbn [orb].
    replace ((128 + h - 128) * 256 + l) with (h * 256 + l) by lia.
    destruct (N.leb_spec 128 (h * 256 + l)) as [Hge|Hlt].
    + rewrite write_length_mid by lia. cbn [app].
      replace ((h * 256 + l) / 256) with h by lia. replace ((h * 256 + l) mod 256) with l by lia. tauto.
    + rewrite write_length_small by lia. cbn [app]. split; [|discriminate].
      intros E. assert (E1 : h * 256 + l = 128 + h) by congruence. lia.
Qed.

(* the model reader IS the reference decoder on every octet string *)
Theorem per_length_ref_dec bs : all_bytes bs = true ->
  per_read_length bs = match ref_dec_length bs with Some x => Ok x | None => Err EIo end.
Proof.
  intros Hb. destruct bs as [|b r]; [reflexivity|].
  apply all_bytes_cons in Hb. destruct Hb as [Hb Hr]. cbn [ref_dec_length].
  destruct (N.ltb_spec b 128) as [Hs|Hs].
  - apply read_length_small. exact Hs.
  - destruct r as [|l r2].
    + unfold per_read_length. cbn [rd_u8 obind]. destruct (land_hi b Hs Hb) as [E _]. rewrite E. reflexivity.
    + replace b with (128 + (b - 128)) at 1 by lia. rewrite read_length_two by lia. reflexivity.
Qed.

(* ================================================================ one-octet primitives: always canonical *)
Theorem per_one_octet_inverse bs c rest : rd_u8 bs = Ok (c, rest) -> [c] ++ rest = bs.
Proof. destruct bs as [|b r]; [discriminate|]. cbn. intros [= <- <-]. reflexivity. Qed.

(* ================================================================ integer *)
Lemma be16_bytes a b : a < 256 -> b < 256 -> be16 (of_be16 a b) = [a; b].
Proof. intros Ha Hb. unfold be16, of_be16, u16_hi, u16_lo. f_equal; [lia|f_equal; lia]. Qed.

Lemma be32_bytes a b c d : a < 256 -> b < 256 -> c < 256 -> d < 256 -> be32 (of_be32 a b c d) = [a; b; c; d].
Proof. intros Ha Hb Hc Hd. unfold be32, of_be32. repeat (f_equal; try lia). Qed.

Lemma write_integer_1 n : n < 256 -> per_write_integer n = [1; n].
Proof. intros H. unfold per_write_integer. destruct (N.leb_spec n 255); [reflexivity|lia]. Qed.
Lemma write_integer_2 n : 256 <= n -> n < 65536 -> per_write_integer n = 2 :: be16 n.
Proof.
  intros H1 H2. unfold per_write_integer. destruct (N.leb_spec n 255); [lia|].
  destruct (N.leb_spec n 65535); [reflexivity|lia].
Qed.
Lemma write_integer_4 n : 65536 <= n -> per_write_integer n = 4 :: be32 n.
Proof.
  intros H1. unfold per_write_integer. destruct (N.leb_spec n 255); [lia|].
  destruct (N.leb_spec n 65535); [lia|reflexivity].
Qed.

(* the first octet of what write_integer emits is its size class *)
Lemma write_integer_head n : exists s tl, per_write_integer n = s :: tl /\
  ((s = 1 /\ n < 256) \/ (s = 2 /\ 256 <= n < 65536) \/ (s = 4 /\ 65536 <= n)).
Proof.
  destruct (N.lt_ge_cases n 256) as [H1|H1]; [|destruct (N.lt_ge_cases n 65536) as [H2|H2]].
  - rewrite write_integer_1 by exact H1. eexists _, _. split; [reflexivity|]. left. split; [reflexivity|exact H1].
  - rewrite write_integer_2 by assumption. eexists _, _. split; [reflexivity|]. right. left. split; [reflexivity|lia].
  - rewrite write_integer_4 by assumption. eexists _, _. split; [reflexivity|]. right. right. split; [reflexivity|lia].
Qed.

Lemma read_integer_body_bound size r n rest : all_bytes r = true ->
  (if size =? 1 then rd_u8 r else if size =? 2 then rd_u16be r else if size =? 4 then rd_u32be r else Err EInvalidSize)
    = Ok (n, rest) -> n < 4294967296.
Proof.
  intros Hb Hr.
  destruct (size =? 1); [|destruct (size =? 2); [|destruct (size =? 4); [|discriminate]]].
  - destruct r as [|a r1]; [discriminate|]. cbn [rd_u8] in Hr. injection Hr as <- <-.
    apply all_bytes_cons in Hb. lia.
  - destruct r as [|a [|b r2]]; try discriminate. cbn [rd_u16be] in Hr. injection Hr as <- <-.
    apply all_bytes_cons in Hb. destruct Hb as [Ha Hb]. apply all_bytes_cons in Hb. unfold of_be16. lia.
  - destruct r as [|a [|b [|c [|d r4]]]]; try discriminate. cbn [rd_u32be] in Hr. injection Hr as <- <-.
    apply all_bytes_cons in Hb. destruct Hb as [Ha Hb]. apply all_bytes_cons in Hb. destruct Hb as [Hb' Hb].
    apply all_bytes_cons in Hb. destruct Hb as [Hc Hb]. apply all_bytes_cons in Hb. unfold of_be32. lia.
Qed.

Theorem per_integer_inverse bs n rest : all_bytes bs = true -> per_read_integer bs = Ok (n, rest) ->
  n < 4294967296 /\ (per_write_integer n ++ rest = bs <-> canon_integer bs = true).
Proof.
  intros Hb Hr. unfold per_read_integer in Hr.
  destruct (per_read_length bs) as [[size r]| | |] eqn:Hl; try discriminate. cbn [obind] in Hr.
  destruct (read_length_inv bs size r Hb Hl) as [[Hs ->]|(h & l & Hh & Hl' & -> & ->)].
  - (* one-octet length determinant *)
    apply all_bytes_cons in Hb. destruct Hb as [_ Hb].
    split; [exact (read_integer_body_bound size r n rest Hb Hr)|]. cbn [canon_integer].
    destruct (N.eqb_spec size 1) as [->|N1]; [|destruct (N.eqb_spec size 2) as [->|N2]; [|destruct (N.eqb_spec size 4) as [->|N4]]].
    + destruct r as [|a r1]; [discriminate|]. cbn [rd_u8] in Hr. injection Hr as <- <-.
      apply all_bytes_cons in Hb. destruct Hb as [Ha _].
      rewrite write_integer_1 by exact Ha. cbn [app]. tauto.
    + destruct r as [|a [|b r2]]; try discriminate. cbn [rd_u16be] in Hr. injection Hr as <- <-.
      apply all_bytes_cons in Hb. destruct Hb as [Ha Hb]. apply all_bytes_cons in Hb. destruct Hb as [Hb' _].
      destruct (N.eqb_spec a 0) as [->|Na]; cbn [negb].
      * split; [|discriminate]. intros E. exfalso.
        assert (Hv : of_be16 0 b < 256) by (unfold of_be16; lia).
        rewrite write_integer_1 in E by exact Hv. cbn [app] in E. discriminate.
      * assert (Hv : 256 <= of_be16 a b) by (unfold of_be16; lia).
        rewrite write_integer_2 by (unfold of_be16 in *; lia). rewrite be16_bytes by assumption. cbn [app]. tauto.
    + destruct r as [|a [|b [|c [|d r4]]]]; try discriminate. cbn [rd_u32be] in Hr. injection Hr as <- <-.
      apply all_bytes_cons in Hb. destruct Hb as [Ha Hb]. apply all_bytes_cons in Hb. destruct Hb as [Hb' Hb].
      apply all_bytes_cons in Hb. destruct Hb as [Hc Hb]. apply all_bytes_cons in Hb. destruct Hb as [Hd _].
      destruct (N.eqb_spec a 0) as [->|Na]; [destruct (N.eqb_spec b 0) as [->|Nb]|]; cbn [andb negb].
      * split; [|discriminate]. intros E. exfalso.
        destruct (write_integer_head (of_be32 0 0 c d)) as (s & tl & Ew & [[-> _]|[[-> _]|[-> Hge]]]);
          rewrite Ew in E; cbn [app] in E; try discriminate.
        unfold of_be32 in Hge. lia.
      * assert (Hv : 65536 <= of_be32 0 b c d) by (unfold of_be32; lia).
        rewrite write_integer_4 by exact Hv. rewrite be32_bytes by (assumption || lia). cbn [app]. tauto.
      * assert (Hv : 65536 <= of_be32 a b c d) by (unfold of_be32; lia).
        rewrite write_integer_4 by exact Hv. rewrite be32_bytes by assumption. cbn [app]. tauto.
    + discriminate.
  - (* two-octet length determinant: accepted, never canonical *)
    apply all_bytes_cons in Hb. destruct Hb as [_ Hb]. apply all_bytes_cons in Hb. destruct Hb as [_ Hb].
    split; [exact (read_integer_body_bound _ r n rest Hb Hr)|]. cbn [canon_integer].
    destruct (N.eqb_spec (128 + h) 1); [lia|]. destruct (N.eqb_spec (128 + h) 2); [lia|].
    destruct (N.eqb_spec (128 + h) 4); [lia|]. split; [|discriminate].
    intros E. exfalso.
    destruct (write_integer_head n) as (s & tl & Ew & Hs). rewrite Ew in E. cbn [app] in E.
    assert (E1 : s = 128 + h) by congruence. lia.
Qed.

(* ---- the reference decoder accepts exactly what the reader accepts, with the same value ---- *)
Lemma rtake_app a rest : rtake (nlen a) (a ++ rest) = Some (a, rest).
Proof.
  unfold rtake. rewrite nlen_app. destruct (N.leb_spec (nlen a) (nlen a + nlen rest)); [|lia].
  unfold nlen. rewrite Nat2N.id, firstn_app, skipn_app, Nat.sub_diag, firstn_all, skipn_all. cbn [firstn skipn].
  now rewrite app_nil_r.
Qed.

Lemma rtake_inv n i a rest : rtake n i = Some (a, rest) -> i = a ++ rest /\ nlen a = n.
Proof.
  unfold rtake. destruct (N.leb_spec n (nlen i)) as [H|]; [|discriminate]. intros [= <- <-].
  split; [symmetry; apply firstn_skipn|]. apply firstn_skipn_nlen. exact H.
Qed.

Lemma of_be_octets_1 a : of_be_octets [a] = a.
Proof. cbn [of_be_octets]. change (nlen (@nil N)) with 0. rewrite N.pow_0_r. lia. Qed.
Lemma of_be_octets_2 a b : of_be_octets [a; b] = of_be16 a b.
Proof. cbn [of_be_octets]. change (nlen [b]) with 1. change (nlen (@nil N)) with 0. unfold of_be16. rewrite N.pow_0_r, N.pow_1_r. lia. Qed.
Lemma of_be_octets_4 a b c d : of_be_octets [a; b; c; d] = of_be32 a b c d.
Proof.
  cbn [of_be_octets]. change (nlen [b; c; d]) with 3. change (nlen [c; d]) with 2. change (nlen [d]) with 1.
  change (nlen (@nil N)) with 0. unfold of_be32. change (256 ^ 3) with 16777216. change (256 ^ 2) with 65536.
  rewrite N.pow_0_r, N.pow_1_r. lia.
Qed.

Theorem per_integer_ref_dec bs x : all_bytes bs = true ->
  (per_read_integer bs = Ok x <-> ref_dec_integer bs = Some x).
Proof.
  intros Hb. unfold per_read_integer, ref_dec_integer. rewrite (per_length_ref_dec bs Hb).
  destruct (ref_dec_length bs) as [[l r]|]; cbn [obind]; [|split; discriminate].
  destruct (N.eqb_spec l 1) as [->|N1]; [|destruct (N.eqb_spec l 2) as [->|N2]; [|destruct (N.eqb_spec l 4) as [->|N4]]];
    cbn [orb].
  - destruct r as [|a r1]; [split; discriminate|]. change (a :: r1) with ([a] ++ r1) at 2.
    change 1 with (nlen [a]) at 1. rewrite rtake_app, of_be_octets_1. cbn [rd_u8]. split; intros [= <-]; reflexivity.
  - destruct r as [|a [|b r2]]; try (split; discriminate).
    change (a :: b :: r2) with ([a; b] ++ r2) at 2. change 2 with (nlen [a; b]) at 1.
    rewrite rtake_app, of_be_octets_2. cbn [rd_u16be]. split; intros [= <-]; reflexivity.
  - destruct r as [|a [|b [|c [|d r4]]]]; try (split; discriminate).
    change (a :: b :: c :: d :: r4) with ([a; b; c; d] ++ r4) at 2. change 4 with (nlen [a; b; c; d]) at 1.
    rewrite rtake_app, of_be_octets_4. cbn [rd_u32be]. split; intros [= <-]; reflexivity.
  - split; discriminate.
Qed.

(* ================================================================ integer_16: always canonical *)
Theorem per_integer_16_inverse p m bs v rest : all_bytes bs = true -> per_read_integer_16 m bs = Ok (v, rest) ->
  v < 65536 /\ exists b, per_write_integer_16 p v m = Ok b /\ b ++ rest = bs.
Proof.
  intros Hb Hr. unfold per_read_integer_16 in Hr. destruct bs as [|a [|b r]]; try discriminate.
  cbn [rd_u16be obind] in Hr.
  destruct (N.ltb_spec (of_be16 a b + m) 65536) as [Hlt|]; [|discriminate]. injection Hr as <- <-.
  apply all_bytes_cons in Hb. destruct Hb as [Ha Hb]. apply all_bytes_cons in Hb. destruct Hb as [Hb' _].
  split; [exact Hlt|]. exists [a; b]. split; [|reflexivity].
  rewrite per_integer_16_write by lia. replace (of_be16 a b + m - m) with (of_be16 a b) by lia.
  now rewrite be16_bytes.
Qed.

Theorem per_integer_16_ref_dec m bs x : per_read_integer_16 m bs = Ok x <-> ref_dec_integer_16 m bs = Some x.
Proof.
  unfold per_read_integer_16, ref_dec_integer_16. destruct bs as [|a [|b r]]; try (split; discriminate).
  cbn [rd_u16be obind]. unfold of_be16. rewrite (N.add_comm m).
  destruct (a * 256 + b + m <? 65536); split; intros [= <-]; reflexivity.
Qed.

(* ================================================================ object identifier *)
Lemma read_oid_inv oid bs rest : all_bytes bs = true -> per_read_object_identifier oid bs = Ok (true, rest) ->
  exists hdr t a2 a3 a4 a5, (hdr = [5] \/ hdr = [128; 5]) /\ bs = hdr ++ t :: a2 :: a3 :: a4 :: a5 :: rest /\
    oid = [t / 40; t mod 40; a2; a3; a4; a5] /\ t < 256.
Proof.
  intros Hb Hr. unfold per_read_object_identifier in Hr.
  destruct (nlen oid =? 6); [|discriminate]. cbn [negb] in Hr.
  destruct (per_read_length bs) as [[len r]| | |] eqn:Hl; try discriminate. cbn [obind] in Hr.
  destruct (N.eqb_spec len 5) as [->|]; [|discriminate]. cbn [negb] in Hr.
  destruct r as [|t [|a2 [|a3 [|a4 [|a5 r5]]]]]; try discriminate.
  cbn [rd_u8 obind] in Hr. injection Hr as Hq <-. apply oid_eqb_eq in Hq.
  destruct (read_length_inv bs 5 _ Hb Hl) as [[_ E]|(h & l & Hh & Hl' & E & En)].
  - exists [5], t, a2, a3, a4, a5. rewrite E in Hb. apply all_bytes_cons in Hb. destruct Hb as [_ Hb].
    apply all_bytes_cons in Hb. repeat split; auto; tauto.
  - assert (h = 0 /\ l = 5) as [-> ->] by lia.
    exists [128; 5], t, a2, a3, a4, a5. rewrite E in Hb. apply all_bytes_cons in Hb. destruct Hb as [_ Hb].
    apply all_bytes_cons in Hb. destruct Hb as [_ Hb]. apply all_bytes_cons in Hb. repeat split; auto; tauto.
Qed.

Theorem per_oid_inverse oid bs rest : all_bytes bs = true -> per_read_object_identifier oid bs = Ok (true, rest) ->
  ((exists b, per_write_object_identifier oid = Ok b /\ b ++ rest = bs) <-> canon_oid bs = true).
Proof.
  intros Hb Hr. destruct (read_oid_inv oid bs rest Hb Hr) as (hdr & t & a2 & a3 & a4 & a5 & Hh & -> & -> & Ht).
  cbn [per_write_object_identifier existsb].
  assert (Hm : (39 <? t mod 40) = false) by (apply N.ltb_ge; lia).
  rewrite Hm. cbn [orb].
  destruct Hh as [->| ->]; cbn [app canon_oid].
  - change (5 =? 5) with true. cbn [andb].
    destruct (N.ltb_spec t 120) as [H0|H0]; [destruct (N.ltb_spec 2 (t / 40)); [lia|]|destruct (N.ltb_spec 2 (t / 40)); [|lia]];
      cbn [orb andb]; [|split; [intros (b & Hw & _); discriminate|discriminate]].
    destruct (N.ltb_spec a2 128), (N.ltb_spec 127 a2); try lia; cbn [orb andb];
      try (split; [intros (b & Hw & _); discriminate|discriminate]).
    destruct (N.ltb_spec a3 128), (N.ltb_spec 127 a3); try lia; cbn [orb andb];
      try (split; [intros (b & Hw & _); discriminate|discriminate]).
    destruct (N.ltb_spec a4 128), (N.ltb_spec 127 a4); try lia; cbn [orb andb];
      try (split; [intros (b & Hw & _); discriminate|discriminate]).
    destruct (N.ltb_spec a5 128), (N.ltb_spec 127 a5); try lia; cbn [orb andb];
      try (split; [intros (b & Hw & _); discriminate|discriminate]).
    split; [reflexivity|]. intros _. eexists. split; [reflexivity|]. cbn [app]. do 2 f_equal. lia.
  - change (128 =? 5) with false. cbn [andb]. split; [|discriminate].
    intros (b & Hw & E). exfalso.
    match type of Hw with (if ?c then _ else _) = _ => destruct c; [discriminate|] end.
    injection Hw as <-. cbn [app] in E. discriminate.
Qed.

(* ================================================================ octet stream *)
Lemma expect_octets_ok s : forall i rest, expect_octets s i = Ok (tt, rest) -> i = s ++ rest.
Proof.
  induction s as [|e s IH]; intros i rest H.
  - cbn in H. injection H as <-. reflexivity.
  - destruct i as [|c r]; [discriminate|]. cbn [expect_octets] in H.
    destruct (N.eqb_spec c e) as [->|]; [|discriminate]. cbn [app]. f_equal. apply IH, H.
Qed.

(* the reader compares with an expected string; canonical = canonical length determinant *)
Theorem per_octet_stream_inverse p s m bs rest : all_bytes bs = true -> m < min_bound ->
  per_read_octet_stream p s m bs = Ok (tt, rest) ->
  (per_write_octet_stream s m ++ rest = bs <-> canon_length bs = true).
Proof.
  unfold min_bound. intros Hb Hm Hr. unfold per_read_octet_stream in Hr.
  destruct (per_read_length bs) as [[l r]| | |] eqn:Hl; try discriminate. cbn [obind] in Hr.
  destruct (per_length_inverse bs l r Hb Hl) as [Hl32 Hiff].
  rewrite add64_ok in Hr by lia. cbn [obind] in Hr.
  destruct (N.eqb_spec (l + m) (nlen s)) as [En|]; [|discriminate]. cbn [negb] in Hr.
  apply expect_octets_ok in Hr. subst r.
  rewrite per_octet_stream_write by lia. replace (nlen s - m) with l by lia.
  rewrite <- app_assoc. exact Hiff.
Qed.

(* ================================================================ padding *)
Lemma all_zero_repeat l : forallb (N.eqb 0) l = true -> l = repeat 0 (List.length l).
Proof.
  induction l as [|x l IH]; [reflexivity|]. cbn [forallb List.length repeat]. rewrite andb_true_iff.
  intros [Hx Hl]. apply N.eqb_eq in Hx. subst x. f_equal. apply IH, Hl.
Qed.

Lemma repeat_all_zero n : forallb (N.eqb 0) (repeat 0 n) = true.
Proof. induction n as [|n IH]; [reflexivity|]. cbn [repeat forallb]. exact IH. Qed.

Theorem per_padding_inverse n bs rest : per_read_padding n bs = Ok (tt, rest) ->
  ((exists b, per_write_padding n = Ok b /\ b ++ rest = bs) <-> canon_padding n bs = true).
Proof.
  unfold per_read_padding, per_write_padding, canon_padding.
  destruct (per_isize_max <? n); [discriminate|]. intros [= <-]. split.
  - intros (b & [= <-] & E).
    assert (Hlen : nlen (repeat 0 (N.to_nat n)) = n) by (unfold nlen; rewrite repeat_length; lia).
    assert (Hle : n <= nlen bs).
    { rewrite <- E at 1. rewrite nlen_app, Hlen. lia. }
    apply andb_true_iff. split; [apply N.leb_le; exact Hle|].
    replace (N.min n (nlen bs)) with n in E by lia.
    rewrite <- (firstn_skipn (N.to_nat n) bs) in E at 2.
    apply app_inv_length in E; [|rewrite repeat_length, firstn_length; unfold nlen in Hle; lia].
    destruct E as [<- _]. apply repeat_all_zero.
  - rewrite andb_true_iff, N.leb_le. intros [Hle Hz]. eexists. split; [reflexivity|].
    replace (N.min n (nlen bs)) with n by lia.
    apply all_zero_repeat in Hz. rewrite firstn_length in Hz. unfold nlen in Hle.
    replace (Nat.min (N.to_nat n) (List.length bs)) with (N.to_nat n) in Hz by lia.
    rewrite <- Hz. apply firstn_skipn.
Qed.

(* ================================================================ numeric string *)
Lemma nat_ind2 (P : nat -> Prop) : P O -> P 1%nat -> (forall n, P n -> P (S (S n))) -> forall n, P n.
Proof. intros H0 H1 H2. fix F 1. intros [|[|n]]; [exact H0|exact H1|apply H2, F]. Qed.

(* what write_numeric_string emits for the string read_numeric_string returned *)
Fixpoint norm_digits (n : nat) (packed : bytes) : bytes :=
  match n, packed with
  | O, _ => []
  | S O, b :: _ => [(b / 16) mod 10 * 16]
  | S (S n'), b :: tl => ((b / 16) mod 10 * 16 + (b mod 16) mod 10) :: norm_digits n' tl
  | _, [] => []
  end.

Lemma digit_of_nibble p x : digit_of p (x + 48) = Ok (x mod 10).
Proof.
  unfold digit_of, sub_w. destruct (N.leb_spec 48 (x + 48)); [|lia]. cbn [obind]. do 2 f_equal. lia.
Qed.

Lemma land15 b : N.land b 15 = b mod 16.
Proof. change 15 with (N.ones 4). rewrite N.land_ones. reflexivity. Qed.

Lemma pack_unpack p : forall n packed, pack_digits p (unpack_digits n packed) = Ok (norm_digits n packed).
Proof.
  induction n as [| |n IH] using nat_ind2; intros packed.
  - reflexivity.
  - destruct packed as [|b tl]; [reflexivity|]. cbn [unpack_digits norm_digits pack_digits]. unfold pack2.
    rewrite digit_of_nibble, (digit_of_digit p 48 eq_refl). cbn [obind]. do 2 f_equal. lia.
  - destruct packed as [|b tl]; [reflexivity|]. cbn [unpack_digits norm_digits pack_digits]. unfold pack2.
    rewrite !digit_of_nibble, IH, land15. reflexivity.
Qed.

Lemma unpack_len : forall n packed, List.length packed = Nat.div2 (S n) -> List.length (unpack_digits n packed) = n.
Proof.
  induction n as [| |n IH] using nat_ind2; intros packed Hl.
  - reflexivity.
  - destruct packed as [|b tl]; [discriminate|]. reflexivity.
  - destruct packed as [|b tl]; [discriminate|]. cbn [unpack_digits List.length]. rewrite IH; [reflexivity|].
    cbn [Nat.div2 List.length] in Hl. cbn [Nat.div2]. lia.
Qed.

Lemma norm_ok : forall n packed, all_bytes packed = true -> List.length packed = Nat.div2 (S n) ->
  (norm_digits n packed = packed <-> nibbles_ok n packed = true).
Proof.
  induction n as [| |n IH] using nat_ind2; intros packed Hb Hl.
  - destruct packed; [|discriminate]. cbn. tauto.
  - destruct packed as [|b [|c tl]]; try discriminate. apply all_bytes_cons in Hb. destruct Hb as [Hb _].
    cbn [norm_digits nibbles_ok]. rewrite andb_true_iff, N.ltb_lt, N.eqb_eq. split.
    + intros [= E]. lia.
    + intros [H1 H2]. f_equal. lia.
  - destruct packed as [|b tl]; [discriminate|]. apply all_bytes_cons in Hb. destruct Hb as [Hb Htl].
    cbn [Nat.div2 List.length] in Hl.
    assert (Hl' : List.length tl = Nat.div2 (S n)) by (cbn [Nat.div2]; lia).
    cbn [norm_digits nibbles_ok]. rewrite !andb_true_iff, !N.ltb_lt. split.
    + intros [= E1 E2]. split; [lia|]. apply (IH tl Htl Hl'). exact E2.
    + intros [[H1 H2] H3]. f_equal; [lia|]. apply (IH tl Htl Hl'). exact H3.
Qed.

Lemma nibbles_ok_app : forall n packed rest, List.length packed = Nat.div2 (S n) ->
  nibbles_ok n (packed ++ rest) = nibbles_ok n packed.
Proof.
  induction n as [| |n IH] using nat_ind2; intros packed rest Hl.
  - reflexivity.
  - destruct packed as [|b tl]; [discriminate|]. reflexivity.
  - destruct packed as [|b tl]; [discriminate|]. cbn [app nibbles_ok]. rewrite IH; [reflexivity|].
    cbn [Nat.div2 List.length] in Hl. cbn [Nat.div2]. lia.
Qed.

Lemma ntake_inv n i a rest : ntake n i = Some (a, rest) -> i = a ++ rest /\ nlen a = n.
Proof.
  unfold ntake. destruct (N.leb_spec n (nlen i)) as [H|]; [|discriminate]. intros [= <- <-].
  split; [symmetry; apply firstn_skipn|]. apply firstn_skipn_nlen. exact H.
Qed.

Lemma half_to_nat n : N.to_nat ((n + 1) / 2) = Nat.div2 (S (N.to_nat n)).
Proof.
  rewrite Nat.div2_div. rewrite N2Nat.inj_div, N2Nat.inj_add. change (N.to_nat 1) with 1%nat.
  change (N.to_nat 2) with 2%nat. f_equal. lia.
Qed.

Lemma read_length_ref bs l r : all_bytes bs = true -> per_read_length bs = Ok (l, r) -> ref_dec_length bs = Some (l, r).
Proof.
  intros Hb H. rewrite (per_length_ref_dec bs Hb) in H. destruct (ref_dec_length bs); [congruence|discriminate].
Qed.

(* the parts of a successful read_numeric_string *)
Lemma read_numeric_inv p m bs s rest : all_bytes bs = true -> m < min_bound ->
  per_read_numeric_string p m bs = Ok (s, rest) ->
  exists l r packed, per_read_length bs = Ok (l, r) /\ l < 32768 /\ r = packed ++ rest /\
    List.length packed = Nat.div2 (S (N.to_nat (l + m))) /\ s = unpack_digits (N.to_nat (l + m)) packed.
Proof.
  unfold min_bound. intros Hb Hm Hr. unfold per_read_numeric_string in Hr.
  destruct (per_read_length bs) as [[l r]| | |] eqn:Hl; try discriminate. cbn [obind] in Hr.
  destruct (per_length_inverse bs l r Hb Hl) as [Hl32 _].
  rewrite add64_ok in Hr by lia. cbn [obind] in Hr. rewrite add64_ok in Hr by lia. cbn [obind] in Hr.
  destruct (ntake ((l + m + 1) / 2) r) as [[packed rest']|] eqn:Ht; [|discriminate].
  destruct (per_isize_max <? l + m); [discriminate|]. injection Hr as <- <-.
  apply ntake_inv in Ht. destruct Ht as [-> Hn].
  exists l, (packed ++ rest'), packed. repeat split; auto.
  rewrite <- half_to_nat, <- Hn. unfold nlen. now rewrite Nat2N.id.
Qed.

Theorem per_numeric_string_inverse p m bs s rest : all_bytes bs = true -> m < min_bound ->
  per_read_numeric_string p m bs = Ok (s, rest) ->
  ((exists b, per_write_numeric_string p s m = Ok b /\ b ++ rest = bs) <-> canon_numeric m bs = true).
Proof.
  intros Hb Hm Hr.
  destruct (read_numeric_inv p m bs s rest Hb Hm Hr) as (l & r & packed & Hl & Hl32 & -> & Hlen & ->).
  set (n := N.to_nat (l + m)) in *.
  assert (Hw : per_write_numeric_string p (unpack_digits n packed) m = Ok (per_write_length l ++ norm_digits n packed)).
  { unfold per_write_numeric_string. rewrite pack_unpack. cbn [obind].
    assert (E : nlen (unpack_digits n packed) = l + m) by (unfold nlen; rewrite (unpack_len n packed Hlen); unfold n; lia).
    rewrite E. destruct (N.leb_spec m (l + m)); [|lia]. replace (l + m - m) with l by lia.
    rewrite N.mod_small by lia. reflexivity. }
  rewrite Hw. unfold canon_numeric. rewrite (read_length_ref bs l _ Hb Hl). fold n.
  rewrite (nibbles_ok_app n packed rest Hlen).
  assert (Hbp : all_bytes packed = true).
  { destruct (read_length_inv bs l _ Hb Hl) as [[_ E]|(h & l' & _ & _ & E & _)]; rewrite E in Hb.
    - apply all_bytes_cons in Hb. destruct Hb as [_ Hb]. apply all_bytes_app in Hb. tauto.
    - apply all_bytes_cons in Hb. destruct Hb as [_ Hb]. apply all_bytes_cons in Hb. destruct Hb as [_ Hb].
      apply all_bytes_app in Hb. tauto. }
  pose proof (norm_ok n packed Hbp Hlen) as Hnorm.
  destruct (per_length_inverse bs l _ Hb Hl) as [_ Hcl].
  split.
  - intros (b & [= <-] & E). apply andb_true_iff.
    (* the length octets written and read have the same length, hence are equal *)
    destruct (read_length_inv bs l _ Hb Hl) as [[Hs E']|(h & l' & Hh & Hl' & E' & En)].
    + split; [rewrite E'; cbn [canon_length]; apply N.ltb_lt in Hs; rewrite Hs; reflexivity|].
      apply Hnorm. rewrite E' in E. rewrite write_length_small in E by exact Hs. cbn [app] in E.
      injection E as E. apply app_inv_tail in E. exact E.
    + destruct (N.lt_ge_cases l 128) as [Hs|Hs].
      * exfalso. rewrite E' in E. rewrite write_length_small in E by exact Hs. cbn [app] in E.
        assert (l = 128 + h) by congruence. lia.
      * split; [apply Hcl; rewrite E'; rewrite write_length_mid by lia; cbn [app]; subst l; do 2 f_equal; lia|].
        apply Hnorm. rewrite E' in E. rewrite write_length_mid in E by lia. cbn [app] in E.
        injection E as _ _ E. apply app_inv_tail in E. exact E.
  - rewrite andb_true_iff. intros [Hc Hn]. eexists. split; [reflexivity|].
    apply Hnorm in Hn. rewrite Hn. rewrite <- app_assoc. apply Hcl. exact Hc.
Qed.

(* ================================================================ agreement with the reference DECODERS *)
(* ---- octet string: whatever the reference decodes, the reader accepts against that very string ---- *)
Theorem per_octet_stream_ref_dec p m bs s rest : all_bytes bs = true -> m < min_bound ->
  ref_dec_octet_string m bs = Some (s, rest) -> per_read_octet_stream p s m bs = Ok (tt, rest).
Proof.
  unfold min_bound. intros Hb Hm Hd. unfold ref_dec_octet_string in Hd. unfold per_read_octet_stream.
  rewrite (per_length_ref_dec bs Hb). destruct (ref_dec_length bs) as [[l r]|] eqn:Hl; [|discriminate]. cbn [obind].
  apply rtake_inv in Hd. destruct Hd as [-> Hn].
  assert (Hl32 : l < 32768).
  { assert (H : per_read_length bs = Ok (l, s ++ rest)) by (rewrite (per_length_ref_dec bs Hb), Hl; reflexivity).
    apply (per_length_inverse bs l _ Hb H). }
  rewrite add64_ok by lia. cbn [obind]. rewrite Hn, N.eqb_refl. cbn [negb]. apply expect_octets_self.
Qed.

(* ---- numeric string: the reference is strict on the alphabet and the pad nibble; where it accepts,
        the reader returns the same string ---- *)
Lemma ref_unpack_unpack : forall n packed s, ref_unpack n packed = Some s -> unpack_digits n packed = s.
Proof.
  induction n as [| |n IH] using nat_ind2; intros packed s H.
  - destruct packed; [|discriminate]. cbn in H. injection H as <-. reflexivity.
  - destruct packed as [|b [|c tl]]; try discriminate. cbn [ref_unpack] in H.
    destruct ((b / 16 <? 10) && (b mod 16 =? 0)); [|discriminate]. injection H as <-.
    reflexivity.
  - destruct packed as [|b tl]; [discriminate|]. cbn [ref_unpack] in H.
    destruct ((b / 16 <? 10) && (b mod 16 <? 10)); [|discriminate].
    destruct (ref_unpack n tl) as [s'|] eqn:E; [|discriminate]. injection H as <-.
    cbn [unpack_digits]. rewrite (IH tl s' E), land15. reflexivity.
Qed.

Theorem per_numeric_string_ref_dec p m bs s rest : all_bytes bs = true -> m < min_bound ->
  ref_dec_numeric_string m bs = Some (s, rest) -> per_read_numeric_string p m bs = Ok (s, rest).
Proof.
  unfold min_bound. intros Hb Hm Hd. unfold ref_dec_numeric_string in Hd. unfold per_read_numeric_string.
  rewrite (per_length_ref_dec bs Hb). destruct (ref_dec_length bs) as [[l r]|] eqn:Hl; [|discriminate]. cbn [obind].
  assert (Hl32 : l < 32768).
  { assert (H : per_read_length bs = Ok (l, r)) by (rewrite (per_length_ref_dec bs Hb), Hl; reflexivity).
    apply (per_length_inverse bs l _ Hb H). }
  rewrite add64_ok by lia. cbn [obind]. rewrite add64_ok by lia. cbn [obind].
  change (ntake ((l + m + 1) / 2) r) with (rtake ((l + m + 1) / 2) r).
  destruct (rtake ((l + m + 1) / 2) r) as [[packed rest']|]; [|discriminate].
  destruct (ref_unpack (N.to_nat (l + m)) packed) as [s'|] eqn:Hu; [|discriminate]. injection Hd as <- <-.
  destruct (N.ltb_spec per_isize_max (l + m)); [unfold per_isize_max in *; lia|].
  rewrite (ref_unpack_unpack _ _ _ Hu). reflexivity.
Qed.

(* ---- object identifier: a reference-decoded identifier inside the codec's domain is recognised, and
        told apart from every other 6-arc identifier ---- *)
Lemma dec_arcs_some_ge : forall c a arcs, ref_dec_arcs (Some a) c = Some arcs ->
  exists x tl, arcs = x :: tl /\ a * 128 <= x.
Proof.
  induction c as [|b c IH]; intros a arcs H; [discriminate|].
  cbn [ref_dec_arcs] in H. destruct (b <? 128).
  - destruct (ref_dec_arcs None c); [|discriminate]. injection H as <-. eexists _, _. split; [reflexivity|]. lia.
  - destruct (IH _ _ H) as (x & tl & -> & Hx). eexists _, _. split; [reflexivity|]. lia.
Qed.

Lemma dec_arcs_nil c : ref_dec_arcs None c = Some [] -> c = [].
Proof.
  destruct c as [|b c]; [reflexivity|]. cbn [ref_dec_arcs]. destruct (b =? 128); [discriminate|].
  destruct (b <? 128).
  - destruct (ref_dec_arcs None c); discriminate.
  - intros H. destruct (dec_arcs_some_ge _ _ _ H) as (x & tl & E & _). discriminate.
Qed.

Lemma dec_arcs_small b c x arcs : b < 256 -> ref_dec_arcs None (b :: c) = Some (x :: arcs) -> x < 128 ->
  b = x /\ ref_dec_arcs None c = Some arcs.
Proof.
  intros Hb H Hx. cbn [ref_dec_arcs] in H. destruct (N.eqb_spec b 128) as [|Nb]; [discriminate|].
  destruct (N.ltb_spec b 128) as [Hs|Hs].
  - destruct (ref_dec_arcs None c); [|discriminate]. injection H as <- <-. split; [lia|reflexivity].
  - exfalso. destruct (dec_arcs_some_ge _ _ _ H) as (y & tl & E & Hy). injection E as <- _. lia.
Qed.

Theorem per_oid_ref_dec bs arcs rest oid' : all_bytes bs = true ->
  ref_dec_oid bs = Some (arcs, rest) -> oid_in_domain arcs = true -> nlen oid' = 6 ->
  per_read_object_identifier oid' bs = Ok (oid_eqb arcs oid', rest).
Proof.
  intros Hb Hd Hdom Ho. unfold ref_dec_oid in Hd. unfold per_read_object_identifier.
  rewrite Ho. cbn [N.eqb Pos.eqb negb]. rewrite (per_length_ref_dec bs Hb).
  destruct (ref_dec_length bs) as [[l r]|] eqn:Hl; [|discriminate]. cbn [obind].
  destruct (rtake l r) as [[[|x c] rest']|] eqn:Ht; try discriminate.
  destruct (128 <=? x); [discriminate|].
  destruct (ref_dec_arcs None c) as [tl|] eqn:Ha; [|discriminate].
  remember (if x <? 40 then 0 else if x <? 80 then 1 else 2) as a0 eqn:Ea0.
  injection Hd as <- <-.
  apply rtake_inv in Ht. destruct Ht as [-> Hn].
  assert (Hbr : all_bytes ((x :: c) ++ rest') = true).
  { destruct bs as [|b0 bs']; [discriminate|]. cbn [ref_dec_length] in Hl.
    apply all_bytes_cons in Hb. destruct Hb as [_ Hb].
    destruct (b0 <? 128); [injection Hl as _ E; rewrite E in Hb; exact Hb|].
    destruct bs' as [|b1 bs'']; [discriminate|]. injection Hl as _ E. apply all_bytes_cons in Hb. destruct Hb as [_ Hb].
    rewrite E in Hb. exact Hb. }
  destruct tl as [|a2 [|a3 [|a4 [|a5 [|a6 tl]]]]]; try discriminate.
  cbn [oid_in_domain forallb] in Hdom. rewrite !andb_true_iff, !N.leb_le in Hdom.
  destruct Hdom as ((H0 & H1) & H2 & H3 & H4 & H5 & _).
  cbn [app] in Hbr. apply all_bytes_cons in Hbr. destruct Hbr as [Hx Hbr]. apply all_bytes_app in Hbr. destruct Hbr as [Hc _].
  destruct c as [|c2 c]; [discriminate|]. apply all_bytes_cons in Hc. destruct Hc as [Hc2 Hc].
  destruct (dec_arcs_small c2 c a2 _ Hc2 Ha ltac:(lia)) as [-> Ha3].
  destruct c as [|c3 c]; [discriminate|]. apply all_bytes_cons in Hc. destruct Hc as [Hc3 Hc].
  destruct (dec_arcs_small c3 c a3 _ Hc3 Ha3 ltac:(lia)) as [-> Ha4].
  destruct c as [|c4 c]; [discriminate|]. apply all_bytes_cons in Hc. destruct Hc as [Hc4 Hc].
  destruct (dec_arcs_small c4 c a4 _ Hc4 Ha4 ltac:(lia)) as [-> Ha5].
  destruct c as [|c5 c]; [discriminate|]. apply all_bytes_cons in Hc. destruct Hc as [Hc5 Hc].
  destruct (dec_arcs_small c5 c a5 _ Hc5 Ha5 ltac:(lia)) as [-> Ha6].
  apply dec_arcs_nil in Ha6. subst c.
  assert (l = 5) as -> by (rewrite <- Hn; reflexivity).
  cbn [N.eqb Pos.eqb negb app rd_u8 obind].
  assert (E0 : x / 40 = a0).
  { subst a0. destruct (N.ltb_spec x 40); [lia|]. destruct (N.ltb_spec x 80); lia. }
  assert (E1 : x mod 40 = x - 40 * a0) by lia.
  rewrite E0, E1. reflexivity.
Qed.

(* outside the codec's domain the reader and the reference part ways (no caller ever goes there: the
   only identifier compared is T.124's, and the comparison result is dropped): X.690 reads a first
   octet 125 as arcs 2.45, the reader as 3.5 *)
Example per_oid_outside_domain :
  ref_dec_oid [5; 125; 20; 124; 0; 1] = Some ([2; 45; 20; 124; 0; 1], []) /\
  per_read_object_identifier [2; 45; 20; 124; 0; 1] [5; 125; 20; 124; 0; 1] = Ok (false, []) /\
  per_read_object_identifier [3; 5; 20; 124; 0; 1] [5; 125; 20; 124; 0; 1] = Ok (true, []) /\
  per_write_object_identifier [2; 45; 20; 124; 0; 1] = Err EInvalidData.
Proof. vm_compute. repeat split. Qed.

(* ================================================================ the reference decoders invert the reference encoders *)
(* [Some x = Some b] without letting injection normalise x *)
Ltac some_eq b := let E := fresh "E" in intros E;
  match type of E with Some ?x = _ => let E' := fresh "E" in assert (E' : b = x) by congruence; subst b; clear E end.

Lemma ref_integer_dec n b rest : ref_integer n = Some b -> ref_dec_integer (b ++ rest) = Some (n, rest).
Proof.
  unfold ref_integer. destruct (N.ltb_spec n 256) as [H1|H1]; [|destruct (N.ltb_spec n 65536) as [H2|H2];
    [|destruct (N.ltb_spec n 4294967296) as [H3|H3]; [|discriminate]]]; some_eq b.
  - rewrite be_octets_1 by exact H1. cbn [app]. unfold ref_dec_integer. cbn [ref_dec_length N.ltb N.compare Pos.compare Pos.compare_cont].
    cbn [N.eqb Pos.eqb orb]. change (n :: rest) with ([n] ++ rest). change 1 with (nlen [n]) at 1.
    rewrite rtake_app, of_be_octets_1. reflexivity.
  - rewrite be_octets_2. unfold be16. cbn [app]. unfold ref_dec_integer. cbn [ref_dec_length N.ltb N.compare Pos.compare Pos.compare_cont].
    cbn [N.eqb Pos.eqb orb]. change (u16_hi n :: u16_lo n :: rest) with ([u16_hi n; u16_lo n] ++ rest).
    change 2 with (nlen [u16_hi n; u16_lo n]) at 1. rewrite rtake_app, of_be_octets_2, of_be16_enc by exact H2. reflexivity.
  - rewrite be_octets_4. unfold be32. cbn [app]. unfold ref_dec_integer. cbn [ref_dec_length N.ltb N.compare Pos.compare Pos.compare_cont].
    cbn [N.eqb Pos.eqb orb].
    match goal with |- context [rtake 4 (?a :: ?b :: ?c :: ?d :: rest)] =>
      change (a :: b :: c :: d :: rest) with ([a; b; c; d] ++ rest); change 4 with (nlen [a; b; c; d]) at 1 end.
    rewrite rtake_app, of_be_octets_4, of_be32_enc by exact H3. reflexivity.
Qed.

Lemma ref_integer_16_dec lower v b rest : ref_integer_16 lower v = Some b ->
  ref_dec_integer_16 lower (b ++ rest) = Some (v, rest).
Proof.
  unfold ref_integer_16. destruct (N.leb_spec lower v) as [H1|]; [|discriminate].
  destruct (N.ltb_spec v 65536) as [H2|]; [|discriminate]. cbn [andb]. some_eq b.
  rewrite be_octets_2. unfold be16. cbn [app ref_dec_integer_16].
  assert (E : u16_hi (v - lower) * 256 + u16_lo (v - lower) = v - lower) by (unfold u16_hi, u16_lo; lia).
  rewrite E. replace (lower + (v - lower)) with v by lia. destruct (N.ltb_spec v 65536); [reflexivity|lia].
Qed.

Lemma ref_octet_string_dec lower s b rest : ref_octet_string lower s = Some b ->
  ref_dec_octet_string lower (b ++ rest) = Some (s, rest).
Proof.
  unfold ref_octet_string. destruct (N.leb_spec lower (nlen s)) as [H1|]; [|discriminate].
  destruct (ref_length (nlen s - lower)) as [l|] eqn:El; [|discriminate]. some_eq b.
  unfold ref_dec_octet_string. rewrite <- app_assoc, (ref_length_roundtrip _ _ _ El).
  replace (nlen s - lower + lower) with (nlen s) by lia. apply rtake_app.
Qed.

Lemma ref_unpack_pack s : forallb is_digit s = true -> ref_unpack (List.length s) (ref_pack s) = Some s.
Proof.
  induction s as [|a|a b l IH] using list_ind2; [reflexivity| |].
  - cbn [forallb]. rewrite andb_true_r. intros Ha. apply is_digit_range in Ha.
    cbn [List.length ref_pack ref_unpack].
    assert (E1 : (a - 48) * 16 / 16 = a - 48) by lia. assert (E2 : ((a - 48) * 16) mod 16 = 0) by lia.
    rewrite E1, E2. destruct (N.ltb_spec (a - 48) 10); [|lia]. cbn [N.eqb andb]. do 2 f_equal. lia.
  - cbn [forallb]. rewrite !andb_true_iff. intros (Ha & Hb & Hl).
    apply is_digit_range in Ha. apply is_digit_range in Hb.
    cbn [List.length ref_pack ref_unpack]. rewrite (IH Hl).
    assert (E1 : ((a - 48) * 16 + (b - 48)) / 16 = a - 48) by lia.
    assert (E2 : ((a - 48) * 16 + (b - 48)) mod 16 = b - 48) by lia.
    rewrite E1, E2. destruct (N.ltb_spec (a - 48) 10); [|lia]. destruct (N.ltb_spec (b - 48) 10); [|lia].
    cbn [andb]. do 2 f_equal; [lia|]. f_equal. lia.
Qed.

Lemma ref_numeric_string_dec lower s b rest : ref_numeric_string lower s = Some b ->
  ref_dec_numeric_string lower (b ++ rest) = Some (s, rest).
Proof.
  unfold ref_numeric_string. destruct (forallb is_digit s) eqn:Hd; [|discriminate].
  destruct (N.leb_spec lower (nlen s)) as [H1|]; [|discriminate]. cbn [andb].
  destruct (ref_length (nlen s - lower)) as [l|] eqn:El; [|discriminate]. some_eq b.
  unfold ref_dec_numeric_string. rewrite <- app_assoc, (ref_length_roundtrip _ _ _ El).
  replace (nlen s - lower + lower) with (nlen s) by lia.
  rewrite <- ref_pack_len, rtake_app. unfold nlen at 1. rewrite Nat2N.id, (ref_unpack_pack s Hd). reflexivity.
Qed.

(* object identifiers whose arcs after the second fit two base-128 octets (RefPer.base128) *)
Lemma dec_arcs_base128 tl : Forall (fun a => a < 16384) tl -> ref_dec_arcs None (flat_map base128 tl) = Some tl.
Proof.
  induction tl as [|a tl IH]; intros HF; [reflexivity|].
  inversion HF as [|? ? Ha Htl]; subst. specialize (IH Htl). cbn [flat_map].
  change (base128 a) with (if a <? 128 then [a] else [128 + a / 128; a mod 128]).
  destruct (N.ltb_spec a 128) as [Hs|Hs]; cbn [app ref_dec_arcs].
  - destruct (N.eqb_spec a 128); [lia|]. destruct (N.ltb_spec a 128); [|lia]. rewrite IH. do 2 f_equal. lia.
  - destruct (N.eqb_spec (128 + a / 128) 128); [lia|]. destruct (N.ltb_spec (128 + a / 128) 128); [lia|].
    destruct (N.ltb_spec (a mod 128) 128); [|lia]. rewrite IH. do 2 f_equal. lia.
Qed.

Lemma ref_oid_dec arcs b rest : Forall (fun a => a < 16384) (skipn 2 arcs) -> ref_oid arcs = Some b ->
  ref_dec_oid (b ++ rest) = Some (arcs, rest).
Proof.
  destruct arcs as [|a0 [|a1 tl]]; try discriminate. cbn [skipn]. intros HF. cbn [ref_oid].
  destruct ((a0 <=? 2) && ((a1 <? 40) || (a0 =? 2)) && (40 * a0 + a1 <? 128)) eqn:Hc; [|discriminate].
  destruct (ref_length (nlen ([40 * a0 + a1] ++ flat_map base128 tl))) as [l|] eqn:El; [|discriminate]. some_eq b.
  unfold ref_dec_oid. rewrite <- app_assoc, (ref_length_roundtrip _ _ _ El), rtake_app. cbn [app].
  rewrite !andb_true_iff, N.leb_le, N.ltb_lt, orb_true_iff, N.ltb_lt, N.eqb_eq in Hc. destruct Hc as ((H0 & H1) & H2).
  destruct (N.leb_spec 128 (40 * a0 + a1)); [lia|]. rewrite (dec_arcs_base128 tl HF).
  assert (E0 : (if 40 * a0 + a1 <? 40 then 0 else if 40 * a0 + a1 <? 80 then 1 else 2) = a0).
  { destruct (N.ltb_spec (40 * a0 + a1) 40); [lia|]. destruct (N.ltb_spec (40 * a0 + a1) 80); lia. }
  rewrite E0. replace (40 * a0 + a1 - 40 * a0) with a1 by lia. reflexivity.
Qed.

(* ================================================================ non-vacuity: canonical inputs and every leniency, by computation *)
Example per_inverse_examples :
  (* canonical inputs read and written back *)
  (per_read_length [129; 16; 170] = Ok (272, [170]) /\ canon_length [129; 16; 170] = true /\ per_write_length 272 = [129; 16]) /\
  (per_read_integer [2; 1; 0; 170] = Ok (256, [170]) /\ canon_integer [2; 1; 0; 170] = true /\ per_write_integer 256 = [2; 1; 0]) /\
  (per_read_numeric_string Debug 1 [1; 18; 170] = Ok ([49; 50], [170]) /\ canon_numeric 1 [1; 18; 170] = true /\
   per_write_numeric_string Debug [49; 50] 1 = Ok [1; 18]) /\
  (* the leniencies: accepted, not canonical, written back differently *)
  (per_read_length [128; 5; 170] = Ok (5, [170]) /\ canon_length [128; 5; 170] = false /\ per_write_length 5 = [5]) /\
  (per_read_integer [2; 0; 5] = Ok (5, []) /\ canon_integer [2; 0; 5] = false /\ per_write_integer 5 = [1; 5]) /\
  (per_read_integer [4; 0; 0; 1; 0] = Ok (256, []) /\ canon_integer [4; 0; 0; 1; 0] = false) /\
  (per_read_integer [128; 1; 5] = Ok (5, []) /\ canon_integer [128; 1; 5] = false) /\
  (per_read_object_identifier [0; 0; 20; 124; 0; 1] [128; 5; 0; 20; 124; 0; 1] = Ok (true, []) /\
   canon_oid [128; 5; 0; 20; 124; 0; 1] = false /\ canon_oid [5; 0; 20; 124; 0; 1] = true) /\
  (per_read_numeric_string Debug 0 [1; 31] = Ok ([49], []) /\ canon_numeric 0 [1; 31] = false /\
   per_write_numeric_string Debug [49] 0 = Ok [1; 16]) /\
  (per_read_numeric_string Debug 0 [2; 171] = Ok ([58; 59], []) /\ canon_numeric 0 [2; 171] = false /\
   per_write_numeric_string Debug [58; 59] 0 = Ok [2; 1]) /\
  (per_read_padding 2 [7] = Ok (tt, []) /\ canon_padding 2 [7] = false /\ canon_padding 2 [0; 0; 9] = true).
Proof. vm_compute. repeat split. Qed.
