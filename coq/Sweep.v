(* Finite sweeps lifted to universally quantified statements: when the domain is finite,
   forallb over all of it, evaluated by the kernel's vm, is a proof (the bound is part of
   the statement). *)
From RdpV Require Import Base.

Fixpoint nrange_nat (n : nat) : list N :=
  match n with O => [] | S k => nrange_nat k ++ [N.of_nat k] end.
Definition nrange (n : N) : list N := nrange_nat (N.to_nat n).

Lemma in_nrange_nat (n : nat) (x : N) : x < N.of_nat n -> In x (nrange_nat n).
Proof.
  induction n as [|k IH]; intros H; [lia|].
  cbn [nrange_nat]. apply in_or_app.
  destruct (N.eq_dec x (N.of_nat k)) as [->|Hne]; [right; left; reflexivity|].
  left. apply IH. lia.
Qed.

Lemma in_nrange (n x : N) : x < n -> In x (nrange n).
Proof. intros H. apply in_nrange_nat. rewrite N2Nat.id. exact H. Qed.

Lemma sweep1 (n : N) (f : N -> bool) :
  forallb f (nrange n) = true -> forall x, x < n -> f x = true.
Proof. intros H x Hx. rewrite forallb_forall in H. apply H, in_nrange, Hx. Qed.

Lemma sweep2 (n m : N) (f : N -> N -> bool) :
  forallb (fun x => forallb (f x) (nrange m)) (nrange n) = true ->
  forall x y, x < n -> y < m -> f x y = true.
Proof.
  intros H x y Hx Hy. pose proof (sweep1 n _ H x Hx) as H1. cbv beta in H1.
  exact (sweep1 m _ H1 y Hy).
Qed.

(* byte-level bit facts used by the framing and PER models *)
Lemma land128_hi : forall h, h < 128 -> N.land (128 + h) 128 = 128 /\ N.land (128 + h) 127 = h.
Proof.
  intros h Hh.
  assert (H : ((N.land (128 + h) 128 =? 128) && (N.land (128 + h) 127 =? h)) = true).
  { revert h Hh. apply sweep1. vm_compute. reflexivity. }
  apply andb_true_iff in H. destruct H as [H1 H2].
  apply N.eqb_eq in H1. apply N.eqb_eq in H2. auto.
Qed.

Lemma land128_lo : forall b, b < 128 -> N.land b 128 = 0.
Proof.
  intros b Hb. apply N.eqb_eq. revert b Hb. apply sweep1. vm_compute. reflexivity.
Qed.

Lemma lor_shl8 : forall h l, h < 128 -> l < 256 -> N.lor (N.shiftl h 8) l = h * 256 + l.
Proof.
  intros h l Hh Hl. apply N.eqb_eq. revert h l Hh Hl. apply sweep2. vm_compute. reflexivity.
Qed.
