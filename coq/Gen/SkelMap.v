(* HAND-WRITTEN mapping table of the static tie (read by translator/rs2v.py, which generates one tie
   lemma per entry into Gen/Tie/):  Rust layout function  |->  hand-written Gallina term.

   Naming scheme (parsed by the translator; one Definition per line up to `:=`):

     hw_<rsfile>__<layout>__<mode>[T|E]<n> [binders] : msg := <hand-written term>.
        mode t  a TEMPLATE term (what the code builds with every optional argument None / what it
                reads into): literal constants AND template defaults are compared;
        mode p  a PARAMETRIC term, universally quantified over the binders: literal constants are
                compared, values that depend on the arguments are not (they are pinned, Pins.v);
        mode o  like p for a function returning `outcome msg`; needs `Ltac tie_<name>`;
        T / E   which branch of the layout's `if c { .. } else { .. }` the term instantiates.
     ek_<rsfile>__<Enum>[__n]            : N -> bool   known-value predicate (all discriminants)
     ec_<rsfile>__<Enum>__<Variant>[__n] : N           a constant that must equal the discriminant
     ef_<rsfile>__<Enum>[__n]            : N -> string the variant a hand-written From<uN> model picks

   Every Rust layout function / C-like enum of the translated files must either be mapped here or be
   listed, with the reason, in [unmodelled_layouts] / [unmodelled_enums]; the translator fails otherwise. *)
From RdpV Require Import Base Msg Skel.
From RdpV Require LayoutsGlobal LayoutsConnect LayoutsNtlm LayoutsNtlmAuth Gcc ClientPdus Connect Global Tpkt NtlmSeal.
Open Scope string_scope.
Open Scope list_scope.
Open Scope N_scope.

(* ================================================================== core/capability.rs *)
Definition hw_capability__capability_set__t1 : msg := LayoutsGlobal.capability_set_t.
Definition hw_capability__capability_set__p1 cap_type body body_len : msg := LayoutsGlobal.capability_set cap_type body body_len.
Definition hw_capability__ts_general_capability_set__t1 : msg := LayoutsGlobal.ts_general_capability_set 0.
Definition hw_capability__ts_general_capability_set__p1 extra_flags : msg := LayoutsGlobal.ts_general_capability_set extra_flags.
Definition hw_capability__ts_bitmap_capability_set__t1 : msg := LayoutsGlobal.ts_bitmap_capability_set 0 0 0.
Definition hw_capability__ts_bitmap_capability_set__p1 bpp w h : msg := LayoutsGlobal.ts_bitmap_capability_set bpp w h.
Definition hw_capability__ts_order_capability_set__t1 : msg := LayoutsGlobal.ts_order_capability_set 2.
Definition hw_capability__ts_order_capability_set__p1 order_flags : msg := LayoutsGlobal.ts_order_capability_set order_flags.
Definition hw_capability__ts_bitmap_cache_capability_set__t1 : msg := LayoutsGlobal.ts_bitmap_cache_capability_set.
Definition hw_capability__ts_pointer_capability_set__t1 : msg := LayoutsGlobal.ts_pointer_capability_set.
Definition hw_capability__ts_input_capability_set__t1 : msg := LayoutsGlobal.ts_input_capability_set 0 1036.
Definition hw_capability__ts_input_capability_set__p1 input_flags layout : msg := LayoutsGlobal.ts_input_capability_set input_flags layout.
Definition hw_capability__ts_brush_capability_set__t1 : msg := LayoutsGlobal.ts_brush_capability_set.
Definition hw_capability__cache_entry__t1 : msg := LayoutsGlobal.cache_entry.
Definition hw_capability__ts_glyph_capability_set__t1 : msg := LayoutsGlobal.ts_glyph_capability_set.
Definition hw_capability__ts_offscreen_capability_set__t1 : msg := LayoutsGlobal.ts_offscreen_capability_set.
Definition hw_capability__ts_virtualchannel_capability_set__t1 : msg := LayoutsGlobal.ts_virtualchannel_capability_set.
Definition hw_capability__ts_sound_capability_set__t1 : msg := LayoutsGlobal.ts_sound_capability_set.
Definition hw_capability__ts_multifragment_update_capability_ts__t1 : msg := LayoutsGlobal.ts_multifragment_update_capability_ts.
(* the templates Capability::from_capability_set selects (LayoutsGlobal.capability_template) are the ones above *)
Lemma capability_template_uses_mapped_terms :
  map LayoutsGlobal.capability_template [1; 2; 3; 4; 8; 13; 15; 16; 17; 20; 12; 26] =
  map Some [hw_capability__ts_general_capability_set__t1; hw_capability__ts_bitmap_capability_set__t1;
            hw_capability__ts_order_capability_set__t1; hw_capability__ts_bitmap_cache_capability_set__t1;
            hw_capability__ts_pointer_capability_set__t1; hw_capability__ts_input_capability_set__t1;
            hw_capability__ts_brush_capability_set__t1; hw_capability__ts_glyph_capability_set__t1;
            hw_capability__ts_offscreen_capability_set__t1; hw_capability__ts_virtualchannel_capability_set__t1;
            hw_capability__ts_sound_capability_set__t1; hw_capability__ts_multifragment_update_capability_ts__t1].
Proof. reflexivity. Qed.

(* ================================================================== core/gcc.rs *)
Definition hw_gcc__client_core_data__p1 version width height layout name16 selected : msg := Gcc.client_core_data version width height layout name16 selected.
Definition hw_gcc__client_core_data__p2 w h layout selected name_field : msg := ClientPdus.client_core_data w h layout selected name_field.
Definition hw_gcc__server_core_data__t1 : msg := Gcc.server_core_data.
Definition hw_gcc__server_core_data__t2 : msg := LayoutsConnect.server_core_data.
Definition hw_gcc__client_security_data__t1 : msg := Gcc.client_security_data.
Definition hw_gcc__client_security_data__t2 : msg := ClientPdus.client_security_data.
Definition hw_gcc__server_security_data__t1 : msg := Gcc.server_security_data.
Definition hw_gcc__server_security_data__t2 : msg := LayoutsConnect.server_security_data.
Definition hw_gcc__client_network_data__p1 channel_count channel_def_array : msg := Gcc.client_network_data channel_count channel_def_array.
Definition hw_gcc__client_network_data__p2 : msg := ClientPdus.client_network_data.
Definition hw_gcc__server_network_data__t1 : msg := Gcc.server_network_data.
Definition hw_gcc__server_network_data__t2 : msg := LayoutsConnect.server_network_data.
Definition hw_gcc__block_header__t1 : msg := LayoutsConnect.block_header_t.
Definition hw_gcc__block_header__p1 t len : msg := ClientPdus.block_header t len.
Definition hw_gcc__block_header__o1 p data_type len : outcome msg := Gcc.block_header p data_type len.
Ltac tie_hw_gcc__block_header__o1 :=
  unfold skel_tie_o, hw_gcc__block_header__o1, Gcc.block_header;
  match goal with |- context [add_w ?p ?w ?a ?b] => destruct (add_w p w a b) end;
  cbn [obind]; try exact I; vm_compute; reflexivity.

(* ================================================================== core/global.rs *)
Definition hw_global__ts_demand_active_pdu__t1 : msg := LayoutsGlobal.ts_demand_active_pdu.
Definition hw_global__ts_confirm_active_pdu__t1 : msg := LayoutsGlobal.ts_confirm_active_pdu_t.
Definition hw_global__ts_confirm_active_pdu__p1 share_id source caps caps_len : msg := LayoutsGlobal.ts_confirm_active_pdu share_id source caps caps_len.
Definition hw_global__ts_deactivate_all_pdu__t1 : msg := LayoutsGlobal.ts_deactivate_all_pdu.
Definition hw_global__share_data_header__t1 : msg := LayoutsGlobal.share_data_header_t.
Definition hw_global__share_data_header__p1 share_id pdu_type_2 message : msg := LayoutsGlobal.share_data_header share_id pdu_type_2 message.
Definition hw_global__share_control_header__t1 : msg := LayoutsGlobal.share_control_header_t.
Definition hw_global__share_control_header__p1 pdu_type pdu_source message : msg := LayoutsGlobal.share_control_header pdu_type pdu_source message.
Definition hw_global__ts_synchronize_pdu__t1 : msg := LayoutsGlobal.ts_synchronize_pdu 0.
Definition hw_global__ts_synchronize_pdu__p1 target_user : msg := LayoutsGlobal.ts_synchronize_pdu target_user.
Definition hw_global__ts_font_list_pdu__t1 : msg := LayoutsGlobal.ts_font_list_pdu.
Definition hw_global__ts_set_error_info_pdu__t1 : msg := LayoutsGlobal.ts_set_error_info_pdu.
Definition hw_global__ts_control_pdu__t1 : msg := LayoutsGlobal.ts_control_pdu LayoutsGlobal.CTRLACTION_COOPERATE.
Definition hw_global__ts_control_pdu__p1 action : msg := LayoutsGlobal.ts_control_pdu action.
Definition hw_global__ts_font_map_pdu__t1 : msg := LayoutsGlobal.ts_font_map_pdu.
Definition hw_global__ts_input_pdu_data__p1 events : msg := LayoutsGlobal.ts_input_pdu_data events.
Definition hw_global__ts_input_event__p1 message_type data : msg := LayoutsGlobal.ts_input_event message_type data.
Definition hw_global__ts_pointer_event__p1 flags x y : msg := LayoutsGlobal.ts_pointer_event flags x y.
Definition hw_global__ts_keyboard_event__p1 flags code : msg := LayoutsGlobal.ts_keyboard_event flags code.
Definition hw_global__ts_fp_update__t1 : msg := LayoutsGlobal.ts_fp_update.
Definition hw_global__ts_cd_header__t1 : msg := LayoutsGlobal.ts_cd_header.
Definition hw_global__ts_bitmap_data__t1 : msg := LayoutsGlobal.ts_bitmap_data.
Definition hw_global__ts_fp_update_bitmap__t1 : msg := LayoutsGlobal.ts_fp_update_bitmap.
Definition hw_global__ts_colorpointerattribute__t1 : msg := LayoutsGlobal.ts_colorpointerattribute.
Definition hw_global__ts_fp_update_synchronize__t1 : msg := LayoutsGlobal.empty_component.
Definition hw_global__ts_fp_systempointerhiddenattribute__t1 : msg := LayoutsGlobal.empty_component.

(* ================================================================== core/license.rs *)
Definition hw_license__preamble__t1 : msg := LayoutsConnect.preamble.
Definition hw_license__license_binary_blob__t1 : msg := LayoutsConnect.license_binary_blob.
Definition hw_license__licensing_error_message__t1 : msg := LayoutsConnect.licensing_error_message.

(* ================================================================== nla/ntlm.rs *)
Definition hw_ntlm__version__t1 : msg := LayoutsNtlm.version.
Definition hw_ntlm__version__t2 : msg := LayoutsNtlmAuth.version_l.
Definition hw_ntlm__negotiate_message__p1 flags : msg := LayoutsNtlm.negotiate_message flags.
Definition hw_ntlm__negotiate_message__p2 flags : msg := LayoutsNtlmAuth.negotiate_message_l flags.
Definition hw_ntlm__challenge_message__t1 : msg := LayoutsNtlm.challenge_message.
Definition hw_ntlm__challenge_message__t2 : msg := LayoutsNtlmAuth.challenge_message_t.
Definition hw_ntlm__authenticate_message__p1 lm nt domain user workstation key flags : msg := LayoutsNtlmAuth.authenticate_message_l lm nt domain user workstation key flags.
Definition hw_ntlm__authenticate_message__o1 p lm nt domain user workstation key flags : outcome msg := obind (LayoutsNtlm.authenticate_message p lm nt domain user workstation key flags) (fun r => Ok (fst r)).
Ltac tie_hw_ntlm__authenticate_message__o1 :=
  unfold skel_tie_o, hw_ntlm__authenticate_message__o1, LayoutsNtlm.authenticate_message; cbv zeta;
  repeat match goal with
         | |- context [obind (add_w ?p ?w ?a ?b) _] => destruct (add_w p w a b); cbn [obind]; cbv beta
         end;
  try exact I; cbn [fst]; vm_compute; reflexivity.
Definition hw_ntlm__av_pair__t1 : msg := LayoutsNtlm.av_pair.
Definition hw_ntlm__av_pair__t2 : msg := LayoutsNtlmAuth.av_pair_t.
Definition hw_ntlm__message_signature_ex__t1 : msg := LayoutsNtlm.message_signature_ex_t.
Definition hw_ntlm__message_signature_ex__o1 check_sum seq_num : outcome msg := LayoutsNtlm.message_signature_ex check_sum seq_num.
Ltac tie_hw_ntlm__message_signature_ex__o1 :=
  unfold skel_tie_o, hw_ntlm__message_signature_ex__o1, LayoutsNtlm.message_signature_ex; cbv zeta;
  match goal with |- context [match ?cs with Some _ => _ | None => _ end] =>
    match type of cs with option bytes => destruct cs as [sum|] end end;
  [ match goal with |- context [if ?c then _ else _] => destruct c end; try exact I | ];
  vm_compute; reflexivity.

(* NtlmSeal.v (C16) models to_vec(&message_signature_ex(Some(sum), Some(seq))) at byte level: bridge term + lemma *)
Definition hw_ntlm__message_signature_ex__p2 c seq : msg := MComp [("Version", MCheck (MU32 LE 1)); ("Checksum", MBytes c); ("SeqNum", MU32 LE seq)].
Lemma message_signature_ex_bridge : forall p sum seq,
  NtlmSeal.message_signature_ex sum seq =
  obind (NtlmSeal.slice sum 0 8) (fun c => match write p (hw_ntlm__message_signature_ex__p2 c seq) with Some b => Ok b | None => Panic end).
Proof. intros p sum seq. unfold NtlmSeal.message_signature_ex. destruct (NtlmSeal.slice sum 0 8); reflexivity. Qed.

(* ================================================================== core/sec.rs *)
Definition hw_sec__rdp_extended_infos__t1 : msg := ClientPdus.rdp_extended_infos.
Definition hw_sec__rdp_infos__pT1 domain user password auto : msg := ClientPdus.rdp_infos true domain user password auto.
Definition hw_sec__rdp_infos__pE1 domain user password auto : msg := ClientPdus.rdp_infos false domain user password auto.
Definition hw_sec__security_header__t1 : msg := LayoutsConnect.security_header.

(* ================================================================== core/tpkt.rs, core/x224.rs *)
(* tpkt_header and x224_header are modelled at byte level (Tpkt.tpkt_frame, ClientPdus.X224_DATA / Tpkt.x224_strip):
   the terms below are bridges, each with a lemma that the byte-level model writes exactly what the term writes. *)
Definition hw_tpkt__tpkt_header__p1 size : msg := MComp [("action", MU8 3); ("flag", MU8 0); ("size", MU16 BE (size + 4))].
Lemma tpkt_header_bridge : forall p m,
  match write p (hw_tpkt__tpkt_header__p1 (nlen m)) with Some h => h ++ m = Tpkt.tpkt_frame m | None => False end.
Proof. intros p m. reflexivity. Qed.

Definition hw_x224__x224_header__t1 : msg := MComp [("header", MU8 2); ("messageType", MU8 240); ("separator", MCheck (MU8 128))].
Lemma x224_header_bridge : forall p, write p hw_x224__x224_header__t1 = Some ClientPdus.X224_DATA.
Proof. reflexivity. Qed.
Lemma x224_header_bridge_read : forall p a b c rest,
  Tpkt.x224_strip (a :: b :: c :: rest) =
  match read p hw_x224__x224_header__t1 (a :: b :: c :: rest) with
  | ROk _ r _ => Ok r | RErr e _ _ => Err e | RPanic => Panic | RSpin => Spin
  end.
Proof.
  intros p a b c rest. unfold Tpkt.x224_strip, hw_x224__x224_header__t1.
  cbn [read read_comp read_field dyn_lookup mem options check_eq num_of]. rewrite (N.eqb_sym 128 c).
  destruct (c =? 128); reflexivity.
Qed.

Definition hw_x224__rdp_neg_req__p1 neg_type flag result : msg := LayoutsConnect.rdp_neg_req neg_type flag result.
Definition hw_x224__rdp_neg_req__t1 : msg := LayoutsConnect.rdp_neg_req LayoutsConnect.NEG_REQ 0 0.
Definition hw_x224__x224_crq__p1 len code : msg := LayoutsConnect.x224_crq len code.
Definition hw_x224__x224_connection_pdu__t1 : msg := LayoutsConnect.x224_connection_pdu_t.
Definition hw_x224__x224_connection_pdu__p1 neg_type flag result : msg := LayoutsConnect.x224_connection_pdu neg_type flag result.

(* ================================================================== layouts without a hand-written counterpart *)
Definition unmodelled_layouts : list (string * string) := [
  ("gcc::channel_def", "never built by the client: mcs::Client::connect passes client_network_data(trame![]) (no static virtual channel); no property reads or writes it")
].

(* ================================================================== enums *)
(* ---- core/global.rs *)
Definition ek_global__PDUType : N -> bool := LayoutsGlobal.pdutype_known.
Definition ec_global__PDUType__PdutypeDemandactivepdu : N := LayoutsGlobal.PDUTYPE_DEMANDACTIVE.
Definition ec_global__PDUType__PdutypeConfirmactivepdu : N := LayoutsGlobal.PDUTYPE_CONFIRMACTIVE.
Definition ec_global__PDUType__PdutypeDeactivateallpdu : N := LayoutsGlobal.PDUTYPE_DEACTIVATEALL.
Definition ec_global__PDUType__PdutypeDatapdu : N := LayoutsGlobal.PDUTYPE_DATA.
Definition ec_global__PDUType__PdutypeServerRedirPkt : N := LayoutsGlobal.PDUTYPE_SERVER_REDIR.
Definition ek_global__PDUType2 : N -> bool := LayoutsGlobal.pdutype2_known.
Definition ec_global__PDUType2__Pdutype2Control : N := LayoutsGlobal.PDUTYPE2_CONTROL.
Definition ec_global__PDUType2__Pdutype2Input : N := LayoutsGlobal.PDUTYPE2_INPUT.
Definition ec_global__PDUType2__Pdutype2Synchronize : N := LayoutsGlobal.PDUTYPE2_SYNCHRONIZE.
Definition ec_global__PDUType2__Pdutype2Fontlist : N := LayoutsGlobal.PDUTYPE2_FONTLIST.
Definition ec_global__PDUType2__Pdutype2Fontmap : N := LayoutsGlobal.PDUTYPE2_FONTMAP.
Definition ec_global__PDUType2__Pdutype2SetErrorInfoPdu : N := LayoutsGlobal.PDUTYPE2_SET_ERROR_INFO.
Definition ec_global__PDUType2__Pdutype2ArcStatusPdu : N := LayoutsGlobal.PDUTYPE2_ARC_STATUS.
Definition ek_global__FastPathUpdateType : N -> bool := LayoutsGlobal.fp_type_known.
Definition ec_global__FastPathUpdateType__FastpathUpdatetypeBitmap : N := LayoutsGlobal.FP_BITMAP.
Definition ec_global__FastPathUpdateType__FastpathUpdatetypeSynchronize : N := LayoutsGlobal.FP_SYNCHRONIZE.
Definition ec_global__FastPathUpdateType__FastpathUpdatetypePtrNull : N := LayoutsGlobal.FP_PTR_NULL.
Definition ec_global__FastPathUpdateType__FastpathUpdatetypeColor : N := LayoutsGlobal.FP_COLOR.
Definition ec_global__Action__CtrlactionRequestControl : N := LayoutsGlobal.CTRLACTION_REQUEST_CONTROL.
Definition ec_global__Action__CtrlactionGrantedControl : N := LayoutsGlobal.CTRLACTION_GRANTED_CONTROL.
Definition ec_global__Action__CtrlactionCooperate : N := LayoutsGlobal.CTRLACTION_COOPERATE.
Definition ec_global__InputEventType__InputEventScancode : N := LayoutsGlobal.INPUT_EVENT_SCANCODE.
Definition ec_global__InputEventType__InputEventMouse : N := LayoutsGlobal.INPUT_EVENT_MOUSE.
(* RdpClient::write (core/client.rs) ors these into pointerFlags: Global.pointer_flags *)
Definition ec_global__PointerFlag__PtrflagsButton1 : N := Global.pointer_flags Global.BLeft false.
Definition ec_global__PointerFlag__PtrflagsButton2 : N := Global.pointer_flags Global.BRight false.
Definition ec_global__PointerFlag__PtrflagsButton3 : N := Global.pointer_flags Global.BMiddle false.
Definition ec_global__PointerFlag__PtrflagsMove : N := Global.pointer_flags Global.BNone false.
Definition ec_global__PointerFlag__PtrflagsDown : N := Global.pointer_flags Global.BNone true - Global.pointer_flags Global.BNone false.
(* ---- core/capability.rs *)
Definition ek_capability__CapabilitySetType : N -> bool := LayoutsGlobal.capset_type_known.
(* ---- core/gcc.rs *)
Definition ef_gcc__Version (e : N) : string :=
  match Gcc.version_from e with Gcc.RdpVersion => "RdpVersion" | Gcc.RdpVersion5plus => "RdpVersion5plus" | Gcc.VersionUnknown => "Unknown" end.
Definition ec_gcc__Version__RdpVersion : N := Gcc.RDP_VERSION_4.
Definition ec_gcc__Version__RdpVersion5plus : N := Gcc.RDP_VERSION_5_PLUS.
Definition ec_gcc__Version__RdpVersion5plus__2 : N := ClientPdus.RDP_VERSION_5_PLUS.
Definition ec_gcc__Version__RdpVersion5plus__3 : N := Connect.RDP_VERSION_5PLUS_WIRE.
Definition ec_gcc__MessageType__ScCore : N := Gcc.SC_CORE.
Definition ec_gcc__MessageType__ScSecurity : N := Gcc.SC_SECURITY.
Definition ec_gcc__MessageType__ScNet : N := Gcc.SC_NET.
Definition ec_gcc__MessageType__CsCore : N := Gcc.CS_CORE.
Definition ec_gcc__MessageType__CsSecurity : N := Gcc.CS_SECURITY.
Definition ec_gcc__MessageType__CsNet : N := Gcc.CS_NET.
Definition ec_gcc__MessageType__ScCore__2 : N := LayoutsConnect.SC_CORE.
Definition ec_gcc__MessageType__ScSecurity__2 : N := LayoutsConnect.SC_SECURITY.
Definition ec_gcc__MessageType__ScNet__2 : N := LayoutsConnect.SC_NET.
Definition ec_gcc__MessageType__CsCore__2 : N := LayoutsConnect.CS_CORE.
Definition ec_gcc__MessageType__CsSecurity__2 : N := ClientPdus.CS_SECURITY.
Definition ec_gcc__MessageType__CsNet__2 : N := ClientPdus.CS_NET.
(* ---- core/license.rs *)
Definition ek_license__MessageType : N -> bool := LayoutsConnect.lic_msgtype_known.
Definition ec_license__MessageType__NewLicense : N := LayoutsConnect.LIC_NEW_LICENSE.
Definition ec_license__MessageType__ErrorAlert : N := LayoutsConnect.LIC_ERROR_ALERT.
Definition ek_license__ErrorCode : N -> bool := LayoutsConnect.lic_errorcode_known.
Definition ec_license__ErrorCode__StatusValidClient : N := LayoutsConnect.STATUS_VALID_CLIENT.
Definition ek_license__StateTransition : N -> bool := LayoutsConnect.lic_transition_known.
Definition ec_license__StateTransition__StNoTransition : N := LayoutsConnect.ST_NO_TRANSITION.
(* ---- core/mcs.rs *)
Definition ec_mcs__DomainMCSPDU__AttachUserConfirm : N := Connect.MCS_ATTACH_USER_CONFIRM.
Definition ec_mcs__DomainMCSPDU__ChannelJoinConfirm : N := Connect.MCS_CHANNEL_JOIN_CONFIRM.
(* ---- nla/ntlm.rs *)
Definition ec_ntlm__Negotiate__NtlmsspNegociate56 : N := LayoutsNtlm.NTLMSSP_NEGOTIATE_56.
Definition ec_ntlm__Negotiate__NtlmsspNegociateKeyExch : N := LayoutsNtlm.NTLMSSP_NEGOTIATE_KEY_EXCH.
Definition ec_ntlm__Negotiate__NtlmsspNegociate128 : N := LayoutsNtlm.NTLMSSP_NEGOTIATE_128.
Definition ec_ntlm__Negotiate__NtlmsspNegociateVersion : N := LayoutsNtlm.NTLMSSP_NEGOTIATE_VERSION.
Definition ec_ntlm__Negotiate__NtlmsspNegociateExtendedSessionSecurity : N := LayoutsNtlm.NTLMSSP_NEGOTIATE_EXTENDED_SESSION_SECURITY.
Definition ec_ntlm__Negotiate__NtlmsspNegociateAlwaysSign : N := LayoutsNtlm.NTLMSSP_NEGOTIATE_ALWAYS_SIGN.
Definition ec_ntlm__Negotiate__NtlmsspNegociateNTLM : N := LayoutsNtlm.NTLMSSP_NEGOTIATE_NTLM.
Definition ec_ntlm__Negotiate__NtlmsspNegociateSeal : N := LayoutsNtlm.NTLMSSP_NEGOTIATE_SEAL.
Definition ec_ntlm__Negotiate__NtlmsspNegociateSign : N := LayoutsNtlm.NTLMSSP_NEGOTIATE_SIGN.
Definition ec_ntlm__Negotiate__NtlmsspRequestTarget : N := LayoutsNtlm.NTLMSSP_REQUEST_TARGET.
Definition ec_ntlm__Negotiate__NtlmsspNegociateUnicode : N := LayoutsNtlm.NTLMSSP_NEGOTIATE_UNICODE.
Definition ek_ntlm__AvId : N -> bool := LayoutsNtlm.avid_known.
Definition ec_ntlm__AvId__MsvAvEOL : N := LayoutsNtlm.MSV_AV_EOL.
Definition ec_ntlm__AvId__MsvAvTimestamp : N := LayoutsNtlm.MSV_AV_TIMESTAMP.
(* ---- core/sec.rs *)
Definition ec_sec__SecurityFlag__SecLicensePkt : N := LayoutsConnect.SEC_LICENSE_PKT.
Definition ec_sec__SecurityFlag__SecInfoPkt : N := ClientPdus.SEC_INFO_PKT.
Definition ec_sec__InfoFlag__InfoAutologon : N := ClientPdus.INFO_AUTOLOGON.
(* ---- core/x224.rs *)
Definition ec_x224__NegotiationType__TypeRDPNegReq : N := LayoutsConnect.NEG_REQ.
Definition ec_x224__NegotiationType__TypeRDPNegRsp : N := LayoutsConnect.NEG_RSP.
Definition ec_x224__NegotiationType__TypeRDPNegFailure : N := LayoutsConnect.NEG_FAILURE.
Definition ek_x224__Protocols : N -> bool := Connect.protocol_known.
Definition ec_x224__Protocols__ProtocolRDP : N := LayoutsConnect.PROTOCOL_RDP.
Definition ec_x224__Protocols__ProtocolSSL : N := LayoutsConnect.PROTOCOL_SSL.
Definition ec_x224__Protocols__ProtocolHybrid : N := LayoutsConnect.PROTOCOL_HYBRID.
Definition ec_x224__Protocols__ProtocolHybridEx : N := LayoutsConnect.PROTOCOL_HYBRID_EX.
Definition ec_x224__MessageType__X224TPDUConnectionRequest : N := LayoutsConnect.X224_CONNECTION_REQUEST.

Definition unmodelled_enums : list (string * string) := [
  ("capability::MajorType", "only use: the literal osMajorType of ts_general_capability_set, which the translator folds into that layout's skeleton");
  ("capability::MinorType", "only use: the literal osMinorType of ts_general_capability_set, folded into that layout's skeleton");
  ("capability::GeneralExtraFlag", "combined by global::Client::write_confirm_active_pdu (control code, not a declaration) into extraFlags; the model carries the literal 1045 (Global.v), tied by the C04/C12 correspondence");
  ("capability::OrderFlag", "default of ts_order_capability_set is folded into the skeleton (VDef 2); the client's value 10 is a literal of Global.v tied by the C04/C12 correspondence");
  ("capability::InputFlags", "combined by write_confirm_active_pdu into inputFlags; literal 21 in Global.v, tied by the C04/C12 correspondence");
  ("event::PointerButton", "used by core/client.rs (outside the translated files); modelled as the inductive Global.button, tied by the C11 correspondence");
  ("gcc::ColorDepth", "only use: literals of client_core_data, folded into that layout's skeleton");
  ("gcc::Sequence", "only use: literal of client_core_data, folded into the skeleton");
  ("gcc::KeyboardLayout", "a value passed through (kbdLayout / keyboardLayout fields); the default French = 0x40c is folded into the skeletons as a template default");
  ("gcc::KeyboardType", "only use: literals of client_core_data / ts_input_capability_set, folded into the skeletons");
  ("gcc::HighColor", "only use: literal of client_core_data, folded into the skeleton");
  ("gcc::Support", "only use: literal of client_core_data, folded into the skeleton");
  ("gcc::CapabilityFlag", "only use: literal of client_core_data, folded into the skeleton");
  ("gcc::EncryptionMethod", "only use: literal of client_security_data, folded into the skeleton");
  ("gcc::EncryptionLevel", "never used by the code");
  ("global::KeyboardFlag", "used by core/client.rs (outside the translated files); literal 32768 in Global.client_write, tied by the C11 correspondence");
  ("global::BitmapFlag", "only use: the closure of ts_bitmap_data's flags field, which the translator normalises into the skeleton");
  ("global::ClientState", "no discriminant is ever observed; modelled as the inductive Global.cstate, tied by the C12 correspondence");
  ("license::Preambule", "only use: the Check constant of preamble's flag field, folded into the skeleton");
  ("ntlm::MajorVersion", "only use: literal of version(), folded into the skeleton");
  ("ntlm::MinorVersion", "only use: literal of version(), folded into the skeleton");
  ("ntlm::NTLMRevision", "only use: literal of version(), folded into the skeleton");
  ("sec::AfInet", "only use: literal of rdp_extended_infos, folded into the skeleton");
  ("tpkt::Action", "FastPathActionX224 is folded into tpkt_header's skeleton; the fast-path test of tpkt::Client::read is control code (Tpkt.v), tied by the C13 correspondence");
  ("x224::RequestMode", "the connector passes the flag as a number (Connect.v / ClientPdus.emit_cr), tied by the C02/C04 correspondence")
].
