(* HAND-WRITTEN mapping table of the static tie for CONTROL code (read by translator/rs2v.py, which generates
   one tie file per Rust function into Gen/Tie/C_*.v):  Rust function  |->  the normal form (Ctl.v) that the
   hand-written model was written against, ANCHORED in the model by the lemmas below.

   Naming scheme (parsed by the translator; one Definition per line up to `:=`):

     hc_<rsfile>__[<Type>_]<fn> : <type> := <normal form>.
        the generated lemma is  tie_<..> : Ctl_gen.ctl_<..> = CtlMap.hc_<..>   (Gen/Tie/C_<..>.v);
     Lemma <name>_hw : <statement over hc_ terms>.            (ONE line)
        an ANCHOR: the model function is the interpretation of the normal form.  The translator restates it
        on the generated term (`<name>_gen`, proved by rewriting with the tie lemmas), so what is finally
        proved reads "the model function = the interpretation of the table read off the Rust source".
     Anchors that need the proof-level relations of a property live in Gen/CtlMap<Sfx>.v (e.g. CtlMapC12.v);
     they are restated in Gen/Tie/C_<..>__<Sfx>.v (tie key `<file>::<fn>@<Sfx>` in gen/ties.py).

   Every function the translator targets (translator/rsctl.py ITEMS) must either be mapped here or be listed,
   with the reason, in [unmodelled_ctl]; the translator fails otherwise.  When a tie lemma fails, the DIAG
   command of the tie file prints the first differing entry (generated | hand-written): re-read the Rust
   function, update the MODEL (and its proofs), and only then the normal form here. *)
From RdpV Require Import Base Msg Ctl Link Tpkt LayoutsGlobal LayoutsConnect Global Connect.
From RdpV.Gen Require SkelMap.
Open Scope string_scope.
Open Scope list_scope.
Open Scope N_scope.


Definition unmodelled_ctl : list (string * string) := [].

(* ================================================================== shared by the interpretations below *)

Definition err_of (k : string) : option err :=
  assoc_s k [("Io", EIo); ("InvalidRespond", EInvalidRespond); ("NotImplemented", ENotImplemented); ("Disconnect", EDisconnect);
             ("InvalidAutomata", EInvalidAutomata); ("InvalidProtocol", EInvalidProtocol); ("ProtocolNegFailure", EProtocolNegFailure);
             ("InvalidCast", EInvalidCast); ("InvalidConst", EInvalidConst); ("InvalidChecksum", EInvalidChecksum);
             ("InvalidOptionalField", EInvalidOptionalField); ("InvalidSize", EInvalidSize); ("InvalidData", EInvalidData);
             ("PossibleMITM", EPossibleMITM); ("RejectedByServer", ERejectedByServer); ("UnexpectedType", EUnexpectedType);
             ("Unknown", EUnknown)].
Definition seqb (a b : string) : bool := String.eqb a b.

Definition arm_targets (d : dispatch) : list (N * target) := map (fun '(_, v, g) => (v, g)) (d_arms d).
Definition err_out {A} (k : string) : outcome A := match err_of k with Some e => Err e | None => Panic end.
Ltac by_cases v :=
  repeat match goal with
  | |- context [v =? ?k] =>
      lazymatch k with Npos _ => idtac | N0 => idtac end;
      let E := fresh "E" in destruct (v =? k) eqn:E; [apply N.eqb_eq in E; subst v; reflexivity|]
  end; try reflexivity.


Ltac nat_consts :=
  repeat match goal with
  | |- context [N.to_nat (Npos ?k)] => let v := eval vm_compute in (N.to_nat (Npos k)) in change (N.to_nat (Npos k)) with v
  | |- context [N.to_nat 0] => change (N.to_nat 0) with O
  end.

(* the hand-written template each Rust layout function is tied to (skeleton ties, Gen/SkelMap.v) *)
Definition layout_terms : list (string * msg) :=
  [("ts_demand_active_pdu", SkelMap.hw_global__ts_demand_active_pdu__t1);
   ("share_data_header", SkelMap.hw_global__share_data_header__t1);
   ("ts_confirm_active_pdu", SkelMap.hw_global__ts_confirm_active_pdu__t1);
   ("ts_deactivate_all_pdu", SkelMap.hw_global__ts_deactivate_all_pdu__t1);
   ("ts_synchronize_pdu", SkelMap.hw_global__ts_synchronize_pdu__t1);
   ("ts_control_pdu", SkelMap.hw_global__ts_control_pdu__t1);
   ("ts_font_list_pdu", SkelMap.hw_global__ts_font_list_pdu__t1);
   ("ts_font_map_pdu", SkelMap.hw_global__ts_font_map_pdu__t1);
   ("ts_set_error_info_pdu", SkelMap.hw_global__ts_set_error_info_pdu__t1);
   ("ts_fp_update_bitmap", SkelMap.hw_global__ts_fp_update_bitmap__t1);
   ("ts_colorpointerattribute", SkelMap.hw_global__ts_colorpointerattribute__t1);
   ("ts_fp_update_synchronize", SkelMap.hw_global__ts_fp_update_synchronize__t1);
   ("ts_fp_systempointerhiddenattribute", SkelMap.hw_global__ts_fp_systempointerhiddenattribute__t1);
   ("licensing_error_message", SkelMap.hw_license__licensing_error_message__t1)].


(* ClientState <-> Global.gstate *)
Definition state_names : list (string * gstate) :=
  [("DemandActivePDU", SDemandActive); ("SynchronizePDU", SSynchronize); ("ControlCooperate", SControlCooperate);
   ("ControlGranted", SControlGranted); ("FontMap", SFontMap); ("Data", SData)].
Definition state_of (s : string) : option gstate := assoc_s s state_names.
Definition name_of (g : gstate) : string :=
  match g with
  | SDemandActive => "DemandActivePDU" | SSynchronize => "SynchronizePDU" | SControlCooperate => "ControlCooperate"
  | SControlGranted => "ControlGranted" | SFontMap => "FontMap" | SData => "Data"
  end.
(* "state=<Variant>" *)
Definition assigned (a : string) : option gstate :=
  if String.prefix "state=" a then state_of (String.substring 6 (String.length a - 6) a) else None.
Definition action_value (a : string) : option N :=
  assoc_s a [("Action::CtrlactionCooperate", CTRLACTION_COOPERATE); ("Action::CtrlactionGrantedControl", CTRLACTION_GRANTED_CONTROL)].


Definition sl_eqb (a b : list string) : bool :=
  (fix go a b := match a, b with [] , [] => true | x :: ta, y :: tb => seqb x y && go ta tb | _, _ => false end) a b.


(* ================================================================== global::Client::read (src/core/global.rs) *)
Definition hc_global__Client_read : list arm :=
[
  mkArm "DemandActivePDU" "Raw" "read_demand_active_pdu" [] ["write_confirm_active_pdu"; "write_client_finalize"; "state=SynchronizePDU"] [] "unit";
  mkArm "SynchronizePDU" "Raw" "read_synchronize_pdu" [] ["state=ControlCooperate"] [] "unit";
  mkArm "ControlCooperate" "Raw" "read_control_pdu" ["Action::CtrlactionCooperate"] ["state=ControlGranted"] [] "unit";
  mkArm "ControlGranted" "Raw" "read_control_pdu" ["Action::CtrlactionGrantedControl"] ["state=FontMap"] [] "unit";
  mkArm "FontMap" "Raw" "read_font_map_pdu" [] ["state=Data"] [] "unit";
  mkArm "Data" "FastPath" "read_fast_path" ["_"] [] [] "tail";
  mkArm "Data" "Raw" "read_data_pdu" [] [] [] "tail"
].


(* what one arm of `match self.state` does, in terms of the model's handler functions *)
Definition arm_sem (p : prof) (a : arm) : option (session -> bytes -> step_result) :=
  let h := a_handler a in
  if seqb (a_result a) "tail" && sl_eqb (a_then a) [] && sl_eqb (a_after a) [] then
    if seqb h "read_data_pdu" && sl_eqb (a_args a) [] then Some (read_data_pdu p)
    else if seqb h "read_fast_path" && sl_eqb (a_args a) ["_"] then Some (read_fast_path p)
    else None
  else if seqb (a_result a) "unit" && sl_eqb (a_after a) [] then
    match a_then a, a_args a with
    | [w1; w2; nx], [] =>
        if seqb h "read_demand_active_pdu" && seqb w1 "write_confirm_active_pdu" && seqb w2 "write_client_finalize" then
          match assigned nx with Some SSynchronize => Some (read_demand_active p) | _ => None end
        else None
    | [nx], [] =>
        match assigned nx with
        | Some g =>
            if seqb h "read_synchronize_pdu" then Some (fun s b => read_expect_data p s b PDUTYPE2_SYNCHRONIZE None g)
            else if seqb h "read_font_map_pdu" then Some (fun s b => read_expect_data p s b PDUTYPE2_FONTMAP None g)
            else None
        | None => None
        end
    | [nx], [act] =>
        match assigned nx, action_value act with
        | Some g, Some a =>
            if seqb h "read_control_pdu" then Some (fun s b => read_expect_data p s b PDUTYPE2_CONTROL (Some a) g) else None
        | _, _ => None
        end
    | _, _ => None
    end
  else None.

Definition payload_kind (pl : payload) : string := match pl with Raw _ => "Raw" | FastPath _ _ => "FastPath" end.
Definition payload_bytes (pl : payload) : bytes := match pl with Raw b => b | FastPath _ b => b end.
Fixpoint find_arm (st kind : string) (l : list arm) : option arm :=
  match l with
  | [] => None
  | a :: tl => if seqb (a_state a) st && seqb (a_payload a) kind then Some a else find_arm st kind tl
  end.
Definition has_state (st : string) (l : list arm) : bool := existsb (fun a => seqb (a_state a) st) l.

(* global::Client::read as the table says: the arm of the current state for this payload kind; a state that only has
   try_let!(Payload::Raw, ..) arms refuses a fast-path payload *)
Definition global_read_nf (arms : list arm) (p : prof) (s : session) (pl : payload) : option step_result :=
  match find_arm (name_of (st s)) (payload_kind pl) arms with
  | Some a => option_map (fun f => f s (payload_bytes pl)) (arm_sem p a)
  | None => if has_state (name_of (st s)) arms then Some (done s (Err EInvalidCast)) else None
  end.
Definition global_read_is (arms : list arm) : Prop := forall p s pl, global_read_nf arms p s pl = Some (global_read p s pl).
Lemma global_read_is_hw : global_read_is hc_global__Client_read.
Proof. intros p [g u c w h l sh n] pl. destruct g; destruct pl; reflexivity. Qed.

(* the states in which a fast-path payload is accepted / input is accepted *)
Definition fastpath_states (arms : list arm) : list string :=
  map a_state (filter (fun a => seqb (a_payload a) "FastPath") arms).


(* ================================================================== global::Client::read_data_pdu (src/core/global.rs) *)
Definition hc_global__Client_read_data_pdu : list lguard :=
[
  mkLGuard "PDU::from_control" "pdu_type" "PDUType" "PdutypeDeactivateallpdu" 22 true ["state=DemandActivePDU"] "continue";
  mkLGuard "PDU::from_control" "pdu_type" "PDUType" "PdutypeDatapdu" 23 false [] "continue"
].


(* read_data_pdu: the guards at the head of the loop over the share-control PDUs of one frame *)
Fixpoint lguard_sem (l : list lguard) (t : N) : option (list string) :=
  match l with
  | [] => None
  | g :: tl => if Bool.eqb (t =? lg_value g) (lg_eq g) then Some (lg_actions g) else lguard_sem tl t
  end.
Definition lguards_ok (l : list lguard) : bool :=
  forallb (fun g => seqb (lg_origin g) "PDU::from_control" && seqb (lg_field g) "pdu_type" && seqb (lg_enum g) "PDUType" && seqb (lg_exit g) "continue") l.
(* one share-control PDU of type t (as PDU::from_control returned it): the loop `continue`s after the actions of the first
   guard that fires; when none fires the PDU is a data PDU and goes on to DataPDU::from_pdu *)
Definition data_pdus_head_is (l : list lguard) : Prop :=
  lguards_ok l = true /\
  forall p s c tl t m, pdu_from_control p c = Ok (t, m) ->
    match lguard_sem l t with
    | Some [] => data_pdus p s (c :: tl) = data_pdus p s tl
    | Some [a] => exists g, assigned a = Some g /\ data_pdus p s (c :: tl) = data_pdus p (set_state s g) tl
    | Some _ => False
    | None => t = PDUTYPE_DATA
    end.
Lemma data_pdus_head_is_hw : data_pdus_head_is hc_global__Client_read_data_pdu.
Proof.
  split; [reflexivity|]. intros p s c tl t m H.
  unfold hc_global__Client_read_data_pdu. cbn [lguard_sem lg_value lg_eq lg_actions data_pdus]. rewrite H.
  unfold PDUTYPE_DEACTIVATEALL, PDUTYPE_DATA.
  destruct (t =? 22) eqn:E1; cbn [Bool.eqb].
  - exists SDemandActive. split; reflexivity.
  - destruct (t =? 23) eqn:E2; cbn [Bool.eqb negb].
    + apply N.eqb_eq in E2. exact E2.
    + reflexivity.
Qed.


(* ================================================================== global::Client::write_input_event (src/core/global.rs) *)
Definition hc_global__Client_write_input_event : gate :=
mkGate [] [
  ("DemandActivePDU", (GErr "InvalidAutomata"));
  ("SynchronizePDU", (GErr "InvalidAutomata"));
  ("ControlCooperate", (GErr "InvalidAutomata"));
  ("ControlGranted", (GErr "InvalidAutomata"));
  ("FontMap", (GErr "InvalidAutomata"));
  ("Data", (GOk "self.write_data_pdu(ts_input_pdu_data)"))
].


(* write_input_event *)
Definition write_input_ok (p : prof) (s : session) (event_type : N) (ev : msg) : step_result :=
  Global.lift s (Global.wr p ev) (fun data =>
  Global.lift s (Global.write_data_pdu p s PDUTYPE2_INPUT (ts_input_pdu_data [ts_input_event event_type data])) (fun f =>
  mkStep s (Ok tt) [f] [])).
Definition gate_nf (g : gate) (p : prof) (s : session) (event_type : N) (ev : msg) : option step_result :=
  match g_pre g, assoc_s (name_of (st s)) (g_rows g) with
  | [], Some (GOk w) => if seqb w "self.write_data_pdu(ts_input_pdu_data)" then Some (write_input_ok p s event_type ev) else None
  | [], Some (GErr k) => option_map (fun e => done s (Err e)) (err_of k)
  | _, _ => None
  end.
Definition write_input_event_is (g : gate) : Prop := forall p s t ev, gate_nf g p s t ev = Some (write_input_event p s t ev).
Lemma write_input_event_is_hw : write_input_event_is hc_global__Client_write_input_event.
Proof. intros p [g u c w h l sh n] t ev. destruct g; reflexivity. Qed.
Definition input_states (g : gate) : list string :=
  map fst (filter (fun '(_, t) => match t with GOk _ => true | _ => false end) (g_rows g)).


(* ================================================================== global::PDU::from_control (src/core/global.rs) *)
Definition hc_global__PDU_from_control : dispatch :=
mkDispatch "PDUType" 16 "pduType" None [
  ("PdutypeDemandactivepdu", 17, (GLayout "ts_demand_active_pdu" []));
  ("PdutypeConfirmactivepdu", 19, (GLayout "ts_confirm_active_pdu" ["None"; "None"; "None"]));
  ("PdutypeDeactivateallpdu", 22, (GLayout "ts_deactivate_all_pdu" []));
  ("PdutypeDatapdu", 23, (GLayout "share_data_header" ["None"; "None"; "None"]));
  ("PdutypeServerRedirPkt", 26, (GErr "NotImplemented"))
] "pduMessage".


(* X::from_..(m): cast the selector, Enum::try_from, build the template the arm names, read it from m[body] *)
Definition run_dispatch (p : prof) (d : dispatch) (m : msg) : outcome (N * msg) :=
  obind (cast_num (d_bits d) (get m (d_field d))) (fun v =>
  let t := match d_mask d with Some k => N.land v k | None => v end in
  match assoc_n t (arm_targets d) with
  | None => Err EInvalidCast
  | Some (GLayout f _) =>
      match assoc_s f layout_terms with
      | Some tm => obind (cast_bytes (get m (d_body d))) (fun body => obind (rd p tm body) (fun r => Ok (t, r)))
      | None => Panic
      end
  | Some (GErr k) => match err_of k with Some e => Err e | None => Panic end
  | Some _ => Panic
  end).


Definition pdu_from_control_is (d : dispatch) : Prop := forall p c, run_dispatch p d c = pdu_from_control p c.
Lemma pdu_from_control_is_hw : pdu_from_control_is hc_global__PDU_from_control.
Proof.
  intros p c. unfold run_dispatch, pdu_from_control, hc_global__PDU_from_control.
  cbn [d_bits d_field d_mask d_arms d_body arm_targets map].
  destruct (cast_num 16 (get c "pduType")) as [v| | |]; cbn [obind]; try reflexivity.
  unfold pdutype_known, PDUTYPE_DEMANDACTIVE, PDUTYPE_DATA, PDUTYPE_CONFIRMACTIVE, PDUTYPE_DEACTIVATEALL.
  cbn [assoc_n]. by_cases v.
Qed.


(* ================================================================== global::DataPDU::from_pdu (src/core/global.rs) *)
Definition hc_global__DataPDU_from_pdu : dispatch :=
mkDispatch "PDUType2" 8 "pduType2" None [
  ("Pdutype2Update", 2, (GErr "NotImplemented"));
  ("Pdutype2Control", 20, (GLayout "ts_control_pdu" ["None"]));
  ("Pdutype2Pointer", 27, (GErr "NotImplemented"));
  ("Pdutype2Input", 28, (GErr "NotImplemented"));
  ("Pdutype2Synchronize", 31, (GLayout "ts_synchronize_pdu" ["None"]));
  ("Pdutype2RefreshRect", 33, (GErr "NotImplemented"));
  ("Pdutype2PlaySound", 34, (GErr "NotImplemented"));
  ("Pdutype2SuppressOutput", 35, (GErr "NotImplemented"));
  ("Pdutype2ShutdownRequest", 36, (GErr "NotImplemented"));
  ("Pdutype2ShutdownDenied", 37, (GErr "NotImplemented"));
  ("Pdutype2SaveSessionInfo", 38, (GErr "NotImplemented"));
  ("Pdutype2Fontlist", 39, (GLayout "ts_font_list_pdu" []));
  ("Pdutype2Fontmap", 40, (GLayout "ts_font_map_pdu" []));
  ("Pdutype2SetKeyboardIndicators", 41, (GErr "NotImplemented"));
  ("Pdutype2BitmapcachePersistentList", 43, (GErr "NotImplemented"));
  ("Pdutype2BitmapcacheErrorPdu", 44, (GErr "NotImplemented"));
  ("Pdutype2SetKeyboardImeStatus", 45, (GErr "NotImplemented"));
  ("Pdutype2OffscrcacheErrorPdu", 46, (GErr "NotImplemented"));
  ("Pdutype2SetErrorInfoPdu", 47, (GLayout "ts_set_error_info_pdu" []));
  ("Pdutype2DrawninegridErrorPdu", 48, (GErr "NotImplemented"));
  ("Pdutype2DrawgdiplusErrorPdu", 49, (GErr "NotImplemented"));
  ("Pdutype2ArcStatusPdu", 50, (GErr "NotImplemented"));
  ("Pdutype2StatusInfoPdu", 54, (GErr "NotImplemented"));
  ("Pdutype2MonitorLayoutPdu", 55, (GErr "NotImplemented"));
  ("Unknown", 56, (GErr "NotImplemented"))
] "payload".


Definition data_pdu_from_pdu_is (d : dispatch) : Prop := forall p c, run_dispatch p d c = data_pdu_from_pdu p c.
Lemma data_pdu_from_pdu_is_hw : data_pdu_from_pdu_is hc_global__DataPDU_from_pdu.
Proof.
  intros p c. unfold run_dispatch, data_pdu_from_pdu, hc_global__DataPDU_from_pdu.
  cbn [d_bits d_field d_mask d_arms d_body arm_targets map].
  destruct (cast_num 8 (get c "pduType2")) as [v| | |]; cbn [obind]; try reflexivity.
  unfold pdutype2_known, PDUTYPE2_SYNCHRONIZE, PDUTYPE2_CONTROL, PDUTYPE2_FONTLIST, PDUTYPE2_FONTMAP, PDUTYPE2_SET_ERROR_INFO.
  cbn [assoc_n existsb]. by_cases v.
Qed.


(* ================================================================== global::FastPathUpdate::from_fp (src/core/global.rs) *)
Definition hc_global__FastPathUpdate_from_fp : dispatch :=
mkDispatch "FastPathUpdateType" 8 "updateHeader" (Some 15) [
  ("FastpathUpdatetypeOrders", 0, (GErr "NotImplemented"));
  ("FastpathUpdatetypeBitmap", 1, (GLayout "ts_fp_update_bitmap" []));
  ("FastpathUpdatetypePalette", 2, (GErr "NotImplemented"));
  ("FastpathUpdatetypeSynchronize", 3, (GLayout "ts_fp_update_synchronize" []));
  ("FastpathUpdatetypeSurfcmds", 4, (GErr "NotImplemented"));
  ("FastpathUpdatetypePtrNull", 5, (GLayout "ts_fp_systempointerhiddenattribute" []));
  ("FastpathUpdatetypePtrDefault", 6, (GErr "NotImplemented"));
  ("FastpathUpdatetypePtrPosition", 8, (GErr "NotImplemented"));
  ("FastpathUpdatetypeColor", 9, (GLayout "ts_colorpointerattribute" []));
  ("FastpathUpdatetypeCached", 10, (GErr "NotImplemented"));
  ("FastpathUpdatetypePointer", 11, (GErr "NotImplemented"));
  ("Unknown", 12, (GErr "NotImplemented"))
] "updateData".


Definition fp_from_fp_is (d : dispatch) : Prop := forall p c, run_dispatch p d c = fp_from_fp p c.
Lemma fp_from_fp_is_hw : fp_from_fp_is hc_global__FastPathUpdate_from_fp.
Proof.
  intros p c. unfold run_dispatch, fp_from_fp, hc_global__FastPathUpdate_from_fp.
  cbn [d_bits d_field d_mask d_arms d_body arm_targets map].
  destruct (cast_num 8 (get c "updateHeader")) as [h| | |]; cbn [obind]; try reflexivity.
  generalize (N.land h 15). intros v.
  unfold fp_type_known, FP_BITMAP, FP_COLOR, FP_SYNCHRONIZE, FP_PTR_NULL.
  cbn [assoc_n existsb]. by_cases v.
Qed.


(* ================================================================== mcs::Client::read (src/core/mcs.rs) *)
Definition hc_mcs__Client_read : list (string * ctree) :=
[
  ("FastPath",
   TOk "FastPath" [(AVal (XStr "global")); (AVal (XBind 0)); (AVal (XBind 1))]);
  ("Raw",
   TTake 1 (TIf (KEq (XShr (XB 0) (XK 2)) (XK 8))
      (TErr "Disconnect")
      (TIf (KEq (XShr (XB 0) (XK 2)) (XK 26))
        (TStep "per::read_integer_16" [1001] (
        TStep "per::read_integer_16" [0] (
        TLookup "channel_ids" (XStep 1) "Unknown" (
        TStep "per::read_enumerates" [] (
        TStep "per::read_length" [] (
        TOk "Raw" [(AVal (XFld (XStep 2) 0)); (AVal XStream)]))))))
        (TErr "InvalidData"))))
].


(* ---- mcs::Client::read: the Raw arm parses the send-data-indication header off the X.224 payload.
   [chans]: the ids in self.channel_ids ("global" first); [only_global]: RdpClient::read refuses every channel but
   "global" once the header is parsed (Global.mcs_read folds this in; Connect.mcs_read_any does not). *)
Fixpoint run_mcs (t : ctree) (chans : list N) (only_global : bool) (bs steps : list N) (input : bytes) : outcome payload :=
  match t with
  | TTake n k =>
      if n =? 1 then match input with [] => Err EIo | h :: r => run_mcs k chans only_global (bs ++ [h]) steps r end else Panic
  | TIf c a b => if ck_eval bs c then run_mcs a chans only_global bs steps input else run_mcs b chans only_global bs steps input
  | TErr k => err_out k
  | TStep f args k =>
      if seqb f "per::read_integer_16" then
        match args with
        | [m] => obind (per_read_integer_16 m input) (fun x => run_mcs k chans only_global bs (steps ++ [fst x]) (snd x))
        | _ => Panic
        end
      else if seqb f "per::read_enumerates" then
        match input with [] => Err EIo | e :: r => run_mcs k chans only_global bs (steps ++ [e]) r end
      else if seqb f "per::read_length" then
        obind (per_read_length input) (fun x => run_mcs k chans only_global bs (steps ++ [fst x]) (snd x))
      else Panic
  | TLookup tb (XStep i) e k =>
      let chan := nth (N.to_nat i) steps 0 in
      if seqb tb "channel_ids" then
        if negb (existsb (N.eqb chan) chans) then err_out e else run_mcs k chans only_global bs (steps ++ [chan]) input
      else Panic
  | TOk ctor [AVal (XFld (XStep j) 0); AVal XStream] =>
      let chan := nth (N.to_nat j) steps 0 in
      if seqb ctor "Raw" then
        if negb only_global || (chan =? hd 0 chans) then Ok (Raw input) else Err EUnexpectedType
      else Panic
  | _ => Panic
  end.
Definition run_mcs_read (arms : list (string * ctree)) (chans : list N) (only_global : bool) (pl : payload) : outcome payload :=
  match pl with
  | FastPath f b =>
      match assoc_s "FastPath" arms with
      | Some (TOk ctor [AVal (XStr ch); AVal (XBind 0); AVal (XBind 1)]) =>
          if seqb ctor "FastPath" && seqb ch "global" then Ok (FastPath f b) else Panic
      | _ => Panic
      end
  | Raw b => match assoc_s "Raw" arms with Some t => run_mcs t chans only_global [] [] b | None => Panic end
  end.

Definition mcs_read_is (arms : list (string * ctree)) : Prop :=
  (forall s pl, run_mcs_read arms [channel_id s; user_id s] true pl = Global.mcs_read s pl) /\
  (forall uid io pl, run_mcs_read arms [io; uid] false pl = Connect.mcs_read_any uid io pl).


Lemma mcs_read_is_hw : mcs_read_is hc_mcs__Client_read.
Proof.
  split.
  - intros s pl. destruct pl as [b|f b]; [|reflexivity].
    unfold run_mcs_read, Global.mcs_read, hc_mcs__Client_read. cbn [assoc_s String.eqb Ascii.eqb Bool.eqb run_mcs N.eqb Pos.eqb].
    destruct b as [|header r0]; [reflexivity|].
    cbn [app ck_eval cx_eval nth]. nat_consts. cbn [nth].
    destruct (N.shiftr header 2 =? 8); [reflexivity|].
    destruct (N.shiftr header 2 =? 26); [|reflexivity]. cbn [negb].
    destruct (per_read_integer_16 1001 r0) as [[v1 r1]| | |]; cbn [obind fst snd]; try reflexivity.
    destruct (per_read_integer_16 0 r1) as [[chan r2]| | |]; cbn [obind fst snd app]; try reflexivity.
    nat_consts. cbn [nth existsb]. rewrite Bool.orb_false_r.
    destruct ((chan =? channel_id s) || (chan =? user_id s)); cbn [negb]; [|reflexivity].
    destruct r2 as [|e r3]; [reflexivity|].
    destruct (per_read_length r3) as [[v4 r4]| | |]; cbn [obind fst snd app]; try reflexivity.
  - intros uid io pl. destruct pl as [b|f b]; [|reflexivity].
    unfold run_mcs_read, Connect.mcs_read_any, hc_mcs__Client_read. cbn [assoc_s String.eqb Ascii.eqb Bool.eqb run_mcs N.eqb Pos.eqb].
    destruct b as [|header r0]; [reflexivity|].
    cbn [app ck_eval cx_eval nth]. nat_consts. cbn [nth].
    destruct (N.shiftr header 2 =? 8); [reflexivity|].
    destruct (N.shiftr header 2 =? 26); [|reflexivity]. cbn [negb].
    destruct (per_read_integer_16 1001 r0) as [[v1 r1]| | |]; cbn [obind fst snd]; try reflexivity.
    destruct (per_read_integer_16 0 r1) as [[chan r2]| | |]; cbn [obind fst snd app]; try reflexivity.
    nat_consts. cbn [nth existsb]. rewrite Bool.orb_false_r.
    destruct ((chan =? io) || (chan =? uid)); cbn [negb]; [|reflexivity].
    unfold per_read_u8. destruct r2 as [|e r3]; [reflexivity|]. cbn [obind fst snd].
    destruct (per_read_length r3) as [[v4 r4]| | |]; cbn [obind fst snd app]; try reflexivity.
Qed.


(* ================================================================== tpkt::Client::read (src/core/tpkt.rs) *)
Definition hc_tpkt__Client_read : ctree :=
TRead 2 (TIf (KEq (XB 0) (XK 3))
    (TRead 2 (TIf (KLt (XBe16 (XB 2) (XB 3)) (XK 4))
      (TErr "InvalidSize")
      (TOk "Raw" [(ABody "read_body" (XSub (XBe16 (XB 2) (XB 3)) (XK 4)))])))
    (TIf (KEq (XAnd (XB 1) (XK 128)) (XK 0))
      (TIf (KLt (XB 1) (XK 2))
        (TErr "InvalidSize")
        (TOk "FastPath" [(AVal (XAnd (XShr (XB 0) (XK 6)) (XK 3))); (ABody "read_body" (XSub (XB 1) (XK 2)))]))
      (TRead 1 (TIf (KLt (XOr (XB 2) (XShl (XAnd (XB 1) (XK 127)) (XK 8))) (XK 3))
        (TErr "InvalidSize")
        (TOk "FastPath" [(AVal (XAnd (XShr (XB 0) (XK 6)) (XK 3))); (ABody "read_body" (XSub (XOr (XB 2) (XShl (XAnd (XB 1) (XK 127)) (XK 8))) (XK 3)))]))))).


Definition hdr_body (mk : bytes -> payload) (n : N) (cs : stream) : outcome payload * stream :=
  match read_body (N.to_nat n) cs with
  | (Ok p, cs3) => (Ok (mk p), cs3)
  | (Err e, cs3) => (Err e, cs3)
  | (Panic, cs3) => (Panic, cs3)
  | (Spin, cs3) => (Spin, cs3)
  end.

Fixpoint has_len (n : nat) (b : bytes) : bool :=
  match n, b with O, [] => true | S k, _ :: t => has_len k t | _, _ => false end.

Fixpoint run_hdr (t : ctree) (bs : list N) (cs : stream) : outcome payload * stream :=
  match t with
  | TRead n k =>
      match link_read (N.to_nat n) cs with
      | (Ok b, cs1) => if has_len (N.to_nat n) b then run_hdr k (bs ++ b) cs1 else (Panic, cs1)
      | (Err e, cs1) => (Err e, cs1)
      | (Panic, cs1) => (Panic, cs1)
      | (Spin, cs1) => (Spin, cs1)
      end
  | TIf c a b => if ck_eval bs c then run_hdr a bs cs else run_hdr b bs cs
  | TErr k => (match err_of k with Some e => Err e | None => Panic end, cs)
  | TOk ctor [ABody f len] =>
      if String.eqb ctor "Raw" && String.eqb f "read_body" then hdr_body Raw (cx_eval bs len) cs else (Panic, cs)
  | TOk ctor [AVal sec; ABody f len] =>
      if String.eqb ctor "FastPath" && String.eqb f "read_body" then hdr_body (FastPath (cx_eval bs sec)) (cx_eval bs len) cs
      else (Panic, cs)
  | _ => (Panic, cs)
  end.

Definition tpkt_read_is (t : ctree) : Prop := forall cs, run_hdr t [] cs = tpkt_read cs.


Ltac hdr_step :=
  cbn [run_hdr has_len app ck_eval cx_eval nth]; nat_consts; cbn [has_len app nth];
  try reflexivity.

Lemma tpkt_read_is_hw : tpkt_read_is hc_tpkt__Client_read.
Proof.
  intros cs. unfold hc_tpkt__Client_read, tpkt_read. hdr_step.
  destruct (link_read 2 cs) as [[b| | |] cs1]; try reflexivity.
  destruct b as [|action [|b1 [|x r]]]; hdr_step.
  destruct (action =? 3).
  - destruct (link_read 2 cs1) as [[b| | |] cs2]; try reflexivity.
    destruct b as [|hi [|lo [|x r]]]; hdr_step.
  - destruct (N.land b1 128 =? 0); [reflexivity|].
    destruct (link_read 1 cs1) as [[b| | |] cs2]; try reflexivity.
    destruct b as [|lo [|x r]]; hdr_step.
    rewrite (N.lor_comm lo). reflexivity.
Qed.


(* ================================================================== x224::Client::read_connection_confirm (src/core/x224.rs) *)
Definition hc_x224__Client_read_connection_confirm : dispatch :=
mkDispatch "NegotiationType" 8 "type" None [
  ("TypeRDPNegReq", 1, (GErr "InvalidAutomata"));
  ("TypeRDPNegRsp", 2, (GOkTryFrom "Protocols" 32 "result"));
  ("TypeRDPNegFailure", 3, (GErr "ProtocolNegFailure"))
] "".


Definition enum_known (e : string) : option (N -> bool) :=
  assoc_s e [("Protocols", protocol_known); ("ErrorCode", lic_errorcode_known); ("StateTransition", lic_transition_known)].
Definition run_nego (d : dispatch) (nego : msg) : outcome N :=
  obind (cast_num (d_bits d) (Msg.get nego (d_field d))) (fun t =>
  match assoc_n t (arm_targets d) with
  | None => Err EInvalidCast
  | Some (GErr k) => err_out k
  | Some (GOkTryFrom e bits f) =>
      match enum_known e with
      | Some known => obind (cast_num bits (Msg.get nego f)) (fun r => if known r then Ok r else Err EInvalidCast)
      | None => Panic
      end
  | Some _ => Panic
  end).
Definition nego_result_is (d : dispatch) : Prop := forall nego, run_nego d nego = nego_result nego.
Lemma nego_result_is_hw : nego_result_is hc_x224__Client_read_connection_confirm.
Proof.
  intros nego. unfold run_nego, nego_result, hc_x224__Client_read_connection_confirm.
  cbn [d_bits d_field d_mask d_arms d_body arm_targets map].
  destruct (cast_num 8 (Msg.get nego "type")) as [v| | |]; cbn [obind]; try reflexivity.
  unfold NEG_FAILURE, NEG_REQ, NEG_RSP. cbn [assoc_n]. by_cases v.
Qed.


(* ================================================================== license::parse_payload (src/core/license.rs) *)
Definition hc_license__parse_payload : dispatch :=
mkDispatch "MessageType" 8 "bMsgtype" None [
  ("LicenseRequest", 1, (GErr "NotImplemented"));
  ("PlatformChallenge", 2, (GErr "NotImplemented"));
  ("NewLicense", 3, (GOk "LicenseMessage::NewLicense"));
  ("UpgradeLicense", 4, (GErr "NotImplemented"));
  ("LicenseInfo", 18, (GErr "NotImplemented"));
  ("NewLicenseRequest", 19, (GErr "NotImplemented"));
  ("PlatformChallengeResponse", 21, (GErr "NotImplemented"));
  ("ErrorAlert", 255, (GRead "licensing_error_message" "message" "LicenseMessage::ErrorAlert"))
] "".


(* ================================================================== license::client_connect (src/core/license.rs) *)
Definition hc_license__client_connect : dispatch :=
mkDispatch "LicenseMessage" 0 "parse_payload()" None [
  ("NewLicense", 0, (GOk "()"));
  ("ErrorAlert", 1, (GCond [("ErrorCode", 32, "dwErrorCode", "StatusValidClient", 7); ("StateTransition", 32, "dwStateTransition", "StNoTransition", 2)] (GOk "()") (GErr "InvalidRespond")))
] "".


(* ---- license::client_connect over license::parse_payload *)
Fixpoint run_conds (conds : list (string * N * string * string * N)) (blob : msg) (t e : outcome unit) : outcome unit :=
  match conds with
  | [] => t
  | (en, bits, f, _, val) :: tl =>
      match enum_known en with
      | Some known =>
          obind (cast_num bits (Msg.get blob f)) (fun x =>
          if negb (known x) then Err EInvalidCast else if x =? val then run_conds tl blob t e else e)
      | None => Panic
      end
  end.
Definition simple_target (g : target) : option (outcome unit) :=
  match g with GOk w => if seqb w "()" then Some (Ok tt) else None | GErr k => Some (err_out k) | _ => None end.
(* the arm of client_connect for the LicenseMessage variant parse_payload returned *)
Definition cc_arm (cc : dispatch) (variant : string) (blob : option msg) : outcome unit :=
  match assoc_s variant (map (fun '(v, _, g) => (String.append "LicenseMessage::" v, g)) (d_arms cc)) with
  | Some (GCond conds t e) =>
      match blob, simple_target t, simple_target e with
      | Some b, Some t', Some e' => run_conds conds b t' e'
      | _, _, _ => Panic
      end
  | Some g => match simple_target g with Some o => o | None => Panic end
  | None => Panic
  end.
Definition license_layouts : list (string * msg) := [("licensing_error_message", SkelMap.hw_license__licensing_error_message__t1)].
Definition run_license (p : prof) (pp cc : dispatch) (input : bytes) : outcome unit * N :=
  let r := rda p SkelMap.hw_license__preamble__t1 input in
  match fst r with
  | Ok lic =>
      match cast_num (d_bits pp) (Msg.get lic (d_field pp)) with
      | Ok t =>
          match assoc_n t (arm_targets pp) with
          | None => (Err EInvalidCast, snd r)
          | Some (GErr k) => (err_out k, snd r)
          | Some (GOk w) => (cc_arm cc w None, snd r)
          | Some (GRead lay f w) =>
              match assoc_s lay license_layouts, cast_bytes (Msg.get lic f) with
              | Some tm, Ok body => let r2 := rda p tm body in
                                    (obind (fst r2) (fun blob => cc_arm cc w (Some blob)), N.max (snd r) (snd r2))
              | Some _, Err e => (Err e, snd r)
              | Some _, Panic => (Panic, snd r)
              | Some _, Spin => (Spin, snd r)
              | None, _ => (Panic, snd r)
              end
          | Some _ => (Panic, snd r)
          end
      | Err e => (Err e, snd r)
      | Panic => (Panic, snd r)
      | Spin => (Spin, snd r)
      end
  | Err e => (Err e, snd r)
  | Panic => (Panic, snd r)
  | Spin => (Spin, snd r)
  end.
Definition license_client_connect_is (pp cc : dispatch) : Prop :=
  forall p input, run_license p pp cc input = license_client_connect p input.
Lemma license_client_connect_is_hw : license_client_connect_is hc_license__parse_payload hc_license__client_connect.
Proof.
  intros p input. unfold run_license, license_client_connect, SkelMap.hw_license__preamble__t1.
  destruct (rda p preamble input) as [[lic| | |] a]; cbn [fst snd]; try reflexivity.
  unfold hc_license__parse_payload. cbn [d_bits d_field d_mask d_arms d_body arm_targets map].
  destruct (cast_num 8 (Msg.get lic "bMsgtype")) as [v| | |]; try reflexivity.
  unfold lic_msgtype_known, LIC_NEW_LICENSE, LIC_ERROR_ALERT. cbn [assoc_n existsb].
  repeat match goal with
  | |- context [v =? ?k] =>
      lazymatch k with Npos _ => idtac | N0 => idtac end;
      let E := fresh "E" in destruct (v =? k) eqn:E; [apply N.eqb_eq in E; subst v; try reflexivity|]
  end; try reflexivity.
Qed.


(* ================================================================== client::KeyboardLayout::from (src/core/client.rs) *)
Definition hc_client__KeyboardLayout_from : strtable :=
mkStrTable "KeyboardLayout" [("fr", "French", 1036); ("us", "US", 1033)] ("US", 1033).

(* the bytes of a Rust string literal without escapes above 0x7f *)
Definition bytes_of_string (s : string) : bytes := map Ascii.N_of_ascii (String.list_ascii_of_string s).
Fixpoint strtable_lookup (rows : list (string * string * N)) (dflt : N) (name : bytes) : N :=
  match rows with
  | [] => dflt
  | (k, _, v) :: tl => if kbd_name_eqb name (bytes_of_string k) then v else strtable_lookup tl dflt name
  end.
(* the session model's driver (ocaml/session/driver.ml) turns the layout name of a case line into the layout code with
   Global.keyboard_layout_from; the Rust harness calls KeyboardLayout::from on the same name *)
Definition keyboard_layout_is (t : strtable) : Prop :=
  st_enum t = "KeyboardLayout" /\
  forall name, strtable_lookup (st_rows t) (snd (st_default t)) name = keyboard_layout_from name.
Lemma keyboard_layout_is_hw : keyboard_layout_is hc_client__KeyboardLayout_from.
Proof. split; [reflexivity|]. intros name. reflexivity. Qed.
