(* HAND-WRITTEN anchors of the control normal forms (Gen/CtlMap.v) in the PROOF-LEVEL relations of property C12:
   the edge relation [C12_proofs.edge] (and so [path], its reflexive-transitive closure), the reference automaton
   [RefSession.ref_step] through [C12_ref_proofs.abs]/[conc], and the input / bitmap window [RefSession.window].

   Each `Lemma <name>_hw : <statement over CtlMap.hc_ terms>.` (one line) is restated by the translator on the
   GENERATED tables in Gen/Tie/C_global__Client_read__C12.v (tie key "global::Client::read@C12" in gen/ties.py), so
   what is finally proved reads: the edges of the activation sequence the C12 theorems speak about are exactly
   the state updates read off global::Client::read / read_data_pdu in the Rust source. *)
From RdpV Require Import Base Msg Ctl Link Tpkt LayoutsGlobal Global C12_proofs RefSession C12_ref_proofs.
From RdpV.Gen Require CtlMap.
Import CtlMap.
Open Scope string_scope.
Open Scope list_scope.
Open Scope N_scope.

Definition assigns (x : gstate) (acts : list string) : list (gstate * gstate) :=
  flat_map (fun a => match assigned a with Some y => [(x, y)] | None => [] end) acts.

(* every state update the tables allow: `self.state = Y` in the arm of X of global::Client::read, and the updates of
   read_data_pdu in the states whose arm calls it *)
Definition table_edges (arms : list arm) (lg : list lguard) : list (gstate * gstate) :=
  flat_map (fun a =>
    match state_of (a_state a) with
    | Some x => assigns x (a_then a ++ a_after a) ++
                (if seqb (a_handler a) "read_data_pdu" then flat_map (fun g => assigns x (lg_actions g)) lg else [])
    | None => []
    end) arms.

(* the edge relation of C12_proofs.v (client_read_step, run_follows_edges, window_has_last_entry are stated over it) *)
Definition edge_table_is (arms : list arm) (lg : list lguard) : Prop :=
  forall x y, edge x y <-> In (x, y) (table_edges arms lg).
Lemma edge_table_is_hw : edge_table_is CtlMap.hc_global__Client_read CtlMap.hc_global__Client_read_data_pdu.
Proof.
  assert (E : table_edges hc_global__Client_read hc_global__Client_read_data_pdu =
              [(SDemandActive, SSynchronize); (SSynchronize, SControlCooperate); (SControlCooperate, SControlGranted);
               (SControlGranted, SFontMap); (SFontMap, SData); (SData, SDemandActive)]) by (vm_compute; reflexivity).
  intros x y. rewrite E. split.
  - intros H. destruct H; cbn; tauto.
  - cbn. intros H.
    repeat (destruct H as [H|H]; [inversion H; subst; constructor|]). destruct H.
Qed.

(* the reference automaton of RefSession.v (the specification side of C12): every step that moves is a table edge,
   and every table edge is the step of some letter *)
Definition ref_step_table_is (arms : list arm) (lg : list lguard) : Prop :=
  (forall q m, ref_step q m = q \/ In (conc q, conc (ref_step q m)) (table_edges arms lg)) /\
  (forall x y, In (x, y) (table_edges arms lg) -> exists m, ref_step (abs x) m = abs y).
Lemma ref_step_table_is_hw : ref_step_table_is CtlMap.hc_global__Client_read CtlMap.hc_global__Client_read_data_pdu.
Proof.
  assert (E : table_edges hc_global__Client_read hc_global__Client_read_data_pdu =
              [(SDemandActive, SSynchronize); (SSynchronize, SControlCooperate); (SControlCooperate, SControlGranted);
               (SControlGranted, SFontMap); (SFontMap, SData); (SData, SDemandActive)]) by (vm_compute; reflexivity).
  split.
  - intros q m. rewrite E. destruct q; destruct m; cbn; tauto.
  - intros x y. rewrite E. cbn. intros H.
    repeat (destruct H as [H|H]; [inversion H; subst|]); try destruct H.
    + exists (DemandActive 0 []). reflexivity.
    + exists Synchronize. reflexivity.
    + exists ControlCooperate. reflexivity.
    + exists ControlGranted. reflexivity.
    + exists FontMap. reflexivity.
    + exists DeactivateAll. reflexivity.
Qed.

(* the window of the property (RefSession.window: input accepted, bitmaps delivered) is the set of states in which
   write_input_event's gate lets the event through, and the set of states whose arm takes a fast-path payload *)
Definition window_is (arms : list arm) (g : gate) : Prop :=
  forall h, window h = existsb (seqb (name_of (conc (ref_state h)))) (input_states g) /\
            window h = existsb (seqb (name_of (conc (ref_state h)))) (fastpath_states arms).
Lemma window_is_hw : window_is CtlMap.hc_global__Client_read CtlMap.hc_global__Client_write_input_event.
Proof. intros h. unfold window. destruct (ref_state h); split; reflexivity. Qed.
