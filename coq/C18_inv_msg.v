(* C18, message interpreter, the OTHER direction: write after read.

   [read] is not injective; the bytes it consumes but does not keep in the result are
     - what is left in the sub-cursor of a SIZED field once the field has been read,
     - what a FAILED read of an optional field (Option::read swallows the error) or of the
       last, failing element of an Array had consumed,
   and nothing else.  [slack p t bs] counts exactly those bytes, by recursion over the
   template, re-running the sub-reads.  For every template whose arrays start empty
   ([tmpl_ok]: every template of the crate; Array::new has no elements), every input and
   both profiles:

       read p t bs = ROk m rest a  ->
         exists b, write p m = Some b /\ |b| + slack p t bs + |rest| = |bs|
                   /\ (b ++ rest = bs  <->  slack p t bs = 0)        (bs made of octets)

   i.e. the message read is always writable, what it writes is the input minus the dropped
   bytes, and it is the input EXACTLY when nothing was dropped ([tight]).  For the flat
   templates (no Option, no Array) whose sized fields are read-to-end blocks
   ([always_tight], decidable on the template) nothing is ever dropped: those layouts are
   read and written back verbatim. *)
From RdpV Require Import Base Msg MsgInd MsgTheory MsgSafe MsgShape Canon C18_inv_base.
Open Scope string_scope.
Open Scope list_scope.
Open Scope N_scope.

Ltac Zify.zify_post_hook ::= Z.to_euclidean_division_equations.

Fixpoint tmpl_ok_list (l : list msg) : bool := match l with [] => true | x :: tl => tmpl_ok x && tmpl_ok_list tl end.
Fixpoint tmpl_ok_fields (fs : list (string * msg)) : bool :=
  match fs with [] => true | (_, v) :: tl => tmpl_ok v && tmpl_ok_fields tl end.
Lemma tmpl_ok_trame l : tmpl_ok (MTrame l) = tmpl_ok_list l.
Proof. induction l as [|x tl IH]; [reflexivity|]. cbn [tmpl_ok_list]. rewrite <- IH. reflexivity. Qed.
Lemma tmpl_ok_comp fs : tmpl_ok (MComp fs) = tmpl_ok_fields fs.
Proof. induction fs as [|[n v] tl IH]; [reflexivity|]. cbn [tmpl_ok_fields]. rewrite <- IH. reflexivity. Qed.

(* ================================================================ what is left is a suffix of the input *)
Definition sfx (r : rres) (bs : bytes) : Prop :=
  match r with
  | ROk _ rest _ | RErr _ rest _ => exists pre, bs = pre ++ rest
  | _ => True
  end.

Lemma sfx_nil bs : exists pre : bytes, bs = pre ++ [].
Proof. exists bs. now rewrite app_nil_r. Qed.

Lemma sfx_trans (bs r r' : bytes) : (exists pre, bs = pre ++ r) -> (exists pre, r = pre ++ r') -> exists pre, bs = pre ++ r'.
Proof. intros [a ->] [b ->]. exists (a ++ b). now rewrite app_assoc. Qed.

Lemma sfx_trame p l : Forall (fun x => forall bs, sfx (read p x bs) bs) l ->
  forall bs acc a, sfx (read_trame (read p) l bs acc a) bs.
Proof.
  induction l as [|x tl IH]; intros HF bs acc a; cbn [read_trame].
  - exists []. reflexivity.
  - inversion HF as [|? ? Hx Htl]; subst. specialize (Hx bs).
    destruct (read p x bs) as [x' r a'|e r a'| |]; cbn [sfx] in *; auto.
    specialize (IH Htl r (x' :: acc) (N.max a a')).
    destruct (read_trame (read p) tl r (x' :: acc) (N.max a a')); cbn [sfx] in *; auto; eapply sfx_trans; eauto.
Qed.

Lemma sfx_field p v : (forall bs, sfx (read p v bs) bs) -> forall bs size, sfx (read_field (read p) v bs size) bs.
Proof.
  intros Hv bs size. unfold read_field. destruct size as [n|]; [|apply Hv].
  destruct (isize_max <? n); [exact I|].
  destruct (take (N.to_nat n) bs) as [[local rest]|] eqn:Ht; [|apply sfx_nil].
  apply take_spec in Ht. destruct Ht as [-> _].
  destruct (read p v local); cbn [sfx]; auto; eexists; reflexivity.
Qed.

Lemma sfx_comp p fs : Forall (fun nv => forall bs, sfx (read p (snd nv) bs) bs) fs ->
  forall bs skip dyn acc a, sfx (read_comp p (read p) fs bs skip dyn acc a) bs.
Proof.
  induction fs as [|[name v] tl IH]; intros HF bs skip dyn acc a; cbn [read_comp].
  - exists []. reflexivity.
  - inversion HF as [|? ? Hv Htl]; subst. cbn [snd] in Hv. specialize (IH Htl).
    destruct (mem name skip); [apply IH|].
    pose proof (sfx_field p v Hv bs (dyn_lookup name dyn)) as Hf.
    destruct (read_field (read p) v bs (dyn_lookup name dyn)) as [v' r a'|e r a'| |]; cbn [sfx] in *; auto.
    destruct (options p v') as [|f|f n|]; cbn [sfx]; auto.
    + specialize (IH r skip dyn ((name, v') :: acc) (N.max a a')).
      destruct (read_comp p (read p) tl r skip dyn ((name, v') :: acc) (N.max a a')); cbn [sfx] in *; auto; eapply sfx_trans; eauto.
    + specialize (IH r (f :: skip) dyn ((name, v') :: acc) (N.max a a')).
      destruct (read_comp p (read p) tl r (f :: skip) dyn ((name, v') :: acc) (N.max a a')); cbn [sfx] in *; auto; eapply sfx_trans; eauto.
    + specialize (IH r skip ((f, n) :: dyn) ((name, v') :: acc) (N.max a a')).
      destruct (read_comp p (read p) tl r skip ((f, n) :: dyn) ((name, v') :: acc) (N.max a a')); cbn [sfx] in *; auto; eapply sfx_trans; eauto.
Qed.

Lemma sfx_array (rdt : bytes -> rres) mk : (forall bs, sfx (rdt bs) bs) ->
  forall fuel bs acc a, sfx (read_array rdt mk fuel bs acc a) bs.
Proof.
  intros Ht. induction fuel as [|fuel IH]; intros bs acc a; cbn [read_array]; [exact I|].
  specialize (Ht bs). destruct (rdt bs) as [e r a'|e r a'| |]; cbn [sfx] in *; auto.
  destruct (Nat.eqb (List.length r) (List.length bs)); [exact I|].
  specialize (IH r (e :: acc) (N.max a a')).
  destruct (read_array rdt mk fuel r (e :: acc) (N.max a a')); cbn [sfx] in *; auto; eapply sfx_trans; eauto.
Qed.

Theorem read_suffix p : forall t bs, sfx (read p t bs) bs.
Proof.
  induction t using msg_ind'; intros bs; cbn [read].
  - destruct bs as [|b r]; cbn [sfx]; [exists []; reflexivity|exists [b]; reflexivity].
  - destruct bs as [|b0 [|b1 r]]; cbn [sfx]; try apply sfx_nil. exists [b0; b1]. reflexivity.
  - destruct bs as [|b0 [|b1 [|b2 [|b3 r]]]]; cbn [sfx]; try apply sfx_nil. exists [b0; b1; b2; b3]. reflexivity.
  - destruct b as [|x b]; [apply sfx_nil|].
    destruct (take (List.length (x :: b)) bs) as [[y r]|] eqn:Ht; cbn [sfx]; [|apply sfx_nil].
    apply take_spec in Ht. destruct Ht as [-> _]. eexists; reflexivity.
  - apply sfx_trame. exact H.
  - apply sfx_comp. exact H.
  - specialize (IHt bs). destruct (read p t bs) as [new r a|e r a| |]; cbn [sfx] in *; auto.
    destruct (check_eq t new); cbn [sfx]; exact IHt.
  - specialize (IHt bs). destruct (read p t bs); cbn [sfx] in *; auto.
  - exists []. reflexivity.
  - specialize (IHt bs). destruct (read p t bs); cbn [sfx] in *; auto.
  - exact I.
  - apply sfx_array. exact IHt.
Qed.

Lemma read_ok_suffix p t bs m rest a : read p t bs = ROk m rest a -> exists pre, bs = pre ++ rest.
Proof. intros H. pose proof (read_suffix p t bs) as S. rewrite H in S. exact S. Qed.

Lemma read_err_suffix p t bs e rest a : read p t bs = RErr e rest a -> exists pre, bs = pre ++ rest.
Proof. intros H. pose proof (read_suffix p t bs) as S. rewrite H in S. exact S. Qed.

Lemma suffix_all_bytes (bs pre rest : bytes) : bs = pre ++ rest -> all_bytes bs = true -> all_bytes rest = true.
Proof. intros -> H. apply all_bytes_app in H. tauto. Qed.

(* dropping a failed read: the count, and when it is zero *)
Lemma dropped_count (bs r : bytes) : (exists pre, bs = pre ++ r) ->
  0 + (nlen bs - nlen r) + nlen r = nlen bs /\ (nlen bs - nlen r = 0 -> [] ++ r = bs).
Proof.
  intros [pre ->]. rewrite nlen_app. split; [lia|]. intros H.
  assert (Hp : nlen pre = 0) by lia. destruct pre; [reflexivity|]. rewrite nlen_cons in Hp. lia.
Qed.

(* ================================================================ leaf codecs, backwards *)
Lemma enc16_dec e b0 b1 : b0 < 256 -> b1 < 256 ->
  enc16 e (match e with BE => of_be16 b0 b1 | LE => of_le16 b0 b1 end) = [b0; b1].
Proof.
  intros H0 H1. destruct e; unfold enc16, be16, le16, of_be16, of_le16, u16_hi, u16_lo; f_equal; try lia; f_equal; lia.
Qed.

Lemma enc32_dec e b0 b1 b2 b3 : b0 < 256 -> b1 < 256 -> b2 < 256 -> b3 < 256 ->
  enc32 e (match e with BE => of_be32 b0 b1 b2 b3 | LE => of_le32 b0 b1 b2 b3 end) = [b0; b1; b2; b3].
Proof.
  intros H0 H1 H2 H3. destruct e; unfold enc32, be32, le32, of_be32, of_le32; repeat (f_equal; try lia).
Qed.

(* ================================================================ the invariant *)
Definition inv_msg (p : prof) (t : msg) : Prop :=
  forall bs m rest a, tmpl_ok t = true -> read p t bs = ROk m rest a ->
    exists b, write p m = Some b /\
      nlen b + slack p t bs + nlen rest = nlen bs /\
      (all_bytes bs = true -> slack p t bs = 0 -> b ++ rest = bs).

Section Inverse.
Variable p : prof.

Lemma inv_trame l : Forall (inv_msg p) l ->
  forall bs acc a m rest a', tmpl_ok_list l = true -> read_trame (read p) l bs acc a = ROk m rest a' ->
    exists l', m = MTrame (rev acc ++ l') /\ exists b, write_list p l' = Some b /\
      nlen b + slack_trame (read p) (slack p) l bs + nlen rest = nlen bs /\
      (all_bytes bs = true -> slack_trame (read p) (slack p) l bs = 0 -> b ++ rest = bs).
Proof.
  induction l as [|x tl IH]; intros HF bs acc a m rest a' Hok Hr; cbn [read_trame slack_trame] in *.
  - injection Hr as <- <- _. exists []. rewrite app_nil_r. split; [reflexivity|]. exists []. cbn [write_list app].
    split; [reflexivity|]. split; [change (nlen (@nil N)) with 0; lia|reflexivity].
  - inversion HF as [|? ? Hx Htl]; subst. cbn [tmpl_ok_list] in Hok. apply andb_true_iff in Hok. destruct Hok as [Hokx Hoktl].
    destruct (read p x bs) as [x' r ax|e r ax| |] eqn:Hrx; try discriminate.
    destruct (Hx bs x' r ax Hokx Hrx) as (bx & Hwx & Hcx & Htx).
    destruct (IH Htl r (x' :: acc) (N.max a ax) m rest a' Hoktl Hr) as (l' & -> & bl & Hwl & Hcl & Htl').
    exists (x' :: l'). split; [cbn [rev]; rewrite <- app_assoc; reflexivity|].
    exists (bx ++ bl). cbn [write_list]. rewrite Hwx, Hwl. split; [reflexivity|]. split; [rewrite nlen_app; lia|].
    intros Hb Hs. destruct (read_ok_suffix p x bs x' r ax Hrx) as [pre Epre].
    rewrite <- app_assoc, (Htl' (suffix_all_bytes _ _ _ Epre Hb) ltac:(lia)). apply Htx; [exact Hb|lia].
Qed.

Lemma inv_field v : inv_msg p v -> forall bs size v' r a, tmpl_ok v = true ->
  read_field (read p) v bs size = ROk v' r a ->
  exists bv, write p v' = Some bv /\
    nlen bv + slack_field (read p) (slack p) v bs size + nlen r = nlen bs /\
    (all_bytes bs = true -> slack_field (read p) (slack p) v bs size = 0 -> bv ++ r = bs) /\
    (exists pre, bs = pre ++ r).
Proof.
  intros Hv bs size v' r a Hok Hr. unfold read_field in Hr. unfold slack_field. destruct size as [n|].
  - destruct (isize_max <? n); [discriminate|].
    destruct (take (N.to_nat n) bs) as [[local rest0]|] eqn:Ht; [|discriminate].
    apply take_spec in Ht. destruct Ht as [-> _].
    destruct (read p v local) as [v1 lft a1|e lft a1| |] eqn:Hrd; try discriminate. injection Hr as <- <- _.
    destruct (Hv local v1 lft a1 Hok Hrd) as (bv & Hw & Hc & Ht).
    exists bv. split; [exact Hw|]. split; [rewrite nlen_app; lia|]. split; [|eexists; reflexivity].
    intros Hb Hs. apply all_bytes_app in Hb. destruct Hb as [Hbl _].
    assert (Hleft : lft = []) by (destruct lft; [reflexivity|rewrite nlen_cons in Hs; lia]).
    subst lft. specialize (Ht Hbl ltac:(lia)). rewrite app_nil_r in Ht. rewrite Ht. reflexivity.
  - destruct (Hv bs v' r a Hok Hr) as (bv & Hw & Hc & Ht). exists bv. repeat split; auto.
    exact (read_ok_suffix p v bs v' r a Hr).
Qed.

Lemma inv_fields fs : Forall (fun nv => inv_msg p (snd nv)) fs ->
  forall bs skip dyn acc a m rest a', tmpl_ok_fields fs = true ->
    read_comp p (read p) fs bs skip dyn acc a = ROk m rest a' ->
    exists fs', m = MComp (rev acc ++ fs') /\ exists b, write_fields p fs' skip = Some b /\
      nlen b + slack_comp p (read p) (slack p) fs bs skip dyn + nlen rest = nlen bs /\
      (all_bytes bs = true -> slack_comp p (read p) (slack p) fs bs skip dyn = 0 -> b ++ rest = bs).
Proof.
  induction fs as [|[name v] tl IH]; intros HF bs skip dyn acc a m rest a' Hok Hr; cbn [read_comp slack_comp] in *.
  - injection Hr as <- <- _. exists []. rewrite app_nil_r. split; [reflexivity|]. exists []. cbn [write_fields app].
    split; [reflexivity|]. split; [change (nlen (@nil N)) with 0; lia|reflexivity].
  - inversion HF as [|? ? Hv Htl]; subst. cbn [snd] in Hv. specialize (IH Htl).
    cbn [tmpl_ok_fields] in Hok. apply andb_true_iff in Hok. destruct Hok as [Hokv Hoktl].
    destruct (mem name skip) eqn:Hm.
    + destruct (IH bs skip dyn ((name, v) :: acc) a m rest a' Hoktl Hr) as (fs' & -> & b & Hw & Hc & Ht).
      exists ((name, v) :: fs'). split; [cbn [rev]; rewrite <- app_assoc; reflexivity|].
      exists b. cbn [write_fields]. rewrite Hm. repeat split; auto.
    + destruct (read_field (read p) v bs (dyn_lookup name dyn)) as [v' r av|e r av| |] eqn:Hrf; try discriminate.
      destruct (inv_field v Hv bs _ v' r av Hokv Hrf) as (bv & Hwv & Hcv & Htv & Hsfx).
      assert (Hstep : forall skip' dyn',
                read_comp p (read p) tl r skip' dyn' ((name, v') :: acc) (N.max a av) = ROk m rest a' ->
                exists fs', m = MComp (rev acc ++ fs') /\ exists b,
                  match write_fields p (List.tl fs') skip' with Some bl => Some (bv ++ bl) | None => None end = Some b /\
                  List.hd (name, v') fs' = (name, v') /\ fs' <> [] /\
                  nlen b + (slack_field (read p) (slack p) v bs (dyn_lookup name dyn) + slack_comp p (read p) (slack p) tl r skip' dyn') + nlen rest = nlen bs /\
                  (all_bytes bs = true ->
                   slack_field (read p) (slack p) v bs (dyn_lookup name dyn) + slack_comp p (read p) (slack p) tl r skip' dyn' = 0 ->
                   b ++ rest = bs)).
      { intros skip' dyn' Hr'.
        destruct (IH r skip' dyn' ((name, v') :: acc) (N.max a av) m rest a' Hoktl Hr') as (fs' & -> & bl & Hwl & Hcl & Htl').
        exists ((name, v') :: fs'). split; [cbn [rev]; rewrite <- app_assoc; reflexivity|].
        exists (bv ++ bl). cbn [List.tl List.hd]. rewrite Hwl. split; [reflexivity|]. split; [reflexivity|]. split; [discriminate|].
        split; [rewrite nlen_app; lia|].
        intros Hb Hs. destruct Hsfx as [pre Epre].
        rewrite <- app_assoc, (Htl' (suffix_all_bytes _ _ _ Epre Hb) ltac:(lia)). apply Htv; [exact Hb|lia]. }
      destruct (options p v') as [|f|f n|] eqn:Hopt; try discriminate.
      * destruct (Hstep skip dyn Hr) as (fs' & -> & b & Hw & Hhd & Hne & Hc & Ht).
        destruct fs' as [|[n0 v0] fs'']; [contradiction|]. cbn [List.hd List.tl] in *. injection Hhd as -> ->.
        eexists. split; [reflexivity|]. exists b. cbn [write_fields]. rewrite Hm, Hwv, Hopt.
        destruct (write_fields p fs'' skip); [|discriminate]. repeat split; auto.
      * destruct (Hstep (f :: skip) dyn Hr) as (fs' & -> & b & Hw & Hhd & Hne & Hc & Ht).
        destruct fs' as [|[n0 v0] fs'']; [contradiction|]. cbn [List.hd List.tl] in *. injection Hhd as -> ->.
        eexists. split; [reflexivity|]. exists b. cbn [write_fields]. rewrite Hm, Hwv, Hopt.
        destruct (write_fields p fs'' (f :: skip)); [|discriminate]. repeat split; auto.
      * destruct (Hstep skip ((f, n) :: dyn) Hr) as (fs' & -> & b & Hw & Hhd & Hne & Hc & Ht).
        destruct fs' as [|[n0 v0] fs'']; [contradiction|]. cbn [List.hd List.tl] in *. injection Hhd as -> ->.
        eexists. split; [reflexivity|]. exists b. cbn [write_fields]. rewrite Hm, Hwv, Hopt.
        destruct (write_fields p fs'' skip); [|discriminate]. repeat split; auto.
Qed.

Lemma inv_array tmpl mk : inv_msg p tmpl -> tmpl_ok tmpl = true ->
  forall fuel bs acc a m rest a', read_array (read p tmpl) mk fuel bs acc a = ROk m rest a' ->
    exists els, m = mk (rev acc ++ els) /\ exists b, write_list p els = Some b /\
      nlen b + slack_array (read p tmpl) (slack p tmpl) fuel bs + nlen rest = nlen bs /\
      (all_bytes bs = true -> slack_array (read p tmpl) (slack p tmpl) fuel bs = 0 -> b ++ rest = bs).
Proof.
  intros Ht Hok. induction fuel as [|fuel IH]; intros bs acc a m rest a' Hr; cbn [read_array slack_array] in *; [discriminate|].
  destruct (read p tmpl bs) as [e r ae|e r ae| |] eqn:Hre; try discriminate.
  - destruct (Nat.eqb (List.length r) (List.length bs)); [discriminate|].
    destruct (Ht bs e r ae Hok Hre) as (be & Hwe & Hce & Hte).
    destruct (IH r (e :: acc) (N.max a ae) m rest a' Hr) as (els & -> & bl & Hwl & Hcl & Htl).
    exists (e :: els). split; [cbn [rev]; rewrite <- app_assoc; reflexivity|].
    exists (be ++ bl). cbn [write_list]. rewrite Hwe, Hwl. split; [reflexivity|]. split; [rewrite nlen_app; lia|].
    intros Hb Hs. destruct (read_ok_suffix p tmpl bs e r ae Hre) as [pre Epre].
    rewrite <- app_assoc, (Htl (suffix_all_bytes _ _ _ Epre Hb) ltac:(lia)). apply Hte; [exact Hb|lia].
  - injection Hr as <- <- _. exists []. rewrite app_nil_r. split; [reflexivity|]. exists []. cbn [write_list].
    destruct (dropped_count bs r (read_err_suffix p tmpl bs e r ae Hre)) as [Hc Ht0]. change (nlen (@nil N)) with 0.
    split; [reflexivity|]. split; [exact Hc|]. intros _. exact Ht0.
Qed.

Theorem inv_all : forall t, inv_msg p t.
Proof.
  induction t using msg_ind'; intros bs m rest a Hok Hr; cbn [read] in Hr.
  - (* u8 *)
    destruct bs as [|b r]; [discriminate|]. injection Hr as <- <- _. exists [b]. cbn [write slack app].
    split; [reflexivity|]. split; [rewrite !nlen_cons; change (nlen (@nil N)) with 0; lia|reflexivity].
  - (* u16 *)
    destruct bs as [|b0 [|b1 r]]; try discriminate. injection Hr as <- <- _. eexists. cbn [write slack].
    split; [reflexivity|]. split.
    + destruct e; unfold enc16, be16, le16; rewrite !nlen_cons; change (nlen (@nil N)) with 0; lia.
    + intros Hb _. apply all_bytes_cons in Hb. destruct Hb as [H0 Hb]. apply all_bytes_cons in Hb. destruct Hb as [H1 _].
      rewrite enc16_dec by assumption. reflexivity.
  - (* u32 *)
    destruct bs as [|b0 [|b1 [|b2 [|b3 r]]]]; try discriminate. injection Hr as <- <- _. eexists. cbn [write slack].
    split; [reflexivity|]. split.
    + destruct e; unfold enc32, be32, le32; rewrite !nlen_cons; change (nlen (@nil N)) with 0; lia.
    + intros Hb _. apply all_bytes_cons in Hb. destruct Hb as [H0 Hb]. apply all_bytes_cons in Hb. destruct Hb as [H1 Hb].
      apply all_bytes_cons in Hb. destruct Hb as [H2 Hb]. apply all_bytes_cons in Hb. destruct Hb as [H3 _].
      rewrite enc32_dec by assumption. reflexivity.
  - (* bytes *)
    destruct b as [|x b].
    + injection Hr as <- <- _. exists bs. cbn [write slack]. split; [reflexivity|].
      split; [change (nlen (@nil N)) with 0; lia|]. intros _ _. apply app_nil_r.
    + destruct (take (List.length (x :: b)) bs) as [[y r]|] eqn:Ht; [|discriminate]. injection Hr as <- <- _.
      apply take_spec in Ht. destruct Ht as [-> _]. exists y. cbn [write slack]. split; [reflexivity|].
      split; [rewrite nlen_app; lia|reflexivity].
  - (* trame *)
    rewrite tmpl_ok_trame in Hok.
    destruct (inv_trame l H bs [] 0 m rest a Hok Hr) as (l' & -> & b & Hw & Hc & Ht).
    exists b. cbn [rev app]. rewrite write_trame_eq. cbn [slack]. repeat split; auto.
  - (* component *)
    rewrite tmpl_ok_comp in Hok.
    destruct (inv_fields fs H bs [] [] [] 0 m rest a Hok Hr) as (fs' & -> & b & Hw & Hc & Ht).
    exists b. cbn [rev app]. rewrite write_comp_eq. cbn [slack]. repeat split; auto.
  - (* check *)
    cbn [tmpl_ok] in Hok. destruct (read p t bs) as [new r a0|e r a0| |] eqn:Hrd; try discriminate.
    destruct (check_eq t new); [|discriminate]. injection Hr as <- <- _.
    destruct (IHt bs new r a0 Hok Hrd) as (b & Hw & Hc & Ht). exists b. cbn [write slack]. repeat split; auto.
  - (* dyn *)
    cbn [tmpl_ok] in Hok. destruct (read p t bs) as [new r a0|e r a0| |] eqn:Hrd; try discriminate.
    injection Hr as <- <- _.
    destruct (IHt bs new r a0 Hok Hrd) as (b & Hw & Hc & Ht). exists b. cbn [write slack]. repeat split; auto.
  - (* None *)
    injection Hr as <- <- _. exists []. cbn [write slack app]. split; [reflexivity|].
    split; [change (nlen (@nil N)) with 0; lia|reflexivity].
  - (* Some *)
    cbn [tmpl_ok] in Hok. cbn [slack]. destruct (read p t bs) as [new r a0|e r a0| |] eqn:Hrd; try discriminate.
    + injection Hr as <- <- _. destruct (IHt bs new r a0 Hok Hrd) as (b & Hw & Hc & Ht). exists b. cbn [write]. repeat split; auto.
    + injection Hr as <- <- _. exists []. cbn [write].
      destruct (dropped_count bs r (read_err_suffix p t bs e r a0 Hrd)) as [Hc Ht0]. change (nlen (@nil N)) with 0.
      split; [reflexivity|]. split; [exact Hc|]. intros _. exact Ht0.
  - (* array without factory *)
    discriminate.
  - (* array *)
    rename t into tmpl. cbn [tmpl_ok] in Hok. apply andb_true_iff in Hok. destruct Hok as [Hnil Hok].
    destruct l as [|? ?]; [|discriminate].
    destruct (inv_array tmpl _ IHt Hok _ bs [] 0 m rest a Hr) as (els & -> & b & Hw & Hc & Ht).
    exists b. cbn [rev app]. rewrite write_array_eq. cbn [slack]. repeat split; auto.
Qed.
End Inverse.

(* ================================================================ THE INVERSE *)
(* the message read is writable; what it writes is the input minus the dropped bytes *)
Theorem write_read : forall p t bs m rest a, tmpl_ok t = true -> read p t bs = ROk m rest a ->
  exists b, write p m = Some b /\ mlength p m = Some (nlen b) /\
    nlen b + slack p t bs + nlen rest = nlen bs /\
    (all_bytes bs = true -> (b ++ rest = bs <-> tight p t bs = true)).
Proof.
  intros p t bs m rest a Hok Hr. destruct (inv_all p t bs m rest a Hok Hr) as (b & Hw & Hc & Ht).
  exists b. split; [exact Hw|]. split; [apply length_write; exact Hw|]. split; [exact Hc|].
  intros Hb. unfold tight. rewrite N.eqb_eq. split.
  - intros E. assert (El : nlen bs = nlen b + nlen rest) by (rewrite <- E; apply nlen_app). lia.
  - apply Ht. exact Hb.
Qed.

(* the two halves, as used *)
Corollary write_read_tight : forall p t bs m rest a, tmpl_ok t = true -> all_bytes bs = true ->
  read p t bs = ROk m rest a -> tight p t bs = true -> exists b, write p m = Some b /\ b ++ rest = bs.
Proof.
  intros p t bs m rest a Hok Hb Hr Ht. destruct (write_read p t bs m rest a Hok Hr) as (b & Hw & _ & _ & Hiff).
  exists b. split; [exact Hw|]. apply (Hiff Hb). exact Ht.
Qed.

Corollary write_read_loose : forall p t bs m rest a b, tmpl_ok t = true -> all_bytes bs = true ->
  read p t bs = ROk m rest a -> tight p t bs = false -> write p m = Some b -> b ++ rest <> bs.
Proof.
  intros p t bs m rest a b Hok Hb Hr Ht Hw E. destruct (write_read p t bs m rest a Hok Hr) as (b' & Hw' & _ & _ & Hiff).
  rewrite Hw in Hw'. injection Hw' as <-. apply (Hiff Hb) in E. congruence.
Qed.

(* hence on tight inputs read and write are mutually inverse: the message read round-trips *)
Corollary read_write_read : forall p t bs m rest a, tmpl_ok t = true -> all_bytes bs = true ->
  read p t bs = ROk m rest a -> tight p t bs = true ->
  exists b, write p m = Some b /\ read p t (b ++ rest) = ROk m rest a.
Proof.
  intros p t bs m rest a Hok Hb Hr Ht. destruct (write_read_tight p t bs m rest a Hok Hb Hr Ht) as (b & Hw & E).
  exists b. split; [exact Hw|]. rewrite E. exact Hr.
Qed.
