(* Provenance of what [read] returns: every field of a component that was read, and every
   element of an array that was read, is either the template's own value (a skipped
   field) or was itself PRODUCED by [read] of the corresponding template on well-formed
   bytes -- so the generic safety post-condition (MsgSafe.read_safe) applies to it again.
   This is what lets the glue proofs follow nested PDUs (capability sets inside a
   demand-active, rectangles inside a bitmap update, PDUs inside one frame). *)
From RdpV Require Import Base Msg MsgInd MsgSafe.
Open Scope string_scope.
Open Scope list_scope.
Open Scope N_scope.

Definition produced (p : prof) (t m' : msg) : Prop :=
  exists inp r a, wf_bytes inp /\ read p t inp = ROk m' r a.

Lemma produced_post p t m' :
  safe t = true -> produced p t m' -> fields_sig m' = fields_sig t /\ bounded m'.
Proof.
  intros Hs [inp [r [a [Hwf Hr]]]]. pose proof (read_safe p t Hs inp Hwf) as H. unfold post in H.
  rewrite Hr in H. tauto.
Qed.

(* ---- arrays ---- *)
Lemma read_array_prov p t mk :
  safe t = true ->
  forall fuel input acc a m' rest a',
    wf_bytes input -> Forall (produced p t) acc ->
    read_array (read p t) mk fuel input acc a = ROk m' rest a' ->
    exists l, m' = mk l /\ Forall (produced p t) l.
Proof.
  intros Hs. induction fuel as [|fuel IH]; intros input acc a m' rest a' Hwf Hacc Hr; cbn [read_array] in Hr; [discriminate|].
  destruct (read p t input) as [e r a0|e r a0| |] eqn:E; try discriminate.
  - destruct (Nat.eqb (List.length r) (List.length input)); [discriminate|].
    destruct (read_wf p t input e r a0 Hs Hwf E) as [Hwr _].
    eapply IH; [exact Hwr| |exact Hr].
    constructor; auto. exists input, r, a0. auto.
  - inversion Hr; subst. exists (rev acc). split; auto. apply Forall_rev. exact Hacc.
Qed.

Lemma produced_array p t x :
  safe t = true -> produced p (MArray [] (Some t)) x ->
  exists l, trame_of x = Some l /\ Forall (produced p t) l.
Proof.
  intros Hs [inp [r [a [Hwf Hr]]]]. cbn [read] in Hr.
  destruct (read_array_prov p t (fun l => MArray ([] ++ l) (Some t)) Hs _ _ _ _ _ _ _ Hwf (Forall_nil _) Hr) as [l [-> Hl]].
  exists l. split; auto.
Qed.

(* ---- components ---- *)
Definition fieldR (p : prof) (a b : string * msg) : Prop :=
  fst a = fst b /\ (snd b = snd a \/ produced p (snd a) (snd b)).

Lemma read_field_prov p v input size v' rest a :
  safe v = true -> wf_bytes input ->
  read_field (read p) v input size = ROk v' rest a -> produced p v v' /\ wf_bytes rest.
Proof.
  intros Hs Hwf Hr. unfold read_field in Hr. destruct size as [n|].
  - destruct (isize_max <? n); [discriminate|].
    destruct (take (N.to_nat n) input) as [[local rest0]|] eqn:Ht; [|discriminate].
    destruct (take_spec _ _ _ _ Ht) as [Heq _]. subst input.
    destruct (wf_app_inv _ _ Hwf) as [Hwl Hwr].
    destruct (read p v local) as [v0 r0 a0|e r0 a0| |] eqn:E; try discriminate.
    inversion Hr; subst. split; auto. exists local, r0, a0. auto.
  - destruct (read_wf p v input v' rest a Hs Hwf Hr) as [Hwr _]. split; auto.
    exists input, rest, a. auto.
Qed.

Lemma read_comp_prov p :
  forall fs, Forall (fun nv => safe (snd nv) = true) fs ->
  forall input skip dyn acc a m' rest a',
    wf_bytes input ->
    read_comp p (read p) fs input skip dyn acc a = ROk m' rest a' ->
    exists new, m' = MComp (rev acc ++ new) /\ Forall2 (fieldR p) fs new.
Proof.
  induction fs as [|[name v] tl IH]; intros Hs input skip dyn acc a m' rest a' Hwf Hr; cbn [read_comp] in Hr.
  - inversion Hr; subst. exists []. rewrite app_nil_r. split; auto.
  - inversion Hs as [|? ? Hv Htl]; subst. cbn [snd] in Hv.
    destruct (mem name skip).
    + destruct (IH Htl _ _ _ _ _ _ _ _ Hwf Hr) as [new [-> HF]].
      exists ((name, v) :: new). split.
      * cbn [rev]. rewrite <- app_assoc. reflexivity.
      * constructor; auto. split; auto.
    + destruct (read_field (read p) v input (dyn_lookup name dyn)) as [v' rest0 a0|e rest0 a0| |] eqn:Ef; try discriminate.
      destruct (read_field_prov p v input _ v' rest0 a0 Hv Hwf Ef) as [Hp Hwr].
      assert (Hfin : forall skip' dyn' aa,
                read_comp p (read p) tl rest0 skip' dyn' ((name, v') :: acc) aa = ROk m' rest a' ->
                exists new, m' = MComp (rev acc ++ new) /\ Forall2 (fieldR p) ((name, v) :: tl) new).
      { intros skip' dyn' aa Hr'. destruct (IH Htl _ _ _ _ _ _ _ _ Hwr Hr') as [new [-> HF]].
        exists ((name, v') :: new). split.
        - cbn [rev]. rewrite <- app_assoc. reflexivity.
        - constructor; auto. split; auto. }
      destruct (options p v'); try discriminate; eapply Hfin; exact Hr.
Qed.

Lemma lookup_F2 p name : forall fs new v',
  Forall2 (fieldR p) fs new -> lookup name new = Some v' ->
  exists v, lookup name fs = Some v /\ (v' = v \/ produced p v v').
Proof.
  intros fs new v' HF. induction HF as [|[n v] [n' w] tl tl' [Hn Hv] HF IH]; cbn [lookup]; intros H; [discriminate|].
  cbn [fst snd] in *. subst n'. destruct (String.eqb n name).
  - inversion H; subst. exists v. split; auto.
  - apply IH. exact H.
Qed.

(* a field of a component value that was read *)
Lemma comp_field_prov p fs m' name v' :
  safe (MComp fs) = true -> produced p (MComp fs) m' -> get m' name = Some v' ->
  exists v, lookup name fs = Some v /\ (v' = v \/ produced p v v').
Proof.
  intros Hs [inp [r [a [Hwf Hr]]]] Hg. cbn [read] in Hr. cbn [safe] in Hs. apply safe_comp_fields in Hs.
  destruct (read_comp_prov p fs Hs _ _ _ _ _ _ _ _ Hwf Hr) as [new [-> HF]].
  cbn [rev app] in Hg. unfold get in Hg. cbn [comp_of] in Hg.
  eapply lookup_F2; eauto.
Qed.

(* an array-valued field: its elements were produced by the element template *)
Lemma comp_array_field p fs m' name t x :
  safe (MComp fs) = true -> produced p (MComp fs) m' ->
  lookup name fs = Some (MArray [] (Some t)) -> get m' name = Some x ->
  exists l, trame_of x = Some l /\ Forall (produced p t) l.
Proof.
  intros Hs Hp Hl Hg. destruct (comp_field_prov p fs m' name x Hs Hp Hg) as [v [Hl' [->|Hpr]]].
  - rewrite Hl in Hl'. inversion Hl'; subst. exists []. split; auto.
  - rewrite Hl in Hl'. inversion Hl'; subst.
    assert (Hst : safe t = true).
    { cbn [safe] in Hs. apply safe_comp_fields in Hs. clear - Hs Hl.
      induction fs as [|[n w] tl IH]; cbn [lookup] in Hl; [discriminate|].
      inversion Hs as [|? ? Hw Htl]; subst. destruct (String.eqb n name).
      - inversion Hl; subst. cbn [snd safe] in Hw. apply andb_true_iff in Hw. destruct Hw as [Hw _].
        apply andb_true_iff in Hw. tauto.
      - auto. }
    apply produced_array; auto.
Qed.
