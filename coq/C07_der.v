(* The executable yasna model (DerRead.v) satisfies what C07 assumes of the BER oracle:
   whenever it returns, the octet strings it hands back are byte strings no longer than
   its input. *)
From RdpV Require Import Base Msg MsgSafe Cssp DerRead C07_proofs.
Open Scope list_scope.
Open Scope N_scope.

Section Der.
Variable p : prof.
Variable K : N.

Definition wfl (s : dst) : Prop := wf_bytes (snd s) /\ nlen (snd s) <= K.
Definition okb (b : bytes) : Prop := wf_bytes b /\ nlen b <= K.

Lemma wfl_tail pos pos' b r : wfl (pos, b :: r) -> wfl (pos', r).
Proof. unfold wfl. cbn [snd]. intros [H1 H2]. inversion H1; subst. rewrite nlen_cons in H2. split; [assumption|lia]. Qed.

Lemma tag_tail_wfl f : forall acc pos rem n s', wfl (pos, rem) -> tag_tail f acc pos rem = Some (n, s') -> wfl s'.
Proof.
  induction f as [|f IH]; intros acc pos rem n s' Hw H; cbn [tag_tail] in H; [discriminate|].
  destruct rem as [|b r]; [discriminate|]. destruct (DerRead.two64 <=? acc * 128); [discriminate|].
  pose proof (wfl_tail pos (pos + 1) b r Hw) as Hw'.
  destruct (N.land b 128 =? 0); [inversion H; subst; exact Hw'|eapply IH; eauto].
Qed.

Lemma read_identifier_wfl s x s' : wfl s -> read_identifier s = DOk (x, s') -> wfl s'.
Proof.
  destruct s as [pos rem]. intros Hw H. unfold read_identifier in H. cbn [fst snd] in H.
  destruct rem as [|t r]; [discriminate|]. pose proof (wfl_tail pos (pos + 1) t r Hw) as Hw'.
  destruct (t mod 32 =? 31).
  - destruct (tag_tail (S (List.length r)) 0 (pos + 1) r) as [[n s1]|] eqn:E; [|discriminate].
    destruct (n <? 31); [discriminate|]. inversion H; subst. eapply tag_tail_wfl; eauto.
  - inversion H; subst. exact Hw'.
Qed.

Lemma len_digits_wfl n : forall acc pos rem v s', wfl (pos, rem) -> len_digits n acc pos rem = Some (v, s') -> wfl s'.
Proof.
  induction n as [|n IH]; intros acc pos rem v s' Hw H; cbn [len_digits] in H; [inversion H; subst; exact Hw|].
  destruct (DerRead.two64 <=? acc * 256); [discriminate|]. destruct rem as [|b r]; [discriminate|].
  eapply IH; [|exact H]. eapply wfl_tail; eauto.
Qed.

Lemma read_length_wfl s o s' : wfl s -> read_length s = Some (o, s') -> wfl s'.
Proof.
  destruct s as [pos rem]. intros Hw H. unfold read_length in H. cbn [fst snd] in H.
  destruct rem as [|l r]; [discriminate|]. pose proof (wfl_tail pos (pos + 1) l r Hw) as Hw'.
  destruct (l =? 128); [inversion H; subst; exact Hw'|]. destruct (l =? 255); [discriminate|].
  destruct (N.land l 128 =? 0); [inversion H; subst; exact Hw'|].
  destruct (len_digits (N.to_nat (N.land l 127)) 0 (pos + 1) r) as [[n s1]|] eqn:E; [|discriminate].
  destruct (n <? 128); [discriminate|]. inversion H; subst. eapply len_digits_wfl; eauto.
Qed.

Lemma read_general_wfl cls num s pc content after :
  wfl s -> read_general p cls num s = DOk (pc, content, after) -> wfl content /\ wfl after.
Proof.
  intros Hw H. unfold read_general in H.
  destruct (read_identifier s) as [[[[c pcb] n] s1]| | |] eqn:E1; try discriminate.
  pose proof (read_identifier_wfl _ _ _ Hw E1) as Hw1.
  destruct (negb ((c =? cls) && (n =? num))); [discriminate|].
  destruct (read_length s1) as [[[len|] s2]|] eqn:E2; try discriminate.
  pose proof (read_length_wfl _ _ _ Hw1 E2) as [Hw2a Hw2b].
  destruct (DerRead.two64 <=? fst s2 + len); [destruct p; [discriminate|destruct pcb; discriminate]|].
  destruct (nlen (snd s2) <? len); [discriminate|]. inversion H; subst. unfold wfl. cbn [snd].
  split; (split; [first [apply wf_firstn|apply wf_skipn]; exact Hw2a|]).
  - pose proof (nlen_firstn_le (N.to_nat len) (snd s2)). lia.
  - pose proof (nlen_skipn_le (N.to_nat len) (snd s2)). lia.
Qed.

Lemma primitive_wfl cls num s buf after :
  wfl s -> primitive p cls num s = DOk (buf, after) -> okb buf /\ wfl after.
Proof.
  intros Hw H. unfold primitive in H.
  destruct (read_general p cls num s) as [[[pc content] aft]| | |] eqn:E; try discriminate.
  destruct (read_general_wfl _ _ _ _ _ _ Hw E) as [Hc Ha]. destruct pc; [discriminate|]. inversion H; subst. split; assumption.
Qed.

Lemma constructed_wfl {A} (Q : A -> Prop) cls num (body : dst -> dres (A * dst)) s a s' :
  (forall c x c', wfl c -> body c = DOk (x, c') -> Q x /\ wfl c') ->
  wfl s -> constructed p cls num body s = DOk (a, s') -> Q a /\ wfl s'.
Proof.
  intros Hb Hw H. unfold constructed in H.
  destruct (read_general p cls num s) as [[[pc content] aft]| | |] eqn:E; try discriminate.
  destruct (read_general_wfl _ _ _ _ _ _ Hw E) as [Hc Ha]. destruct (negb pc); [discriminate|].
  destruct (body content) as [[x c']| | |] eqn:Eb; try discriminate.
  destruct (Hb _ _ _ Hc Eb) as [Hq _]. destruct (snd c'); [|discriminate]. inversion H; subst. split; assumption.
Qed.

Lemma seq_of_loop_wfl {A} (Q : A -> Prop) (elem : dst -> dres (A * dst)) :
  (forall c x c', wfl c -> elem c = DOk (x, c') -> Q x /\ wfl c') ->
  forall fuel c acc l c', wfl c -> Forall Q acc -> seq_of_loop fuel elem c acc = DOk (l, c') -> Forall Q l /\ wfl c'.
Proof.
  intros He. induction fuel as [|f IH]; intros c acc l c' Hw Hacc H; cbn [seq_of_loop] in H; [discriminate|].
  destruct (elem c) as [[x c1]| | |] eqn:E; try discriminate.
  - destruct (He _ _ _ Hw E) as [Hq Hw1]. eapply IH; [exact Hw1| |exact H]. constructor; assumption.
  - inversion H; subst. split; [|exact Hw]. apply Forall_rev. exact Hacc.
Qed.

Lemma read_u32_wfl s v s' : wfl s -> read_u32 p s = DOk (v, s') -> wfl s'.
Proof.
  intros Hw H. unfold read_u32 in H.
  destruct (primitive p 0 2 s) as [[buf after]| | |] eqn:E; try discriminate.
  destruct (primitive_wfl _ _ _ _ _ Hw E) as [_ Ha].
  destruct buf as [|b0 tl]; [discriminate|]. destruct (128 <=? b0); [discriminate|].
  destruct tl as [|b1 tl']; [inversion H; subst; exact Ha|].
  destruct (b0 * 256 + b1 <? 128); [discriminate|].
  destruct ((9 <? nlen (b0 :: b1 :: tl')) || (nlen (b0 :: b1 :: tl') =? 9) && negb (b0 =? 0)); [discriminate|].
  destruct (fold_be (b0 :: b1 :: tl') <? 4294967296); [|discriminate]. inversion H; subst. exact Ha.
Qed.

Lemma tagged_bytes_wfl n c x c' : wfl c -> tagged p n (read_bytes p) c = DOk (x, c') -> okb x /\ wfl c'.
Proof.
  intros Hw H. unfold tagged in H. eapply constructed_wfl with (Q := okb); [|exact Hw|exact H].
  intros c0 x0 c0' Hw0 H0. unfold read_bytes in H0. eapply primitive_wfl; eauto.
Qed.

End Der.

Lemma der_ts_request_ok p input toks :
  wf_bytes input -> der_ts_request p input = Ok toks -> Forall (fun t => wf_bytes t /\ nlen t <= nlen input) toks.
Proof.
  intros Hwf H. unfold der_ts_request, parse_der in H.
  match type of H with match ?b with _ => _ end = _ => destruct b as [[a s]| | |] eqn:E; try discriminate end.
  assert (Hw0 : wfl (nlen input) (0, input)) by (split; [exact Hwf|cbn [snd]; lia]).
  unfold sequence in E.
  eapply (constructed_wfl p (nlen input) (Forall (okb (nlen input)))) in E; [|clear E|exact Hw0].
  - destruct E as [Hq _]. destruct (snd s); inversion H; subst. exact Hq.
  - intros c x c' Hc Hx. unfold bindd in Hx.
    destruct (tagged p 0 (read_u32 p) c) as [[v c1]| | |] eqn:E1; try discriminate.
    assert (Hc1 : wfl (nlen input) c1).
    { unfold tagged in E1. eapply (constructed_wfl p (nlen input) (fun _ => True)) in E1; [tauto| |exact Hc].
      intros c0 x0 c0' Hw0' H0. split; [exact I|]. eapply read_u32_wfl; eauto. }
    match type of Hx with match ?b with _ => _ end = _ => destruct b as [[a2 s2]| | |] eqn:E2; try discriminate end.
    inversion Hx; subst. unfold tagged in E2.
    eapply (constructed_wfl p (nlen input) (Forall (okb (nlen input)))); [|exact Hc1|exact E2].
    intros c0 x0 c0' Hw0' H0. unfold sequence_of, sequence in H0.
    eapply (constructed_wfl p (nlen input) (Forall (okb (nlen input)))); [|exact Hw0'|exact H0].
    intros c2 x2 c2' Hw2 H2.
    eapply (seq_of_loop_wfl (nlen input) (okb (nlen input))); [|exact Hw2|constructor|exact H2].
    intros c3 x3 c3' Hw3 H3.
    eapply (constructed_wfl p (nlen input) (okb (nlen input))); [|exact Hw3|exact H3].
    intros c4 x4 c4' Hw4 H4. eapply tagged_bytes_wfl; eauto.
Qed.

Lemma der_ts_validate_ok p input k :
  wf_bytes input -> der_ts_validate p input = Ok k -> wf_bytes k /\ nlen k <= nlen input.
Proof.
  intros Hwf H. unfold der_ts_validate, parse_der in H.
  match type of H with match ?b with _ => _ end = _ => destruct b as [[a s]| | |] eqn:E; try discriminate end.
  assert (Hw0 : wfl (nlen input) (0, input)) by (split; [exact Hwf|cbn [snd]; lia]).
  unfold sequence in E.
  eapply (constructed_wfl p (nlen input) (okb (nlen input))) in E; [|clear E|exact Hw0].
  - destruct E as [Hq _]. destruct (snd s); inversion H; subst. exact Hq.
  - intros c x c' Hc Hx. unfold bindd in Hx.
    destruct (tagged p 0 (read_u32 p) c) as [[v c1]| | |] eqn:E1; try discriminate.
    assert (Hc1 : wfl (nlen input) c1).
    { unfold tagged in E1. eapply (constructed_wfl p (nlen input) (fun _ => True)) in E1; [tauto| |exact Hc].
      intros c0 x0 c0' Hw0' H0. split; [exact I|]. eapply read_u32_wfl; eauto. }
    match type of Hx with match ?b with _ => _ end = _ => destruct b as [[a2 s2]| | |] eqn:E2; try discriminate end.
    inversion Hx; subst. eapply tagged_bytes_wfl; eauto.
Qed.

(* the yasna model as a BER oracle *)
Definition yasna_req (p : prof) (i : bytes) := oracle_of (der_ts_request p i).
Definition yasna_val (p : prof) (i : bytes) := oracle_of (der_ts_validate p i).

Lemma yasna_ber_ok p : ber_ok (yasna_req p) (yasna_val p).
Proof.
  split.
  - intros i toks Hwf H. unfold yasna_req, oracle_of in H. destruct (der_ts_request p i) eqn:E; try discriminate.
    inversion H; subst. eapply der_ts_request_ok; eauto.
  - intros i k Hwf H. unfold yasna_val, oracle_of in H. destruct (der_ts_validate p i) eqn:E; try discriminate.
    inversion H; subst. eapply der_ts_validate_ok; eauto.
Qed.

(* ---- the known finding, in theorem form ----
   What really runs is yasna in front of the glue: where the yasna model panics
   (C07-yasna-length-overflow: a long-form length with pos + length >= 2^64), the entry
   point panics; everywhere else it behaves as the glue over the oracle view. *)
Definition yasna_overflow_req (p : prof) (i : bytes) : Prop := der_ts_request p i = Panic.
Definition yasna_overflow_val (p : prof) (i : bytes) : Prop := der_ts_validate p i = Panic.

Definition read_ts_server_challenge_yasna (p : prof) (i : bytes) : outcome bytes :=
  match der_ts_request p i with
  | Panic => Panic
  | Spin => Spin
  | _ => read_ts_server_challenge (yasna_req p) i
  end.

Definition read_ts_validate_yasna (p : prof) (i : bytes) : outcome bytes :=
  match der_ts_validate p i with
  | Panic => Panic
  | Spin => Spin
  | _ => read_ts_validate (yasna_val p) i
  end.

Lemma parse_der_nospin {A} (body : dst -> dres (A * dst)) i : parse_der body i <> Spin.
Proof. unfold parse_der. destruct (body (0, i)) as [[a s]| | |]; try discriminate. destruct (snd s); discriminate. Qed.

Lemma ts_entries_known_class p i :
  (~ yasna_overflow_req p i -> nocrash (read_ts_server_challenge_yasna p i)) /\
  (~ yasna_overflow_val p i -> nocrash (read_ts_validate_yasna p i)).
Proof.
  split; intros Hk.
  - unfold read_ts_server_challenge_yasna, yasna_overflow_req in *.
    pose proof (parse_der_nospin (A := list bytes)) as Hs. unfold der_ts_request in *.
    match goal with |- nocrash (match ?x with _ => _ end) => destruct x eqn:E end;
      try apply ts_server_challenge_total; [congruence|exfalso; eapply Hs; eauto].
  - unfold read_ts_validate_yasna, yasna_overflow_val in *.
    pose proof (parse_der_nospin (A := bytes)) as Hs. unfold der_ts_validate in *.
    match goal with |- nocrash (match ?x with _ => _ end) => destruct x eqn:E end;
      try apply ts_validate_total; [congruence|exfalso; eapply Hs; eauto].
Qed.

Lemma cssp_total_alloc_yasna :
  forall p (rc4st : Type) hmac_md5 md5 (rc4_init : bytes -> rc4st) rc4_run st restricted cert cc sk input sched,
    crypto_ok hmac_md5 md5 rc4_run ->
    Forall wf_bytes input -> nlen cc = 8 -> nlen sk = 16 -> creds_small (cr st) ->
    let r := cssp_connect p (yasna_req p) (yasna_val p) hmac_md5 md5 rc4st rc4_init rc4_run st restricted cert cc sk input sched in
    nocrash (c_out r) /\ c_alloc r <= creds_len (cr st) + cert_len cert + 150000.
Proof.
  intros. apply cssp_total_alloc; auto. apply yasna_ber_ok.
Qed.
