(* C10: every bitmap rectangle of a fast-path output PDU reaches the application exactly
   once, in wire order, with the transmitted values.  The model (Global.client_read /
   read_fast_path over the message interpreter) is run on the output of the reference
   encoder RefFastPath.v; induction over the updates of a PDU (outer Array loop) and over
   the rectangles of an update (inner Array loop inside the sized updateData cursor). *)
From RdpV Require Import Base Sweep Msg MsgSafe LayoutsGlobal Link Tpkt Global RefFraming RefFastPath
                         C06_proofs C12_proofs C13_proofs.
Open Scope string_scope.
Open Scope list_scope.
Open Scope N_scope.

(* ------------------------------------------------------------------ small facts *)
Lemma le16_dec (n : N) : n < 65536 -> of_le16 (u16_lo n) (u16_hi n) = n.
Proof. intros H. unfold of_le16. apply (be16_of n H). Qed.

Lemma take_app (a b : bytes) : take (List.length a) (a ++ b) = Some (a, b).
Proof.
  unfold take. rewrite app_length.
  replace (Nat.leb (List.length a) (List.length a + List.length b)) with true
    by (symmetry; apply Nat.leb_le; lia).
  f_equal. f_equal.
  - induction a as [|x a IH]; cbn [List.length firstn app]; [destruct b; reflexivity|]. rewrite IH. reflexivity.
  - induction a as [|x a IH]; cbn [List.length skipn app]; auto.
Qed.

Lemma isize_ok (n : N) : n < 65536 -> (isize_max <? n) = false.
Proof. intros H. apply N.ltb_ge. unfold isize_max. lia. Qed.

(* [read] succeeded with this message and this left-over (the allocation measure is C06's business) *)
Definition rok (r : rres) (m : msg) (rest : bytes) : Prop := exists a, r = ROk m rest a.

Lemma rok_intro m rest a : rok (ROk m rest a) m rest.
Proof. exists a. reflexivity. Qed.

(* ------------------------------------------------------------------ one step of a Component read *)
Section Steps.
Variable p : prof.
Variable rd : msg -> bytes -> rres.

Lemma rc_nil input skip dyn acc a m r :
  m = MComp (rev acc) -> r = input -> rok (read_comp p rd [] input skip dyn acc a) m r.
Proof. intros -> ->. cbn [read_comp]. apply rok_intro. Qed.

Lemma rc_skip name v tl input skip dyn acc a m r :
  mem name skip = true ->
  rok (read_comp p rd tl input skip dyn ((name, v) :: acc) a) m r ->
  rok (read_comp p rd ((name, v) :: tl) input skip dyn acc a) m r.
Proof. intros Hm H. cbn [read_comp]. rewrite Hm. exact H. Qed.

Lemma rc_field name v tl input skip dyn acc a v' rest m r :
  mem name skip = false ->
  rok (read_field rd v input (dyn_lookup name dyn)) v' rest ->
  (forall a',
     rok match options p v' with
         | OPanic => RPanic
         | OSkip f => read_comp p rd tl rest (f :: skip) dyn ((name, v') :: acc) a'
         | OSize f n => read_comp p rd tl rest skip ((f, n) :: dyn) ((name, v') :: acc) a'
         | ONone => read_comp p rd tl rest skip dyn ((name, v') :: acc) a'
         end m r) ->
  rok (read_comp p rd ((name, v) :: tl) input skip dyn acc a) m r.
Proof.
  intros Hm [a0 Hf] H. cbn [read_comp]. rewrite Hm, Hf. apply H.
Qed.

(* a field read through the sub-cursor a Size option gave it *)
Lemma read_field_sized v (x rest : bytes) v' r0 :
  nlen x < 65536 -> rok (rd v x) v' r0 ->
  rok (read_field rd v (x ++ rest) (Some (nlen x))) v' rest.
Proof.
  intros Hn [a Hr]. unfold read_field. rewrite (isize_ok _ Hn), nlen_to_nat, take_app, Hr.
  apply rok_intro.
Qed.
End Steps.

Section Reads.
Variable p : prof.

Lemma read_u16 v0 (a b : N) rest : read p (MU16 LE v0) (a :: b :: rest) = ROk (MU16 LE (of_le16 a b)) rest 0.
Proof. reflexivity. Qed.

Lemma read_le16 v0 v rest : v < 65536 -> read p (MU16 LE v0) (le16 v ++ rest) = ROk (MU16 LE v) rest 0.
Proof. intros H. unfold le16. cbn [app]. rewrite read_u16, (le16_dec v H). reflexivity. Qed.

Lemma read_dyn_le16 v0 c v rest :
  v < 65536 -> read p (MDyn (MU16 LE v0) c) (le16 v ++ rest) = ROk (MDyn (MU16 LE v) c) rest 0.
Proof. intros H. unfold le16. cbn [app read]. rewrite (le16_dec v H). reflexivity. Qed.

Lemma read_all_bytes (x : bytes) : read p (MBytes []) x = ROk (MBytes x) [] 0.
Proof. reflexivity. Qed.

(* a plain 16-bit little-endian field *)
Lemma rc_u16 name v0 tl v rest skip dyn acc a m r :
  mem name skip = false -> dyn_lookup name dyn = None -> v < 65536 ->
  (forall a', rok (read_comp p (read p) tl rest skip dyn ((name, MU16 LE v) :: acc) a') m r) ->
  rok (read_comp p (read p) ((name, MU16 LE v0) :: tl) (le16 v ++ rest) skip dyn acc a) m r.
Proof.
  intros Hm Hd Hv H. eapply rc_field; [exact Hm| |].
  - rewrite Hd. cbn [read_field]. rewrite (read_le16 _ _ _ Hv). apply rok_intro.
  - intros a'. cbn [options]. apply H.
Qed.

(* a 16-bit length field whose closure sizes a later field *)
Lemma rc_u16_size name v0 target tl v rest skip dyn acc a m r :
  mem name skip = false -> dyn_lookup name dyn = None -> v < 65536 ->
  (forall a', rok (read_comp p (read p) tl rest skip ((target, v) :: dyn)
                             ((name, MDyn (MU16 LE v) (CloSize target XSelf)) :: acc) a') m r) ->
  rok (read_comp p (read p) ((name, MDyn (MU16 LE v0) (CloSize target XSelf)) :: tl) (le16 v ++ rest) skip dyn acc a) m r.
Proof.
  intros Hm Hd Hv H. eapply rc_field; [exact Hm| |].
  - rewrite Hd. cbn [read_field]. rewrite (read_dyn_le16 _ _ _ _ Hv). apply rok_intro.
  - intros a'. cbn [options eval_clo eval_cexp num_of]. apply H.
Qed.

(* the byte field that ends a component, sized by an earlier field *)
Lemma rc_bytes_last name (x rest : bytes) skip dyn acc a m :
  mem name skip = false -> dyn_lookup name dyn = Some (nlen x) -> nlen x < 65536 ->
  m = MComp (rev ((name, MBytes x) :: acc)) ->
  rok (read_comp p (read p) [(name, MBytes [])] (x ++ rest) skip dyn acc a) m rest.
Proof.
  intros Hm Hd Hn ->. eapply rc_field; [exact Hm| |].
  - rewrite Hd. apply (read_field_sized (read p) _ x rest _ []); [exact Hn|]. rewrite read_all_bytes. apply rok_intro.
  - intros a'. cbn [options]. apply rc_nil; reflexivity.
Qed.

End Reads.

(* ------------------------------------------------------------------ Array::read over a concatenation *)
Section ArrayConcat.
Context {A : Type}.
Variable rdt : bytes -> rres.
Variable mk : list msg -> msg.
Variable enc : A -> bytes.
Variable dec : A -> msg.
Variable P : A -> Prop.
Hypothesis Hone : forall e rest, P e -> rok (rdt (enc e ++ rest)) (dec e) rest.
Hypothesis Hne : forall e, P e -> enc e <> [].
Hypothesis Hend : exists e a, rdt [] = RErr e [] a.   (* end of the cursor: the element read fails, the loop stops *)

Lemma read_array_concat : forall es, Forall P es -> forall fuel acc a,
  (List.length (List.concat (map enc es)) < fuel)%nat ->
  rok (read_array rdt mk fuel (List.concat (map enc es)) acc a) (mk (rev acc ++ map dec es)) [].
Proof.
  induction es as [|e es IH]; intros HP fuel acc a Hf.
  - destruct fuel as [|fuel]; [cbn in Hf; lia|]. cbn [map List.concat read_array].
    destruct Hend as [e [a0 ->]]. rewrite app_nil_r. apply rok_intro.
  - inversion HP as [|? ? He Hes]; subst.
    destruct fuel as [|fuel]; [lia|]. cbn [map List.concat] in *. cbn [read_array].
    destruct (Hone e (List.concat (map enc es)) He) as [a0 ->].
    rewrite app_length in *.
    assert (Hl : (0 < List.length (enc e))%nat).
    { specialize (Hne e He). destruct (enc e); [congruence|cbn; lia]. }
    replace (Nat.eqb _ _) with false by (symmetry; apply Nat.eqb_neq; lia).
    replace (rev acc ++ dec e :: map dec es) with (rev (dec e :: acc) ++ map dec es)
      by (cbn [rev]; rewrite <- app_assoc; reflexivity).
    apply IH; [exact Hes|lia].
Qed.
End ArrayConcat.

(* ------------------------------------------------------------------ the messages the client must obtain *)
Definition cd_msg (n sc us : N) : msg :=
  MComp [("cbCompFirstRowSize", MCheck (MU16 LE 0)); ("cbCompMainBodySize", MU16 LE n);
         ("cbScanWidth", MU16 LE sc); ("cbUncompressedSize", MU16 LE us)].

Definition hdr_clo : clo := CloSize "bitmapDataStream" (XSelfField "cbCompMainBodySize").

Definition rect_msg (r : rect) : msg :=
  MComp [
    ("destLeft", MU16 LE (rc_left r)); ("destTop", MU16 LE (rc_top r));
    ("destRight", MU16 LE (rc_right r)); ("destBottom", MU16 LE (rc_bottom r));
    ("width", MU16 LE (rc_width r)); ("height", MU16 LE (rc_height r));
    ("bitsPerPixel", MU16 LE (rc_bpp r));
    ("flags", MDyn (MU16 LE (rc_flags r)) (CloSkipIf no_compr_hdr "bitmapComprHdr"));
    ("bitmapLength", MDyn (MU16 LE (if has_hdr r then nlen (rc_data r) + 8 else nlen (rc_data r)))
                          (CloSize "bitmapDataStream" XSelf));
    ("bitmapComprHdr", MDyn (if has_hdr r then cd_msg (nlen (rc_data r)) (rc_scan r) (rc_usize r) else ts_cd_header) hdr_clo);
    ("bitmapDataStream", MBytes (rc_data r)) ].

Definition bitmap_msg (nr : N) (rs : list rect) : msg :=
  MComp [("header", MCheck (MU16 LE 1)); ("numberRectangles", MU16 LE nr);
         ("rectangles", MArray (map rect_msg rs) (Some ts_bitmap_data))].

Definition fp_msg (code : N) (body : bytes) : msg :=
  MComp [("updateHeader", MDyn (MU8 code) (CloSkipIf (CBits 4 2 0) "compressionFlags"));
         ("compressionFlags", MU8 0);
         ("size", MDyn (MU16 LE (nlen body)) (CloSize "updateData" XSelf));
         ("updateData", MBytes body)].

Definition upd_msg (u : update) : msg := fp_msg (update_code u) (update_data u).

(* a rectangle whose length fields can carry their values *)
Definition rect_fits (r : rect) : Prop :=
  nlen (rc_data r) + (if has_hdr r then 8 else 0) < 65536.

Lemma eval_no_hdr (r : rect) : eval_cond (rc_flags r) no_compr_hdr = negb (has_hdr r).
Proof.
  unfold no_compr_hdr, has_hdr, BITMAP_COMPRESSION, NO_BITMAP_COMPRESSION_HDR.
  cbn [eval_cond]. rewrite N.shiftr_0_r.
  destruct (N.land (rc_flags r) 1 =? 0), (N.land (rc_flags r) 1024 =? 0); reflexivity.
Qed.

Lemma code_no_compression (c : N) : c < 16 -> (N.land (N.shiftr c 4) 2 =? 0) = true.
Proof. revert c. apply sweep1. vm_compute. reflexivity. Qed.

Lemma code_land15 (c : N) : c < 16 -> N.land c 15 = c.
Proof. intros H. apply N.eqb_eq. revert c H. apply sweep1. vm_compute. reflexivity. Qed.

Section Layouts.
Variable p : prof.

Lemma read_comp_unfold fs i : read p (MComp fs) i = read_comp p (read p) fs i [] [] [] 0.
Proof. reflexivity. Qed.

Lemma read_dyn m c i m' r : rok (read p m i) m' r -> rok (read p (MDyn m c) i) (MDyn m' c) r.
Proof. intros [a H]. cbn [read]. fold (read p). rewrite H. apply rok_intro. Qed.

Lemma read_check_le16 v rest : v < 65536 -> read p (MCheck (MU16 LE v)) (le16 v ++ rest) = ROk (MCheck (MU16 LE v)) rest 0.
Proof.
  intros H. unfold le16. cbn [app read]. rewrite (le16_dec v H). cbn [check_eq num_of].
  rewrite N.eqb_refl. reflexivity.
Qed.

Lemma rc_check16 name tl v rest skip dyn acc a m r :
  mem name skip = false -> dyn_lookup name dyn = None -> v < 65536 ->
  (forall a', rok (read_comp p (read p) tl rest skip dyn ((name, MCheck (MU16 LE v)) :: acc) a') m r) ->
  rok (read_comp p (read p) ((name, MCheck (MU16 LE v)) :: tl) (le16 v ++ rest) skip dyn acc a) m r.
Proof.
  intros Hm Hd Hv H. eapply rc_field; [exact Hm| |].
  - rewrite Hd. cbn [read_field]. rewrite (read_check_le16 _ _ Hv). apply rok_intro.
  - intros a'. cbn [options]. apply H.
Qed.

(* TS_CD_HEADER *)
Lemma read_cd_header n sc us rest :
  n < 65536 -> sc < 65536 -> us < 65536 ->
  rok (read p ts_cd_header (le16 0 ++ le16 n ++ le16 sc ++ le16 us ++ rest)) (cd_msg n sc us) rest.
Proof.
  intros Hn Hsc Hus. unfold ts_cd_header, u16le. rewrite read_comp_unfold.
  apply rc_check16; [reflexivity|reflexivity|lia|intros ?].
  do 3 (apply rc_u16; [reflexivity|reflexivity|assumption|intros ?]).
  apply rc_nil; reflexivity.
Qed.

Lemma options_hdr n sc us : options p (MDyn (cd_msg n sc us) hdr_clo) = OSize "bitmapDataStream" n.
Proof. reflexivity. Qed.

(* TS_BITMAP_DATA, with and without the compression header *)
Lemma read_rect r rest :
  valid_rect r -> rect_fits r ->
  rok (read p ts_bitmap_data (enc_rect r ++ rest)) (rect_msg r) rest.
Proof.
  unfold valid_rect, rect_fits, u16.
  intros (Hl & Ht & Hr & Hb & Hw & Hh & Hbp & Hf & Hhd) Hn.
  unfold ts_bitmap_data, enc_rect, rect_msg, u16le, size_of. rewrite read_comp_unfold.
  pose proof (eval_no_hdr r) as Hc.
  destruct (has_hdr r) eqn:Hhas; cbn [negb] in Hc; repeat rewrite <- app_assoc;
    (do 7 (apply rc_u16; [reflexivity|reflexivity|assumption|intros ?]));
    (eapply rc_field;
      [reflexivity
      |cbn [dyn_lookup read_field]; rewrite (read_dyn_le16 p _ _ _ _ Hf); apply rok_intro
      |intros ?; cbn [options eval_clo num_of]; rewrite Hc]).
  - (* compressed, header present: its cbCompMainBodySize sizes the data *)
    destruct (Hhd eq_refl) as [Hsc Hus].
    apply rc_u16_size; [reflexivity|reflexivity|lia|intros ?].
    eapply rc_field; [reflexivity| |intros ?].
    + change (dyn_lookup "bitmapComprHdr" _) with (@None N). cbn [read_field].
      apply read_dyn. apply read_cd_header; [lia|assumption|assumption].
    + rewrite options_hdr.
      apply rc_bytes_last; [reflexivity|reflexivity|lia|reflexivity].
  - (* no header on the wire: the field is skipped, bitmapLength sizes the data *)
    apply rc_u16_size; [reflexivity|reflexivity|lia|intros ?].
    apply rc_skip; [reflexivity|].
    apply rc_bytes_last; [reflexivity|reflexivity|lia|reflexivity].
Qed.

Lemma nlen_le16 v : nlen (le16 v) = 2.
Proof. reflexivity. Qed.

Lemma nlen_enc_rect r : nlen (enc_rect r) = 18 + (if has_hdr r then 8 else 0) + nlen (rc_data r).
Proof.
  unfold enc_rect. destruct (has_hdr r); repeat rewrite nlen_app; repeat rewrite nlen_le16; lia.
Qed.

Lemma enc_rect_nonempty r : enc_rect r <> [].
Proof. intros H. pose proof (nlen_enc_rect r) as Hl. rewrite H, nlen_nil in Hl. destruct (has_hdr r); lia. Qed.

Lemma read_rect_eof : exists e a, read p ts_bitmap_data [] = RErr e [] a.
Proof. eexists. eexists. reflexivity. Qed.

Lemma read_array_unfold e t i :
  read p (MArray e (Some t)) i =
  read_array (read p t) (fun l => MArray (e ++ l) (Some t)) (S (List.length i)) i [] 0.
Proof. reflexivity. Qed.

(* the inner Array loop: rectangles until the updateData cursor is exhausted *)
Lemma read_rects rs :
  Forall valid_rect rs -> Forall rect_fits rs ->
  rok (read p (MArray [] (Some ts_bitmap_data)) (List.concat (map enc_rect rs)))
      (MArray (map rect_msg rs) (Some ts_bitmap_data)) [].
Proof.
  intros Hv Hfit. rewrite read_array_unfold.
  pose proof (read_array_concat (read p ts_bitmap_data) (fun l => MArray ([] ++ l) (Some ts_bitmap_data))
                enc_rect rect_msg (fun r => valid_rect r /\ rect_fits r)) as H.
  apply H.
  - intros e rest [H1 H2]. apply read_rect; assumption.
  - intros e _. apply enc_rect_nonempty.
  - apply read_rect_eof.
  - apply Forall_forall. intros r Hin. rewrite Forall_forall in Hv, Hfit. auto.
  - lia.
Qed.

(* TS_FP_UPDATE_BITMAP *)
Lemma read_bitmap_update rs :
  Forall valid_rect rs -> Forall rect_fits rs -> nlen rs < 65536 ->
  rok (read p ts_fp_update_bitmap (enc_bitmap_update rs)) (bitmap_msg (nlen rs) rs) [].
Proof.
  intros Hv Hfit Hn. unfold ts_fp_update_bitmap, enc_bitmap_update, u16le. rewrite read_comp_unfold.
  apply rc_check16; [reflexivity|reflexivity|lia|intros ?].
  apply rc_u16; [reflexivity|reflexivity|exact Hn|intros ?].
  apply (rc_field p (read p) _ _ _ _ _ _ _ _ (MArray (map rect_msg rs) (Some ts_bitmap_data)) []);
    [reflexivity| |intros ?].
  - change (dyn_lookup "rectangles" []) with (@None N). cbn [read_field]. apply read_rects; assumption.
  - cbn [options]. apply rc_nil; reflexivity.
Qed.

(* TS_FP_UPDATE: whatever the update data is *)
Lemma read_fp_update code body rest :
  code < 16 -> nlen body < 65536 ->
  rok (read p ts_fp_update ([code] ++ le16 (nlen body) ++ body ++ rest)) (fp_msg code body) rest.
Proof.
  intros Hc Hn. unfold ts_fp_update, fp_msg, u16le, size_of. rewrite read_comp_unfold. cbn [app].
  eapply rc_field; [reflexivity|cbn [dyn_lookup read_field read]; apply rok_intro|intros ?].
  cbn [options eval_clo num_of eval_cond]. rewrite (code_no_compression code Hc).
  apply rc_skip; [reflexivity|].
  apply rc_u16_size; [reflexivity|reflexivity|exact Hn|intros ?].
  apply rc_bytes_last; [reflexivity|reflexivity|exact Hn|reflexivity].
Qed.

Lemma read_fp_update_eof : exists e a, read p ts_fp_update [] = RErr e [] a.
Proof. eexists. eexists. reflexivity. Qed.

End Layouts.

(* ------------------------------------------------------------------ from messages to callbacks *)
Definition event_of (x : rect_seen) : bitmap_event :=
  mkBitmap (sn_left x) (sn_top x) (sn_right x) (sn_bottom x) (sn_width x) (sn_height x) (sn_bpp x)
           (sn_compressed x) (sn_data x).

Definition expected_events (us : list update) : list bitmap_event := map event_of (expected_seen us).

Definition events_of_rects (rs : list rect) : list bitmap_event := map (fun r => event_of (seen_of r)) rs.

Lemma expected_events_cons u us :
  expected_events (u :: us) = events_of_rects (rects_of u) ++ expected_events us.
Proof.
  unfold expected_events, expected_seen, events_of_rects. cbn [flat_map].
  rewrite !map_app, map_map. reflexivity.
Qed.

Lemma rect_event_msg r : rect_event (rect_msg r) = Ok (event_of (seen_of r)).
Proof. reflexivity. Qed.

Lemma rect_events_msgs : forall rs acc,
  rect_events (map rect_msg rs) acc = (acc ++ events_of_rects rs, Ok tt).
Proof.
  induction rs as [|r rs IH]; intros acc; cbn [map rect_events events_of_rects].
  - rewrite app_nil_r. reflexivity.
  - rewrite rect_event_msg, IH. unfold events_of_rects. rewrite <- app_assoc. reflexivity.
Qed.

(* the size field of a bitmap update bounds every length field inside it *)
Lemma concat_rects_count : forall rs, nlen rs <= nlen (List.concat (map enc_rect rs)).
Proof.
  induction rs as [|r rs IH]; [cbn; lia|].
  cbn [map List.concat]. rewrite nlen_app, nlen_cons, nlen_enc_rect. lia.
Qed.

Lemma concat_rects_each : forall rs,
  Forall (fun r => nlen (enc_rect r) <= nlen (List.concat (map enc_rect rs))) rs.
Proof.
  induction rs as [|r rs IH]; constructor; cbn [map List.concat]; rewrite nlen_app; [lia|].
  eapply Forall_impl; [|exact IH]. cbv beta. intros x Hx. lia.
Qed.

Lemma nlen_enc_bitmap_update rs :
  nlen (enc_bitmap_update rs) = 4 + nlen (List.concat (map enc_rect rs)).
Proof. unfold enc_bitmap_update. rewrite !nlen_app, !nlen_le16. lia. Qed.

Lemma bitmap_update_fits rs :
  u16 (nlen (enc_bitmap_update rs)) -> Forall rect_fits rs /\ nlen rs < 65536.
Proof.
  unfold u16. rewrite nlen_enc_bitmap_update. intros H. split.
  - eapply Forall_impl; [|exact (concat_rects_each rs)]. cbv beta. intros r Hr.
    unfold rect_fits. rewrite nlen_enc_rect in Hr. destruct (has_hdr r); lia.
  - pose proof (concat_rects_count rs). lia.
Qed.

Lemma safe_color : safe ts_colorpointerattribute = true.
Proof. vm_compute. reflexivity. Qed.

Section Glue.
Variable p : prof.

Lemma fp_hdr c b : cast_num 8 (get (fp_msg c b) "updateHeader") = Ok c.
Proof. reflexivity. Qed.
Lemma fp_data c b : cast_bytes (get (fp_msg c b) "updateData") = Ok b.
Proof. reflexivity. Qed.

(* FastPathUpdate::from_fp on an unfragmented, uncompressed update *)
Lemma fp_from_fp_msg c b :
  c < 16 ->
  fp_from_fp p (fp_msg c b) =
    if negb (fp_type_known c) then Err EInvalidCast else
    match (if c =? FP_BITMAP then Some ts_fp_update_bitmap
           else if c =? FP_COLOR then Some ts_colorpointerattribute
           else if c =? FP_SYNCHRONIZE then Some empty_component
           else if c =? FP_PTR_NULL then Some empty_component
           else None) with
    | None => Err ENotImplemented
    | Some tm => obind (rd p tm b) (fun m => Ok (c, m))
    end.
Proof.
  intros Hc. unfold fp_from_fp. rewrite fp_hdr. cbn [obind]. cbv zeta.
  rewrite (code_land15 c Hc), fp_data. reflexivity.
Qed.

Lemma fp_from_fp_bitmap rs :
  Forall valid_rect rs -> u16 (nlen (enc_bitmap_update rs)) ->
  fp_from_fp p (upd_msg (UBitmap rs)) = Ok (FP_BITMAP, bitmap_msg (nlen rs) rs).
Proof.
  intros Hv Hsz. destruct (bitmap_update_fits rs Hsz) as [Hfit Hn].
  unfold upd_msg. cbn [update_code update_data].
  rewrite fp_from_fp_msg by reflexivity.
  change (negb (fp_type_known FASTPATH_UPDATETYPE_BITMAP)) with false.
  change (FASTPATH_UPDATETYPE_BITMAP =? FP_BITMAP) with true. cbv iota.
  unfold rd. destruct (read_bitmap_update p rs Hv Hfit Hn) as [a ->]. reflexivity.
Qed.

(* every other update: no crash, and never taken for a bitmap update *)
Lemma fp_from_fp_other c d :
  c < 16 -> c <> FASTPATH_UPDATETYPE_BITMAP -> wf_bytes d ->
  match fp_from_fp p (fp_msg c d) with
  | Ok (t, _) => t <> FP_BITMAP
  | Err _ => True
  | _ => False
  end.
Proof.
  intros Hc Hne Hwf. rewrite (fp_from_fp_msg c d Hc).
  destruct (negb (fp_type_known c)); [exact I|].
  destruct (c =? FP_BITMAP) eqn:E1; [apply N.eqb_eq in E1; contradiction|].
  destruct (c =? FP_COLOR).
  { destruct (rd_nocrash p ts_colorpointerattribute d safe_color Hwf) as [H1 H2].
    destruct (rd p ts_colorpointerattribute d); cbn [obind]; auto. }
  change (rd p empty_component d) with (@Ok msg (MComp [])).
  destruct (c =? FP_SYNCHRONIZE); [cbn [obind]; exact Hne|].
  destruct (c =? FP_PTR_NULL); [cbn [obind]; exact Hne|exact I].
Qed.

Lemma get_rectangles nr rs :
  get (bitmap_msg nr rs) "rectangles" = Some (MArray (map rect_msg rs) (Some ts_bitmap_data)).
Proof. reflexivity. Qed.

(* the dispatch loop of read_fast_path over the updates of one PDU *)
Lemma fp_updates_enc : forall us acc,
  Forall valid_update us ->
  fp_updates p (map upd_msg us) acc = (acc ++ expected_events us, Ok tt).
Proof.
  induction us as [|u us IH]; intros acc Hv.
  - cbn [map fp_updates]. unfold expected_events. cbn. rewrite app_nil_r. reflexivity.
  - inversion Hv as [|? ? Hu Hus]; subst. cbn [map fp_updates].
    rewrite expected_events_cons, app_assoc.
    destruct u as [rs|c d]; destruct Hu as [Hsz Hu]; cbn [update_data rects_of] in *.
    + rewrite (fp_from_fp_bitmap rs Hu Hsz), N.eqb_refl, get_rectangles. cbn [trame_of].
      rewrite rect_events_msgs. apply IH. exact Hus.
    + destruct Hu as [Hc [Hne Hwf]].
      pose proof (fp_from_fp_other c d Hc Hne Hwf) as H.
      unfold upd_msg. cbn [update_code update_data]. cbn [events_of_rects map]. rewrite app_nil_r.
      destruct (fp_from_fp p (fp_msg c d)) as [[t m]|e| |]; try contradiction.
      * apply N.eqb_neq in H. rewrite H. apply IH. exact Hus.
      * apply IH. exact Hus.
Qed.

Lemma read_update_enc u rest :
  valid_update u -> rok (read p ts_fp_update (enc_update u ++ rest)) (upd_msg u) rest.
Proof.
  intros [Hsz Hu]. unfold enc_update, upd_msg. repeat rewrite <- app_assoc.
  apply read_fp_update; [|exact Hsz].
  destruct u as [rs|c d]; [reflexivity|]. destruct Hu as [Hc _]. exact Hc.
Qed.

(* global::Client::read_fast_path on the updates of one PDU: one callback per rectangle,
   in wire order, nothing else happens *)
Theorem read_fast_path_exact s us :
  Forall valid_update us ->
  read_fast_path p s (enc_fp_payload us) = mkStep s (Ok tt) [] (expected_events us).
Proof.
  intros Hv. unfold read_fast_path, rd, enc_fp_payload. rewrite read_array_unfold.
  pose proof (read_array_concat (read p ts_fp_update) (fun l => MArray ([] ++ l) (Some ts_fp_update))
                enc_update upd_msg valid_update) as H.
  destruct (H (fun e rest He => read_update_enc e rest He)
              (fun e _ => ltac:(unfold enc_update; cbn [app]; discriminate))
              (read_fp_update_eof p) us Hv
              (S (List.length (List.concat (map enc_update us)))) [] 0 (Nat.lt_succ_diag_r _)) as [a ->].
  cbn [lift trame_of rev app]. rewrite fp_updates_enc by exact Hv. reflexivity.
Qed.

(* RdpClient::read on the whole frame *)
Theorem client_read_fp s sec long us :
  st s = SData -> valid_fp_frame sec long us ->
  client_read p s (enc_fp_frame sec long us) = mkStep s (Ok tt) [] (expected_events us).
Proof.
  intros Hst (Hsec & Hv & Hlen). unfold client_read, frame_payload, enc_fp_frame.
  set (f := Fast (64 * sec) long (enc_fp_payload us)).
  assert (Hf : valid f).
  { unfold f. cbn [valid]. destruct long; repeat split; try lia; exact Hlen. }
  assert (Hne : no_empty [enc f]).
  { constructor; [|constructor]. unfold f. destruct long; cbn [enc app]; discriminate. }
  destruct (tpkt_read_frame f [enc f] [] Hf Hne) as [cs' [Hr _]].
  { cbn [List.concat]. reflexivity. }
  unfold x224_read. rewrite Hr. unfold f. cbn [expected lift mcs_read].
  unfold global_read. rewrite Hst. apply read_fast_path_exact. exact Hv.
Qed.

End Glue.

(* ------------------------------------------------------------------ histories *)
(* what happens to a session inside the data window: the server sends fast-path PDUs, the
   application sends (or tries to send) input *)
Inductive hop :=
| HFrame (sec_flags : N) (long : bool) (us : list update)
| HInput (e : input_ev)
| HTryInput (e : input_ev).

Definition to_op (h : hop) : op :=
  match h with
  | HFrame sec long us => OpRead (enc_fp_frame sec long us)
  | HInput e => OpWrite e
  | HTryInput e => OpTryWrite e
  end.

Definition valid_hop (h : hop) : Prop :=
  match h with HFrame sec long us => valid_fp_frame sec long us | _ => True end.

Definition hop_events (h : hop) : list bitmap_event :=
  match h with HFrame _ _ us => expected_events us | _ => [] end.

Lemma client_try_write_events p s e :
  r_session (client_try_write p s e) = s /\ r_events (client_try_write p s e) = [].
Proof.
  pose proof (client_write_gate p s e) as H. cbv zeta in H. destruct H as [Hs [He _]].
  unfold client_try_write.
  destruct (r_out (client_write p s e)) as [u|er| |]; try (split; assumption).
  destruct er; cbn [r_session r_events]; split; assumption.
Qed.

Lemma do_op_hop p s h :
  st s = SData -> valid_hop h ->
  r_session (do_op p s (to_op h)) = s /\ r_events (do_op p s (to_op h)) = hop_events h /\
  match h with HFrame _ _ _ => r_out (do_op p s (to_op h)) = Ok tt /\ r_wire (do_op p s (to_op h)) = [] | _ => True end.
Proof.
  intros Hst Hv. destruct h as [sec long us|e|e]; cbn [to_op do_op hop_events valid_hop] in *.
  - rewrite (client_read_fp p s sec long us Hst Hv). cbn. auto.
  - pose proof (client_write_gate p s e) as H. cbv zeta in H. destruct H as [Hs [He _]]. auto.
  - destruct (client_try_write_events p s e). auto.
Qed.

Theorem run_ops_fp p : forall hs s,
  st s = SData -> Forall valid_hop hs ->
  map r_events (run_ops p s (map to_op hs)) = map hop_events hs /\
  Forall (fun r => r_session r = s) (run_ops p s (map to_op hs)).
Proof.
  induction hs as [|h hs IH]; intros s Hst Hv; cbn [map run_ops]; [split; constructor|].
  inversion Hv as [|? ? Hh Hhs]; subst.
  destruct (do_op_hop p s h Hst Hh) as [Hs [He _]].
  rewrite Hs, He. destruct (IH s Hst Hhs) as [H1 H2]. rewrite H1. split; [reflexivity|].
  constructor; assumption.
Qed.

(* the whole stream of callbacks = every rectangle of every PDU, in order *)
Definition history_events (rs : list step_result) : list bitmap_event := List.concat (map r_events rs).

Theorem history_exact p hs s :
  st s = SData -> Forall valid_hop hs ->
  history_events (run_ops p s (map to_op hs)) = flat_map hop_events hs.
Proof.
  intros Hst Hv. unfold history_events. destruct (run_ops_fp p hs s Hst Hv) as [-> _].
  rewrite flat_map_concat_map. reflexivity.
Qed.

(* a server that only sends PDUs *)
Theorem pdu_sequence p (fs : list (N * bool * list update)) s :
  st s = SData -> Forall (fun '(sec, long, us) => valid_fp_frame sec long us) fs ->
  history_events (run_ops p s (map (fun '(sec, long, us) => OpRead (enc_fp_frame sec long us)) fs)) =
  expected_events (flat_map (fun '(_, _, us) => us) fs).
Proof.
  intros Hst Hv.
  pose proof (history_exact p (map (fun '(sec, long, us) => HFrame sec long us) fs) s Hst) as H.
  rewrite map_map in H.
  replace (map (fun x => to_op (let '(sec, long, us) := x in HFrame sec long us)) fs)
    with (map (fun '(sec, long, us) => OpRead (enc_fp_frame sec long us)) fs) in H
    by (apply map_ext; intros [[a b] c]; reflexivity).
  rewrite H.
  - clear. induction fs as [|[[a b] c] fs IH]; [reflexivity|].
    cbn [map flat_map hop_events]. rewrite IH.
    unfold expected_events, expected_seen. rewrite flat_map_app, !map_app. reflexivity.
  - apply Forall_forall. intros h Hin. apply in_map_iff in Hin. destruct Hin as [[[a b] c] [<- Hin]].
    rewrite Forall_forall in Hv. exact (Hv _ Hin).
Qed.

(* outside the data window a fast-path PDU is refused and nothing is delivered *)
Theorem fp_outside_window p s sec long us :
  st s <> SData -> valid_fp_frame sec long us ->
  client_read p s (enc_fp_frame sec long us) = mkStep s (Err EInvalidCast) [] [].
Proof.
  intros Hst (Hsec & Hv & Hlen). unfold client_read, frame_payload, enc_fp_frame.
  set (f := Fast (64 * sec) long (enc_fp_payload us)).
  assert (Hf : valid f).
  { unfold f. cbn [valid]. destruct long; repeat split; try lia; exact Hlen. }
  assert (Hne : no_empty [enc f]).
  { constructor; [|constructor]. unfold f. destruct long; cbn [enc app]; discriminate. }
  destruct (tpkt_read_frame f [enc f] [] Hf Hne) as [cs' [Hr _]].
  { cbn [List.concat]. reflexivity. }
  unfold x224_read. rewrite Hr. unfold f. cbn [expected lift mcs_read].
  unfold global_read. destruct (st s); try reflexivity. congruence.
Qed.

(* other update kinds are transparent: removing them changes nothing the application sees *)
Lemma expected_events_app us1 us2 :
  expected_events (us1 ++ us2) = expected_events us1 ++ expected_events us2.
Proof. unfold expected_events, expected_seen. rewrite flat_map_app, !map_app. reflexivity. Qed.

Theorem other_updates_transparent p s us1 c d us2 :
  Forall valid_update (us1 ++ UOther c d :: us2) ->
  r_events (read_fast_path p s (enc_fp_payload (us1 ++ UOther c d :: us2))) =
  r_events (read_fast_path p s (enc_fp_payload (us1 ++ us2))) /\
  r_events (read_fast_path p s (enc_fp_payload [UOther c d])) = [].
Proof.
  intros Hv.
  assert (Hv1 : Forall valid_update (us1 ++ us2)).
  { apply Forall_app in Hv. destruct Hv as [H1 H2]. inversion H2; subst. apply Forall_app. auto. }
  assert (Hv2 : Forall valid_update [UOther c d]).
  { apply Forall_app in Hv. destruct Hv as [_ H2]. inversion H2; subst. constructor; auto. }
  rewrite !read_fast_path_exact by assumption. cbn [r_events].
  rewrite !expected_events_app. split; reflexivity.
Qed.

(* ------------------------------------------------------------------ a concrete PDU *)
Definition ex_rect_plain : rect := mkRect 0 0 63 63 64 64 16 0 0 0 [1; 2; 3; 4].
Definition ex_rect_hdr : rect := mkRect 64 0 127 63 64 64 16 1 128 8192 [9; 8; 7].
Definition ex_rect_nohdr : rect := mkRect 5 6 7 8 2 2 32 1025 0 0 [255; 0; 255].
Definition ex_updates : list update :=
  [UBitmap [ex_rect_plain; ex_rect_hdr]; UOther 5 []; UOther 7 [1; 2]; UOther 9 [0; 0]; UBitmap [];
   UBitmap [ex_rect_nohdr]].
Definition ex_session : session := mkSession SData 1004 1003 800 600 1033 (Some 66538) [114; 100; 112].

Lemma ex_valid : valid_fp_frame 2 false ex_updates /\ valid_fp_frame 0 true ex_updates.
Proof.
  assert (Hus : Forall valid_update ex_updates).
  { unfold ex_updates, valid_update, valid_rect, u16, wf_bytes.
    repeat (constructor; cbn; try lia; try discriminate); intros; try discriminate; split; reflexivity. }
  split; (split; [reflexivity|split; [exact Hus|vm_compute; discriminate]]).
Qed.

Lemma ex_events :
  expected_events ex_updates =
  [mkBitmap 0 0 63 63 64 64 16 false [1; 2; 3; 4]; mkBitmap 64 0 127 63 64 64 16 true [9; 8; 7];
   mkBitmap 5 6 7 8 2 2 32 true [255; 0; 255]].
Proof. reflexivity. Qed.

Lemma ex_computed :
  forall p, client_read p ex_session (enc_fp_frame 2 false ex_updates) =
            mkStep ex_session (Ok tt) []
              [mkBitmap 0 0 63 63 64 64 16 false [1; 2; 3; 4]; mkBitmap 64 0 127 63 64 64 16 true [9; 8; 7];
               mkBitmap 5 6 7 8 2 2 32 true [255; 0; 255]].
Proof. intros p. destruct p; vm_compute; reflexivity. Qed.

(* ------------------------------------------------------------------ observation (outside the property's quantifier) *)
(* ts_fp_update decides whether a compressionFlags byte follows by testing bit 5 of
   updateHeader ((header >> 4) & 2), which MS-RDPBCGR 2.2.9.1.2.1 assigns to the
   FRAGMENTATION field (bits 4-5); the compression field is bits 6-7
   (FASTPATH_OUTPUT_COMPRESSION_USED = 2, i.e. bit 7).  With all four bits zero -- the only
   thing a server may send to this client, which announces neither fragmentation nor
   compression support -- the test is right, and that is the scope of C10.  Beyond it:
   a compressed update (bit 7, compressionFlags present) is read WITHOUT the flags byte,
   and a FIRST/NEXT fragment (bit 5, no flags byte) is read WITH one. *)
Example obs_compressed_update_misread :
  forall p, read_fast_path p ex_session ([129; 0] ++ le16 26 ++ enc_bitmap_update [ex_rect_plain])
            = mkStep ex_session (Ok tt) [] [].
Proof. intros p. destruct p; vm_compute; reflexivity. Qed.

Example obs_first_fragment_misread :
  forall p, read_fast_path p ex_session ([33] ++ le16 26 ++ enc_bitmap_update [ex_rect_plain])
            = mkStep ex_session (Ok tt) [] [].
Proof. intros p. destruct p; vm_compute; reflexivity. Qed.

(* ------------------------------------------------------------------ the two reference encoders agree *)
(* golden bytes: the same six updates encoded by the generator's independent python encoder
   (gen/rdp.py: fp_frame / fp_bitmap / bitmap_rect / fp_unknown) -- the encoder whose traffic
   the correspondence run replays against the real crate *)
Definition ex_body_python : bytes :=
  [1; 55; 0; 1; 0; 2; 0; 0; 0; 0; 0; 63; 0; 63; 0; 64; 0; 64; 0; 16; 0; 0; 0; 4; 0; 1; 2; 3; 4; 64; 0; 0; 0; 127; 0;
   63; 0; 64; 0; 64; 0; 16; 0; 1; 0; 11; 0; 0; 0; 3; 0; 128; 0; 0; 32; 9; 8; 7; 5; 0; 0; 7; 2; 0; 1; 2; 9; 2; 0; 0; 0;
   1; 4; 0; 1; 0; 0; 0; 1; 25; 0; 1; 0; 1; 0; 5; 0; 6; 0; 7; 0; 8; 0; 2; 0; 2; 0; 32; 0; 1; 4; 3; 0; 255; 0; 255].

Example ex_wire_short : enc_fp_frame 2 false ex_updates = [128; 108] ++ ex_body_python.
Proof. vm_compute. reflexivity. Qed.
Example ex_wire_long : enc_fp_frame 0 true ex_updates = [0; 128; 109] ++ ex_body_python.
Proof. vm_compute. reflexivity. Qed.
