(* Reference PER DECODERS for the constructs of RefPer.v, written from the same clauses of
   ITU-T X.691 (ALIGNED) / X.690 8.19 and independently of core/per.rs and of Per.v: each
   one is the inverse of the reference ENCODER of RefPer.v (proved in C18_inv_per.v) and is
   STRICT where the standard is (digit alphabet, zero padding bits, OID continuation
   octets), with the conventions documented in RefPer.v (two-octet length determinant up to
   15 bits; integers on 1, 2 or 4 octets).  The length determinant decoder
   [ref_dec_length] is in RefPer.v; like every PER decoder it accepts the two-octet form
   for a value below 128 (X.691 10.9 constrains the ENcoder).  Executable, no proofs. *)
From RdpV Require Import Base RefPer.
Open Scope list_scope.
Open Scope N_scope.

(* the first n octets and what follows; None when fewer are there *)
Definition rtake (n : N) (i : bytes) : option (bytes * bytes) :=
  if n <=? nlen i then Some (firstn (N.to_nat n) i, skipn (N.to_nat n) i) else None.

(* integer: length determinant, then that many octets, most significant first *)
Definition ref_dec_integer (i : bytes) : option (N * bytes) :=
  match ref_dec_length i with
  | Some (l, r) =>
      if (l =? 1) || (l =? 2) || (l =? 4) then
        match rtake l r with
        | Some (c, rest) => Some (of_be_octets c, rest)
        | None => None
        end
      else None
  | None => None
  end.

(* constrained 16-bit whole number: offset from the lower bound on two octets; the value
   must fit the 16-bit range of the type *)
Definition ref_dec_integer_16 (lower : N) (i : bytes) : option (N * bytes) :=
  match i with
  | a :: b :: r => if lower + (a * 256 + b) <? 65536 then Some (lower + (a * 256 + b), r) else None
  | _ => None
  end.

(* object identifier contents after the first octet: arcs base 128, continuation bit on
   every octet but the last, no leading 0x80 (X.690 8.19.2) *)
Fixpoint ref_dec_arcs (acc : option N) (c : bytes) : option (list N) :=
  match c with
  | [] => match acc with None => Some [] | Some _ => None end
  | b :: tl =>
      if (match acc with None => (b =? 128) | Some _ => false end) then None
      else
        let a := (match acc with Some x => x | None => 0 end) * 128 + b mod 128 in
        if b <? 128 then
          match ref_dec_arcs None tl with Some l => Some (a :: l) | None => None end
        else ref_dec_arcs (Some a) tl
  end.

(* first octet 40 * arc1 + arc2 with arc1 <= 2 and arc2 < 40 unless arc1 = 2 (X.690 8.19.4);
   only the one-octet form of the first subidentifier (below 128), as RefPer.ref_oid *)
Definition ref_dec_oid (i : bytes) : option (list N * bytes) :=
  match ref_dec_length i with
  | Some (l, r) =>
      match rtake l r with
      | Some (x :: c, rest) =>
          if 128 <=? x then None
          else
            let a0 := if x <? 40 then 0 else if x <? 80 then 1 else 2 in
            match ref_dec_arcs None c with
            | Some arcs => Some (a0 :: (x - 40 * a0) :: arcs, rest)
            | None => None
            end
      | _ => None
      end
  | None => None
  end.

(* numeric string over "0123456789": n characters on (n + 1) / 2 octets, 4 bits each, the
   first one in the high nibble; a nibble above 9 is not in the alphabet, the pad nibble of
   an odd string is zero *)
Fixpoint ref_unpack (n : nat) (p : bytes) : option bytes :=
  match n, p with
  | O, [] => Some []
  | S O, [b] => if (b / 16 <? 10) && (b mod 16 =? 0) then Some [b / 16 + 48] else None
  | S (S n'), b :: tl =>
      if (b / 16 <? 10) && (b mod 16 <? 10) then
        match ref_unpack n' tl with
        | Some s => Some ((b / 16 + 48) :: (b mod 16 + 48) :: s)
        | None => None
        end
      else None
  | _, _ => None
  end.

Definition ref_dec_numeric_string (lower : N) (i : bytes) : option (bytes * bytes) :=
  match ref_dec_length i with
  | Some (l, r) =>
      match rtake ((l + lower + 1) / 2) r with
      | Some (packed, rest) =>
          match ref_unpack (N.to_nat (l + lower)) packed with
          | Some s => Some (s, rest)
          | None => None
          end
      | None => None
      end
  | None => None
  end.

(* octet string: length determinant (minus the lower size bound), then the octets *)
Definition ref_dec_octet_string (lower : N) (i : bytes) : option (bytes * bytes) :=
  match ref_dec_length i with
  | Some (l, r) => rtake (l + lower) r
  | None => None
  end.
