From RdpV Require Import Base Sweep Link Tpkt RefFraming C13_proofs.

(* a step that makes progress *)
Definition progress (w : wstep) : Prop := match w with Accept (S _) => True | _ => False end.
Definition stalls (w : wstep) : Prop := match w with Accept (S _) => False | _ => True end.

Definition is_prefix (a b : bytes) : Prop := exists r, b = a ++ r.
Definition strict_prefix (a b : bytes) : Prop := exists r, r <> [] /\ b = a ++ r.

(* write_all over ANY schedule: either everything reached the sink and Ok is returned,
   or a strict prefix reached it, the failure is reported, and the schedule really
   contained a step that failed or accepted nothing. *)
Lemma write_all_spec :
  forall (s : schedule) (buf : bytes),
    let '(out, ok, s') := write_all buf s in
    (ok = true /\ out = buf) \/
    (ok = false /\ strict_prefix out buf /\ Exists stalls s).
Proof.
  induction s as [|w s IH]; intros buf.
  - destruct buf; cbn; left; auto.
  - destruct buf as [|b buf']; [cbn; left; auto|].
    cbn [write_all].
    destruct w as [k|].
    + destruct k as [|k'].
      * right. split; auto. split; [exists (b :: buf'); split; [discriminate|reflexivity]|].
        constructor. exact I.
      * destruct (Nat.leb (length (b :: buf')) (S k')) eqn:Hle; [left; auto|].
        apply Nat.leb_gt in Hle.
        specialize (IH (skipn (S k') (b :: buf'))).
        destruct (write_all (skipn (S k') (b :: buf')) s) as [[out ok] s''].
        destruct IH as [[-> ->]|[-> [[r [Hr Heq]] Hex]]].
        -- left. split; auto. apply firstn_skipn.
        -- right. split; auto. split.
           ++ exists r. split; auto. rewrite <- app_assoc, <- Heq. symmetry. apply firstn_skipn.
           ++ apply Exists_cons_tl. exact Hex.
    + right. split; auto. split; [exists (b :: buf'); split; [discriminate|reflexivity]|].
      constructor. exact I.
Qed.

(* every pattern of short writes that keeps making progress delivers every byte *)
Lemma write_all_progress :
  forall (s : schedule) (buf : bytes),
    Forall progress s -> exists s', write_all buf s = (buf, true, s').
Proof.
  intros s buf Hp. pose proof (write_all_spec s buf) as H.
  destruct (write_all buf s) as [[out ok] s'].
  destruct H as [[-> ->]|[_ [_ Hex]]]; [eexists; reflexivity|].
  exfalso. apply Exists_exists in Hex. destruct Hex as [w [Hin Hst]].
  rewrite Forall_forall in Hp. specialize (Hp w Hin). destruct w as [[|k]|]; cbn in *; auto.
Qed.

Definition too_large (msg : bytes) : Prop := 65535 < nlen msg + 4.

Lemma tpkt_frame_is_spec (msg : bytes) : tpkt_frame msg = enc (Slow 0 msg).
Proof. reflexivity. Qed.

(* the header length equals the number of bytes emitted *)
Lemma tpkt_frame_length (msg : bytes) :
  ~ too_large msg ->
  exists hi lo, tpkt_frame msg = [3; 0; hi; lo] ++ msg /\ of_be16 hi lo = nlen (tpkt_frame msg).
Proof.
  intros H. unfold too_large in H. exists (u16_hi (nlen msg + 4)), (u16_lo (nlen msg + 4)).
  split; [reflexivity|]. rewrite be16_of by lia.
  unfold tpkt_frame, be16. cbn [app]. rewrite !nlen_cons. lia.
Qed.

Theorem tpkt_write_exact_or_refused :
  forall (msg : bytes) (s : schedule),
    let '(out, r, s') := tpkt_write msg s in
    (too_large msg /\ r = Err EInvalidSize /\ out = [] /\ s' = s) \/
    (~ too_large msg /\ r = Ok tt /\ out = enc (Slow 0 msg)) \/
    (~ too_large msg /\ r = Err EIo /\ strict_prefix out (enc (Slow 0 msg)) /\ Exists stalls s).
Proof.
  intros msg s. unfold tpkt_write, too_large.
  destruct (N.ltb_spec (65535 - 4) (nlen msg)) as [Hbig|Hok].
  - cbv beta iota. left. repeat split; auto. lia.
  - unfold link_write. pose proof (write_all_spec s (tpkt_frame msg)) as H.
    destruct (write_all (tpkt_frame msg) s) as [[out ok] s'].
    destruct H as [[-> ->]|[-> [Hp Hex]]]; cbv beta iota; right.
    + left. repeat split; auto. lia.
    + right. repeat split; auto. lia.
Qed.

Theorem tpkt_write_delivers :
  forall (msg : bytes) (s : schedule),
    ~ too_large msg -> Forall progress s ->
    exists s', tpkt_write msg s = (enc (Slow 0 msg), Ok tt, s').
Proof.
  intros msg s Hsz Hp. unfold tpkt_write, too_large in *.
  destruct (N.ltb_spec (65535 - 4) (nlen msg)) as [Hbig|Hok]; [lia|].
  unfold link_write. destruct (write_all_progress s (tpkt_frame msg) Hp) as [s' ->].
  exists s'. reflexivity.
Qed.

Theorem x224_write_exact_or_refused :
  forall (msg : bytes) (s : schedule),
    let '(out, r, s') := x224_write msg s in
    let m := [2; 240; 128] ++ msg in
    (too_large m /\ r = Err EInvalidSize /\ out = [] /\ s' = s) \/
    (~ too_large m /\ r = Ok tt /\ out = enc (Slow 0 m)) \/
    (~ too_large m /\ r = Err EIo /\ strict_prefix out (enc (Slow 0 m)) /\ Exists stalls s).
Proof. intros msg s. unfold x224_write. apply tpkt_write_exact_or_refused. Qed.

(* what is written is read back as exactly one frame with the same payload: write and
   read are inverse across the wire, whatever the fragmentation on the way *)
Theorem write_then_read :
  forall (msg : bytes) (s : schedule) (cs : stream) (rest : bytes),
    ~ too_large msg -> Forall progress s -> no_empty cs ->
    concat cs = fst (fst (tpkt_write msg s)) ++ rest ->
    exists cs', tpkt_read cs = (Ok (Raw msg), cs') /\ concat cs' = rest.
Proof.
  intros msg s cs rest Hsz Hp Hne Hcat.
  destruct (tpkt_write_delivers msg s Hsz Hp) as [s' Hw]. rewrite Hw in Hcat. cbn [fst] in Hcat.
  destruct (tpkt_read_frame (Slow 0 msg) cs rest) as [cs' [H1 [H2 _]]]; auto.
  { cbn. unfold too_large in Hsz. split; lia. }
  exists cs'. auto.
Qed.

(* non-vacuity *)
Example write_short_example :
  tpkt_write [1; 2; 3; 4; 5; 6; 7; 8] [Accept 5; Accept 5; Accept 5] =
  ([3; 0; 0; 12; 1; 2; 3; 4; 5; 6; 7; 8], Ok tt, []).
Proof. vm_compute. reflexivity. Qed.

Example write_fail_example :
  tpkt_write [1; 2; 3] [Accept 2; Accept 3; Fail; Accept 9] = ([3; 0; 0; 7; 1], Err EIo, [Accept 9]).
Proof. vm_compute. reflexivity. Qed.

(* ---- histories of writes on one client *)
Definition write_ok (msg : bytes) (o : bytes * outcome unit) : Prop :=
  let '(out, r) := o in
  (too_large msg /\ r = Err EInvalidSize /\ out = []) \/
  (~ too_large msg /\ r = Ok tt /\ out = enc (Slow 0 msg)) \/
  (~ too_large msg /\ r = Err EIo /\ strict_prefix out (enc (Slow 0 msg))).

Lemma tpkt_writes_history :
  forall (msgs : list bytes) (s : schedule), Forall2 write_ok msgs (fst (tpkt_writes msgs s)).
Proof.
  induction msgs as [|m tl IH]; intros s; cbn [tpkt_writes fst].
  - constructor.
  - pose proof (tpkt_write_exact_or_refused m s) as H.
    destruct (tpkt_write m s) as [[out r] s'] eqn:E.
    specialize (IH s'). destruct (tpkt_writes tl s') as [rs s''] eqn:E2. cbn [fst] in *.
    constructor; [|exact IH].
    unfold write_ok. destruct H as [(H1 & H2 & H3 & _)|[(H1 & H2 & H3)|(H1 & H2 & H3 & _)]]; auto.
Qed.

Lemma tpkt_writes_example :
  fst (tpkt_writes [[1; 2; 3]; [9]] [Accept 2; Fail; Accept 9]) =
    [([3; 0], Err EIo); ([3; 0; 0; 5; 9], Ok tt)].
Proof. reflexivity. Qed.
