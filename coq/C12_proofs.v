From RdpV Require Import Base Msg LayoutsGlobal Link Tpkt Global.
Open Scope list_scope.
Open Scope N_scope.

(* the activation sequence of MS-RDPBCGR 1.3.1.1 as an edge relation on what the client waits for *)
Inductive edge : gstate -> gstate -> Prop :=
| e_da    : edge SDemandActive SSynchronize        (* demand-active answered *)
| e_sync  : edge SSynchronize SControlCooperate
| e_coop  : edge SControlCooperate SControlGranted
| e_grant : edge SControlGranted SFontMap
| e_font  : edge SFontMap SData                     (* font-map: the window opens *)
| e_deact : edge SData SDemandActive.               (* deactivate-all: the window closes *)

Ltac break_match :=
  match goal with
  | |- context [match ?x with _ => _ end] =>
      match type of x with
      | sumbool _ _ => destruct x
      | _ => destruct x eqn:?
      end
  | |- context [if ?x then _ else _] => destruct x eqn:?
  end.

Ltac break_hyp H :=
  match type of H with
  | context [match ?x with _ => _ end] => destruct x eqn:?
  | context [if ?x then _ else _] => destruct x eqn:?
  end.

Lemma st_set_state s x : st (set_state s x) = x. Proof. reflexivity. Qed.
Lemma st_set_share s x : st (set_share s x) = st s. Proof. reflexivity. Qed.

(* ---- per-function step facts: result session is s or (set_state (set_share..)) along an edge ---- *)
Definition step_ok (s : session) (r : step_result) : Prop :=
  (r_session r = s \/ (exists x, edge (st s) x /\ st (r_session r) = x)).

Lemma lift_done_st {A} s (o : outcome A) k :
  (forall a, o = Ok a -> st (r_session (k a)) = st s \/ edge (st s) (st (r_session (k a)))) ->
  st (r_session (lift s o k)) = st s \/ edge (st s) (st (r_session (lift s o k))).
Proof. intros H. destruct o; cbn; auto. Qed.

Lemma data_pdus_st p : forall l s, 
  st (fst (data_pdus p s l)) = st s \/ st (fst (data_pdus p s l)) = SDemandActive.
Proof.
  induction l as [|c tl IH]; intros s; cbn [data_pdus]; [left; reflexivity|].
  repeat break_match; cbn [fst]; auto;
    try (destruct (IH (set_state s SDemandActive)) as [H|H]; rewrite H; auto).
Qed.

(* the state never changes in data_pdus unless a deactivate-all PDU is among those parsed *)
Lemma data_pdus_deact p : forall l s,
  st (fst (data_pdus p s l)) <> st s ->
  exists c m, In c l /\ pdu_from_control p c = Ok (PDUTYPE_DEACTIVATEALL, m).
Proof.
  induction l as [|c tl IH]; intros s Hne; cbn [data_pdus] in Hne; [exfalso; apply Hne; reflexivity|].
  destruct (pdu_from_control p c) as [[t m]| | |] eqn:Hc; cbn [fst] in Hne; try (exfalso; apply Hne; reflexivity).
  destruct (t =? PDUTYPE_DEACTIVATEALL) eqn:Ht.
  - apply N.eqb_eq in Ht. subst t. exists c, m. split; [left; reflexivity|exact Hc].
  - assert (Hrec : st (fst (data_pdus p s tl)) <> st s).
    { revert Hne. repeat break_match; cbn [fst]; auto; intros; try congruence. }
    destruct (IH s Hrec) as [c' [m' [Hin Hp]]]. exists c', m'. split; [right; exact Hin|exact Hp].
Qed.

Lemma data_pdus_only_state p : forall l s,
  fst (data_pdus p s l) = s \/ fst (data_pdus p s l) = set_state s SDemandActive.
Proof.
  induction l as [|c tl IH]; intros s; cbn [data_pdus]; [left; reflexivity|].
  repeat break_match; cbn [fst]; auto.
  all: try (destruct (IH (set_state s SDemandActive)) as [H|H]; rewrite H; auto).
Qed.

(* ---- what one read does to the session, the wire and the callback, in each state ---- *)

Lemma gstate_eq_dec_lemma (x : gstate) : x = SDemandActive \/ x <> SDemandActive.
Proof. destruct x; auto; right; discriminate. Qed.

Definition same_but_state (s s' : session) : Prop :=
  user_id s' = user_id s /\ channel_id s' = channel_id s /\ width s' = width s /\ height s' = height s
  /\ layout s' = layout s /\ cname s' = cname s.

Lemma read_expect_data_spec p s b t2 act next :
  let r := read_expect_data p s b t2 act next in
  r_wire r = [] /\ r_events r = [] /\
  (r_session r = s \/
   (r_session r = set_state s next /\ r_out r = Ok tt /\
    exists m d, pdu_from_stream p b = Ok (PDUTYPE_DATA, m) /\ data_pdu_from_pdu p m = Ok (t2, d) /\
                match act with None => True | Some a => cast_num 16 (get d "action") = Ok a end)).
Proof.
  unfold read_expect_data.
  destruct (pdu_from_stream p b) as [[t m]| | |] eqn:Hp; cbn [lift done r_wire r_events r_session r_out]; auto.
  destruct (t =? PDUTYPE_DATA) eqn:Ht; cbn [negb lift done r_wire r_events r_session r_out]; auto.
  apply N.eqb_eq in Ht. subst t.
  destruct (data_pdu_from_pdu p m) as [[t2' d]| | |] eqn:Hd; cbn [lift done r_wire r_events r_session r_out]; auto.
  destruct (t2' =? t2) eqn:Ht2; cbn [negb lift done r_wire r_events r_session r_out]; auto.
  apply N.eqb_eq in Ht2. subst t2'.
  destruct act as [a|].
  - destruct (cast_num 16 (get d "action")) as [act'| | |] eqn:Ha; cbn [lift done r_wire r_events r_session r_out]; auto.
    destruct (act' =? a) eqn:Hact; cbn [done r_wire r_events r_session r_out]; auto.
    apply N.eqb_eq in Hact. subst act'.
    repeat split; auto. right. repeat split; auto. exists m, d. auto.
  - cbn [done r_wire r_events r_session r_out]. repeat split; auto. right. repeat split; auto. exists m, d. auto.
Qed.

Lemma read_demand_active_spec p s b :
  let r := read_demand_active p s b in
  r_events r = [] /\
  ((r_wire r = [] /\ st (r_session r) = st s) \/
   (exists sid m f0 fs,
      pdu_from_stream p b = Ok (PDUTYPE_DEMANDACTIVE, m) /\ cast_num 32 (get m "shareId") = Ok sid /\
      r_session r = set_state (set_share s (Some sid)) SSynchronize /\ r_out r = Ok tt /\
      write_confirm_active p (set_share s (Some sid)) = Ok f0 /\
      write_client_finalize p (set_share s (Some sid)) = Ok fs /\
      r_wire r = f0 :: fs)).
Proof.
  unfold read_demand_active.
  destruct (pdu_from_stream p b) as [[t m]| | |] eqn:Hp; cbn [lift done r_wire r_events r_session r_out]; auto.
  destruct (t =? PDUTYPE_DEMANDACTIVE) eqn:Ht; cbn [negb lift done r_wire r_events r_session r_out]; auto.
  apply N.eqb_eq in Ht. subst t.
  match goal with |- context [lift s ?o _] => destruct o as [caps| | |] eqn:Hcaps end;
    cbn [lift done r_wire r_events r_session r_out]; auto.
  destruct (caps_crash p caps) as [u| | |] eqn:Hcc; cbn [lift done r_wire r_events r_session r_out]; auto.
  destruct (cast_num 32 (get m "shareId")) as [sid| | |] eqn:Hsid; cbn [lift done r_wire r_events r_session r_out]; auto.
  destruct (write_confirm_active p (set_share s (Some sid))) as [f0| | |] eqn:Hf0;
    cbn [lift done r_wire r_events r_session r_out]; auto.
  destruct (write_client_finalize p (set_share s (Some sid))) as [fs| | |] eqn:Hfs;
    cbn [lift done r_wire r_events r_session r_out]; auto.
  split; auto. right. exists sid, m, f0, fs. repeat split; auto.
Qed.

Lemma read_data_pdu_spec p s b :
  let r := read_data_pdu p s b in
  r_wire r = [] /\ r_events r = [] /\
  (r_session r = s \/
   (r_session r = set_state s SDemandActive /\
    exists arr l c m, rd p (MArray [] (Some share_control_header_t)) b = Ok arr /\ trame_of arr = Some l /\
                      In c l /\ pdu_from_control p c = Ok (PDUTYPE_DEACTIVATEALL, m))
   \/ (r_session r = set_state s SDemandActive /\ st s = SDemandActive)).
Proof.
  unfold read_data_pdu.
  destruct (rd p (MArray [] (Some share_control_header_t)) b) as [arr| | |] eqn:Harr;
    cbn [lift done r_wire r_events r_session r_out]; auto.
  destruct (trame_of arr) as [l|] eqn:Hl; cbn [done r_wire r_events r_session r_out]; auto.
  destruct (data_pdus p s l) as [s' o] eqn:Hd. cbn [done r_wire r_events r_session r_out].
  repeat split; auto.
  pose proof (data_pdus_only_state p l s) as H1. rewrite Hd in H1. cbn [fst] in H1.
  destruct H1 as [-> | ->]; auto.
  destruct (gstate_eq_dec_lemma (st s)) as [Heq|Hne].
  - right. right. auto.
  - right. left. split; auto.
    destruct (data_pdus_deact p l s) as [c [m [Hin Hp]]].
    { rewrite Hd. cbn [fst]. rewrite st_set_state. congruence. }
    exists arr, l, c, m. auto.
Qed.

Lemma read_fast_path_spec p s b :
  let r := read_fast_path p s b in r_wire r = [] /\ r_session r = s.
Proof.
  unfold read_fast_path.
  destruct (rd p (MArray [] (Some ts_fp_update)) b) as [arr| | |]; cbn [lift done r_wire r_session]; auto.
  destruct (trame_of arr) as [l|]; cbn [done r_wire r_session]; auto.
  destruct (fp_updates p l []); cbn; auto.
Qed.

(* ---- one read of the whole client ---- *)
(* the slow-path user data the frame carries, as the model's own lower layers deliver it *)
Definition slow_data (s : session) (frame : bytes) : option bytes :=
  match frame_payload frame with
  | Ok pl => match mcs_read s pl with Ok (Raw b) => Some b | _ => None end
  | _ => None
  end.

Definition is_data_pdu p (b : bytes) (t2 : N) (act : option N) : Prop :=
  exists m d, pdu_from_stream p b = Ok (PDUTYPE_DATA, m) /\ data_pdu_from_pdu p m = Ok (t2, d) /\
              match act with None => True | Some a => cast_num 16 (get d "action") = Ok a end.

Definition has_deactivate_all p (b : bytes) : Prop :=
  exists arr l c m, rd p (MArray [] (Some share_control_header_t)) b = Ok arr /\ trame_of arr = Some l /\
                    In c l /\ pdu_from_control p c = Ok (PDUTYPE_DEACTIVATEALL, m).

Definition is_demand_active p (b : bytes) (sid : N) : Prop :=
  exists m, pdu_from_stream p b = Ok (PDUTYPE_DEMANDACTIVE, m) /\ cast_num 32 (get m "shareId") = Ok sid.

(* the PDU each edge of the activation sequence requires *)
Definition edge_requires p (from : gstate) (b : bytes) : Prop :=
  match from with
  | SDemandActive => exists sid, is_demand_active p b sid
  | SSynchronize => is_data_pdu p b PDUTYPE2_SYNCHRONIZE None
  | SControlCooperate => is_data_pdu p b PDUTYPE2_CONTROL (Some CTRLACTION_COOPERATE)
  | SControlGranted => is_data_pdu p b PDUTYPE2_CONTROL (Some CTRLACTION_GRANTED_CONTROL)
  | SFontMap => is_data_pdu p b PDUTYPE2_FONTMAP None
  | SData => has_deactivate_all p b
  end.

Definition finalization p (s : session) (sid : N) (wire : list bytes) : Prop :=
  exists f0 fs, write_confirm_active p (set_share s (Some sid)) = Ok f0 /\
                write_client_finalize p (set_share s (Some sid)) = Ok fs /\ wire = f0 :: fs.

Theorem client_read_step :
  forall p s frame,
    let r := client_read p s frame in
    (* (a) nothing moved, nothing written *)
    (st (r_session r) = st s /\ r_wire r = []) \/
    (* (b) the state advanced along exactly one edge of the activation sequence, on the PDU that edge requires;
           output is written on the demand-active edge only, and is exactly one confirm-active + finalization *)
    (edge (st s) (st (r_session r)) /\
     exists b, slow_data s frame = Some b /\ edge_requires p (st s) b /\
       match st s with
       | SDemandActive => exists sid, is_demand_active p b sid /\ share_id (r_session r) = Some sid /\
                                      finalization p s sid (r_wire r)
       | _ => r_wire r = []
       end).
Proof.
  intros p s frame. unfold client_read, slow_data.
  destruct (frame_payload frame) as [pl| | |] eqn:Hpl; cbn [lift done r_session r_wire]; auto.
  destruct (mcs_read s pl) as [pl'| | |] eqn:Hm; cbn [lift done r_session r_wire]; auto.
  unfold global_read.
  destruct (st s) eqn:Hst; destruct pl' as [b|f b]; cbn [done r_session r_wire]; auto.
  - (* demand active *)
    pose proof (read_demand_active_spec p s b) as H. cbv zeta in H.
    destruct H as [_ [[Hw Hs]|[sid [m [f0 [fs [Hp [Hsid [Hsess [Hout [Hf0 [Hfs Hw]]]]]]]]]]]].
    + left. rewrite Hs, Hw. auto.
    + right. rewrite Hsess, st_set_state. split; [constructor|].
      exists b. split; auto. split; [exists sid, m; auto|].
      exists sid. split; [exists m; auto|]. split; [reflexivity|]. exists f0, fs. auto.
  - (* synchronize *)
    pose proof (read_expect_data_spec p s b PDUTYPE2_SYNCHRONIZE None SControlCooperate) as H. cbv zeta in H.
    destruct H as [Hw [_ [Hs|[Hs [_ Hex]]]]]; rewrite Hs, Hw.
    + left. auto.
    + right. rewrite st_set_state. split; [constructor|]. exists b. auto.
  - pose proof (read_expect_data_spec p s b PDUTYPE2_CONTROL (Some CTRLACTION_COOPERATE) SControlGranted) as H. cbv zeta in H.
    destruct H as [Hw [_ [Hs|[Hs [_ Hex]]]]]; rewrite Hs, Hw.
    + left. auto.
    + right. rewrite st_set_state. split; [constructor|]. exists b. auto.
  - pose proof (read_expect_data_spec p s b PDUTYPE2_CONTROL (Some CTRLACTION_GRANTED_CONTROL) SFontMap) as H. cbv zeta in H.
    destruct H as [Hw [_ [Hs|[Hs [_ Hex]]]]]; rewrite Hs, Hw.
    + left. auto.
    + right. rewrite st_set_state. split; [constructor|]. exists b. auto.
  - pose proof (read_expect_data_spec p s b PDUTYPE2_FONTMAP None SData) as H. cbv zeta in H.
    destruct H as [Hw [_ [Hs|[Hs [_ Hex]]]]]; rewrite Hs, Hw.
    + left. auto.
    + right. rewrite st_set_state. split; [constructor|]. exists b. auto.
  - (* data, slow path *)
    pose proof (read_data_pdu_spec p s b) as H. cbv zeta in H.
    destruct H as [Hw [_ [Hs|[[Hs Hex]|[Hs Hst']]]]]; rewrite Hs, Hw.
    + left. auto.
    + right. rewrite st_set_state. split; [constructor|]. exists b. auto.
    + congruence.
  - (* data, fast path *)
    pose proof (read_fast_path_spec p s b) as H. cbv zeta in H. destruct H as [Hw Hs].
    left. rewrite Hs, Hw. auto.
Qed.

(* bitmap events are delivered only inside the window *)
Theorem client_read_events :
  forall p s frame, r_events (client_read p s frame) <> [] -> st s = SData.
Proof.
  intros p s frame. unfold client_read.
  destruct (frame_payload frame) as [pl| | |]; cbn [lift done r_events]; try congruence.
  destruct (mcs_read s pl) as [pl'| | |]; cbn [lift done r_events]; try congruence.
  unfold global_read. destruct (st s) eqn:Hst; auto; destruct pl' as [b|f b]; cbn [done r_events]; try congruence.
  - pose proof (read_demand_active_spec p s b) as H. cbv zeta in H. destruct H as [-> _]. congruence.
  - pose proof (read_expect_data_spec p s b PDUTYPE2_SYNCHRONIZE None SControlCooperate) as H. cbv zeta in H.
    destruct H as [_ [-> _]]. congruence.
  - pose proof (read_expect_data_spec p s b PDUTYPE2_CONTROL (Some CTRLACTION_COOPERATE) SControlGranted) as H. cbv zeta in H.
    destruct H as [_ [-> _]]. congruence.
  - pose proof (read_expect_data_spec p s b PDUTYPE2_CONTROL (Some CTRLACTION_GRANTED_CONTROL) SFontMap) as H. cbv zeta in H.
    destruct H as [_ [-> _]]. congruence.
  - pose proof (read_expect_data_spec p s b PDUTYPE2_FONTMAP None SData) as H. cbv zeta in H.
    destruct H as [_ [-> _]]. congruence.
Qed.

(* ---- input ---- *)
Definition sendable (e : input_ev) : Prop := match e with EvBitmap => False | _ => True end.

Lemma wr_pointer p fl x y : wr p (ts_pointer_event fl x y) = Ok (le16 fl ++ le16 x ++ le16 y).
Proof. reflexivity. Qed.
Lemma wr_keyboard p fl c : wr p (ts_keyboard_event fl c) = Ok (le16 fl ++ le16 c ++ le16 0).
Proof. reflexivity. Qed.

Lemma write_input_event_spec p s t ev data :
  wr p ev = Ok data ->
  let r := write_input_event p s t ev in
  r_session r = s /\ r_events r = [] /\ (st s <> SData -> r_wire r = [] /\ r_out r = Err EInvalidAutomata).
Proof.
  intros Hw. unfold write_input_event. rewrite Hw.
  destruct (st s) eqn:Hst; cbn [lift done r_session r_events r_wire r_out];
    repeat split; auto; congruence.
Qed.

Theorem client_write_gate :
  forall p s e,
    let r := client_write p s e in
    r_session r = s /\ r_events r = [] /\
    (st s <> SData -> r_wire r = [] /\ (sendable e -> r_out r = Err EInvalidAutomata)) /\
    (~ sendable e -> r_wire r = [] /\ r_out r = Err EUnexpectedType).
Proof.
  intros p s e. unfold client_write.
  destruct e as [x y b d|c d|]; cbn [sendable].
  - pose proof (write_input_event_spec p s INPUT_EVENT_MOUSE _ _ (wr_pointer p (pointer_flags b d) x y)) as H.
    cbv zeta in H. destruct H as [H1 [H2 H3]].
    split; [exact H1|]. split; [exact H2|]. split; [|tauto].
    intros Hn. destruct (H3 Hn) as [Ha Hb]. split; auto.
  - pose proof (write_input_event_spec p s INPUT_EVENT_SCANCODE _ _ (wr_keyboard p (if d then 0 else 32768) c)) as H.
    cbv zeta in H. destruct H as [H1 [H2 H3]].
    split; [exact H1|]. split; [exact H2|]. split; [|tauto].
    intros Hn. destruct (H3 Hn) as [Ha Hb]. split; auto.
  - cbn [done r_session r_events r_wire r_out]. repeat split; auto; tauto.
Qed.

Theorem client_try_write_gate :
  forall p s e,
    let r := client_try_write p s e in
    r_session r = s /\ (st s <> SData -> r_wire r = [] /\ (sendable e -> r_out r = Ok tt)).
Proof.
  intros p s e. unfold client_try_write.
  pose proof (client_write_gate p s e) as H. cbv zeta in H. destruct H as [Hs [_ [Hout _]]].
  destruct (r_out (client_write p s e)) as [u|er| |] eqn:Ho; cbn.
  - split; auto. intros Hn. destruct (Hout Hn) as [Hw Hr]. split; auto. intros Hse. specialize (Hr Hse). congruence.
  - destruct er; cbn; split; auto; intros Hn; destruct (Hout Hn) as [Hw Hr]; split; auto; intros Hse; specialize (Hr Hse); congruence.
  - split; auto. intros Hn. destruct (Hout Hn) as [Hw Hr]. split; auto. intros Hse. specialize (Hr Hse). congruence.
  - split; auto. intros Hn. destruct (Hout Hn) as [Hw Hr]. split; auto. intros Hse. specialize (Hr Hse). congruence.
Qed.

(* ---- histories ---- *)
Fixpoint run (p : prof) (s : session) (ops : list op) : session :=
  match ops with
  | [] => s
  | o :: tl => run p (r_session (do_op p s o)) tl
  end.

Lemma run_app p : forall a b s, run p s (a ++ b) = run p (run p s a) b.
Proof. induction a as [|o a IH]; intros b s; cbn [run app]; auto. Qed.

(* one operation: the state stays, or moves along one edge; only a read can move it *)
Lemma do_op_state p s o :
  st (r_session (do_op p s o)) = st s \/
  (edge (st s) (st (r_session (do_op p s o))) /\
   exists f b, o = OpRead f /\ slow_data s f = Some b /\ edge_requires p (st s) b).
Proof.
  destruct o as [f|e|e]; cbn [do_op].
  - pose proof (client_read_step p s f) as H. cbv zeta in H.
    destruct H as [[H _]|[He [b [Hb [Hr _]]]]]; [left; exact H|].
    right. split; auto. exists f, b. auto.
  - left. pose proof (client_write_gate p s e) as H. cbv zeta in H. destruct H as [-> _]. reflexivity.
  - left. pose proof (client_try_write_gate p s e) as H. cbv zeta in H. destruct H as [-> _]. reflexivity.
Qed.

Lemma edge_into_data x : edge x SData -> x = SFontMap.
Proof. inversion 1; reflexivity. Qed.

(* Every history: if the client is in the input window at the end, then there is a LAST
   entry into it -- a read of a font-map PDU in state FontMap -- and nothing after that
   entry moved the state (in particular no deactivate-all was processed since). *)
Theorem window_has_last_entry :
  forall p ops s0,
    st s0 <> SData -> st (run p s0 ops) = SData ->
    exists ops1 f ops2 b,
      ops = ops1 ++ OpRead f :: ops2 /\
      st (run p s0 ops1) = SFontMap /\
      slow_data (run p s0 ops1) f = Some b /\ is_data_pdu p b PDUTYPE2_FONTMAP None /\
      (forall a c, ops2 = a ++ c -> st (run p s0 (ops1 ++ OpRead f :: a)) = SData).
Proof.
  intros p ops. induction ops as [|o ops' IH] using rev_ind; intros s0 Hs0 Hend.
  - cbn in Hend. contradiction.
  - rewrite run_app in Hend. cbn [run] in Hend.
    destruct (do_op_state p (run p s0 ops') o) as [Hsame|[He [f [b [Ho [Hb Hreq]]]]]].
    + (* o did not move the state: the window was already open before it *)
      rewrite Hsame in Hend.
      destruct (IH s0 Hs0 Hend) as [ops1 [f [ops2 [b [Heq [Hfm [Hb [Hpdu Hstay]]]]]]]].
      exists ops1, f, (ops2 ++ [o]), b. repeat split; auto.
      * rewrite Heq. rewrite <- app_assoc. reflexivity.
      * intros a c Hac.
        destruct c as [|x c'] using rev_ind.
        -- rewrite app_nil_r in Hac. subst a.
           rewrite app_comm_cons, app_assoc, <- Heq, run_app. cbn [run]. rewrite Hsame. exact Hend.
        -- clear IHc'. rewrite app_assoc in Hac. apply app_inj_tail in Hac. destruct Hac as [Hac _].
           eapply Hstay. exact Hac.
    + (* o moved the state into the window: it is the entry *)
      rewrite Hend in He. apply edge_into_data in He.
      exists ops', f, [], b. subst o. repeat split; auto.
      * rewrite He in Hreq. exact Hreq.
      * intros a c Hac. destruct a; [|discriminate]. rewrite run_app. cbn [run]. exact Hend.
Qed.

(* Every history: outside the window every input attempt is refused and silent *)
Theorem input_refused_outside_window :
  forall p ops s0 e,
    let s := run p s0 ops in
    st s <> SData -> sendable e ->
    r_wire (client_write p s e) = [] /\ r_out (client_write p s e) = Err EInvalidAutomata /\
    r_wire (client_try_write p s e) = [] /\ r_out (client_try_write p s e) = Ok tt.
Proof.
  intros p ops s0 e s Hn Hse.
  pose proof (client_write_gate p s e) as H1. cbv zeta in H1. destruct H1 as [_ [_ [H1 _]]].
  pose proof (client_try_write_gate p s e) as H2. cbv zeta in H2. destruct H2 as [_ H2].
  destruct (H1 Hn) as [Ha Hb]. destruct (H2 Hn) as [Hc Hd]. auto.
Qed.

(* the state only ever moves along the activation sequence *)
Inductive path : gstate -> gstate -> Prop :=
| path_refl x : path x x
| path_step x y z : path x y -> edge y z -> path x z.

Theorem run_follows_edges : forall p ops s0, path (st s0) (st (run p s0 ops)).
Proof.
  intros p ops. induction ops as [|o ops' IH] using rev_ind; intros s0.
  - constructor.
  - rewrite run_app. cbn [run].
    destruct (do_op_state p (run p s0 ops') o) as [Hsame|[He _]].
    + rewrite Hsame. apply IH.
    + eapply path_step; [apply IH|exact He].
Qed.
