(* Specification of the server's fast-path output, written from MS-RDPBCGR, independently
   of the implementation: an ENCODER of what a server puts on the wire, and the list of
   rectangles the application must be told about.

     2.2.9.1.2      TS_FP_UPDATE_PDU    fpOutputHeader length1 [length2] fpOutputUpdates
     2.2.9.1.2.1    TS_FP_UPDATE        updateHeader [compressionFlags] size(le16) updateData
                                        updateHeader = updateCode (bits 0-3) | fragmentation
                                        (bits 4-5) | compression (bits 6-7)
     2.2.9.1.2.1.2  TS_FP_UPDATE_BITMAP updateType = 1 (le16) numberRectangles (le16) rectangles
     2.2.9.1.1.3.1.2.2  TS_BITMAP_DATA  destLeft destTop destRight destBottom width height
                                        bitsPerPixel flags bitmapLength [bitmapComprHdr]
                                        bitmapDataStream       (all fields le16)
     2.2.9.1.1.3.1.2.3  TS_CD_HEADER    cbCompFirstRowSize (= 0) cbCompMainBodySize
                                        cbScanWidth cbUncompressedSize  (le16 each)

   Scope (as the property states it): updates are unfragmented and uncompressed, i.e.
   bits 4-7 of updateHeader are zero and there is no compressionFlags byte. *)
From RdpV Require Import Base RefFraming.
Open Scope list_scope.
Open Scope N_scope.

(* one TS_BITMAP_DATA *)
Record rect := mkRect {
  rc_left : N; rc_top : N; rc_right : N; rc_bottom : N;
  rc_width : N; rc_height : N; rc_bpp : N;
  rc_flags : N;
  rc_scan : N; rc_usize : N;      (* cbScanWidth, cbUncompressedSize: on the wire only with the header *)
  rc_data : bytes
}.

Definition BITMAP_COMPRESSION : N := 1.            (* 0x0001 *)
Definition NO_BITMAP_COMPRESSION_HDR : N := 1024.  (* 0x0400 *)

(* "bitmapComprHdr ... present if the bitmap data is compressed (BITMAP_COMPRESSION set)
   and NO_BITMAP_COMPRESSION_HDR is not set" *)
Definition has_hdr (r : rect) : bool :=
  negb (N.land (rc_flags r) BITMAP_COMPRESSION =? 0) && (N.land (rc_flags r) NO_BITMAP_COMPRESSION_HDR =? 0).

(* bitmapLength = size of bitmapComprHdr + bitmapDataStream; cbCompMainBodySize = size of
   the compressed data that follows the header *)
Definition enc_rect (r : rect) : bytes :=
  le16 (rc_left r) ++ le16 (rc_top r) ++ le16 (rc_right r) ++ le16 (rc_bottom r) ++
  le16 (rc_width r) ++ le16 (rc_height r) ++ le16 (rc_bpp r) ++ le16 (rc_flags r) ++
  (if has_hdr r
   then le16 (nlen (rc_data r) + 8) ++
        (le16 0 ++ le16 (nlen (rc_data r)) ++ le16 (rc_scan r) ++ le16 (rc_usize r))
   else le16 (nlen (rc_data r))) ++
  rc_data r.

Inductive update :=
| UBitmap (rects : list rect)
| UOther (code : N) (data : bytes).   (* orders 0, palette 2, synchronize 3, surface commands 4, pointer
                                         5/6/8/9/10/11, and the codes the standard does not define *)

Definition FASTPATH_UPDATETYPE_BITMAP : N := 1.

Definition enc_bitmap_update (rs : list rect) : bytes :=
  le16 1 ++ le16 (nlen rs) ++ concat (map enc_rect rs).

Definition update_code (u : update) : N :=
  match u with UBitmap _ => FASTPATH_UPDATETYPE_BITMAP | UOther c _ => c end.
Definition update_data (u : update) : bytes :=
  match u with UBitmap rs => enc_bitmap_update rs | UOther _ d => d end.

(* updateHeader = the code alone: fragmentation = FASTPATH_FRAGMENT_SINGLE (0), compression 0 *)
Definition enc_update (u : update) : bytes :=
  [update_code u] ++ le16 (nlen (update_data u)) ++ update_data u.

Definition enc_fp_payload (us : list update) : bytes := concat (map enc_update us).

(* the whole PDU: fpOutputHeader = action 0 (FASTPATH_OUTPUT_ACTION_FASTPATH) in bits 0-1,
   reserved 0, the two security flags in bits 6-7; one- or two-byte length *)
Definition enc_fp_frame (sec_flags : N) (long : bool) (us : list update) : bytes :=
  enc (Fast (64 * sec_flags) long (enc_fp_payload us)).

(* ---- what may be sent ---- *)
Definition u16 (v : N) : Prop := v < 65536.

Definition valid_rect (r : rect) : Prop :=
  u16 (rc_left r) /\ u16 (rc_top r) /\ u16 (rc_right r) /\ u16 (rc_bottom r) /\
  u16 (rc_width r) /\ u16 (rc_height r) /\ u16 (rc_bpp r) /\ u16 (rc_flags r) /\
  (has_hdr r = true -> u16 (rc_scan r) /\ u16 (rc_usize r)).

(* every field must be able to carry its value: the update's 16-bit size field bounds the
   update data (hence every bitmapLength, cbCompMainBodySize and numberRectangles).  The
   data of a non-bitmap update is otherwise arbitrary (it need not even be a well-formed
   body for its code); its elements must be bytes. *)
Definition valid_update (u : update) : Prop :=
  u16 (nlen (update_data u)) /\
  match u with
  | UBitmap rs => Forall valid_rect rs
  | UOther c d => c < 16 /\ c <> FASTPATH_UPDATETYPE_BITMAP /\ wf_bytes d
  end.

Definition valid_fp_frame (sec_flags : N) (long : bool) (us : list update) : Prop :=
  sec_flags < 4 /\ Forall valid_update us /\
  if long then nlen (enc_fp_payload us) + 3 <= 32767 else nlen (enc_fp_payload us) + 2 <= 127.

(* ---- what the application must see ---- *)
Record rect_seen := mkSeen {
  sn_left : N; sn_top : N; sn_right : N; sn_bottom : N;
  sn_width : N; sn_height : N; sn_bpp : N; sn_compressed : bool; sn_data : bytes
}.

Definition seen_of (r : rect) : rect_seen :=
  mkSeen (rc_left r) (rc_top r) (rc_right r) (rc_bottom r) (rc_width r) (rc_height r) (rc_bpp r)
         (negb (N.land (rc_flags r) BITMAP_COMPRESSION =? 0)) (rc_data r).

Definition rects_of (u : update) : list rect :=
  match u with UBitmap rs => rs | UOther _ _ => [] end.

(* one per rectangle, in wire order *)
Definition expected_seen (us : list update) : list rect_seen :=
  map seen_of (flat_map rects_of us).
