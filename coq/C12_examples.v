(* generated once by gen/session.py (reference encoders of server PDUs); static *)
From RdpV Require Import Base Msg LayoutsGlobal Link Tpkt Global C12_proofs.
Open Scope list_scope.
Open Scope N_scope.

Definition ex_da : bytes := [3; 0; 0; 181; 2; 240; 128; 104; 0; 3; 3; 235; 112; 128; 166; 166; 0; 17; 0; 234; 3; 234; 3; 1; 0; 4; 0; 144; 0; 82; 68; 80; 0; 3; 0; 0; 0; 1; 0; 24; 0; 1; 0; 3; 0; 0; 2; 0; 0; 0; 0; 29; 4; 0; 0; 0; 0; 0; 0; 1; 1; 2; 0; 28; 0; 32; 0; 1; 0; 1; 0; 1; 0; 0; 4; 0; 3; 0; 0; 1; 0; 1; 0; 0; 0; 1; 0; 0; 0; 13; 0; 88; 0; 53; 0; 0; 0; 9; 4; 0; 0; 4; 0; 0; 0; 0; 0; 0; 0; 12; 0; 0; 0; 0; 0; 0; 0; 0; 0; 0; 0; 0; 0; 0; 0; 0; 0; 0; 0; 0; 0; 0; 0; 0; 0; 0; 0; 0; 0; 0; 0; 0; 0; 0; 0; 0; 0; 0; 0; 0; 0; 0; 0; 0; 0; 0; 0; 0; 0; 0; 0; 0; 0; 0; 0; 0; 0; 0; 0; 0; 0; 0; 0; 0; 0; 0; 0; 0; 0; 0; 0].
Definition ex_sync : bytes := [3; 0; 0; 36; 2; 240; 128; 104; 0; 3; 3; 235; 112; 22; 22; 0; 23; 0; 234; 3; 234; 3; 1; 0; 0; 1; 22; 0; 31; 0; 0; 0; 1; 0; 236; 3].
Definition ex_coop : bytes := [3; 0; 0; 40; 2; 240; 128; 104; 0; 3; 3; 235; 112; 26; 26; 0; 23; 0; 234; 3; 234; 3; 1; 0; 0; 1; 26; 0; 20; 0; 0; 0; 4; 0; 0; 0; 0; 0; 0; 0].
Definition ex_granted : bytes := [3; 0; 0; 40; 2; 240; 128; 104; 0; 3; 3; 235; 112; 26; 26; 0; 23; 0; 234; 3; 234; 3; 1; 0; 0; 1; 26; 0; 20; 0; 0; 0; 2; 0; 236; 3; 234; 3; 0; 0].
Definition ex_fontmap : bytes := [3; 0; 0; 40; 2; 240; 128; 104; 0; 3; 3; 235; 112; 26; 26; 0; 23; 0; 234; 3; 234; 3; 1; 0; 0; 1; 26; 0; 40; 0; 0; 0; 0; 0; 0; 0; 3; 0; 4; 0].
Definition ex_fpbmp : bytes := [0; 55; 1; 50; 0; 1; 0; 2; 0; 0; 0; 0; 0; 1; 0; 1; 0; 2; 0; 2; 0; 16; 0; 0; 0; 8; 0; 0; 0; 0; 0; 0; 0; 0; 0; 2; 0; 2; 0; 3; 0; 3; 0; 2; 0; 2; 0; 32; 0; 1; 4; 2; 0; 16; 0].
Definition ex_deact : bytes := [3; 0; 0; 27; 2; 240; 128; 104; 0; 3; 3; 235; 112; 13; 13; 0; 22; 0; 234; 3; 234; 3; 1; 0; 1; 0; 0].

Definition ex_ops : list op :=
  [OpRead ex_da; OpRead ex_sync; OpRead ex_coop; OpRead ex_granted; OpWrite (EvPointer 1 2 BLeft true);
   OpRead ex_fontmap; OpWrite (EvPointer 4660 65534 BRight true); OpRead ex_fpbmp; OpRead ex_deact;
   OpTryWrite (EvKey 28 false)].
Definition ex_s0 := init_session 1004 800 600 1033 [114; 100; 112; 45; 114; 115].

Definition summary (r : step_result) : gstate * bool * nat * nat :=
  (st (r_session r), is_ok (r_out r), List.length (r_wire r), List.length (r_events r)).

(* a complete activation, input refused before the font-map and accepted after it, two
   bitmap rectangles delivered inside the window, the window closed by deactivate-all *)
Example activation_example :
  map summary (run_ops Debug ex_s0 ex_ops) =
  [(SSynchronize, true, 5, 0); (SControlCooperate, true, 0, 0); (SControlGranted, true, 0, 0); (SFontMap, true, 0, 0);
   (SFontMap, false, 0, 0);
   (SData, true, 0, 0); (SData, true, 1, 0); (SData, true, 0, 2); (SDemandActive, true, 0, 0);
   (SDemandActive, true, 0, 0)]%nat.
Proof. vm_compute. reflexivity. Qed.
