(* C03 / NLA: the program the correspondence runs (FlowRun.flow_impl on FlowNlaRun.nla_cssp_env: the CredSSP model
   evaluated once per run) computes exactly the generic model of the theorems (FlowNla.flow_nla) at the concrete
   functions (FlowNlaRun.flow_nla_impl), for EVERY input. *)
From RdpV Require Import Base Msg Link Tpkt Global BerYasna Connect ConnectRun ClientPdus Flow FlowRun FlowNla FlowNlaRun.
From RdpV Require Import Md5 Md4 Hmac Ntlm CsspGate CsspGateExec.
Open Scope list_scope.
Open Scope N_scope.

Lemma bind_ext_k {A B} (m : M A) (k1 k2 : A -> M B) s :
  (forall a s', k1 a s' = k2 a s') -> Connect.bind m k1 s = Connect.bind m k2 s.
Proof. intros H. unfold Connect.bind. destruct (m s) as [[a|e| |] s']; auto. Qed.

Lemma bind_ext_m {A B} (m1 m2 : M A) (k : A -> M B) s :
  m1 s = m2 s -> Connect.bind m1 k s = Connect.bind m2 k s.
Proof. intros H. unfold Connect.bind. rewrite H. reflexivity. Qed.

(* the connection depends on the CredSSP oracle only through its value on a stream the handshake returned *)
Section OracleExt.
Variable p : prof.
Variable ber_parse : bytes -> outcome bytes.
Variable trusted : bool.
Variable tls_start : stream -> outcome stream.
Variables run1 run2 : stream -> nat * outcome stream.
Hypothesis Hagree : forall x cs', tls_start x = Ok cs' -> run1 cs' = run2 cs'.

Lemma start_nla_ext c s : start_nla trusted tls_start run1 c s = start_nla trusted tls_start run2 c s.
Proof.
  unfold start_nla, Connect.bind, start_ssl.
  destruct (tls_handshake (check_cert c) trusted); [|reflexivity].
  destruct (tls_start (s_in s)) as [cs'|e| |] eqn:E; try reflexivity.
  unfold Connect.cssp_connect. cbn [s_in]. rewrite (Hagree _ _ E). reflexivity.
Qed.

Lemma x224_connect_ext c s :
  x224_connect p trusted tls_start run1 c s = x224_connect p trusted tls_start run2 c s.
Proof.
  unfold x224_connect.
  apply bind_ext_k. intros _ s1. apply bind_ext_k. intros pl s2. apply bind_ext_k. intros b s3.
  apply bind_ext_k. intros sel s4.
  destruct (negb (sel_requested (offered c) sel)); [reflexivity|].
  destruct (sel =? LayoutsConnect.PROTOCOL_HYBRID); [|reflexivity].
  destruct (has_auth c); [|reflexivity].
  apply bind_ext_m. apply start_nla_ext.
Qed.

Lemma run_connect_ext c cs :
  run_connect p ber_parse trusted tls_start run1 c cs = run_connect p ber_parse trusted tls_start run2 c cs.
Proof. unfold run_connect, connect. apply bind_ext_m. apply x224_connect_ext. Qed.

Lemma flow_oracle_ext msgs c nreads cs :
  flow p ber_parse trusted tls_start run1 msgs c nreads cs = flow p ber_parse trusted tls_start run2 msgs c nreads cs.
Proof. unfold flow. rewrite run_connect_ext. reflexivity. Qed.
End OracleExt.

Lemma tls_after_ok ps x cs' : tls_after ps x = Ok cs' -> cs' = ps.
Proof. unfold tls_after. destruct (stream_eqb x []); intros H; inversion H. reflexivity. Qed.

(* THE EXTRACTED PROGRAM IS THE GENERIC MODEL at the concrete functions *)
Theorem flow_impl_is_flow_nla (upper : list N -> list N) (p : prof) (c : fcfg) (n : nla_params) (nreads : nat)
        (raw : stream) (post : option stream) :
  flow_impl p (nla_cssp_env upper c n) c nreads raw post = flow_nla_impl upper p c n nreads raw post.
Proof.
  unfold flow_impl, flow_nla_impl, flow_nla.
  set (ps := match post with Some ps => ps | None => [] end).
  assert (Hr : cssp_exec p (nla_cssp_env upper c n) ps
               = nla_cssp md4 md5 hmac_md5 upper p x_create_ts_request x_create_ts_authenticate x_create_ts_credentials
                          x_create_ts_authinfo (x_read_ts_server_challenge p) (x_read_ts_validate p) c n ps) by reflexivity.
  rewrite Hr.
  apply flow_oracle_ext. intros x cs' Hx.
  assert (Hcs : cs' = ps).
  { destruct post as [q|]; [exact (tls_after_ok q x cs' Hx)|discriminate Hx]. }
  subst cs'. unfold nla_cssp_run. reflexivity.
Qed.
