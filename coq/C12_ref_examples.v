(* C12, history level: a concrete history with re-activation (non-vacuity of the history theorems). *)
From RdpV Require Import Base Msg LayoutsGlobal Link Tpkt Global RefFraming RefFastPath RefInput RefSession
                         C12_proofs C12_examples C10_proofs C11_proofs StrictPdu C12_ref_proofs C12_ref_wire.
Open Scope list_scope.
Open Scope N_scope.

(* a server: user id 1002, I/O channel 1003, share ids 0x000103ea then 0x000203eb *)
Definition hx_ids : ids := mkSrv 1002 1003 1002 66538 1 [82; 68; 80; 0] 0 1004 1004 1002 0 false.
Definition hx_ids2 : ids := mkSrv 1002 1003 1002 132075 2 [0] 7 1004 0 0 2 true.

(* capability sets of the demand-actives: a general set, a set type the client does not model (0x1e),
   a pointer set with a truncated body, an empty-bodied set *)
Definition hx_caps : list capset :=
  [(1, [1; 0; 3; 0; 0; 2; 0; 0; 0; 0; 29; 4; 0; 0; 0; 0; 0; 0; 1; 1]); (30, [2; 0; 0; 0]); (8, [1]); (9, [])].

Definition hx_rects : list rect :=
  [mkRect 0 0 1 1 2 2 16 0 0 0 [0; 0; 0; 0; 0; 0; 0; 0]; mkRect 2 2 3 3 2 2 32 1025 0 0 [16; 0]].

Definition hx_hist : list hop :=
  [ HInput (EvPointer 10 20 BLeft true);                       (* refused: not activated *)
    HRecv hx_ids (DemandActive 66538 hx_caps);                 (* answered *)
    HRecv hx_ids (DemandActive 99 []);                         (* not awaited: ignored *)
    HRecv hx_ids Synchronize;
    HRecv hx_ids DeactivateAll;                                (* during the finalization: ignored *)
    HRecv hx_ids ControlCooperate;
    HRecv hx_ids (ControlOther 3);                             (* detach: refused, state kept *)
    HRecv hx_ids ControlGranted;
    HTryInput (EvKey 30 true);                                 (* dropped: the font map has not arrived *)
    HRecv hx_ids (FpBitmap hx_rects);                          (* outside the window: refused, no event *)
    HRecv hx_ids FontMap;                                      (* the window opens *)
    HInput (EvPointer 4660 65534 BRight true);                 (* accepted: one input PDU, share 0x000103ea *)
    HRecv hx_ids (FpBitmap hx_rects);                          (* two rectangles delivered *)
    HRecv hx_ids (SetErrorInfo 268);
    HRecv hx_ids (UnknownData 38 [0; 0; 0; 0]);
    HRecv hx_ids (FpOther 5 []);
    HRecv hx_ids2 DeactivateAll;                               (* the window closes *)
    HInput (EvKey 28 false);                                   (* refused *)
    HRecv hx_ids2 (DemandActive 132075 [(30, [2; 0; 0; 0])]);  (* re-activation: answered *)
    HRecv hx_ids2 Synchronize; HRecv hx_ids2 ControlCooperate; HRecv hx_ids2 ControlGranted; HRecv hx_ids2 FontMap;
    HTryInput (EvKey 28 false);                                (* accepted, share 0x000203eb *)
    HRecv hx_ids2 (FpBitmap hx_rects) ].

Definition hx_s0 := init_session 1004 800 600 1033 [114; 100; 112; 45; 114; 115].

Lemma hx_ids_valid : valid_ids hx_ids /\ valid_ids hx_ids2.
Proof.
  unfold valid_ids, hx_ids, hx_ids2, u16, u32, wf_bytes. cbn.
  repeat split; try lia; repeat (constructor; try lia).
Qed.

Lemma hx_ok : Forall (hop_ok hx_s0) hx_hist.
Proof.
  destruct hx_ids_valid as [V1 V2].
  unfold hx_hist.
  repeat match goal with
         | |- Forall _ (_ :: _) => apply Forall_cons
         | |- Forall _ [] => apply Forall_nil
         end.
  all: cbn [hop_ok]; try exact I.
  all: split; [split; [assumption|reflexivity]|].
  all: split; [|cbv beta iota delta [user_data];
                 lazymatch goal with |- _ <= _ => vm_compute; discriminate | |- _ => idtac end].
  all: try exact I.
  all: try (unfold u32, u16, hx_caps, valid_capset, wf_bytes; cbn;
            repeat split; try lia; try discriminate; repeat (constructor; cbn; try lia); fail).
  all: try (unfold valid_fp_frame, hx_rects, valid_update, valid_rect, u16, wf_bytes; cbn;
            repeat split; try lia; try discriminate; repeat (constructor; cbn; try lia); fail).
  all: unfold valid_fp_frame; cbn [sv_fp_sec sv_fp_long hx_ids hx_ids2 fp_updates_of];
       (split; [lia|]); (split; [|vm_compute; discriminate]);
       repeat constructor; unfold valid_update, valid_rect, u16, wf_bytes; cbn;
       repeat split; try lia; try discriminate; intros; try discriminate; repeat (constructor; cbn; try lia).
Qed.

(* what the reference automaton says about this history *)
Lemma hx_reference :
  answered (letters hx_hist) = [66538; 132075] /\ window (letters hx_hist) = true /\
  current_share (letters hx_hist) = 132075 /\
  expected_output (letters hx_hist) =
    [CConfirmActive 66538; CSynchronize 66538; CCooperate 66538; CRequestControl 66538; CFontList 66538;
     CConfirmActive 132075; CSynchronize 132075; CCooperate 132075; CRequestControl 132075; CFontList 132075].
Proof. repeat split; reflexivity. Qed.

(* ... and what the model computes on the reference encodings, step by step *)
Lemma hx_computed :
  forall p, map summary (run_ops p hx_s0 (map hop_op hx_hist)) =
  [(SDemandActive, false, 0, 0); (SSynchronize, true, 5, 0); (SSynchronize, true, 0, 0); (SControlCooperate, true, 0, 0);
   (SControlCooperate, true, 0, 0); (SControlGranted, true, 0, 0); (SControlGranted, false, 0, 0); (SFontMap, true, 0, 0);
   (SFontMap, true, 0, 0); (SFontMap, false, 0, 0); (SData, true, 0, 0); (SData, true, 1, 0); (SData, true, 0, 2);
   (SData, true, 0, 0); (SData, true, 0, 0); (SData, true, 0, 0); (SDemandActive, true, 0, 0); (SDemandActive, false, 0, 0);
   (SSynchronize, true, 5, 0); (SControlCooperate, true, 0, 0); (SControlGranted, true, 0, 0); (SFontMap, true, 0, 0);
   (SData, true, 0, 0); (SData, true, 1, 0); (SData, true, 0, 2)]%nat.
Proof. intros p. destruct p; vm_compute; reflexivity. Qed.

(* ------------------------------------------------------------------ two corners, outside what the property demands *)
(* (1) A deactivate-all received DURING the finalization handshake is ignored (only the Data state
   reacts to it): the reference automaton of the property -- "back to awaiting activation on
   deactivate-all" is read as: on a deactivate-all that closes the window -- does the same, and so
   does the model (steps 5 and 3 above).  A server that restarts activation at that point is not
   followed: its new demand-active is not answered. *)
Example obs_deactivate_during_finalization :
  forall p, map summary (run_ops p hx_s0 (map hop_op
              [HRecv hx_ids (DemandActive 66538 []); HRecv hx_ids DeactivateAll; HRecv hx_ids (DemandActive 132075 [])]))
            = [(SSynchronize, true, 5, 0); (SSynchronize, true, 0, 0); (SSynchronize, true, 0, 0)]%nat.
Proof. intros p. destruct p; vm_compute; reflexivity. Qed.

(* (2) Outside the alphabet (one PDU per frame): a deactivate-all and a demand-active batched in the
   SAME slow-path frame while in the window -- the deactivate-all is honoured, the demand-active in
   the same frame is skipped by the Data-state loop, the client then awaits a demand-active. *)
Definition obs_batched_frame : bytes :=
  match user_data hx_ids DeactivateAll, user_data hx_ids (DemandActive 132075 []) with
  | Some a, Some b => slow_frame hx_ids (a ++ b)
  | _, _ => []
  end.
Example obs_deactivate_and_demand_in_one_frame :
  forall p, map summary (run_ops p (set_state hx_s0 SData) [OpRead obs_batched_frame])
            = [(SDemandActive, true, 0, 0)]%nat.
Proof. intros p. destruct p; vm_compute; reflexivity. Qed.

(* ------------------------------------------------------------------ the two reference encoders agree (golden bytes) *)
(* C12_examples.ex_* are the frames of gen/session.py's letter_frame (python reference encoders of
   gen/rdp.py, whose traffic the correspondence run replays against the real crate); the Coq
   reference encoder produces the same bytes from the same parameters.  (The correspondence run
   repeats this comparison on generated letters at every check: op `refenc`.) *)
Definition py_ids : ids := mkSrv 1004 1003 1002 66538 1 [82; 68; 80; 0] 0 1004 0 0 0 false.
Definition py_ids_granted : ids := mkSrv 1004 1003 1002 66538 1 [82; 68; 80; 0] 0 1004 1004 1002 0 false.
Definition py_ids_deact : ids := mkSrv 1004 1003 1002 66538 1 [0] 0 1004 0 0 0 false.
Definition py_caps : list capset :=
  [(1, [1; 0; 3; 0; 0; 2; 0; 0; 0; 0; 29; 4; 0; 0; 0; 0; 0; 0; 1; 1]);
   (2, [32; 0; 1; 0; 1; 0; 1; 0; 0; 4; 0; 3; 0; 0; 1; 0; 1; 0; 0; 0; 1; 0; 0; 0]);
   (13, [53; 0; 0; 0; 9; 4; 0; 0; 4; 0; 0; 0; 0; 0; 0; 0; 12; 0; 0; 0] ++ repeat 0 64)].

Example golden_encodings :
  enc_smsg py_ids (DemandActive 66538 py_caps) = ex_da /\
  enc_smsg py_ids Synchronize = ex_sync /\
  enc_smsg py_ids ControlCooperate = ex_coop /\
  enc_smsg py_ids_granted ControlGranted = ex_granted /\
  enc_smsg py_ids FontMap = ex_fontmap /\
  enc_smsg py_ids (FpBitmap hx_rects) = ex_fpbmp /\
  enc_smsg py_ids_deact DeactivateAll = ex_deact.
Proof. repeat split; vm_compute; reflexivity. Qed.

Lemma hx_client_ok : C12_ref_wire.client_ok hx_s0.
Proof. unfold C12_ref_wire.client_ok, hx_s0, init_session. cbn. repeat split; try lia; try reflexivity; vm_compute; discriminate. Qed.

(* ------------------------------------------------------------------ an I/O channel other than 1003 *)
(* the server network data announced channel 1007: the client joined it, the server's indications arrive
   on it, the client's answers leave on it; the synchronize PDU still targets the server channel 1002 *)
Definition io_s0 := init_session_io 1004 1007 800 600 1033 [114; 100; 112].
Definition io_ids : ids := mkSrv 1002 1007 1002 66538 1 [82; 68; 80; 0] 0 1004 1004 1002 0 false.
Definition io_hist : list hop :=
  [HRecv io_ids (DemandActive 66538 hx_caps); HRecv io_ids Synchronize; HRecv io_ids ControlCooperate;
   HRecv io_ids ControlGranted; HRecv io_ids FontMap; HInput (EvKey 28 true); HRecv io_ids (FpBitmap hx_rects)].

Lemma io_ok : Forall (hop_ok io_s0) io_hist /\ C12_ref_wire.client_ok io_s0 /\ st io_s0 = SDemandActive.
Proof.
  assert (V : valid_ids io_ids).
  { unfold valid_ids, io_ids, u16, u32, wf_bytes. cbn. repeat split; try lia; repeat (constructor; try lia). }
  split; [|split; [|reflexivity]].
  - unfold io_hist.
    repeat match goal with
           | |- Forall _ (_ :: _) => apply Forall_cons
           | |- Forall _ [] => apply Forall_nil
           end.
    all: cbn [hop_ok]; try exact I.
    all: split; [split; [assumption|reflexivity]|].
    all: split; [|cbv beta iota delta [user_data];
                   lazymatch goal with |- _ <= _ => vm_compute; discriminate | |- _ => idtac end].
    all: try exact I.
    all: try (unfold u32, u16, hx_caps, valid_capset, wf_bytes; cbn;
              repeat split; try lia; try discriminate; repeat (constructor; cbn; try lia); fail).
  - unfold C12_ref_wire.client_ok, io_s0, init_session_io. cbn. repeat split; try lia; try reflexivity; vm_compute; discriminate.
Qed.

Lemma io_computed :
  forall p, map summary (run_ops p io_s0 (map hop_op io_hist)) =
            [(SSynchronize, true, 5, 0); (SControlCooperate, true, 0, 0); (SControlGranted, true, 0, 0); (SFontMap, true, 0, 0);
             (SData, true, 0, 0); (SData, true, 1, 0); (SData, true, 0, 2)]%nat /\
            map StrictPdu.strict_parse (client_finalization p io_s0 66538) = map Some (C12_ref_wire.finalization_pdus io_s0 66538).
Proof. intros p. destruct p; split; vm_compute; reflexivity. Qed.

Lemma hx_nonvacuous :
  Forall (hop_ok hx_s0) hx_hist /\ st hx_s0 = SDemandActive /\ client_ok hx_s0 /\
  answered (letters hx_hist) = [66538; 132075] /\ window (letters hx_hist) = true /\
  current_share (letters hx_hist) = 132075 /\
  (forall p, map summary (run_ops p hx_s0 (map hop_op hx_hist)) =
   [(SDemandActive, false, 0, 0); (SSynchronize, true, 5, 0); (SSynchronize, true, 0, 0); (SControlCooperate, true, 0, 0);
    (SControlCooperate, true, 0, 0); (SControlGranted, true, 0, 0); (SControlGranted, false, 0, 0); (SFontMap, true, 0, 0);
    (SFontMap, true, 0, 0); (SFontMap, false, 0, 0); (SData, true, 0, 0); (SData, true, 1, 0); (SData, true, 0, 2);
    (SData, true, 0, 0); (SData, true, 0, 0); (SData, true, 0, 0); (SDemandActive, true, 0, 0); (SDemandActive, false, 0, 0);
    (SSynchronize, true, 5, 0); (SControlCooperate, true, 0, 0); (SControlGranted, true, 0, 0); (SFontMap, true, 0, 0);
    (SData, true, 0, 0); (SData, true, 1, 0); (SData, true, 0, 2)]%nat) /\
  enc_smsg py_ids (DemandActive 66538 py_caps) = ex_da /\ enc_smsg py_ids Synchronize = ex_sync /\
  enc_smsg py_ids_granted ControlGranted = ex_granted /\ enc_smsg py_ids (FpBitmap hx_rects) = ex_fpbmp /\
  enc_smsg py_ids_deact DeactivateAll = ex_deact /\
  (* the same on an I/O channel other than 1003 (the server announced 1007) *)
  (Forall (hop_ok io_s0) io_hist /\ client_ok io_s0 /\ st io_s0 = SDemandActive) /\
  (forall p, map summary (run_ops p io_s0 (map hop_op io_hist)) =
             [(SSynchronize, true, 5, 0); (SControlCooperate, true, 0, 0); (SControlGranted, true, 0, 0); (SFontMap, true, 0, 0);
              (SData, true, 0, 0); (SData, true, 1, 0); (SData, true, 0, 2)]%nat /\
             map strict_parse (client_finalization p io_s0 66538) = map Some (finalization_pdus io_s0 66538)).
Proof.
  destruct hx_reference as (R1 & R2 & R3 & _). destruct golden_encodings as (G1 & G2 & _ & G4 & _ & G6 & G7).
  split; [exact hx_ok|]. split; [reflexivity|]. split; [exact hx_client_ok|].
  split; [exact R1|]. split; [exact R2|]. split; [exact R3|]. split; [exact hx_computed|].
  split; [exact G1|]. split; [exact G2|]. split; [exact G4|]. split; [exact G6|]. split; [exact G7|].
  split; [exact io_ok|exact io_computed].
Qed.
