(* Shape preservation of the message interpreter: for a template without Option / Array
   nodes ("flat"), a successful [read] returns a value with the same constructors, field
   names, endianness and closures as the template, and fixed-size byte blocks keep their
   size.  Glue proofs use it to turn "the result of reading layout L" into an explicit
   term on which casts, lookups and [mlength] compute. *)
From RdpV Require Import Base Msg MsgInd MsgSafe.
Open Scope list_scope.

Fixpoint flat (m : msg) : bool :=
  match m with
  | MU8 _ | MU16 _ _ | MU32 _ _ | MBytes _ => true
  | MTrame l => (fix go (l : list msg) : bool := match l with [] => true | x :: tl => flat x && go tl end) l
  | MComp fs => (fix go (fs : list (string * msg)) : bool :=
                   match fs with [] => true | (_, v) :: tl => flat v && go tl end) fs
  | MCheck m' => flat m'
  | MDyn m' _ => flat m'
  | MOpt _ => false
  | MArray _ _ => false
  end.

Fixpoint shape (t m : msg) {struct t} : Prop :=
  match t, m with
  | MU8 _, MU8 _ => True
  | MU16 e _, MU16 e' _ => e = e'
  | MU32 e _, MU32 e' _ => e = e'
  | MBytes b, MBytes b' => b = [] \/ List.length b' = List.length b
  | MTrame l, MTrame l' =>
      (fix go (l l' : list msg) : Prop :=
         match l, l' with
         | [], [] => True
         | x :: tl, x' :: tl' => shape x x' /\ go tl tl'
         | _, _ => False
         end) l l'
  | MComp fs, MComp fs' =>
      (fix go (fs fs' : list (string * msg)) : Prop :=
         match fs, fs' with
         | [], [] => True
         | (n, v) :: tl, (n', v') :: tl' => n = n' /\ shape v v' /\ go tl tl'
         | _, _ => False
         end) fs fs'
  | MCheck t', MCheck m' => shape t' m'
  | MDyn t' c, MDyn m' c' => c = c' /\ shape t' m'
  | _, _ => False
  end.

Fixpoint shape_list (l l' : list msg) : Prop :=
  match l, l' with
  | [], [] => True
  | x :: tl, x' :: tl' => shape x x' /\ shape_list tl tl'
  | _, _ => False
  end.

Fixpoint shape_fields (fs fs' : list (string * msg)) : Prop :=
  match fs, fs' with
  | [], [] => True
  | (n, v) :: tl, (n', v') :: tl' => n = n' /\ shape v v' /\ shape_fields tl tl'
  | _, _ => False
  end.

Lemma shape_trame l l' : shape (MTrame l) (MTrame l') <-> shape_list l l'.
Proof.
  revert l'. induction l as [|x tl IH]; intros [|x' tl']; cbn [shape shape_list]; try tauto;
  specialize (IH tl'); cbn [shape] in IH; tauto.
Qed.

Lemma shape_comp fs fs' : shape (MComp fs) (MComp fs') <-> shape_fields fs fs'.
Proof.
  revert fs'. induction fs as [|[n v] tl IH]; intros [|[n' v'] tl']; cbn [shape shape_fields]; try tauto;
  specialize (IH tl'); cbn [shape] in IH; tauto.
Qed.

Fixpoint flat_list (l : list msg) : bool := match l with [] => true | x :: tl => flat x && flat_list tl end.
Fixpoint flat_fields (fs : list (string * msg)) : bool :=
  match fs with [] => true | (_, v) :: tl => flat v && flat_fields tl end.

Lemma flat_trame l : flat (MTrame l) = flat_list l.
Proof. induction l as [|x tl IH]; cbn [flat flat_list]; [reflexivity|]. cbn [flat] in IH. rewrite IH. reflexivity. Qed.

Lemma flat_comp fs : flat (MComp fs) = flat_fields fs.
Proof. induction fs as [|[n v] tl IH]; cbn [flat flat_fields]; [reflexivity|]. cbn [flat] in IH. rewrite IH. reflexivity. Qed.

Lemma shape_refl : forall t, flat t = true -> shape t t.
Proof.
  intros t. induction t using msg_ind'; intros Hf; try (cbn [flat] in Hf; discriminate); try (cbn [shape]; auto; fail).
  - apply shape_trame. rewrite flat_trame in Hf. induction l as [|x tl IH]; cbn [shape_list]; auto.
    cbn [flat_list] in Hf. apply andb_true_iff in Hf. destruct Hf as [H1 H2]. inversion H; subst. split; auto.
  - apply shape_comp. rewrite flat_comp in Hf. induction fs as [|[n v] tl IH]; cbn [shape_fields]; auto.
    cbn [flat_fields] in Hf. apply andb_true_iff in Hf. destruct Hf as [H1 H2]. inversion H; subst. cbn [snd] in *. repeat split; auto.
Qed.

Section Shape.
Variable p : prof.

Definition shape_ok (t : msg) : Prop :=
  flat t = true -> forall input m' rest a, read p t input = ROk m' rest a -> shape t m'.

Lemma read_trame_shape :
  forall l, Forall shape_ok l -> flat_list l = true ->
  forall input acc a m' rest a', read_trame (read p) l input acc a = ROk m' rest a' ->
    exists l', m' = MTrame (rev acc ++ l') /\ shape_list l l'.
Proof.
  induction l as [|x tl IH]; intros Hall Hf input acc a m' rest a' Hr; cbn [read_trame] in Hr.
  - inversion Hr; subst. exists []. rewrite app_nil_r. split; [reflexivity|exact I].
  - cbn [flat_list] in Hf. apply andb_true_iff in Hf. destruct Hf as [Hfx Hft]. inversion Hall as [|? ? Hx Htl]; subst.
    destruct (read p x input) as [x' r ax|e r ax| |] eqn:Hrx; try discriminate.
    destruct (IH Htl Hft _ _ _ _ _ _ Hr) as [l' [Hm Hs]].
    exists (x' :: l'). split.
    + rewrite Hm. cbn [rev]. rewrite <- app_assoc. reflexivity.
    + cbn [shape_list]. split; auto. eapply Hx; eauto.
Qed.

Lemma read_field_shape v :
  shape_ok v -> flat v = true ->
  forall input size v' rest a, read_field (read p) v input size = ROk v' rest a -> shape v v'.
Proof.
  intros Hv Hf input size v' rest a Hr. unfold read_field in Hr. destruct size as [size|].
  - destruct (isize_max <? size)%N; [discriminate|].
    destruct (take (N.to_nat size) input) as [[local rest0]|]; [|discriminate].
    destruct (read p v local) as [v1 r1 a1|e r1 a1| |] eqn:Hrd; try discriminate.
    inversion Hr; subst. eapply Hv; eauto.
  - eapply Hv; eauto.
Qed.

Lemma read_comp_shape :
  forall fs, Forall (fun nv => shape_ok (snd nv)) fs -> flat_fields fs = true ->
  forall input skip dyn acc a m' rest a', read_comp p (read p) fs input skip dyn acc a = ROk m' rest a' ->
    exists fs', m' = MComp (rev acc ++ fs') /\ shape_fields fs fs'.
Proof.
  induction fs as [|[n v] tl IH]; intros Hall Hf input skip dyn acc a m' rest a' Hr; cbn [read_comp] in Hr.
  - inversion Hr; subst. exists []. rewrite app_nil_r. split; [reflexivity|exact I].
  - cbn [flat_fields] in Hf. apply andb_true_iff in Hf. destruct Hf as [Hfx Hft]. inversion Hall as [|? ? Hx Htl]; subst.
    cbn [snd] in Hx.
    assert (Hfin : forall v' input' skip' dyn' a0,
               shape v v' -> read_comp p (read p) tl input' skip' dyn' ((n, v') :: acc) a0 = ROk m' rest a' ->
               exists fs', m' = MComp (rev acc ++ fs') /\ shape_fields ((n, v) :: tl) fs').
    { intros v' input' skip' dyn' a0 Hs Hr'. destruct (IH Htl Hft _ _ _ _ _ _ _ _ Hr') as [fs' [Hm Hsf]].
      exists ((n, v') :: fs'). split.
      - rewrite Hm. cbn [rev]. rewrite <- app_assoc. reflexivity.
      - cbn [shape_fields]. auto. }
    destruct (mem n skip).
    + eapply Hfin; [apply shape_refl; exact Hfx|exact Hr].
    + destruct (read_field (read p) v input (dyn_lookup n dyn)) as [v' r av|e r av| |] eqn:Hrf; try discriminate.
      pose proof (read_field_shape v Hx Hfx _ _ _ _ _ Hrf) as Hs.
      destruct (options p v') as [|f|f k|]; try discriminate; eapply Hfin; eauto.
Qed.

Theorem read_shape : forall t, shape_ok t.
Proof.
  intros t. induction t using msg_ind'; unfold shape_ok; intros Hf input m' rest a Hr;
    try (cbn [flat] in Hf; discriminate).
  - cbn [read] in Hr. destruct input; inversion Hr; subst. exact I.
  - cbn [read] in Hr. destruct input as [|b0 [|b1 r]]; inversion Hr; subst. reflexivity.
  - cbn [read] in Hr. destruct input as [|b0 [|b1 [|b2 [|b3 r]]]]; inversion Hr; subst. reflexivity.
  - cbn [read] in Hr. destruct b as [|x b].
    + inversion Hr; subst. left. reflexivity.
    + destruct (take (List.length (x :: b)) input) as [[y r]|] eqn:Ht; inversion Hr; subst.
      right. apply take_spec in Ht. apply Ht.
  - cbn [read] in Hr. rewrite flat_trame in Hf.
    destruct (read_trame_shape l H Hf _ _ _ _ _ _ Hr) as [l' [Hm Hs]]. subst m'. cbn [rev app]. apply shape_trame. exact Hs.
  - cbn [read] in Hr. rewrite flat_comp in Hf.
    destruct (read_comp_shape fs H Hf _ _ _ _ _ _ _ _ Hr) as [fs' [Hm Hs]]. subst m'. cbn [rev app]. apply shape_comp. exact Hs.
  - cbn [read] in Hr. cbn [flat] in Hf.
    destruct (read p t input) as [new r a0|e r a0| |] eqn:Hrd; try discriminate.
    destruct (check_eq t new); inversion Hr; subst. cbn [shape]. eapply IHt; eauto.
  - cbn [read] in Hr. cbn [flat] in Hf.
    destruct (read p t input) as [new r a0|e r a0| |] eqn:Hrd; try discriminate.
    inversion Hr; subst. cbn [shape]. split; [reflexivity|]. eapply IHt; eauto.
Qed.
End Shape.
