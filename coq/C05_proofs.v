(* C05: the connection sequence never panics or spins and sizes no buffer above 2*65535,
   whatever the server sends.  Layouts: the generic theorem read_safe (MsgSafe.v) +
   `safe layout = true` by computation; glue: case analysis; composition: a Hoare-style
   invariant over the run state (the inbound stream stays a stream of bytes, the largest
   allocation stays within the bound). *)
From RdpV Require Import Base Msg MsgInd MsgSafe LayoutsGlobal LayoutsConnect Link Tpkt Global C06_proofs BerYasna Connect ConnectRun.
Open Scope string_scope.
Open Scope list_scope.
Open Scope N_scope.

Definition alloc_limit : N := 131070.   (* 2 * 65535: a 16-bit count of 16-bit channel ids *)

(* ------------------------------------------------------------------ layouts *)
Lemma safe_connect_layouts :
  safe x224_connection_pdu_t = true /\ safe block_header_t = true /\ safe server_core_data = true /\
  safe server_security_data = true /\ safe server_network_data = true /\ safe security_header = true /\
  safe preamble = true /\ safe licensing_error_message = true.
Proof. vm_compute. repeat split. Qed.

Lemma alloc_connect_layouts :
  forallb (fun m => alloc_bound m <=? alloc_limit)
    [x224_connection_pdu_t; block_header_t; server_core_data; server_security_data; server_network_data;
     security_header; preamble; licensing_error_message] = true.
Proof. vm_compute. reflexivity. Qed.

Lemma ab_block_header : alloc_bound block_header_t = 0. Proof. reflexivity. Qed.
Lemma mc_block_header : min_consume block_header_t = 2. Proof. reflexivity. Qed.
Lemma ab_security_header : alloc_bound security_header = 0. Proof. reflexivity. Qed.

Ltac clayouts := pose proof safe_connect_layouts as [Lc1 [Lc2 [Lc3 [Lc4 [Lc5 [Lc6 [Lc7 Lc8]]]]]]].

Definition pure_ok {A} (r : outcome A * N) : Prop := nocrash (fst r) /\ snd r <= alloc_limit.

Lemma nocrash_panic {A} : ~ nocrash (@Panic A). Proof. intros [H _]. congruence. Qed.
Lemma nocrash_spin {A} : ~ nocrash (@Spin A). Proof. intros [_ H]. congruence. Qed.

Section Pure.
Variable p : prof.

Lemma rda_post t input :
  safe t = true -> wf_bytes input ->
  match fst (rda p t input) with
  | Ok m' => fields_sig m' = fields_sig t /\ bounded m'
  | Err _ => True
  | _ => False
  end /\ snd (rda p t input) <= alloc_bound t.
Proof.
  intros Hs Hwf. unfold rda. pose proof (read_safe p t Hs input Hwf) as H. unfold post in H.
  destruct (read p t input); cbn [fst snd]; try contradiction.
  - destruct H as [_ [H2 [H3 [_ [_ [H6 _]]]]]]. auto.
  - destruct H as [_ [_ H3]]. auto.
Qed.

Lemma rdr_post t input :
  safe t = true -> wf_bytes input ->
  match fst (rdr p t input) with
  | Ok mr => fields_sig (fst mr) = fields_sig t /\ bounded (fst mr) /\ wf_bytes (snd mr)
  | Err _ => True
  | _ => False
  end /\ snd (rdr p t input) <= alloc_bound t.
Proof.
  intros Hs Hwf. unfold rdr. pose proof (read_safe p t Hs input Hwf) as H. unfold post in H.
  destruct (read p t input); cbn [fst snd]; try contradiction.
  - destruct H as [_ [H2 [H3 [H4 [_ [H6 _]]]]]]. auto.
  - destruct H as [_ [_ H3]]. auto.
Qed.

(* the value of a numeric field of a message that was read lies within its width *)
Lemma field_num_bound name m b w v :
  bounded m -> sig_lookup name (fields_sig m) = Some b -> cast_num w (get m name) = Ok v -> v <= b.
Proof.
  intros [_ Hb] Hs Hc. destruct m; cbn [fields_sig sig_lookup] in Hs; try discriminate.
  destruct (sig_lookup_fields name fs b Hs) as [f [Hl Hm]].
  unfold get in Hc. cbn [comp_of] in Hc. rewrite Hl in Hc. unfold cast_num in Hc.
  destruct (leaf_max_num f b Hm) as [v' [Hn Hv]]. rewrite Hn in Hc.
  destruct (width_of f) as [w'|]; [|discriminate]. destruct (w' =? w); [|discriminate]. inversion Hc; subst v'.
  assert (Hin : exists n, In (n, f) fs) by (destruct (lookup_in _ _ _ Hl) as [H|H]; eauto).
  destruct Hin as [n Hin]. rewrite Forall_forall in Hb. specialize (Hb (n, f) Hin). cbn [snd] in Hb.
  destruct Hb as [Hb _]. rewrite Hv, Hm in Hb. exact Hb.
Qed.

(* ---- where the fields of a component that was read come from ---- *)
Definition field_from (rd : msg -> bytes -> rres) (nv nv' : string * msg) : Prop :=
  fst nv' = fst nv /\
  (snd nv' = snd nv \/ exists local r a, rd (snd nv) local = ROk (snd nv') r a).

Lemma read_field_inv rd v inp sz v' r a :
  read_field rd v inp sz = ROk v' r a -> exists local r0 a0, rd v local = ROk v' r0 a0.
Proof.
  unfold read_field. destruct sz as [n|].
  - destruct (isize_max <? n); [discriminate|].
    destruct (take (N.to_nat n) inp) as [[local rest]|]; [|discriminate].
    destruct (rd v local) as [x r0 a0|e r0 a0| |] eqn:E; try discriminate.
    intros H. inversion H; subst. eauto.
  - intros H. eauto.
Qed.

Lemma read_comp_fields rd : forall fs input skip dyn acc a m' rest a',
  read_comp p rd fs input skip dyn acc a = ROk m' rest a' ->
  exists fs', m' = MComp (rev acc ++ fs') /\ Forall2 (field_from rd) fs fs'.
Proof.
  induction fs as [|[name v] tl IH]; intros input skip dyn acc a m' rest a' H; cbn [read_comp] in H.
  - inversion H; subst. exists []. rewrite app_nil_r. split; [reflexivity|constructor].
  - destruct (mem name skip).
    + destruct (IH _ _ _ _ _ _ _ _ H) as [fs' [Hm Hf]]. exists ((name, v) :: fs'). split.
      * rewrite Hm. cbn [rev]. rewrite <- app_assoc. reflexivity.
      * constructor; [split; [reflexivity|left; reflexivity]|exact Hf].
    + destruct (read_field rd v input (dyn_lookup name dyn)) as [v' r0 a0|e r0 a0| |] eqn:E; try discriminate.
      destruct (read_field_inv _ _ _ _ _ _ _ E) as [local [r1 [a1 Hrd]]].
      assert (Hgo : forall skip' dyn', read_comp p rd tl r0 skip' dyn' ((name, v') :: acc) (N.max a a0) = ROk m' rest a' ->
                exists fs', m' = MComp (rev acc ++ fs') /\ Forall2 (field_from rd) ((name, v) :: tl) fs').
      { intros skip' dyn' H'. destruct (IH _ _ _ _ _ _ _ _ H') as [fs' [Hm Hf]]. exists ((name, v') :: fs'). split.
        - rewrite Hm. cbn [rev]. rewrite <- app_assoc. reflexivity.
        - constructor; [split; [reflexivity|right; cbn [snd]; eauto]|exact Hf]. }
      destruct (options p v'); try discriminate; eapply Hgo; exact H.
Qed.

Lemma read_comp_top fs input m' rest a :
  read p (MComp fs) input = ROk m' rest a ->
  exists fs', m' = MComp fs' /\ Forall2 (field_from (read p)) fs fs'.
Proof.
  cbn [read]. intros H. destruct (read_comp_fields _ _ _ _ _ _ _ _ _ _ H) as [fs' [Hm Hf]]. exists fs'. auto.
Qed.

Lemma field_from_names rd fs fs' : Forall2 (field_from rd) fs fs' -> map fst fs' = map fst fs.
Proof. induction 1 as [|x y l l' [Hn _] _ IH]; cbn; [reflexivity|]. rewrite Hn, IH. reflexivity. Qed.

(* casts on a field that exists never panic (whatever its value) *)
Lemma lookup_some name fs : In name (map fst fs) -> exists f, lookup name fs = Some f.
Proof.
  induction fs as [|[n v] tl IH]; cbn; intros H; [contradiction|].
  destruct (String.eqb n name) eqn:E; [eauto|]. destruct H as [H|H]; [|auto].
  subst n. rewrite String.eqb_refl in E. discriminate.
Qed.

Lemma cast_num_names w name fs : In name (map fst fs) -> nocrash (cast_num w (get (MComp fs) name)).
Proof.
  intros H. destruct (lookup_some _ _ H) as [f Hf]. unfold get. cbn [comp_of]. rewrite Hf. unfold cast_num.
  destruct (width_of f), (num_of f); auto. destruct (n =? w); auto.
Qed.

(* ------------------------------------------------------------------ x224 confirm *)
Lemma nego_result_nocrash fs :
  map fst fs = ["type"; "flag"; "length"; "result"] -> nocrash (nego_result (MComp fs)).
Proof.
  intros Hn. unfold nego_result.
  apply obind_nocrash; [apply cast_num_names; rewrite Hn; cbn; auto|]. intros t _.
  destruct (t =? NEG_FAILURE); auto. destruct (t =? NEG_REQ); auto. destruct (t =? NEG_RSP); auto.
  apply obind_nocrash; [apply cast_num_names; rewrite Hn; cbn; auto 6|]. intros r _. destruct (protocol_known r); auto.
Qed.

Lemma read_connection_confirm_ok input : wf_bytes input -> pure_ok (read_connection_confirm p input).
Proof.
  intros Hwf. clayouts. unfold pure_ok, read_connection_confirm. cbn [fst snd].
  destruct (rda_post x224_connection_pdu_t input Lc1 Hwf) as [_ Ha].
  split; [|eapply N.le_trans; [exact Ha|vm_compute; discriminate]].
  unfold rda. destruct (read p x224_connection_pdu_t input) as [confirm rest a|e rest a| |] eqn:E; cbn [fst obind]; auto.
  - unfold x224_connection_pdu_t, x224_connection_pdu in E.
    destruct (read_comp_top _ _ _ _ _ E) as [fs' [Hm Hf]]. subst confirm.
    inversion Hf as [|x y l l' Hx Hl]; subst. inversion Hl as [|x2 y2 l2 l2' Hx2 Hl2]; subst. inversion Hl2; subst.
    destruct y as [n1 v1], y2 as [n2 v2]. destruct Hx as [Hn1 _]. destruct Hx2 as [Hn2 Hv2]. cbn [fst snd] in *. subst n1 n2.
    unfold get. cbn [comp_of lookup String.eqb Ascii.eqb Bool.eqb].
    assert (Hv : exists fs2, v2 = MComp fs2 /\ map fst fs2 = ["type"; "flag"; "length"; "result"]).
    { destruct Hv2 as [Hv2|[local [r0 [a0 Hv2]]]].
      - subst v2. eexists; split; [reflexivity|reflexivity].
      - unfold rdp_neg_req in Hv2. destruct (read_comp_top _ _ _ _ _ Hv2) as [fs2 [Hm2 Hf2]]. exists fs2. split; auto.
        rewrite (field_from_names _ _ _ Hf2). reflexivity. }
    destruct Hv as [fs2 [-> Hn]]. cbn [comp_of]. apply nego_result_nocrash. exact Hn.
  - pose proof (read_no_crash p x224_connection_pdu_t input Lc1 Hwf) as [H1 _]. congruence.
  - pose proof (read_no_crash p x224_connection_pdu_t input Lc1 Hwf) as [_ H2]. congruence.
Qed.

(* ------------------------------------------------------------------ PER reads: total, and they hand on a suffix *)
Definition suffix (r input : bytes) : Prop := exists pre, input = pre ++ r.

Lemma suffix_refl l : suffix l l. Proof. exists []. reflexivity. Qed.
Lemma suffix_cons b r : suffix r (b :: r). Proof. exists [b]. reflexivity. Qed.
Lemma suffix_trans a b c : suffix a b -> suffix b c -> suffix a c.
Proof. intros [p1 H1] [p2 H2]. exists (p2 ++ p1). subst. rewrite app_assoc. reflexivity. Qed.
Lemma suffix_wf r input : suffix r input -> wf_bytes input -> wf_bytes r.
Proof. intros [pre ->] H. apply wf_app_inv in H. tauto. Qed.
Lemma suffix_len r input : suffix r input -> (List.length r <= List.length input)%nat.
Proof. intros [pre ->]. rewrite app_length. lia. Qed.

Definition rest_ok {A} (input : bytes) (o : outcome A) (rest : A -> bytes) : Prop :=
  match o with Ok x => suffix (rest x) input | Err _ => True | _ => False end.

Lemma rest_ok_nocrash {A} input (o : outcome A) rest : rest_ok input o rest -> nocrash o.
Proof. destruct o; cbn; auto; contradiction. Qed.

Lemma rest_ok_bind {A B} input (o : outcome A) (ra : A -> bytes) (k : A -> outcome B) (rb : B -> bytes) :
  rest_ok input o ra -> (forall x, rest_ok (ra x) (k x) rb) -> rest_ok input (obind o k) rb.
Proof.
  intros H Hk. destruct o as [x| | |]; cbn [obind rest_ok] in *; auto.
  specialize (Hk x). destruct (k x); cbn [rest_ok] in *; auto. eapply suffix_trans; eauto.
Qed.

Lemma rest_ok_err {A} input e (rest : A -> bytes) : rest_ok input (Err e) rest.
Proof. exact I. Qed.
#[local] Hint Resolve rest_ok_err suffix_refl suffix_cons : core.

Lemma per_read_u8_ok input : rest_ok input (per_read_u8 input) snd.
Proof. destruct input; cbn; auto. Qed.

Lemma per_read_length_ok input : rest_ok input (per_read_length input) snd.
Proof.
  unfold per_read_length. destruct input as [|b r]; cbn [rest_ok]; auto.
  destruct (N.land b 128 =? 0); cbn [rest_ok snd]; auto.
  destruct r as [|b2 r2]; cbn [rest_ok snd]; auto. exists [b; b2]. reflexivity.
Qed.

Lemma per_read_integer_16_ok m input : rest_ok input (per_read_integer_16 m input) snd.
Proof.
  unfold per_read_integer_16. destruct input as [|h [|l r]]; cbn [rest_ok]; auto.
  destruct (of_be16 h l + m <? 65536); cbn [rest_ok snd]; auto. exists [h; l]. reflexivity.
Qed.

Lemma per_skip_ok n input : rest_ok input (per_skip n input) (fun r => r).
Proof.
  unfold per_skip. destruct (take n input) as [[a b]|] eqn:E; cbn [rest_ok]; auto.
  destruct (take_spec _ _ _ _ E) as [-> _]. exists a. reflexivity.
Qed.

Lemma per_read_object_identifier_ok input : rest_ok input (per_read_object_identifier input) (fun r => r).
Proof.
  unfold per_read_object_identifier. eapply rest_ok_bind; [apply per_read_length_ok|]. intros x.
  destruct (negb (fst x =? 5)); auto. apply per_skip_ok.
Qed.

Lemma per_read_integer_ok input : rest_ok input (per_read_integer input) (fun r => r).
Proof.
  unfold per_read_integer. eapply rest_ok_bind; [apply per_read_length_ok|]. intros x.
  destruct (fst x =? 1); [apply per_skip_ok|]. destruct (fst x =? 2); [apply per_skip_ok|].
  destruct (fst x =? 4); [apply per_skip_ok|]. auto.
Qed.

Lemma per_expect_ok expected : forall input, rest_ok input (per_expect expected input) (fun r => r).
Proof.
  induction expected as [|e tl IH]; intros input; cbn [per_expect rest_ok]; auto.
  destruct input as [|c r]; cbn [rest_ok]; auto. destruct (c =? e); cbn [rest_ok]; auto.
  specialize (IH r). destruct (per_expect tl r); cbn [rest_ok] in *; auto.
  eapply suffix_trans; eauto.
Qed.

Lemma per_read_octet_stream_ok expected m input : rest_ok input (per_read_octet_stream expected m input) (fun r => r).
Proof.
  unfold per_read_octet_stream. eapply rest_ok_bind; [apply per_read_length_ok|]. intros x.
  destruct (negb (fst x + m =? nlen expected)); auto. apply per_expect_ok.
Qed.

Lemma gcc_header_ok input : rest_ok input (gcc_header input) snd.
Proof.
  unfold gcc_header.
  eapply rest_ok_bind; [apply per_read_u8_ok|]. intros x.
  eapply rest_ok_bind; [apply per_read_object_identifier_ok|]. intros r1. cbv beta.
  eapply rest_ok_bind; [apply per_read_length_ok|]. intros x2.
  eapply rest_ok_bind; [apply per_read_u8_ok|]. intros x3.
  eapply rest_ok_bind; [apply per_read_integer_16_ok|]. intros x4.
  eapply rest_ok_bind; [apply per_read_integer_ok|]. intros r5. cbv beta.
  eapply rest_ok_bind; [apply per_read_u8_ok|]. intros x6.
  eapply rest_ok_bind; [apply per_read_u8_ok|]. intros x7.
  eapply rest_ok_bind; [apply per_read_u8_ok|]. intros x8.
  eapply rest_ok_bind; [apply per_read_octet_stream_ok|]. intros r9. cbv beta.
  apply per_read_length_ok.
Qed.

(* ------------------------------------------------------------------ mcs confirms, mcs data header *)
Lemma read_attach_user_confirm_nocrash input : nocrash (read_attach_user_confirm input).
Proof.
  unfold read_attach_user_confirm. destruct input as [|h request]; auto.
  destruct (negb (N.shiftr h 2 =? MCS_ATTACH_USER_CONFIRM)); auto.
  apply obind_nocrash; [eapply rest_ok_nocrash; apply per_read_u8_ok|]. intros x _.
  destruct (negb (fst x =? 0)); auto.
  apply obind_nocrash; [eapply rest_ok_nocrash; apply per_read_integer_16_ok|]. intros y _. auto.
Qed.

Lemma read_channel_join_confirm_nocrash u c input : nocrash (read_channel_join_confirm u c input).
Proof.
  unfold read_channel_join_confirm. destruct input as [|h request]; auto.
  destruct (negb (N.shiftr h 2 =? MCS_CHANNEL_JOIN_CONFIRM)); auto.
  apply obind_nocrash; [eapply rest_ok_nocrash; apply per_read_u8_ok|]. intros x _.
  apply obind_nocrash; [eapply rest_ok_nocrash; apply per_read_integer_16_ok|]. intros y _.
  apply obind_nocrash; [eapply rest_ok_nocrash; apply per_read_integer_16_ok|]. intros z _.
  destruct (negb (u =? fst y)); auto. destruct (negb (c =? fst z)); auto.
Qed.

Definition wf_payload (pl : payload) : Prop :=
  match pl with Raw b => wf_bytes b | FastPath _ b => wf_bytes b end.

Lemma mcs_read_any_ok uid io pl :
  wf_payload pl ->
  match mcs_read_any uid io pl with Ok pl' => wf_payload pl' | Err _ => True | _ => False end.
Proof.
  intros Hwf. unfold mcs_read_any. destruct pl as [b|f b]; [|exact Hwf].
  destruct b as [|header r0]; auto.
  destruct (N.shiftr header 2 =? 8); auto. destruct (negb (N.shiftr header 2 =? 26)); auto.
  assert (Hr0 : wf_bytes r0) by (eapply suffix_wf; [apply suffix_cons|exact Hwf]).
  assert (H : rest_ok r0
    (obind (per_read_integer_16 1001 r0) (fun x1 =>
     obind (per_read_integer_16 0 (snd x1)) (fun x2 =>
       if negb ((fst x2 =? io) || (fst x2 =? uid)) then Err EUnknown
       else obind (per_read_u8 (snd x2)) (fun x3 =>
            obind (per_read_length (snd x3)) (fun x4 => Ok (Raw (snd x4)))))))
    (fun pl' => match pl' with Raw b => b | FastPath _ b => b end)).
  { eapply rest_ok_bind; [apply per_read_integer_16_ok|]. intros x1.
    eapply rest_ok_bind; [apply per_read_integer_16_ok|]. intros x2.
    destruct (negb ((fst x2 =? io) || (fst x2 =? uid))); auto.
    eapply rest_ok_bind; [apply per_read_u8_ok|]. intros x3.
    eapply rest_ok_bind with (ra := snd); [apply per_read_length_ok|]. intros x4. cbn [rest_ok]. auto. }
  match goal with |- match ?o with _ => _ end => destruct o as [pl'| | |] end; cbn [rest_ok] in H; auto.
  destruct pl'; cbn [wf_payload]; eapply suffix_wf; eauto.
Qed.


(* ------------------------------------------------------------------ gcc *)
Lemma rda_cases t body :
  safe t = true -> wf_bytes body -> alloc_bound t <= alloc_limit ->
  (exists m rest a, read p t body = ROk m rest a /\ rda p t body = (Ok m, a) /\ a <= alloc_limit /\
                    fields_sig m = fields_sig t /\ bounded m) \/
  (exists e a, rda p t body = (Err e, a) /\ a <= alloc_limit).
Proof.
  intros Hs Hwf HB. pose proof (read_safe p t Hs body Hwf) as H. unfold post in H. unfold rda.
  destruct (read p t body) as [m rest a|e rest a| |]; try contradiction.
  - left. exists m, rest, a. destruct H as [_ [H2 [H3 [_ [_ [H6 _]]]]]].
    split; [reflexivity|]. split; [reflexivity|]. split; [lia|]. split; assumption.
  - right. exists e, a. destruct H as [_ [_ H3]]. split; auto. lia.
Qed.

Definition is_u16 (m : msg) : Prop := exists e v, m = MU16 e v.

Lemma read_array_u16 mk : forall fuel input acc a m' rest a',
  Forall is_u16 acc ->
  read_array (read p (MU16 LE 0)) mk fuel input acc a = ROk m' rest a' ->
  exists l, m' = mk l /\ Forall is_u16 l.
Proof.
  induction fuel as [|fuel IH]; intros input acc a m' rest a' Hacc H; cbn [read_array] in H; [discriminate|].
  cbn [read] in H. destruct input as [|b0 [|b1 r]].
  - inversion H; subst. exists (rev acc). split; auto. apply Forall_rev. exact Hacc.
  - inversion H; subst. exists (rev acc). split; auto. apply Forall_rev. exact Hacc.
  - destruct (Nat.eqb (List.length r) (List.length (b0 :: b1 :: r))); [discriminate|].
    eapply IH; [|exact H]. constructor; auto. eexists; eexists; reflexivity.
Qed.

Lemma channel_id_list_u16 l : Forall is_u16 l -> nocrash (channel_id_list l).
Proof.
  induction 1 as [|x tl [e [v ->]] _ IH]; cbn [channel_id_list]; auto.
  cbn. apply obind_nocrash; auto.
Qed.

Definition netfs : list (string * msg) :=
  [("MCSChannelId", u16le 0);
   ("channelCount", MDyn (u16le 0) (CloSize "channelIdArray" (XMul XSelf 2)));
   ("channelIdArray", MArray [] (Some (u16le 0)))].

Definition net_ok (m : msg) : Prop := exists fs, m = MComp fs /\ Forall2 (field_from (read p)) netfs fs.
Definition core_ok (m : msg) : Prop := bounded m /\ fields_sig m = fields_sig server_core_data.
Definition opt_ok (P : msg -> Prop) (o : option msg) : Prop := match o with Some m => P m | None => True end.

Lemma gcc_server_data_nocrash cn :
  opt_ok core_ok (fst cn) -> opt_ok net_ok (snd cn) -> nocrash (gcc_server_data cn).
Proof.
  intros Hc Hn. unfold gcc_server_data. destruct (snd cn) as [net|]; auto. destruct (fst cn) as [core|]; auto.
  cbn [opt_ok] in *. destruct Hn as [fs [-> Hf]]. unfold netfs in Hf.
  inversion Hf as [|x1 y1 l1 l1' Hx1 Hl1]; subst. inversion Hl1 as [|x2 y2 l2 l2' Hx2 Hl2]; subst.
  inversion Hl2 as [|x3 y3 l3 l3' Hx3 Hl3]; subst. inversion Hl3; subst.
  destruct y1 as [n1 v1], y2 as [n2 v2], y3 as [n3 v3].
  destruct Hx1 as [Hn1 _], Hx2 as [Hn2 _], Hx3 as [Hn3 Hv3]. cbn [fst snd] in *. subst n1 n2 n3.
  unfold get. cbn [comp_of lookup String.eqb Ascii.eqb Bool.eqb].
  assert (Hv : exists l t, v3 = MArray l t /\ Forall is_u16 l).
  { destruct Hv3 as [->|[local [r0 [a0 Hv3]]]].
    - exists [], (Some (u16le 0)). split; auto.
    - cbn [read] in Hv3. unfold u16le in Hv3.
      destruct (read_array_u16 _ _ _ _ _ _ _ _ (Forall_nil _) Hv3) as [l [-> Hl]].
      cbn [app]. eexists; eexists; split; [reflexivity|exact Hl]. }
  destruct Hv as [l [t [-> Hl]]]. cbn [trame_of].
  apply obind_nocrash.
  { unfold cast_num, nocrash. destruct (width_of v1) as [w'|]; [|split; discriminate].
    destruct (num_of v1); [|split; discriminate]. destruct (w' =? 16); split; discriminate. }
  intros io _.
  apply obind_nocrash; [apply channel_id_list_u16; exact Hl|]. intros ids _.
  destruct Hc as [Hcb Hcs].
  apply obind_nocrash; [apply cast_num_nocrash; [exact Hcb|rewrite (has_field_sig _ _ _ Hcs); reflexivity]|].
  intros v _. auto.
Qed.

Lemma gcc_blocks_ok : forall fuel sub core net a,
  wf_bytes sub -> (List.length sub < fuel)%nat -> a <= alloc_limit ->
  opt_ok core_ok core -> opt_ok net_ok net ->
  snd (gcc_blocks p fuel sub core net a) <= alloc_limit /\
  match fst (gcc_blocks p fuel sub core net a) with
  | Ok cn => opt_ok core_ok (fst cn) /\ opt_ok net_ok (snd cn)
  | Err _ => True
  | _ => False
  end.
Proof.
  clayouts.
  induction fuel as [|fuel IH]; intros sub core net a Hwf Hfuel Ha Hcore Hnet; [lia|].
  cbn [gcc_blocks].
  pose proof (read_safe p block_header_t Lc2 sub Hwf) as Hp. unfold post in Hp.
  destruct (read p block_header_t sub) as [header rest a'|e rest a'| |]; try contradiction.
  2:{ destruct Hp as [_ [_ Hal]]. cbn [fst snd]. split; [rewrite ab_block_header in Hal; lia|auto]. }
  destruct Hp as [_ [Hsig [Hb [Hwr [Hlen [Hal _]]]]]].
  assert (Ha1 : N.max a a' <= alloc_limit) by (rewrite ab_block_header in Hal; lia).
  assert (Hf1 : has_field "length" header = true) by (rewrite (has_field_sig _ _ _ Hsig); reflexivity).
  assert (Hf2 : has_field "type" header = true) by (rewrite (has_field_sig _ _ _ Hsig); reflexivity).
  pose proof (cast_num_nocrash 16 "length" header Hb Hf1) as Hc1.
  destruct (cast_num 16 (get header "length")) as [len|e| |] eqn:Elen; cbn [fst snd];
    try (split; [exact Ha1|exact I]); try (exfalso; eapply nocrash_panic; exact Hc1); try (exfalso; eapply nocrash_spin; exact Hc1).
  assert (Hlen16 : len <= 65535).
  { eapply field_num_bound; [exact Hb| |exact Elen]. rewrite Hsig. reflexivity. }
  destruct (len <? 4); cbn [fst snd]; [split; [exact Ha1|exact I]|].
  assert (Ha2 : N.max (N.max a a') (len - 4) <= alloc_limit) by (unfold alloc_limit in *; lia).
  destruct (take (N.to_nat (len - 4)) rest) as [[body rest']|] eqn:Et; cbn [fst snd]; [|split; [exact Ha2|exact I]].
  destruct (take_spec _ _ _ _ Et) as [Hrest _]. subst rest.
  destruct (wf_app_inv _ _ Hwr) as [Hwb Hwr'].
  assert (Hfuel' : (List.length rest' < fuel)%nat).
  { rewrite mc_block_header in Hlen. unfold nlen in Hlen. rewrite app_length in Hlen. lia. }
  pose proof (cast_num_nocrash 16 "type" header Hb Hf2) as Hc2.
  destruct (cast_num 16 (get header "type")) as [t|e| |] eqn:Et2; cbn [fst snd];
    try (split; [exact Ha2|exact I]); try (exfalso; eapply nocrash_panic; exact Hc2); try (exfalso; eapply nocrash_spin; exact Hc2).
  destruct (t =? SC_CORE).
  { destruct (rda_cases server_core_data body Lc3 Hwb) as [[m [r0 [a3 [_ [Hr [Ha3 [Hs3 Hb3]]]]]]]|[e [a3 [Hr Ha3]]]];
      [vm_compute; discriminate| |]; rewrite Hr.
    - apply IH; auto; [lia|]. split; auto.
    - cbn [fst snd]. split; [lia|exact I]. }
  destruct (t =? SC_SECURITY).
  { destruct (rda_cases server_security_data body Lc4 Hwb) as [[m [r0 [a3 [_ [Hr [Ha3 _]]]]]]|[e [a3 [Hr Ha3]]]];
      [vm_compute; discriminate| |]; rewrite Hr.
    - apply IH; auto. lia.
    - cbn [fst snd]. split; [lia|exact I]. }
  destruct (t =? SC_NET).
  { destruct (rda_cases server_network_data body Lc5 Hwb) as [[m [r0 [a3 [Hrd [Hr [Ha3 _]]]]]]|[e [a3 [Hr Ha3]]]];
      [vm_compute; discriminate| |]; rewrite Hr.
    - apply IH; auto; [lia|]. cbn [opt_ok]. unfold server_network_data in Hrd.
      destruct (read_comp_top _ _ _ _ _ Hrd) as [fs' [Hm Hf]]. exists fs'. split; auto.
    - cbn [fst snd]. split; [lia|exact I]. }
  apply IH; auto.
Qed.

Lemma read_conference_create_response_ok input :
  wf_bytes input -> pure_ok (read_conference_create_response p input).
Proof.
  intros Hwf. unfold pure_ok, read_conference_create_response.
  pose proof (gcc_header_ok input) as Hh.
  destruct (gcc_header input) as [[len rest]|e| |]; cbn [rest_ok snd] in Hh; try contradiction; cbn [fst snd];
    [|split; [auto|unfold alloc_limit; lia]].
  assert (Hwr : wf_bytes rest) by (eapply suffix_wf; eauto).
  assert (Hws : wf_bytes (firstn (N.to_nat len) rest)).
  { rewrite <- (firstn_skipn (N.to_nat len) rest) in Hwr. apply wf_app_inv in Hwr. tauto. }
  destruct (gcc_blocks_ok (S (List.length (firstn (N.to_nat len) rest))) (firstn (N.to_nat len) rest) None None 0 Hws
              (Nat.lt_succ_diag_r _)) as [Ha Ho]; [vm_compute; discriminate|exact I|exact I|].
  split; [|exact Ha].
  destruct (fst (gcc_blocks p (S (List.length (firstn (N.to_nat len) rest))) (firstn (N.to_nat len) rest) None None 0)) as [cn|e| |];
    cbn [obind]; auto; try contradiction.
  destruct Ho. apply gcc_server_data_nocrash; auto.
Qed.

(* ------------------------------------------------------------------ license, sec *)
Lemma license_error_alert_nocrash blob :
  bounded blob -> fields_sig blob = fields_sig licensing_error_message -> nocrash (license_error_alert blob).
Proof.
  intros Hb Hsig. unfold license_error_alert.
  apply obind_nocrash; [apply cast_num_nocrash; [exact Hb|rewrite (has_field_sig _ _ _ Hsig); reflexivity]|]. intros code _.
  destruct (negb (lic_errorcode_known code)); auto. destruct (code =? STATUS_VALID_CLIENT); auto.
  apply obind_nocrash; [apply cast_num_nocrash; [exact Hb|rewrite (has_field_sig _ _ _ Hsig); reflexivity]|]. intros tr _.
  destruct (negb (lic_transition_known tr)); auto. destruct (tr =? ST_NO_TRANSITION); auto.
Qed.

Lemma license_client_connect_ok input : wf_bytes input -> pure_ok (license_client_connect p input).
Proof.
  intros Hwf. clayouts. unfold pure_ok, license_client_connect.
  destruct (rda_cases preamble input Lc7 Hwf) as [[lic [r0 [a1 [_ [Hr [Ha1 [Hs1 Hb1]]]]]]]|[e [a1 [Hr Ha1]]]];
    [vm_compute; discriminate| |]; rewrite Hr; cbn [fst snd]; [|split; auto].
  assert (Hf1 : has_field "bMsgtype" lic = true) by (rewrite (has_field_sig _ _ _ Hs1); reflexivity).
  assert (Hf2 : has_field "message" lic = true) by (rewrite (has_field_sig _ _ _ Hs1); reflexivity).
  pose proof (cast_num_nocrash 8 "bMsgtype" lic Hb1 Hf1) as Hc1.
  destruct (cast_num 8 (get lic "bMsgtype")) as [t|e| |]; cbn [fst snd];
    try (split; [auto|exact Ha1]); try (exfalso; eapply nocrash_panic; exact Hc1); try (exfalso; eapply nocrash_spin; exact Hc1).
  destruct (negb (lic_msgtype_known t)); cbn [fst snd]; [split; auto|].
  destruct (t =? LIC_NEW_LICENSE); cbn [fst snd]; [split; auto|].
  destruct (t =? LIC_ERROR_ALERT); cbn [fst snd]; [|split; auto].
  pose proof (cast_bytes_ok "message" lic Hb1 Hf2) as Hcb.
  destruct (cast_bytes (get lic "message")) as [body|e| |]; cbn [fst snd]; try contradiction; [|split; auto].
  destruct (rda_cases licensing_error_message body Lc8 Hcb) as [[blob [r2 [a2 [_ [Hr2 [Ha2 [Hs2 Hb2]]]]]]]|[e [a2 [Hr2 Ha2]]]];
    [vm_compute; discriminate| |]; rewrite Hr2; cbn [fst snd obind].
  - split; [apply license_error_alert_nocrash; auto|lia].
  - split; [auto|lia].
Qed.

Lemma sec_license_ok input : wf_bytes input -> pure_ok (sec_license p input).
Proof.
  intros Hwf. clayouts. unfold pure_ok, sec_license.
  pose proof (rdr_post security_header input Lc6 Hwf) as [Hp Ha].
  assert (Ha' : snd (rdr p security_header input) <= alloc_limit) by (rewrite ab_security_header in Ha; unfold alloc_limit; lia).
  destruct (fst (rdr p security_header input)) as [[hdr rest]|e| |]; cbn [fst snd]; try contradiction; [|split; auto].
  cbn [fst snd] in Hp. destruct Hp as [Hs [Hb Hwr]].
  assert (Hf : has_field "securityFlag" hdr = true) by (rewrite (has_field_sig _ _ _ Hs); reflexivity).
  pose proof (cast_num_nocrash 16 "securityFlag" hdr Hb Hf) as Hc.
  destruct (cast_num 16 (get hdr "securityFlag")) as [fl|e| |]; cbn [fst snd];
    try (split; [auto|exact Ha']); try (exfalso; eapply nocrash_panic; exact Hc); try (exfalso; eapply nocrash_spin; exact Hc).
  destruct (N.land fl SEC_LICENSE_PKT =? 0); cbn [fst snd]; [split; auto|].
  destruct (license_client_connect_ok rest Hwr) as [H1 H2]. split; [exact H1|lia].
Qed.

End Pure.

(* ------------------------------------------------------------------ the inbound stream *)
Definition wf_stream (cs : stream) : Prop := Forall wf_bytes cs.

Lemma wf_firstn n (l : bytes) : wf_bytes l -> wf_bytes (firstn n l).
Proof. intros H. rewrite <- (firstn_skipn n l) in H. apply wf_app_inv in H. tauto. Qed.
Lemma wf_skipn n (l : bytes) : wf_bytes l -> wf_bytes (skipn n l).
Proof. intros H. rewrite <- (firstn_skipn n l) in H. apply wf_app_inv in H. tauto. Qed.
Lemma wf_app (a b : bytes) : wf_bytes a -> wf_bytes b -> wf_bytes (a ++ b).
Proof. unfold wf_bytes. intros. apply Forall_app. auto. Qed.

Lemma tread_ok n cs : wf_stream cs -> wf_bytes (fst (tread n cs)) /\ wf_stream (snd (tread n cs)).
Proof.
  intros H. unfold tread. destruct cs as [|c cs']; cbn [fst snd]; [split; [apply wf_nil|constructor]|].
  inversion H as [|? ? Hc Hcs]; subst.
  destruct (Nat.leb (List.length c) n); cbn [fst snd]; [auto|].
  split; [apply wf_firstn; auto|constructor; [apply wf_skipn; auto|auto]].
Qed.

Lemma read_exact_ok : forall cs n, wf_stream cs ->
  wf_stream (snd (read_exact n cs)) /\
  match fst (read_exact n cs) with Some l => wf_bytes l /\ List.length l = n | None => True end.
Proof.
  induction cs as [|c cs' IH]; intros n H; destruct n as [|k]; cbn [read_exact fst snd];
    try (split; [assumption|split; [apply wf_nil|reflexivity]]); try (split; [constructor|exact I]).
  inversion H as [|? ? Hc Hcs]; subst.
  destruct c as [|b c']; cbn [fst snd]; [auto|].
  destruct (Nat.leb (List.length (b :: c')) (S k)) eqn:E.
  - specialize (IH (S k - List.length (b :: c'))%nat Hcs).
    destruct (read_exact (S k - List.length (b :: c')) cs') as [r cs'']. cbn [fst snd] in *.
    destruct IH as [Hw Hr]. split; auto. destruct r as [l|]; auto. destruct Hr as [Hwl Hlen].
    split; [apply wf_app; auto|]. apply Nat.leb_le in E. rewrite app_length, Hlen. lia.
  - cbn [fst snd]. apply Nat.leb_gt in E.
    split; [constructor; [apply wf_skipn; auto|auto]|].
    split; [apply wf_firstn; auto|]. apply firstn_length_le. lia.
Qed.

Lemma link_read_ok n cs : wf_stream cs ->
  wf_stream (snd (link_read n cs)) /\
  match fst (link_read n cs) with
  | Ok b => wf_bytes b /\ (n <> O -> List.length b = n)
  | Err _ => True
  | _ => False
  end.
Proof.
  intros H. unfold link_read. destruct n as [|k].
  - pose proof (tread_ok 1500 cs H) as [H1 H2]. destruct (tread 1500 cs). cbn [fst snd] in *.
    split; auto. split; auto. intros Hx. congruence.
  - pose proof (read_exact_ok cs (S k) H) as [H1 H2]. destruct (read_exact (S k) cs) as [r cs']. cbn [fst snd] in *.
    split; auto. destruct r; auto. destruct H2. split; auto.
Qed.

Lemma read_body_ok n cs : wf_stream cs ->
  wf_stream (snd (read_body n cs)) /\
  match fst (read_body n cs) with Ok b => wf_bytes b | Err _ => True | _ => False end.
Proof.
  intros H. unfold read_body. destruct n as [|k]; cbn [fst snd]; [split; [auto|apply wf_nil]|].
  pose proof (link_read_ok (S k) cs H) as [H1 H2]. split; auto.
  destruct (fst (link_read (S k) cs)); auto. tauto.
Qed.

Definition payload_post (o : outcome payload) : Prop :=
  match o with Ok pl => wf_payload pl | Err _ => True | _ => False end.

Lemma tpkt_read_ok cs : wf_stream cs ->
  wf_stream (snd (tpkt_read cs)) /\ payload_post (fst (tpkt_read cs)).
Proof.
  intros H. unfold tpkt_read.
  pose proof (link_read_ok 2 cs H) as [Hw1 Ho1].
  destruct (link_read 2 cs) as [o1 cs1]. cbn [fst snd] in *.
  destruct o1 as [l1|e| |]; try contradiction; [|split; [auto|exact I]].
  destruct Ho1 as [_ Hlen1]. specialize (Hlen1 ltac:(discriminate)).
  destruct l1 as [|action [|b1 [|x l]]]; try discriminate.
  destruct (action =? 3).
  - pose proof (link_read_ok 2 cs1 Hw1) as [Hw2 Ho2].
    destruct (link_read 2 cs1) as [o2 cs2]. cbn [fst snd] in *.
    destruct o2 as [l2|e| |]; try contradiction; [|split; [auto|exact I]].
    destruct Ho2 as [_ Hlen2]. specialize (Hlen2 ltac:(discriminate)).
    destruct l2 as [|hi [|lo [|x l]]]; try discriminate.
    destruct (of_be16 hi lo <? 4); [split; [auto|exact I]|].
    pose proof (read_body_ok (N.to_nat (of_be16 hi lo - 4)) cs2 Hw2) as [Hw3 Ho3].
    destruct (read_body (N.to_nat (of_be16 hi lo - 4)) cs2) as [o3 cs3]. cbn [fst snd] in *.
    destruct o3; try contradiction; split; auto; exact I.
  - destruct (N.land b1 128 =? 0).
    + destruct (b1 <? 2); [split; [auto|exact I]|].
      pose proof (read_body_ok (N.to_nat (b1 - 2)) cs1 Hw1) as [Hw3 Ho3].
      destruct (read_body (N.to_nat (b1 - 2)) cs1) as [o3 cs3]. cbn [fst snd] in *.
      destruct o3; try contradiction; split; auto; exact I.
    + pose proof (link_read_ok 1 cs1 Hw1) as [Hw2 Ho2].
      destruct (link_read 1 cs1) as [o2 cs2]. cbn [fst snd] in *.
      destruct o2 as [l2|e| |]; try contradiction; [|split; [auto|exact I]].
      destruct Ho2 as [_ Hlen2]. specialize (Hlen2 ltac:(discriminate)).
      destruct l2 as [|lo [|x l]]; try discriminate.
      match goal with |- context [if ?c then _ else _] => destruct c end; [split; [auto|exact I]|].
      match goal with |- context [read_body ?n cs2] =>
        pose proof (read_body_ok n cs2 Hw2) as [Hw3 Ho3]; destruct (read_body n cs2) as [o3 cs3] end.
      cbn [fst snd] in *. destruct o3; try contradiction; split; auto; exact I.
Qed.

Lemma x224_read_ok cs : wf_stream cs ->
  wf_stream (snd (x224_read cs)) /\ payload_post (fst (x224_read cs)).
Proof.
  intros H. unfold x224_read. pose proof (tpkt_read_ok cs H) as [Hw Ho].
  destruct (tpkt_read cs) as [o cs']. cbn [fst snd] in *.
  destruct o as [pl|e| |]; try contradiction; [|split; auto].
  destruct pl as [b|f b]; cbn [fst snd]; [|split; auto].
  split; auto. unfold x224_strip. destruct b as [|b0 [|b1 [|sep rest]]]; cbn [payload_post]; auto.
  destruct (sep =? 128); cbn [payload_post wf_payload]; auto.
  cbn [payload_post wf_payload] in Ho. eapply suffix_wf; [|exact Ho]. exists [b0; b1; sep]. reflexivity.
Qed.

Lemma wf_two a b : wf_bytes [a; b] -> a < 256 /\ b < 256.
Proof. intros H. inversion H as [|? ? Ha Hr]; subst. inversion Hr; subst. auto. Qed.

Lemma tpkt_alloc_bound cs : wf_stream cs -> tpkt_alloc cs <= 65535.
Proof.
  intros H. unfold tpkt_alloc.
  pose proof (link_read_ok 2 cs H) as [Hw1 Ho1].
  destruct (link_read 2 cs) as [o1 cs1]. cbn [fst snd] in *.
  destruct o1 as [l1|e| |]; try lia.
  destruct Ho1 as [Hwl1 _].
  destruct l1 as [|action [|b1 [|x l]]]; try lia.
  destruct (wf_two _ _ Hwl1) as [Hact Hb1].
  destruct (action =? 3).
  - pose proof (link_read_ok 2 cs1 Hw1) as [Hw2 Ho2].
    destruct (link_read 2 cs1) as [o2 cs2]. cbn [fst snd] in *.
    destruct o2 as [l2|e| |]; try lia. destruct Ho2 as [Hwl2 _].
    destruct l2 as [|hi [|lo [|x l]]]; try lia.
    destruct (wf_two _ _ Hwl2) as [Hhi Hlo]. unfold of_be16.
    destruct (hi * 256 + lo <? 4); lia.
  - destruct (N.land b1 128 =? 0).
    + destruct (b1 <? 2); lia.
    + pose proof (link_read_ok 1 cs1 Hw1) as [Hw2 Ho2].
      destruct (link_read 1 cs1) as [o2 cs2]. cbn [fst snd] in *.
      destruct o2 as [l2|e| |]; try lia. destruct Ho2 as [Hwl2 _].
      destruct l2 as [|lo [|x l]]; try lia.
      assert (Hlo : lo < 256) by (inversion Hwl2; auto).
      assert (Hl : N.land b1 127 < 128).
      { change 127 with (N.ones 7). rewrite N.land_ones. apply N.mod_lt. discriminate. }
      rewrite N.shiftl_mul_pow2. change (2 ^ 8) with 256.
      destruct (N.land b1 127 * 256 + lo <? 3); lia.
Qed.


(* ------------------------------------------------------------------ composition: a Hoare-style invariant *)
Definition good_st (s : cst) : Prop := wf_stream (s_in s) /\ s_alloc s <= alloc_limit.

Definition hoare {A} (m : M A) (Q : A -> Prop) : Prop :=
  forall s, good_st s ->
    good_st (snd (m s)) /\ nocrash (fst (m s)) /\ forall a, fst (m s) = Ok a -> Q a.

Lemma hoare_ret {A} (a : A) (Q : A -> Prop) : Q a -> hoare (ret a) Q.
Proof. intros H s Hs. cbn. split; auto. split; auto. intros a' Ha. inversion Ha; subst; auto. Qed.

Lemma hoare_bind {A B} (m : M A) (k : A -> M B) (Q : A -> Prop) (R : B -> Prop) :
  hoare m Q -> (forall a, Q a -> hoare (k a) R) -> hoare (bind m k) R.
Proof.
  intros Hm Hk s Hs. unfold bind. destruct (Hm s Hs) as [H1 [H2 H3]].
  destruct (m s) as [o s']. cbn [fst snd] in *.
  destruct o as [a|e| |]; cbn [fst snd].
  - apply (Hk a (H3 a eq_refl) s' H1).
  - split; auto. split; auto. intros a Ha. discriminate.
  - exfalso. eapply nocrash_panic. exact H2.
  - exfalso. eapply nocrash_spin. exact H2.
Qed.

Lemma hoare_weaken {A} (m : M A) (Q R : A -> Prop) : hoare m Q -> (forall a, Q a -> R a) -> hoare m R.
Proof. intros H HQR s Hs. destruct (H s Hs) as [H1 [H2 H3]]. split; auto. Qed.

Lemma hoare_emit c : hoare (emit c) (fun _ => True).
Proof. intros s [H1 H2]. unfold emit. cbn [fst snd]. split; [split; cbn [s_in s_alloc]; auto|]. split; auto. Qed.

Lemma hoare_fail {A} e (Q : A -> Prop) : hoare (fail e) Q.
Proof. intros s Hs. cbn. split; auto. split; auto. intros a Ha. discriminate. Qed.

Lemma hoare_lift {A} (r : outcome A * N) : pure_ok r -> hoare (lift r) (fun a => fst r = Ok a).
Proof.
  intros [H1 H2] s [Hs1 Hs2]. unfold lift. cbn [fst snd]. split; [split; cbn [s_in s_alloc]; [auto|lia]|]. split; auto.
Qed.

Lemma hoare_recv_tpkt : hoare recv_tpkt wf_payload.
Proof.
  intros s [Hs1 Hs2]. unfold recv_tpkt. pose proof (tpkt_read_ok _ Hs1) as [H1 H2].
  pose proof (tpkt_alloc_bound _ Hs1) as H3.
  destruct (tpkt_read (s_in s)) as [o cs']. cbn [fst snd s_in s_alloc] in *.
  split; [split; cbn [s_in s_alloc]; [auto|unfold alloc_limit in *; lia]|]. unfold payload_post in H2.
  destruct o; try contradiction; split; auto; intros x Hx; inversion Hx; subst; auto.
Qed.

Lemma hoare_recv_x224 : hoare recv_x224 wf_payload.
Proof.
  intros s [Hs1 Hs2]. unfold recv_x224. pose proof (x224_read_ok _ Hs1) as [H1 H2].
  pose proof (tpkt_alloc_bound _ Hs1) as H3.
  destruct (x224_read (s_in s)) as [o cs']. cbn [fst snd s_in s_alloc] in *.
  split; [split; cbn [s_in s_alloc]; [auto|unfold alloc_limit in *; lia]|]. unfold payload_post in H2.
  destruct o; try contradiction; split; auto; intros x Hx; inversion Hx; subst; auto.
Qed.

Lemma expect_raw_ok pl : wf_payload pl -> hoare (lift (expect_raw pl, 0)) wf_bytes.
Proof.
  intros Hwf. eapply hoare_weaken; [apply hoare_lift|].
  - split; [destruct pl; cbn; auto|unfold alloc_limit; cbn; lia].
  - intros b Hb. cbn [fst] in Hb. destruct pl; cbn in Hb; [inversion Hb; subst; exact Hwf|discriminate].
Qed.

(* what is assumed of the external code: it returns (Ok or Err), and what it hands on are bytes *)
Definition oracle_bytes_ok (f : bytes -> outcome bytes) : Prop :=
  forall b, wf_bytes b -> match f b with Ok ud => wf_bytes ud | Err _ => True | _ => False end.
Definition oracle_stream_ok (f : stream -> outcome stream) : Prop :=
  forall cs, wf_stream cs -> match f cs with Ok cs' => wf_stream cs' | Err _ => True | _ => False end.
Definition oracle_cssp_ok (f : stream -> nat * outcome stream) : Prop :=
  forall cs, wf_stream cs -> match snd (f cs) with Ok cs' => wf_stream cs' | Err _ => True | _ => False end.

Section Composition.
Variable p : prof.
Variable ber_parse : bytes -> outcome bytes.
Variable trusted : bool.
Variable tls_start : stream -> outcome stream.
Variable cssp_run : stream -> nat * outcome stream.
Hypothesis ber_ok : oracle_bytes_ok ber_parse.
Hypothesis tls_ok : oracle_stream_ok tls_start.
Hypothesis cssp_ok : oracle_cssp_ok cssp_run.

Lemma hoare_start_ssl c : hoare (start_ssl trusted tls_start c) (fun _ => True).
Proof.
  intros s [Hs1 Hs2]. unfold start_ssl.
  destruct (tls_handshake (check_cert c) trusted); [|cbn [fst snd]; split; [split; cbn [log_ev s_in s_alloc]; auto|split; auto; intros a Ha; discriminate]].
  specialize (tls_ok _ Hs1).
  destruct (tls_start (s_in s)) as [cs'|e| |]; try contradiction; cbn [fst snd];
    (split; [split; cbn [log_ev s_in s_alloc]; auto|]); split; auto; intros a Ha; discriminate.
Qed.

Lemma hoare_emit_n m : forall n, hoare (emit_n m n) (fun _ => True).
Proof.
  induction n as [|n IH]; cbn [emit_n]; [apply hoare_ret; exact I|].
  eapply hoare_bind; [apply hoare_emit|]. intros _ _. exact IH.
Qed.

Lemma emit_n_in m : forall n s, s_in (snd (emit_n m n s)) = s_in s.
Proof.
  induction n as [|n IH]; intros s; cbn [emit_n]; [reflexivity|].
  unfold bind, emit at 1. cbn [fst snd]. rewrite IH. reflexivity.
Qed.

Lemma hoare_cssp_connect : hoare (cssp_connect cssp_run) (fun _ => True).
Proof.
  intros s Hs. unfold cssp_connect. pose proof (cssp_ok _ (proj1 Hs)) as Ho.
  destruct (hoare_emit_n CSSP (fst (cssp_run (s_in s))) s Hs) as [[H1 H2] _].
  pose proof (emit_n_in CSSP (fst (cssp_run (s_in s))) s) as Hin.
  destruct (emit_n CSSP (fst (cssp_run (s_in s))) s) as [o s1]. cbn [fst snd] in *.
  destruct (snd (cssp_run (s_in s))) as [cs'|e| |]; try contradiction; cbn [fst snd];
    (split; [split; cbn [s_in s_alloc]; auto|]); split; auto; intros a Ha; discriminate.
Qed.

Lemma hoare_start_nla c : hoare (start_nla trusted tls_start cssp_run c) (fun _ => True).
Proof.
  unfold start_nla. eapply hoare_bind; [apply hoare_start_ssl|]. intros _ _. apply hoare_cssp_connect.
Qed.

Lemma read_connect_response_ok payload :
  wf_bytes payload -> pure_ok (read_connect_response p ber_parse payload).
Proof.
  intros Hwf. unfold read_connect_response. specialize (ber_ok _ Hwf).
  destruct (ber_parse payload) as [ud|e| |]; try contradiction.
  - apply read_conference_create_response_ok. exact ber_ok.
  - split; [cbn; auto|unfold alloc_limit; cbn; lia].
Qed.

Lemma x224_connect_ok c : hoare (x224_connect p trusted tls_start cssp_run c) (fun _ => True).
Proof.
  unfold x224_connect.
  eapply hoare_bind; [apply hoare_emit|]. intros _ _.
  eapply hoare_bind; [apply hoare_recv_tpkt|]. intros pl Hpl.
  eapply hoare_bind; [apply expect_raw_ok; exact Hpl|]. intros b Hb.
  eapply hoare_bind; [apply hoare_lift; apply read_connection_confirm_ok; exact Hb|]. intros sel _.
  destruct (negb (sel_requested (offered c) sel)); [apply hoare_fail|].
  destruct (sel =? PROTOCOL_HYBRID).
  { destruct (has_auth c); [|apply hoare_fail].
    eapply hoare_bind; [apply hoare_start_nla|]. intros _ _. apply hoare_ret. exact I. }
  destruct (sel =? PROTOCOL_SSL).
  { eapply hoare_bind; [apply hoare_start_ssl|]. intros _ _. apply hoare_ret. exact I. }
  destruct (sel =? PROTOCOL_RDP); [apply hoare_ret; exact I|apply hoare_fail].
Qed.

Lemma pure_nocrash {A} (o : outcome A) : nocrash o -> pure_ok (o, 0).
Proof. intros H. split; [exact H|unfold alloc_limit; cbn; lia]. Qed.

Lemma join_channels_ok uid : forall chans, hoare (join_channels uid chans) (fun _ => True).
Proof.
  induction chans as [|ch tl IH]; cbn [join_channels]; [apply hoare_ret; exact I|].
  eapply hoare_bind; [apply hoare_emit|]. intros _ _.
  eapply hoare_bind; [apply hoare_recv_x224|]. intros pl Hpl.
  eapply hoare_bind; [apply expect_raw_ok; exact Hpl|]. intros b Hb.
  eapply hoare_bind; [apply hoare_lift; apply pure_nocrash; apply read_channel_join_confirm_nocrash|]. intros _ _.
  exact IH.
Qed.

Lemma mcs_connect_ok c sel : hoare (mcs_connect p ber_parse c sel) (fun _ => True).
Proof.
  unfold mcs_connect.
  eapply hoare_bind; [apply hoare_emit|]. intros _ _.
  eapply hoare_bind; [apply hoare_recv_x224|]. intros pl Hpl.
  eapply hoare_bind; [apply expect_raw_ok; exact Hpl|]. intros b Hb.
  eapply hoare_bind; [apply hoare_lift; apply read_connect_response_ok; exact Hb|]. intros sd _.
  eapply hoare_bind; [apply hoare_emit|]. intros _ _.
  eapply hoare_bind; [apply hoare_emit|]. intros _ _.
  eapply hoare_bind; [apply hoare_recv_x224|]. intros pl2 Hpl2.
  eapply hoare_bind; [apply expect_raw_ok; exact Hpl2|]. intros b2 Hb2.
  eapply hoare_bind; [apply hoare_lift; apply pure_nocrash; apply read_attach_user_confirm_nocrash|]. intros uid _.
  eapply hoare_bind; [apply join_channels_ok|]. intros _ _.
  apply hoare_ret. exact I.
Qed.

Lemma sec_connect_ok c uid io v5 : hoare (sec_connect p c uid io v5) (fun _ => True).
Proof.
  unfold sec_connect.
  eapply hoare_bind; [apply hoare_emit|]. intros _ _.
  eapply hoare_bind; [apply hoare_recv_x224|]. intros pl Hpl.
  pose proof (mcs_read_any_ok uid io pl Hpl) as Hm.
  eapply hoare_bind with (Q := wf_payload).
  { eapply hoare_weaken; [apply hoare_lift; apply pure_nocrash|].
    - destruct (mcs_read_any uid io pl); auto; contradiction.
    - intros pl' Hx. cbn [fst] in Hx. rewrite Hx in Hm. exact Hm. }
  intros pl' Hpl'.
  eapply hoare_bind; [apply expect_raw_ok; exact Hpl'|]. intros b Hb.
  eapply hoare_weaken; [apply hoare_lift; apply sec_license_ok; exact Hb|]. auto.
Qed.

Lemma connect_ok c : hoare (connect p ber_parse trusted tls_start cssp_run c) (fun _ => True).
Proof.
  unfold connect.
  eapply hoare_bind; [apply x224_connect_ok|]. intros sel _.
  eapply hoare_bind; [apply mcs_connect_ok|]. intros us _.
  eapply hoare_bind; [apply sec_connect_ok|]. intros _ _.
  apply hoare_ret. exact I.
Qed.

Theorem connect_total c cs :
  wf_stream cs -> nocrash (fst (run_connect p ber_parse trusted tls_start cssp_run c cs)).
Proof.
  intros H. unfold run_connect. apply (connect_ok c (mkSt cs [] false 0)). split; [exact H|unfold alloc_limit; cbn; lia].
Qed.

Theorem connect_alloc c cs :
  wf_stream cs -> s_alloc (snd (run_connect p ber_parse trusted tls_start cssp_run c cs)) <= alloc_limit.
Proof.
  intros H. unfold run_connect.
  destruct (connect_ok c (mkSt cs [] false 0)) as [[_ Ha] _]; [split; [exact H|unfold alloc_limit; cbn; lia]|exact Ha].
Qed.

End Composition.

(* ------------------------------------------------------------------ the assumptions on external code are satisfiable *)
Definition guard_bytes (f : bytes -> outcome bytes) (b : bytes) : outcome bytes :=
  match f b with
  | Ok ud => if forallb is_byte ud then Ok ud else Err EAsn1
  | Err e => Err e
  | _ => Err EAsn1
  end.

Lemma guard_bytes_ok f : oracle_bytes_ok (guard_bytes f).
Proof.
  intros b _. unfold guard_bytes. destruct (f b) as [ud|e| |]; auto.
  destruct (forallb is_byte ud) eqn:E; auto. apply forallb_is_byte. exact E.
Qed.

Lemma no_tls_ok : oracle_stream_ok no_tls.
Proof. intros cs _. exact I. Qed.

Lemma no_cssp_ok : oracle_cssp_ok no_cssp.
Proof. intros cs _. exact I. Qed.

Lemma tls_exact_ok post : oracle_stream_ok (tls_exact post).
Proof. intros cs H. unfold tls_exact. destruct (stream_eqb cs post); auto. Qed.

Lemma wf_stream_dec cs : forallb (forallb is_byte) cs = true -> wf_stream cs.
Proof.
  intros H. unfold wf_stream. apply Forall_forall. intros c Hc.
  rewrite forallb_forall in H. apply forallb_is_byte. apply H. exact Hc.
Qed.

Lemma wf_bytes_dec b : forallb is_byte b = true -> wf_bytes b.
Proof. apply forallb_is_byte. Qed.
