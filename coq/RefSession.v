(* SPECIFICATION of the server side of the RDP activation sequence (property C12), written
   from MS-RDPBCGR / T.125 / T.123 independently of the implementation model (Global.v,
   LayoutsGlobal.v, Msg.v are NOT imported):

     - the alphabet [smsg] of server messages the property quantifies over (11 letters);
     - a reference ENCODER [enc_smsg] of each letter down to the bytes of one frame:
         T.123 8          TPKT                       03 00 len(be16)
         X.224 13.7       DT TPDU                    02 F0 80
         T.125 SendDataIndication (aligned PER)      68 initiator-1001(be16) channel(be16) 70 length
         MS-RDPBCGR 2.2.8.1.1.1.1  TS_SHARECONTROLHEADER  totalLength pduType PDUSource
         MS-RDPBCGR 2.2.8.1.1.1.2  TS_SHAREDATAHEADER     shareId pad1 streamId uncompressedLength
                                                          pduType2 compressedType compressedLength
         2.2.1.13.1.1 TS_DEMAND_ACTIVE_PDU, 2.2.1.14.1 TS_SYNCHRONIZE_PDU, 2.2.1.15.1 TS_CONTROL_PDU,
         2.2.1.22.1 TS_FONT_MAP_PDU, 2.2.5.1.1 TS_SET_ERROR_INFO_PDU, 2.2.3.1 TS_DEACTIVATE_ALL_PDU,
         2.2.9.1.2 fast-path update PDU (RefFastPath.v);
     - the reference AUTOMATON of MS-RDPBCGR 1.3.1.1 as the property states it, the history
       functions [answered] / [window] / [current_share] and the expected client output;
     - a declarative (regular-expression like) reading of "awaits activation" and "inside the
       window" over whole histories, defined without the transition table. *)
From RdpV Require Import Base RefFraming RefFastPath RefInput.
Open Scope list_scope.
Open Scope N_scope.

(* ------------------------------------------------------------------ the alphabet *)
(* a capability set: capabilitySetType and the bytes after the 4-byte header; any type (known to
   the client or not), any body *)
Definition capset := (N * bytes)%type.

Inductive smsg :=
| DemandActive (share_id : N) (caps : list capset)
| Synchronize
| ControlCooperate
| ControlGranted
| ControlOther (action : N)          (* any action but cooperate (4) and granted-control (2) *)
| FontMap
| SetErrorInfo (code : N)
| UnknownData (pdu_type2 : N) (body : bytes)   (* any pduType2 but synchronize / control / font-map / set-error-info *)
| DeactivateAll
| FpBitmap (rects : list rect)
| FpOther (code : N) (body : bytes). (* any fast-path update code but bitmap, arbitrary update data *)

(* everything else a server chooses when it builds the frame of a letter; the client must not
   depend on any of it except the channel *)
Record ids := mkSrv {
  sv_initiator : N;      (* MCS initiator of the indication: the server's user id (1002 in practice) *)
  sv_channel : N;        (* MCS channel: the I/O channel the client joined *)
  sv_source : N;         (* PDUSource of the share control header *)
  sv_share : N;          (* shareId of data PDUs and of deactivate-all *)
  sv_stream : N;         (* streamId of data PDUs (STREAM_LOW 1, STREAM_MED 2, STREAM_HI 4) *)
  sv_descr : bytes;      (* sourceDescriptor of demand-active / deactivate-all *)
  sv_session : N;        (* sessionId of demand-active *)
  sv_target : N;         (* targetUser of synchronize *)
  sv_grant : N;          (* grantId of control PDUs *)
  sv_control : N;        (* controlId of control PDUs *)
  sv_fp_sec : N;         (* fast-path: the two security-flag bits of fpOutputHeader *)
  sv_fp_long : bool      (* fast-path: two-byte length form *)
}.

(* ------------------------------------------------------------------ the reference encoder *)
Definition PDUTYPE_DEMANDACTIVEPDU : N := 17.   (* 0x11: type 1 | protocol version 0x10 *)
Definition PDUTYPE_DEACTIVATEALLPDU : N := 22.  (* 0x16 *)
Definition PDUTYPE_DATAPDU : N := 23.           (* 0x17 *)
Definition T2_SYNCHRONIZE : N := 31.            (* 0x1F *)
Definition T2_CONTROL : N := 20.                (* 0x14 *)
Definition T2_FONTMAP : N := 40.                (* 0x28 *)
Definition T2_SET_ERROR_INFO : N := 47.         (* 0x2F *)
Definition CTRL_REQUEST_CONTROL : N := 1.
Definition CTRL_GRANTED_CONTROL : N := 2.
Definition CTRL_DETACH : N := 3.
Definition CTRL_COOPERATE : N := 4.

(* X.691 10.9: length determinant, one octet up to 127, two octets (10xxxxxx xxxxxxxx) up to 16383 *)
Definition per_len (n : N) : bytes := if n <=? 127 then [n] else be16 (32768 + n).

(* T.125 SendDataIndication: choice 26 in the top six bits; initiator is a UserId (constrained
   from 1001); dataPriority high + segmentation begin|end = 0x70 *)
Definition mcs_sdi (i : ids) (user_data : bytes) : bytes :=
  [104] ++ be16 (sv_initiator i - 1001) ++ be16 (sv_channel i) ++ [112] ++ per_len (nlen user_data) ++ user_data.

Definition x224_dt (payload : bytes) : bytes := [2; 240; 128] ++ payload.

Definition slow_frame (i : ids) (user_data : bytes) : bytes := enc (Slow 0 (x224_dt (mcs_sdi i user_data))).

(* totalLength counts the header itself *)
Definition share_control (i : ids) (pdu_type : N) (body : bytes) : bytes :=
  le16 (nlen body + 6) ++ le16 pdu_type ++ le16 (sv_source i) ++ body.

(* uncompressedLength: the length of the whole share PDU (share control header, share data
   header, payload), as in the server PDUs annotated in MS-RDPBCGR 4.1; not compressed *)
Definition share_data (i : ids) (pdu_type2 : N) (payload : bytes) : bytes :=
  le32 (sv_share i) ++ [0; sv_stream i] ++ le16 (nlen payload + 18) ++ [pdu_type2; 0] ++ le16 0 ++ payload.

Definition data_pdu (i : ids) (pdu_type2 : N) (payload : bytes) : bytes :=
  share_control i PDUTYPE_DATAPDU (share_data i pdu_type2 payload).

(* TS_CAPS_SET: lengthCapability counts the 4-byte header *)
Definition enc_capset (c : capset) : bytes := le16 (fst c) ++ le16 (nlen (snd c) + 4) ++ snd c.
Definition enc_capsets (caps : list capset) : bytes := concat (map enc_capset caps).

(* lengthCombinedCapabilities counts numberCapabilities, pad2Octets and the sets *)
Definition demand_active_body (i : ids) (sid : N) (caps : list capset) : bytes :=
  le32 sid ++ le16 (nlen (sv_descr i)) ++ le16 (nlen (enc_capsets caps) + 4) ++ sv_descr i ++
  le16 (nlen caps) ++ le16 0 ++ enc_capsets caps ++ le32 (sv_session i).

Definition control_body (i : ids) (action : N) : bytes :=
  le16 action ++ le16 (sv_grant i) ++ le32 (sv_control i).

(* the user data (what the MCS indication carries) of the nine slow-path letters *)
Definition user_data (i : ids) (m : smsg) : option bytes :=
  match m with
  | DemandActive sid caps => Some (share_control i PDUTYPE_DEMANDACTIVEPDU (demand_active_body i sid caps))
  | Synchronize => Some (data_pdu i T2_SYNCHRONIZE (le16 1 ++ le16 (sv_target i)))
  | ControlCooperate => Some (data_pdu i T2_CONTROL (control_body i CTRL_COOPERATE))
  | ControlGranted => Some (data_pdu i T2_CONTROL (control_body i CTRL_GRANTED_CONTROL))
  | ControlOther a => Some (data_pdu i T2_CONTROL (control_body i a))
  | FontMap => Some (data_pdu i T2_FONTMAP (le16 0 ++ le16 0 ++ le16 3 ++ le16 4))
  | SetErrorInfo code => Some (data_pdu i T2_SET_ERROR_INFO (le32 code))
  | UnknownData t body => Some (data_pdu i t body)
  | DeactivateAll =>
      Some (share_control i PDUTYPE_DEACTIVATEALLPDU (le32 (sv_share i) ++ le16 (nlen (sv_descr i)) ++ sv_descr i))
  | FpBitmap _ | FpOther _ _ => None
  end.

Definition fp_updates_of (m : smsg) : list update :=
  match m with
  | FpBitmap rects => [UBitmap rects]
  | FpOther code body => [UOther code body]
  | _ => []
  end.

(* one letter = one frame *)
Definition enc_smsg (i : ids) (m : smsg) : bytes :=
  match user_data i m with
  | Some ud => slow_frame i ud
  | None => enc_fp_frame (sv_fp_sec i) (sv_fp_long i) (fp_updates_of m)
  end.

(* ---- what may be sent: every field can carry its value, the letter is in its class ---- *)
Definition u32 (v : N) : Prop := v < 4294967296.

Definition valid_capset (c : capset) : Prop := u16 (fst c) /\ wf_bytes (snd c) /\ nlen (snd c) + 4 < 65536.

Definition valid_ids (i : ids) : Prop :=
  1001 <= sv_initiator i <= 65535 /\ u16 (sv_channel i) /\ u16 (sv_source i) /\ u32 (sv_share i) /\ sv_stream i < 256 /\
  wf_bytes (sv_descr i) /\ u16 (nlen (sv_descr i)) /\ u32 (sv_session i) /\ u16 (sv_target i) /\
  u16 (sv_grant i) /\ u32 (sv_control i) /\ sv_fp_sec i < 4.

(* one PER length determinant without fragmentation describes at most 16383 octets *)
Definition PER_MAX : N := 16383.

Definition valid_smsg (i : ids) (m : smsg) : Prop :=
  match m with
  | DemandActive sid caps => u32 sid /\ Forall valid_capset caps
  | ControlOther a => u16 a /\ a <> CTRL_COOPERATE /\ a <> CTRL_GRANTED_CONTROL
  | SetErrorInfo code => u32 code
  | UnknownData t body =>
      t < 256 /\ t <> T2_SYNCHRONIZE /\ t <> T2_CONTROL /\ t <> T2_FONTMAP /\ t <> T2_SET_ERROR_INFO /\ wf_bytes body
  | _ => True
  end /\
  match user_data i m with
  | Some ud => nlen ud <= PER_MAX
  | None => valid_fp_frame (sv_fp_sec i) (sv_fp_long i) (fp_updates_of m)
  end.

(* ------------------------------------------------------------------ the reference automaton *)
(* what the client waits for (MS-RDPBCGR 1.3.1.1: demand active, then the server's half of the
   connection finalization); [Active] = between the server's font map and the next deactivate all *)
Inductive rstate := WaitDemandActive | WaitSynchronize | WaitCooperate | WaitGranted | WaitFontMap | Active.

Definition ref_step (q : rstate) (m : smsg) : rstate :=
  match q, m with
  | WaitDemandActive, DemandActive _ _ => WaitSynchronize
  | WaitSynchronize, Synchronize => WaitCooperate
  | WaitCooperate, ControlCooperate => WaitGranted
  | WaitGranted, ControlGranted => WaitFontMap
  | WaitFontMap, FontMap => Active
  | Active, DeactivateAll => WaitDemandActive
  | _, _ => q
  end.

Definition ref_run (q : rstate) (h : list smsg) : rstate := fold_left ref_step h q.
Definition ref_state (h : list smsg) : rstate := ref_run WaitDemandActive h.

(* the client awaits activation / is inside the input window after history h *)
Definition awaits (h : list smsg) : bool := match ref_state h with WaitDemandActive => true | _ => false end.
Definition window (h : list smsg) : bool := match ref_state h with Active => true | _ => false end.

(* the share ids of the demand-actives received while the client awaits activation, in order *)
Definition answers (q : rstate) (m : smsg) : list N :=
  match q, m with WaitDemandActive, DemandActive sid _ => [sid] | _, _ => [] end.
Fixpoint answered_from (q : rstate) (h : list smsg) : list N :=
  match h with
  | [] => []
  | m :: tl => answers q m ++ answered_from (ref_step q m) tl
  end.
Definition answered (h : list smsg) : list N := answered_from WaitDemandActive h.

(* the share the client is in: that of the last answered demand-active *)
Definition current_share (h : list smsg) : N := last (answered h) 0.

(* ---- expected client output ---- *)
Inductive cpdu :=
| CConfirmActive (share : N)
| CSynchronize (share : N)
| CCooperate (share : N)
| CRequestControl (share : N)
| CFontList (share : N).

(* MS-RDPBCGR 1.3.1.1: confirm active, then the client's half of the connection finalization *)
Definition finalization_sequence (share : N) : list cpdu :=
  [CConfirmActive share; CSynchronize share; CCooperate share; CRequestControl share; CFontList share].

(* everything the client writes in answer to the letters of history h *)
Definition expected_output (h : list smsg) : list cpdu := flat_map finalization_sequence (answered h).

(* what an input attempt made after history h must put on the wire (client user id [uid], I/O channel
   [chan]): inside the window exactly one slow-path input PDU (RefInput.v) in the current share,
   outside nothing *)
Definition expected_input_frames (uid chan : N) (h : list smsg) (e : rinput) : list bytes :=
  if window h then [ref_input_frame uid chan (current_share h) e] else [].

(* the rectangles the application must be told about when letter m arrives after history h *)
Definition expected_bitmaps (h : list smsg) (m : smsg) : list rect_seen :=
  if window h then expected_seen (fp_updates_of m) else [].

(* ------------------------------------------------------------------ the same, read off whole histories *)
(* A declarative reading of the property's two history predicates, without the transition
   table: [awaiting h] -- no demand-active has arrived since the start or since the deactivate-all
   that closed a window; [in_window h] -- since a demand-active that arrived while awaiting, the
   server's synchronize, cooperate, granted-control and font-map have arrived in this order (each
   one the first of its kind after the previous step), and no deactivate-all since the font-map. *)
Definition demand_active_letter (m : smsg) : Prop := match m with DemandActive _ _ => True | _ => False end.

Inductive awaiting : list smsg -> Prop :=
| aw_start : forall h, Forall (fun m => ~ demand_active_letter m) h -> awaiting h
| aw_deactivated : forall h1 h2,
    in_window h1 -> Forall (fun m => ~ demand_active_letter m) h2 -> awaiting (h1 ++ DeactivateAll :: h2)
with in_window : list smsg -> Prop :=
| win_opened : forall h0 sid caps a b c d e,
    awaiting h0 ->
    Forall (fun m => m <> Synchronize) a -> Forall (fun m => m <> ControlCooperate) b ->
    Forall (fun m => m <> ControlGranted) c -> Forall (fun m => m <> FontMap) d ->
    Forall (fun m => m <> DeactivateAll) e ->
    in_window (h0 ++ DemandActive sid caps :: a ++ Synchronize :: b ++ ControlCooperate :: c ++
               ControlGranted :: d ++ FontMap :: e).
