(* Model of a WHOLE connection as the application drives it:
     Connector::connect          = Connect.v's connect (x224 negotiation, TLS, CredSSP, MCS connect,
                                   attach, channel joins, client info, licence) over the chunked stream,
     global::Client::new(user id, I/O channel id of the server network data, ...),
     a loop of RdpClient::read   = x224 read from the SAME stream, mcs::Client::read, global::Client::read
                                   (Global.v: activation state machine, confirm-active + finalization),
     RdpClient::shutdown         = disconnect-provider ultimatum, then the link is shut down.
   The result is the outcome with the stage it was reached in, and the transport EVENT TRACE at byte
   level: every unit the client wrote on the raw transport or inside TLS, in order, and the TLS
   handshake.  The connect phase is Connect.v's message-level trace rendered to bytes by the emitters
   of ClientPdus.v (what each abstract message stands for, as a function of the configuration and of
   the identifiers it carries); the session phase is byte level in Global.v already.
   External code stays a Section variable: BER parser, TLS handshake, CredSSP exchange (CsspGate.v
   supplies an executable instance in FlowRun.v), and the bytes of the CredSSP messages.
   No proofs here. *)
From RdpV Require Import Base Msg LayoutsGlobal LayoutsConnect Link Tpkt Global Connect ClientPdus.
Open Scope list_scope.
Open Scope N_scope.

(* ------------------------------------------------------------------ configuration *)
Record fcfg := mkFcfg {
  f_pdu : ClientPdus.config;   (* offered protocols (1 = NLA off, 3 = NLA on), restricted admin, auto logon, screen,
                                  layout, client name, domain / user / password *)
  f_user_first : bool;         (* HashMap iteration order of {"global","user"} *)
  f_check_cert : bool          (* check_certificate *)
}.

Definition units (s : ustring) : N := nlen (utf16 s).

(* the configuration as Connect.v sees it; Connector always supplies an authenticator *)
Definition conn_cfg (c : fcfg) : Connect.config :=
  let k := f_pdu c in
  mkConfig (c_offered k) true (c_ram k) (f_user_first c) (units (c_domain k) + units (c_user k) + units (c_password k))
           (f_check_cert c).

(* Connector::connect hands empty strings to sec::connect in restricted admin mode *)
Definition info_cfg (c : fcfg) : ClientPdus.config :=
  let k := f_pdu c in
  if c_ram k then mkCfg (c_offered k) (c_ram k) (c_autologon k) (c_width k) (c_height k) (c_layout k) (c_name k) [] [] []
  else k.

(* ------------------------------------------------------------------ byte-level events *)
Inductive fev :=
| FRaw (b : bytes)          (* a unit written on the raw transport *)
| FTlsStart (ok : bool)     (* the TLS handshake *)
| FTls (b : bytes)          (* a unit written inside TLS *)
| FBad.                     (* a message that cannot be put on the wire (frame beyond the 16-bit TPKT length) *)

Definition funit (e : fev) : option bytes :=
  match e with FRaw b | FTls b => Some b | _ => None end.
Fixpoint funits (l : list fev) : list bytes :=
  match l with
  | [] => []
  | e :: tl => match funit e with Some b => b :: funits tl | None => funits tl end
  end.

Inductive stage := StConnect | StRead (i : nat) | StShutdown.

Record flow_result := mkFlow {
  fl_res : outcome unit;
  fl_stage : stage;            (* where the run ended (StShutdown with Ok = the whole run succeeded) *)
  fl_trace : list fev;
  fl_session : option session  (* the global channel's state when the run ended (None: not connected) *)
}.

Section Flow.
Variable p : prof.
Variable ber_parse : bytes -> outcome bytes.
Variable trusted : bool.
Variable tls_start : stream -> outcome stream.
Variable cssp_run : stream -> nat * outcome stream.
Variable cssp_msgs : list bytes.     (* the TSRequests CredSSP writes, in order (for rendering only) *)

(* ------------------------------------------------------------------ rendering the connect phase *)
Definition of_outcome (o : outcome bytes) : option bytes :=
  match o with Ok b => Some b | _ => None end.

(* the bytes an abstract message of Connect.v stands for *)
Definition render_msg (c : fcfg) (m : cmsg) : option bytes :=
  match m with
  | CR _ _ => of_outcome (emit_cr p (f_pdu c))
  | CI _ selected => of_outcome (emit_connect_initial p (f_pdu c) selected)
  | ED => of_outcome (emit_erect_domain)
  | AU => of_outcome (emit_attach_user)
  | CJ ini ch => of_outcome (emit_channel_join (ini + 1001) ch)
  | INFO ini ch len =>
      (* the message length tells whether the extended info was appended (server version 5+) *)
      let v := if len =? info_len (conn_cfg c) true then RDP_VERSION_5_PLUS else 0 in
      of_outcome (emit_client_info p false (info_cfg c) (mkIds 0 v (ini + 1001) 0 ch))
  | CSSP => None
  end.

Definition wrap (tls : bool) (o : option bytes) : fev :=
  match o with Some b => if tls then FTls b else FRaw b | None => FBad end.

Fixpoint render_trace (c : fcfg) (cssp : list bytes) (ev : list tev) : list fev :=
  match ev with
  | [] => []
  | TlsStart ok :: tl => FTlsStart ok :: render_trace c cssp tl
  | RawWrite CSSP :: tl => wrap false (hd_error cssp) :: render_trace c (List.tl cssp) tl
  | TlsWrite CSSP :: tl => wrap true (hd_error cssp) :: render_trace c (List.tl cssp) tl
  | RawWrite m :: tl => wrap false (render_msg c m) :: render_trace c cssp tl
  | TlsWrite m :: tl => wrap true (render_msg c m) :: render_trace c cssp tl
  end.

(* ------------------------------------------------------------------ the session *)
(* tpkt::Client::write refuses a frame whose length does not fit 16 bits; the frames before it are out *)
Fixpoint send_frames (tls : bool) (fs : list bytes) : outcome unit * list fev :=
  match fs with
  | [] => (Ok tt, [])
  | f :: tl =>
      if 65535 <? nlen f then (Err EInvalidSize, [])
      else let (o, evs) := send_frames tls tl in (o, wrap tls (Some f) :: evs)
  end.

(* RdpClient::read on the stream: one frame, through mcs and the global channel *)
Definition session_read (tls : bool) (s : session) (cs : stream) : outcome unit * session * list fev * stream :=
  match x224_read cs with
  | (Ok pl, cs') =>
      let r := match mcs_read s pl with
               | Ok pl' => global_read p s pl'
               | Err e => done s (Err e)
               | Panic => done s Panic
               | Spin => done s Spin
               end in
      let (ow, evs) := send_frames tls (r_wire r) in
      (match ow with Ok _ => r_out r | other => other end, r_session r, evs, cs')
  | (Err e, cs') => (Err e, s, [], cs')
  | (Panic, cs') => (Panic, s, [], cs')
  | (Spin, cs') => (Spin, s, [], cs')
  end.

(* the application's loop: [n] reads, stopping at the first error; k = reads already done *)
Fixpoint session_loop (tls : bool) (n k : nat) (s : session) (cs : stream) (acc : list fev)
  : outcome unit * nat * session * list fev * stream :=
  match n with
  | O => (Ok tt, k, s, acc, cs)
  | S n' =>
      match session_read tls s cs with
      | (Ok _, s', evs, cs') => session_loop tls n' (S k) s' cs' (acc ++ evs)
      | (o, s', evs, cs') => (o, k, s', acc ++ evs, cs')
      end
  end.

(* RdpClient::shutdown: the ultimatum, then Link::shutdown (close_notify; nothing on a raw link) *)
Definition shutdown_evs (tls : bool) : list fev := [wrap tls (of_outcome emit_disconnect)].

(* ------------------------------------------------------------------ the whole run *)
Definition flow (c : fcfg) (nreads : nat) (cs : stream) : flow_result :=
  match run_connect p ber_parse trusted tls_start cssp_run (conn_cfg c) cs with
  | (Ok (uid, sd), st) =>
      let k := f_pdu c in
      let tr := render_trace c cssp_msgs (s_ev st) in
      let s0 := init_session_io uid (global_id sd) (c_width k) (c_height k) (c_layout k) (utf8 (c_name k)) in
      match session_loop (s_tls st) nreads 0 s0 (s_in st) [] with
      | (Ok _, _, s', evs, _) => mkFlow (Ok tt) StShutdown (tr ++ evs ++ shutdown_evs (s_tls st)) (Some s')
      | (o, i, s', evs, _) => mkFlow o (StRead i) (tr ++ evs) (Some s')
      end
  | (Err e, st) => mkFlow (Err e) StConnect (render_trace c cssp_msgs (s_ev st)) None
  | (Panic, st) => mkFlow Panic StConnect (render_trace c cssp_msgs (s_ev st)) None
  | (Spin, st) => mkFlow Spin StConnect (render_trace c cssp_msgs (s_ev st)) None
  end.

End Flow.
