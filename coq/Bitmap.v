(* Model of core/event.rs BitmapEvent::decompress and codec/rle.rs rgb565torgb32 as
   repaired: uncompressed data is length-checked (InvalidSize), uncompressed 16 bpp
   offsets are usize, uncompressed 32 bpp rows are flipped to top-down.

   Results carry the allocation log: every `vec![0; n]` appends its size in BYTES.
   `usize` is 64 bits; `vec!` panics ("capacity overflow") above isize::MAX bytes.
   No proofs in this file. *)
From RdpV Require Import Base Buf Rle16 Rle32.

Definition M (A : Type) : Type := (list N * outcome A)%type.
Definition mbind {A B} (m : M A) (f : A -> M B) : M B :=
  match m with
  | (l, Ok a) => let '(l', r) := f a in (l ++ l', r)
  | (l, Err e) => (l, Err e)
  | (l, Panic) => (l, Panic)
  | (l, Spin) => (l, Spin)
  end.
Definition lift {A} (o : outcome A) : M A := ([], o).
Notation "x <~ e ;; f" := (mbind e (fun x => f)) (at level 61, e at next level, right associativity).

(* vec![0 as T; n] with size_of::<T>() = sz *)
Definition alloc (n sz : N) : M buf :=
  if n * sz <? 2 ^ 63 then ([n * sz], Ok (bmake n)) else ([], Panic).

Section Bitmap.
Variable p : prof.

(* ---- rgb565torgb32(input, width, height) *)

(* one pixel: index = i * width + j; four stores *)
Definition widen_px (input res : buf) (width i j : N) : outcome buf :=
  iw <- mul_w p 64 i width;;
  index <- add_w p 64 iw j;;
  v <- bget input index;;
  i4 <- mul_w p 64 index 4;;
  i43 <- add_w p 64 i4 3;;
  r1 <- bset res i43 255;;
  (* (((((v >> 11) & 0x1f) * 527) + 23) >> 6) as u8, in u16 arithmetic *)
  m2 <- mul_w p 16 ((v / 2048) mod 32) 527;;
  a2 <- add_w p 16 m2 23;;
  i4' <- mul_w p 64 index 4;;
  i42 <- add_w p 64 i4' 2;;
  r2 <- bset r1 i42 ((a2 / 64) mod 256);;
  m1 <- mul_w p 16 ((v / 32) mod 64) 259;;
  a1 <- add_w p 16 m1 33;;
  i4'' <- mul_w p 64 index 4;;
  i41 <- add_w p 64 i4'' 1;;
  r3 <- bset r2 i41 ((a1 / 64) mod 256);;
  m0 <- mul_w p 16 (v mod 32) 527;;
  a0 <- add_w p 16 m0 23;;
  i40 <- mul_w p 64 index 4;;
  bset r3 i40 ((a0 / 64) mod 256).

(* for j in 0..width *)
Fixpoint widen_cols (n : nat) (input res : buf) (width i j : N) : outcome buf :=
  match n with
  | O => Ok res
  | S k => r <- widen_px input res width i j;; widen_cols k input r width i (j + 1)
  end.
(* for i in 0..height *)
Fixpoint widen_rows (n : nat) (input res : buf) (width i : N) : outcome buf :=
  match n with
  | O => Ok res
  | S k => r <- widen_cols (N.to_nat width) input res width i 0;; widen_rows k input r width (i + 1)
  end.

Definition rgb565torgb32 (input : buf) (width height : N) : M buf :=
  n <~ lift (wh <- mul_w p 64 width height;; mul_w p 64 wh 4);;
  res <~ alloc n 1;;
  lift (widen_rows (N.to_nat height) input res width 0).

(* ---- uncompressed 16 bpp: flip rows, little-endian pixels *)

Definition raw16_px (data res : buf) (width height i j : N) : outcome buf :=
  (* let src = ((height - i - 1) * width + j) * 2; *)
  h1 <- sub_w p 64 height i;;
  h2 <- sub_w p 64 h1 1;;
  hw <- mul_w p 64 h2 width;;
  hwj <- add_w p 64 hw j;;
  src <- mul_w p 64 hwj 2;;
  (* result[i * width + j] = (data[src + 1] as u16) << 8 | data[src] as u16 *)
  iw <- mul_w p 64 i width;;
  dst <- add_w p 64 iw j;;
  s1 <- add_w p 64 src 1;;
  hi <- bget data s1;;
  lo <- bget data src;;
  bset res dst (of_le16 lo hi mod 65536).

Fixpoint raw16_cols (n : nat) (data res : buf) (width height i j : N) : outcome buf :=
  match n with
  | O => Ok res
  | S k => r <- raw16_px data res width height i j;; raw16_cols k data r width height i (j + 1)
  end.
Fixpoint raw16_rows (n : nat) (data res : buf) (width height i : N) : outcome buf :=
  match n with
  | O => Ok res
  | S k => r <- raw16_cols (N.to_nat width) data res width height i 0;; raw16_rows k data r width height (i + 1)
  end.

(* ---- uncompressed 32 bpp: flip rows *)

Fixpoint raw32_rows (n : nat) (data res : buf) (stride height i : N) : outcome buf :=
  match n with
  | O => Ok res
  | S k =>
      (* let src = (height - i - 1) * stride;
         result[i * stride..(i + 1) * stride].copy_from_slice(&data[src..src + stride]) *)
      h1 <- sub_w p 64 height i;;
      h2 <- sub_w p 64 h1 1;;
      src <- mul_w p 64 h2 stride;;
      a <- mul_w p 64 i stride;;
      i1 <- add_w p 64 i 1;;
      b <- mul_w p 64 i1 stride;;
      d <- add_w p 64 src stride;;
      r <- copy_slice res a b data src d;;
      raw32_rows k data r stride height (i + 1)
  end.

(* ---- BitmapEvent::decompress; width, height, bpp are u16 *)

Definition decompress (width height bpp : N) (is_compress : bool) (data : bytes) : M bytes :=
  if bpp =? 32 then
    if is_compress then
      n <~ lift (wh <- mul_w p 64 width height;; mul_w p 64 wh 4);;
      result <~ alloc n 1;;
      r <~ lift (rle32 p width height data result);;
      lift (Ok (to_list r))
    else
      size <~ lift (wh <- mul_w p 64 width height;; mul_w p 64 wh 4);;
      if nlen data <? size then lift (Err EInvalidSize)
      else
        stride <~ lift (mul_w p 64 width 4);;
        result <~ alloc size 1;;
        r <~ lift (raw32_rows (N.to_nat height) (of_list data) result stride height 0);;
        lift (Ok (to_list r))
  else if bpp =? 16 then
    r16 <~ (if is_compress then
              n <~ lift (wh <- mul_w p 64 width height;; mul_w p 64 wh 2);;
              result <~ alloc n 2;;
              lift (rle16 p width height data result)
            else
              len <~ lift (wh <- mul_w p 64 width height;; mul_w p 64 wh 2);;
              if nlen data <? len then lift (Err EInvalidSize)
              else
                n <~ lift (mul_w p 64 width height);;
                result <~ alloc n 2;;
                lift (raw16_rows (N.to_nat height) (of_list data) result width height 0));;
    r <~ rgb565torgb32 r16 width height;;
    lift (Ok (to_list r))
  else lift (Err ENotImplemented).

End Bitmap.
