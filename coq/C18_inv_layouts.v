(* C18, write-after-read for the concrete layouts the client READS.
     (a) [always_tight]: a decidable class of templates -- flat (no Option, no Array) and every
         field a Size closure can name is a read-to-end block -- on which read drops nothing,
         whatever the input: what is read is written back verbatim.  Share data header,
         capability set (+ every capability body without an optional field), fast-path update,
         bitmap data (+ compression header), licence preamble / blob / error message, X.224
         connection confirm, GCC block header and security data, security header, NTLM
         CHALLENGE, AV pair, message signature, deactivate-all, control / font-map / error-info.
     (b) the layouts with an optional field or an array (share control header, demand active,
         GCC server core / network data, fast-path bitmap update, synchronize, colour pointer,
         virtual-channel capability): instances of the general theorem (tight <-> verbatim),
         with a tight and a loose input each, by computation. *)
From RdpV Require Import Base Msg MsgInd MsgTheory MsgSafe MsgShape LayoutsGlobal LayoutsConnect LayoutsNtlm
  C18_inv_base C18_inv_msg.
Open Scope string_scope.
Open Scope list_scope.
Open Scope N_scope.

(* ================================================================ (a) templates that never drop a byte *)
(* a successful read leaves nothing: Vec<u8> read-to-end, possibly under Check / DynOption *)
Fixpoint greedy (t : msg) : bool :=
  match t with
  | MBytes [] => true
  | MCheck m' => greedy m'
  | MDyn m' _ => greedy m'
  | _ => false
  end.

Definition size_target (v : msg) : option string :=
  match v with MDyn _ (CloSize f _) => Some f | _ => None end.

Fixpoint size_targets (fs : list (string * msg)) : list string :=
  match fs with
  | [] => []
  | (_, v) :: tl => match size_target v with Some f => f :: size_targets tl | None => size_targets tl end
  end.

Fixpoint always_tight (t : msg) : bool :=
  match t with
  | MU8 _ | MU16 _ _ | MU32 _ _ | MBytes _ => true
  | MTrame l => (fix go (l : list msg) : bool := match l with [] => true | x :: tl => always_tight x && go tl end) l
  | MComp fs =>
      (fix go (targets : list string) (fs : list (string * msg)) : bool :=
         match fs with
         | [] => true
         | (name, v) :: tl => always_tight v && (negb (mem name targets) || greedy v) && go targets tl
         end) (size_targets fs) fs
  | MCheck m' => always_tight m'
  | MDyn m' _ => always_tight m'
  | MOpt _ => false
  | MArray _ _ => false
  end.

Fixpoint at_list (l : list msg) : bool := match l with [] => true | x :: tl => always_tight x && at_list tl end.
Fixpoint at_fields (targets : list string) (fs : list (string * msg)) : bool :=
  match fs with
  | [] => true
  | (name, v) :: tl => always_tight v && (negb (mem name targets) || greedy v) && at_fields targets tl
  end.
Lemma at_trame l : always_tight (MTrame l) = at_list l.
Proof. induction l as [|x tl IH]; [reflexivity|]. cbn [at_list]. rewrite <- IH. reflexivity. Qed.
Lemma at_comp fs : always_tight (MComp fs) = at_fields (size_targets fs) fs.
Proof.
  cbn [always_tight]. generalize (size_targets fs). intros targets.
  induction fs as [|[n v] tl IH]; [reflexivity|]. cbn [at_fields]. rewrite <- IH. reflexivity.
Qed.

Lemma at_flat : forall t, always_tight t = true -> flat t = true.
Proof.
  induction t using msg_ind'; intros Ht; try reflexivity; try discriminate.
  - rewrite at_trame in Ht. rewrite flat_trame. induction l as [|x tl IH]; [reflexivity|].
    inversion H as [|? ? Hx Htl]; subst. cbn [at_list flat_list] in *. apply andb_true_iff in Ht. destruct Ht as [H1 H2].
    rewrite (Hx H1), (IH Htl H2). reflexivity.
  - rewrite at_comp in Ht. rewrite flat_comp. revert Ht. generalize (size_targets fs). intros targets Ht.
    induction fs as [|[n v] tl IH]; [reflexivity|].
    inversion H as [|? ? Hx Htl]; subst. cbn [snd] in Hx. cbn [at_fields flat_fields] in *.
    apply andb_true_iff in Ht. destruct Ht as [H1 H2]. apply andb_true_iff in H1. destruct H1 as [H1 _].
    rewrite (Hx H1), (IH Htl H2). reflexivity.
  - cbn [always_tight flat] in *. auto.
  - cbn [always_tight flat] in *. auto.
Qed.

Lemma flat_tmpl_ok : forall t, flat t = true -> tmpl_ok t = true.
Proof.
  induction t using msg_ind'; intros Ht; try reflexivity; try discriminate.
  - rewrite flat_trame in Ht. rewrite tmpl_ok_trame. induction l as [|x tl IH]; [reflexivity|].
    inversion H as [|? ? Hx Htl]; subst. cbn [tmpl_ok_list flat_list] in *. apply andb_true_iff in Ht. destruct Ht as [H1 H2].
    rewrite (Hx H1), (IH Htl H2). reflexivity.
  - rewrite flat_comp in Ht. rewrite tmpl_ok_comp. induction fs as [|[n v] tl IH]; [reflexivity|].
    inversion H as [|? ? Hx Htl]; subst. cbn [snd] in Hx. cbn [tmpl_ok_fields flat_fields] in *.
    apply andb_true_iff in Ht. destruct Ht as [H1 H2]. rewrite (Hx H1), (IH Htl H2). reflexivity.
  - cbn [tmpl_ok flat] in *. auto.
  - cbn [tmpl_ok flat] in *. auto.
Qed.

Section Tight.
Variable p : prof.

Lemma greedy_rest : forall t, greedy t = true -> forall bs m r a, read p t bs = ROk m r a -> r = [].
Proof.
  induction t using msg_ind'; intros Hg bs m' r a Hr; try discriminate; cbn [greedy] in Hg; cbn [read] in Hr.
  - destruct b; [|discriminate]. injection Hr as _ <- _. reflexivity.
  - destruct (read p t bs) as [new r0 a0|e r0 a0| |] eqn:Hrd; try discriminate.
    destruct (check_eq t new); [|discriminate]. injection Hr as _ <- _. eapply IHt; eauto.
  - destruct (read p t bs) as [new r0 a0|e r0 a0| |] eqn:Hrd; try discriminate.
    injection Hr as _ <- _. eapply IHt; eauto.
Qed.

(* a Size option answered by a field read from a flat template names that template's target *)
Lemma options_size_target v v' f n : shape v v' -> options p v' = OSize f n -> size_target v = Some f.
Proof.
  intros Hs Ho. destruct v' as [| | | | | | |inner' c'| |]; try discriminate.
  destruct v as [| | | | | | |inner c| |]; try (destruct Hs; fail); try contradiction.
  cbn [shape] in Hs. destruct Hs as [-> _]. cbn [options] in Ho. destruct c' as [|t e|c t]; try discriminate.
  - cbn [eval_clo] in Ho. destruct (eval_cexp p inner' e); try discriminate. injection Ho as -> _. reflexivity.
  - cbn [eval_clo] in Ho. destruct (num_of inner'); [destruct (eval_cond n0 c)|]; discriminate.
Qed.

Definition never_drops (t : msg) : Prop := always_tight t = true -> forall bs, slack p t bs = 0.

Lemma nd_trame l : Forall never_drops l -> at_list l = true -> forall bs, slack_trame (read p) (slack p) l bs = 0.
Proof.
  induction l as [|x tl IH]; intros HF Ht bs; [reflexivity|].
  inversion HF as [|? ? Hx Htl]; subst. cbn [at_list] in Ht. apply andb_true_iff in Ht. destruct Ht as [H1 H2].
  cbn [slack_trame]. destruct (read p x bs); try reflexivity. rewrite (Hx H1), (IH Htl H2). reflexivity.
Qed.

Lemma nd_fields targets fs : Forall (fun nv => never_drops (snd nv)) fs -> at_fields targets fs = true ->
  (forall f, In f (size_targets fs) -> mem f targets = true) ->
  forall bs skip dyn, (forall name n, dyn_lookup name dyn = Some n -> mem name targets = true) ->
    slack_comp p (read p) (slack p) fs bs skip dyn = 0.
Proof.
  induction fs as [|[name v] tl IH]; intros HF Ht Hin bs skip dyn Hdyn; [reflexivity|].
  inversion HF as [|? ? Hv Htl]; subst. cbn [snd] in Hv. cbn [at_fields] in Ht.
  apply andb_true_iff in Ht. destruct Ht as [Ht Httl]. apply andb_true_iff in Ht. destruct Ht as [Htv Hgr].
  assert (Hin' : forall f, In f (size_targets tl) -> mem f targets = true).
  { intros f Hf. apply Hin. cbn [size_targets]. destruct (size_target v); [right|]; exact Hf. }
  specialize (IH Htl Httl Hin').
  cbn [slack_comp]. destruct (mem name skip); [apply IH; exact Hdyn|].
  destruct (read_field (read p) v bs (dyn_lookup name dyn)) as [v' r a|e r a| |] eqn:Hrf; try reflexivity.
  assert (Hsf : slack_field (read p) (slack p) v bs (dyn_lookup name dyn) = 0).
  { unfold slack_field. destruct (dyn_lookup name dyn) as [n|] eqn:Hd; [|apply Hv; exact Htv].
    apply Hdyn in Hd. rewrite Hd in Hgr. cbn [negb orb] in Hgr.
    destruct (take (N.to_nat n) bs) as [[local r0]|]; [|reflexivity].
    destruct (read p v local) as [v1 lft a1|? ? ?| |] eqn:Hrd; try reflexivity.
    rewrite (Hv Htv), (greedy_rest v Hgr _ _ _ _ Hrd). reflexivity. }
  rewrite Hsf.
  pose proof (read_field_shape p v (read_shape p v) (at_flat v Htv) _ _ _ _ _ Hrf) as Hsh.
  destruct (options p v') as [|f|f n|] eqn:Ho; try reflexivity; rewrite IH; try reflexivity; try exact Hdyn.
  intros nm k. cbn [dyn_lookup]. destruct (String.eqb f nm) eqn:E; [|apply Hdyn].
  intros _. apply String.eqb_eq in E. subst nm. apply Hin. cbn [size_targets].
  rewrite (options_size_target v v' f n Hsh Ho). left. reflexivity.
Qed.

Lemma mem_in f l : In f l -> mem f l = true.
Proof.
  induction l as [|x l IH]; intros H; [contradiction|]. cbn [mem]. destruct H as [->|H].
  - rewrite String.eqb_refl. reflexivity.
  - rewrite (IH H). apply orb_true_r.
Qed.

Theorem never_drops_all : forall t, never_drops t.
Proof.
  induction t using msg_ind'; intros Ht bs; try reflexivity; try discriminate.
  - rewrite at_trame in Ht. cbn [slack]. apply nd_trame; assumption.
  - rewrite at_comp in Ht. cbn [slack]. apply (nd_fields (size_targets fs)); try assumption.
    + intros f. apply mem_in.
    + intros name n Hd. discriminate.
  - cbn [always_tight] in Ht. cbn [slack]. apply IHt. exact Ht.
  - cbn [always_tight] in Ht. cbn [slack]. apply IHt. exact Ht.
Qed.
End Tight.

(* VERBATIM: on an always-tight template, whatever is read is written back exactly *)
Theorem always_tight_inverse : forall p t bs m rest a, always_tight t = true -> all_bytes bs = true ->
  read p t bs = ROk m rest a -> exists b, write p m = Some b /\ mlength p m = Some (nlen b) /\ b ++ rest = bs.
Proof.
  intros p t bs m rest a Ht Hb Hr.
  destruct (write_read p t bs m rest a (flat_tmpl_ok t (at_flat t Ht)) Hr) as (b & Hw & Hl & _ & Hiff).
  exists b. split; [exact Hw|]. split; [exact Hl|]. apply (Hiff Hb). unfold tight.
  rewrite (never_drops_all p t Ht bs). reflexivity.
Qed.

(* the flat layouts the client reads *)
Definition verbatim_layouts : list msg :=
  [ share_data_header_t; capability_set_t; ts_fp_update; ts_bitmap_data; ts_cd_header;
    ts_deactivate_all_pdu; ts_control_pdu 0; ts_font_map_pdu; ts_set_error_info_pdu;
    ts_general_capability_set 0; ts_bitmap_capability_set 0 0 0; ts_order_capability_set 2;
    ts_bitmap_cache_capability_set; ts_pointer_capability_set; ts_input_capability_set 0 1036;
    ts_brush_capability_set; ts_glyph_capability_set; ts_offscreen_capability_set; ts_sound_capability_set;
    ts_multifragment_update_capability_ts;
    x224_connection_pdu_t; block_header_t; server_security_data; security_header;
    preamble; license_binary_blob; licensing_error_message;
    challenge_message; av_pair; message_signature_ex_t ].

Lemma verbatim_layouts_tight : forallb always_tight verbatim_layouts = true.
Proof. vm_compute. reflexivity. Qed.

Theorem verbatim_layouts_inverse : forall p t bs m rest a, In t verbatim_layouts -> all_bytes bs = true ->
  read p t bs = ROk m rest a -> exists b, write p m = Some b /\ mlength p m = Some (nlen b) /\ b ++ rest = bs.
Proof.
  intros p t bs m rest a Hin. apply always_tight_inverse.
  pose proof verbatim_layouts_tight as H. rewrite forallb_forall in H. apply H. exact Hin.
Qed.

(* ================================================================ (b) layouts with an optional field or an array *)
Definition optional_layouts : list msg :=
  [ share_control_header_t; ts_demand_active_pdu; LayoutsConnect.server_core_data; LayoutsConnect.server_network_data;
    ts_fp_update_bitmap; ts_synchronize_pdu 0; ts_colorpointerattribute; ts_virtualchannel_capability_set ].

Lemma optional_layouts_ok : forallb tmpl_ok optional_layouts = true.
Proof. vm_compute. reflexivity. Qed.

Theorem optional_layouts_inverse : forall p t bs m rest a, In t optional_layouts -> all_bytes bs = true ->
  read p t bs = ROk m rest a ->
  exists b, write p m = Some b /\ mlength p m = Some (nlen b) /\
    nlen b + slack p t bs + nlen rest = nlen bs /\ (b ++ rest = bs <-> tight p t bs = true).
Proof.
  intros p t bs m rest a Hin Hb Hr.
  pose proof optional_layouts_ok as H. rewrite forallb_forall in H.
  destruct (write_read p t bs m rest a (H t Hin) Hr) as (b & Hw & Hl & Hc & Hiff).
  exists b. repeat split; auto; apply (Hiff Hb).
Qed.

(* executable form of the statement, for the examples *)
Definition rewrites (p : prof) (t : msg) (bs : bytes) : option (bool * bool) :=
  match read p t bs with
  | ROk m rest _ => match write p m with
                    | Some b => Some (bytes_eqb (b ++ rest) bs, tight p t bs)
                    | None => None
                    end
  | _ => None
  end.

(* share control header: 4 header octets, optional PDUSource, message sized by totalLength - 6.
   Tight with PDUSource present; with exactly ONE octet after pduType that octet is consumed by
   the failed PDUSource read and dropped. *)
Example share_control_examples :
  rewrites Debug share_control_header_t [8; 0; 23; 0; 234; 3; 170; 187; 204] = Some (true, true) /\
  rewrites Debug share_control_header_t [6; 0; 23; 0] = Some (true, true) /\
  rewrites Debug share_control_header_t [6; 0; 23; 0; 234] = Some (false, false).
Proof. vm_compute. repeat split. Qed.

(* server core data: tight on 4, 8 or >= 12 octets; 5..7 and 9..11 octets lose the partial field *)
Example server_core_examples :
  rewrites Debug LayoutsConnect.server_core_data [4; 0; 8; 0] = Some (true, true) /\
  rewrites Debug LayoutsConnect.server_core_data [4; 0; 8; 0; 1; 0; 0; 0] = Some (true, true) /\
  rewrites Debug LayoutsConnect.server_core_data [4; 0; 8; 0; 1; 0; 0; 0; 2; 0; 0; 0; 170] = Some (true, true) /\
  rewrites Debug LayoutsConnect.server_core_data [4; 0; 8; 0; 1; 0] = Some (false, false) /\
  rewrites Debug LayoutsConnect.server_core_data [4; 0; 8; 0; 1; 0; 0; 0; 2] = Some (false, false).
Proof. vm_compute. repeat split. Qed.

(* server network data: the id array is read inside a window of 2 * count octets, always tiled
   exactly by the 16-bit ids: tight (the pad of an odd count stays in [rest]) *)
Example server_network_examples :
  rewrites Debug LayoutsConnect.server_network_data [235; 3; 2; 0; 236; 3; 237; 3] = Some (true, true) /\
  rewrites Debug LayoutsConnect.server_network_data [235; 3; 1; 0; 236; 3; 0; 0] = Some (true, true) /\
  rewrites Debug LayoutsConnect.server_network_data [235; 3; 0; 0] = Some (true, true).
Proof. vm_compute. repeat split. Qed.

(* demand active: capability sets tile a window of lengthCombinedCapabilities - 4 octets; a window
   that ends inside a capability set loses the partial set *)
Example demand_active_examples :
  rewrites Debug ts_demand_active_pdu
    [1; 0; 1; 0;  2; 0;  12; 0;  82; 68;  1; 0;  0; 0;  15; 0; 8; 0; 0; 0; 0; 0;  9; 9; 9; 9] = Some (true, true) /\
  rewrites Debug ts_demand_active_pdu
    [1; 0; 1; 0;  2; 0;  14; 0;  82; 68;  1; 0;  0; 0;  15; 0; 8; 0; 0; 0; 0; 0;  7; 7;  9; 9; 9; 9] = Some (false, false).
Proof. vm_compute. repeat split. Qed.

(* fast-path bitmap update: rectangles until the data runs out; a truncated last rectangle is dropped *)
Example fp_bitmap_examples :
  rewrites Debug ts_fp_update_bitmap
    [1; 0; 1; 0;  0; 0; 0; 0; 0; 0; 0; 0; 1; 0; 1; 0; 16; 0; 0; 0; 2; 0; 170; 187] = Some (true, true) /\
  rewrites Debug ts_fp_update_bitmap
    [1; 0; 1; 0;  0; 0; 0; 0; 0; 0; 0; 0; 1; 0; 1; 0; 16; 0; 0; 0; 2; 0; 170; 187;  5; 5; 5] = Some (false, false).
Proof. vm_compute. repeat split. Qed.

Example other_optional_examples :
  rewrites Debug (ts_synchronize_pdu 0) [1; 0; 234; 3] = Some (true, true) /\
  rewrites Debug (ts_synchronize_pdu 0) [1; 0] = Some (true, true) /\
  rewrites Debug (ts_synchronize_pdu 0) [1; 0; 234] = Some (false, false) /\
  rewrites Debug ts_virtualchannel_capability_set [0; 0; 0; 0; 64; 6; 0; 0] = Some (true, true) /\
  rewrites Debug ts_virtualchannel_capability_set [0; 0; 0; 0; 64; 6] = Some (false, false).
Proof. vm_compute. repeat split. Qed.
