(* Model of the connection sequence as Connector::connect runs it:
     x224::Client::connect (write_connection_request, read_connection_confirm, dispatch on
       the selected protocol),
     mcs::Client::connect (connect-initial, read_connect_response = BER parser ->
       gcc::read_conference_create_response with the PER reads it performs, erect-domain,
       attach-user + read_attach_user_confirm, channel joins + read_channel_join_confirm),
     sec::connect (client info, mcs::Client::read, security header, license::client_connect).
   Server bytes enter as a chunked stream (Link.v) deframed by tpkt_read (Tpkt.v); every
   layout is read by the message interpreter (Msg.v) on the terms of LayoutsConnect.v; the
   client's own messages are recorded at message level in a transport EVENT TRACE (raw
   write / TLS handshake / write inside TLS), (what was sent, with the values
   that depend on server data).  External code is a Section variable: the BER parser
   (yasna), the TLS handshake (native-tls) and the CredSSP exchange (C07).  The model is
   the model of the REPAIRED code (fix: commits for defects #4, #5, #7, #8, #9, #25a, #38 of DESIGN.md:
   the I/O channel id is the one the server network data announces, the licence preamble flags are
   read and not checked). *)
From RdpV Require Import Base Msg LayoutsGlobal LayoutsConnect Link Tpkt Global.
Open Scope string_scope.
Open Scope list_scope.
Open Scope N_scope.

(* ------------------------------------------------------------------ configuration, client messages *)
Record config := mkConfig {
  offered : N;               (* security_protocols mask put in the connection request *)
  has_auth : bool;           (* an authentication protocol was supplied (Connector: always) *)
  restricted_admin : bool;
  user_first : bool;         (* HashMap iteration order of {"global","user"}: which join goes first *)
  cred_units : N;            (* UTF-16 code units of domain + user + password *)
  check_cert : bool          (* check_certificate: the TLS handshake verifies the server certificate *)
}.

Inductive cmsg :=
| CR (protocols flag : N)            (* X.224 connection request with RDP_NEG_REQ *)
| CSSP                               (* a CredSSP TSRequest (NTLM negotiate / authenticate token, TSCredentials) *)
| CI (len selected : N)              (* MCS connect-initial; client core data echoes the selected protocol *)
| ED | AU                            (* erect-domain, attach-user request *)
| CJ (initiator channel : N)         (* channel-join request *)
| INFO (initiator channel len : N).  (* client info PDU on the I/O channel *)

Definition ci_len : N := 366.        (* connect-initial with a 16-character client name field *)
Definition info_len (c : config) (v5 : bool) : N :=
  32 + (if restricted_admin c then 0 else 2 * cred_units c) + (if v5 then 190 else 0).

(* what is known about the server once MCS is connected *)
Record server_data := mkServerData { global_id : N; channel_ids : list N; rdp_v5 : bool }.

(* credential-bearing messages: NTLM tokens and CredSSP credentials, and the Client Info
   PDU (clear-text domain / user name / password) *)
Definition cred (m : cmsg) : bool :=
  match m with CSSP | INFO _ _ _ => true | _ => false end.

(* what the transport sees, in order: a message written on the raw stream, the TLS
   handshake (and whether it completed), a message written inside TLS *)
Inductive tev :=
| RawWrite (m : cmsg)
| TlsStart (ok : bool)
| TlsWrite (m : cmsg).

Fixpoint msgs (l : list tev) : list cmsg :=
  match l with
  | [] => []
  | RawWrite m :: tl | TlsWrite m :: tl => m :: msgs tl
  | TlsStart _ :: tl => msgs tl
  end.

(* ------------------------------------------------------------------ the run state *)
(* s_tls = Link holds Stream::Ssl: every later write goes through the TLS stream *)
Record cst := mkSt { s_in : stream; s_ev : list tev; s_tls : bool; s_alloc : N }.
Definition s_out (s : cst) : list cmsg := msgs (s_ev s).
Definition M (A : Type) := cst -> outcome A * cst.

Definition ret {A} (a : A) : M A := fun s => (Ok a, s).
Definition bind {A B} (m : M A) (k : A -> M B) : M B := fun s =>
  match m s with
  | (Ok a, s') => k a s'
  | (Err e, s') => (Err e, s')
  | (Panic, s') => (Panic, s')
  | (Spin, s') => (Spin, s')
  end.
Definition emit (m : cmsg) : M unit := fun s =>
  (Ok tt, mkSt (s_in s) (s_ev s ++ [if s_tls s then TlsWrite m else RawWrite m]) (s_tls s) (s_alloc s)).
(* a pure parse with the largest buffer it asked for *)
Definition lift {A} (r : outcome A * N) : M A := fun s =>
  (fst r, mkSt (s_in s) (s_ev s) (s_tls s) (N.max (s_alloc s) (snd r))).

(* largest buffer tpkt::Client::read asks the link layer for (Link::read(n) = vec![0; n]);
   the 15-bit fast-path length is written with + (its low byte is zero before the or) *)
Definition tpkt_alloc (cs : stream) : N :=
  match link_read 2 cs with
  | (Ok [action; b1], cs1) =>
      if action =? 3 then
        match link_read 2 cs1 with
        | (Ok [hi; lo], _) => let size := of_be16 hi lo in if size <? 4 then 2 else N.max 2 (size - 4)
        | _ => 2
        end
      else if N.land b1 128 =? 0 then (if b1 <? 2 then 2 else N.max 2 (b1 - 2))
      else match link_read 1 cs1 with
           | (Ok [lo], _) => let len := N.shiftl (N.land b1 127) 8 + lo in if len <? 3 then 2 else N.max 2 (len - 3)
           | _ => 2
           end
  | _ => 2
  end.

Definition recv_tpkt : M payload := fun s =>
  let (o, cs') := tpkt_read (s_in s) in
  (o, mkSt cs' (s_ev s) (s_tls s) (N.max (s_alloc s) (tpkt_alloc (s_in s)))).
Definition recv_x224 : M payload := fun s =>
  let (o, cs') := x224_read (s_in s) in
  (o, mkSt cs' (s_ev s) (s_tls s) (N.max (s_alloc s) (tpkt_alloc (s_in s)))).

(* try_let!(tpkt::Payload::Raw, ..) *)
Definition expect_raw (pl : payload) : outcome bytes :=
  match pl with Raw b => Ok b | FastPath _ _ => Err EInvalidCast end.

(* ------------------------------------------------------------------ PER reads of gcc / mcs *)
Definition per_read_u8 (input : bytes) : outcome (N * bytes) :=
  match input with b :: r => Ok (b, r) | [] => Err EIo end.

Definition per_skip (n : nat) (input : bytes) : outcome bytes :=
  match take n input with Some (_, r) => Ok r | None => Err EIo end.

(* per::read_object_identifier: only its length is checked by the caller's `?` *)
Definition per_read_object_identifier (input : bytes) : outcome bytes :=
  obind (per_read_length input) (fun lr =>
  if negb (fst lr =? 5) then Err EInvalidSize else per_skip 5 (snd lr)).

Definition per_read_integer (input : bytes) : outcome bytes :=
  obind (per_read_length input) (fun lr =>
  if fst lr =? 1 then per_skip 1 (snd lr)
  else if fst lr =? 2 then per_skip 2 (snd lr)
  else if fst lr =? 4 then per_skip 4 (snd lr)
  else Err EInvalidSize).

Fixpoint per_expect (expected input : bytes) : outcome bytes :=
  match expected with
  | [] => Ok input
  | e :: tl => match input with
               | [] => Err EIo
               | c :: r => if c =? e then per_expect tl r else Err EInvalidData
               end
  end.

Definition per_read_octet_stream (expected : bytes) (minimum : N) (input : bytes) : outcome bytes :=
  obind (per_read_length input) (fun lr =>
  if negb (fst lr + minimum =? nlen expected) then Err EInvalidSize else per_expect expected (snd lr)).

Definition H221_SC_KEY : bytes := [77; 99; 68; 110].   (* "McDn" *)

Section WithProfile.
Variable p : prof.
(* external code *)
Variable ber_parse : bytes -> outcome bytes.       (* yasna on the connect-response template: userData *)
Variable trusted : bool.                           (* the certificate the server presents chains to a trusted root *)
Variable tls_start : stream -> outcome stream.     (* native-tls handshake at protocol level: the plaintext stream that follows *)
Variable cssp_run : stream -> nat * outcome stream. (* cssp_connect over the TLS stream: TSRequests written, then its result *)

(* Message::read with the largest buffer it asked for *)
Definition rda (m : msg) (input : bytes) : outcome msg * N :=
  match read p m input with
  | ROk m' _ a => (Ok m', a)
  | RErr e _ a => (Err e, a)
  | RPanic => (Panic, 0)
  | RSpin => (Spin, 0)
  end.
(* ... keeping what the cursor has left *)
Definition rdr (m : msg) (input : bytes) : outcome (msg * bytes) * N :=
  match read p m input with
  | ROk m' rest a => (Ok (m', rest), a)
  | RErr e _ a => (Err e, a)
  | RPanic => (Panic, 0)
  | RSpin => (Spin, 0)
  end.

(* ------------------------------------------------------------------ x224 *)
Definition protocol_known (r : N) : bool :=
  (r =? PROTOCOL_RDP) || (r =? PROTOCOL_SSL) || (r =? PROTOCOL_HYBRID) || (r =? PROTOCOL_HYBRID_EX).

Definition nego_result (nego : msg) : outcome N :=
  obind (cast_num 8 (get nego "type")) (fun t =>
  if t =? NEG_FAILURE then Err EProtocolNegFailure
  else if t =? NEG_REQ then Err EInvalidAutomata
  else if t =? NEG_RSP then
    obind (cast_num 32 (get nego "result")) (fun r => if protocol_known r then Ok r else Err EInvalidCast)
  else Err EInvalidCast).

(* x224::Client::read_connection_confirm on the payload of the TPKT frame *)
Definition read_connection_confirm (input : bytes) : outcome N * N :=
  let r := rda x224_connection_pdu_t input in
  (obind (fst r) (fun confirm =>
     match get confirm "negotiation" with
     | None => Panic                                    (* confirm["negotiation"] *)
     | Some nego => match comp_of nego with
                    | None => Panic                     (* cast!(DataType::Component, ..).unwrap() *)
                    | Some _ => nego_result nego
                    end
     end), snd r).

(* the certificate part of the handshake: danger_accept_invalid_certs(!check_certificate) *)
Definition tls_handshake (check trusted_cert : bool) : bool := negb check || trusted_cert.

Definition log_ev (s : cst) (e : tev) : cst := mkSt (s_in s) (s_ev s ++ [e]) (s_tls s) (s_alloc s).

(* Link::start_ssl: on success the link holds the TLS stream *)
Definition start_ssl (c : config) : M unit := fun s =>
  if tls_handshake (check_cert c) trusted then
    match tls_start (s_in s) with
    | Ok cs' => (Ok tt, mkSt cs' (s_ev s ++ [TlsStart true]) true (s_alloc s))
    | Err e => (Err e, log_ev s (TlsStart false))
    | Panic => (Panic, log_ev s (TlsStart false))
    | Spin => (Spin, log_ev s (TlsStart false))
    end
  else (Err ESsl, log_ev s (TlsStart false)).

Fixpoint emit_n (m : cmsg) (n : nat) : M unit :=
  match n with O => ret tt | S n' => bind (emit m) (fun _ => emit_n m n') end.

(* nla::cssp::cssp_connect on the link (external here: C01 / C07) *)
Definition cssp_connect : M unit := fun s =>
  let r := cssp_run (s_in s) in
  match emit_n CSSP (fst r) s with
  | (_, s1) =>
      match snd r with
      | Ok cs' => (Ok tt, mkSt cs' (s_ev s1) (s_tls s1) (s_alloc s1))
      | Err e => (Err e, s1)
      | Panic => (Panic, s1)
      | Spin => (Spin, s1)
      end
  end.

(* tpkt::Client::start_nla *)
Definition start_nla (c : config) : M unit := bind (start_ssl c) (fun _ => cssp_connect).

(* the server must select a protocol the client requested; basic RDP security only when
   nothing else was requested *)
Definition sel_requested (offered_mask sel : N) : bool :=
  if sel =? PROTOCOL_RDP then offered_mask =? PROTOCOL_RDP else negb (N.land offered_mask sel =? 0).

Definition fail {A} (e : err) : M A := fun s => (Err e, s).

(* x224::Client::connect: the protocol the rest of the stack runs on *)
Definition x224_connect (c : config) : M N :=
  bind (emit (CR (offered c) (if restricted_admin c then 1 else 0))) (fun _ =>
  bind recv_tpkt (fun pl =>
  bind (lift (expect_raw pl, 0)) (fun b =>
  bind (lift (read_connection_confirm b)) (fun sel =>
    if negb (sel_requested (offered c) sel) then fail EInvalidProtocol
    else if sel =? PROTOCOL_HYBRID then
      (if has_auth c then bind (start_nla c) (fun _ => ret sel) else fail EInvalidOptionalField)
    else if sel =? PROTOCOL_SSL then bind (start_ssl c) (fun _ => ret sel)
    else if sel =? PROTOCOL_RDP then ret sel
    else fail EInvalidProtocol)))).

(* ------------------------------------------------------------------ gcc *)
(* the loop over the server data blocks inside `cc_response.take(length)`; core / net =
   the last block of that type seen (HashMap::insert) *)
Fixpoint gcc_blocks (fuel : nat) (sub : bytes) (core net : option msg) (a : N)
  : outcome (option msg * option msg) * N :=
  match fuel with
  | O => (Spin, a)
  | S fuel' =>
      match read p block_header_t sub with
      | RPanic => (Panic, a)
      | RSpin => (Spin, a)
      | RErr _ _ a' => (Ok (core, net), N.max a a')            (* no more blocks *)
      | ROk header rest a' =>
          let a1 := N.max a a' in
          match cast_num 16 (get header "length") with
          | Ok len =>
              if len <? 4 then (Err EInvalidSize, a1)          (* checked_sub(header.length()) *)
              else
                let n := len - 4 in
                let a2 := N.max a1 n in                        (* vec![0; body_length] *)
                match take (N.to_nat n) rest with
                | None => (Err EIo, a2)
                | Some (body, rest') =>
                    match cast_num 16 (get header "type") with
                    | Ok t =>
                        if t =? SC_CORE then
                          match rda server_core_data body with
                          | (Ok m, a3) => gcc_blocks fuel' rest' (Some m) net (N.max a2 a3)
                          | (Err e, a3) => (Err e, N.max a2 a3)
                          | (Panic, a3) => (Panic, N.max a2 a3)
                          | (Spin, a3) => (Spin, N.max a2 a3)
                          end
                        else if t =? SC_SECURITY then
                          match rda server_security_data body with
                          | (Ok _, a3) => gcc_blocks fuel' rest' core net (N.max a2 a3)
                          | (Err e, a3) => (Err e, N.max a2 a3)
                          | (Panic, a3) => (Panic, N.max a2 a3)
                          | (Spin, a3) => (Spin, N.max a2 a3)
                          end
                        else if t =? SC_NET then
                          match rda server_network_data body with
                          | (Ok m, a3) => gcc_blocks fuel' rest' core (Some m) (N.max a2 a3)
                          | (Err e, a3) => (Err e, N.max a2 a3)
                          | (Panic, a3) => (Panic, N.max a2 a3)
                          | (Spin, a3) => (Spin, N.max a2 a3)
                          end
                        else gcc_blocks fuel' rest' core net a2   (* unknown block: printed, skipped *)
                    | Err e => (Err e, a2)
                    | Panic => (Panic, a2)
                    | Spin => (Spin, a2)
                    end
                end
          | Err e => (Err e, a1)
          | Panic => (Panic, a1)
          | Spin => (Spin, a1)
          end
      end
  end.

(* .map(|x| cast!(DataType::U16, x).unwrap()) *)
Fixpoint channel_id_list (l : list msg) : outcome (list N) :=
  match l with
  | [] => Ok []
  | x :: tl => match cast_num 16 (Some x) with
               | Ok v => obind (channel_id_list tl) (fun r => Ok (v :: r))
               | _ => Panic
               end
  end.

Definition RDP_VERSION_5PLUS_WIRE : N := 524292.   (* Version::from(0x00080004) = RdpVersion5plus (after the fix of defect #20) *)

Definition gcc_server_data (cn : option msg * option msg) : outcome server_data :=
  match snd cn with
  | None => Err EInvalidData                                   (* no server network data block *)
  | Some net =>
      match fst cn with
      | None => Err EInvalidData                               (* no server core data block *)
      | Some core =>
          match get net "channelIdArray" with
          | None => Panic
          | Some arr =>
              match trame_of arr with
              | None => Err EInvalidCast
              | Some l =>
                  obind (cast_num 16 (get net "MCSChannelId")) (fun io =>
                  obind (channel_id_list l) (fun ids =>
                  obind (cast_num 32 (get core "rdpVersion")) (fun v =>
                  Ok (mkServerData io ids (v =? RDP_VERSION_5PLUS_WIRE)))))
              end
          end
      end
  end.

Definition gcc_header (input : bytes) : outcome (N * bytes) :=
  obind (per_read_u8 input) (fun x =>                               (* read_choice *)
  obind (per_read_object_identifier (snd x)) (fun r1 =>
  obind (per_read_length r1) (fun x2 =>
  obind (per_read_u8 (snd x2)) (fun x3 =>                           (* read_choice *)
  obind (per_read_integer_16 1001 (snd x3)) (fun x4 =>
  obind (per_read_integer (snd x4)) (fun r5 =>
  obind (per_read_u8 r5) (fun x6 =>                                 (* read_enumerates *)
  obind (per_read_u8 (snd x6)) (fun x7 =>                           (* read_number_of_set *)
  obind (per_read_u8 (snd x7)) (fun x8 =>                           (* read_choice *)
  obind (per_read_octet_stream H221_SC_KEY 4 (snd x8)) (fun r9 =>
  per_read_length r9)))))))))).

(* gcc::read_conference_create_response *)
Definition read_conference_create_response (input : bytes) : outcome server_data * N :=
  match gcc_header input with
  | Ok (len, rest) =>
      let sub := firstn (N.to_nat len) rest in                     (* cc_response.take(length) *)
      let r := gcc_blocks (S (List.length sub)) sub None None 0 in
      (obind (fst r) gcc_server_data, snd r)
  | Err e => (Err e, 0)
  | Panic => (Panic, 0)
  | Spin => (Spin, 0)
  end.

(* ------------------------------------------------------------------ mcs *)
(* mcs::Client::read_connect_response on the x224 payload (buffers the external parser
   allocates for itself are not part of this account: the harness measures them) *)
Definition read_connect_response (payload : bytes) : outcome server_data * N :=
  match ber_parse payload with
  | Ok ud => read_conference_create_response ud
  | Err e => (Err e, 0)
  | Panic => (Panic, 0)
  | Spin => (Spin, 0)
  end.

Definition MCS_ATTACH_USER_CONFIRM : N := 11.
Definition MCS_CHANNEL_JOIN_CONFIRM : N := 15.

Definition read_attach_user_confirm (input : bytes) : outcome N :=
  match input with
  | [] => Err EIo
  | h :: request =>
      if negb (N.shiftr h 2 =? MCS_ATTACH_USER_CONFIRM) then Err EInvalidData
      else obind (per_read_u8 request) (fun x =>
           if negb (fst x =? 0) then Err ERejectedByServer
           else obind (per_read_integer_16 1001 (snd x)) (fun y => Ok (fst y)))
  end.

Definition read_channel_join_confirm (user_id channel_id : N) (input : bytes) : outcome bool :=
  match input with
  | [] => Err EIo
  | h :: request =>
      if negb (N.shiftr h 2 =? MCS_CHANNEL_JOIN_CONFIRM) then Err EInvalidData
      else obind (per_read_u8 request) (fun x =>
           obind (per_read_integer_16 1001 (snd x)) (fun y =>
           obind (per_read_integer_16 0 (snd y)) (fun z =>
           if negb (user_id =? fst y) then Err EInvalidData
           else if negb (channel_id =? fst z) then Err EInvalidData
           else Ok (fst x =? 0))))
  end.

Fixpoint join_channels (uid : N) (chans : list N) : M unit :=
  match chans with
  | [] => ret tt
  | ch :: tl =>
      bind (emit (CJ (uid - 1001) ch)) (fun _ =>
      bind recv_x224 (fun pl =>
      bind (lift (expect_raw pl, 0)) (fun b =>
      bind (lift (read_channel_join_confirm uid ch b, 0)) (fun _ =>
      join_channels uid tl))))
  end.

(* mcs::Client::connect *)
Definition mcs_connect (c : config) (selected : N) : M (N * server_data) :=
  bind (emit (CI ci_len selected)) (fun _ =>
  bind recv_x224 (fun pl =>
  bind (lift (expect_raw pl, 0)) (fun b =>
  bind (lift (read_connect_response b)) (fun sd =>
  bind (emit ED) (fun _ =>
  bind (emit AU) (fun _ =>
  bind recv_x224 (fun pl2 =>
  bind (lift (expect_raw pl2, 0)) (fun b2 =>
  bind (lift (read_attach_user_confirm b2, 0)) (fun uid =>
  bind (join_channels uid (if user_first c then [uid; global_id sd] else [global_id sd; uid])) (fun _ =>
  ret (uid, sd))))))))))).

(* mcs::Client::read while only "global" and "user" are known *)
Definition mcs_read_any (uid io : N) (pl : payload) : outcome payload :=
  match pl with
  | FastPath f b => Ok (FastPath f b)
  | Raw b =>
      match b with
      | [] => Err EIo
      | header :: r0 =>
          if N.shiftr header 2 =? 8 then Err EDisconnect
          else if negb (N.shiftr header 2 =? 26) then Err EInvalidData
          else
            obind (per_read_integer_16 1001 r0) (fun x1 =>
            obind (per_read_integer_16 0 (snd x1)) (fun x2 =>
              if negb ((fst x2 =? io) || (fst x2 =? uid)) then Err EUnknown
              else obind (per_read_u8 (snd x2)) (fun x3 =>
                   obind (per_read_length (snd x3)) (fun x4 => Ok (Raw (snd x4))))))
      end
  end.

(* ------------------------------------------------------------------ license, sec *)
Definition license_error_alert (blob : msg) : outcome unit :=
  obind (cast_num 32 (get blob "dwErrorCode")) (fun code =>
  if negb (lic_errorcode_known code) then Err EInvalidCast
  else if code =? STATUS_VALID_CLIENT then
    obind (cast_num 32 (get blob "dwStateTransition")) (fun tr =>
    if negb (lic_transition_known tr) then Err EInvalidCast
    else if tr =? ST_NO_TRANSITION then Ok tt else Err EInvalidRespond)
  else Err EInvalidRespond).

(* license::client_connect *)
Definition license_client_connect (input : bytes) : outcome unit * N :=
  let r := rda preamble input in
  match fst r with
  | Ok lic =>
      match cast_num 8 (get lic "bMsgtype") with
      | Ok t =>
          if negb (lic_msgtype_known t) then (Err EInvalidCast, snd r)
          else if t =? LIC_NEW_LICENSE then (Ok tt, snd r)
          else if t =? LIC_ERROR_ALERT then
            match cast_bytes (get lic "message") with
            | Ok body =>
                let r2 := rda licensing_error_message body in
                (obind (fst r2) license_error_alert, N.max (snd r) (snd r2))
            | Err e => (Err e, snd r)
            | Panic => (Panic, snd r)
            | Spin => (Spin, snd r)
            end
          else (Err ENotImplemented, snd r)
      | Err e => (Err e, snd r)
      | Panic => (Panic, snd r)
      | Spin => (Spin, snd r)
      end
  | Err e => (Err e, snd r)
  | Panic => (Panic, snd r)
  | Spin => (Spin, snd r)
  end.

(* sec::connect after mcs.read(): security header, then the licence *)
Definition sec_license (input : bytes) : outcome unit * N :=
  let r := rdr security_header input in
  match fst r with
  | Ok hr =>
      match cast_num 16 (get (fst hr) "securityFlag") with
      | Ok fl =>
          if N.land fl SEC_LICENSE_PKT =? 0 then (Err EInvalidData, snd r)
          else let r2 := license_client_connect (snd hr) in (fst r2, N.max (snd r) (snd r2))
      | Err e => (Err e, snd r)
      | Panic => (Panic, snd r)
      | Spin => (Spin, snd r)
      end
  | Err e => (Err e, snd r)
  | Panic => (Panic, snd r)
  | Spin => (Spin, snd r)
  end.

Definition sec_connect (c : config) (uid io : N) (v5 : bool) : M unit :=
  bind (emit (INFO (uid - 1001) io (info_len c v5))) (fun _ =>
  bind recv_x224 (fun pl =>
  bind (lift (mcs_read_any uid io pl, 0)) (fun pl' =>
  bind (lift (expect_raw pl', 0)) (fun b =>
  lift (sec_license b))))).

(* ------------------------------------------------------------------ Connector::connect *)
Definition connect (c : config) : M (N * server_data) :=
  bind (x224_connect c) (fun sel =>
  bind (mcs_connect c sel) (fun us =>
  bind (sec_connect c (fst us) (global_id (snd us)) (rdp_v5 (snd us))) (fun _ =>
  ret us))).

Definition run_connect (c : config) (cs : stream) : outcome (N * server_data) * cst :=
  connect c (mkSt cs [] false 0).

End WithProfile.
