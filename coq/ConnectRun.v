(* The connect model with its external parts instantiated, as it is extracted and run
   against the implementation: the BER parser is the yasna model of BerYasna.v; over the
   in-memory transport of the harness a TLS handshake cannot succeed. *)
From RdpV Require Import Base Msg LayoutsGlobal LayoutsConnect Link Tpkt Global BerYasna Connect.
Open Scope N_scope.

Definition no_tls (_ : stream) : outcome stream := Err ESsl.

Definition connect_impl (p : prof) (c : config) (cs : stream) : outcome (N * server_data) * cst :=
  run_connect p (ber_connect_response p) no_tls no_tls c cs.

Definition gcc_impl (p : prof) (input : bytes) : outcome server_data * N :=
  read_conference_create_response p input.

Definition lic_impl (p : prof) (input : bytes) : outcome unit * N :=
  license_client_connect p input.
