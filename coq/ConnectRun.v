(* The connect model with its external parts instantiated, as it is extracted and run
   against the implementation: the BER parser is the yasna model of BerYasna.v; over the
   in-memory transport of the harness a TLS handshake cannot succeed. *)
From RdpV Require Import Base Msg LayoutsGlobal LayoutsConnect Link Tpkt Global BerYasna Connect.
Open Scope list_scope.
Open Scope N_scope.

Definition no_tls (_ : stream) : outcome stream := Err ESsl.
(* a server that takes the client's first TSRequest and answers something that is not one *)
Definition no_cssp (_ : stream) : nat * outcome stream := (1%nat, Err EAsn1).

Definition connect_impl (p : prof) (c : config) (cs : stream) : outcome (N * server_data) * cst :=
  run_connect p (ber_connect_response p) false no_tls no_cssp c cs.

(* C02: the harness has a TLS server that takes over when the client sends a ClientHello, and
   then sends the frames [post] inside TLS.  The handshake completes at protocol level
   exactly when the client has consumed the server's reply and nothing else: bytes left
   over from the reply, or bytes of [post] that the client already pulled in clear, end up
   in front of the ServerHello and break it. *)
Fixpoint bytes_eqb (a b : bytes) : bool :=
  match a, b with
  | [], [] => true
  | x :: a', y :: b' => (x =? y) && bytes_eqb a' b'
  | _, _ => false
  end.
Fixpoint stream_eqb (a b : stream) : bool :=
  match a, b with
  | [], [] => true
  | x :: a', y :: b' => bytes_eqb x y && stream_eqb a' b'
  | _, _ => false
  end.
Definition tls_exact (post cs : stream) : outcome stream :=
  if stream_eqb cs post then Ok cs else Err ESsl.

Definition negotiate_impl (p : prof) (trusted tls_server : bool) (c : config) (cs post : stream)
  : outcome (N * server_data) * cst :=
  run_connect p (ber_connect_response p) trusted (if tls_server then tls_exact post else no_tls) no_cssp c cs.

Definition gcc_impl (p : prof) (input : bytes) : outcome server_data * N :=
  read_conference_create_response p input.

Definition lic_impl (p : prof) (input : bytes) : outcome unit * N :=
  license_client_connect p input.
