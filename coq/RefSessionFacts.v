(* Facts about the specification RefSession.v alone (no model involved): the executable
   reference automaton ([ref_state] / [awaits] / [window]) and the declarative reading of the
   property's history predicates ([awaiting] / [in_window], defined without the transition
   table) describe the same histories. *)
From RdpV Require Import Base RefFraming RefFastPath RefInput RefSession.
Open Scope list_scope.
Open Scope N_scope.

Lemma run_app q a b : ref_run q (a ++ b) = ref_run (ref_run q a) b.
Proof. unfold ref_run. apply fold_left_app. Qed.

Lemma run_cons q m h : ref_run q (m :: h) = ref_run (ref_step q m) h.
Proof. reflexivity. Qed.

Lemma state_snoc h m : ref_state (h ++ [m]) = ref_step (ref_state h) m.
Proof. unfold ref_state. rewrite run_app. reflexivity. Qed.

(* a state is kept by every letter that is not the one it waits for *)
Lemma run_stay q l : Forall (fun m => ref_step q m = q) l -> ref_run q l = q.
Proof. induction 1 as [|m l Hm _ IH]; [reflexivity|]. rewrite run_cons, Hm. exact IH. Qed.

Lemma stay_demand l : Forall (fun m => ~ demand_active_letter m) l -> ref_run WaitDemandActive l = WaitDemandActive.
Proof. intros H. apply run_stay. eapply Forall_impl; [|exact H]. intros m Hm. destruct m; auto. exfalso. apply Hm. exact I. Qed.
Lemma stay_sync l : Forall (fun m => m <> Synchronize) l -> ref_run WaitSynchronize l = WaitSynchronize.
Proof. intros H. apply run_stay. eapply Forall_impl; [|exact H]. intros m Hm. destruct m; auto. congruence. Qed.
Lemma stay_coop l : Forall (fun m => m <> ControlCooperate) l -> ref_run WaitCooperate l = WaitCooperate.
Proof. intros H. apply run_stay. eapply Forall_impl; [|exact H]. intros m Hm. destruct m; auto. congruence. Qed.
Lemma stay_granted l : Forall (fun m => m <> ControlGranted) l -> ref_run WaitGranted l = WaitGranted.
Proof. intros H. apply run_stay. eapply Forall_impl; [|exact H]. intros m Hm. destruct m; auto. congruence. Qed.
Lemma stay_fontmap l : Forall (fun m => m <> FontMap) l -> ref_run WaitFontMap l = WaitFontMap.
Proof. intros H. apply run_stay. eapply Forall_impl; [|exact H]. intros m Hm. destruct m; auto. congruence. Qed.
Lemma stay_active l : Forall (fun m => m <> DeactivateAll) l -> ref_run Active l = Active.
Proof. intros H. apply run_stay. eapply Forall_impl; [|exact H]. intros m Hm. destruct m; auto. congruence. Qed.

(* ------------------------------------------------------------------ declarative => automaton *)
Scheme awaiting_mut := Induction for awaiting Sort Prop
  with in_window_mut := Induction for in_window Sort Prop.
Combined Scheme awaiting_window_ind from awaiting_mut, in_window_mut.

Lemma declarative_sound :
  (forall h, awaiting h -> ref_state h = WaitDemandActive) /\
  (forall h, in_window h -> ref_state h = Active).
Proof.
  apply awaiting_window_ind.
  - intros h Hh. unfold ref_state. apply stay_demand. exact Hh.
  - intros h1 h2 _ IH Hh2. unfold ref_state in *. rewrite run_app, IH, run_cons. cbn [ref_step]. apply stay_demand. exact Hh2.
  - intros h0 sid caps a b c d e _ IH Ha Hb Hc Hd He. unfold ref_state in *.
    rewrite run_app, IH, run_cons. cbn [ref_step].
    rewrite run_app, (stay_sync a Ha), run_cons. cbn [ref_step].
    rewrite run_app, (stay_coop b Hb), run_cons. cbn [ref_step].
    rewrite run_app, (stay_granted c Hc), run_cons. cbn [ref_step].
    rewrite run_app, (stay_fontmap d Hd), run_cons. cbn [ref_step].
    apply stay_active. exact He.
Qed.

(* ------------------------------------------------------------------ automaton => declarative *)
(* what each state of the automaton says about the history that led to it *)
Definition decl (q : rstate) (h : list smsg) : Prop :=
  match q with
  | WaitDemandActive => awaiting h
  | WaitSynchronize =>
      exists h0 sid caps a, h = h0 ++ DemandActive sid caps :: a /\ awaiting h0 /\ Forall (fun m => m <> Synchronize) a
  | WaitCooperate =>
      exists h0 sid caps a b, h = h0 ++ DemandActive sid caps :: a ++ Synchronize :: b /\ awaiting h0 /\
        Forall (fun m => m <> Synchronize) a /\ Forall (fun m => m <> ControlCooperate) b
  | WaitGranted =>
      exists h0 sid caps a b c, h = h0 ++ DemandActive sid caps :: a ++ Synchronize :: b ++ ControlCooperate :: c /\ awaiting h0 /\
        Forall (fun m => m <> Synchronize) a /\ Forall (fun m => m <> ControlCooperate) b /\
        Forall (fun m => m <> ControlGranted) c
  | WaitFontMap =>
      exists h0 sid caps a b c d,
        h = h0 ++ DemandActive sid caps :: a ++ Synchronize :: b ++ ControlCooperate :: c ++ ControlGranted :: d /\ awaiting h0 /\
        Forall (fun m => m <> Synchronize) a /\ Forall (fun m => m <> ControlCooperate) b /\
        Forall (fun m => m <> ControlGranted) c /\ Forall (fun m => m <> FontMap) d
  | Active => in_window h
  end.

Lemma Forall_snoc {A} (P : A -> Prop) l x : Forall P l -> P x -> Forall P (l ++ [x]).
Proof. intros Hl Hx. apply Forall_app. split; [exact Hl|constructor; [exact Hx|constructor]]. Qed.

Ltac reassoc := repeat (rewrite <- app_assoc || rewrite <- app_comm_cons); reflexivity.

Lemma awaiting_snoc h m : awaiting h -> ~ demand_active_letter m -> awaiting (h ++ [m]).
Proof.
  intros Hh Hm. destruct Hh as [h Hh|h1 h2 Hw Hh2].
  - apply aw_start. apply Forall_snoc; assumption.
  - replace ((h1 ++ DeactivateAll :: h2) ++ [m]) with (h1 ++ DeactivateAll :: (h2 ++ [m])) by reassoc.
    apply aw_deactivated; [exact Hw|]. apply Forall_snoc; assumption.
Qed.

Lemma in_window_snoc h m : in_window h -> m <> DeactivateAll -> in_window (h ++ [m]).
Proof.
  intros Hh Hm. destruct Hh as [h0 sid caps a b c d e H0 Ha Hb Hc Hd He].
  replace ((h0 ++ DemandActive sid caps :: a ++ Synchronize :: b ++ ControlCooperate :: c ++ ControlGranted :: d ++ FontMap :: e) ++ [m])
    with (h0 ++ DemandActive sid caps :: a ++ Synchronize :: b ++ ControlCooperate :: c ++ ControlGranted :: d ++ FontMap :: (e ++ [m]))
    by reassoc.
  apply win_opened; auto. apply Forall_snoc; assumption.
Qed.

Lemma decl_step q h m : decl q h -> decl (ref_step q m) (h ++ [m]).
Proof.
  intros Hq. destruct q; cbn [decl] in Hq.
  - (* awaiting the demand-active *)
    destruct m; cbn [ref_step decl]; try (apply awaiting_snoc; [exact Hq|intros []]).
    exists h, share_id, caps, []. repeat split; auto.
  - destruct Hq as (h0 & sid & caps & a & -> & H0 & Ha).
    assert (Stay : m <> Synchronize -> decl WaitSynchronize ((h0 ++ DemandActive sid caps :: a) ++ [m])).
    { intros Hm. exists h0, sid, caps, (a ++ [m]). split; [reassoc|]. split; auto. apply Forall_snoc; assumption. }
    destruct m; cbn [ref_step]; try (apply Stay; discriminate).
    exists h0, sid, caps, a, []. split; [reassoc|]. auto.
  - destruct Hq as (h0 & sid & caps & a & b & -> & H0 & Ha & Hb).
    assert (Stay : m <> ControlCooperate ->
                   decl WaitCooperate ((h0 ++ DemandActive sid caps :: a ++ Synchronize :: b) ++ [m])).
    { intros Hm. exists h0, sid, caps, a, (b ++ [m]). split; [reassoc|]. repeat split; auto. apply Forall_snoc; assumption. }
    destruct m; cbn [ref_step]; try (apply Stay; discriminate).
    exists h0, sid, caps, a, b, []. split; [reassoc|]. auto.
  - destruct Hq as (h0 & sid & caps & a & b & c & -> & H0 & Ha & Hb & Hc).
    assert (Stay : m <> ControlGranted ->
                   decl WaitGranted ((h0 ++ DemandActive sid caps :: a ++ Synchronize :: b ++ ControlCooperate :: c) ++ [m])).
    { intros Hm. exists h0, sid, caps, a, b, (c ++ [m]). split; [reassoc|]. repeat split; auto. apply Forall_snoc; assumption. }
    destruct m; cbn [ref_step]; try (apply Stay; discriminate).
    exists h0, sid, caps, a, b, c, []. split; [reassoc|]. auto 6.
  - destruct Hq as (h0 & sid & caps & a & b & c & d & -> & H0 & Ha & Hb & Hc & Hd).
    assert (Stay : m <> FontMap ->
                   decl WaitFontMap ((h0 ++ DemandActive sid caps :: a ++ Synchronize :: b ++ ControlCooperate :: c ++
                                      ControlGranted :: d) ++ [m])).
    { intros Hm. exists h0, sid, caps, a, b, c, (d ++ [m]). split; [reassoc|]. repeat split; auto. apply Forall_snoc; assumption. }
    destruct m; cbn [ref_step]; try (apply Stay; discriminate).
    cbn [decl].
    replace ((h0 ++ DemandActive sid caps :: a ++ Synchronize :: b ++ ControlCooperate :: c ++ ControlGranted :: d) ++ [FontMap])
      with (h0 ++ DemandActive sid caps :: a ++ Synchronize :: b ++ ControlCooperate :: c ++ ControlGranted :: d ++ FontMap :: [])
      by reassoc.
    apply win_opened; auto.
  - (* inside the window *)
    destruct m; cbn [ref_step decl]; try (apply in_window_snoc; [exact Hq|discriminate]).
    rewrite <- (app_nil_r (h ++ [DeactivateAll])). rewrite <- app_assoc. cbn [app].
    apply aw_deactivated; [exact Hq|constructor].
Qed.

Lemma declarative_complete : forall h, decl (ref_state h) h.
Proof.
  induction h as [|m h IH] using rev_ind.
  - cbn. apply aw_start. constructor.
  - rewrite state_snoc. apply decl_step. exact IH.
Qed.

(* THE TWO READINGS AGREE *)
Theorem awaiting_iff h : awaiting h <-> awaits h = true.
Proof.
  unfold awaits. split.
  - intros H. rewrite (proj1 declarative_sound h H). reflexivity.
  - intros H. pose proof (declarative_complete h) as D. destruct (ref_state h); try discriminate. exact D.
Qed.

Theorem in_window_iff h : in_window h <-> window h = true.
Proof.
  unfold window. split.
  - intros H. rewrite (proj2 declarative_sound h H). reflexivity.
  - intros H. pose proof (declarative_complete h) as D. destruct (ref_state h); try discriminate. exact D.
Qed.
