(* Reference encoder for the GCC conference-create exchange of an RDP connection, written
   from ITU-T T.124 (ConnectData / ConnectGCCPDU, ALIGNED PER) and MS-RDPBCGR 2.2.1.3 (client
   MCS Connect Initial: 2.2.1.3.1 user data header) and 2.2.1.4 (server MCS Connect Response:
   2.2.1.4.1 user data header, 2.2.1.4.2 TS_UD_SC_CORE, 2.2.1.4.3 TS_UD_SC_SEC1,
   2.2.1.4.4 TS_UD_SC_NET), independently of core/gcc.rs and of the Per.v model.
   Executable, no proofs.

   User data header (2.2.1.3.1 / 2.2.1.4.1): type on two octets little endian, then the
   length of the whole block INCLUDING this four-octet header, little endian.

   ConnectData: key = CHOICE object (00), the OID {itu-t(0) recommendation(0) t(20) t124(124)
   version(0) 1} on five content octets (05 00 14 7c 00 01), then connectPDU as an octet
   string whose length determinant covers everything that follows.

   ConferenceCreateRequest (client): ConnectGCCPDU choice 0 + extension/option bits (00 08),
   conferenceName numeric "1" (00 10), padding (00), one set of user data (01), h221NonStandard
   choice (c0), the key "Duca" as an octet string of minimum size 4 (00 'D' 'u' 'c' 'a'), then
   the client data blocks as an octet string.  The announced connectPDU length is the user
   data length + 14, as every RDP stack sends it.

   ConferenceCreateResponse (server): choice (14), nodeID constrained to 1001..65536 on two
   octets, tag as an unconstrained integer, result enumerated on one octet, one set of user
   data (01), h221NonStandard (c0), the key "McDn" (00 'M' 'c' 'D' 'n'), then the server data
   blocks as an octet string. *)
From RdpV Require Import Base RefPer.
Open Scope list_scope.
Open Scope N_scope.

Definition ref_block (ty : N) (body : bytes) : bytes := le16 ty ++ le16 (nlen body + 4) ++ body.

(* TS_UD_SC_CORE: version, then optionally clientRequestedProtocols, then (only when the
   former is present) optionally earlyCapabilityFlags *)
Definition ref_sc_core_body (version : N) (requested : option N) (flags : option N) : bytes :=
  le32 version ++
  match requested with
  | None => []
  | Some r => le32 r ++ match flags with None => [] | Some f => le32 f end
  end.

Definition ref_sc_core (version : N) (requested : option N) (flags : option N) : bytes :=
  ref_block 3073 (ref_sc_core_body version requested flags).                 (* 0x0C01 *)

(* TS_UD_SC_SEC1 without server random / certificate (encryption method and level only) *)
Definition ref_sc_security_body (method level : N) : bytes := le32 method ++ le32 level.

Definition ref_sc_security (method level : N) : bytes :=
  ref_block 3074 (ref_sc_security_body method level).                        (* 0x0C02 *)

(* TS_UD_SC_NET: the MCS channel id of the I/O channel (chosen by the server; 1003 in practice),
   channel count, the ids, and two octets of padding when the count is odd (the block is a
   multiple of four octets) *)
Definition ref_sc_net_body (io : N) (ids : list N) : bytes :=
  le16 io ++ le16 (nlen ids) ++ flat_map le16 ids ++ (if N.odd (nlen ids) then [0; 0] else []).

Definition ref_sc_net (io : N) (ids : list N) : bytes :=
  ref_block 3075 (ref_sc_net_body io ids).                                      (* 0x0C03 *)

Definition t124_key : bytes := [0; 5; 0; 20; 124; 0; 1].

Definition ref_conference_create_response (node_id tag result : N) (blocks : bytes) : option bytes :=
  if (1001 <=? node_id) && (node_id <? 1001 + 65536) && (result <? 256) then
    match ref_integer tag, ref_length (nlen blocks) with
    | Some ti, Some lb =>
        let pdu := [20] ++ be16 (node_id - 1001) ++ ti ++ [result] ++ [1] ++ [192]
                   ++ [0; 77; 99; 68; 110] ++ lb ++ blocks in
        match ref_length (nlen pdu) with
        | Some lp => Some (t124_key ++ lp ++ pdu)
        | None => None
        end
    | _, _ => None
    end
  else None.

Definition ref_conference_create_request (user_data : bytes) : option bytes :=
  match ref_length (nlen user_data + 14), ref_length (nlen user_data) with
  | Some lp, Some lu =>
      Some (t124_key ++ lp ++ [0; 8] ++ [0; 16] ++ [0] ++ [1] ++ [192] ++ [0; 68; 117; 99; 97] ++ lu ++ user_data)
  | _, _ => None
  end.
