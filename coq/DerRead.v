(* Executable model of yasna 0.3.2's DER reader (reader/mod.rs: read_identifier,
   read_length, read_general, read_u32, read_bytes, read_tagged, read_sequence,
   read_sequence_of, read_optional, parse_der) on the two TSRequest read templates of
   nla/cssp.rs.  It instantiates the BER oracle of Cssp.v for the extracted driver, so
   that the correspondence run samples the assumption "yasna returns Ok/Err".

   It also reproduces the one place where yasna 0.3.2 does NOT return: read_general
   computes `let limit = self.pos+length;` unchecked.  With an 8-octet long-form length
   close to 2^64 the addition overflows: a debug build traps; a release build wraps,
   shrinks the buffer below the cursor, and `&self.buf[self.pos..]` then panics for a
   primitive element (a constructed one goes on with a cursor past the end: every read
   reports Eof and end_of_buf reports Extra, i.e. Err).  That is the known finding
   C07-yasna-length-overflow; [der_ts_request] / [der_ts_validate] return [Panic] exactly
   there. *)
From RdpV Require Import Base.
Open Scope list_scope.
Open Scope N_scope.

Inductive dres (A : Type) : Type :=
| DOk (a : A)
| DNone          (* failed at the first identifier without consuming anything: read_optional gives None *)
| DErr           (* Err(ASN1Error) *)
| DPanic.
Arguments DOk {A} _.
Arguments DNone {A}.
Arguments DErr {A}.
Arguments DPanic {A}.

(* reader state: absolute position in the original buffer, bytes left in the current (limited) buffer *)
Definition dst : Type := (N * bytes)%type.

Definition two64 : N := 18446744073709551616.

(* the rest of a high tag number (first octet had number 31): base-128 digits, u64 checked_mul *)
Fixpoint tag_tail (fuel : nat) (acc : N) (pos : N) (rem : bytes) : option (N * dst) :=
  match fuel with
  | O => None
  | S f =>
      match rem with
      | [] => None                                               (* Eof *)
      | b :: r =>
          if two64 <=? acc * 128 then None                       (* IntegerOverflow *)
          else let acc' := acc * 128 + N.land b 127 in
               if N.land b 128 =? 0 then Some (acc', (pos + 1, r)) else tag_tail f acc' (pos + 1) r
      end
  end.

(* read_identifier: (class, constructed, number) *)
Definition read_identifier (s : dst) : dres ((N * bool * N) * dst) :=
  match snd s with
  | [] => DNone
  | t :: r =>
      let cls := t / 64 in
      let pc := negb ((t / 32) mod 2 =? 0) in
      let num := t mod 32 in
      if num =? 31 then
        match tag_tail (S (List.length r)) 0 (fst s + 1) r with
        | Some (n, s') => if n <? 31 then DErr else DOk ((cls, pc, n), s')
        | None => DErr
        end
      else DOk ((cls, pc, num), (fst s + 1, r))
  end.

Fixpoint len_digits (n : nat) (acc : N) (pos : N) (rem : bytes) : option (N * dst) :=
  match n with
  | O => Some (acc, (pos, rem))
  | S n' =>
      if two64 <=? acc * 256 then None                           (* checked_mul(256) *)
      else match rem with
           | [] => None
           | b :: r => len_digits n' (acc * 256 + b) (pos + 1) r
           end
  end.

(* read_length in DER mode: None = error; Some (None) = indefinite form *)
Definition read_length (s : dst) : option (option N * dst) :=
  match snd s with
  | [] => None
  | l :: r =>
      if l =? 128 then Some (None, (fst s + 1, r))
      else if l =? 255 then None
      else if N.land l 128 =? 0 then Some (Some l, (fst s + 1, r))
      else match len_digits (N.to_nat (N.land l 127)) 0 (fst s + 1) r with
           | Some (n, s') => if n <? 128 then None else Some (Some n, s')      (* DER: minimal length *)
           | None => None
           end
  end.

Section Reader.
Variable p : prof.

(* read_general up to the callback: (constructed?, content state, state after the element) *)
Definition read_general (cls num : N) (s : dst) : dres (bool * dst * dst) :=
  match read_identifier s with
  | DOk ((c, pc, n), s1) =>
      if negb ((c =? cls) && (n =? num)) then DNone                (* pos restored *)
      else match read_length s1 with
           | None => DErr
           | Some (None, _) => DErr                                (* indefinite length: Invalid in DER *)
           | Some (Some len, s2) =>
               if two64 <=? fst s2 + len then                      (* self.pos + length overflows usize *)
                 match p with
                 | Debug => DPanic
                 | Release => if pc then DErr else DPanic
                 end
               else if nlen (snd s2) <? len then DErr              (* Eof *)
               else DOk (pc, (fst s2, firstn (N.to_nat len) (snd s2)), (fst s2 + len, skipn (N.to_nat len) (snd s2)))
           end
  | DNone => DNone
  | DErr => DErr
  | DPanic => DPanic
  end.

(* a constructed element whose content is read by [body]; the content must be used up *)
Definition constructed {A} (cls num : N) (body : dst -> dres (A * dst)) (s : dst) : dres (A * dst) :=
  match read_general cls num s with
  | DOk (pc, content, after) =>
      if negb pc then DErr
      else match body content with
           | DOk (a, c') => match snd c' with [] => DOk (a, after) | _ :: _ => DErr end    (* end_of_buf: Extra *)
           | DNone => DErr
           | DErr => DErr
           | DPanic => DPanic
           end
  | DNone => DNone
  | DErr => DErr
  | DPanic => DPanic
  end.

Definition primitive (cls num : N) (s : dst) : dres (bytes * dst) :=
  match read_general cls num s with
  | DOk (pc, content, after) => if pc then DErr else DOk (snd content, after)
  | DNone => DNone
  | DErr => DErr
  | DPanic => DPanic
  end.

Definition fold_be (l : bytes) : N := fold_left (fun acc b => acc * 256 + b) l 0.

(* read_u32 = read_u64 + range check *)
Definition read_u32 (s : dst) : dres (N * dst) :=
  match primitive 0 2 s with
  | DOk (buf, after) =>
      match buf with
      | [] => DErr
      | b0 :: tl =>
          if 128 <=? b0 then DErr
          else match tl with
               | [] => DOk (b0, after)
               | b1 :: _ =>
                   if b0 * 256 + b1 <? 128 then DErr
                   else if (9 <? nlen buf) || ((nlen buf =? 9) && negb (b0 =? 0)) then DErr
                   else let v := fold_be buf in if v <? 4294967296 then DOk (v, after) else DErr
               end
      end
  | DNone => DNone
  | DErr => DErr
  | DPanic => DPanic
  end.

Definition read_bytes (s : dst) : dres (bytes * dst) := primitive 0 4 s.

Definition tagged {A} (n : N) (body : dst -> dres (A * dst)) (s : dst) : dres (A * dst) := constructed 2 n body s.
Definition sequence {A} (body : dst -> dres (A * dst)) (s : dst) : dres (A * dst) := constructed 0 16 body s.

(* the loop of read_sequence_of: elements until read_optional says None *)
Fixpoint seq_of_loop {A} (fuel : nat) (elem : dst -> dres (A * dst)) (c : dst) (acc : list A) : dres (list A * dst) :=
  match fuel with
  | O => DErr
  | S f =>
      match elem c with
      | DOk (a, c') => seq_of_loop f elem c' (a :: acc)
      | DNone => DOk (rev acc, c)
      | DErr => DErr
      | DPanic => DPanic
      end
  end.

Definition sequence_of {A} (elem : dst -> dres (A * dst)) (s : dst) : dres (list A * dst) :=
  sequence (fun c => seq_of_loop (S (List.length (snd c))) elem c []) s.

Definition bindd {A B} (x : dres (A * dst)) (f : A -> dst -> dres (B * dst)) : dres (B * dst) :=
  match x with
  | DOk (a, s) => match f a s with DNone => DErr | r => r end     (* a later mandatory element that is missing is an error *)
  | DNone => DNone
  | DErr => DErr
  | DPanic => DPanic
  end.

(* parse_der: the callback, then end_of_buf *)
Definition parse_der {A} (body : dst -> dres (A * dst)) (input : bytes) : outcome A :=
  match body (0, input) with
  | DOk (a, s) => match snd s with [] => Ok a | _ :: _ => Err EAsn1 end
  | DNone => Err EAsn1
  | DErr => Err EAsn1
  | DPanic => Panic
  end.

(* read template of read_ts_server_challenge:
   SEQUENCE { [0] INTEGER, [1] SEQUENCE OF SEQUENCE { [0] OCTET STRING } } *)
Definition der_ts_request (input : bytes) : outcome (list bytes) :=
  parse_der (sequence (fun c =>
    bindd (tagged 0 read_u32 c) (fun _ c1 =>
    tagged 1 (sequence_of (sequence (tagged 0 read_bytes))) c1))) input.

(* read template of read_ts_validate: SEQUENCE { [0] INTEGER, [3] OCTET STRING } *)
Definition der_ts_validate (input : bytes) : outcome bytes :=
  parse_der (sequence (fun c =>
    bindd (tagged 0 read_u32 c) (fun _ c1 =>
    tagged 3 read_bytes c1))) input.

End Reader.

(* the oracle view: Ok/Err only *)
Definition oracle_of {A} (o : outcome A) : option A := match o with Ok a => Some a | _ => None end.
