(* The LITERAL reading of the MS-RDPBCGR 3.1.9 pseudo-code (RleDecompress) for interleaved RLE:
   the flag fFirstLine is examined ONCE per order, at the top of the decoding loop ("Watch out
   for the end of the first scanline": when the destination has reached rowDelta pixels it is
   cleared together with fInsertFgPel), and then frozen for all the pixels of that order:
   on the first line an order writes fgPel / BLACK_PIXEL, otherwise PeekPixel(pbDest - rowDelta)
   [XOR fgPel].  RefRle.v instead decides per PIXEL whether there is a pixel above.  The two
   readings differ exactly on orders that straddle the end of the first scan line; the decoder
   (and the reference implementations) follow the per-pixel reading.  RefRleLit_proofs.v shows
   that the readings agree on every stream none of whose orders straddles that boundary.
   Executable; no proofs in this file. *)
From RdpV Require Import Base RefRle.

Record lstate := mkLS { ls_out : list N; ls_fg : N; ls_ins : bool; ls_first : bool }.

(* PeekPixel(pbDest - rowDelta) *)
Definition peek (w : N) (out : list N) : N := nth (N.to_nat (nlen out - w)) out 0.

Definition lit_bg (first : bool) (w : N) (out : list N) : N := if first then 0 else peek w out.
Definition lit_fg (first : bool) (w fg : N) (out : list N) : N := if first then fg else N.lxor (peek w out) fg.

(* WriteFirstLineFgBgImage / WriteFgBgImage, one mask byte per 8 pixels *)
Fixpoint lit_fgbg (n : nat) (i : nat) (first : bool) (w fg : N) (masks : list N) (out : list N) : list N :=
  match n with
  | O => out
  | S k => lit_fgbg k (S i) first w fg masks
             (out ++ [if mask_bit masks i then lit_fg first w fg out else lit_bg first w out])
  end.

Definition lit_order (w : N) (o : order) (s : lstate) : lstate :=
  let out := ls_out s in
  (* if (fFirstLine) { if (pbDest - pbDestBuffer >= rowDelta) { fFirstLine = FALSE; fInsertFgPel = FALSE; } } *)
  let leave := ls_first s && (w <=? nlen out) in
  let first := if leave then false else ls_first s in
  let ins := if leave then false else ls_ins s in
  let fg := ls_fg s in
  match o with
  | OBg n =>
      (* if (fInsertFgPel) { write the foreground pixel; runLength-- }  while (runLength > 0) { background pixel } *)
      mkLS (if ins then run (N.to_nat n - 1) (lit_bg first w) (out ++ [lit_fg first w fg out])
            else run (N.to_nat n) (lit_bg first w) out) fg true first
  | OFg n => mkLS (run (N.to_nat n) (lit_fg first w fg) out) fg false first
  | OSetFg fg' n => mkLS (run (N.to_nat n) (lit_fg first w fg') out) fg' false first
  | OFgBg n masks => mkLS (lit_fgbg (N.to_nat n) 0 first w fg masks out) fg false first
  | OSetFgBg fg' n masks => mkLS (lit_fgbg (N.to_nat n) 0 first w fg' masks out) fg' false first
  | OColor c n => mkLS (run (N.to_nat n) (fun _ => c) out) fg false first
  | OImage px => mkLS (out ++ px) fg false first
  | ODither c1 c2 n => mkLS (dither (N.to_nat n) c1 c2 out) fg false first
  | OSpecial1 => mkLS (lit_fgbg 8 0 first w fg [3] out) fg false first
  | OSpecial2 => mkLS (lit_fgbg 8 0 first w fg [5] out) fg false first
  | OWhite => mkLS (out ++ [65535]) fg false first
  | OBlack => mkLS (out ++ [0]) fg false first
  end.

Definition lit_from (w : N) (os : list order) (s : lstate) : lstate :=
  fold_left (fun s o => lit_order w o s) os s.

Definition lit_sem (w : N) (os : list order) : list N :=
  ls_out (lit_from w os (mkLS [] 65535 false true)).

(* number of pixels an order produces *)
Definition order_pixels (o : order) : N :=
  match o with
  | OBg n | OFg n | OSetFg _ n | OFgBg n _ | OSetFgBg _ n _ | OColor _ n => n
  | OImage px => nlen px
  | ODither _ _ n => 2 * n
  | OSpecial1 | OSpecial2 => 8
  | OWhite | OBlack => 1
  end.

(* no order begins before the end of the first scan line and ends after it *)
Fixpoint no_straddle_from (w pos : N) (os : list order) : bool :=
  match os with
  | [] => true
  | o :: r => negb ((pos <? w) && (w <? pos + order_pixels o)) && no_straddle_from w (pos + order_pixels o) r
  end.

Definition no_straddle (w : N) (os : list order) : bool := no_straddle_from w 0 os.
