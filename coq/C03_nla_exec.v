(* C03 / NLA for the EXECUTABLE instance: the codecs of CsspGateExec.v / DerRead.v satisfy [codec_ok]
   (C03_der_exec.v), the concrete MD5 / HMAC-MD5 have 16-byte digests (C16_proofs.v), and the program the
   correspondence runs is the generic model at these functions (C03_nla_run.v): the NLA theorems hold for it with
   no hypothesis on hashes or codecs. *)
From Coq Require Import Lia.
From RdpV Require Import Base Msg Link Tpkt Global BerYasna Connect ConnectRun ClientPdus Flow FlowRun FlowNla FlowNlaRun.
From RdpV Require Import C13_proofs StrictPdu RefSequence C03_base C03_proofs.
From RdpV Require Import Md5 Md4 Hmac Der DerRead CsspGate CsspGateExec RefCredssp.
From RdpV Require Import C16_proofs C03_der_exec C03_nla_proofs C03_nla_run.
Open Scope list_scope.
Open Scope N_scope.

Theorem codec_ok_exec p :
  codec_ok x_create_ts_request x_create_ts_authenticate x_create_ts_credentials x_create_ts_authinfo
           (x_read_ts_server_challenge p) (x_read_ts_validate p).
Proof.
  split; [exact x_ts_request_der|]. split; [exact x_ts_authenticate_der|]. split; [exact x_ts_credentials_der|].
  split; [exact x_ts_authinfo_der|]. split.
  - intros t Hr. unfold x_read_ts_server_challenge.
    rewrite (der_ts_request_reads p t); [reflexivity|].
    pose proof (nlen_ts_request_ge t). unfold one_read in Hr. lia.
  - intros k Hr. unfold x_read_ts_validate.
    apply (der_ts_validate_reads p k).
    pose proof (nlen_ts_validate_ge k). unfold one_read in Hr. lia.
Qed.

Lemma tls_after_nil ps : tls_after ps [] = Ok ps.
Proof. reflexivity. Qed.

Section Exec.
Variable upper : list N -> list N.
Variable p : prof.

Notation serve := (cssp_serve md5 hmac_md5 upper).

(* SEQUENCE with NLA, the extracted program *)
Theorem sequence_nla_exec (c : fcfg) (n : nla_params) (srv : server) (csrv : cssp_server) (cs post' : stream) :
  valid_fcfg c -> conforming (c_offered (f_pdu c)) srv -> sv_selected srv = SEL_HYBRID ->
  ber_ok (ber_connect_response p) srv ->
  nla_ok md4 md5 hmac_md5 c n csrv ->
  holds cs (ref_confirm srv) ->
  holds post' (List.concat (List.tl (replies srv (f_user_first c)))) ->
  let r := flow_impl p (nla_cssp_env upper c n) c (nreads_of srv) cs (Some (nla_stream md5 hmac_md5 csrv n post')) in
  fl_res r = Ok tt /\ fl_stage r = StShutdown /\
  exists w1 w2 w3 cr frames,
    fl_trace r = FRaw cr :: FTlsStart true :: FTls w1 :: FTls w2 :: FTls w3 :: map FTls frames /\
    map frame_kind (cr :: frames) = map Some (expected_kinds srv (f_user_first c)) /\
    serve csrv CsStart [w1; w2; w3] =
      ([cssp_reply1 csrv; cssp_reply2 md5 hmac_md5 csrv (nl_key n)],
       cs_done (nl_key n) (nla_creds md4 hmac_md5 upper c n csrv)).
Proof.
  intros Hv Hc Hsel Hber Hnla Hcs Hpost r. unfold r. rewrite flow_impl_is_flow_nla. unfold flow_nla_impl.
  exact (sequence_nla_full md4 md5 hmac_md5 upper p _ _ _ _ _ _ md5_length hmac_md5_length (codec_ok_exec p)
           (ber_connect_response p) true (tls_after (nla_stream md5 hmac_md5 csrv n post')) c n srv csrv cs post'
           Hv Hc Hsel Hber (fun _ => eq_refl) Hnla Hcs (tls_after_nil _) Hpost).
Qed.

(* CAUSALITY with NLA, the extracted program: after CredSSP and k further replies ... *)
Theorem causality_nla_exec (c : fcfg) (n : nla_params) (srv : server) (csrv : cssp_server) (cs post' : stream) (k : nat) :
  valid_fcfg c -> conforming (c_offered (f_pdu c)) srv -> sv_selected srv = SEL_HYBRID ->
  ber_ok (ber_connect_response p) srv ->
  nla_ok md4 md5 hmac_md5 c n csrv ->
  holds cs (ref_confirm srv) ->
  (k < List.length (List.tl (replies srv (f_user_first c))))%nat ->
  holds post' (List.concat (firstn k (List.tl (replies srv (f_user_first c))))) ->
  let r := flow_impl p (nla_cssp_env upper c n) c (nreads_of srv) cs (Some (nla_stream md5 hmac_md5 csrv n post')) in
  fl_res r = Err EIo /\
  exists w1 w2 w3 cr frames,
    fl_trace r = FRaw cr :: FTlsStart true :: FTls w1 :: FTls w2 :: FTls w3 :: map FTls frames /\
    map frame_kind (cr :: frames) = map Some (sent_before_reply srv (f_user_first c) (S k)) /\
    serve csrv CsStart [w1; w2; w3] =
      ([cssp_reply1 csrv; cssp_reply2 md5 hmac_md5 csrv (nl_key n)],
       cs_done (nl_key n) (nla_creds md4 hmac_md5 upper c n csrv)).
Proof.
  intros Hv Hc Hsel Hber Hnla Hcs Hk Hpost r. unfold r. rewrite flow_impl_is_flow_nla. unfold flow_nla_impl.
  exact (causality_nla_full md4 md5 hmac_md5 upper p _ _ _ _ _ _ md5_length hmac_md5_length (codec_ok_exec p)
           (ber_connect_response p) true (tls_after (nla_stream md5 hmac_md5 csrv n post')) c n srv csrv cs post' k
           Hv Hc Hsel Hber (fun _ => eq_refl) Hnla Hcs (tls_after_nil _) Hk Hpost).
Qed.

(* ... and inside the CredSSP exchange: the yasna model refuses the empty input *)
Lemma exec_readers_eof : not_ok (x_read_ts_server_challenge p []) /\ not_ok (x_read_ts_validate p []).
Proof. split; intros x; destruct p; vm_compute; discriminate. Qed.

Theorem causality_nla_cssp_exec (c : fcfg) (n : nla_params) (srv : server) (csrv : cssp_server) (cs : stream) (j : nat) :
  valid_fcfg c -> conforming (c_offered (f_pdu c)) srv -> sv_selected srv = SEL_HYBRID ->
  nla_ok md4 md5 hmac_md5 c n csrv ->
  holds cs (ref_confirm srv) -> (j < 2)%nat ->
  let r := flow_impl p (nla_cssp_env upper c n) c (nreads_of srv) cs (Some (firstn j (nla_stream md5 hmac_md5 csrv n []))) in
  fl_res r <> Ok tt /\ fl_stage r = StConnect /\
  exists w1 w2 w3 cr,
    fl_trace r = FRaw cr :: FTlsStart true :: map FTls (firstn (S j) [w1; w2; w3]) /\
    frame_kind cr = Some KRequest /\
    serve csrv CsStart [w1; w2; w3] =
      ([cssp_reply1 csrv; cssp_reply2 md5 hmac_md5 csrv (nl_key n)],
       cs_done (nl_key n) (nla_creds md4 hmac_md5 upper c n csrv)).
Proof.
  intros Hv Hc Hsel Hnla Hcs Hj r. unfold r. rewrite flow_impl_is_flow_nla. unfold flow_nla_impl.
  exact (causality_nla_cssp md4 md5 hmac_md5 upper p _ _ _ _ _ _ md5_length hmac_md5_length (codec_ok_exec p)
           (ber_connect_response p) true (tls_after (firstn j (nla_stream md5 hmac_md5 csrv n []))) c n srv csrv cs j
           Hv Hc Hsel (fun _ => eq_refl) Hnla (proj1 exec_readers_eof) (proj2 exec_readers_eof) Hcs Hj (tls_after_nil _)).
Qed.

End Exec.
