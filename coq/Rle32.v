(* Model of codec/rle.rs process_plane / rle_32_decompress (planar RLE, 32 bpp) as
   repaired: offsets in usize (64 bit), empty bitmap returns Ok, a segment that does not
   fit the scan line returns InvalidData.

   `color` is an i8 in the Rust text; it is only ever stored back `as u8` or added to a
   byte and truncated `as u8`, so the model keeps its two's-complement byte (0..255):
   `-(x as i32) as i8` is (256 - x) mod 256 and `(a as i32 + color as i32) as u8` is
   (a + color) mod 256.  A plane is the slice `&mut output[base..]`: index i of the
   plane is checked against len - base and lands on base + i.  No proofs in this file. *)
From RdpV Require Import Base Buf.

Record pst := mkP {
  p_inp : bytes;      (* the shared Cursor *)
  p_buf : buf;        (* the whole output vector *)
  p_out : N;          (* out: usize, index into the plane slice *)
  p_iw : N;           (* indexw: usize *)
  p_color : N }.      (* color: i8, as its byte *)

Section Rle32.
Variable p : prof.
Variable width height : N.   (* after `as usize` *)
Variable base : N.           (* the plane is output[base..] *)

(* plane[i] *)
Definition sl_get (b : buf) (i : N) : outcome N :=
  if i <? blen b - base then Ok (bget_raw b (base + i)) else Panic.
(* plane[i] = v *)
Definition sl_set (b : buf) (i v : N) : outcome buf :=
  if i <? blen b - base then Ok (bset_raw b (base + i) v) else Panic.

(* out += 4; indexw += 1 *)
Definition advance (s : pst) (b : buf) (inp : bytes) (color : N) : outcome pst :=
  o <- add_w p 64 (p_out s) 4;;
  iw <- add_w p 64 (p_iw s) 1;;
  Ok (mkP inp b o iw color).

(* first line, while collen > 0: color = read_u8()?; plane[out] = color *)
Fixpoint raw_first (n : nat) (s : pst) : outcome pst :=
  match n with
  | O => Ok s
  | S k =>
      match read_u8 (p_inp s) with
      | Ok (c, r) => b <- sl_set (p_buf s) (p_out s) c;; s1 <- advance s b r c;; raw_first k s1
      | Err e => Err e | Panic => Panic | Spin => Spin
      end
  end.

(* first line, while replen > 0: plane[out] = color *)
Fixpoint run_first (n : nat) (s : pst) : outcome pst :=
  match n with
  | O => Ok s
  | S k =>
      b <- sl_set (p_buf s) (p_out s) (p_color s);;
      s1 <- advance s b (p_inp s) (p_color s);; run_first k s1
  end.

(* x = read_u8()?; if x & 1 != 0 { x = x >> 1; x = x + 1; color = -x } else { x = x >> 1; color = x } *)
Definition delta_color (x : N) : outcome N :=
  if negb (x mod 2 =? 0) then
    x1 <- add_w p 8 (x / 2) 1;; Ok ((256 - x1) mod 256)
  else Ok (x / 2).

(* plane[last_line + indexw * 4] + color, truncated to u8 *)
Definition above_plus (last_line : N) (s : pst) (color : N) : outcome N :=
  o <- mul_w p 64 (p_iw s) 4;;
  i <- add_w p 64 last_line o;;
  a <- sl_get (p_buf s) i;;
  Ok ((a + color) mod 256).

Fixpoint raw_delta (n : nat) (last_line : N) (s : pst) : outcome pst :=
  match n with
  | O => Ok s
  | S k =>
      match read_u8 (p_inp s) with
      | Ok (x, r) =>
          c <- delta_color x;;
          v <- above_plus last_line s c;;
          b <- sl_set (p_buf s) (p_out s) v;;
          s1 <- advance s b r c;; raw_delta k last_line s1
      | Err e => Err e | Panic => Panic | Spin => Spin
      end
  end.

Fixpoint run_delta (n : nat) (last_line : N) (s : pst) : outcome pst :=
  match n with
  | O => Ok s
  | S k =>
      v <- above_plus last_line s (p_color s);;
      b <- sl_set (p_buf s) (p_out s) v;;
      s1 <- advance s b (p_inp s) (p_color s);; run_delta k last_line s1
  end.

(* control byte -> (collen, replen) *)
Definition segment (code : N) : N * N :=
  let replen := code mod 16 in                      (* code & 0xf *)
  let collen := (code / 16) mod 16 in               (* (code >> 4) & 0xf *)
  let revcode := (replen * 16 + collen) mod 256 in  (* (replen << 4) | collen *)
  if (revcode <=? 47) && (16 <=? revcode) then (0, revcode) else (collen, replen).

(* while indexw < width { one segment }; `first` = (last_line == 0) *)
Fixpoint line_loop (fuel : nat) (first : bool) (last_line : N) (s : pst) : outcome pst :=
  match fuel with
  | O => Spin
  | S k =>
      if p_iw s <? width then
        match read_u8 (p_inp s) with
        | Ok (code, r) =>
            let '(collen, replen) := segment code in
            e1 <- add_w p 64 (p_iw s) collen;;
            e2 <- add_w p 64 e1 replen;;
            if width <? e2 then Err EInvalidData          (* repaired: segment longer than the line *)
            else
              let s0 := mkP r (p_buf s) (p_out s) (p_iw s) (p_color s) in
              s1 <- (if first then raw_first (N.to_nat collen) s0 else raw_delta (N.to_nat collen) last_line s0);;
              s2 <- (if first then run_first (N.to_nat replen) s1 else run_delta (N.to_nat replen) last_line s1);;
              line_loop k first last_line s2
        | Err e => Err e | Panic => Panic | Spin => Spin
        end
      else Ok s
  end.

(* while indexh < height { .. }: n = number of iterations left *)
Fixpoint rows (n : nat) (indexh last_line : N) (inp : bytes) (b : buf) : outcome (bytes * buf) :=
  match n with
  | O => Ok (inp, b)
  | S k =>
      (* let mut out = (width * height * 4) - ((indexh + 1) * width * 4); *)
      wh <- mul_w p 64 width height;;
      wh4 <- mul_w p 64 wh 4;;
      i1 <- add_w p 64 indexh 1;;
      i1w <- mul_w p 64 i1 width;;
      i1w4 <- mul_w p 64 i1w 4;;
      out <- sub_w p 64 wh4 i1w4;;
      s <- line_loop (S (length inp)) (last_line =? 0) last_line (mkP inp b out 0 0);;
      ih <- add_w p 64 indexh 1;;
      rows k ih out (p_inp s) (p_buf s)
  end.

(* process_plane(input, width, height, &mut output[base..]) *)
Definition process_plane (inp : bytes) (b : buf) : outcome (bytes * buf) :=
  if base <=? blen b then rows (N.to_nat height) 0 0 inp b
  else Panic.                                        (* output[base..] with base > len *)

End Rle32.

(* rle_32_decompress(input, width, height, output) *)
Definition rle32 (p : prof) (width height : N) (input : bytes) (out : buf) : outcome buf :=
  match read_u8 input with
  | Ok (hdr, r) =>
      if negb (hdr =? 16) then Err EUnexpectedType
      else if (width =? 0) || (height =? 0) then Ok out      (* repaired: empty bitmap *)
      else
        match process_plane p width height 3 r out with
        | Ok (r3, o3) =>
          match process_plane p width height 2 r3 o3 with
          | Ok (r2, o2) =>
            match process_plane p width height 1 r2 o2 with
            | Ok (r1, o1) =>
              match process_plane p width height 0 r1 o1 with
              | Ok (_, o0) => Ok o0
              | Err e => Err e | Panic => Panic | Spin => Spin
              end
            | Err e => Err e | Panic => Panic | Spin => Spin
            end
          | Err e => Err e | Panic => Panic | Spin => Spin
          end
        | Err e => Err e | Panic => Panic | Spin => Spin
        end
  | Err e => Err e | Panic => Panic | Spin => Spin
  end.
