(* Skeletons: the part of a message layout that the source translator (translator/rs2v.py) reads
   off the Rust `component![..]` declarations -- field names, order, node kinds, widths,
   endianness, literal constants (Check constants, template defaults), Array factories and the
   DynOption closures.

   [skel_of : msg -> skel] computes the skeleton of a hand-written Gallina layout term.  The
   translator writes one skeleton per Rust layout function to Gen/Skel_gen.v; the generated tie
   lemmas (Gen/Tie/S_*.v) state, for every hand-written term registered in Gen/SkelMap.v,

        skel_tie mode branch <generated skeleton> <hand-written term>
      = ( mask (resolve mode branch gen) (skel_of hand) = resolve mode branch gen )

   and are proved by computation.  A generated skeleton can leave a VALUE open:
     VLit n   the Rust initialiser is a literal / enum constant: the model must carry n;
     VDef n   the initialiser is `param.unwrap_or(n)` (or folds to n when every optional parameter
              is None): a TEMPLATE term (mode Tmpl) must carry n, a parametric term (mode Param,
              universally quantified over its arguments) may carry anything;
     VPin     any other expression: not compared here -- its normalised source text is pinned
              (Pins.v / Gen/Pins_gen.v / Gen/Tie/P_*.v) and its value is tied by the differential run.
   No proofs about the model here; this file is part of the tie, not of any property proof. *)
From RdpV Require Import Base Msg.
Open Scope string_scope.
Open Scope list_scope.
Open Scope N_scope.

Inductive vnum := VLit (n : N) | VDef (n : N) | VPin.
Inductive vbytes := BLit (b : bytes) | BDef (b : bytes) | BPin.

(* the factory of an Array *)
Inductive afac (A : Type) :=
| FNew (elem : A)        (* Array::new(|| elem): reading builds elements from this template *)
| FFromTrame             (* Array::from_trame(..): reading panics *)
| FAny.                  (* not compared *)
Arguments FNew {A} _.
Arguments FFromTrame {A}.
Arguments FAny {A}.

Inductive skel :=
| SU8 (v : vnum)
| SU16 (e : endian) (v : vnum)
| SU32 (e : endian) (v : vnum)
| SBytes (v : vbytes)                                  (* Vec<u8>: [] reads to the end, n bytes read exactly n *)
| STrame (l : list skel)
| SComp (fs : list (string * skel))
| SCheck (s : skel)
| SDyn (s : skel) (c : clo)
| SOpt (s : skel)                                      (* Some(inner) *)
| SNone                                                (* Option::None (never written in a layout declaration) *)
| SArray (elems : option (list skel)) (f : afac skel)  (* elems = None: not compared *)
| SArrayDef (elem : skel)                              (* param.unwrap_or(Array::new(|| elem)); generated only *)
| SIf (cond : string) (a b : skel).                    (* if cond { a } else { b }; generated only *)

(* ---- closures: mask tests are compared in a canonical form with shift 0:
        ((x >> s) & m) == v   <->   (x & (m << s)) == (v << s)                                  *)
Fixpoint canon_cond (c : ccond) : ccond :=
  match c with
  | CBits s m v => CBits 0 (N.shiftl m s) (N.shiftl v s)
  | CNot c => CNot (canon_cond c)
  | COr a b => COr (canon_cond a) (canon_cond b)
  | CAnd a b => CAnd (canon_cond a) (canon_cond b)
  end.

Definition canon_clo (c : clo) : clo :=
  match c with
  | CloSkipIf c t => CloSkipIf (canon_cond c) t
  | other => other
  end.

(* ---- the skeleton of a hand-written layout term ---- *)
Fixpoint skel_of (m : msg) : skel :=
  match m with
  | MU8 v => SU8 (VLit v)
  | MU16 e v => SU16 e (VLit v)
  | MU32 e v => SU32 e (VLit v)
  | MBytes b => SBytes (BLit b)
  | MTrame l => STrame ((fix go (l : list msg) : list skel :=
                           match l with [] => [] | x :: tl => skel_of x :: go tl end) l)
  | MComp fs => SComp ((fix go (fs : list (string * msg)) : list (string * skel) :=
                          match fs with [] => [] | (n, v) :: tl => (n, skel_of v) :: go tl end) fs)
  | MCheck m' => SCheck (skel_of m')
  | MDyn m' c => SDyn (skel_of m') (canon_clo c)
  | MOpt None => SNone
  | MOpt (Some m') => SOpt (skel_of m')
  | MArray elems factory =>
      SArray (Some ((fix go (l : list msg) : list skel :=
                       match l with [] => [] | x :: tl => skel_of x :: go tl end) elems))
             (match factory with Some t => FNew (skel_of t) | None => FFromTrame end)
  end.

(* ---- modes ---- *)
Inductive tmode := Tmpl | Param.

Definition res_num (md : tmode) (v : vnum) : vnum :=
  match v, md with VDef n, Tmpl => VLit n | VDef _, Param => VPin | other, _ => other end.
Definition res_bytes (md : tmode) (v : vbytes) : vbytes :=
  match v, md with BDef b, Tmpl => BLit b | BDef _, Param => BPin | other, _ => other end.

(* [resolve md br g]: the generated skeleton as it is compared in mode [md]; [br] picks the branch of
   every SIf (true = then) *)
Fixpoint resolve (md : tmode) (br : bool) (g : skel) : skel :=
  match g with
  | SU8 v => SU8 (res_num md v)
  | SU16 e v => SU16 e (res_num md v)
  | SU32 e v => SU32 e (res_num md v)
  | SBytes v => SBytes (res_bytes md v)
  | STrame l => STrame ((fix go (l : list skel) : list skel :=
                           match l with [] => [] | x :: tl => resolve md br x :: go tl end) l)
  | SComp fs => SComp ((fix go (fs : list (string * skel)) : list (string * skel) :=
                          match fs with [] => [] | (n, v) :: tl => (n, resolve md br v) :: go tl end) fs)
  | SCheck s => SCheck (resolve md br s)
  | SDyn s c => SDyn (resolve md br s) (canon_clo c)
  | SOpt s => SOpt (resolve md br s)
  | SNone => SNone
  | SArray elems f =>
      SArray (match elems with
              | Some l => Some ((fix go (l : list skel) : list skel :=
                                   match l with [] => [] | x :: tl => resolve md br x :: go tl end) l)
              | None => None
              end)
             (match f with FNew t => FNew (resolve md br t) | FFromTrame => FFromTrame | FAny => FAny end)
  | SArrayDef t =>
      match md with
      | Tmpl => SArray (Some []) (FNew (resolve md br t))
      | Param => SArray None FAny
      end
  | SIf _ a b => if br then resolve md br a else resolve md br b
  end.

(* [mask pat h]: [h] with everything the pattern leaves open (VPin, BPin, elems = None, FAny) erased.
   Where the constructors differ [h] is returned unchanged, so the equality of the tie fails. *)
Definition mask_num (p h : vnum) : vnum := match p with VPin => VPin | _ => h end.
Definition mask_bytes (p h : vbytes) : vbytes := match p with BPin => BPin | _ => h end.

Fixpoint mask (pat h : skel) {struct pat} : skel :=
  match pat, h with
  | SU8 p, SU8 v => SU8 (mask_num p v)
  | SU16 _ p, SU16 e v => SU16 e (mask_num p v)
  | SU32 _ p, SU32 e v => SU32 e (mask_num p v)
  | SBytes p, SBytes v => SBytes (mask_bytes p v)
  | STrame pl, STrame hl =>
      STrame ((fix go (pl hl : list skel) {struct pl} : list skel :=
                 match pl, hl with
                 | p :: pt, x :: ht => mask p x :: go pt ht
                 | _, rest => rest
                 end) pl hl)
  | SComp pf, SComp hf =>
      SComp ((fix go (pf hf : list (string * skel)) {struct pf} : list (string * skel) :=
                match pf, hf with
                | (_, p) :: pt, (n, x) :: ht => (n, mask p x) :: go pt ht
                | _, rest => rest
                end) pf hf)
  | SCheck p, SCheck x => SCheck (mask p x)
  | SDyn p _, SDyn x c => SDyn (mask p x) c
  | SOpt p, SOpt x => SOpt (mask p x)
  | SArray pe pf, SArray he hf =>
      SArray (match pe, he with
              | None, _ => None
              | Some pl, Some hl =>
                  Some ((fix go (pl hl : list skel) {struct pl} : list skel :=
                           match pl, hl with
                           | p :: pt, x :: ht => mask p x :: go pt ht
                           | _, rest => rest
                           end) pl hl)
              | Some _, None => None
              end)
             (match pf, hf with
              | FAny, _ => FAny
              | FNew p, FNew x => FNew (mask p x)
              | _, other => other
              end)
  | _, other => other
  end.

Definition skel_tie (md : tmode) (br : bool) (gen : skel) (hand : msg) : Prop :=
  mask (resolve md br gen) (skel_of hand) = resolve md br gen.

(* a hand-written function that can fail (`outcome msg`): every message it returns has the skeleton *)
Definition skel_tie_o (md : tmode) (br : bool) (gen : skel) (hand : outcome msg) : Prop :=
  match hand with Ok m => skel_tie md br gen m | _ => True end.

(* ---- diagnostics (used by `check` when a tie lemma fails: names the first field that differs) ---- *)
Inductive sdiff :=
| DSame
| DDiff (path : string) (generated hand_written : skel).

Definition sub_path (path name : string) : string := path ++ "/" ++ name.

Definition vnum_eqb (a b : vnum) : bool :=
  match a, b with
  | VLit x, VLit y | VDef x, VDef y => x =? y
  | VPin, VPin => true
  | _, _ => false
  end.
Definition bytes_eqb (a b : bytes) : bool := if list_eq_dec N.eq_dec a b then true else false.
Definition vbytes_eqb (a b : vbytes) : bool :=
  match a, b with
  | BLit x, BLit y | BDef x, BDef y => bytes_eqb x y
  | BPin, BPin => true
  | _, _ => false
  end.
Definition endian_eqb (a b : endian) : bool := match a, b with BE, BE | LE, LE => true | _, _ => false end.

Fixpoint cexp_eqb (a b : cexp) : bool :=
  match a, b with
  | XSelf, XSelf => true
  | XSelfField x, XSelfField y => String.eqb x y
  | XSub e k, XSub e' k' | XSubSat e k, XSubSat e' k' | XAdd e k, XAdd e' k' | XMul e k, XMul e' k' =>
      cexp_eqb e e' && (k =? k')
  | _, _ => false
  end.
Fixpoint ccond_eqb (a b : ccond) : bool :=
  match a, b with
  | CBits s m v, CBits s' m' v' => (s =? s') && (m =? m') && (v =? v')
  | CNot x, CNot y => ccond_eqb x y
  | COr x y, COr x' y' | CAnd x y, CAnd x' y' => ccond_eqb x x' && ccond_eqb y y'
  | _, _ => false
  end.
Definition clo_eqb (a b : clo) : bool :=
  match a, b with
  | CloNone, CloNone => true
  | CloSize t e, CloSize t' e' => String.eqb t t' && cexp_eqb e e'
  | CloSkipIf c t, CloSkipIf c' t' => ccond_eqb c c' && String.eqb t t'
  | _, _ => false
  end.

(* [diff path pat h]: pat is a resolved generated skeleton, h the (unmasked) hand-written one *)
Fixpoint diff (path : string) (pat h : skel) {struct pat} : sdiff :=
  let here := DDiff path pat h in
  match pat, h with
  | SU8 p, SU8 v => if vnum_eqb p (mask_num p v) then DSame else here
  | SU16 e p, SU16 e' v => if endian_eqb e e' && vnum_eqb p (mask_num p v) then DSame else here
  | SU32 e p, SU32 e' v => if endian_eqb e e' && vnum_eqb p (mask_num p v) then DSame else here
  | SBytes p, SBytes v => if vbytes_eqb p (mask_bytes p v) then DSame else here
  | STrame pl, STrame hl =>
      (fix go (pl hl : list skel) {struct pl} : sdiff :=
         match pl, hl with
         | [], [] => DSame
         | p :: pt, x :: ht => match diff (sub_path path "[]") p x with DSame => go pt ht | d => d end
         | _, _ => here
         end) pl hl
  | SComp pf, SComp hf =>
      (fix go (pf hf : list (string * skel)) {struct pf} : sdiff :=
         match pf, hf with
         | [], [] => DSame
         | (n, p) :: pt, (n', x) :: ht =>
             if String.eqb n n'
             then match diff (sub_path path n) p x with DSame => go pt ht | d => d end
             else DDiff (sub_path path n) p (SComp [(n', x)])
         | (n, p) :: _, [] => DDiff (sub_path path n) p (SComp [])
         | [], (n', x) :: _ => DDiff (sub_path path n') (SComp []) x
         end) pf hf
  | SCheck p, SCheck x => diff path p x
  | SDyn p c, SDyn x c' =>
      match diff path p x with
      | DSame => if clo_eqb c c' then DSame else DDiff (sub_path path "<closure>") pat h
      | d => d
      end
  | SOpt p, SOpt x => diff path p x
  | SNone, SNone => DSame
  | SArray pe pf, SArray he hf =>
      match (match pf, hf with
             | FAny, _ => DSame
             | FNew p, FNew x => diff (sub_path path "<factory>") p x
             | FFromTrame, FFromTrame => DSame
             | _, _ => here
             end) with
      | DSame =>
          match pe, he with
          | None, _ => DSame
          | Some pl, Some hl =>
              (fix go (pl hl : list skel) {struct pl} : sdiff :=
                 match pl, hl with
                 | [], [] => DSame
                 | p :: pt, x :: ht => match diff (sub_path path "[]") p x with DSame => go pt ht | d => d end
                 | _, _ => here
                 end) pl hl
          | Some _, None => here
          end
      | d => d
      end
  | _, _ => here
  end.

Definition skel_diff (md : tmode) (br : bool) (gen : skel) (hand : msg) : sdiff :=
  diff "" (resolve md br gen) (skel_of hand).

(* ---- enums ---- *)
Fixpoint inb (x : N) (l : list N) : bool :=
  match l with [] => false | y :: tl => (x =? y) || inb x tl end.

Fixpoint range_from (start : N) (n : nat) : list N :=
  match n with O => [] | S k => start :: range_from (N.succ start) k end.
Definition range (n : N) : list N := range_from 0 (N.to_nat n).

Lemma in_range_from (n : nat) (start x : N) : start <= x -> x < start + N.of_nat n -> In x (range_from start n).
Proof.
  revert start. induction n as [|k IH]; intros start H1 H2; [lia|].
  cbn [range_from]. destruct (N.eq_dec x start) as [->|Hne]; [left; reflexivity|].
  right. apply IH; lia.
Qed.

Lemma sweep_range (n : N) (f : N -> bool) : forallb f (range n) = true -> forall x, x < n -> f x = true.
Proof.
  intros H x Hx. rewrite forallb_forall in H. apply H. unfold range.
  apply in_range_from; [lia|]. rewrite N2Nat.id. lia.
Qed.

Definition enum_vals (e : list (string * N)) : list N := map snd e.

Fixpoint enum_val (e : list (string * N)) (name : string) : option N :=
  match e with
  | [] => None
  | (n, v) :: tl => if String.eqb n name then Some v else enum_val tl name
  end.

(* the hand-written known-value predicate [k] is exactly membership in the generated discriminant
   list, for every value below [bound] (and on every generated discriminant itself) *)
Definition known_agrees_b (k : N -> bool) (vals : list N) (bound : N) : bool :=
  forallb (fun t => Bool.eqb (k t) (inb t vals)) (range bound) && forallb k vals.

Lemma known_agrees_sound k vals bound :
  known_agrees_b k vals bound = true ->
  (forall t, t < bound -> k t = inb t vals) /\ (forall t, In t vals -> k t = true).
Proof.
  unfold known_agrees_b. intros H. apply andb_true_iff in H. destruct H as [H1 H2]. split.
  - intros t Ht. apply Bool.eqb_prop. exact (sweep_range bound _ H1 t Ht).
  - intros t Ht. rewrite forallb_forall in H2. apply H2, Ht.
Qed.

(* a From<uN> table: the arms in source order, then the default *)
Fixpoint from_table (arms : list (N * string)) (default : string) (x : N) : string :=
  match arms with
  | [] => default
  | (v, name) :: tl => if x =? v then name else from_table tl default x
  end.

(* every arm maps a discriminant of the enum to the variant that has it *)
Definition from_consistent_b (e : list (string * N)) (arms : list (N * string)) : bool :=
  forallb (fun a => match enum_val e (snd a) with Some v => v =? fst a | None => false end) arms.
