(* Flat buffers for the bitmap codec models (Rle16.v, Rle32.v, Bitmap.v).

   A Rust `Vec<T>` / slice is modelled as an explicit length plus a finite map from
   index to element (binary trie over the bits of index+1, absent = 0, which is what
   `vec![0; n]` contains).  EVERY access goes through [bget]/[bset], which compare the
   index with the length and answer [Panic] when it is out of range -- exactly Rust's
   bounds check.  Nothing in the representation says that an index is in range: that is
   what C08 proves.  No proofs in this file. *)
From RdpV Require Import Base.

Notation "x <- e ;; f" := (obind e (fun x => f)) (at level 61, e at next level, right associativity).

Inductive tree := Leaf | Node (l : tree) (v : N) (r : tree).

Fixpoint tget (t : tree) (p : positive) : N :=
  match t with
  | Leaf => 0
  | Node l v r => match p with xH => v | xO q => tget l q | xI q => tget r q end
  end.

Fixpoint tset (t : tree) (p : positive) (v : N) : tree :=
  match p with
  | xH => match t with Leaf => Node Leaf v Leaf | Node l _ r => Node l v r end
  | xO q => match t with Leaf => Node (tset Leaf q v) 0 Leaf | Node l w r => Node (tset l q v) w r end
  | xI q => match t with Leaf => Node Leaf 0 (tset Leaf q v) | Node l w r => Node l w (tset r q v) end
  end.

Record buf := mkBuf { blen : N; btree : tree }.

(* vec![0; n] *)
Definition bmake (n : N) : buf := mkBuf n Leaf.

(* b[i] *)
Definition bget (b : buf) (i : N) : outcome N :=
  if i <? blen b then Ok (tget (btree b) (N.succ_pos i)) else Panic.

(* b[i] = v *)
Definition bset (b : buf) (i v : N) : outcome buf :=
  if i <? blen b then Ok (mkBuf (blen b) (tset (btree b) (N.succ_pos i) v)) else Panic.

(* unchecked primitives, used only below a check *)
Definition bget_raw (b : buf) (i : N) : N := tget (btree b) (N.succ_pos i).
Definition bset_raw (b : buf) (i v : N) : buf := mkBuf (blen b) (tset (btree b) (N.succ_pos i) v).

Fixpoint of_list_from (l : bytes) (i : N) (t : tree) : tree :=
  match l with
  | [] => t
  | v :: r => of_list_from r (i + 1) (tset t (N.succ_pos i) v)
  end.
Definition of_list (l : bytes) : buf := mkBuf (nlen l) (of_list_from l 0 Leaf).

(* elements i-1, i-2, ..., 0 pushed in front of acc (n = i as a nat) *)
Fixpoint to_list_down (n : nat) (i : N) (b : buf) (acc : list N) : list N :=
  match n with
  | O => acc
  | S k => let j := N.pred i in to_list_down k j b (bget_raw b j :: acc)
  end.
Definition to_list (b : buf) : list N := to_list_down (N.to_nat (blen b)) (blen b) b [].

(* dst[doff .. doff+n) = src[soff .. soff+n), element by element (no checks here) *)
Fixpoint blit (n : nat) (dst : buf) (doff : N) (src : buf) (soff : N) : buf :=
  match n with
  | O => dst
  | S k => blit k (bset_raw dst doff (bget_raw src soff)) (doff + 1) src (soff + 1)
  end.

(* dst[a..b].copy_from_slice(&src[c..d]) : both slice expressions are bounds-checked
   (start <= end <= len) and copy_from_slice panics when the lengths differ *)
Definition copy_slice (dst : buf) (a b : N) (src : buf) (c d : N) : outcome buf :=
  if (a <=? b) && (b <=? blen dst) && (c <=? d) && (d <=? blen src) && (b - a =? d - c)
  then Ok (blit (N.to_nat (b - a)) dst a src c)
  else Panic.

(* io::Cursor over the input: read_u8 / read_u16::<LittleEndian>; a short read is Error::Io *)
Definition read_u8 (inp : bytes) : outcome (N * bytes) :=
  match inp with
  | b :: r => Ok (b, r)
  | [] => Err EIo
  end.
Definition read_u16le (inp : bytes) : outcome (N * bytes) :=
  match inp with
  | lo :: hi :: r => Ok (of_le16 lo hi, r)
  | _ => Err EIo
  end.
