(* Proofs about the DER model (Der.v): the primitive codecs (identifier,
   definite length, non-negative INTEGER contents) round-trip for every input,
   the encoding has the TLV shape with an exact length, and the schema-directed
   decoder inverts the encoder for every well-formed value (unbounded, by
   induction over the nested value type). *)
From RdpV Require Import Base Der.
Open Scope list_scope.
Open Scope N_scope.

Ltac Zify.zify_post_hook ::= Z.div_mod_to_equations.

(* ---------- induction principle for the nested inductive ---------- *)

Section DvalInd.
Variable P : dval -> Prop.
Hypothesis HInt : forall n, P (DInt n).
Hypothesis HEnum : forall n, P (DEnum n).
Hypothesis HBool : forall b, P (DBool b).
Hypothesis HOctets : forall b, P (DOctets b).
Hypothesis HSeq : forall l, Forall P l -> P (DSeq l).
Hypothesis HSeqOf : forall l, Forall P l -> P (DSeqOf l).
Hypothesis HExplicit : forall c t v, P v -> P (DExplicit c t v).
Hypothesis HImplicit : forall c t v, P v -> P (DImplicit c t v).

Fixpoint dval_ind' (v : dval) : P v :=
  match v with
  | DInt n => HInt n
  | DEnum n => HEnum n
  | DBool b => HBool b
  | DOctets b => HOctets b
  | DSeq l =>
      HSeq l ((fix go (l : list dval) : Forall P l :=
                 match l with [] => Forall_nil _ | x :: tl => Forall_cons x (dval_ind' x) (go tl) end) l)
  | DSeqOf l =>
      HSeqOf l ((fix go (l : list dval) : Forall P l :=
                   match l with [] => Forall_nil _ | x :: tl => Forall_cons x (dval_ind' x) (go tl) end) l)
  | DExplicit c t v' => HExplicit c t v' (dval_ind' v')
  | DImplicit c t v' => HImplicit c t v' (dval_ind' v')
  end.
End DvalInd.

(* ---------- split_n ---------- *)

Lemma split_n_0 : forall b, split_n 0 b = Some ([], b).
Proof. destruct b; reflexivity. Qed.

Lemma split_n_cons : forall n x tl, n <> 0 ->
  split_n n (x :: tl) =
  match split_n (n - 1) tl with Some (h, r) => Some (x :: h, r) | None => None end.
Proof.
  intros n x tl Hn. cbn [split_n].
  destruct (n =? 0) eqn:E; [apply N.eqb_eq in E; contradiction | reflexivity].
Qed.

Lemma split_n_app : forall a r, split_n (nlen a) (a ++ r) = Some (a, r).
Proof.
  induction a as [|x a IH]; intros r.
  - rewrite nlen_nil. apply split_n_0.
  - rewrite nlen_cons. cbn [app]. rewrite split_n_cons by lia.
    replace (1 + nlen a - 1) with (nlen a) by lia. rewrite IH. reflexivity.
Qed.

(* ---------- digit strings ---------- *)

Lemma be_digits_length : forall base k n, length (be_digits base k n) = k.
Proof. induction k as [|k IH]; intros n; cbn [be_digits length]; [reflexivity | now rewrite IH]. Qed.

Lemma of_digits_be_digits : forall base, base <> 0 -> forall k acc n,
  of_digits base acc (be_digits base k n) = acc * base ^ N.of_nat k + n mod base ^ N.of_nat k.
Proof.
  intros base Hb. induction k as [|k IH]; intros acc n.
  - cbn [be_digits of_digits fold_left N.of_nat]. rewrite N.pow_0_r, N.mod_1_r. lia.
  - cbn [be_digits]. unfold of_digits in *. cbn [fold_left]. rewrite IH.
    rewrite Nat2N.inj_succ, N.pow_succ_r'.
    assert (Hp : base ^ N.of_nat k <> 0) by (apply N.pow_nonzero; exact Hb).
    set (p := base ^ N.of_nat k) in *.
    rewrite (N.mul_comm base p), (N.mod_mul_r n p base) by assumption.
    ring.
Qed.

Lemma of_be_be_bytes : forall k n, n < 256 ^ N.of_nat k -> of_be (be_bytes k n) = n.
Proof.
  intros k n H. unfold of_be, be_bytes. rewrite of_digits_be_digits by discriminate.
  rewrite N.mod_small by exact H. lia.
Qed.

(* Number of digits: for n <> 0, [ndigits] is the exact digit count. *)
Lemma ndigits8_spec : forall n, n <> 0 ->
  exists k', ndigits 8 n = S k' /\ 256 ^ N.of_nat k' <= n < 256 ^ N.of_nat (S k').
Proof.
  intros n Hn. unfold ndigits.
  rewrite (N.size_log2 n Hn).
  destruct (N.log2_spec n) as [Hlo Hhi]; [lia|].
  set (L := N.log2 n) in *.
  replace ((N.succ L + (8 - 1)) / 8) with (N.succ (L / 8)) by lia.
  exists (N.to_nat (L / 8)). split; [apply N2Nat.inj_succ|].
  rewrite Nat2N.inj_succ, N2Nat.id.
  change 256 with (2 ^ 8). rewrite <- !N.pow_mul_r. split.
  - eapply N.le_trans; [|exact Hlo]. apply N.pow_le_mono_r; lia.
  - eapply N.lt_le_trans; [exact Hhi|]. apply N.pow_le_mono_r; lia.
Qed.

Lemma ndigits7_spec : forall n, n <> 0 ->
  exists k', ndigits 7 n = S k' /\ 128 ^ N.of_nat k' <= n < 128 ^ N.of_nat (S k').
Proof.
  intros n Hn. unfold ndigits.
  rewrite (N.size_log2 n Hn).
  destruct (N.log2_spec n) as [Hlo Hhi]; [lia|].
  set (L := N.log2 n) in *.
  replace ((N.succ L + (7 - 1)) / 7) with (N.succ (L / 7)) by lia.
  exists (N.to_nat (L / 7)). split; [apply N2Nat.inj_succ|].
  rewrite Nat2N.inj_succ, N2Nat.id.
  change 128 with (2 ^ 7). rewrite <- !N.pow_mul_r. split.
  - eapply N.le_trans; [|exact Hlo]. apply N.pow_le_mono_r; lia.
  - eapply N.lt_le_trans; [exact Hhi|]. apply N.pow_le_mono_r; lia.
Qed.

(* ---------- definite length: round trip for EVERY n ---------- *)

Lemma nlen_be_bytes : forall k n, nlen (be_bytes k n) = N.of_nat k.
Proof. intros. unfold nlen, be_bytes. now rewrite be_digits_length. Qed.

Theorem dec_len_enc_len : forall n rest, dec_len (enc_len n ++ rest) = Some (n, rest).
Proof.
  intros n rest. unfold enc_len.
  destruct (n <? 128) eqn:Hs.
  - cbn [app dec_len]. rewrite Hs. reflexivity.
  - apply N.ltb_ge in Hs.
    destruct (ndigits8_spec n) as [k' [Hk [Hlo Hhi]]]; [lia|].
    rewrite Hk. cbn [app dec_len].
    destruct (128 + N.of_nat (S k') <? 128) eqn:E; [apply N.ltb_lt in E; lia|]. clear E.
    replace (128 + N.of_nat (S k') - 128) with (nlen (be_bytes (S k') n))
      by (rewrite nlen_be_bytes; lia).
    rewrite split_n_app.
    pose proof (of_be_be_bytes (S k') n Hhi) as Hof.
    remember (be_bytes (S k') n) as ds eqn:Hds.
    unfold be_bytes in Hds. cbn [be_digits] in Hds.
    assert (Hp : 256 ^ N.of_nat k' <> 0) by (apply N.pow_nonzero; discriminate).
    rewrite Nat2N.inj_succ, N.pow_succ_r' in Hhi.
    set (p := 256 ^ N.of_nat k') in *.
    assert (Hd : (n / p) mod 256 <> 0).
    { assert (H1 : 1 <= n / p) by (apply N.div_le_lower_bound; [exact Hp | lia]).
      assert (H2 : n / p < 256) by (apply N.div_lt_upper_bound; [exact Hp | lia]).
      rewrite N.mod_small by exact H2. lia. }
    subst ds.
    destruct ((n / p) mod 256 =? 0) eqn:E; [apply N.eqb_eq in E; contradiction|]. clear E.
    rewrite Hof.
    destruct (n <? 128) eqn:E; [apply N.ltb_lt in E; lia|]. reflexivity.
Qed.

(* ---------- INTEGER contents: round trip for EVERY n >= 0 ---------- *)

Lemma enc_int_bounds : forall n,
  let j := N.size n / 8 in
  n < 128 * 256 ^ j /\ (j <> 0 -> 128 * 256 ^ (j - 1) <= n).
Proof.
  intros n j. subst j.
  destruct (N.eq_dec n 0) as [-> | Hn].
  - cbn. split; [lia | intros H; contradiction].
  - rewrite (N.size_log2 n Hn).
    destruct (N.log2_spec n) as [Hlo Hhi]; [lia|].
    set (L := N.log2 n) in *.
    set (j := N.succ L / 8).
    change 128 with (2 ^ 7). change 256 with (2 ^ 8).
    rewrite <- !N.pow_mul_r, <- !N.pow_add_r. split.
    + eapply N.lt_le_trans; [exact Hhi|]. apply N.pow_le_mono_r; [lia|]. subst j. lia.
    + intros Hj. eapply N.le_trans; [|exact Hlo]. apply N.pow_le_mono_r; [lia|]. subst j. lia.
Qed.

Theorem dec_int_enc_int : forall n, dec_int (enc_int n) = Some n.
Proof.
  intros n. unfold enc_int.
  destruct (enc_int_bounds n) as [Hhi Hlo]. cbn zeta in Hhi, Hlo.
  set (j := N.size n / 8) in *.
  replace (N.to_nat (j + 1)) with (S (N.to_nat j)) by lia.
  assert (Hof : of_be (be_bytes (S (N.to_nat j)) n) = n).
  { apply of_be_be_bytes. rewrite Nat2N.inj_succ, N2Nat.id, N.pow_succ_r'. lia. }
  remember (be_bytes (S (N.to_nat j)) n) as ds eqn:Hds.
  unfold be_bytes in Hds. cbn [be_digits] in Hds. rewrite N2Nat.id in Hds.
  assert (Hp : 256 ^ j <> 0) by (apply N.pow_nonzero; discriminate).
  assert (Hx : n / 256 ^ j < 128) by (apply N.div_lt_upper_bound; [exact Hp | lia]).
  rewrite (N.mod_small (n / 256 ^ j) 256) in Hds by lia.
  destruct (N.to_nat j) as [|j'] eqn:Hj.
  - (* single octet *)
    cbn [be_digits] in Hds. subst ds. cbn [dec_int].
    destruct (128 <=? n / 256 ^ j) eqn:E; [apply N.leb_le in E; lia|].
    assert (j = 0) by lia. subst j. rewrite H in *. rewrite N.pow_0_r, N.div_1_r. reflexivity.
  - cbn [be_digits] in Hds. subst ds. cbn [dec_int].
    destruct (128 <=? n / 256 ^ j) eqn:E; [apply N.leb_le in E; lia|]. clear E.
    assert (Hjj : j = N.succ (N.of_nat j')) by lia.
    assert (Hj0 : j <> 0) by lia. specialize (Hlo Hj0).
    replace (j - 1) with (N.of_nat j') in Hlo by lia.
    assert (Hq : 256 ^ N.of_nat j' <> 0) by (apply N.pow_nonzero; discriminate).
    destruct ((n / 256 ^ j =? 0) && ((n / 256 ^ N.of_nat j') mod 256 <? 128)) eqn:E.
    + exfalso. apply andb_true_iff in E. destruct E as [E1 E2].
      apply N.eqb_eq in E1. apply N.ltb_lt in E2.
      rewrite Hjj, N.pow_succ_r' in E1, Hhi.
      set (q := 256 ^ N.of_nat j') in *.
      assert (Hn : n < 256 * q).
      { destruct (N.lt_ge_cases n (256 * q)) as [|Hge]; [assumption|].
        assert (1 <= n / (256 * q)) by (apply N.div_le_lower_bound; lia). lia. }
      assert (H1 : n / q < 256) by (apply N.div_lt_upper_bound; [exact Hq | lia]).
      assert (H2 : 128 <= n / q) by (apply N.div_le_lower_bound; [exact Hq | lia]).
      rewrite N.mod_small in E2 by exact H1. lia.
    + rewrite Hof. reflexivity.
Qed.

(* ---------- identifier octets: round trip for every class / bit / tag ---------- *)

Lemma tclass_eqb_refl : forall c, tclass_eqb c c = true.
Proof. destruct c; reflexivity. Qed.

Lemma tclass_eqb_eq : forall a b, tclass_eqb a b = true -> a = b.
Proof. destruct a, b; cbn; intros H; try reflexivity; discriminate. Qed.

Lemma class_of_bits_class_bits : forall c, class_of_bits (class_bits c) = c.
Proof. destruct c; reflexivity. Qed.

Lemma class_bits_lt : forall c, class_bits c < 4.
Proof. destruct c; cbn; lia. Qed.

Lemma first_octet_arith : forall cb kb low, cb < 4 -> kb < 2 -> low < 32 ->
  let x := cb * 64 + kb * 32 + low in
  x < 256 /\ x / 64 = cb /\ (x / 32) mod 2 = kb /\ x mod 32 = low.
Proof.
  intros cb kb low H1 H2 H3 x. subst x. repeat split.
  - lia.
  - lia.
  - replace (cb * 64 + kb * 32 + low) with (low + (kb + cb * 2) * 32) by lia.
    rewrite N.div_add by discriminate. rewrite (N.div_small low 32) by exact H3.
    rewrite N.add_0_l, N.mod_add by discriminate. apply N.mod_small. exact H2.
  - replace (cb * 64 + kb * 32 + low) with (low + (kb + cb * 2) * 32) by lia.
    rewrite N.mod_add by discriminate. apply N.mod_small. exact H3.
Qed.

Lemma first_octet : forall (c : tclass) (k : bool) (low : N), low < 32 ->
  let x := class_bits c * 64 + (if k then 32 else 0) + low in
  (256 <=? x) = false /\ class_of_bits (x / 64) = c /\ ((x / 32) mod 2 =? 1) = k /\ x mod 32 = low.
Proof.
  intros c k low Hl x.
  destruct (first_octet_arith (class_bits c) (if k then 1 else 0) low
              (class_bits_lt c) ltac:(destruct k; lia) Hl) as [H1 [H2 [H3 H4]]].
  cbn zeta in H1, H2, H3, H4.
  replace (class_bits c * 64 + (if k then 1 else 0) * 32 + low) with x in H1, H2, H3, H4
    by (subst x; destruct k; lia).
  repeat split.
  - apply N.leb_gt. exact H1.
  - rewrite H2. apply class_of_bits_class_bits.
  - rewrite H3. destruct k; reflexivity.
  - exact H4.
Qed.

Lemma dec_b128_enc_b128 : forall k acc n rest,
  dec_b128 acc (enc_b128 (S k) n ++ rest) =
  Some (acc * 128 ^ N.of_nat (S k) + n mod 128 ^ N.of_nat (S k), rest).
Proof.
  induction k as [|k IH]; intros acc n rest.
  - cbn [enc_b128 app dec_b128 N.of_nat]. rewrite N.pow_0_r, N.div_1_r, N.add_0_r.
    assert (Hm : n mod 128 < 128) by (apply N.mod_lt; discriminate).
    destruct (256 <=? n mod 128) eqn:E; [apply N.leb_le in E; lia|]. clear E.
    destruct (n mod 128 <? 128) eqn:E; [|apply N.ltb_ge in E; lia]. clear E.
    change (N.pos (Pos.of_succ_nat 0)) with 1. rewrite N.pow_1_r. reflexivity.
  - remember (S k) as k1 eqn:Hk1.
    cbn [enc_b128]. rewrite Hk1 at 2. cbn [app dec_b128].
    assert (Hp : 128 ^ N.of_nat k1 <> 0) by (apply N.pow_nonzero; discriminate).
    set (p := 128 ^ N.of_nat k1) in *.
    assert (Hm : (n / p) mod 128 < 128) by (apply N.mod_lt; discriminate).
    set (d := (n / p) mod 128) in *.
    destruct (256 <=? d + 128) eqn:E; [apply N.leb_le in E; lia|]. clear E.
    destruct (d + 128 <? 128) eqn:E; [apply N.ltb_lt in E; lia|]. clear E.
    replace (d + 128 - 128) with d by lia.
    rewrite IH. f_equal. f_equal.
    rewrite (Nat2N.inj_succ k1), N.pow_succ_r'. fold p.
    rewrite (N.mul_comm 128 p), (N.mod_mul_r n p 128) by (assumption || discriminate).
    fold d. ring.
Qed.

Theorem dec_ident_enc_ident : forall c k t rest,
  dec_ident (enc_ident c k t ++ rest) = Some ((c, k, t), rest).
Proof.
  intros c k t rest. unfold enc_ident.
  destruct (t <? 31) eqn:Ht.
  - apply N.ltb_lt in Ht.
    destruct (first_octet c k t ltac:(lia)) as [H1 [H2 [H3 H4]]]. cbn zeta in H1, H2, H3, H4.
    cbn [app dec_ident]. rewrite H1, H2, H3, H4.
    destruct (t <? 31) eqn:E; [reflexivity | apply N.ltb_ge in E; lia].
  - apply N.ltb_ge in Ht.
    destruct (first_octet c k 31 ltac:(lia)) as [H1 [H2 [H3 H4]]]. cbn zeta in H1, H2, H3, H4.
    destruct (ndigits7_spec t) as [k' [Hk [Hlo Hhi]]]; [lia|].
    rewrite Hk. cbn [app dec_ident]. rewrite H1, H2, H3, H4.
    change (31 <? 31) with false. cbv iota.
    pose proof (dec_b128_enc_b128 k' 0 t rest) as Hdec.
    rewrite (N.mod_small t _ Hhi), N.mul_0_l, N.add_0_l in Hdec.
    remember (enc_b128 (S k') t) as e eqn:He.
    cbn [enc_b128] in He.
    assert (Hp : 128 ^ N.of_nat k' <> 0) by (apply N.pow_nonzero; discriminate).
    rewrite Nat2N.inj_succ, N.pow_succ_r' in Hhi.
    set (p := 128 ^ N.of_nat k') in *.
    assert (Hd : 1 <= (t / p) mod 128 < 128).
    { assert (G1 : 1 <= t / p) by (apply N.div_le_lower_bound; [exact Hp | lia]).
      assert (G2 : t / p < 128) by (apply N.div_lt_upper_bound; [exact Hp | lia]).
      rewrite N.mod_small by exact G2. lia. }
    set (d := (t / p) mod 128) in *.
    subst e. cbn [app] in Hdec |- *.
    destruct (d + match k' with O => 0 | S _ => 128 end =? 128) eqn:E.
    { apply N.eqb_eq in E. destruct k'; lia. }
    clear E. rewrite Hdec.
    destruct (t <? 31) eqn:E; [apply N.ltb_lt in E; lia | reflexivity].
Qed.

(* ---------- TLV ---------- *)

Lemma dec_tlv_tlv : forall ct k content rest,
  dec_tlv ct k (tlv ct k content ++ rest) = Some (content, rest).
Proof.
  intros ct k content rest. unfold tlv, dec_tlv.
  rewrite <- !app_assoc. rewrite dec_ident_enc_ident.
  rewrite tclass_eqb_refl, Bool.eqb_reflx, N.eqb_refl. cbn [andb].
  rewrite dec_len_enc_len. apply split_n_app.
Qed.

Lemma enc_ident_nonempty : forall c k t, exists y ys, enc_ident c k t = y :: ys.
Proof. intros. unfold enc_ident. destruct (t <? 31); eauto. Qed.

Lemma tlv_nonempty : forall ct k content, exists y ys, tlv ct k content = y :: ys.
Proof.
  intros. unfold tlv. destruct (enc_ident_nonempty (fst ct) k (snd ct)) as [y [ys E]].
  rewrite E. cbn [app]. eauto.
Qed.

Lemma der_enc_nonempty : forall v o, exists y ys, der_enc o v = y :: ys.
Proof.
  induction v as [n|n|b|b|l|l|c t v IH|c t v IH]; intros o; cbn [der_enc];
    try apply tlv_nonempty.
  apply IH.
Qed.

(* ---------- shape of an encoding: identifier, exact length, contents ---------- *)

Lemma der_enc_shape : forall v o,
  der_enc o v = tlv (pick o (der_tag v)) (der_constructed v) (der_content v).
Proof.
  induction v as [n|n|b|b|l|l|c t v IH|c t v IH]; intros o;
    cbn [der_enc der_tag der_constructed der_content]; try reflexivity.
  rewrite IH. reflexivity.
Qed.

Theorem der_encode_length : forall v,
  der_encode v =
  enc_ident (fst (der_tag v)) (der_constructed v) (snd (der_tag v))
    ++ enc_len (nlen (der_content v)) ++ der_content v.
Proof. intros v. unfold der_encode. rewrite der_enc_shape. reflexivity. Qed.

(* ---------- the round trip ---------- *)

Definition rt (v : dval) : Prop :=
  forall o sch rest, dwf v = true -> conforms sch v = true ->
    der_dec o sch (der_enc o v ++ rest) = Some (v, rest).

Lemma dec_seq_enc : forall l, Forall rt l -> forall ss rest,
  forallb dwf l = true -> conforms (SSeq ss) (DSeq l) = true ->
  dec_seq (fun s' b' => der_dec None s' b') ss (concat (map (der_enc None) l) ++ rest) = Some (l, rest).
Proof.
  induction 1 as [|x l Hx Hl IH]; intros ss rest Hwf Hc.
  - destruct ss as [|s ss]; [reflexivity | discriminate Hc].
  - destruct ss as [|s ss]; [discriminate Hc|].
    cbn [conforms] in Hc. apply andb_true_iff in Hc. destruct Hc as [Hc1 Hc2].
    cbn [forallb] in Hwf. apply andb_true_iff in Hwf. destruct Hwf as [Hw1 Hw2].
    cbn [map concat dec_seq]. rewrite <- app_assoc.
    rewrite (Hx None s _ Hw1 Hc1).
    fold (dec_seq (fun s' b' => der_dec None s' b')).
    rewrite (IH ss rest Hw2 Hc2). reflexivity.
Qed.

Lemma dec_many_nil : forall f fuel, dec_many f fuel [] = Some [].
Proof. intros f fuel. destruct fuel; reflexivity. Qed.

Lemma dec_many_step : forall f fuel b, b <> [] ->
  dec_many f (S fuel) b =
  match f b with
  | Some (v, b') => match dec_many f fuel b' with Some vs => Some (v :: vs) | None => None end
  | None => None
  end.
Proof. intros f fuel b Hb. destruct b; [contradiction | reflexivity]. Qed.

Lemma dec_many_enc : forall s l, Forall rt l -> forall fuel,
  forallb dwf l = true -> forallb (conforms s) l = true ->
  (length (concat (map (der_enc None) l)) <= fuel)%nat ->
  dec_many (fun b' => der_dec None s b') fuel (concat (map (der_enc None) l)) = Some l.
Proof.
  intros s. induction 1 as [|x l Hx Hl IH]; intros fuel Hwf Hc Hlen.
  - cbn [map concat]. apply dec_many_nil.
  - cbn [forallb] in Hwf, Hc.
    apply andb_true_iff in Hwf. destruct Hwf as [Hw1 Hw2].
    apply andb_true_iff in Hc. destruct Hc as [Hc1 Hc2].
    cbn [map concat] in Hlen |- *.
    destruct (der_enc_nonempty x None) as [y [ys E]].
    rewrite app_length in Hlen.
    assert (Hx1 : (1 <= length (der_enc None x))%nat) by (rewrite E; cbn [length]; lia).
    destruct fuel as [|fuel]; [lia|].
    rewrite dec_many_step by (rewrite E; discriminate).
    rewrite (Hx None s _ Hw1 Hc1).
    rewrite (IH fuel Hw2 Hc2) by lia. reflexivity.
Qed.

Lemma der_dec_enc : forall v, rt v.
Proof.
  induction v as [n|n|b|b|l IHl|l IHl|c t v IH|c t v IH] using dval_ind';
    intros o sch rest Hwf Hc; destruct sch; try discriminate Hc;
    cbn [der_enc der_dec].
  - (* INTEGER *)
    rewrite dec_tlv_tlv, dec_int_enc_int. cbn [dwf] in Hwf. rewrite Hwf. reflexivity.
  - (* ENUMERATED *)
    rewrite dec_tlv_tlv, dec_int_enc_int. cbn [dwf] in Hwf. rewrite Hwf. reflexivity.
  - (* BOOLEAN *)
    rewrite dec_tlv_tlv. destruct b; reflexivity.
  - (* OCTET STRING *)
    rewrite dec_tlv_tlv. reflexivity.
  - (* SEQUENCE *)
    rewrite dec_tlv_tlv. cbn [dwf] in Hwf.
    pose proof (dec_seq_enc l IHl l0 [] Hwf Hc) as E. rewrite app_nil_r in E.
    rewrite E. reflexivity.
  - (* SEQUENCE OF *)
    rewrite dec_tlv_tlv. cbn [dwf] in Hwf. cbn [conforms] in Hc.
    rewrite (dec_many_enc sch l IHl _ Hwf Hc) by lia. reflexivity.
  - (* EXPLICIT *)
    cbn [dwf] in Hwf. cbn [conforms] in Hc.
    apply andb_true_iff in Hc. destruct Hc as [Hc Hc3].
    apply andb_true_iff in Hc. destruct Hc as [Hc1 Hc2].
    apply tclass_eqb_eq in Hc1. apply N.eqb_eq in Hc2. subst.
    rewrite dec_tlv_tlv.
    pose proof (IH None sch [] Hwf Hc3) as E. rewrite app_nil_r in E.
    rewrite E. reflexivity.
  - (* IMPLICIT *)
    cbn [dwf] in Hwf. cbn [conforms] in Hc.
    apply andb_true_iff in Hc. destruct Hc as [Hc Hc3].
    apply andb_true_iff in Hc. destruct Hc as [Hc1 Hc2].
    apply tclass_eqb_eq in Hc1. apply N.eqb_eq in Hc2. subst.
    rewrite (IH _ sch rest Hwf Hc3). reflexivity.
Qed.

Theorem der_roundtrip : forall v sch rest,
  dwf v = true -> conforms sch v = true ->
  der_decode sch (der_encode v ++ rest) = Some (v, rest).
Proof. intros v sch rest Hwf Hc. exact (der_dec_enc v None sch rest Hwf Hc). Qed.

Corollary der_roundtrip_all : forall v sch,
  dwf v = true -> conforms sch v = true ->
  der_decode_all sch (der_encode v) = Some v.
Proof.
  intros v sch Hwf Hc. unfold der_decode_all.
  pose proof (der_roundtrip v sch [] Hwf Hc) as E. rewrite app_nil_r in E.
  rewrite E. reflexivity.
Qed.

(* ---------- the shapes rdp-rs uses, for EVERY payload ---------- *)

Ltac inst_rt := intros; apply der_roundtrip; reflexivity.
Ltac inst_rt_all := intros; apply der_roundtrip_all; reflexivity.

Corollary domain_parameters_roundtrip : forall a b c d e f g h rest,
  a < 4294967296 -> b < 4294967296 -> c < 4294967296 -> d < 4294967296 ->
  e < 4294967296 -> f < 4294967296 -> g < 4294967296 -> h < 4294967296 ->
  der_decode domain_parameters_sch (der_encode (domain_parameters a b c d e f g h) ++ rest)
  = Some (domain_parameters a b c d e f g h, rest).
Proof.
  intros a b c d e f g h rest Ha Hb Hc Hd He Hf Hg Hh.
  apply der_roundtrip; [|reflexivity].
  cbn [dwf domain_parameters forallb].
  apply N.ltb_lt in Ha, Hb, Hc, Hd, He, Hf, Hg, Hh.
  rewrite Ha, Hb, Hc, Hd, He, Hf, Hg, Hh. reflexivity.
Qed.

Corollary connect_initial_roundtrip : forall user_data rest,
  der_decode connect_initial_sch (der_encode (connect_initial user_data) ++ rest)
  = Some (connect_initial user_data, rest).
Proof. inst_rt. Qed.

Corollary connect_initial_roundtrip_all : forall user_data,
  der_decode_all connect_initial_sch (der_encode (connect_initial user_data))
  = Some (connect_initial user_data).
Proof. inst_rt_all. Qed.

Corollary connect_response_roundtrip : forall user_data rest,
  der_decode connect_response_sch (der_encode (connect_response user_data) ++ rest)
  = Some (connect_response user_data, rest).
Proof. inst_rt. Qed.

Corollary connect_response_roundtrip_all : forall user_data,
  der_decode_all connect_response_sch (der_encode (connect_response user_data))
  = Some (connect_response user_data).
Proof. inst_rt_all. Qed.

Corollary ts_request_roundtrip : forall nego rest,
  der_decode ts_request_sch (der_encode (ts_request nego) ++ rest) = Some (ts_request nego, rest).
Proof. inst_rt. Qed.

Corollary ts_request_roundtrip_all : forall nego,
  der_decode_all ts_request_sch (der_encode (ts_request nego)) = Some (ts_request nego).
Proof. inst_rt_all. Qed.

Corollary ts_authenticate_roundtrip : forall nego pubkey rest,
  der_decode ts_authenticate_sch (der_encode (ts_authenticate nego pubkey) ++ rest)
  = Some (ts_authenticate nego pubkey, rest).
Proof. inst_rt. Qed.

Corollary ts_authenticate_roundtrip_all : forall nego pubkey,
  der_decode_all ts_authenticate_sch (der_encode (ts_authenticate nego pubkey))
  = Some (ts_authenticate nego pubkey).
Proof. inst_rt_all. Qed.

Corollary ts_validate_roundtrip : forall pubkey rest,
  der_decode ts_validate_sch (der_encode (ts_validate pubkey) ++ rest) = Some (ts_validate pubkey, rest).
Proof. inst_rt. Qed.

Corollary ts_validate_roundtrip_all : forall pubkey,
  der_decode_all ts_validate_sch (der_encode (ts_validate pubkey)) = Some (ts_validate pubkey).
Proof. inst_rt_all. Qed.

Corollary ts_password_creds_roundtrip : forall dom user pw rest,
  der_decode ts_password_creds_sch (der_encode (ts_password_creds dom user pw) ++ rest)
  = Some (ts_password_creds dom user pw, rest).
Proof. inst_rt. Qed.

Corollary ts_password_creds_roundtrip_all : forall dom user pw,
  der_decode_all ts_password_creds_sch (der_encode (ts_password_creds dom user pw))
  = Some (ts_password_creds dom user pw).
Proof. inst_rt_all. Qed.

Corollary ts_credentials_roundtrip : forall dom user pw rest,
  der_decode ts_credentials_sch (der_encode (ts_credentials dom user pw) ++ rest)
  = Some (ts_credentials dom user pw, rest).
Proof. inst_rt. Qed.

Corollary ts_credentials_roundtrip_all : forall dom user pw,
  der_decode_all ts_credentials_sch (der_encode (ts_credentials dom user pw))
  = Some (ts_credentials dom user pw).
Proof. inst_rt_all. Qed.

(* the inner OCTET STRING of TSCredentials decodes back to the password creds *)
Corollary ts_credentials_inner : forall dom user pw,
  match der_decode_all ts_credentials_sch (der_encode (ts_credentials dom user pw)) with
  | Some (DSeq [_; DExplicit _ _ (DOctets inner)]) =>
      der_decode_all ts_password_creds_sch inner = Some (ts_password_creds dom user pw)
  | _ => False
  end.
Proof.
  intros. rewrite ts_credentials_roundtrip_all. cbv beta iota delta [ts_credentials].
  apply ts_password_creds_roundtrip_all.
Qed.

Corollary ts_authinfo_roundtrip : forall info rest,
  der_decode ts_authinfo_sch (der_encode (ts_authinfo info) ++ rest) = Some (ts_authinfo info, rest).
Proof. inst_rt. Qed.

Corollary ts_authinfo_roundtrip_all : forall info,
  der_decode_all ts_authinfo_sch (der_encode (ts_authinfo info)) = Some (ts_authinfo info).
Proof. inst_rt_all. Qed.

Print Assumptions der_roundtrip.
Print Assumptions der_encode_length.
Print Assumptions dec_len_enc_len.
Print Assumptions dec_ident_enc_ident.
Print Assumptions dec_int_enc_int.
Print Assumptions connect_initial_roundtrip.
Print Assumptions ts_credentials_inner.
