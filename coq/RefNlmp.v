(* SPEC: the SERVER side of NTLMv2 authentication, written from MS-NLMP (2.2.1.3
   AUTHENTICATE_MESSAGE, 2.2.2.7/2.2.2.8 NTLMv2 responses, 3.3.2 NTLM v2 authentication,
   3.1.5.1.2 / 3.2.5.1.2 key exchange and MIC), independently of ntlm.rs and of Msg.v:
   fields are located by (Len, MaxLen, BufferOffset) with bounds checks.

     ResponseKeyNT  = HMAC_MD5(NTHash(account), UNICODE(Upper(User) ++ UserDom))
     temp           = NtChallengeResponse[16..]            (the blob as received)
     NTProofStr     = HMAC_MD5(ResponseKeyNT, ServerChallenge ++ temp)  must equal NtChallengeResponse[0..16]
     LMv2           = HMAC_MD5(ResponseKeyLM, ServerChallenge ++ ClientChallenge) ++ ClientChallenge
     SessionBaseKey = HMAC_MD5(ResponseKeyNT, NTProofStr) ; KeyExchangeKey = SessionBaseKey
     ExportedSessionKey = RC4K(KeyExchangeKey, EncryptedRandomSessionKey)   when KEY_EXCH is negotiated
     MIC            = HMAC_MD5(ExportedSessionKey, NEGOTIATE ++ CHALLENGE ++ AUTHENTICATE with the MIC zeroed)

   Layout of AUTHENTICATE: 64 fixed bytes, Version (8) when NTLMSSP_NEGOTIATE_VERSION is set,
   MIC (16), then the payload; every field must lie inside the payload.
   (MS-NLMP itself draws Version as always present; the layout without it is what pre-Vista
   clients and this client emit -- see DESIGN, C15 observations.) *)
From RdpV Require Import Base Rc4 Utf.

Record account := mkAccount { a_user : list N; a_domain : list N; a_nthash : bytes }.

Definition beq (a b : bytes) : bool := if list_eq_dec N.eq_dec a b then true else false.

(* token[off .. off+len) *)
Definition sub (b : bytes) (off len : N) : option bytes :=
  if off + len <=? nlen b then Some (firstn (N.to_nat len) (skipn (N.to_nat off) b)) else None.

Definition u16_at (b : bytes) (off : N) : option N :=
  match sub b off 2 with Some [x; y] => Some (x + 256 * y) | _ => None end.
Definition u32_at (b : bytes) (off : N) : option N :=
  match sub b off 4 with Some [x; y; z; w] => Some (x + 256 * y + 65536 * z + 16777216 * w) | _ => None end.

Definition obnd {A B} (o : option A) (f : A -> option B) : option B :=
  match o with Some a => f a | None => None end.
Definition require (c : bool) : option unit := if c then Some tt else None.

(* a (Len, MaxLen, BufferOffset) triple at `pos`, addressing bytes inside [payload_start, |token|) *)
Definition field (token : bytes) (pos payload_start : N) : option bytes :=
  obnd (u16_at token pos) (fun len =>
  obnd (u16_at token (pos + 2)) (fun maxlen =>
  obnd (u32_at token (pos + 4)) (fun off =>
  obnd (require ((len <=? maxlen) && (payload_start <=? off))) (fun _ =>
  sub token off len)))).

Definition FLAG_UNICODE : N := 0.    (* bit numbers *)
Definition FLAG_VERSION : N := 25.
Definition FLAG_KEY_EXCH : N := 30.

Section Server.
Variable HMAC_MD5 : bytes -> bytes -> bytes.
Variable Upper : list N -> list N.

Definition NTOWFv2 (nthash : bytes) (user domain : list N) : bytes :=
  HMAC_MD5 nthash (utf16le (Upper user ++ domain)).

(* how the negotiated character set spells a name; OEM is decided for ASCII names only *)
Definition name_matches (unicode : bool) (fieldb : bytes) (name : list N) : bool :=
  if unicode then beq fieldb (utf16le name) else is_ascii name && beq fieldb name.

(* Some ExportedSessionKey when the token authenticates the account in reply to `challenge` *)
Definition server_authenticate (acct : account) (negotiate challenge token : bytes) : option bytes :=
  obnd (sub token 0 8) (fun sg =>
  obnd (u32_at token 8) (fun mtype =>
  obnd (require (beq sg [78; 84; 76; 77; 83; 83; 80; 0] && (mtype =? 3))) (fun _ =>
  obnd (u32_at token 60) (fun flags =>
  let mic_off := if N.testbit flags FLAG_VERSION then 72 else 64 in
  let payload_start := mic_off + 16 in
  obnd (sub token mic_off 16) (fun mic =>
  obnd (field token 12 payload_start) (fun lm =>
  obnd (field token 20 payload_start) (fun nt =>
  obnd (field token 28 payload_start) (fun domain =>
  obnd (field token 36 payload_start) (fun user =>
  obnd (field token 44 payload_start) (fun workstation =>
  obnd (field token 52 payload_start) (fun enc_key =>
  let unicode := N.testbit flags FLAG_UNICODE in
  obnd (require (name_matches unicode user (a_user acct) && name_matches unicode domain (a_domain acct))) (fun _ =>
  obnd (sub challenge 24 8) (fun server_challenge =>
  let key := NTOWFv2 (a_nthash acct) (a_user acct) (a_domain acct) in
  obnd (sub nt 0 16) (fun proof =>
  obnd (sub nt 16 (nlen nt - 16)) (fun temp =>
  obnd (require ((28 <=? nlen temp) && beq (firstn 2 temp) [1; 1])) (fun _ =>
  obnd (require (beq (HMAC_MD5 key (server_challenge ++ temp)) proof)) (fun _ =>
  obnd (sub temp 16 8) (fun client_challenge =>
  obnd (require (beq lm (HMAC_MD5 key (server_challenge ++ client_challenge) ++ client_challenge))) (fun _ =>
  let session_base_key := HMAC_MD5 key proof in
  let key_exchange_key := session_base_key in
  obnd (if N.testbit flags FLAG_KEY_EXCH
        then match rc4k key_exchange_key enc_key with
             | Ok k => if nlen enc_key =? 16 then Some k else None
             | _ => None
             end
        else Some key_exchange_key) (fun exported =>
  let zeroed := firstn (N.to_nat mic_off) token ++ repeat 0 16 ++ skipn (N.to_nat payload_start) token in
  obnd (require (beq (HMAC_MD5 exported (negotiate ++ challenge ++ zeroed)) mic)) (fun _ =>
  Some exported))))))))))))))))))))).

Definition server_verify (acct : account) (negotiate challenge token : bytes) : bool :=
  match server_authenticate acct negotiate challenge token with Some _ => true | None => false end.

End Server.

(* ---- what a server puts in a CHALLENGE_MESSAGE (2.2.1.2), for the statement of the theorems ---- *)
Record challenge_fields := mkChal {
  c_flags : N;                     (* NegotiateFlags *)
  c_server_challenge : bytes;      (* 8 bytes *)
  c_reserved : bytes;              (* 8 bytes *)
  c_tname_len : N; c_tname_max : N; c_tname_off : N;   (* TargetName triple, not used by the client *)
  c_tinfo_max : N;
  c_version : bytes;               (* 8 bytes, present when the VERSION flag is set *)
  c_pre : bytes;                   (* payload bytes before the target info (e.g. the target name) *)
  c_target_info : bytes;           (* AV pairs *)
  c_post : bytes }.                (* payload bytes after it *)

Definition challenge_header_len (c : challenge_fields) : N :=
  if N.testbit (c_flags c) FLAG_VERSION then 56 else 48.

Definition challenge_bytes (c : challenge_fields) : bytes :=
  [78; 84; 76; 77; 83; 83; 80; 0] ++ le32 2 ++
  le16 (c_tname_len c) ++ le16 (c_tname_max c) ++ le32 (c_tname_off c) ++
  le32 (c_flags c) ++ c_server_challenge c ++ c_reserved c ++
  le16 (nlen (c_target_info c)) ++ le16 (c_tinfo_max c) ++
  le32 (challenge_header_len c + nlen (c_pre c)) ++
  (if N.testbit (c_flags c) FLAG_VERSION then c_version c else []) ++
  c_pre c ++ c_target_info c ++ c_post c.
