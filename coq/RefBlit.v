(* RefBlit.v -- reference semantics of painting a rectangle, written against the property
   text, independent of the loop structure of the code.  No proofs in this file. *)
From RdpV Require Import Base Blit.

(* ---------------------------------------------------------------- reference semantics
   (spec, written against the property text: "copies exactly the rectangle's rows from the
   decoded image to their place in the buffer and changes nothing else") *)

(* pixel (x,y) of a window of width W lives at y*W+x; pixel (u,v) of an image of width bw at v*bw+u *)
Definition in_rect (rc : rect) (x y : N) : bool :=
  (r_left rc <=? x) && (x <=? r_right rc) && (r_top rc <=? y) && (y <=? r_bottom rc).

Definition ref_pixel (buf src : list N) (W : N) (rc : rect) (bw : N) (x y : N) : N :=
  if in_rect rc x y
  then nth (N.to_nat ((y - r_top rc) * bw + (x - r_left rc))) src 0
  else nth (N.to_nat (y * W + x)) buf 0.

(* the footprint of row i of the rectangle in the flat buffer, for ANY geometry *)
Definition row_start (W : N) (rc : rect) (i : N) : N := (i + r_top rc) * W + r_left rc.
Definition row_count (rc : rect) : N := r_right rc - r_left rc + 1.
Definition in_row (W : N) (rc : rect) (i q : N) : bool :=
  (row_start W rc i <=? q) && (q <? row_start W rc i + row_count rc).

(* buffer contents (as a function of the flat index) after rows i0 .. i0+k-1 were painted over f *)
Definition paint1 (src : list N) (W : N) (rc : rect) (bw : N) (i : N) (f : N -> N) : N -> N :=
  fun q => if in_row W rc i q then nth (N.to_nat (i * bw + (q - row_start W rc i))) src 0 else f q.

Fixpoint painted (src : list N) (W : N) (rc : rect) (bw : N) (i0 : N) (k : nat) (f : N -> N) : N -> N :=
  match k with
  | O => f
  | S k' => painted src W rc bw (i0 + 1) k' (paint1 src W rc bw i0 f)
  end.

Definition pix (buf : list N) : N -> N := fun q => nth (N.to_nat q) buf 0.
