(* Control normal forms: the part of the CONTROL code (state machines, dispatch tables, numeric guards)
   that the source translator (translator/rs2v.py, module rsctl.py) reads off the Rust functions.

   The translator writes one term per Rust function to Gen/Ctl_gen.v.  Gen/CtlMap.v (hand-written) carries
   the term the MODEL was written against (hc_<file>__<fn>) together with lemmas that anchor it in the model
   (the model function IS the interpretation of that term); the generated tie lemmas (Gen/Tie/C_*.v) state

        Ctl_gen.ctl_<file>__<fn> = CtlMap.hc_<file>__<fn>

   and restate every anchor lemma on the generated term.  [*_diff] = first differing entry, for diagnosis.
   No proofs about the model here; this file is part of the tie, not of any property proof. *)
From RdpV Require Import Base.
From Coq Require Import String.
Open Scope string_scope.
Open Scope list_scope.
Open Scope N_scope.

(* ------------------------------------------------------------------ expressions over the bytes of a header *)
Inductive cx :=
| XB (i : N)              (* the i-th byte consumed on this path (link reads and stream takes, in order) *)
| XK (n : N)
| XAnd (a b : cx) | XOr (a b : cx) | XShl (a b : cx) | XShr (a b : cx) | XAdd (a b : cx) | XSub (a b : cx)
| XBe16 (hi lo : cx)      (* a U16::BE read off two consecutive bytes: hi * 256 + lo *)
| XLe16 (lo hi : cx)      (* a U16::LE read *)
| XStep (i : N)           (* the value returned by the i-th TStep / TLookup on this path *)
| XFld (a : cx) (k : N)   (* tuple component *)
| XStr (s : string)
| XBind (k : N)           (* k-th binder of the enclosing match-arm pattern *)
| XStream.                (* what is left of the stream being parsed *)

Inductive ck := KEq (a b : cx) | KLt (a b : cx).
Inductive carg := AVal (v : cx) | ABody (fn : string) (len : cx).   (* ABody: Cursor::new(self.fn(len)?) *)

(* decision tree of a header parser; `!=` / `>=` / `>` / `<=` are normalised to KEq / KLt with the branches swapped *)
Inductive ctree :=
| TRead (n : N) (k : ctree)                                   (* self.transport.read(n)?: n more bytes from the link *)
| TTake (n : N) (k : ctree)                                   (* n bytes parsed off the stream *)
| TStep (f : string) (args : list N) (k : ctree)              (* per::read_..(consts, stream)? *)
| TLookup (table : string) (key : cx) (err : string) (k : ctree)   (* self.table.iter().find(.. == key).ok_or(err)? *)
| TIf (c : ck) (t e : ctree)
| TErr (kind : string)
| TOk (ctor : string) (args : list carg).

(* ------------------------------------------------------------------ dispatch on an enum value *)
Inductive target :=
| GLayout (fn : string) (args : list string)          (* the layout template built: ts_demand_active_pdu() *)
| GErr (kind : string)
| GOk (what : string)                                 (* Ok(<normalised text>) *)
| GOkTryFrom (enum : string) (bits : N) (field : string)   (* Ok(E::try_from(cast!(DataType::U<bits>, x[field])?)?) *)
| GRead (layout : string) (field : string) (what : string) (* layout().read(x[field]), then Ok(what(..)) *)
| GCond (conds : list (string * N * string * string * N)) (t e : target).
     (* every E::try_from(cast!(DataType::U<bits>, x[field])?)? == E::Variant (= value): (E, bits, field, Variant, value) *)

Record dispatch := mkDispatch {
  d_enum : string;                          (* the Rust enum whose try_from guards the selector *)
  d_bits : N;                               (* DataType::U8 / U16 / U32 of the selector cast; 0 = not a cast *)
  d_field : string;                         (* selector field *)
  d_mask : option N;                        (* `& m` applied before try_from *)
  d_arms : list (string * N * target);      (* variant, discriminant, what it selects; wildcard arm expanded; by value *)
  d_body : string                           (* field holding the bytes the selected layout is read from ("" = none) *)
}.

(* ------------------------------------------------------------------ a state machine `match self.state { .. }` *)
Record arm := mkArm {
  a_state : string;            (* ClientState variant *)
  a_payload : string;          (* payload kind the arm accepts: "Raw" (try_let!(tpkt::Payload::Raw, ..)) / "FastPath" *)
  a_handler : string;          (* self.<handler>(stream, args) *)
  a_args : list string;
  a_then : list string;        (* executed when the handler returns true: calls and "state=<Variant>" *)
  a_after : list string;       (* executed unconditionally after the `if` *)
  a_result : string            (* "unit": Ok(()) ; "tail": the handler's result is the result *)
}.

(* a guard at the head of a loop body: if x.<field> ==/!= Enum::Variant { actions; continue } *)
Record lguard := mkLGuard {
  lg_origin : string; lg_field : string; lg_enum : string; lg_variant : string; lg_value : N; lg_eq : bool;
  lg_actions : list string; lg_exit : string
}.

(* a gate `match self.state { A => .., _ => .. }` expanded over all states, preceded by [g_pre] statements *)
Record gate := mkGate { g_pre : list string; g_rows : list (string * target) }.

(* a string table `match s { "k" => Enum::V, .., _ => Enum::D }` *)
Record strtable := mkStrTable { st_enum : string; st_rows : list (string * string * N); st_default : string * N }.

(* ================================================================== first difference (diagnosis only) *)
Inductive sx := SA (s : string) | SK (n : N) | SL (l : list sx).

Fixpoint sx_of_cx (e : cx) : sx :=
  match e with
  | XB i => SL [SA "byte"; SK i] | XK n => SK n
  | XAnd a b => SL [SA "&"; sx_of_cx a; sx_of_cx b] | XOr a b => SL [SA "|"; sx_of_cx a; sx_of_cx b]
  | XShl a b => SL [SA "<<"; sx_of_cx a; sx_of_cx b] | XShr a b => SL [SA ">>"; sx_of_cx a; sx_of_cx b]
  | XAdd a b => SL [SA "+"; sx_of_cx a; sx_of_cx b] | XSub a b => SL [SA "-"; sx_of_cx a; sx_of_cx b]
  | XBe16 a b => SL [SA "be16"; sx_of_cx a; sx_of_cx b] | XLe16 a b => SL [SA "le16"; sx_of_cx a; sx_of_cx b]
  | XStep i => SL [SA "step"; SK i] | XFld a k => SL [SA "."; sx_of_cx a; SK k]
  | XStr s => SL [SA "str"; SA s] | XBind k => SL [SA "bind"; SK k] | XStream => SA "stream"
  end.
Definition sx_of_ck (c : ck) : sx :=
  match c with KEq a b => SL [SA "=="; sx_of_cx a; sx_of_cx b] | KLt a b => SL [SA "<"; sx_of_cx a; sx_of_cx b] end.
Definition sx_of_carg (a : carg) : sx :=
  match a with AVal v => sx_of_cx v | ABody f l => SL [SA f; sx_of_cx l] end.
Fixpoint sx_of_ctree (t : ctree) : sx :=
  match t with
  | TRead n k => SL [SA "link.read"; SK n; sx_of_ctree k]
  | TTake n k => SL [SA "take"; SK n; sx_of_ctree k]
  | TStep f a k => SL [SA f; SL (map SK a); sx_of_ctree k]
  | TLookup tb key e k => SL [SA "lookup"; SA tb; sx_of_cx key; SA e; sx_of_ctree k]
  | TIf c a b => SL [SA "if"; sx_of_ck c; sx_of_ctree a; sx_of_ctree b]
  | TErr k => SL [SA "Err"; SA k]
  | TOk c a => SL [SA "Ok"; SA c; SL (map sx_of_carg a)]
  end.
Definition sx_of_cond (c : string * N * string * string * N) : sx :=
  match c with (e, b, f, v, n) => SL [SA e; SK b; SA f; SA v; SK n] end.
Fixpoint sx_of_target (g : target) : sx :=
  match g with
  | GLayout f a => SL [SA "layout"; SA f; SL (map SA a)]
  | GErr k => SL [SA "Err"; SA k]
  | GOk w => SL [SA "Ok"; SA w]
  | GOkTryFrom e b f => SL [SA "Ok-try_from"; SA e; SK b; SA f]
  | GRead l f w => SL [SA "read"; SA l; SA f; SA w]
  | GCond cs t e => SL [SA "if-all"; SL (map sx_of_cond cs); sx_of_target t; sx_of_target e]
  end.
Definition sx_of_dispatch (d : dispatch) : sx :=
  SL [SL [SA "enum"; SA (d_enum d)]; SL [SA "bits"; SK (d_bits d)]; SL [SA "field"; SA (d_field d)];
      SL [SA "mask"; match d_mask d with Some m => SK m | None => SA "none" end];
      SL (map (fun '(v, n, g) => SL [SA v; SK n; sx_of_target g]) (d_arms d)); SL [SA "body"; SA (d_body d)]].
Definition sx_of_arm (a : arm) : sx :=
  SL [SA (a_state a); SA (a_payload a); SA (a_handler a); SL (map SA (a_args a)); SL (map SA (a_then a));
      SL (map SA (a_after a)); SA (a_result a)].
Definition sx_of_arms (l : list arm) : sx := SL (map sx_of_arm l).
Definition sx_of_lguard (g : lguard) : sx :=
  SL [SA (lg_origin g); SA (lg_field g); SA (lg_enum g); SA (lg_variant g); SK (lg_value g);
      SA (if lg_eq g then "==" else "!="); SL (map SA (lg_actions g)); SA (lg_exit g)].
Definition sx_of_lguards (l : list lguard) : sx := SL (map sx_of_lguard l).
Definition sx_of_gate (g : gate) : sx :=
  SL [SL (map SA (g_pre g)); SL (map (fun '(s, t) => SL [SA s; sx_of_target t]) (g_rows g))].
Definition sx_of_strtable (t : strtable) : sx :=
  SL [SA (st_enum t); SL (map (fun '(k, v, n) => SL [SA k; SA v; SK n]) (st_rows t));
      SL [SA (fst (st_default t)); SK (snd (st_default t))]].
Definition sx_of_trees (l : list (string * ctree)) : sx := SL (map (fun '(k, t) => SL [SA k; sx_of_ctree t]) l).

(* first difference, outermost-leftmost: (path of child indexes, generated, hand-written); when two atoms differ the
   ENTRY (the innermost list) that contains them is reported *)
Inductive sxdiff := Same | Differ (path : list N) (generated hand : sx).
Definition is_atom (x : sx) : bool := match x with SL _ => false | _ => true end.
Definition at_path (i : N) (whole_a whole_b : sx) (d : sxdiff) : sxdiff :=
  match d with
  | Same => Same
  | Differ [] a b => if is_atom a && is_atom b then Differ [] whole_a whole_b else Differ [i] a b
  | Differ p a b => Differ (i :: p) a b
  end.
Fixpoint sx_diff (a b : sx) {struct a} : sxdiff :=
  match a, b with
  | SA x, SA y => if String.eqb x y then Same else Differ [] a b
  | SK x, SK y => if x =? y then Same else Differ [] a b
  | SL la, SL lb =>
      (fix go (la lb : list sx) (i : N) {struct la} : sxdiff :=
         match la, lb with
         | [], [] => Same
         | x :: ta, y :: tb => match sx_diff x y with Same => go ta tb (i + 1) | d => at_path i a b d end
         | x :: _, [] => Differ [i] x (SA "(nothing)")
         | [], y :: _ => Differ [i] (SA "(nothing)") y
         end) la lb 0
  | _, _ => Differ [] a b
  end.

(* ================================================================== helpers for the anchors of Gen/CtlMap.v *)
Fixpoint assoc_s {A} (k : string) (l : list (string * A)) : option A :=
  match l with [] => None | (x, v) :: tl => if String.eqb x k then Some v else assoc_s k tl end.

(* [t =? k] in this order: the model's dispatch chains are written `x =? CONSTANT` *)
Fixpoint assoc_n {A} (t : N) (l : list (N * A)) : option A :=
  match l with [] => None | (k, v) :: tl => if t =? k then Some v else assoc_n t tl end.

(* evaluation of a header expression over the bytes consumed so far *)
Fixpoint cx_eval (bs : list N) (e : cx) : N :=
  match e with
  | XB i => nth (N.to_nat i) bs 0
  | XK n => n
  | XAnd a b => N.land (cx_eval bs a) (cx_eval bs b)
  | XOr a b => N.lor (cx_eval bs a) (cx_eval bs b)
  | XShl a b => N.shiftl (cx_eval bs a) (cx_eval bs b)
  | XShr a b => N.shiftr (cx_eval bs a) (cx_eval bs b)
  | XAdd a b => cx_eval bs a + cx_eval bs b
  | XSub a b => cx_eval bs a - cx_eval bs b
  | XBe16 h l => of_be16 (cx_eval bs h) (cx_eval bs l)
  | XLe16 l h => of_le16 (cx_eval bs l) (cx_eval bs h)
  | _ => 0
  end.
Definition ck_eval (bs : list N) (c : ck) : bool :=
  match c with KEq a b => cx_eval bs a =? cx_eval bs b | KLt a b => cx_eval bs a <? cx_eval bs b end.
