(* C17 model: where the secrets of a `Connector` go.
   The configuration record of core/client.rs `Connector` and how `Connector::connect` threads it
   (client.rs l.221-285):
     - the authentication object: Ntlm::from_hash(domain, user, hash) when a password hash is set,
       Ntlm::new(domain, user, password) otherwise;
     - the offered protocols: SSL, plus HYBRID when use_nla;
     - x224::Client::connect(.., check_certificate, Some(&mut authentication), restricted_admin_mode,
       blank_creds): RDP_NEG_REQ flag RESTRICTED_ADMIN_MODE_REQUIRED iff restricted_admin_mode;
       tpkt.start_nla(check_certificate, authentication, restricted_admin_mode || blank_creds);
       cssp_connect(.., restricted) sends empty TSPasswordCreds when `restricted`;
     - sec::connect(mcs, "", "", "", auto_logon) when restricted_admin_mode, else
       sec::connect(mcs, domain, username, password, auto_logon): the `password` FIELD, also in hash mode;
   composed from the existing models: Connect.v (connection sequence driven by the server's bytes, transport
   event trace RawWrite / TlsStart / TlsWrite), CsspGate.v (cssp_connect: result and messages written),
   Ntlm.v / NtlmSeal.v (tokens, sealing), ClientPdus.v (byte-level emitters of the RDP-layer PDUs).
   Output of the model: the result, and EVERY message the client writes, in order, as bytes, tagged by
   channel (raw transport / inside TLS) and by kind (connection request; CredSSP TSRequest carrying the
   NEGOTIATE token, the AUTHENTICATE token + pubKeyAuth, the sealed TSCredentials; connect-initial;
   erect-domain; attach-user; channel join; Client Info).
   External code is a Section variable: hash functions, String::to_uppercase, the TSRequest codecs (yasna),
   the BER parser (yasna), the protocol-level TLS handshake (native-tls); the certificate's subjectPublicKey,
   the client's randomness, the HashMap order of the two joins and whether the certificate is trusted are
   fields of the environment record.  No proofs here. *)
From RdpV Require Import Base Msg LayoutsGlobal LayoutsConnect Link Tpkt Global Rc4 Utf Ntlm NtlmSeal.
From RdpV Require CsspGate Connect ClientPdus.
Open Scope list_scope.
Open Scope N_scope.

Definition ustring := list N.      (* Unicode scalar values *)

(* ------------------------------------------------------------------ the Connector *)
Record sconfig := mkSC {
  sc_domain : ustring;
  sc_user : ustring;
  sc_password : ustring;             (* Connector.password: "" unless credentials() supplied one *)
  sc_hash : option bytes;            (* Connector.password_hash *)
  sc_nla : bool;                     (* use_nla *)
  sc_restricted : bool;              (* restricted_admin_mode *)
  sc_blank : bool;                   (* blank_creds *)
  sc_autologon : bool;               (* auto_logon *)
  sc_check : bool;                   (* check_certificate *)
  sc_name : ustring;                 (* client name *)
  sc_width : N; sc_height : N; sc_layout : N
}.

(* the same Connector with other secrets *)
Definition set_secret (c : sconfig) (pw : ustring) (h : option bytes) : sconfig :=
  mkSC (sc_domain c) (sc_user c) pw h (sc_nla c) (sc_restricted c) (sc_blank c) (sc_autologon c) (sc_check c)
       (sc_name c) (sc_width c) (sc_height c) (sc_layout c).

(* what does not come from the Connector: external code and the client's own randomness *)
Record senv := mkEnv {
  e_user_first : bool;               (* HashMap order of {"global","user"} *)
  e_trusted : bool;                  (* the server's certificate chains to a trusted root *)
  e_cert : outcome bytes;            (* subjectPublicKey of the certificate of THIS TLS session (or how obtaining it failed) *)
  e_nonce : bytes;                   (* random(8): NTLM client challenge *)
  e_key : bytes                      (* random(16): exported session key *)
}.

(* ------------------------------------------------------------------ how connect threads the configuration *)
(* protocols: ProtocolSSL | (ProtocolHybrid if use_nla) *)
Definition sc_offered (c : sconfig) : N := if sc_nla c then 3 else 1.
(* RequestMode::RestrictedAdminModeRequired as u8, or 0 *)
Definition sc_neg_flag (c : sconfig) : N := if sc_restricted c then 1 else 0.
(* the `restricted_admin_mode` argument of start_nla / cssp_connect *)
Definition sc_cssp_restricted (c : sconfig) : bool := sc_restricted c || sc_blank c.
(* the credentials handed to sec::connect *)
Definition sc_info_creds (c : sconfig) : ustring * ustring * ustring :=
  if sc_restricted c then ([], [], []) else (sc_domain c, sc_user c, sc_password c).

(* configuration of the RDP-layer emitters (ClientPdus.v): what reaches x224 / mcs / sec *)
Definition pdu_cfg (c : sconfig) : ClientPdus.config :=
  let '(d, u, pw) := sc_info_creds c in
  ClientPdus.mkCfg (sc_offered c) (sc_restricted c) (sc_autologon c) (sc_width c) (sc_height c) (sc_layout c)
                   (sc_name c) d u pw.

Definition units (s : ustring) : N := nlen (ClientPdus.utf16 s).

(* configuration of the sequence model (Connect.v) *)
Definition conn_cfg (c : sconfig) (e : senv) : Connect.config :=
  Connect.mkConfig (sc_offered c) true (sc_restricted c) (e_user_first e)
                   (units (sc_domain c) + units (sc_user c) + units (sc_password c)) (sc_check c).

(* message kinds *)
Inductive wkind := KCr | KNego | KAuth | KAuthInfo | KCsspExtra | KCi | KEd | KAu | KCj | KInfo | KNone.

(* what the transport sees, as bytes *)
Inductive bev :=
| BRaw (k : wkind) (b : bytes)        (* written on the raw transport *)
| BTlsStart (ok : bool)               (* the TLS handshake, and whether it completed *)
| BTls (k : wkind) (b : bytes).       (* written inside TLS *)

(* a rendered event of the sequence model: the event, its kind, its bytes (or why the write is refused) *)
Record rev := mkRev { r_ev : Connect.tev; r_kind : wkind; r_bytes : outcome bytes }.

Definition is_cssp (m : Connect.cmsg) : bool := match m with Connect.CSSP => true | _ => false end.

Definition cssp_kind (k : nat) : wkind :=
  match k with O => KNego | S O => KAuth | S (S O) => KAuthInfo | _ => KCsspExtra end.

(* the configuration of the connection request emitter from the message of the sequence model *)
Definition cr_cfg (protocols flag : N) : ClientPdus.config :=
  ClientPdus.mkCfg protocols (flag =? 1) false 0 0 0 [] [] [] [].

Section Run.
Variable md4 md5 : bytes -> bytes.
Variable hmac : bytes -> bytes -> bytes.
Variable uppercase : list N -> list N.
Variable p : prof.
(* yasna-based codecs of cssp.rs *)
Variable create_ts_request : bytes -> bytes.
Variable create_ts_authenticate : bytes -> bytes -> bytes.
Variable create_ts_credentials : bytes -> bytes -> bytes -> bytes.
Variable create_ts_authinfo : bytes -> bytes.
Variable read_ts_server_challenge : bytes -> outcome bytes.
Variable read_ts_validate : bytes -> outcome bytes.
(* yasna on the MCS connect response; native-tls at protocol level *)
Variable ber_parse : bytes -> outcome bytes.
Variable tls_start : stream -> outcome stream.

(* let mut authentication = if let Some(hash) = &self.password_hash { Ntlm::from_hash(..) } else { Ntlm::new(..) } *)
Definition sc_auth (c : sconfig) : ntlm :=
  match sc_hash c with
  | Some h => ntlm_from_hash hmac uppercase (sc_domain c) (sc_user c) h
  | None => ntlm_new md4 hmac uppercase (sc_domain c) (sc_user c) (sc_password c)
  end.

(* the only way the secret enters the NTLM exchange: ResponseKeyNT (= ResponseKeyLM) *)
Definition sc_key (c : sconfig) : bytes := n_key_nt (sc_auth c).

(* cssp_connect on the plaintext stream that follows the handshake: result, messages written *)
Definition cssp_of (st : ntlm) (restricted : bool) (e : senv) (replies : stream) : outcome unit * list bytes :=
  CsspGate.cssp_connect md5 hmac p create_ts_request create_ts_authenticate create_ts_credentials create_ts_authinfo
                        read_ts_server_challenge read_ts_validate st restricted (e_cert e) replies (e_nonce e) (e_key e).

Definition sc_cssp (c : sconfig) (e : senv) (replies : stream) : outcome unit * list bytes :=
  cssp_of (sc_auth c) (sc_cssp_restricted c) e replies.

(* the oracle of Connect.v: number of TSRequests written, result, and the stream after the two link reads *)
Definition sc_cssp_run (c : sconfig) (e : senv) (cs : stream) : nat * outcome stream :=
  let r := sc_cssp c e cs in
  (List.length (snd r),
   match fst r with
   | Ok _ => Ok (snd (CsspGate.link_read0 (snd (CsspGate.link_read0 cs))))
   | Err x => Err x
   | Panic => Panic
   | Spin => Spin
   end).

(* the stream cssp_connect runs on: what the handshake leaves, after the connection confirm was read *)
Definition cssp_input (cs : stream) : stream :=
  match tls_start (snd (tpkt_read cs)) with Ok cs' => cs' | _ => [] end.

(* the sequence model on the server's bytes *)
Definition sc_trace (c : sconfig) (e : senv) (cs : stream) : outcome (N * Connect.server_data) * Connect.cst :=
  Connect.run_connect p ber_parse (e_trusted e) tls_start (sc_cssp_run c e) (conn_cfg c e) cs.

(* ------------------------------------------------------------------ bytes of each message *)
Definition V5 : N := 524292.       (* rdpVersion 0x00080004 *)

(* [k] = number of CredSSP messages before this one; [cssp] = the messages cssp_connect writes *)
Definition render_msg (c : sconfig) (e : senv) (cssp : list bytes) (k : nat) (m : Connect.cmsg) : wkind * outcome bytes :=
  match m with
  | Connect.CR protocols flag => (KCr, ClientPdus.emit_cr p (cr_cfg protocols flag))
  | Connect.CSSP => (cssp_kind k, match nth_error cssp k with Some b => Ok b | None => Panic end)
  | Connect.CI _ selected => (KCi, ClientPdus.emit_connect_initial p (pdu_cfg c) selected)
  | Connect.ED => (KEd, ClientPdus.emit_erect_domain)
  | Connect.AU => (KAu, ClientPdus.emit_attach_user)
  | Connect.CJ ini ch => (KCj, ClientPdus.emit_channel_join (ini + 1001) ch)
  | Connect.INFO ini io len =>
      (* sent on the I/O channel the server announced (MCSChannelId of its network data: Connect.global_id);
         the extended info is appended exactly when the server reported RDP 5+ (the abstract message carries the size) *)
      let v5 := negb (len =? Connect.info_len (conn_cfg c e) false) in
      (KInfo, ClientPdus.emit_client_info p false (pdu_cfg c) (ClientPdus.mkIds 0 (if v5 then V5 else 0) (ini + 1001) 0 io))
  end.

Fixpoint render (c : sconfig) (e : senv) (cssp : list bytes) (k : nat) (l : list Connect.tev) : list rev :=
  match l with
  | [] => []
  | Connect.RawWrite m :: tl =>
      let r := render_msg c e cssp k m in
      mkRev (Connect.RawWrite m) (fst r) (snd r) :: render c e cssp (if is_cssp m then S k else k) tl
  | Connect.TlsStart ok :: tl => mkRev (Connect.TlsStart ok) KNone (Ok []) :: render c e cssp k tl
  | Connect.TlsWrite m :: tl =>
      let r := render_msg c e cssp k m in
      mkRev (Connect.TlsWrite m) (fst r) (snd r) :: render c e cssp (if is_cssp m then S k else k) tl
  end.

Definition bev_of (r : rev) (b : bytes) : bev :=
  match r_ev r with
  | Connect.RawWrite _ => BRaw (r_kind r) b
  | Connect.TlsStart ok => BTlsStart ok
  | Connect.TlsWrite _ => BTls (r_kind r) b
  end.

(* the run stops at the first write that is refused (tpkt::Client::write: frame beyond 16 bits) *)
Fixpoint written (l : list rev) : list bev * option (outcome unit) :=
  match l with
  | [] => ([], None)
  | r :: tl =>
      match r_bytes r with
      | Ok b => let (evs, f) := written tl in (bev_of r b :: evs, f)
      | Err x => ([], Some (Err x))
      | Panic => ([], Some Panic)
      | Spin => ([], Some Spin)
      end
  end.

Definition outcome_unit {A} (o : outcome A) : outcome unit :=
  match o with Ok _ => Ok tt | Err x => Err x | Panic => Panic | Spin => Spin end.

(* ------------------------------------------------------------------ Connector::connect *)
Definition rendered (c : sconfig) (e : senv) (cs : stream) : list rev :=
  render c e (snd (sc_cssp c e (cssp_input cs))) O (Connect.s_ev (snd (sc_trace c e cs))).

Definition secrets_run (c : sconfig) (e : senv) (cs : stream) : outcome unit * list bev :=
  let w := written (rendered c e cs) in
  (match snd w with Some f => f | None => outcome_unit (fst (sc_trace c e cs)) end, fst w).

End Run.

(* ------------------------------------------------------------------ projections of the output *)
Fixpoint raw_writes (l : list bev) : list bytes :=
  match l with [] => [] | BRaw _ b :: tl => b :: raw_writes tl | _ :: tl => raw_writes tl end.

Definition kind_eqb (a b : wkind) : bool :=
  match a, b with
  | KCr, KCr | KNego, KNego | KAuth, KAuth | KAuthInfo, KAuthInfo | KCsspExtra, KCsspExtra | KCi, KCi
  | KEd, KEd | KAu, KAu | KCj, KCj | KInfo, KInfo | KNone, KNone => true
  | _, _ => false
  end.

(* the messages of one kind written inside TLS *)
Fixpoint tls_writes (k : wkind) (l : list bev) : list bytes :=
  match l with
  | [] => []
  | BTls k' b :: tl => if kind_eqb k k' then b :: tls_writes k tl else tls_writes k tl
  | _ :: tl => tls_writes k tl
  end.
