(* SPECIFICATION of the RDP connection sequence, written from MS-RDPBCGR 1.3.1.1 (Connection
   Sequence) and 2.2.1.1 - 2.2.1.22, T.125 and T.124, independently of the implementation and of
   its model:
     (1) the MANDATED ORDER of the client's messages and the identifiers each must carry, as a
         function of what the server assigned;
     (2) a CONFORMING SERVER as a parameterised reference encoder: every reply it sends, byte for
         byte, for any choice of its parameters;
     (3) the exchange as the standard draws it: which client messages precede which reply.
   Client messages are observed through the decoded PDUs of StrictPdu.v (C04's strict parsers,
   themselves written from the standards); this file only says which PDU, in which order, with
   which identifiers.  Executable, no proofs.

   Order (1.3.1.1): Connection Initiation (X.224 request / confirm) - [TLS, CredSSP] - Basic
   Settings Exchange (MCS Connect Initial / Response) - Channel Connection (Erect Domain, Attach
   User / Confirm, one Channel Join Request / Confirm per channel: the user channel and the I/O
   channel, in any order; the client requests no static virtual channel) - Secure Settings
   Exchange (Client Info) - Licensing - then, for every Demand Active: Confirm Active,
   Synchronize, Control Cooperate, Control Request Control, Font List (Capabilities Exchange and
   Connection Finalization; repeated after every Deactivate All) - Disconnect Provider Ultimatum
   when the application closes. *)
From RdpV Require Import Base StrictPdu.
Open Scope list_scope.
Open Scope N_scope.

(* ------------------------------------------------------------------ (1) what is observed of a client PDU *)
Inductive kind :=
| KRequest                                   (* X.224 connection request + RDP_NEG_REQ *)
| KConnectInitial
| KErectDomain
| KAttachUser
| KJoin (initiator channel : N)
| KInfo (initiator channel : N)
| KConfirm (initiator channel source share : N)
| KSynchronize (initiator channel source share target : N)
| KControl (initiator channel source share action : N)
| KFontList (initiator channel source share : N)
| KInput (initiator channel source share : N)
| KDisconnect.

Definition kind_of (d : pdu) : kind :=
  match d with
  | PConnectionRequest _ _ => KRequest
  | PConnectInitial _ _ _ _ => KConnectInitial
  | PErectDomain _ _ => KErectDomain
  | PAttachUser => KAttachUser
  | PChannelJoin i c => KJoin i c
  | PDisconnect _ => KDisconnect
  | PClientInfo i c _ => KInfo i c
  | PConfirmActive i c s cf => KConfirm i c s (f_share cf)
  | PSynchronize i c s sh t => KSynchronize i c s sh t
  | PControl i c s sh a _ _ => KControl i c s sh a
  | PFontList i c s sh => KFontList i c s sh
  | PInput i c s sh _ => KInput i c s sh
  end.

(* the kind of a frame on the wire, as the strict parser decodes it *)
Definition frame_kind (f : bytes) : option kind :=
  match strict_parse f with Some d => Some (kind_of d) | None => None end.

(* ------------------------------------------------------------------ (2) the conforming server *)
Definition SEL_SSL : N := 1.
Definition SEL_HYBRID : N := 2.
Definition SERVER_CHANNEL_ID : N := 1002.    (* 0x03EA: the server's MCS channel id *)
Definition CTRL_COOPERATE : N := 4.
Definition CTRL_REQUEST_CONTROL : N := 1.
Definition CTRL_GRANTED_CONTROL : N := 2.

(* one activation: Demand Active with its share id, source descriptor, capability sets (type, body)
   known or unknown to the client, and session id *)
Record round := mkRound {
  r_share : N;
  r_source : bytes;
  r_caps : list (N * bytes);
  r_sessid : N
}.

(* the ways a server ends licensing that the client accepts (MS-RDPBCGR 2.2.1.12, 1.3.1.1 "Licensing":
   the server either grants a licence or tells the client it needs none) *)
Inductive licence :=
| LicValidClient (preamble_flags blob_type : N)     (* error alert STATUS_VALID_CLIENT / ST_NO_TRANSITION *)
| LicNewLicence (preamble_flags : N) (body : bytes).

Record server := mkServer {
  sv_selected : N;                 (* RDP_NEG_RSP.selectedProtocol *)
  sv_neg_flags : N;                (* RDP_NEG_RSP.flags *)
  sv_src_ref : N;                  (* X.224 source reference *)
  sv_uid : N;                      (* user id of the attach-user confirm: 1001..65535 *)
  sv_io : N;                       (* MCSChannelId: the I/O channel *)
  sv_version : N;                  (* TS_UD_SC_CORE.version *)
  sv_requested : option N;         (* clientRequestedProtocols, optional *)
  sv_early : option N;             (* earlyCapabilityFlags, optional (only after the former) *)
  sv_licence : licence;
  sv_lic_secflags : N;             (* security header flags of the licensing PDU: SEC_LICENSE_PKT [| SEC_LICENSE_ENCRYPT_CS] *)
  sv_rounds : list round
}.

(* ---- framing *)
Definition ref_tpkt (payload : bytes) : bytes := [3; 0] ++ be16 (nlen payload + 4) ++ payload.
Definition ref_x224_data (p : bytes) : bytes := [2; 240; 128] ++ p.
Definition ref_frame (p : bytes) : bytes := ref_tpkt (ref_x224_data p).

(* PER length determinant as the RDP stacks use it *)
Definition ref_per_length (n : N) : bytes := if n <? 128 then [n] else [128 + n / 256; n mod 256].

(* T.125 SendDataIndication from the server (initiator 1002) on channel [ch] *)
Definition ref_sdi (ch : N) (data : bytes) : bytes :=
  [104] ++ be16 (SERVER_CHANNEL_ID - 1001) ++ be16 ch ++ [112] ++ ref_per_length (nlen data) ++ data.
Definition ref_io_frame (s : server) (data : bytes) : bytes := ref_frame (ref_sdi (sv_io s) data).

(* ---- X.224 connection confirm with RDP_NEG_RSP (2.2.1.2) *)
Definition ref_confirm (s : server) : bytes :=
  ref_tpkt ([14; 208; 0; 0] ++ be16 (sv_src_ref s) ++ [0] ++ [2; sv_neg_flags s] ++ le16 8 ++ le32 (sv_selected s)).

(* ---- server data blocks (2.2.1.4.2 - 2.2.1.4.4); the client asked for no static channel: count 0 *)
Definition ref_block (ty : N) (body : bytes) : bytes := le16 ty ++ le16 (nlen body + 4) ++ body.
Definition ref_core (s : server) : bytes :=
  ref_block 3073 (le32 (sv_version s) ++
                  match sv_requested s with
                  | None => []
                  | Some r => le32 r ++ match sv_early s with None => [] | Some f => le32 f end
                  end).
Definition ref_security : bytes := ref_block 3074 (le32 0 ++ le32 0).    (* ENCRYPTION_METHOD_NONE / LEVEL_NONE under TLS *)
Definition ref_net (s : server) : bytes := ref_block 3075 (le16 (sv_io s) ++ le16 0).
Definition ref_blocks (s : server) : bytes := ref_core s ++ ref_security ++ ref_net s.

(* ---- T.124 ConferenceCreateResponse (2.2.1.4): nodeID 31219, tag 1, result success, "McDn" *)
Definition ref_gcc (blocks : bytes) : bytes :=
  let pdu := [20; 118; 10; 1; 1; 0; 1; 192; 0; 77; 99; 68; 110] ++ ref_per_length (nlen blocks) ++ blocks in
  [0; 5; 0; 20; 124; 0; 1] ++ ref_per_length (nlen pdu) ++ pdu.

(* ---- T.125 Connect-Response (BER): result rt-successful, calledConnectId 0, domain parameters, user data *)
Definition ref_ber_length (n : N) : bytes :=
  if n <? 128 then [n] else if n <? 256 then [129; n] else [130; n / 256; n mod 256].
Definition ref_domain_parameters : bytes :=
  [48; 26; 2; 1; 22; 2; 1; 3; 2; 1; 0; 2; 1; 1; 2; 1; 0; 2; 1; 1; 2; 3; 0; 255; 248; 2; 1; 2].
Definition ref_connect_response (user_data : bytes) : bytes :=
  let inner := [10; 1; 0] ++ [2; 1; 0] ++ ref_domain_parameters ++ [4] ++ ref_ber_length (nlen user_data) ++ user_data in
  [127; 102] ++ ref_ber_length (nlen inner) ++ inner.
Definition ref_mcs_response (s : server) : bytes := ref_frame (ref_connect_response (ref_gcc (ref_blocks s))).

(* ---- attach-user confirm, channel-join confirm (T.125, aligned PER) *)
Definition ref_attach_confirm (s : server) : bytes := ref_frame ([46; 0] ++ be16 (sv_uid s - 1001)).
Definition ref_join_confirm (s : server) (ch : N) : bytes :=
  ref_frame ([62; 0] ++ be16 (sv_uid s - 1001) ++ be16 ch ++ be16 ch).

(* ---- licensing (2.2.1.12): security header, preamble, message *)
Definition ref_licence_message (l : licence) : bytes :=
  match l with
  | LicValidClient fl bt =>
      let body := le32 7 ++ le32 2 ++ le16 bt ++ le16 0 in          (* STATUS_VALID_CLIENT, ST_NO_TRANSITION, empty blob *)
      [255; fl] ++ le16 (nlen body + 4) ++ body
  | LicNewLicence fl body => [3; fl] ++ le16 (nlen body + 4) ++ body
  end.
Definition ref_licence (s : server) : bytes :=
  ref_io_frame s (le16 (sv_lic_secflags s) ++ le16 0 ++ ref_licence_message (sv_licence s)).

(* ---- share control / share data PDUs (2.2.8.1.1.1) from the server *)
Definition ref_share_control (pdu_type : N) (body : bytes) : bytes :=
  le16 (nlen body + 6) ++ le16 (16 + pdu_type) ++ le16 SERVER_CHANNEL_ID ++ body.
Definition ref_share_data (share t2 : N) (payload : bytes) : bytes :=
  ref_share_control 7 (le32 share ++ [0; 1] ++ le16 (nlen payload + 18) ++ [t2; 0] ++ le16 0 ++ payload).

Definition ref_capset (c : N * bytes) : bytes := le16 (fst c) ++ le16 (nlen (snd c) + 4) ++ snd c.
Definition ref_capsets (caps : list (N * bytes)) : bytes := flat_map ref_capset caps.

(* Demand Active (2.2.1.13.1) *)
Definition ref_demand_active (r : round) : bytes :=
  let caps := ref_capsets (r_caps r) in
  ref_share_control 1
    (le32 (r_share r) ++ le16 (nlen (r_source r)) ++ le16 (nlen caps + 4) ++ r_source r
     ++ le16 (nlen (r_caps r)) ++ le16 0 ++ caps ++ le32 (r_sessid r)).

(* the server's half of the finalization (2.2.1.19 - 2.2.1.22) *)
Definition ref_synchronize (s : server) (r : round) : bytes := ref_share_data (r_share r) 31 (le16 1 ++ le16 (sv_uid s)).
Definition ref_control (r : round) (action grant control : N) : bytes :=
  ref_share_data (r_share r) 20 (le16 action ++ le16 grant ++ le32 control).
Definition ref_font_map (r : round) : bytes := ref_share_data (r_share r) 40 (le16 0 ++ le16 0 ++ le16 3 ++ le16 4).
(* Deactivate All (2.2.3.1) *)
Definition ref_deactivate_all (r : round) : bytes :=
  ref_share_control 6 (le32 (r_share r) ++ le16 1 ++ [0]).

(* ------------------------------------------------------------------ (3) the exchange *)
(* one step of the conversation: what the client sends, then the reply it waits for *)
Record exchange := mkExchange { x_client : list kind; x_reply : bytes }.

Definition finalization (s : server) (r : round) : list kind :=
  let u := sv_uid s in let io := sv_io s in let sh := r_share r in
  [ KConfirm u io u sh;
    KSynchronize u io u sh SERVER_CHANNEL_ID;
    KControl u io u sh CTRL_COOPERATE;
    KControl u io u sh CTRL_REQUEST_CONTROL;
    KFontList u io u sh ].

(* the session part: every frame the server sends after licensing, with what the client must have sent
   in answer to the PREVIOUS ones ([pending]) before it may be released *)
Definition round_frames (s : server) (r : round) : list bytes :=
  [ ref_io_frame s (ref_demand_active r);
    ref_io_frame s (ref_synchronize s r);
    ref_io_frame s (ref_control r CTRL_COOPERATE 0 0);
    ref_io_frame s (ref_control r CTRL_GRANTED_CONTROL (sv_uid s) SERVER_CHANNEL_ID);
    ref_io_frame s (ref_font_map r) ].

Fixpoint session_frames (s : server) (prev : option round) (rs : list round) : list bytes :=
  match rs with
  | [] => []
  | r :: tl =>
      (match prev with Some q => [ref_io_frame s (ref_deactivate_all q)] | None => [] end)
      ++ round_frames s r ++ session_frames s (Some r) tl
  end.

(* what the client sends in answer to each session frame, in the same order *)
Definition round_answers (s : server) (r : round) : list (list kind) :=
  [ finalization s r; []; []; []; [] ].
Fixpoint session_answers (s : server) (prev : option round) (rs : list round) : list (list kind) :=
  match rs with
  | [] => []
  | r :: tl =>
      (match prev with Some _ => [[]] | None => [] end) ++ round_answers s r ++ session_answers s (Some r) tl
  end.

(* the connection part; [user_first] = which of the two joins the client asks first (either is conforming);
   the TLS handshake (and CredSSP when HYBRID was selected) happens after the first reply *)
Definition joins (s : server) (user_first : bool) : list N :=
  if user_first then [sv_uid s; sv_io s] else [sv_io s; sv_uid s].

Definition connect_exchanges (s : server) (user_first : bool) : list exchange :=
  let u := sv_uid s in
  [ mkExchange [KRequest] (ref_confirm s);
    mkExchange [KConnectInitial] (ref_mcs_response s);
    mkExchange [KErectDomain; KAttachUser] (ref_attach_confirm s);
    mkExchange [KJoin u (nth 0 (joins s user_first) 0)] (ref_join_confirm s (nth 0 (joins s user_first) 0));
    mkExchange [KJoin u (nth 1 (joins s user_first) 0)] (ref_join_confirm s (nth 1 (joins s user_first) 0));
    mkExchange [KInfo u (sv_io s)] (ref_licence s) ].

(* the session part as exchanges: before waiting for session frame j the client sends its answer to frame j-1;
   returns the exchanges and what is still to be sent after the last frame *)
Fixpoint zip_answers (pending : list kind) (frames : list bytes) (answers : list (list kind)) : list exchange * list kind :=
  match frames, answers with
  | f :: fs, a :: tl => let (xs, fin) := zip_answers a fs tl in (mkExchange pending f :: xs, fin)
  | _, _ => ([], pending)
  end.

(* THE CONVERSATION with this server: the exchanges in order (the first reply in clear, then the TLS handshake
   -- and CredSSP when HYBRID was selected -- then everything inside TLS), and what the client sends after the
   last reply when the application then closes *)
Definition conversation (s : server) (user_first : bool) : list exchange * list kind :=
  let (xs, fin) := zip_answers [] (session_frames s None (sv_rounds s)) (session_answers s None (sv_rounds s)) in
  (connect_exchanges s user_first ++ xs, fin ++ [KDisconnect]).

(* THE MANDATED SEQUENCE of client messages for this server *)
Definition expected_kinds (s : server) (user_first : bool) : list kind :=
  flat_map x_client (fst (conversation s user_first)) ++ snd (conversation s user_first).

(* the server's replies in order *)
Definition replies (s : server) (user_first : bool) : list bytes := map x_reply (fst (conversation s user_first)).

(* CAUSALITY: what the client has sent when the server has released exactly its first [k] replies and the
   client waits for the next one: the messages of the first k+1 exchanges -- each message only after the
   reply that precedes it in the conversation *)
Definition sent_before_reply (s : server) (user_first : bool) (k : nat) : list kind :=
  flat_map x_client (firstn (S k) (fst (conversation s user_first))).

(* ------------------------------------------------------------------ conformance: the ranges of the parameters *)
Definition byte (b : N) : Prop := b < 256.
Definition capset_ok (c : N * bytes) : Prop := fst c < 65536 /\ Forall byte (snd c).
Definition round_ok (r : round) : Prop :=
  r_share r < 4294967296 /\ r_sessid r < 4294967296 /\ Forall byte (r_source r) /\ Forall capset_ok (r_caps r) /\
  (* the PDU fits the 16-bit length fields of its headers with room for them *)
  nlen (r_source r) + nlen (ref_capsets (r_caps r)) <= 16000.
Definition licence_ok (l : licence) : Prop :=
  match l with
  | LicValidClient fl bt => fl < 256 /\ bt < 65536
  | LicNewLicence fl body => fl < 256 /\ Forall byte body /\ nlen body <= 16000
  end.
Definition opt_lt (o : option N) (k : N) : Prop := match o with Some x => x < k | None => True end.

Definition conforming (offered : N) (s : server) : Prop :=
  (* a protocol among those offered, TLS based *)
  (sv_selected s = SEL_SSL \/ sv_selected s = SEL_HYBRID) /\ N.land offered (sv_selected s) <> 0 /\
  sv_neg_flags s < 256 /\ sv_src_ref s < 65536 /\
  1001 <= sv_uid s <= 65535 /\
  1 <= sv_io s <= 65535 /\ sv_io s <> sv_uid s /\
  sv_version s < 4294967296 /\ opt_lt (sv_requested s) 4294967296 /\ opt_lt (sv_early s) 4294967296 /\
  licence_ok (sv_licence s) /\
  (sv_lic_secflags s = 128 \/ sv_lic_secflags s = 640) /\
  Forall round_ok (sv_rounds s).
