(* Executable model of what yasna 0.3.2 (reader/mod.rs, BER mode) does on the MCS
   connect-response template of core/mcs.rs:
     [APPLICATION 102] IMPLICIT SEQUENCE { result ENUMERATED, calledConnectId INTEGER(u32),
       domainParameters SEQUENCE { 8 x INTEGER(u32) }, userData OCTET STRING }
   The only thing the client uses is userData; every error is Error::ASN1Error.
   yasna is EXTERNAL code: the connect model (Connect.v) takes the parser as a Section
   variable; this file is the instantiation used for extraction, written from yasna's
   source so that model and implementation agree on malformed input too -- including the
   one place where yasna itself panics: `let limit = self.pos + length` in read_general
   is unchecked (debug: overflow trap; release: wraps, then the slice of a PRIMITIVE
   value panics, a constructed one runs into Eof). *)
From RdpV Require Import Base.
Open Scope list_scope.
Open Scope N_scope.

Definition two64 : N := 18446744073709551616.

(* result of a sub-reader: value, what is left of the current buffer, absolute position.
   An error remembers whether the reader position moved (read_optional needs it). *)
Inductive bres (T : Type) : Type :=
| BOk (t : T) (rest : bytes) (pos : N)
| BErr (moved : bool)
| BPanic
| BSpin.
Arguments BOk {T} _ _ _.
Arguments BErr {T} _.
Arguments BPanic {T}.
Arguments BSpin {T}.

(* ---- identifier octets: (class, constructed, number) ---- *)
Fixpoint ber_tagnum (acc : N) (input : bytes) (pos : N) : option (N * bytes * N) :=
  match input with
  | [] => None
  | b :: r =>
      if two64 <=? acc * 128 then None
      else let acc' := acc * 128 + N.land b 127 in
           if N.land b 128 =? 0 then Some (acc', r, pos + 1) else ber_tagnum acc' r (pos + 1)
  end.

Definition ber_ident (input : bytes) (pos : N) : option (N * bool * N * bytes * N) :=
  match input with
  | [] => None
  | t :: r =>
      let cls := N.shiftr t 6 in
      let cstr := negb (N.land (N.shiftr t 5) 1 =? 0) in
      let num := N.land t 31 in
      if num =? 31 then
        match ber_tagnum 0 r (pos + 1) with
        | Some (n, r', pos') => if n <? 31 then None else Some (cls, cstr, n, r', pos')
        | None => None
        end
      else Some (cls, cstr, num, r, pos + 1)
  end.

(* ---- length octets: Some None = indefinite ---- *)
Fixpoint ber_lenbytes (n : nat) (acc : N) (input : bytes) (pos : N) : option (N * bytes * N) :=
  match n with
  | O => Some (acc, input, pos)
  | S n' =>
      if two64 <=? acc * 256 then None
      else match input with
           | [] => None
           | b :: r => ber_lenbytes n' (acc * 256 + b) r (pos + 1)
           end
  end.

Definition ber_length (input : bytes) (pos : N) : option (option N * bytes * N) :=
  match input with
  | [] => None
  | l :: r =>
      if l =? 128 then Some (None, r, pos + 1)
      else if l =? 255 then None
      else if N.land l 128 =? 0 then Some (Some l, r, pos + 1)
      else match ber_lenbytes (N.to_nat (N.land l 127)) 0 r (pos + 1) with
           | Some (n, r', pos') => Some (Some n, r', pos')
           | None => None
           end
  end.

Section Reader.
Variable p : prof.

(* BERReaderImpl::read_general for an expected (class, number); [kprim] gets the contents
   of a primitive value, [kcons] reads inside a constructed one and returns what it left. *)
Definition ber_general {T} (cls num : N) (input : bytes) (pos : N)
           (kprim : bytes -> option T) (kcons : bytes -> N -> bres T) : bres T :=
  match ber_ident input pos with
  | None => BErr (match input with [] => false | _ => true end)
  | Some (c, cstr, n, r1, pos1) =>
      if negb ((c =? cls) && (n =? num)) then BErr false      (* position restored *)
      else
        match ber_length r1 pos1 with
        | None => BErr true
        | Some (Some len, r2, pos2) =>
            if two64 <=? pos2 + len then
              match p with
              | Debug => BPanic                                  (* attempt to add with overflow *)
              | Release => if cstr then BErr true else BPanic    (* &self.buf[self.pos..] past the wrapped limit *)
              end
            else if nlen r2 <? len then BErr true
            else
              let content := firstn (N.to_nat len) r2 in
              let after := skipn (N.to_nat len) r2 in
              if cstr then
                match kcons content pos2 with
                | BOk t [] pos3 => BOk t after pos3
                | BOk _ _ _ => BErr true                         (* Extra *)
                | BErr _ => BErr true
                | BPanic => BPanic
                | BSpin => BSpin
                end
              else match kprim content with
                   | Some t => BOk t after (pos2 + len)
                   | None => BErr true
                   end
        | Some (None, r2, pos2) =>
            if negb cstr then BErr true
            else match kcons r2 pos2 with
                 | BOk t (0 :: 0 :: r3) pos3 => BOk t r3 (pos3 + 2)   (* end-of-contents *)
                 | BOk _ _ _ => BErr true
                 | BErr _ => BErr true
                 | BPanic => BPanic
                 | BSpin => BSpin
                 end
        end
  end.

Definition no_cons {T} (_ : bytes) (_ : N) : bres T := BErr true.

(* read_u32 = read_u64 + range *)
Definition u32_contents (buf : bytes) : option unit :=
  match buf with
  | [] => None
  | b0 :: tl =>
      if 128 <=? b0 then None
      else match tl with
           | [] => Some tt
           | b1 :: tl2 =>
               let x := b0 * 256 + b1 in
               if x <? 128 then None
               else if (9 <? nlen buf) || ((nlen buf =? 9) && negb (b0 =? 0)) then None
               else let v := fold_left (fun acc b => acc * 256 + b) tl2 x in
                    if v mod two64 <? 4294967296 then Some tt else None
           end
  end.

(* read_enum = read_integer(ENUMERATED): i64 *)
Definition enum_contents (buf : bytes) : option unit :=
  match buf with
  | [] => None
  | b0 :: tl =>
      match tl with
      | [] => Some tt
      | b1 :: _ =>
          if ((b0 =? 0) && (b1 <? 128)) || ((b0 =? 255) && (128 <=? b1)) then None
          else if 8 <? nlen buf then None
          else Some tt
      end
  end.

Definition ber_u32 (input : bytes) (pos : N) : bres unit := ber_general 0 2 input pos u32_contents no_cons.
Definition ber_enum (input : bytes) (pos : N) : bres unit := ber_general 0 10 input pos enum_contents no_cons.

(* read_bytes_impl: primitive, or (BER) constructed from nested OCTET STRINGs, read with
   read_optional until one fails WITHOUT moving.  [f] = 101 - depth: the depth guard of
   read_general fails without moving, i.e. it ends the enclosing loop. *)
Fixpoint ber_octets (f : nat) (input : bytes) (pos : N) : bres bytes :=
  match f with
  | O => BErr false
  | S f' =>
      ber_general 0 4 input pos (fun buf => Some buf)
        (fun sub pos1 =>
           (fix loop (n : nat) (sub : bytes) (pos : N) (acc : bytes) : bres bytes :=
              match n with
              | O => BSpin
              | S n' =>
                  match ber_octets f' sub pos with
                  | BOk d rest pos' => loop n' rest pos' (acc ++ d)
                  | BErr false => BOk acc sub pos
                  | BErr true => BErr true
                  | BPanic => BPanic
                  | BSpin => BSpin
                  end
              end) (S (length sub)) sub pos1 [])
  end.

Definition bbind {A B} (r : bres A) (k : A -> bytes -> N -> bres B) : bres B :=
  match r with
  | BOk a rest pos => k a rest pos
  | BErr _ => BErr true
  | BPanic => BPanic
  | BSpin => BSpin
  end.

Fixpoint ber_u32s (n : nat) (input : bytes) (pos : N) : bres unit :=
  match n with
  | O => BOk tt input pos
  | S n' => bbind (ber_u32 input pos) (fun _ r ps => ber_u32s n' r ps)
  end.

Definition ber_domain_parameters (input : bytes) (pos : N) : bres unit :=
  ber_general 0 16 input pos (fun _ => None) (fun sub ps => ber_u32s 8 sub ps).

(* depth: the outer sequence is read at depth 0, its children at depth 1 *)
Definition ber_connect_response_body (sub : bytes) (pos : N) : bres bytes :=
  bbind (ber_enum sub pos) (fun _ r1 p1 =>
  bbind (ber_u32 r1 p1) (fun _ r2 p2 =>
  bbind (ber_domain_parameters r2 p2) (fun _ r3 p3 =>
  ber_octets 100 r3 p3))).

(* yasna::parse_ber(buf, |r| connect_response.read_asn1(r)) followed by the userData cast *)
Definition ber_connect_response (input : bytes) : outcome bytes :=
  match ber_general 1 102 input 0 (fun _ => None) ber_connect_response_body with
  | BOk ud [] _ => Ok ud
  | BOk _ _ _ => Err EAsn1          (* trailing bytes: Extra *)
  | BErr _ => Err EAsn1
  | BPanic => Panic
  | BSpin => Spin
  end.

End Reader.
