(* C08: BitmapEvent::decompress (model Bitmap.v) is total, returns exactly width*height*4
   bytes and allocates at most two buffers of at most that size. *)
From RdpV Require Import Base Buf Rle16 Rle32 Bitmap CodecLemmas Rle16_proofs Rle32_proofs.

Section Dec.
Variable p : prof.
Variables w h : N.
Hypothesis Hw : w < 65536.
Hypothesis Hh : h < 65536.

Lemma wh_b : w * h <= 4294836225.
Proof. apply mul_u16; assumption. Qed.

Lemma idx_lt i j : i < h -> j < w -> i * w + j < w * h.
Proof.
  intros Hi Hj. assert (H : (i + 1) * w <= h * w) by (apply N.mul_le_mono_r; lia). lia.
Qed.

(* ---- rgb565torgb32 *)
Lemma widen_px_ok input res i j : i < h -> j < w -> w * h <= blen input -> blen res = 4 * (w * h) ->
  safe (fun r => blen r = 4 * (w * h)) (widen_px p input res w i j).
Proof.
  intros Hi Hj Hin Hres. pose proof wh_b as Hb. pose proof (idx_lt i j Hi Hj) as Hidx.
  unfold widen_px.
  rewrite mul64 by lia. cbn [obind]. rewrite add64 by lia. cbn [obind].
  rewrite bget_ok by lia. cbn [obind].
  set (v := bget_raw input (i * w + j)).
  rewrite mul64 by lia. cbn [obind]. rewrite add64 by lia. cbn [obind].
  rewrite bset_ok by lia. cbn [obind].
  pose proof (N.mod_lt (v / 2048) 32). pose proof (N.mod_lt (v / 32) 64). pose proof (N.mod_lt v 32).
  rewrite mul16 by lia. cbn [obind]. rewrite add16 by lia. cbn [obind].
  rewrite add64 by lia. cbn [obind].
  rewrite bset_ok by (rewrite blen_bset_raw; lia). cbn [obind].
  rewrite mul16 by lia. cbn [obind]. rewrite add16 by lia. cbn [obind].
  rewrite add64 by lia. cbn [obind].
  rewrite bset_ok by (rewrite !blen_bset_raw; lia). cbn [obind].
  rewrite mul16 by lia. cbn [obind]. rewrite add16 by lia. cbn [obind].
  rewrite bset_ok by (rewrite !blen_bset_raw; lia). cbn [safe].
  rewrite !blen_bset_raw. exact Hres.
Qed.

Lemma widen_cols_ok input i : i < h -> w * h <= blen input ->
  forall n j res, j + N.of_nat n = w -> blen res = 4 * (w * h) ->
  safe (fun r => blen r = 4 * (w * h)) (widen_cols p n input res w i j).
Proof.
  intros Hi Hin. induction n as [|k IH]; intros j res Hn Hres.
  - cbn [widen_cols safe]. exact Hres.
  - cbn [widen_cols]. eapply safe_bind; [apply widen_px_ok; auto; lia|].
    intros r Hr. apply IH; [lia|exact Hr].
Qed.

Lemma widen_rows_ok input : w * h <= blen input ->
  forall n i res, i + N.of_nat n = h -> blen res = 4 * (w * h) ->
  safe (fun r => blen r = 4 * (w * h)) (widen_rows p n input res w i).
Proof.
  intros Hin. induction n as [|k IH]; intros i res Hn Hres.
  - cbn [widen_rows safe]. exact Hres.
  - cbn [widen_rows]. eapply safe_bind.
    + apply (widen_cols_ok input i); auto; [lia|]. rewrite N2Nat.id. lia.
    + intros r Hr. apply IH; [lia|exact Hr].
Qed.

Definition allocs_ok (l : list N) : Prop := Forall (fun a => a <= 4 * (w * h)) l.

Lemma rgb_ok input : w * h <= blen input ->
  exists r, rgb565torgb32 p input w h = ([4 * (w * h)], r) /\ safe (fun o => blen o = 4 * (w * h)) r.
Proof.
  intros Hin. pose proof wh_b as Hb. unfold rgb565torgb32.
  rewrite mul64 by lia. cbn [obind]. rewrite mul64 by lia.
  cbn [lift mbind]. unfold alloc.
  assert (Ha : w * h * 4 * 1 <? 2 ^ 63 = true) by (apply N.ltb_lt; rewrite pow63; lia).
  rewrite Ha. cbn [mbind lift app].
  replace (w * h * 4 * 1) with (4 * (w * h)) by lia.
  eexists. split; [reflexivity|].
  apply widen_rows_ok; auto; [rewrite N2Nat.id; lia|]. rewrite blen_bmake. lia.
Qed.

(* ---- uncompressed 16 bpp *)
Lemma raw16_px_ok data res i j : i < h -> j < w -> 2 * (w * h) <= blen data -> blen res = w * h ->
  safe (fun r => blen r = w * h) (raw16_px p data res w h i j).
Proof.
  intros Hi Hj Hin Hres. pose proof wh_b as Hb. pose proof (idx_lt i j Hi Hj) as Hidx.
  assert (Hsrc : (h - i - 1) * w + j < w * h) by (apply idx_lt; lia).
  unfold raw16_px.
  rewrite sub64 by lia. cbn [obind]. rewrite sub64 by lia. cbn [obind].
  rewrite mul64 by lia. cbn [obind]. rewrite add64 by lia. cbn [obind].
  rewrite mul64 by lia. cbn [obind].
  rewrite mul64 by lia. cbn [obind]. rewrite add64 by lia. cbn [obind].
  rewrite add64 by lia. cbn [obind].
  rewrite bget_ok by lia. cbn [obind]. rewrite bget_ok by lia. cbn [obind].
  rewrite bset_ok by lia. cbn [safe]. rewrite blen_bset_raw. exact Hres.
Qed.

Lemma raw16_cols_ok data i : i < h -> 2 * (w * h) <= blen data ->
  forall n j res, j + N.of_nat n = w -> blen res = w * h ->
  safe (fun r => blen r = w * h) (raw16_cols p n data res w h i j).
Proof.
  intros Hi Hin. induction n as [|k IH]; intros j res Hn Hres.
  - cbn [raw16_cols safe]. exact Hres.
  - cbn [raw16_cols]. eapply safe_bind; [apply raw16_px_ok; auto; lia|].
    intros r Hr. apply IH; [lia|exact Hr].
Qed.

Lemma raw16_rows_ok data : 2 * (w * h) <= blen data ->
  forall n i res, i + N.of_nat n = h -> blen res = w * h ->
  safe (fun r => blen r = w * h) (raw16_rows p n data res w h i).
Proof.
  intros Hin. induction n as [|k IH]; intros i res Hn Hres.
  - cbn [raw16_rows safe]. exact Hres.
  - cbn [raw16_rows]. eapply safe_bind.
    + apply (raw16_cols_ok data i); auto; [lia|]. rewrite N2Nat.id. lia.
    + intros r Hr. apply IH; [lia|exact Hr].
Qed.

(* ---- uncompressed 32 bpp *)
Lemma raw32_rows_ok data : 4 * (w * h) <= blen data ->
  forall n i res, i + N.of_nat n = h -> blen res = 4 * (w * h) ->
  safe (fun r => blen r = 4 * (w * h)) (raw32_rows p n data res (w * 4) h i).
Proof.
  intros Hin. pose proof wh_b as Hb. induction n as [|k IH]; intros i res Hn Hres.
  - cbn [raw32_rows safe]. exact Hres.
  - cbn [raw32_rows].
    assert (Hi : i < h) by lia.
    assert (H1 : (i + 1) * w <= h * w) by (apply N.mul_le_mono_r; lia).
    assert (H2 : (h - i - 1 + 1) * w <= h * w) by (apply N.mul_le_mono_r; lia).
    rewrite sub64 by lia. cbn [obind]. rewrite sub64 by lia. cbn [obind].
    rewrite mul64 by lia. cbn [obind]. rewrite mul64 by lia. cbn [obind].
    rewrite add64 by lia. cbn [obind]. rewrite mul64 by lia. cbn [obind].
    rewrite add64 by lia. cbn [obind].
    destruct (copy_slice_ok res (i * (w * 4)) ((i + 1) * (w * 4)) data
                            ((h - i - 1) * (w * 4)) ((h - i - 1) * (w * 4) + w * 4)) as (r & -> & Hr); try lia.
    cbn [obind]. apply IH; [lia|]. rewrite Hr. exact Hres.
Qed.

(* ---- the dispatcher *)
Definition dec_ok (m : M bytes) : Prop :=
  safe (fun out => nlen out = 4 * (w * h)) (snd m) /\ allocs_ok (fst m) /\ (length (fst m) <= 2)%nat.

Lemma alloc_eq n sz : n * sz < 2 ^ 63 -> alloc n sz = ([n * sz], Ok (bmake n)).
Proof. intros H. unfold alloc. apply N.ltb_lt in H. rewrite H. reflexivity. Qed.

Lemma dec_ok_nil (r : outcome bytes) : safe (fun out => nlen out = 4 * (w * h)) r -> dec_ok ([], r).
Proof. intros H. unfold dec_ok, allocs_ok. cbn [fst snd length]. repeat split; auto. Qed.

Lemma decompress_ok bpp flag data : wf_bytes data -> dec_ok (decompress p w h bpp flag data).
Proof.
  intros Hwf. pose proof wh_b as Hb. unfold decompress.
  destruct (bpp =? 32).
  { destruct flag.
    - (* planar RLE *)
      rewrite mul64 by lia. cbn [obind]. rewrite mul64 by lia. cbn [lift mbind].
      rewrite alloc_eq by (rewrite pow63; lia). cbn [mbind lift].
      pose proof (rle32_total p w h data (bmake (w * h * 4)) Hw Hh ltac:(rewrite blen_bmake; lia) Hwf) as Hr.
      destruct (rle32 p w h data (bmake (w * h * 4))) as [o| | |]; cbn [safe mbind lift app] in *; try contradiction.
      + unfold dec_ok, allocs_ok. cbn [fst snd safe length]. repeat split; [|repeat constructor; lia|lia].
        rewrite nlen_to_list, Hr, blen_bmake. lia.
      + unfold dec_ok, allocs_ok. cbn [fst snd safe length]. repeat split; [repeat constructor; lia|lia].
    - (* uncompressed 32 bpp *)
      rewrite mul64 by lia. cbn [obind]. rewrite mul64 by lia. cbn [lift mbind].
      destruct (nlen data <? w * h * 4) eqn:El; [apply dec_ok_nil; exact I|]. apply N.ltb_ge in El.
      rewrite mul64 by lia. cbn [lift mbind].
      rewrite alloc_eq by (rewrite pow63; lia). cbn [mbind lift].
      pose proof (raw32_rows_ok (of_list data) ltac:(rewrite blen_of_list; lia) (N.to_nat h) 0 (bmake (w * h * 4))
                                ltac:(rewrite N2Nat.id; lia) ltac:(rewrite blen_bmake; lia)) as Hr.
      destruct (raw32_rows p (N.to_nat h) (of_list data) (bmake (w * h * 4)) (w * 4) h 0) as [o| | |];
        cbn [safe mbind lift app] in *; try contradiction.
      + unfold dec_ok, allocs_ok. cbn [fst snd safe length]. repeat split; [|repeat constructor; lia|lia].
        rewrite nlen_to_list. exact Hr.
      + unfold dec_ok, allocs_ok. cbn [fst snd safe length]. repeat split; [repeat constructor; lia|lia]. }
  destruct (bpp =? 16); [|apply dec_ok_nil; exact I].
  destruct flag.
  - (* interleaved RLE *)
    rewrite mul64 by lia. cbn [obind]. rewrite mul64 by lia. cbn [lift mbind].
    rewrite alloc_eq by (rewrite pow63; lia). cbn [mbind lift].
    pose proof (rle16_total p w h data (bmake (w * h * 2)) Hw Hh ltac:(rewrite blen_bmake; lia) Hwf) as Hr.
    destruct (rle16 p w h data (bmake (w * h * 2))) as [o| | |]; cbn [safe mbind lift app] in *; try contradiction.
    + destruct (rgb_ok o ltac:(rewrite Hr, blen_bmake; lia)) as (r & -> & Hrr).
      cbn [app]. destruct r as [o2| | |]; cbn [safe mbind lift app] in *; try contradiction.
      * unfold dec_ok, allocs_ok. cbn [fst snd safe length]. repeat split; [|repeat constructor; lia|lia].
        rewrite nlen_to_list. exact Hrr.
      * unfold dec_ok, allocs_ok. cbn [fst snd safe length]. repeat split; [repeat constructor; lia|lia].
    + unfold dec_ok, allocs_ok. cbn [fst snd safe length]. repeat split; [repeat constructor; lia|lia].
  - (* uncompressed 16 bpp *)
    rewrite mul64 by lia. cbn [obind]. rewrite mul64 by lia. cbn [lift mbind].
    destruct (nlen data <? w * h * 2) eqn:El; [apply dec_ok_nil; exact I|]. apply N.ltb_ge in El.
    cbn [lift mbind].
    rewrite alloc_eq by (rewrite pow63; lia). cbn [mbind lift].
    pose proof (raw16_rows_ok (of_list data) ltac:(rewrite blen_of_list; lia) (N.to_nat h) 0 (bmake (w * h))
                              ltac:(rewrite N2Nat.id; lia) ltac:(rewrite blen_bmake; lia)) as Hr.
    destruct (raw16_rows p (N.to_nat h) (of_list data) (bmake (w * h)) w h 0) as [o| | |];
      cbn [safe mbind lift app] in *; try contradiction.
    + destruct (rgb_ok o ltac:(rewrite Hr; lia)) as (r & -> & Hrr).
      cbn [app]. destruct r as [o2| | |]; cbn [safe mbind lift app] in *; try contradiction.
      * unfold dec_ok, allocs_ok. cbn [fst snd safe length]. repeat split; [|repeat constructor; lia|lia].
        rewrite nlen_to_list. exact Hrr.
      * unfold dec_ok, allocs_ok. cbn [fst snd safe length]. repeat split; [repeat constructor; lia|lia].
    + unfold dec_ok, allocs_ok. cbn [fst snd safe length]. repeat split; [repeat constructor; lia|lia].
Qed.

End Dec.

(* ---- the statements used by Properties/C08.v *)
Definition sum_allocs (l : list N) : N := fold_right N.add 0 l.

Theorem bmp_total p w h bpp flag data :
  w < 65536 -> h < 65536 -> wf_bytes data ->
  crashes (snd (decompress p w h bpp flag data)) = false.
Proof.
  intros Hw Hh Hwf. destruct (decompress_ok p w h Hw Hh bpp flag data Hwf) as (H & _).
  eapply safe_crashes. exact H.
Qed.

Theorem bmp_size p w h bpp flag data out :
  w < 65536 -> h < 65536 -> wf_bytes data ->
  snd (decompress p w h bpp flag data) = Ok out -> nlen out = 4 * w * h.
Proof.
  intros Hw Hh Hwf E. destruct (decompress_ok p w h Hw Hh bpp flag data Hwf) as (H & _).
  rewrite E in H. cbn [safe] in H. lia.
Qed.

Theorem bmp_alloc p w h bpp flag data :
  w < 65536 -> h < 65536 -> wf_bytes data ->
  Forall (fun a => a <= 4 * w * h) (fst (decompress p w h bpp flag data)) /\
  (length (fst (decompress p w h bpp flag data)) <= 2)%nat /\
  sum_allocs (fst (decompress p w h bpp flag data)) <= 2 * (4 * w * h).
Proof.
  intros Hw Hh Hwf. destruct (decompress_ok p w h Hw Hh bpp flag data Hwf) as (_ & Ha & Hl).
  unfold allocs_ok in Ha.
  assert (Ha' : Forall (fun a => a <= 4 * w * h) (fst (decompress p w h bpp flag data))).
  { eapply Forall_impl; [|exact Ha]. cbv beta. intros a H. lia. }
  split; [exact Ha'|]. split; [exact Hl|].
  destruct (fst (decompress p w h bpp flag data)) as [|a [|b [|c l]]]; cbn [sum_allocs fold_right length] in *.
  - lia.
  - inversion Ha'; subst. lia.
  - inversion Ha' as [|? ? A1 A2]; subst. inversion A2; subst. lia.
  - lia.
Qed.

(* the two decoders on their own, with any output buffer that is large enough *)
Theorem rle16_never_crashes p w h input out :
  w < 65536 -> h < 65536 -> w * h <= blen out -> wf_bytes input ->
  crashes (rle16 p w h input out) = false.
Proof. intros. eapply safe_crashes. apply rle16_total; assumption. Qed.

Theorem rle32_never_crashes p w h input out :
  w < 65536 -> h < 65536 -> 4 * (w * h) <= blen out -> wf_bytes input ->
  crashes (rle32 p w h input out) = false.
Proof. intros. eapply safe_crashes. apply rle32_total; assumption. Qed.

(* ---- non-vacuity: concrete events on every path return Ok with the stated size *)
Definition ex16 : bytes := [0x61; 0x34; 0x12; 0x21; 0xE1; 0x11; 0x11; 0x22; 0x22].
Definition ex32 : bytes := [0x10; 0x20; 1; 2; 0x20; 7; 8; 0x20; 3; 4; 0x20; 2; 1; 0x20; 5; 6; 0x20; 1; 1; 0x20; 9; 9; 0x20; 0; 0].

Lemma nonvacuous_all :
  decompress Debug 2 2 16 true ex16 = ([16; 16], Ok [140;32;16;255; 16;69;33;255; 165;69;16;255; 255;255;255;255]) /\
  decompress Release 2 2 32 true ex32 = ([16], Ok [9;4;4;253; 9;5;3;6; 9;5;3;1; 9;6;4;2]) /\
  decompress Debug 1 2 32 false [1;2;3;4;5;6;7;8] = ([8], Ok [5;6;7;8;1;2;3;4]) /\
  decompress Debug 1 2 16 false [0x1f;0x00;0x00;0xf8] = ([4; 8], Ok [0;0;255;255; 255;0;0;255]) /\
  decompress Debug 2 2 16 true [0xF5; 1; 0] = ([16], Err EInvalidData) /\
  decompress Debug 1 1 32 true [0x10; 0x03] = ([4], Err EInvalidData) /\
  decompress Debug 2 2 32 false [1;2;3] = ([], Err EInvalidSize) /\
  decompress Debug 256 256 16 false [1;2;3] = ([], Err EInvalidSize) /\
  decompress Debug 0 0 32 true [0x10] = ([0], Ok []) /\
  decompress Debug 7 7 24 true [] = ([], Err ENotImplemented).
Proof.
  repeat split; vm_compute; reflexivity.
Qed.
