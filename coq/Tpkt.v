(* Model of core/tpkt.rs Client::{read,write} and of x224::Client::{read,write}. *)
From RdpV Require Import Base Link.

Inductive payload :=
| Raw (p : bytes)
| FastPath (sec_flag : N) (p : bytes).

(* the body read: an empty body must not reach Link::read(0) (which means "read what is
   available") *)
Definition read_body (n : nat) (cs : stream) : outcome bytes * stream :=
  match n with
  | O => (Ok [], cs)
  | S _ => link_read n cs
  end.

Definition tpkt_read (cs : stream) : outcome payload * stream :=
  match link_read 2 cs with
  | (Ok [action; b1], cs1) =>
      if action =? 3 then
        match link_read 2 cs1 with
        | (Ok [hi; lo], cs2) =>
            let size := of_be16 hi lo in
            if size <? 4 then (Err EInvalidSize, cs2)
            else match read_body (N.to_nat (size - 4)) cs2 with
                 | (Ok p, cs3) => (Ok (Raw p), cs3)
                 | (Err e, cs3) => (Err e, cs3)
                 | (Panic, cs3) => (Panic, cs3)
                 | (Spin, cs3) => (Spin, cs3)
                 end
        | (Ok _, cs2) => (Panic, cs2)   (* unreachable: read_exact 2 returns 2 bytes *)
        | (Err e, cs2) => (Err e, cs2)
        | (Panic, cs2) => (Panic, cs2)
        | (Spin, cs2) => (Spin, cs2)
        end
      else
        let sec := N.land (N.shiftr action 6) 3 in
        if N.land b1 128 =? 0 then
          if b1 <? 2 then (Err EInvalidSize, cs1)
          else match read_body (N.to_nat (b1 - 2)) cs1 with
               | (Ok p, cs3) => (Ok (FastPath sec p), cs3)
               | (Err e, cs3) => (Err e, cs3)
               | (Panic, cs3) => (Panic, cs3)
               | (Spin, cs3) => (Spin, cs3)
               end
        else
          match link_read 1 cs1 with
          | (Ok [lo], cs2) =>
              let len := N.lor (N.shiftl (N.land b1 127) 8) lo in
              if len <? 3 then (Err EInvalidSize, cs2)
              else match read_body (N.to_nat (len - 3)) cs2 with
                   | (Ok p, cs3) => (Ok (FastPath sec p), cs3)
                   | (Err e, cs3) => (Err e, cs3)
                   | (Panic, cs3) => (Panic, cs3)
                   | (Spin, cs3) => (Spin, cs3)
                   end
          | (Ok _, cs2) => (Panic, cs2)
          | (Err e, cs2) => (Err e, cs2)
          | (Panic, cs2) => (Panic, cs2)
          | (Spin, cs2) => (Spin, cs2)
          end
  | (Ok _, cs1) => (Panic, cs1)
  | (Err e, cs1) => (Err e, cs1)
  | (Panic, cs1) => (Panic, cs1)
  | (Spin, cs1) => (Spin, cs1)
  end.

(* x224::Client::read: strip `02 F0 80` (only the 0x80 separator is checked) *)
Definition x224_strip (p : bytes) : outcome bytes :=
  match p with
  | _ :: _ :: sep :: rest => if sep =? 128 then Ok rest else Err EInvalidConst
  | _ => Err EIo
  end.

Definition x224_read (cs : stream) : outcome payload * stream :=
  match tpkt_read cs with
  | (Ok (Raw p), cs') =>
      (match x224_strip p with Ok r => Ok (Raw r) | Err e => Err e | Panic => Panic | Spin => Spin end, cs')
  | r => r
  end.

(* ---- outbound ---- *)
(* tpkt::Client::write(message): header 03 00 BE16(len+4); a message whose length does
   not fit the 16-bit field is refused before anything is written. *)
Definition tpkt_frame (msg : bytes) : bytes := [3; 0] ++ be16 (nlen msg + 4) ++ msg.

Definition tpkt_write (msg : bytes) (s : schedule) : bytes * outcome unit * schedule :=
  if 65535 - 4 <? nlen msg then ([], Err EInvalidSize, s)
  else link_write (tpkt_frame msg) s.

Definition x224_write (msg : bytes) (s : schedule) : bytes * outcome unit * schedule :=
  tpkt_write ([2; 240; 128] ++ msg) s.

(* a HISTORY of writes on one client: tpkt::Client / Link keep no state between writes, so a history is the fold of the
   single write over the sink's schedule; what reaches the sink is the concatenation of what each write emitted *)
Fixpoint tpkt_writes (msgs : list bytes) (s : schedule) : list (bytes * outcome unit) * schedule :=
  match msgs with
  | [] => ([], s)
  | m :: tl =>
      let '(out, r, s') := tpkt_write m s in
      let '(rs, s'') := tpkt_writes tl s' in
      ((out, r) :: rs, s'')
  end.
