(* C09, interleaved RLE: the decoder model against the flat per-pixel semantics of RefRle.v, for ALL
   twelve order kinds in every legal header form.
   The invariant relates the decoder's (x, height, line, prevline) to the flat position
   |out| = r * width + x  and its output buffer to the pixels written so far (row r of the
   bottom-up raster lives at (height-1-r) * width).  The repeat! macro is handled once, for any
   expression, through [step_px] (one macro iteration stores px(out), keeps an order-specific state
   invariant and uses up one of the [rem] remaining pixels); expressions that only store a pixel
   come in through [body_px]; FGBG images carry (mask, mixmask, input) in [Ifom], dithered runs
   (bicolour, count) in [Idith]. *)
From RdpV Require Import Base Buf Rle16 RefRle CodecLemmas CodecContent Rle16_proofs.

Ltac Zify.zify_post_hook ::= Z.to_euclidean_division_equations.

Ltac prj := cbn [s_inp s_out s_x s_cnt s_hgt s_line s_prev s_lastop s_insmix s_c1 s_c2 s_mix s_mask s_mixmask s_bic
                 set_inp set_out set_x set_cnt set_lastop set_insmix set_c1 set_c2 set_mix set_mask set_mixmask set_bic
                 set_newline] in *.

Ltac fin := repeat match goal with |- _ /\ _ => split end; auto; try lia.

(* everything except x / count / height / line / prevline / output *)
Definition same_params (s s' : st) : Prop :=
  s_lastop s' = s_lastop s /\ s_insmix s' = s_insmix s /\ s_c1 s' = s_c1 s /\
  s_c2 s' = s_c2 s /\ s_mix s' = s_mix s /\ s_bic s' = s_bic s.

Lemma same_params_refl s : same_params s s.
Proof. unfold same_params. repeat split. Qed.
Lemma same_params_trans s1 s2 s3 : same_params s1 s2 -> same_params s2 s3 -> same_params s1 s3.
Proof. unfold same_params. intros (A1&A2&A3&A4&A5&A6) (B1&B2&B3&B4&B5&B6). repeat split; congruence. Qed.

Lemma run_add : forall a b px out, run (a + b) px out = run b px (run a px out).
Proof. induction a as [|a IH]; intros b px out; [reflexivity|]. cbn [Nat.add run]. apply IH. Qed.

Lemma nlen_run : forall n px out, nlen (run n px out) = nlen out + N.of_nat n.
Proof.
  induction n as [|n IH]; intros px out; [cbn [run]; lia|].
  cbn [run]. rewrite IH, nlen_app, nlen_cons, nlen_nil. lia.
Qed.

Lemma nlen_fgbg : forall n i w fg masks out, nlen (fgbg n i w fg masks out) = nlen out + N.of_nat n.
Proof.
  induction n as [|n IH]; intros i w fg masks out; [cbn [fgbg]; lia|].
  cbn [fgbg]. rewrite IH, nlen_app, nlen_cons, nlen_nil. lia.
Qed.

Lemma nlen_dither : forall n c1 c2 out, nlen (dither n c1 c2 out) = nlen out + 2 * N.of_nat n.
Proof.
  induction n as [|n IH]; intros c1 c2 out; [cbn [dither]; lia|].
  cbn [dither]. rewrite IH, nlen_app, !nlen_cons, nlen_nil. lia.
Qed.

Section Sem.
Variable p : prof.
Variables w h L : N.
Hypothesis Hw : w < 65536.
Hypothesis Hh : h < 65536.
Hypothesis Hw0 : 0 < w.
Hypothesis HL : w * h <= L.

Let whb : w * h <= 4294836225 := wh_bound w h Hw Hh.

(* ---- position and contents *)
Record pos (r x : N) (s : st) : Prop := mkPos {
  ps_r : r < h;
  ps_x : s_x s = x;
  ps_xw : x <= w;
  ps_h : s_hgt s = h - 1 - r;
  ps_line : s_line s = Some ((h - 1 - r) * w);
  ps_prev : s_prev s = if r =? 0 then None else Some ((h - r) * w) }.

Definition cont (out : list N) (b : buf) : Prop :=
  forall r c, c < w -> r * w + c < nlen out -> bget_raw b ((h - 1 - r) * w + c) = nth (N.to_nat (r * w + c)) out 0.

Lemma row_bound r : r < h -> (h - 1 - r) * w + w <= w * h.
Proof.
  intros Hr. replace ((h - 1 - r) * w + w) with ((h - 1 - r + 1) * w) by lia.
  rewrite (N.mul_comm w h). apply N.mul_le_mono_r. lia.
Qed.

Lemma rc_unique r c r' c' : c < w -> c' < w -> r * w + c = r' * w + c' -> r = r' /\ c = c'.
Proof.
  intros Hc Hc' E.
  assert (r = r').
  { destruct (N.lt_trichotomy r r') as [Hlt|[He|Hgt]]; [|exact He|].
    - assert ((r + 1) * w <= r' * w) by (apply N.mul_le_mono_r; lia). lia.
    - assert ((r' + 1) * w <= r * w) by (apply N.mul_le_mono_r; lia). lia. }
  subst. split; [reflexivity|lia].
Qed.

Lemma cont_snoc out b r x v :
  cont out b -> nlen out = r * w + x -> x < w -> r < h ->
  cont (out ++ [v]) (bset_raw b ((h - 1 - r) * w + x) v).
Proof.
  intros Hc Hn Hx Hr r' c' Hc' Hlt. rewrite nlen_app, nlen_cons, nlen_nil in Hlt.
  destruct (N.eq_dec (r' * w + c') (r * w + x)) as [E|Hne].
  - destruct (rc_unique r' c' r x Hc' Hx E) as [-> ->].
    rewrite bget_raw_bset_raw_same. rewrite app_nth2 by (unfold nlen in *; lia).
    replace (N.to_nat (r * w + x) - length out)%nat with O by (unfold nlen in *; lia). reflexivity.
  - assert (Hlt' : r' * w + c' < nlen out) by lia.
    rewrite bget_raw_bset_raw_other.
    + rewrite (Hc r' c' Hc' Hlt'). rewrite app_nth1 by (unfold nlen in *; lia). reflexivity.
    + intros E. apply Hne.
      assert (Hr' : r' < h).
      { destruct (N.lt_ge_cases r' h) as [Hl|Hg]; [exact Hl|].
        assert (h * w <= r' * w) by (apply N.mul_le_mono_r; lia).
        assert ((r + 1) * w <= h * w) by (apply N.mul_le_mono_r; lia). lia. }
      assert (Eq : (h - 1 - r) = (h - 1 - r') /\ x = c').
      { apply rc_unique; try assumption; lia. }
      destruct Eq as [E1 E2]. assert (r = r') by lia. subst. reflexivity.
Qed.

(* inside a scan line *)
Record inl (fg : N) (r : N) (out : list N) (s : st) : Prop := mkInl {
  il_pos : pos r (s_x s) s;
  il_n : nlen out = r * w + s_x s;
  il_cont : cont out (s_out s);
  il_len : blen (s_out s) = L;
  il_mix : s_mix s = fg }.

(* inl looks only at x, height, line, prevline, output and mix *)
Lemma inl_ext fg r out s s' :
  inl fg r out s -> s_out s' = s_out s -> s_x s' = s_x s -> s_line s' = s_line s -> s_prev s' = s_prev s ->
  s_hgt s' = s_hgt s -> s_mix s' = s_mix s -> inl fg r out s'.
Proof.
  intros [[P1 P2 P3 P4 P5 P6] Hn Hc Hl Hm] E1 E2 E3 E4 E5 E6.
  constructor; [constructor|..]; rewrite ?E1, ?E2, ?E3, ?E4, ?E5, ?E6; auto.
Qed.

(* a repeat! expression that does nothing but store px(out) at the current pixel; it may consume input
   under an invariant [Iinp out input count] that it re-establishes; it touches nothing else *)
Definition body_px (fg r : N) (body : st -> outcome st) (px : list N -> N)
           (Iinp : list N -> bytes -> N -> Prop) : Prop :=
  forall out s, inl fg r out s -> s_x s < w -> 1 <= s_cnt s -> Iinp out (s_inp s) (s_cnt s) ->
    exists i', body s = Ok (set_out (set_inp s i') (bset_raw (s_out s) ((h - 1 - r) * w + s_x s) (px out))) /\
               Iinp (out ++ [px out]) i' (s_cnt s - 1).

(* the expression does not read the input: what is left is [rest] throughout *)
Definition inp_is (rest : bytes) : list N -> bytes -> N -> Prop := fun _ i _ => i = rest.

Lemma set_inp_same s : set_inp s (s_inp s) = s.
Proof. destruct s. reflexivity. Qed.

Lemma wr_eq fg r out s v : inl fg r out s -> s_x s < w ->
  wr p s v = Ok (set_out s (bset_raw (s_out s) ((h - 1 - r) * w + s_x s) v)).
Proof.
  intros [Hp Hn Hc Hl Hm] Hx. unfold wr. rewrite (ps_line _ _ _ Hp).
  pose proof (row_bound r (ps_r _ _ _ Hp)) as Hb.
  rewrite add64 by lia. cbn [obind]. rewrite bset_ok by lia. reflexivity.
Qed.

Lemma rd_eq fg r out s : inl fg r out s -> s_x s < w -> 0 < r ->
  rd p ((h - r) * w) s = Ok (nth (N.to_nat (nlen out - w)) out 0).
Proof.
  intros [Hp Hn Hc Hl Hm] Hx Hr. unfold rd.
  pose proof (ps_r _ _ _ Hp) as Hrh.
  pose proof (row_bound (r - 1) ltac:(lia)) as Hb. replace (h - 1 - (r - 1)) with (h - r) in Hb by lia.
  rewrite add64 by lia. cbn [obind]. rewrite bget_ok by lia. f_equal.
  pose proof (Hc (r - 1) (s_x s) Hx) as Hcc. replace (h - 1 - (r - 1)) with (h - r) in Hcc by lia.
  assert (Hrw : r * w = (r - 1) * w + w) by (replace r with (r - 1 + 1) at 1 by lia; lia).
  rewrite Hcc by lia. f_equal. lia.
Qed.

Lemma above_row fg r out s : inl fg r out s -> s_x s < w ->
  above w out = if r =? 0 then None else Some (nth (N.to_nat (nlen out - w)) out 0).
Proof.
  intros [Hp Hn Hc Hl Hm] Hx. unfold above.
  assert (E0 : 0 <? w = true) by (apply N.ltb_lt; lia). rewrite E0. cbn [andb].
  destruct (r =? 0) eqn:Er.
  - apply N.eqb_eq in Er. subst r. assert (E : w <=? nlen out = false) by (apply N.leb_gt; lia). rewrite E. reflexivity.
  - apply N.eqb_neq in Er. assert (1 * w <= r * w) by (apply N.mul_le_mono_r; lia).
    assert (E : w <=? nlen out = true) by (apply N.leb_le; lia). rewrite E. reflexivity.
Qed.

(* the four plain expressions *)
Lemma body_const fg r v rest : body_px fg r (b_const p v) (fun _ => v) (inp_is rest).
Proof.
  intros out s Hi Hx Hc HI. exists (s_inp s). rewrite set_inp_same. split; [|exact HI].
  unfold b_const. eapply wr_eq; eauto.
Qed.

Lemma body_bg fg r rest : body_px fg r (if r =? 0 then b_const p 0 else b_copy p ((h - r) * w)) (bg_px w) (inp_is rest).
Proof.
  intros out s Hi Hx Hc HI. exists (s_inp s). rewrite set_inp_same. split; [|exact HI].
  unfold bg_px. rewrite (above_row fg r out s Hi Hx).
  destruct (r =? 0) eqn:Er.
  - unfold b_const. eapply wr_eq; eauto.
  - apply N.eqb_neq in Er. unfold b_copy. rewrite (rd_eq fg r out s Hi Hx) by lia. cbn [obind]. eapply wr_eq; eauto.
Qed.

Lemma body_fg fg r rest : body_px fg r (if r =? 0 then b_mix p else b_mixprev p ((h - r) * w)) (fg_px w fg) (inp_is rest).
Proof.
  intros out s Hi Hx Hc HI. exists (s_inp s). rewrite set_inp_same. split; [|exact HI].
  unfold fg_px. rewrite (above_row fg r out s Hi Hx).
  pose proof (il_mix _ _ _ _ Hi) as Hm.
  destruct (r =? 0) eqn:Er.
  - unfold b_mix. rewrite Hm. eapply wr_eq; eauto.
  - apply N.eqb_neq in Er. unfold b_mixprev. rewrite (rd_eq fg r out s Hi Hx) by lia. cbn [obind]. rewrite Hm.
    eapply wr_eq; eauto.
Qed.

Lemma inl_written fg r out s v x' c' i' :
  inl fg r out s -> s_x s < w -> x' = s_x s + 1 ->
  inl fg r (out ++ [v]) (set_x (set_cnt (set_out (set_inp s i') (bset_raw (s_out s) ((h - 1 - r) * w + s_x s) v)) c') x').
Proof.
  intros [Hp Hn Hc Hl Hm] Hx ->. destruct Hp as [P1 P2 P3 P4 P5 P6].
  constructor; prj.
  - constructor; prj; auto. lia.
  - rewrite nlen_app, nlen_cons, nlen_nil. lia.
  - apply cont_snoc; auto.
  - rewrite blen_bset_raw. exact Hl.
  - exact Hm.
Qed.

(* ---- the macro, with contents.
   In general a repeat! expression is characterised through ONE macro iteration `$expr; $count -= 1; $x += 1`:
   it stores px(out) at the current pixel, re-establishes an order-specific invariant [Iinv out s] on the whole
   decoder state (input left, mask / mixmask, bicolour, ...) and decreases by one the number [rem s] of pixels
   the order still has to produce (= count for every order except the dithered run, whose expression itself
   increments count on every other pixel). *)
Definition step_px (fg r : N) (body : st -> outcome st) (px : list N -> N)
           (Iinv : list N -> st -> Prop) (rem : st -> N) : Prop :=
  forall out s, inl fg r out s -> s_x s < w -> 1 <= rem s -> Iinv out s ->
    exists s', step p body s = Ok s' /\ inl fg r (out ++ [px out]) s' /\ s_x s' = s_x s + 1 /\
               Iinv (out ++ [px out]) s' /\ rem s' + 1 = rem s.

(* how the loop conditions on count read in terms of rem *)
Definition rem_ok (Iinv : list N -> st -> Prop) (rem : st -> N) : Prop :=
  forall out s, Iinv out s -> (0 < s_cnt s <-> 0 < rem s) /\ (8 <= s_cnt s -> 8 <= rem s).

(* expressions that only store a pixel: rem = count, and any predicate K on the parameters survives *)
Definition Iio (Iinp : list N -> bytes -> N -> Prop) (K : st -> Prop) : list N -> st -> Prop :=
  fun out s => Iinp out (s_inp s) (s_cnt s) /\ K s.

Lemma step_of_body fg r body px Iinp (K : st -> Prop) :
  (forall s s', K s -> same_params s s' -> K s') ->
  body_px fg r body px Iinp -> step_px fg r body px (Iio Iinp K) s_cnt.
Proof.
  intros HK Hbody out s Hi Hx Hc [HI HKs]. unfold step.
  destruct (Hbody out s Hi Hx Hc HI) as (i' & Eb & HI'). rewrite Eb. cbn [obind]. prj.
  rewrite sub32 by lia. cbn [obind].
  pose proof (ps_xw _ _ _ (il_pos _ _ _ _ Hi)).
  rewrite add64 by lia. cbn [obind].
  eexists. split; [reflexivity|]. split; [apply inl_written; auto|]. prj.
  split; [reflexivity|]. split; [|lia]. split; [exact HI'|].
  eapply HK; [exact HKs|]. unfold same_params. prj. fin.
Qed.

Lemma rem_ok_io Iinp K : rem_ok (Iio Iinp K) s_cnt.
Proof. intros out s _. split; [reflexivity|auto]. Qed.

Section Rep.
Variable fg r : N.
Variable body : st -> outcome st.
Variable px : list N -> N.
Variable Iinv : list N -> st -> Prop.
Variable rem : st -> N.
Hypothesis Hstep : step_px fg r body px Iinv rem.
Hypothesis Hrem : rem_ok Iinv rem.

Definition after (n : nat) (out : list N) (s s' : st) : Prop :=
  inl fg r (run n px out) s' /\ s_x s' = s_x s + N.of_nat n /\ rem s' + N.of_nat n = rem s /\ Iinv (run n px out) s'.

Lemma after_refl out s : inl fg r out s -> Iinv out s -> after 0 out s s.
Proof. intros Hi HI. unfold after. cbn [run]. fin. Qed.

Lemma after_trans a b out s s1 s2 :
  after a out s s1 -> after b (run a px out) s1 s2 -> after (a + b) out s s2.
Proof.
  intros (Hi1 & Hx1 & Hc1 & HI1) (Hi2 & Hx2 & Hc2 & HI2).
  unfold after. rewrite run_add. fin.
Qed.

Lemma step_eq out s : inl fg r out s -> s_x s < w -> 1 <= rem s -> Iinv out s ->
  exists s', step p body s = Ok s' /\ after 1 out s s'.
Proof.
  intros Hi Hx Hc HI. destruct (Hstep out s Hi Hx Hc HI) as (s' & E & Hi' & Hx' & HI' & Hr').
  exists s'. split; [exact E|]. unfold after. cbn [run]. fin.
Qed.

Lemma steps_eq : forall n out s, inl fg r out s -> s_x s + N.of_nat n <= w -> N.of_nat n <= rem s ->
  Iinv out s ->
  exists s', steps p n body s = Ok s' /\ after n out s s'.
Proof.
  induction n as [|n IH]; intros out s Hi Hx Hc HI.
  - cbn [steps]. exists s. split; [reflexivity|]. apply after_refl; assumption.
  - cbn [steps]. destruct (step_eq out s Hi ltac:(lia) ltac:(lia) HI) as (s1 & -> & Ha1).
    cbn [obind]. pose proof Ha1 as (Hi1 & Hx1 & Hc1 & HI1). cbn [run] in Hi1, HI1.
    destruct (IH (out ++ [px out]) s1 Hi1 ltac:(lia) ltac:(lia) HI1) as (s2 & E2 & Ha2).
    exists s2. split; [exact E2|]. change (S n) with (1 + n)%nat. eapply after_trans; eauto.
Qed.

Lemma rep_blk_eq : forall fuel out s, inl fg r out s -> (N.to_nat (w - s_x s) < fuel)%nat ->
  Iinv out s ->
  exists j s', rep_blk p w fuel body s = Ok s' /\ after j out s s' /\ N.of_nat j <= rem s.
Proof.
  induction fuel as [|k IH]; intros out s Hi Hf HI; [lia|].
  cbn [rep_blk].
  assert (Hrefl : exists j s', Ok s = Ok s' /\ after j out s s' /\ N.of_nat j <= rem s).
  { exists O, s. split; [reflexivity|]. split; [apply after_refl; assumption|lia]. }
  destruct (8 <=? s_cnt s) eqn:E8; [|exact Hrefl]. apply N.leb_le in E8.
  destruct (Hrem out s HI) as [_ Hr8]. specialize (Hr8 E8).
  pose proof (ps_xw _ _ _ (il_pos _ _ _ _ Hi)) as Hxw.
  rewrite add64 by lia. cbn [obind].
  destruct (s_x s + 8 <? w) eqn:Ex; [|exact Hrefl]. apply N.ltb_lt in Ex.
  destruct (steps_eq 8 out s Hi ltac:(cbn; lia) ltac:(cbn; lia) HI) as (s1 & -> & Ha1).
  cbn [obind]. pose proof Ha1 as (Hi1 & Hx1 & Hc1 & HI1). cbn in Hx1, Hc1.
  destruct (IH (run 8 px out) s1 Hi1 ltac:(lia) HI1) as (j & s2 & E2 & Ha2 & Hj).
  exists (8 + j)%nat, s2. split; [exact E2|]. split; [eapply after_trans; eauto|lia].
Qed.

Lemma rep_tail_eq : forall fuel out s, inl fg r out s -> (N.to_nat (w - s_x s) < fuel)%nat ->
  Iinv out s ->
  exists s', rep_tail p w fuel body s = Ok s' /\ after (N.to_nat (N.min (rem s) (w - s_x s))) out s s'.
Proof.
  induction fuel as [|k IH]; intros out s Hi Hf HI; [lia|].
  cbn [rep_tail].
  pose proof (ps_xw _ _ _ (il_pos _ _ _ _ Hi)) as Hxw.
  destruct (Hrem out s HI) as [Hr0 _].
  destruct (0 <? s_cnt s) eqn:E0; cbn [andb].
  - apply N.ltb_lt in E0. apply Hr0 in E0. destruct (s_x s <? w) eqn:Ex.
    + apply N.ltb_lt in Ex.
      destruct (step_eq out s Hi Ex ltac:(lia) HI) as (s1 & -> & Ha1). cbn [obind].
      pose proof Ha1 as (Hi1 & Hx1 & Hc1 & HI1). cbn [run] in Hi1, HI1.
      destruct (IH (out ++ [px out]) s1 Hi1 ltac:(lia) HI1) as (s2 & E2 & Ha2).
      exists s2. split; [exact E2|].
      replace (N.to_nat (N.min (rem s) (w - s_x s))) with (1 + N.to_nat (N.min (rem s1) (w - s_x s1)))%nat by lia.
      eapply after_trans; eauto.
    + apply N.ltb_ge in Ex. exists s. split; [reflexivity|].
      replace (N.to_nat (N.min (rem s) (w - s_x s))) with O by lia. apply after_refl; assumption.
  - apply N.ltb_ge in E0. exists s. split; [reflexivity|].
    assert (Hz : rem s = 0).
    { destruct (N.eq_dec (rem s) 0) as [Hz|Hnz]; [exact Hz|]. assert (Hp : 0 < rem s) by lia. apply Hr0 in Hp. lia. }
    replace (N.to_nat (N.min (rem s) (w - s_x s))) with O by lia. apply after_refl; assumption.
Qed.

Lemma repeat_eq out s : inl fg r out s -> Iinv out s ->
  exists s', repeat_m p w body s = Ok s' /\ after (N.to_nat (N.min (rem s) (w - s_x s))) out s s'.
Proof.
  intros Hi HI. unfold repeat_m.
  destruct (rep_blk_eq (S (N.to_nat w)) out s Hi ltac:(lia) HI) as (j & s1 & -> & Ha1 & Hj).
  cbn [obind]. pose proof Ha1 as (Hi1 & Hx1 & Hc1 & HI1).
  destruct (rep_tail_eq (S (N.to_nat w)) (run j px out) s1 Hi1 ltac:(lia) HI1) as (s2 & E2 & Ha2).
  exists s2. split; [exact E2|].
  pose proof (ps_xw _ _ _ (il_pos _ _ _ _ Hi1)) as Hxw.
  replace (N.to_nat (N.min (rem s) (w - s_x s))) with (j + N.to_nat (N.min (rem s1) (w - s_x s1)))%nat by lia.
  eapply after_trans; eauto.
Qed.

End Rep.


(* ---- colour image: the pixels come from the input *)
Definition Iimg (n0 : N) (pixels : list N) (rest : bytes) (out : list N) (inp : bytes) (cnt : N) : Prop :=
  exists pre post, pixels = pre ++ post /\ nlen out = n0 + nlen pre /\ nlen post = cnt /\ inp = le16s post ++ rest.
Definition px_img (n0 : N) (pixels : list N) (out : list N) : N := nth (N.to_nat (nlen out - n0)) pixels 0.

Lemma le16_roundtrip v : v < 65536 -> of_le16 (u16_lo v) (u16_hi v) = v.
Proof.
  intros Hv. unfold of_le16, u16_lo, u16_hi.
  pose proof (N.div_mod v 256 ltac:(lia)) as Hdm.
  assert (Hq : v / 256 < 256) by (apply N.div_lt_upper_bound; lia).
  rewrite (N.mod_small (v / 256) 256) by exact Hq. lia.
Qed.

Lemma body_img fg r n0 pixels rest : Forall (fun v => v < 65536) pixels ->
  body_px fg r (b_colimg p) (px_img n0 pixels) (Iimg n0 pixels rest).
Proof.
  intros Hpix out s Hi Hx Hc (pre & post & Hpp & Hn & Hpost & Hinp).
  destruct post as [|v post]; [rewrite nlen_nil in Hpost; lia|].
  assert (Hv : v < 65536).
  { apply (proj1 (Forall_forall _ _) Hpix). rewrite Hpp. apply in_or_app. right. left. reflexivity. }
  exists (le16s post ++ rest).
  unfold b_colimg. rewrite Hinp. cbn [le16s flat_map le16 app read_u16le]. rewrite le16_roundtrip by exact Hv.
  assert (Hi' : inl fg r out (set_inp s (flat_map le16 post ++ rest))).
  { eapply inl_ext; [exact Hi|..]; reflexivity. }
  rewrite (wr_eq fg r out _ v Hi') by (prj; exact Hx). prj.
  assert (Hpx : px_img n0 pixels out = v).
  { unfold px_img. rewrite Hpp, Hn. replace (n0 + nlen pre - n0) with (nlen pre) by lia.
    rewrite app_nth2 by (unfold nlen; lia). replace (N.to_nat (nlen pre) - length pre)%nat with O by (unfold nlen; lia). reflexivity. }
  rewrite Hpx. split; [reflexivity|].
  exists (pre ++ [v]), post. rewrite <- app_assoc. split; [exact Hpp|].
  rewrite !nlen_app, !nlen_cons, nlen_nil. rewrite nlen_cons in Hpost. split; [lia|]. split; [lia|]. reflexivity.
Qed.

(* ---- between orders: the decoder is lazy about starting a new line *)
Definition lazy (fg : N) (out : list N) (s : st) : Prop :=
  blen (s_out s) = L /\ cont out (s_out s) /\ s_mix s = fg /\
  ((out = [] /\ s_x s = w /\ s_line s = None /\ s_prev s = None /\ s_hgt s = h) \/
   (exists r, pos r (s_x s) s /\ nlen out = r * w + s_x s /\ 1 <= s_x s)).

Lemma inl_lazy fg r out s : inl fg r out s -> 1 <= s_x s -> lazy fg out s.
Proof. intros [Hp Hn Hc Hl Hm] Hx. unfold lazy. fin. right. exists r. auto. Qed.

Definition meas (s : st) : nat := (N.to_nat (s_hgt s) + (if N.ltb (s_x s) w then 1 else 0))%nat.

Lemma next_line_eq fg out s : lazy fg out s -> nlen out < w * h ->
  exists r s1, next_line p w s = Ok s1 /\ inl fg r out s1 /\ s_x s1 < w /\ s_cnt s1 = s_cnt s /\ same_params s s1 /\
               s_inp s1 = s_inp s /\
               (if w <=? s_x s then s_hgt s1 + 1 = s_hgt s else s_hgt s1 = s_hgt s) /\
               (s1 = s \/ exists hgt l, s1 = set_newline s hgt l).
Proof.
  intros (Hl & Hc & Hm & Hcase) Hn. unfold next_line.
  destruct Hcase as [(-> & Hx & Hline & Hprev & Hhgt)|(r & Hp & Hnr & _)].
  - (* nothing written yet *)
    rewrite Hx. rewrite N.leb_refl. rewrite Hhgt.
    assert (Hh0 : 0 < h). { destruct (N.eq_dec h 0) as [->|]; [rewrite N.mul_0_r, nlen_nil in Hn; lia|lia]. }
    assert (E : h <=? 0 = false) by (apply N.leb_gt; lia). rewrite E.
    rewrite sub64 by lia. cbn [obind].
    assert ((h - 1) * w <= h * w) by (apply N.mul_le_mono_r; lia).
    rewrite mul64 by lia. cbn [obind].
    exists 0, (set_newline s (h - 1) ((h - 1) * w)). split; [reflexivity|].
    split.
    + constructor; prj; auto; try (rewrite nlen_nil; lia).
      constructor; prj; auto; try lia; try (f_equal; f_equal; lia).
    + prj. fin; [unfold same_params; prj; fin|]. right. eexists _, _. reflexivity.
  - destruct Hp as [P1 P2 P3 P4 P5 P6].
    destruct (w <=? s_x s) eqn:Ew.
    + apply N.leb_le in Ew. assert (Hxw : s_x s = w) by lia.
      assert (Hr1 : r + 1 < h).
      { destruct (N.lt_ge_cases (r + 1) h) as [Hlt|Hge]; [exact Hlt|].
        assert (h * w <= (r + 1) * w) by (apply N.mul_le_mono_r; lia). lia. }
      rewrite P4. assert (E : h - 1 - r <=? 0 = false) by (apply N.leb_gt; lia). rewrite E.
      rewrite sub64 by lia. cbn [obind].
      assert ((h - 1 - r - 1) * w <= h * w) by (apply N.mul_le_mono_r; lia).
      rewrite mul64 by lia. cbn [obind].
      exists (r + 1), (set_newline s (h - 1 - r - 1) ((h - 1 - r - 1) * w)). split; [reflexivity|].
      split.
      * assert (E1 : r + 1 =? 0 = false) by (apply N.eqb_neq; lia).
        constructor; prj; auto; try lia.
        constructor; prj; auto; try lia; try (f_equal; f_equal; lia).
        rewrite E1, P5. f_equal. f_equal. lia.
      * prj. fin; [unfold same_params; prj; fin|]. right. eexists _, _. reflexivity.
    + apply N.leb_gt in Ew.
      exists r, s. split; [reflexivity|]. split.
      * constructor; auto. constructor; auto.
      * fin. apply same_params_refl.
Qed.

(* ---- a whole run: `while count > 0 { new line if needed; handler }` *)
Section Loop.
Variable fg : N.
Variables op fom : N.
Variable px : list N -> N.
Variable Iinv : list N -> st -> Prop.
Variable rem : st -> N.
Hypothesis Hrem : rem_ok Iinv rem.
Hypothesis Hnl : forall out s hgt l, Iinv out s -> Iinv out (set_newline s hgt l) /\ rem (set_newline s hgt l) = rem s.
Hypothesis Hop : forall r out s, inl fg r out s -> Iinv out s ->
  exists body, handler p w op fom s = repeat_m p w body s /\ step_px fg r body px Iinv rem.

Lemma run_loop : forall fuel out s,
  lazy fg out s -> Iinv out s -> nlen out + rem s <= w * h ->
  (s_cnt s = 0 /\ (1 <= fuel)%nat) \/ (meas s < fuel)%nat ->
  exists s', cnt_loop p w fuel op fom s = Ok s' /\ lazy fg (run (N.to_nat (rem s)) px out) s' /\
             Iinv (run (N.to_nat (rem s)) px out) s' /\ s_cnt s' = 0.
Proof.
  induction fuel as [|k IH]; intros out s Hlz HI Hn Hf; [lia|].
  destruct (Hrem out s HI) as [Hr0 _].
  cbn [cnt_loop]. destruct (0 <? s_cnt s) eqn:E0.
  2:{ apply N.ltb_ge in E0.
      assert (Hz : rem s = 0).
      { destruct (N.eq_dec (rem s) 0) as [Hz|Hnz]; [exact Hz|]. assert (Hp : 0 < rem s) by lia. apply Hr0 in Hp. lia. }
      rewrite Hz. cbn [N.to_nat run]. exists s. fin. }
  apply N.ltb_lt in E0. destruct Hf as [Hf|Hf]; [lia|].
  pose proof (proj1 Hr0 E0) as Hrpos.
  destruct (next_line_eq fg out s Hlz ltac:(lia)) as (r & s1 & -> & Hi1 & Hx1 & Hc1 & Hp1 & Hn1 & Hh1 & Hshape).
  cbn [obind].
  assert (HI1 : Iinv out s1 /\ rem s1 = rem s).
  { destruct Hshape as [->|(hg & l & ->)]; [split; [exact HI|reflexivity]|apply Hnl; exact HI]. }
  destruct HI1 as [HI1 Hr1].
  destruct (Hop r out s1 Hi1 HI1) as (body & -> & Hbody).
  destruct (repeat_eq fg r body px Iinv rem Hbody Hrem out s1 Hi1 HI1) as (s2 & -> & Ha2).
  cbn [obind]. destruct Ha2 as (Hi2 & Hx2 & Hc2 & HI2).
  set (kk := N.to_nat (N.min (rem s1) (w - s_x s1))) in *.
  assert (Hkk : (1 <= kk)%nat) by lia.
  assert (Hk2 : nlen (run kk px out) = nlen out + N.of_nat kk) by apply nlen_run.
  destruct (Hrem _ _ HI2) as [Hr02 _].
  destruct (IH (run kk px out) s2 (inl_lazy _ _ _ _ Hi2 ltac:(lia)) HI2) as (s3 & E3 & Hlz3 & HI3 & Hc3).
  - lia.
  - (* fuel *)
    unfold meas in *.
    destruct (N.eq_dec (s_cnt s2) 0) as [Hz|Hnz]; [left; split; [exact Hz|]|right].
    + destruct (w <=? s_x s) eqn:Ew.
      * apply N.leb_le in Ew. destruct (N.ltb (s_x s) w) eqn:Ex; [apply N.ltb_lt in Ex; lia|]. lia.
      * apply N.leb_gt in Ew. destruct (N.ltb (s_x s) w) eqn:Ex; [|apply N.ltb_ge in Ex; lia]. lia.
    + assert (Hrem2 : 0 < rem s2) by (apply Hr02; lia).
      assert (Hx2w : s_x s2 = w) by lia.
      pose proof (ps_h _ _ _ (il_pos _ _ _ _ Hi2)) as Hh2. pose proof (ps_h _ _ _ (il_pos _ _ _ _ Hi1)) as Hh1'.
      destruct (N.ltb (s_x s2) w) eqn:Ex2; [apply N.ltb_lt in Ex2; lia|].
      destruct (w <=? s_x s) eqn:Ew.
      * apply N.leb_le in Ew. destruct (N.ltb (s_x s) w) eqn:Ex; [apply N.ltb_lt in Ex; lia|]. lia.
      * apply N.leb_gt in Ew. destruct (N.ltb (s_x s) w) eqn:Ex; [|apply N.ltb_ge in Ex; lia]. lia.
  - exists s3. split; [exact E3|].
    replace (N.to_nat (rem s)) with (kk + N.to_nat (rem s2))%nat by lia.
    rewrite run_add. fin.
Qed.

(* the same from the state an order header leaves *)
Lemma order_run out s1 n :
  lazy fg out s1 -> Iinv out (set_cnt (set_mixmask (set_lastop s1 op) 0) n) ->
  nlen out + rem (set_cnt (set_mixmask (set_lastop s1 op) 0) n) <= w * h ->
  exists s', cnt_loop p w (S (S (N.to_nat (s_hgt s1)))) op fom (set_cnt (set_mixmask (set_lastop s1 op) 0) n) = Ok s' /\
             lazy fg (run (N.to_nat (rem (set_cnt (set_mixmask (set_lastop s1 op) 0) n))) px out) s' /\
             Iinv (run (N.to_nat (rem (set_cnt (set_mixmask (set_lastop s1 op) 0) n))) px out) s' /\ s_cnt s' = 0.
Proof.
  intros Hlz HI Hn.
  set (s2 := set_cnt (set_mixmask (set_lastop s1 op) 0) n) in *.
  apply run_loop; auto.
  - destruct Hlz as (Hl & Hc & Hm & Hcase). unfold lazy. subst s2. prj. fin.
    destruct Hcase as [H0|(r & [P1 P2 P3 P4 P5 P6] & Hnn & Hx)]; [left; exact H0|right].
    exists r. split; [|split; assumption]. constructor; prj; auto.
  - right. unfold meas. subst s2. prj. destruct (N.ltb (s_x s1) w); lia.
Qed.

End Loop.

(* the parameters an order must leave alone for the next one *)
Definition Kst (op : N) (s : st) : Prop := s_lastop s = op /\ s_insmix s = false /\ s_bic s = false.

Lemma Kst_same op s s' : Kst op s -> same_params s s' -> Kst op s'.
Proof. intros (A1 & A2 & A3) (B1 & B2 & B3 & B4 & B5 & B6). unfold Kst. repeat split; congruence. Qed.

Lemma same_params_newline s hgt l : same_params s (set_newline s hgt l).
Proof. unfold same_params. prj. fin. Qed.

(* a plain run of n pixels from the state an order header leaves *)
Lemma plain_run fg op fom px Iinp (K : st -> Prop) out s1 n :
  (forall s s', K s -> same_params s s' -> K s') ->
  (forall r out s, inl fg r out s -> K s -> exists body, handler p w op fom s = repeat_m p w body s /\ body_px fg r body px Iinp) ->
  lazy fg out s1 -> K (set_cnt (set_mixmask (set_lastop s1 op) 0) n) -> Iinp out (s_inp s1) n -> nlen out + n <= w * h ->
  exists s', cnt_loop p w (S (S (N.to_nat (s_hgt s1)))) op fom (set_cnt (set_mixmask (set_lastop s1 op) 0) n) = Ok s' /\
             lazy fg (run (N.to_nat n) px out) s' /\ K s' /\ Iinp (run (N.to_nat n) px out) (s_inp s') 0.
Proof.
  intros HK Hop Hlz HKs HI Hn.
  destruct (order_run fg op fom px (Iio Iinp K) s_cnt (rem_ok_io Iinp K)) with (out := out) (s1 := s1) (n := n)
    as (s' & E & Hlz' & [HI' HK'] & Hc').
  - intros o s hg l [A B]. split; [|reflexivity]. split; [exact A|]. eapply HK; [exact B|apply same_params_newline].
  - intros r o s Hi [A B]. destruct (Hop r o s Hi B) as (body & Eh & Hb). exists body. split; [exact Eh|].
    apply step_of_body; assumption.
  - exact Hlz.
  - split; [prj; exact HI|exact HKs].
  - prj. exact Hn.
  - prj. exists s'. rewrite Hc' in HI'. fin.
Qed.

(* ---- the handlers of the plain orders are the macro applied to one of the expressions above *)
Lemma hop_bg fg fom rest r out s : inl fg r out s -> s_insmix s = false ->
  exists body, handler p w 0 fom s = repeat_m p w body s /\ body_px fg r body (bg_px w) (inp_is rest).
Proof.
  intros Hi Hins. exists (if r =? 0 then b_const p 0 else b_copy p ((h - r) * w)). split; [|apply body_bg].
  unfold handler. change (0 =? 0) with true. cbv iota. rewrite Hins. cbn [obind].
  rewrite (ps_prev _ _ _ (il_pos _ _ _ _ Hi)). destruct (r =? 0); reflexivity.
Qed.

Lemma hop_fg fg fom rest r out s : inl fg r out s ->
  exists body, handler p w 1 fom s = repeat_m p w body s /\ body_px fg r body (fg_px w fg) (inp_is rest).
Proof.
  intros Hi. exists (if r =? 0 then b_mix p else b_mixprev p ((h - r) * w)). split; [|apply body_fg].
  unfold handler. change (1 =? 0) with false. change (1 =? 1) with true. cbv iota.
  rewrite (ps_prev _ _ _ (il_pos _ _ _ _ Hi)). destruct (r =? 0); reflexivity.
Qed.

Lemma hop_col fg fom rest c r out s : inl fg r out s -> s_c2 s = c ->
  exists body, handler p w 3 fom s = repeat_m p w body s /\ body_px fg r body (fun _ => c) (inp_is rest).
Proof.
  intros Hi Hc. exists (b_const p c). split; [|apply body_const].
  unfold handler. change (3 =? 0) with false. change (3 =? 1) with false. change (3 =? 2) with false.
  change (3 =? 3) with true. cbv iota. rewrite Hc. reflexivity.
Qed.

Lemma hop_img fg fom n0 pixels rest r out s : Forall (fun v => v < 65536) pixels -> inl fg r out s ->
  exists body, handler p w 4 fom s = repeat_m p w body s /\ body_px fg r body (px_img n0 pixels) (Iimg n0 pixels rest).
Proof.
  intros Hpix Hi. exists (b_colimg p). split; [|apply body_img; exact Hpix]. reflexivity.
Qed.

Lemma hop_white fg fom rest r out s : inl fg r out s ->
  exists body, handler p w 13 fom s = repeat_m p w body s /\ body_px fg r body (fun _ => 65535) (inp_is rest).
Proof. intros Hi. exists (b_const p 65535). split; [reflexivity|apply body_const]. Qed.

Lemma hop_black fg fom rest r out s : inl fg r out s ->
  exists body, handler p w 14 fom s = repeat_m p w body s /\ body_px fg r body (fun _ => 0) (inp_is rest).
Proof. intros Hi. exists (b_const p 0). split; [reflexivity|apply body_const]. Qed.

(* ---- background run whose first pixel is the inserted foreground pixel *)
Lemma bg_insert_loop fg fom : forall fuel out s,
  lazy fg out s -> s_insmix s = true -> s_lastop s = 0 -> s_bic s = false ->
  1 <= s_cnt s -> nlen out + s_cnt s <= w * h -> (meas s < fuel)%nat ->
  exists s', cnt_loop p w fuel 0 fom s = Ok s' /\
             lazy fg (run (N.to_nat (s_cnt s) - 1) (bg_px w) (out ++ [fg_px w fg out])) s' /\
             Kst 0 s' /\ s_inp s' = s_inp s.
Proof.
  intros fuel out s Hlz Hins Hlo Hbic Hc Hn Hf. destruct fuel as [|k]; [lia|].
  cbn [cnt_loop]. assert (E0 : 0 <? s_cnt s = true) by (apply N.ltb_lt; lia). rewrite E0.
  destruct (next_line_eq fg out s Hlz ltac:(lia)) as (r & s1 & -> & Hi1 & Hx1 & Hc1 & Hp1 & Hn1 & Hh1 & _).
  cbn [obind].
  pose proof Hp1 as (Q1 & Q2 & Q3 & Q4 & Q5 & Q6).
  (* the inserted pixel *)
  unfold handler. change (0 =? 0) with true. cbv iota. rewrite Q2, Hins.
  destruct (body_fg fg r (s_inp s1) out s1 Hi1 Hx1 ltac:(lia) eq_refl) as (i' & Eb & Ei'). unfold inp_is in Ei'. subst i'.
  rewrite set_inp_same in Eb.
  assert (Ebody : match s_prev s1 with Some e => b_mixprev p e s1 | None => b_mix p s1 end =
                  Ok (set_out s1 (bset_raw (s_out s1) ((h - 1 - r) * w + s_x s1) (fg_px w fg out)))).
  { rewrite (ps_prev _ _ _ (il_pos _ _ _ _ Hi1)). destruct (r =? 0); exact Eb. }
  rewrite Ebody. cbn [obind]. prj.
  rewrite sub32 by lia. cbn [obind].
  pose proof (ps_xw _ _ _ (il_pos _ _ _ _ Hi1)) as Hxw.
  rewrite add64 by lia. cbn [obind].
  set (v := fg_px w fg out).
  set (s1' := set_x (set_cnt (set_insmix (set_out s1 (bset_raw (s_out s1) ((h - 1 - r) * w + s_x s1) v)) false) (s_cnt s1 - 1)) (s_x s1 + 1)).
  assert (Hi1' : inl fg r (out ++ [v]) s1').
  { destruct Hi1 as [[P1 P2 P3 P4 P5 P6] Hnn Hcc Hll Hmm]. subst s1'. constructor; [constructor|..]; prj; auto; try lia;
      try (rewrite nlen_app, nlen_cons, nlen_nil; lia); try (apply cont_snoc; auto; fail);
      try (rewrite blen_bset_raw; exact Hll). }
  assert (HK1' : Kst 0 s1') by (subst s1'; unfold Kst; prj; repeat split; congruence).
  assert (Hx1' : s_x s1' = s_x s1 + 1) by (subst s1'; prj; reflexivity).
  assert (Hc1' : s_cnt s1' = s_cnt s1 - 1) by (subst s1'; prj; reflexivity).
  assert (Hh1' : s_hgt s1' = s_hgt s1) by (subst s1'; prj; reflexivity).
  assert (Hnp1' : s_inp s1' = s_inp s1) by (subst s1'; prj; reflexivity).
  set (Iinv := Iio (inp_is (s_inp s)) (Kst 0)).
  assert (Hop' : forall r0 out0 s0, inl fg r0 out0 s0 -> Iinv out0 s0 ->
            exists body, handler p w 0 fom s0 = repeat_m p w body s0 /\ step_px fg r0 body (bg_px w) Iinv s_cnt).
  { intros r0 out0 s0 Hi0 [_ Hk0]. destruct (hop_bg fg fom (s_inp s) r0 out0 s0 Hi0 (proj1 (proj2 Hk0))) as (body & Eh & Hb).
    exists body. split; [exact Eh|]. apply step_of_body; [apply Kst_same|exact Hb]. }
  assert (HI1' : Iinv (out ++ [v]) s1') by (split; [unfold inp_is; congruence|exact HK1']).
  destruct (Hop' r (out ++ [v]) s1' Hi1' HI1') as (body & Eh & Hbody).
  unfold handler in Eh. change (0 =? 0) with true in Eh. cbv iota in Eh.
  rewrite (proj1 (proj2 HK1')) in Eh. cbn [obind] in Eh. fold s1'. rewrite Eh.
  destruct (repeat_eq fg r body (bg_px w) Iinv s_cnt Hbody (rem_ok_io _ _) (out ++ [v]) s1' Hi1' HI1') as (s2 & -> & Ha2).
  cbn [obind]. destruct Ha2 as (Hi2 & Hx2 & Hc2 & HI2).
  set (kk := N.to_nat (N.min (s_cnt s1') (w - s_x s1'))) in *.
  assert (Hk2 : nlen (run kk (bg_px w) (out ++ [v])) = nlen out + 1 + N.of_nat kk).
  { rewrite nlen_run, nlen_app, nlen_cons, nlen_nil. lia. }
  destruct (run_loop fg 0 fom (bg_px w) Iinv s_cnt (rem_ok_io _ _)) with (fuel := k) (out := run kk (bg_px w) (out ++ [v])) (s := s2)
    as (s3 & E3 & Hlz3 & [HI3 HK3] & Hc3).
  - intros o s0 hg l [A B]. split; [|reflexivity]. split; [exact A|]. eapply Kst_same; [exact B|apply same_params_newline].
  - exact Hop'.
  - apply (inl_lazy _ _ _ _ Hi2). lia.
  - exact HI2.
  - lia.
  - unfold meas in *.
    pose proof (ps_h _ _ _ (il_pos _ _ _ _ Hi2)) as Hh2. pose proof (ps_h _ _ _ (il_pos _ _ _ _ Hi1')) as Hh1''.
    destruct (N.eq_dec (s_cnt s2) 0) as [Hz|Hnz]; [left; split; [exact Hz|]|right].
    + destruct (w <=? s_x s) eqn:Ew.
      * apply N.leb_le in Ew. destruct (N.ltb (s_x s) w) eqn:Ex; [apply N.ltb_lt in Ex; lia|]. lia.
      * apply N.leb_gt in Ew. destruct (N.ltb (s_x s) w) eqn:Ex; [|apply N.ltb_ge in Ex; lia]. lia.
    + assert (Hx2w : s_x s2 = w) by lia.
      destruct (N.ltb (s_x s2) w) eqn:Ex2; [apply N.ltb_lt in Ex2; lia|].
      destruct (w <=? s_x s) eqn:Ew.
      * apply N.leb_le in Ew. destruct (N.ltb (s_x s) w) eqn:Ex; [apply N.ltb_lt in Ex; lia|]. lia.
      * apply N.leb_gt in Ew. destruct (N.ltb (s_x s) w) eqn:Ex; [|apply N.ltb_ge in Ex; lia]. lia.
  - exists s3. split; [exact E3|].
    replace (N.to_nat (s_cnt s) - 1)%nat with (kk + N.to_nat (s_cnt s2))%nat by lia.
    rewrite run_add. split; [exact Hlz3|]. split; [exact HK3|exact HI3].
Qed.


(* ---- order headers: what decode_header / extend_count make of every legal form *)
Ltac kill_eqb :=
  repeat match goal with
         | |- context [?a =? ?b] =>
             let E := fresh "E" in
             destruct (a =? b) eqn:E; [apply N.eqb_eq in E; try lia | apply N.eqb_neq in E; try lia]
         end.
Ltac kill_ltb :=
  repeat match goal with
         | |- context [?a <? ?b] =>
             let E := fresh "E" in
             destruct (a <? b) eqn:E; [apply N.ltb_lt in E; try lia | apply N.ltb_ge in E; try lia]
         end.

Lemma divmod_add c q n : 0 < c -> n < c -> (q * c + n) / c = q /\ (q * c + n) mod c = n.
Proof.
  intros Hc Hn. split.
  - rewrite N.div_add_l by lia. rewrite N.div_small by exact Hn. lia.
  - rewrite N.add_comm, N.mod_add by lia. apply N.mod_small. exact Hn.
Qed.

Lemma dh_reg code inp : code < 192 -> decode_header code inp = Ok (code / 32, code mod 32, 32, inp).
Proof.
  intros Hc. unfold decode_header.
  assert (H16 : code / 16 < 12) by (apply N.div_lt_upper_bound; lia).
  assert (E : forall k, 12 <= k -> (code / 16 =? k) = false) by (intros k Hk; apply N.eqb_neq; lia).
  rewrite !E by lia. cbn [orb].
  rewrite N.div_div by lia. reflexivity.
Qed.

Lemma dh_lite code inp : 192 <= code -> code < 240 -> decode_header code inp = Ok (code / 16 - 6, code mod 16, 16, inp).
Proof.
  intros H1 H2. unfold decode_header.
  assert (Hlo : 12 <= code / 16) by (apply N.div_le_lower_bound; lia).
  assert (Hhi : code / 16 < 15) by (apply N.div_lt_upper_bound; lia).
  assert (Hor : (code / 16 =? 12) || (code / 16 =? 13) || (code / 16 =? 14) = true).
  { assert (Hc : code / 16 = 12 \/ code / 16 = 13 \/ code / 16 = 14) by lia.
    destruct Hc as [->|[->| ->]]; reflexivity. }
  rewrite Hor. reflexivity.
Qed.

Lemma read_le16 n rest : n < 65536 -> read_u16le (le16 n ++ rest) = Ok (n, rest).
Proof. intros Hn. cbn [le16 app read_u16le]. rewrite le16_roundtrip by exact Hn. reflexivity. Qed.

Lemma dh_mega k n rest : k < 9 -> n < 65536 -> decode_header (240 + k) (le16 n ++ rest) = Ok (k, n, 0, rest).
Proof.
  intros Hk Hn. unfold decode_header.
  destruct (divmod_add 16 15 k ltac:(lia) ltac:(lia)) as [Hd Hm]. change (15 * 16) with 240 in Hd, Hm.
  rewrite Hd, Hm. cbn [N.eqb Pos.eqb orb].
  assert (E : k <? 9 = true) by (apply N.ltb_lt; lia). rewrite E. rewrite read_le16 by exact Hn. reflexivity.
Qed.

Lemma dh_special k inp : 11 <= k -> k < 16 -> decode_header (240 + k) inp = Ok (k, 1, 0, inp).
Proof.
  intros H1 H2. unfold decode_header.
  destruct (divmod_add 16 15 k ltac:(lia) ltac:(lia)) as [Hd Hm]. change (15 * 16) with 240 in Hd, Hm.
  rewrite Hd, Hm. cbn [N.eqb Pos.eqb orb].
  assert (E : k <? 9 = false) by (apply N.ltb_ge; lia). rewrite E.
  assert (E' : k <? 11 = false) by (apply N.ltb_ge; lia). rewrite E'. reflexivity.
Qed.

Lemma ec_plain op cnt off inp : op <> 2 -> op <> 7 -> off <> 0 -> cnt <> 0 -> extend_count p op cnt off inp = Ok (cnt, inp).
Proof.
  intros H2 H7 Ho Hc. unfold extend_count.
  apply N.eqb_neq in H2, H7, Ho, Hc. rewrite H2, H7, Ho, Hc. reflexivity.
Qed.

Lemma ec_ext op off b inp : op <> 2 -> op <> 7 -> off <> 0 -> b + off < 4294967296 ->
  extend_count p op 0 off (b :: inp) = Ok (b + off, inp).
Proof.
  intros H2 H7 Ho Hb. unfold extend_count.
  apply N.eqb_neq in H2, H7, Ho. rewrite H2, H7, Ho. cbn [negb orb N.eqb read_u8].
  rewrite add32 by exact Hb. reflexivity.
Qed.

Lemma ec_mega op cnt inp : extend_count p op cnt 0 inp = Ok (cnt, inp).
Proof. reflexivity. Qed.

(* what the header of an ordinary run order decodes to, in each of its forms *)
Definition hdr_spec (op n : N) (hb rest : bytes) : Prop :=
  exists code t cnt0 off r1, hb = code :: t /\
    decode_header code (t ++ rest) = Ok (op, cnt0, off, r1) /\ extend_count p op cnt0 off r1 = Ok (n, rest).

Lemma hdr_reg f op n hb rest : op < 5 -> op <> 2 ->
  hdr_run f (op * 32) 31 32 (240 + op) n = Some hb -> hdr_spec op n hb rest /\ 1 <= n <= 65535.
Proof.
  intros Hop Hop2 Hhd. unfold hdr_spec. destruct f; cbn [hdr_run] in Hhd.
  - destruct ((1 <=? n) && (n <=? 31)) eqn:En; [|discriminate]. inversion Hhd; subst hb. clear Hhd.
    apply andb_true_iff in En. destruct En as [E1 E2]. apply N.leb_le in E1, E2.
    split; [|lia]. exists (op * 32 + n), [], n, 32, rest. split; [reflexivity|]. cbn [app].
    destruct (divmod_add 32 op n ltac:(lia) ltac:(lia)) as [Hd Hm].
    assert (op * 32 <= 4 * 32) by (apply N.mul_le_mono_r; lia).
    rewrite dh_reg by lia. rewrite Hd, Hm. split; [reflexivity|]. apply ec_plain; lia.
  - destruct ((32 <=? n) && (n <=? 32 + 255)) eqn:En; [|discriminate]. inversion Hhd; subst hb. clear Hhd.
    apply andb_true_iff in En. destruct En as [E1 E2]. apply N.leb_le in E1, E2.
    split; [|lia]. exists (op * 32), [n - 32], 0, 32, ((n - 32) :: rest). split; [reflexivity|]. cbn [app].
    destruct (divmod_add 32 op 0 ltac:(lia) ltac:(lia)) as [Hd Hm]. rewrite N.add_0_r in Hd, Hm.
    assert (op * 32 <= 4 * 32) by (apply N.mul_le_mono_r; lia).
    rewrite dh_reg by lia. rewrite Hd, Hm. split; [reflexivity|].
    rewrite ec_ext by lia. repeat f_equal. lia.
  - destruct ((1 <=? n) && (n <=? 65535)) eqn:En; [|discriminate]. inversion Hhd; subst hb. clear Hhd.
    apply andb_true_iff in En. destruct En as [E1 E2]. apply N.leb_le in E1, E2.
    split; [|lia]. exists (240 + op), (le16 n), n, 0, rest. split; [reflexivity|].
    rewrite dh_mega by lia. split; reflexivity.
Qed.

(* the lite form (SET-FG run: opcode 6; dithered run: opcode 8) *)
Lemma hdr_lite f op n hb rest : op = 6 \/ op = 8 ->
  hdr_run f ((op + 6) * 16) 15 16 (240 + op) n = Some hb -> hdr_spec op n hb rest /\ 1 <= n <= 65535.
Proof.
  intros Hop Hhd. unfold hdr_spec.
  assert (Hcode : 192 <= (op + 6) * 16 /\ (op + 6) * 16 + 15 < 240) by lia.
  destruct f; cbn [hdr_run] in Hhd.
  - destruct ((1 <=? n) && (n <=? 15)) eqn:En; [|discriminate]. inversion Hhd; subst hb. clear Hhd.
    apply andb_true_iff in En. destruct En as [E1 E2]. apply N.leb_le in E1, E2.
    split; [|lia]. exists ((op + 6) * 16 + n), [], n, 16, rest. split; [reflexivity|]. cbn [app].
    destruct (divmod_add 16 (op + 6) n ltac:(lia) ltac:(lia)) as [Hd Hm].
    rewrite dh_lite by lia. rewrite Hd, Hm. replace (op + 6 - 6) with op by lia. split; [reflexivity|]. apply ec_plain; lia.
  - destruct ((16 <=? n) && (n <=? 16 + 255)) eqn:En; [|discriminate]. inversion Hhd; subst hb. clear Hhd.
    apply andb_true_iff in En. destruct En as [E1 E2]. apply N.leb_le in E1, E2.
    split; [|lia]. exists ((op + 6) * 16), [n - 16], 0, 16, ((n - 16) :: rest). split; [reflexivity|]. cbn [app].
    destruct (divmod_add 16 (op + 6) 0 ltac:(lia) ltac:(lia)) as [Hd Hm]. rewrite N.add_0_r in Hd, Hm.
    rewrite dh_lite by lia. rewrite Hd, Hm. replace (op + 6 - 6) with op by lia. split; [reflexivity|].
    rewrite ec_ext by lia. repeat f_equal. lia.
  - destruct ((1 <=? n) && (n <=? 65535)) eqn:En; [|discriminate]. inversion Hhd; subst hb. clear Hhd.
    apply andb_true_iff in En. destruct En as [E1 E2]. apply N.leb_le in E1, E2.
    split; [|lia]. exists (240 + op), (le16 n), n, 0, rest. split; [reflexivity|].
    rewrite dh_mega by lia. split; reflexivity.
Qed.

(* the special FGBG codes F9 / FA *)
Lemma dh_special8 k inp : 9 <= k -> k < 11 -> decode_header (240 + k) inp = Ok (k, 8, 0, inp).
Proof.
  intros H1 H2. unfold decode_header.
  destruct (divmod_add 16 15 k ltac:(lia) ltac:(lia)) as [Hd Hm]. change (15 * 16) with 240 in Hd, Hm.
  rewrite Hd, Hm. cbn [N.eqb Pos.eqb orb].
  assert (E : k <? 9 = false) by (apply N.ltb_ge; lia). rewrite E.
  assert (E' : k <? 11 = true) by (apply N.ltb_lt; lia). rewrite E'. reflexivity.
Qed.

(* FGBG images: the header counts groups of 8 pixels, the extension byte counts pixels - 1 *)
Lemma ec_fom_short op cnt off inp : op = 2 \/ op = 7 -> off <> 0 -> cnt <> 0 -> cnt * 8 < 4294967296 ->
  extend_count p op cnt off inp = Ok (cnt * 8, inp).
Proof.
  intros Ho Hoff Hc Hb. unfold extend_count.
  apply N.eqb_neq in Hoff, Hc. rewrite Hoff, Hc. cbn [negb].
  assert (E : (op =? 2) || (op =? 7) = true) by (destruct Ho as [-> | ->]; reflexivity). rewrite E.
  rewrite pow32. rewrite N.mod_small by exact Hb. reflexivity.
Qed.

Lemma ec_fom_ext op off b inp : op = 2 \/ op = 7 -> off <> 0 -> b + 1 < 4294967296 ->
  extend_count p op 0 off (b :: inp) = Ok (b + 1, inp).
Proof.
  intros Ho Hoff Hb. unfold extend_count.
  apply N.eqb_neq in Hoff. rewrite Hoff. cbn [negb N.eqb read_u8].
  assert (E : (op =? 2) || (op =? 7) = true) by (destruct Ho as [-> | ->]; reflexivity). rewrite E.
  rewrite add32 by exact Hb. reflexivity.
Qed.

Lemma hdr_fom f code bits mega op n hb rest :
  (code = 64 /\ bits = 31 /\ mega = 242 /\ op = 2) \/ (code = 208 /\ bits = 15 /\ mega = 247 /\ op = 7) ->
  hdr_fgbg f code bits mega n = Some hb -> hdr_spec op n hb rest /\ 1 <= n <= 65535.
Proof.
  intros Hk Hhd. unfold hdr_spec.
  assert (Hop : op = 2 \/ op = 7) by (destruct Hk as [(_ & _ & _ & ->)|(_ & _ & _ & ->)]; auto).
  destruct f; cbn [hdr_fgbg] in Hhd.
  - destruct ((n mod 8 =? 0) && (1 <=? n / 8) && (n / 8 <=? bits)) eqn:En; [|discriminate]. inversion Hhd; subst hb. clear Hhd.
    apply andb_true_iff in En. destruct En as [En E3]. apply andb_true_iff in En. destruct En as [E1 E2].
    apply N.eqb_eq in E1. apply N.leb_le in E2, E3.
    assert (Hn8 : n / 8 * 8 = n) by lia.
    destruct Hk as [(-> & -> & -> & ->)|(-> & -> & -> & ->)].
    + split; [|lia]. exists (64 + n / 8), [], (n / 8), 32, rest. split; [reflexivity|]. cbn [app].
      destruct (divmod_add 32 2 (n / 8) ltac:(lia) ltac:(lia)) as [Hd Hm]. change (2 * 32) with 64 in Hd, Hm.
      rewrite dh_reg by lia. rewrite Hd, Hm. split; [reflexivity|].
      rewrite ec_fom_short by lia. rewrite Hn8. reflexivity.
    + split; [|lia]. exists (208 + n / 8), [], (n / 8), 16, rest. split; [reflexivity|]. cbn [app].
      destruct (divmod_add 16 13 (n / 8) ltac:(lia) ltac:(lia)) as [Hd Hm]. change (13 * 16) with 208 in Hd, Hm.
      rewrite dh_lite by lia. rewrite Hd, Hm. split; [reflexivity|].
      rewrite ec_fom_short by lia. rewrite Hn8. reflexivity.
  - destruct ((1 <=? n) && (n <=? 256)) eqn:En; [|discriminate]. inversion Hhd; subst hb. clear Hhd.
    apply andb_true_iff in En. destruct En as [E1 E2]. apply N.leb_le in E1, E2.
    destruct Hk as [(-> & -> & -> & ->)|(-> & -> & -> & ->)].
    + split; [|lia]. exists 64, [n - 1], 0, 32, ((n - 1) :: rest). split; [reflexivity|]. cbn [app].
      rewrite dh_reg by lia. split; [reflexivity|].
      rewrite ec_fom_ext by lia. repeat f_equal. lia.
    + split; [|lia]. exists 208, [n - 1], 0, 16, ((n - 1) :: rest). split; [reflexivity|]. cbn [app].
      rewrite dh_lite by lia. split; [reflexivity|].
      rewrite ec_fom_ext by lia. repeat f_equal. lia.
  - destruct ((1 <=? n) && (n <=? 65535)) eqn:En; [|discriminate]. inversion Hhd; subst hb. clear Hhd.
    apply andb_true_iff in En. destruct En as [E1 E2]. apply N.leb_le in E1, E2.
    destruct Hk as [(-> & -> & -> & ->)|(-> & -> & -> & ->)].
    + split; [|lia]. exists 242, (le16 n), n, 0, rest. split; [reflexivity|].
      change 242 with (240 + 2). rewrite dh_mega by lia. split; reflexivity.
    + split; [|lia]. exists 247, (le16 n), n, 0, rest. split; [reflexivity|].
      change 247 with (240 + 7). rewrite dh_mega by lia. split; reflexivity.
Qed.


(* ---- FGBG images (FGBG, SET-FGBG, F9, FA): the expression shifts a one-bit mask through the current mask
   byte and fetches the next mask byte (from the input, or the constant of the special code) every 8 pixels;
   mask and mixmask live in the decoder state across scan lines *)
Lemma land_pow2 a k : N.land a (2 ^ k) = if N.testbit a k then 2 ^ k else 0.
Proof.
  apply N.bits_inj. intro j. rewrite N.land_spec, N.pow2_bits_eqb.
  destruct (N.eqb_spec k j) as [->|Hne].
  - destruct (N.testbit a j) eqn:E; [rewrite N.pow2_bits_true; reflexivity|rewrite N.bits_0; reflexivity].
  - rewrite andb_false_r. destruct (N.testbit a k); [rewrite N.pow2_bits_false by exact Hne; reflexivity|rewrite N.bits_0; reflexivity].
Qed.

Lemma pow2_shl k : k < 7 -> (2 ^ k * 2) mod 256 = 2 ^ (k + 1).
Proof.
  intros Hk. assert (Hc : k = 0 \/ k = 1 \/ k = 2 \/ k = 3 \/ k = 4 \/ k = 5 \/ k = 6) by lia.
  destruct Hc as [->|[->|[->|[->|[->|[->| ->]]]]]]; reflexivity.
Qed.

Lemma skipn_nth {A} (d : A) : forall k (l : list A), (k < length l)%nat -> skipn k l = nth k l d :: skipn (S k) l.
Proof.
  induction k as [|k IH]; intros l Hk; destruct l as [|a l]; cbn [length] in Hk; try lia; [reflexivity|].
  cbn [skipn nth]. rewrite (IH l) by lia. reflexivity.
Qed.

Lemma set_mask_same s : set_mask s (s_mask s) = s.
Proof. destruct s. reflexivity. Qed.

Lemma inl_step fg r out s s' v : inl fg r out s -> s_x s < w ->
  s_out s' = bset_raw (s_out s) ((h - 1 - r) * w + s_x s) v -> s_x s' = s_x s + 1 ->
  s_line s' = s_line s -> s_prev s' = s_prev s -> s_hgt s' = s_hgt s -> s_mix s' = s_mix s ->
  inl fg r (out ++ [v]) s'.
Proof.
  intros Hi Hx E1 E2 E3 E4 E5 E6.
  pose proof (inl_written fg r out s v (s_x s + 1) (s_cnt s) (s_inp s) Hi Hx eq_refl) as Hw1.
  eapply inl_ext; [exact Hw1|..]; prj; assumption.
Qed.

Lemma mask_bit_N masks i : mask_bit masks (N.to_nat i) = N.testbit (nth (N.to_nat (i / 8)) masks 0) (i mod 8).
Proof.
  unfold mask_bit. rewrite N2Nat.inj_div. change (N.to_nat 8) with 8%nat. f_equal.
  rewrite <- (N2Nat.id (i mod 8)). rewrite N2Nat.inj_mod. reflexivity.
Qed.

Definition px_fom (n0 fg : N) (masks : list N) (out : list N) : N :=
  if mask_bit masks (N.to_nat (nlen out - n0)) then fg_px w fg out else bg_px w out.

Lemma run_fom n0 fg masks : forall n i out, nlen out = n0 + N.of_nat i ->
  run n (px_fom n0 fg masks) out = fgbg n i w fg masks out.
Proof.
  induction n as [|n IH]; intros i out Hn; [reflexivity|].
  cbn [run fgbg].
  assert (E : px_fom n0 fg masks out = if mask_bit masks i then fg_px w fg out else bg_px w out).
  { unfold px_fom. replace (N.to_nat (nlen out - n0)) with i by lia. reflexivity. }
  rewrite E. apply IH. rewrite nlen_app, nlen_cons, nlen_nil. lia.
Qed.

Lemma fom_body_eq fg r out s1 : inl fg r out s1 -> s_x s1 < w -> 1 <= s_cnt s1 ->
  (if r =? 0 then (if fom_bit s1 then b_mix p s1 else b_const p 0 s1)
   else (if fom_bit s1 then b_mixprev p ((h - r) * w) s1 else b_copy p ((h - r) * w) s1)) =
  Ok (set_out s1 (bset_raw (s_out s1) ((h - 1 - r) * w + s_x s1) (if fom_bit s1 then fg_px w fg out else bg_px w out))).
Proof.
  intros Hi Hx Hc. destruct (fom_bit s1).
  - destruct (body_fg fg r (s_inp s1) out s1 Hi Hx Hc eq_refl) as (j & Eb & Ej). unfold inp_is in Ej. subst j.
    rewrite set_inp_same in Eb. destruct (r =? 0); exact Eb.
  - destruct (body_bg fg r (s_inp s1) out s1 Hi Hx Hc eq_refl) as (j & Eb & Ej). unfold inp_is in Ej. subst j.
    rewrite set_inp_same in Eb. destruct (r =? 0); exact Eb.
Qed.

Section Fom.
Variables n0 n fom : N.
Variable masks : list N.
Variable rest : bytes.
Hypothesis Hmasks : nlen masks = (n + 7) / 8.
Hypothesis Hfom : fom = 0 \/ (fom <> 0 /\ masks = [fom] /\ n = 8).

(* i pixels of the order are done: (i+7)/8 mask bytes are consumed, the current bit is that of pixel i-1 *)
Definition Ifom (out : list N) (s : st) : Prop :=
  exists i, nlen out = n0 + i /\ i + s_cnt s = n /\
    s_inp s = (if fom =? 0 then skipn (N.to_nat ((i + 7) / 8)) masks else []) ++ rest /\
    (i = 0 -> s_mixmask s = 0) /\
    (0 < i -> s_mixmask s = 2 ^ ((i - 1) mod 8) /\ s_mask s = nth (N.to_nat ((i - 1) / 8)) masks 0) /\
    Kst 2 s.

Lemma fom_mask_step_eq s i : i + s_cnt s = n -> 1 <= s_cnt s ->
  s_inp s = (if fom =? 0 then skipn (N.to_nat ((i + 7) / 8)) masks else []) ++ rest ->
  (i = 0 -> s_mixmask s = 0) ->
  (0 < i -> s_mixmask s = 2 ^ ((i - 1) mod 8) /\ s_mask s = nth (N.to_nat ((i - 1) / 8)) masks 0) ->
  exists i', fom_mask_step fom s = Ok (set_mixmask (set_mask (set_inp s i') (nth (N.to_nat (i / 8)) masks 0)) (2 ^ (i mod 8))) /\
             i' = (if fom =? 0 then skipn (N.to_nat ((i + 1 + 7) / 8)) masks else []) ++ rest.
Proof.
  intros Hcnt Hc Hinp Hmm0 Hmm1. unfold fom_mask_step.
  destruct (N.eq_dec (i mod 8) 0) as [Hz|Hnz].
  - (* a new mask byte *)
    assert (Emm : (s_mixmask s * 2) mod 256 = 0).
    { destruct (N.eq_dec i 0) as [Hi0|Hi0]; [rewrite Hmm0 by exact Hi0; reflexivity|].
      destruct (Hmm1 ltac:(lia)) as [-> _]. replace ((i - 1) mod 8) with 7 by lia. reflexivity. }
    rewrite Emm. change (0 =? 0) with true. cbv iota. rewrite Hz. change (2 ^ 0) with 1.
    destruct Hfom as [Hf0|(Hf0 & Hm & Hn8)].
    + subst fom. change (negb (0 =? 0)) with false. cbv iota. change (0 =? 0) with true in *. cbv iota in *.
      replace ((i + 7) / 8) with (i / 8) in Hinp by lia.
      rewrite (skipn_nth 0) in Hinp by (unfold nlen in Hmasks; lia).
      rewrite Hinp. cbn [app read_u8]. eexists. split; [reflexivity|].
      do 3 f_equal. lia.
    + assert (E : fom =? 0 = false) by (apply N.eqb_neq; exact Hf0). rewrite E in *. cbn [negb]. cbv iota.
      assert (i = 0) by lia. subst i. rewrite Hm. change (nth (N.to_nat (0 / 8)) [fom] 0) with fom.
      exists (s_inp s). rewrite set_inp_same. split; [reflexivity|exact Hinp].
  - (* the next bit of the current mask byte *)
    destruct (Hmm1 ltac:(lia)) as [Emm Emask].
    rewrite Emm. rewrite pow2_shl by lia. replace ((i - 1) mod 8 + 1) with (i mod 8) by lia.
    assert (E : 2 ^ (i mod 8) =? 0 = false) by (apply N.eqb_neq; apply N.pow_nonzero; lia). rewrite E.
    exists (s_inp s). rewrite set_inp_same. replace (i / 8) with ((i - 1) / 8) by lia. rewrite <- Emask, set_mask_same.
    split; [reflexivity|]. rewrite Hinp. replace ((i + 1 + 7) / 8) with ((i + 7) / 8) by lia. reflexivity.
Qed.

Lemma step_fom fg r :
  step_px fg r (if r =? 0 then b_fom_first p fom else b_fom_prev p fom ((h - r) * w)) (px_fom n0 fg masks) Ifom s_cnt.
Proof.
  intros out s Hi Hx Hc (i & Hn & Hcnt & Hinp & Hmm0 & Hmm1 & HK).
  destruct (fom_mask_step_eq s i Hcnt Hc Hinp Hmm0 Hmm1) as (i' & Ems & Ei').
  set (s1 := set_mixmask (set_mask (set_inp s i') (nth (N.to_nat (i / 8)) masks 0)) (2 ^ (i mod 8))) in *.
  assert (Hi1 : inl fg r out s1) by (eapply inl_ext; [exact Hi|..]; reflexivity).
  assert (Hbit : fom_bit s1 = mask_bit masks (N.to_nat (nlen out - n0))).
  { replace (nlen out - n0) with i by lia. rewrite mask_bit_N. unfold fom_bit. subst s1. prj. rewrite land_pow2.
    destruct (N.testbit _ _); [|reflexivity].
    assert (E : 2 ^ (i mod 8) =? 0 = false) by (apply N.eqb_neq; apply N.pow_nonzero; lia). rewrite E. reflexivity. }
  pose proof (fom_body_eq fg r out s1 Hi1 Hx Hc) as Eb. rewrite Hbit in Eb. fold (px_fom n0 fg masks out) in Eb.
  unfold step.
  assert (Ebody : (if r =? 0 then b_fom_first p fom else b_fom_prev p fom ((h - r) * w)) s =
                  Ok (set_out s1 (bset_raw (s_out s1) ((h - 1 - r) * w + s_x s1) (px_fom n0 fg masks out)))).
  { destruct (r =? 0); [unfold b_fom_first|unfold b_fom_prev]; rewrite Ems; cbn [obind]; fold s1; rewrite Hbit; exact Eb. }
  rewrite Ebody. cbn [obind]. subst s1. prj.
  rewrite sub32 by lia. cbn [obind].
  pose proof (ps_xw _ _ _ (il_pos _ _ _ _ Hi)).
  rewrite add64 by lia. cbn [obind].
  eexists. split; [reflexivity|].
  split; [eapply inl_step; [exact Hi|exact Hx|..]; reflexivity|]. prj.
  split; [reflexivity|]. split; [|lia].
  exists (i + 1). rewrite nlen_app, nlen_cons, nlen_nil. prj.
  split; [lia|]. split; [lia|]. split; [exact Ei'|]. split; [lia|].
  split; [intros _; replace (i + 1 - 1) with i by lia; split; reflexivity|].
  destruct HK as (K1 & K2 & K3). unfold Kst. prj. fin.
Qed.

Lemma fom_run fg out s1 :
  lazy fg out s1 -> nlen out = n0 -> s_inp s1 = (if fom =? 0 then masks else []) ++ rest ->
  s_insmix s1 = false -> s_bic s1 = false -> nlen out + n <= w * h ->
  exists s', cnt_loop p w (S (S (N.to_nat (s_hgt s1)))) 2 fom (set_cnt (set_mixmask (set_lastop s1 2) 0) n) = Ok s' /\
             lazy fg (fgbg (N.to_nat n) 0 w fg masks out) s' /\ Kst 2 s' /\ s_inp s' = rest.
Proof.
  intros Hlz Hn0 Hinp Hins Hbic Hlen.
  destruct (order_run fg 2 fom (px_fom n0 fg masks) Ifom s_cnt) with (out := out) (s1 := s1) (n := n)
    as (s' & E & Hlz' & HI' & Hc').
  - intros o s _. split; [reflexivity|auto].
  - intros o s hg l (i & A1 & A2 & A3 & A4 & A5 & A6). split; [|reflexivity].
    exists i. prj. fin.
  - intros r o s Hi _. exists (if r =? 0 then b_fom_first p fom else b_fom_prev p fom ((h - r) * w)).
    split; [|apply step_fom].
    unfold handler. change (2 =? 0) with false. change (2 =? 1) with false. change (2 =? 2) with true. cbv iota.
    rewrite (ps_prev _ _ _ (il_pos _ _ _ _ Hi)). destruct (r =? 0); reflexivity.
  - exact Hlz.
  - exists 0. prj. fin. unfold Kst. prj. fin.
  - prj. exact Hlen.
  - prj. exists s'. split; [exact E|].
    rewrite (run_fom n0 fg masks (N.to_nat n) 0 out) in Hlz', HI' by lia.
    split; [exact Hlz'|]. destruct HI' as (i & A1 & A2 & A3 & _ & _ & A6). split; [exact A6|].
    assert (Hi : i = n) by lia. subst i. rewrite A3.
    destruct (fom =? 0); [|reflexivity].
    rewrite <- Hmasks. replace (N.to_nat (nlen masks)) with (length masks) by (unfold nlen; lia).
    rewrite skipn_all. reflexivity.
Qed.

End Fom.


(* ---- dithered run: colour1 and colour2 alternately; the expression increments count on the first of each
   pair, so that count pairs are 2*count - [bicolour] pixels *)
Definition px_dith (n0 c1 c2 : N) (out : list N) : N := if (nlen out - n0) mod 2 =? 0 then c1 else c2.
Definition rem_dith (s : st) : N := 2 * s_cnt s - (if s_bic s then 1 else 0).

Lemma run_dith n0 c1 c2 : forall k out, n0 <= nlen out -> (nlen out - n0) mod 2 = 0 ->
  run (2 * k) (px_dith n0 c1 c2) out = dither k c1 c2 out.
Proof.
  induction k as [|k IH]; intros out H0 Hev; [reflexivity|].
  replace (2 * S k)%nat with (S (S (2 * k))) by lia. cbn [run dither].
  assert (E1 : px_dith n0 c1 c2 out = c1) by (unfold px_dith; rewrite Hev; reflexivity).
  assert (E2 : px_dith n0 c1 c2 (out ++ [c1]) = c2).
  { unfold px_dith. rewrite nlen_app, nlen_cons, nlen_nil.
    assert (E : (nlen out + (1 + 0) - n0) mod 2 =? 0 = false) by (apply N.eqb_neq; lia). rewrite E. reflexivity. }
  rewrite E1, E2. rewrite <- app_assoc. cbn [app]. apply IH.
  - rewrite nlen_app, !nlen_cons, nlen_nil. lia.
  - rewrite nlen_app, !nlen_cons, nlen_nil. lia.
Qed.

Section Dither.
Variables n0 n c1 c2 : N.
Variable rest : bytes.
Hypothesis Hn : n <= 65535.

Definition Idith (out : list N) (s : st) : Prop :=
  exists i, nlen out = n0 + i /\ i + rem_dith s = 2 * n /\
    ((s_bic s = false /\ i mod 2 = 0) \/ (s_bic s = true /\ i mod 2 = 1 /\ 1 <= s_cnt s)) /\
    s_c1 s = c1 /\ s_c2 s = c2 /\ s_inp s = rest /\ s_lastop s = 8 /\ s_insmix s = false.

Lemma rem_ok_dith : rem_ok Idith rem_dith.
Proof.
  intros out s (i & A1 & A2 & A3 & _). unfold rem_dith in *.
  destruct A3 as [(-> & _)|(-> & _ & Hc)]; lia.
Qed.

Lemma step_dith fg r : step_px fg r (b_bicol p) (px_dith n0 c1 c2) Idith rem_dith.
Proof.
  intros out s Hi Hx Hc (i & A1 & A2 & A3 & A4 & A5 & A6 & A7 & A8).
  pose proof (ps_xw _ _ _ (il_pos _ _ _ _ Hi)) as Hxw.
  unfold step, b_bicol, rem_dith in *.
  destruct A3 as [(Eb & Hev)|(Eb & Hod & Hc1)]; rewrite Eb in *.
  - (* colour1; count += 1 *)
    assert (Epx : px_dith n0 c1 c2 out = c1).
    { unfold px_dith. replace (nlen out - n0) with i by lia. rewrite Hev. reflexivity. }
    rewrite (wr_eq fg r out s (s_c1 s) Hi Hx). cbn [obind]. prj.
    rewrite add32 by lia. cbn [obind]. prj.
    rewrite sub32 by lia. cbn [obind].
    rewrite add64 by lia. cbn [obind].
    eexists. split; [reflexivity|]. rewrite Epx, <- A4.
    split; [eapply inl_step; [exact Hi|exact Hx|..]; reflexivity|]. prj.
    split; [reflexivity|]. split; [|lia].
    exists (i + 1). rewrite nlen_app, nlen_cons, nlen_nil. unfold rem_dith. prj.
    split; [lia|]. split; [lia|]. split; [right; fin|]. fin.
  - (* colour2 *)
    assert (Epx : px_dith n0 c1 c2 out = c2).
    { unfold px_dith. replace (nlen out - n0) with i by lia. rewrite Hod. reflexivity. }
    rewrite (wr_eq fg r out s (s_c2 s) Hi Hx). cbn [obind]. prj.
    rewrite sub32 by lia. cbn [obind].
    rewrite add64 by lia. cbn [obind].
    eexists. split; [reflexivity|]. rewrite Epx, <- A5.
    split; [eapply inl_step; [exact Hi|exact Hx|..]; reflexivity|]. prj.
    split; [reflexivity|]. split; [|lia].
    exists (i + 1). rewrite nlen_app, nlen_cons, nlen_nil. unfold rem_dith. prj.
    split; [lia|]. split; [lia|]. split; [left; fin|]. fin.
Qed.

Lemma dith_run fg out s1 :
  lazy fg out s1 -> nlen out = n0 -> s_inp s1 = rest -> s_c1 s1 = c1 -> s_c2 s1 = c2 ->
  s_insmix s1 = false -> s_bic s1 = false -> nlen out + 2 * n <= w * h ->
  exists s', cnt_loop p w (S (S (N.to_nat (s_hgt s1)))) 8 0 (set_cnt (set_mixmask (set_lastop s1 8) 0) n) = Ok s' /\
             lazy fg (dither (N.to_nat n) c1 c2 out) s' /\ Kst 8 s' /\ s_inp s' = rest.
Proof.
  intros Hlz Hn0 Hinp Hc1 Hc2 Hins Hbic Hlen.
  destruct (order_run fg 8 0 (px_dith n0 c1 c2) Idith rem_dith rem_ok_dith) with (out := out) (s1 := s1) (n := n)
    as (s' & E & Hlz' & HI' & Hc').
  - intros o s hg l (i & A1 & A2 & A3 & A4 & A5 & A6 & A7 & A8). split; [|reflexivity].
    exists i. unfold rem_dith in *. prj. fin.
  - intros r o s Hi _. exists (b_bicol p). split; [reflexivity|apply step_dith].
  - exact Hlz.
  - exists 0. unfold rem_dith. prj. rewrite Hbic. fin.
  - unfold rem_dith. prj. rewrite Hbic. lia.
  - unfold rem_dith in Hlz', HI'. prj. rewrite Hbic in Hlz', HI'.
    replace (N.to_nat (2 * n - 0)) with (2 * N.to_nat n)%nat in Hlz', HI' by lia.
    rewrite (run_dith n0 c1 c2 (N.to_nat n) out) in Hlz', HI' by (rewrite ?Hn0, ?N.sub_diag; try reflexivity; lia).
    exists s'. split; [exact E|]. split; [exact Hlz'|].
    destruct HI' as (i & A1 & A2 & A3 & A4 & A5 & A6 & A7 & A8). split; [|exact A6].
    unfold Kst. fin. unfold rem_dith in A2. destruct A3 as [(Eb & _)|(Eb & _ & Hc1')]; [exact Eb|lia].
Qed.

End Dither.

(* ---- one order *)
Definition plain_order (o : RefRle.order) : bool :=
  match o with
  | OBg _ | OFg _ | OSetFg _ _ | OColor _ _ | OImage _ | OWhite | OBlack => true
  | _ => false
  end.

Definition Rel (ss : sstate) (s : st) : Prop :=
  lazy (ss_fg ss) (ss_out ss) s /\ (s_lastop s = 0 <-> ss_ins ss = true) /\ s_insmix s = false /\
  (ss_ins ss = true -> ss_out ss <> []) /\ s_bic s = false.

Lemma Rel_intro ss' s' op :
  lazy (ss_fg ss') (ss_out ss') s' -> Kst op s' -> (op = 0 <-> ss_ins ss' = true) ->
  (ss_ins ss' = true -> ss_out ss' <> []) -> Rel ss' s'.
Proof. intros Hlz (K1 & K2 & K3) Hop Hne. unfold Rel. rewrite K1. fin. Qed.

Lemma lazy_ext fg fg' out s s' :
  lazy fg out s -> s_out s' = s_out s -> s_x s' = s_x s -> s_line s' = s_line s -> s_prev s' = s_prev s ->
  s_hgt s' = s_hgt s -> s_mix s' = fg' -> lazy fg' out s'.
Proof.
  intros (Hl & Hc & Hm & Hcase) E1 E2 E3 E4 E5 E6. unfold lazy. rewrite E1, E2, E3, E4, E5. fin.
  destruct Hcase as [H0|(r & [P1 P2 P3 P4 P5 P6] & Hn & Hx)]; [left; exact H0|right].
  exists r. split; [|split; assumption]. constructor; rewrite ?E2, ?E3, ?E4, ?E5; auto.
Qed.

Lemma order_unfold code s0 op cnt0 off r1 n r2 op' fom s1 :
  decode_header code (s_inp s0) = Ok (op, cnt0, off, r1) -> extend_count p op cnt0 off r1 = Ok (n, r2) ->
  order_params w op (set_inp s0 r2) = Ok (op', fom, s1) ->
  Rle16.order p w code s0 = cnt_loop p w (S (S (N.to_nat (s_hgt s1)))) op' fom (set_cnt (set_mixmask (set_lastop s1 op') 0) n).
Proof. intros E1 E2 E3. unfold Rle16.order. rewrite E1, E2, E3. reflexivity. Qed.

Lemma nlen_le16s l : nlen (le16s l) = 2 * nlen l.
Proof. unfold nlen, le16s. rewrite (length_flat_map_block le16 2) by reflexivity. lia. Qed.

Lemma run_img n0 pixels : forall post pre out, pixels = pre ++ post -> nlen out = n0 + nlen pre ->
  run (length post) (px_img n0 pixels) out = out ++ post.
Proof.
  induction post as [|v post IH]; intros pre out Hp Hn; [cbn [length run]; rewrite app_nil_r; reflexivity|].
  cbn [length run].
  assert (Hv : px_img n0 pixels out = v).
  { unfold px_img. rewrite Hp, Hn. replace (n0 + nlen pre - n0) with (nlen pre) by lia.
    rewrite app_nth2 by (unfold nlen; lia). replace (N.to_nat (nlen pre) - length pre)%nat with O by (unfold nlen; lia). reflexivity. }
  rewrite Hv. rewrite (IH (pre ++ [v])).
  - rewrite <- app_assoc. reflexivity.
  - rewrite <- app_assoc. exact Hp.
  - rewrite !nlen_app, nlen_cons, nlen_nil. lia.
Qed.

Lemma Iimg_done n0 pixels rest out inp : Iimg n0 pixels rest out inp 0 -> inp = rest.
Proof.
  intros (pre & post & _ & _ & Hpost & ->). destruct post; [reflexivity|rewrite nlen_cons in Hpost; lia].
Qed.

Lemma bg_insert_cond ss s : Rel ss s ->
  (s_lastop s =? 0) && negb ((s_x s =? w) && is_none (s_prev s)) = ss_ins ss && negb (nlen (ss_out ss) =? w).
Proof.
  intros ((Hl & Hc & Hm & Hcase) & Hlast & Hins & Hne & _).
  destruct (ss_ins ss) eqn:Ei.
  - assert (E : s_lastop s =? 0 = true) by (apply N.eqb_eq; apply Hlast; reflexivity). rewrite E. cbn [andb]. f_equal.
    destruct Hcase as [(H0 & _)|(r & [P1 P2 P3 P4 P5 P6] & Hn & Hx)]; [exfalso; apply (Hne eq_refl); exact H0|].
    rewrite P6, Hn. destruct (r =? 0) eqn:Er.
    + apply N.eqb_eq in Er. subst r. cbn [is_none]. rewrite andb_true_r. f_equal; try lia.
    + apply N.eqb_neq in Er. cbn [is_none]. rewrite andb_false_r. symmetry. apply N.eqb_neq.
      assert (1 * w <= r * w) by (apply N.mul_le_mono_r; lia). lia.
  - assert (E : s_lastop s =? 0 = false).
    { apply N.eqb_neq. intros H0. apply Hlast in H0. discriminate. }
    rewrite E. reflexivity.
Qed.

(* the orders whose repeat! expression only stores a pixel *)
Lemma order_step_plain o f hb rest ss s :
  plain_order o = true -> ser f o = Some hb -> Rel ss s -> s_inp s = hb ++ rest ->
  nlen (ss_out (sem_order w o ss)) <= w * h ->
  exists code t s', hb = code :: t /\ Rle16.order p w code (set_inp s (t ++ rest)) = Ok s' /\
                    Rel (sem_order w o ss) s' /\ s_inp s' = rest.
Proof.
  intros Hsup Hser HR Hin Hlen.
  pose proof HR as (Hlz & Hlast & Hins & Hne & Hbic).
  assert (Hmix : s_mix s = ss_fg ss) by (destruct Hlz as (_ & _ & Hm & _); exact Hm).
  destruct o; try discriminate; cbn [ser] in Hser; cbn [sem_order ss_out ss_fg ss_ins] in *.
  - (* background run *)
    destruct (hdr_reg f 0 n hb rest ltac:(lia) ltac:(lia) Hser) as ((code & t & cnt0 & off & r1 & -> & E1 & E2) & Hn1).
    exists code, t.
    set (s0 := set_inp s (t ++ rest)).
    pose proof (bg_insert_cond ss s HR) as Hcond.
    assert (Hlz0 : lazy (ss_fg ss) (ss_out ss) (set_inp s0 rest)).
    { eapply lazy_ext; [exact Hlz|..]; subst s0; prj; try reflexivity. exact Hmix. }
    destruct (ss_ins ss && negb (nlen (ss_out ss) =? w)) eqn:Ecase.
    + (* the inserted foreground pixel *)
      assert (E3 : order_params w 0 (set_inp s0 rest) = Ok (0, 0, set_insmix (set_inp s0 rest) true)).
      { unfold order_params. change (0 =? 0) with true. cbv iota. subst s0. prj. rewrite Hcond. reflexivity. }
      rewrite (order_unfold code s0 0 cnt0 off r1 n rest 0 0 _ E1 E2 E3).
      set (s2 := set_cnt (set_mixmask (set_lastop (set_insmix (set_inp s0 rest) true) 0) 0) n).
      destruct (bg_insert_loop (ss_fg ss) 0 (S (S (N.to_nat (s_hgt s2)))) (ss_out ss) s2) as (s' & E & Hlz' & HK' & Hn').
      * eapply lazy_ext; [exact Hlz0|..]; subst s2; prj; try reflexivity. exact Hmix.
      * subst s2. prj. reflexivity.
      * subst s2. prj. reflexivity.
      * subst s2 s0. prj. exact Hbic.
      * subst s2. prj. lia.
      * subst s2. prj. rewrite nlen_run, nlen_app, nlen_cons, nlen_nil in Hlen. lia.
      * unfold meas. destruct (N.ltb (s_x s2) w); lia.
      * exists s'. split; [reflexivity|]. split; [subst s2 s0; prj; exact E|].
        subst s2. prj. split; [|subst s0; prj; exact Hn'].
        apply (Rel_intro _ s' 0); cbn [ss_out ss_fg ss_ins]; [exact Hlz'|exact HK'|split; reflexivity|].
        intros _ H0. apply (f_equal nlen) in H0. rewrite nlen_run, nlen_app, nlen_cons, nlen_nil in H0. lia.
    + (* an ordinary background run *)
      assert (E3 : order_params w 0 (set_inp s0 rest) = Ok (0, 0, set_inp s0 rest)).
      { unfold order_params. change (0 =? 0) with true. cbv iota. subst s0. prj. rewrite Hcond. reflexivity. }
      rewrite (order_unfold code s0 0 cnt0 off r1 n rest 0 0 _ E1 E2 E3).
      assert (Hrun : run (N.to_nat n - 1) (bg_px w) (ss_out ss ++ [bg_px w (ss_out ss)]) = run (N.to_nat n) (bg_px w) (ss_out ss)).
      { replace (N.to_nat n) with (S (N.to_nat n - 1)) at 2 by lia. reflexivity. }
      rewrite Hrun in *.
      destruct (plain_run (ss_fg ss) 0 0 (bg_px w) (inp_is rest) (Kst 0) (ss_out ss) (set_inp s0 rest) n)
        as (s' & E & Hlz' & HK' & Hn').
      * apply Kst_same.
      * intros r0 out0 sx Hi0 Hk0. apply (hop_bg (ss_fg ss) 0 rest r0 out0 sx Hi0 (proj1 (proj2 Hk0))).
      * exact Hlz0.
      * subst s0. unfold Kst. prj. fin.
      * reflexivity.
      * rewrite nlen_run in Hlen. lia.
      * exists s'. split; [reflexivity|]. split; [exact E|]. split; [|exact Hn'].
        apply (Rel_intro _ s' 0); cbn [ss_out ss_fg ss_ins]; [exact Hlz'|exact HK'|split; reflexivity|].
        intros _ H0. apply (f_equal nlen) in H0. rewrite nlen_run, nlen_nil in H0. lia.
  - (* foreground run *)
    destruct (hdr_reg f 1 n hb rest ltac:(lia) ltac:(lia) Hser) as ((code & t & cnt0 & off & r1 & -> & E1 & E2) & Hn1).
    exists code, t.
    set (s0 := set_inp s (t ++ rest)).
    assert (E3 : order_params w 1 (set_inp s0 rest) = Ok (1, 0, set_inp s0 rest)) by reflexivity.
    rewrite (order_unfold code s0 1 cnt0 off r1 n rest 1 0 _ E1 E2 E3).
    destruct (plain_run (ss_fg ss) 1 0 (fg_px w (ss_fg ss)) (inp_is rest) (Kst 1) (ss_out ss) (set_inp s0 rest) n)
      as (s' & E & Hlz' & HK' & Hn').
    + apply Kst_same.
    + intros r0 out0 sx Hi0 Hk0. apply (hop_fg (ss_fg ss) 0 rest r0 out0 sx Hi0).
    + eapply lazy_ext; [exact Hlz|..]; subst s0; prj; try reflexivity. exact Hmix.
    + subst s0. unfold Kst. prj. fin.
    + reflexivity.
    + rewrite nlen_run in Hlen. lia.
    + exists s'. split; [reflexivity|]. split; [exact E|]. split; [|exact Hn'].
      apply (Rel_intro _ s' 1); cbn [ss_out ss_fg ss_ins]; [exact Hlz'|exact HK'|split; discriminate|discriminate].
  - (* set foreground + foreground run *)
    destruct (is16 fg) eqn:Efg; [|discriminate]. unfold is16 in Efg. apply N.ltb_lt in Efg.
    destruct (hdr_run f 192 15 16 246 n) as [h0|] eqn:Eh; [|discriminate]. cbn [omap] in Hser. inversion Hser; subst hb. clear Hser.
    destruct (hdr_lite f 6 n h0 (le16 fg ++ rest) ltac:(lia) Eh) as ((code & t & cnt0 & off & r1 & -> & E1 & E2) & Hn1).
    exists code, (t ++ le16 fg).
    set (s0 := set_inp s ((t ++ le16 fg) ++ rest)).
    assert (E1' : decode_header code (s_inp s0) = Ok (6, cnt0, off, r1)).
    { subst s0. prj. rewrite <- app_assoc. exact E1. }
    assert (E3 : order_params w 6 (set_inp s0 (le16 fg ++ rest)) = Ok (1, 0, set_inp (set_mix (set_inp s0 (le16 fg ++ rest)) fg) rest)).
    { unfold order_params. change (6 =? 0) with false. change (6 =? 8) with false. change (6 =? 3) with false.
      change ((6 =? 6) || (6 =? 7)) with true. cbv iota. prj. rewrite read_le16 by exact Efg. reflexivity. }
    rewrite (order_unfold code s0 6 cnt0 off r1 n _ 1 0 _ E1' E2 E3).
    set (s1 := set_inp (set_mix (set_inp s0 (le16 fg ++ rest)) fg) rest).
    destruct (plain_run fg 1 0 (fg_px w fg) (inp_is rest) (Kst 1) (ss_out ss) s1 n)
      as (s' & E & Hlz' & HK' & Hn').
    + apply Kst_same.
    + intros r0 out0 sx Hi0 Hk0. apply (hop_fg fg 0 rest r0 out0 sx Hi0).
    + eapply lazy_ext; [exact Hlz|..]; subst s1 s0; prj; reflexivity.
    + subst s1 s0. unfold Kst. prj. fin.
    + reflexivity.
    + rewrite nlen_run in Hlen. lia.
    + exists s'. split; [reflexivity|]. split; [exact E|]. split; [|exact Hn'].
      apply (Rel_intro _ s' 1); cbn [ss_out ss_fg ss_ins]; [exact Hlz'|exact HK'|split; discriminate|discriminate].
  - (* colour run *)
    destruct (is16 c) eqn:Ec; [|discriminate]. unfold is16 in Ec. apply N.ltb_lt in Ec.
    destruct (hdr_run f 96 31 32 243 n) as [h0|] eqn:Eh; [|discriminate]. cbn [omap] in Hser. inversion Hser; subst hb. clear Hser.
    destruct (hdr_reg f 3 n h0 (le16 c ++ rest) ltac:(lia) ltac:(lia) Eh) as ((code & t & cnt0 & off & r1 & -> & E1 & E2) & Hn1).
    exists code, (t ++ le16 c).
    set (s0 := set_inp s ((t ++ le16 c) ++ rest)).
    assert (E1' : decode_header code (s_inp s0) = Ok (3, cnt0, off, r1)).
    { subst s0. prj. rewrite <- app_assoc. exact E1. }
    assert (E3 : order_params w 3 (set_inp s0 (le16 c ++ rest)) = Ok (3, 0, set_inp (set_c2 (set_inp s0 (le16 c ++ rest)) c) rest)).
    { unfold order_params. change (3 =? 0) with false. change (3 =? 8) with false. change (3 =? 3) with true. cbv iota.
      prj. rewrite read_le16 by exact Ec. reflexivity. }
    rewrite (order_unfold code s0 3 cnt0 off r1 n _ 3 0 _ E1' E2 E3).
    set (s1 := set_inp (set_c2 (set_inp s0 (le16 c ++ rest)) c) rest).
    destruct (plain_run (ss_fg ss) 3 0 (fun _ => c) (inp_is rest) (fun sx => Kst 3 sx /\ s_c2 sx = c) (ss_out ss) s1 n)
      as (s' & E & Hlz' & [HK' _] & Hn').
    + intros sa sb [Ha Ha2] Hsp. split; [eapply Kst_same; eauto|]. destruct Hsp as (_ & _ & _ & Hb & _). congruence.
    + intros r0 out0 sx Hi0 [_ Hk0]. apply (hop_col (ss_fg ss) 0 rest c r0 out0 sx Hi0 Hk0).
    + eapply lazy_ext; [exact Hlz|..]; subst s1 s0; prj; try reflexivity. exact Hmix.
    + subst s1 s0. unfold Kst. prj. fin.
    + reflexivity.
    + rewrite nlen_run in Hlen. lia.
    + exists s'. split; [reflexivity|]. split; [exact E|]. split; [|exact Hn'].
      apply (Rel_intro _ s' 3); cbn [ss_out ss_fg ss_ins]; [exact Hlz'|exact HK'|split; discriminate|discriminate].
  - (* colour image *)
    destruct (forallb is16 pixels) eqn:Epx; [|discriminate].
    assert (Hpix : Forall (fun v => v < 65536) pixels).
    { apply Forall_forall. intros v Hv. rewrite forallb_forall in Epx. specialize (Epx v Hv). unfold is16 in Epx. apply N.ltb_lt. exact Epx. }
    destruct (hdr_run f 128 31 32 244 (nlen pixels)) as [h0|] eqn:Eh; [|discriminate]. cbn [omap] in Hser. inversion Hser; subst hb. clear Hser.
    destruct (hdr_reg f 4 (nlen pixels) h0 (le16s pixels ++ rest) ltac:(lia) ltac:(lia) Eh) as ((code & t & cnt0 & off & r1 & -> & E1 & E2) & Hn1).
    exists code, (t ++ le16s pixels).
    set (s0 := set_inp s ((t ++ le16s pixels) ++ rest)).
    assert (E1' : decode_header code (s_inp s0) = Ok (4, cnt0, off, r1)).
    { subst s0. prj. rewrite <- app_assoc. exact E1. }
    assert (E3 : order_params w 4 (set_inp s0 (le16s pixels ++ rest)) = Ok (4, 0, set_inp s0 (le16s pixels ++ rest))) by reflexivity.
    rewrite (order_unfold code s0 4 cnt0 off r1 (nlen pixels) _ 4 0 _ E1' E2 E3).
    set (s1 := set_inp s0 (le16s pixels ++ rest)).
    destruct (plain_run (ss_fg ss) 4 0 (px_img (nlen (ss_out ss)) pixels) (Iimg (nlen (ss_out ss)) pixels rest)
                        (Kst 4) (ss_out ss) s1 (nlen pixels)) as (s' & E & Hlz' & HK' & Hn').
    + apply Kst_same.
    + intros r0 out0 sx Hi0 Hk0. apply (hop_img (ss_fg ss) 0 (nlen (ss_out ss)) pixels rest r0 out0 sx Hpix Hi0).
    + eapply lazy_ext; [exact Hlz|..]; subst s1 s0; prj; try reflexivity. exact Hmix.
    + subst s1 s0. unfold Kst. prj. fin.
    + exists [], pixels. subst s1. prj. rewrite nlen_nil. fin.
    + rewrite nlen_app in Hlen. lia.
    + replace (N.to_nat (nlen pixels)) with (length pixels) in * by (unfold nlen; lia).
      rewrite (run_img (nlen (ss_out ss)) pixels pixels [] (ss_out ss) eq_refl ltac:(rewrite nlen_nil; lia)) in Hlz', Hn'.
      exists s'. split; [reflexivity|]. split; [exact E|]. split; [|exact (Iimg_done _ _ _ _ _ Hn')].
      apply (Rel_intro _ s' 4); cbn [ss_out ss_fg ss_ins]; [exact Hlz'|exact HK'|split; discriminate|discriminate].
  - (* white *)
    destruct f; try discriminate. inversion Hser; subst hb. clear Hser.
    exists 253, []. cbn [app].
    set (s0 := set_inp s rest).
    assert (E1 : decode_header 253 (s_inp s0) = Ok (13, 1, 0, rest)) by (change 253 with (240 + 13); apply dh_special; lia).
    assert (E3 : order_params w 13 (set_inp s0 rest) = Ok (13, 0, set_inp s0 rest)) by reflexivity.
    rewrite (order_unfold 253 s0 13 1 0 rest 1 rest 13 0 _ E1 (ec_mega 13 1 rest) E3).
    destruct (plain_run (ss_fg ss) 13 0 (fun _ => 65535) (inp_is rest) (Kst 13) (ss_out ss) (set_inp s0 rest) 1)
      as (s' & E & Hlz' & HK' & Hn').
    + apply Kst_same.
    + intros r0 out0 sx Hi0 Hk0. apply (hop_white (ss_fg ss) 0 rest r0 out0 sx Hi0).
    + eapply lazy_ext; [exact Hlz|..]; subst s0; prj; try reflexivity. exact Hmix.
    + subst s0. unfold Kst. prj. fin.
    + reflexivity.
    + rewrite nlen_app, nlen_cons, nlen_nil in Hlen. lia.
    + exists s'. split; [reflexivity|]. split; [exact E|]. split; [|exact Hn'].
      apply (Rel_intro _ s' 13); cbn [ss_out ss_fg ss_ins]; [exact Hlz'|exact HK'|split; discriminate|discriminate].
  - (* black *)
    destruct f; try discriminate. inversion Hser; subst hb. clear Hser.
    exists 254, []. cbn [app].
    set (s0 := set_inp s rest).
    assert (E1 : decode_header 254 (s_inp s0) = Ok (14, 1, 0, rest)) by (change 254 with (240 + 14); apply dh_special; lia).
    assert (E3 : order_params w 14 (set_inp s0 rest) = Ok (14, 0, set_inp s0 rest)) by reflexivity.
    rewrite (order_unfold 254 s0 14 1 0 rest 1 rest 14 0 _ E1 (ec_mega 14 1 rest) E3).
    destruct (plain_run (ss_fg ss) 14 0 (fun _ => 0) (inp_is rest) (Kst 14) (ss_out ss) (set_inp s0 rest) 1)
      as (s' & E & Hlz' & HK' & Hn').
    + apply Kst_same.
    + intros r0 out0 sx Hi0 Hk0. apply (hop_black (ss_fg ss) 0 rest r0 out0 sx Hi0).
    + eapply lazy_ext; [exact Hlz|..]; subst s0; prj; try reflexivity. exact Hmix.
    + subst s0. unfold Kst. prj. fin.
    + reflexivity.
    + rewrite nlen_app, nlen_cons, nlen_nil in Hlen. lia.
    + exists s'. split; [reflexivity|]. split; [exact E|]. split; [|exact Hn'].
      apply (Rel_intro _ s' 14); cbn [ss_out ss_fg ss_ins]; [exact Hlz'|exact HK'|split; discriminate|discriminate].
Qed.


(* the orders whose repeat! expression carries state of its own: FGBG images (mask bits) and dithered runs *)
Lemma order_step_state o f hb rest ss s :
  plain_order o = false -> ser f o = Some hb -> Rel ss s -> s_inp s = hb ++ rest ->
  nlen (ss_out (sem_order w o ss)) <= w * h ->
  exists code t s', hb = code :: t /\ Rle16.order p w code (set_inp s (t ++ rest)) = Ok s' /\
                    Rel (sem_order w o ss) s' /\ s_inp s' = rest.
Proof.
  intros Hsup Hser HR Hin Hlen.
  pose proof HR as (Hlz & Hlast & Hins & Hne & Hbic).
  assert (Hmix : s_mix s = ss_fg ss) by (destruct Hlz as (_ & _ & Hm & _); exact Hm).
  destruct o; try discriminate; cbn [ser] in Hser; cbn [sem_order ss_out ss_fg ss_ins] in *.
  - (* FGBG image *)
    destruct (masks_ok n masks) eqn:Emk; [|discriminate]. unfold masks_ok in Emk.
    apply andb_true_iff in Emk. destruct Emk as [Emk _]. apply N.eqb_eq in Emk.
    destruct (hdr_fgbg f 64 31 242 n) as [h0|] eqn:Eh; [|discriminate]. cbn [omap] in Hser. inversion Hser; subst hb. clear Hser.
    destruct (hdr_fom f 64 31 242 2 n h0 (masks ++ rest) ltac:(left; repeat split) Eh) as ((code & t & cnt0 & off & r1 & -> & E1 & E2) & Hn1).
    exists code, (t ++ masks).
    set (s0 := set_inp s ((t ++ masks) ++ rest)).
    assert (E1' : decode_header code (s_inp s0) = Ok (2, cnt0, off, r1)).
    { subst s0. prj. rewrite <- app_assoc. exact E1. }
    assert (E3 : order_params w 2 (set_inp s0 (masks ++ rest)) = Ok (2, 0, set_inp s0 (masks ++ rest))) by reflexivity.
    rewrite (order_unfold code s0 2 cnt0 off r1 n _ 2 0 _ E1' E2 E3).
    set (s1 := set_inp s0 (masks ++ rest)).
    rewrite nlen_fgbg in Hlen.
    destruct (fom_run (nlen (ss_out ss)) n 0 masks rest Emk ltac:(left; reflexivity) (ss_fg ss) (ss_out ss) s1)
      as (s' & E & Hlz' & HK' & Hn'); try (subst s1 s0; prj; auto; fail).
    + eapply lazy_ext; [exact Hlz|..]; subst s1 s0; prj; try reflexivity. exact Hmix.
    + lia.
    + exists s'. split; [reflexivity|]. split; [exact E|]. split; [|exact Hn'].
      apply (Rel_intro _ s' 2); cbn [ss_out ss_fg ss_ins]; [exact Hlz'|exact HK'|split; discriminate|discriminate].
  - (* SET-FGBG image *)
    destruct (is16 fg && masks_ok n masks) eqn:Emk; [|discriminate].
    apply andb_true_iff in Emk. destruct Emk as [Efg Emk]. unfold is16 in Efg. apply N.ltb_lt in Efg. unfold masks_ok in Emk.
    apply andb_true_iff in Emk. destruct Emk as [Emk _]. apply N.eqb_eq in Emk.
    destruct (hdr_fgbg f 208 15 247 n) as [h0|] eqn:Eh; [|discriminate]. cbn [omap] in Hser. inversion Hser; subst hb. clear Hser.
    destruct (hdr_fom f 208 15 247 7 n h0 (le16 fg ++ masks ++ rest) ltac:(right; repeat split) Eh)
      as ((code & t & cnt0 & off & r1 & -> & E1 & E2) & Hn1).
    exists code, (t ++ le16 fg ++ masks).
    set (s0 := set_inp s ((t ++ le16 fg ++ masks) ++ rest)).
    assert (E1' : decode_header code (s_inp s0) = Ok (7, cnt0, off, r1)).
    { subst s0. prj. rewrite <- !app_assoc. exact E1. }
    assert (E3 : order_params w 7 (set_inp s0 (le16 fg ++ masks ++ rest)) =
                 Ok (2, 0, set_inp (set_mix (set_inp s0 (le16 fg ++ masks ++ rest)) fg) (masks ++ rest))).
    { unfold order_params. change (7 =? 0) with false. change (7 =? 8) with false. change (7 =? 3) with false.
      change ((7 =? 6) || (7 =? 7)) with true. cbv iota. prj. rewrite read_le16 by exact Efg. reflexivity. }
    rewrite (order_unfold code s0 7 cnt0 off r1 n _ 2 0 _ E1' E2 E3).
    set (s1 := set_inp (set_mix (set_inp s0 (le16 fg ++ masks ++ rest)) fg) (masks ++ rest)).
    rewrite nlen_fgbg in Hlen.
    destruct (fom_run (nlen (ss_out ss)) n 0 masks rest Emk ltac:(left; reflexivity) fg (ss_out ss) s1)
      as (s' & E & Hlz' & HK' & Hn'); try (subst s1 s0; prj; auto; fail).
    + eapply lazy_ext; [exact Hlz|..]; subst s1 s0; prj; reflexivity.
    + lia.
    + exists s'. split; [reflexivity|]. split; [exact E|]. split; [|exact Hn'].
      apply (Rel_intro _ s' 2); cbn [ss_out ss_fg ss_ins]; [exact Hlz'|exact HK'|split; discriminate|discriminate].
  - (* dithered run *)
    destruct (is16 c1 && is16 c2) eqn:Ec; [|discriminate].
    apply andb_true_iff in Ec. destruct Ec as [Ec1 Ec2]. unfold is16 in Ec1, Ec2. apply N.ltb_lt in Ec1, Ec2.
    destruct (hdr_run f 224 15 16 248 n) as [h0|] eqn:Eh; [|discriminate]. cbn [omap] in Hser. inversion Hser; subst hb. clear Hser.
    destruct (hdr_lite f 8 n h0 (le16 c1 ++ le16 c2 ++ rest) ltac:(lia) Eh) as ((code & t & cnt0 & off & r1 & -> & E1 & E2) & Hn1).
    exists code, (t ++ le16 c1 ++ le16 c2).
    set (s0 := set_inp s ((t ++ le16 c1 ++ le16 c2) ++ rest)).
    assert (E1' : decode_header code (s_inp s0) = Ok (8, cnt0, off, r1)).
    { subst s0. prj. rewrite <- !app_assoc. exact E1. }
    assert (E3 : order_params w 8 (set_inp s0 (le16 c1 ++ le16 c2 ++ rest)) =
                 Ok (8, 0, set_inp (set_c2 (set_c1 (set_inp s0 (le16 c1 ++ le16 c2 ++ rest)) c1) c2) rest)).
    { unfold order_params. change (8 =? 0) with false. change (8 =? 8) with true. cbv iota. prj.
      rewrite read_le16 by exact Ec1. rewrite read_le16 by exact Ec2. reflexivity. }
    rewrite (order_unfold code s0 8 cnt0 off r1 n _ 8 0 _ E1' E2 E3).
    set (s1 := set_inp (set_c2 (set_c1 (set_inp s0 (le16 c1 ++ le16 c2 ++ rest)) c1) c2) rest).
    rewrite nlen_dither in Hlen.
    destruct (dith_run (nlen (ss_out ss)) n c1 c2 rest ltac:(lia) (ss_fg ss) (ss_out ss) s1)
      as (s' & E & Hlz' & HK' & Hn'); try (subst s1 s0; prj; auto; fail).
    + eapply lazy_ext; [exact Hlz|..]; subst s1 s0; prj; try reflexivity. exact Hmix.
    + lia.
    + exists s'. split; [reflexivity|]. split; [exact E|]. split; [|exact Hn'].
      apply (Rel_intro _ s' 8); cbn [ss_out ss_fg ss_ins]; [exact Hlz'|exact HK'|split; discriminate|discriminate].
  - (* F9 *)
    destruct f; try discriminate. inversion Hser; subst hb. clear Hser.
    exists 249, []. cbn [app].
    set (s0 := set_inp s rest).
    assert (E1 : decode_header 249 (s_inp s0) = Ok (9, 8, 0, rest)) by (change 249 with (240 + 9); apply dh_special8; lia).
    assert (E3 : order_params w 9 (set_inp s0 rest) = Ok (2, 3, set_mask (set_inp s0 rest) 3)) by reflexivity.
    rewrite (order_unfold 249 s0 9 8 0 rest 8 rest 2 3 _ E1 (ec_mega 9 8 rest) E3).
    set (s1 := set_mask (set_inp s0 rest) 3).
    rewrite nlen_fgbg in Hlen.
    destruct (fom_run (nlen (ss_out ss)) 8 3 [3] rest eq_refl ltac:(right; repeat split; lia) (ss_fg ss) (ss_out ss) s1)
      as (s' & E & Hlz' & HK' & Hn'); try (subst s1 s0; prj; auto; fail).
    + eapply lazy_ext; [exact Hlz|..]; subst s1 s0; prj; try reflexivity. exact Hmix.
    + exists s'. split; [reflexivity|]. split; [exact E|]. split; [|exact Hn'].
      apply (Rel_intro _ s' 2); cbn [ss_out ss_fg ss_ins]; [exact Hlz'|exact HK'|split; discriminate|discriminate].
  - (* FA *)
    destruct f; try discriminate. inversion Hser; subst hb. clear Hser.
    exists 250, []. cbn [app].
    set (s0 := set_inp s rest).
    assert (E1 : decode_header 250 (s_inp s0) = Ok (10, 8, 0, rest)) by (change 250 with (240 + 10); apply dh_special8; lia).
    assert (E3 : order_params w 10 (set_inp s0 rest) = Ok (2, 5, set_mask (set_inp s0 rest) 5)) by reflexivity.
    rewrite (order_unfold 250 s0 10 8 0 rest 8 rest 2 5 _ E1 (ec_mega 10 8 rest) E3).
    set (s1 := set_mask (set_inp s0 rest) 5).
    rewrite nlen_fgbg in Hlen.
    destruct (fom_run (nlen (ss_out ss)) 8 5 [5] rest eq_refl ltac:(right; repeat split; lia) (ss_fg ss) (ss_out ss) s1)
      as (s' & E & Hlz' & HK' & Hn'); try (subst s1 s0; prj; auto; fail).
    + eapply lazy_ext; [exact Hlz|..]; subst s1 s0; prj; try reflexivity. exact Hmix.
    + exists s'. split; [reflexivity|]. split; [exact E|]. split; [|exact Hn'].
      apply (Rel_intro _ s' 2); cbn [ss_out ss_fg ss_ins]; [exact Hlz'|exact HK'|split; discriminate|discriminate].
Qed.

(* every order of the grammar, in every legal form *)
Lemma order_step o f hb rest ss s :
  ser f o = Some hb -> Rel ss s -> s_inp s = hb ++ rest ->
  nlen (ss_out (sem_order w o ss)) <= w * h ->
  exists code t s', hb = code :: t /\ Rle16.order p w code (set_inp s (t ++ rest)) = Ok s' /\
                    Rel (sem_order w o ss) s' /\ s_inp s' = rest.
Proof.
  destruct (plain_order o) eqn:E; [apply order_step_plain|apply order_step_state]; exact E.
Qed.

(* ---- the whole stream *)
Lemma sem_order_mono o ss : nlen (ss_out ss) <= nlen (ss_out (sem_order w o ss)).
Proof.
  destruct o; cbn [sem_order ss_out]; rewrite ?nlen_run, ?nlen_fgbg, ?nlen_dither, ?nlen_app; try lia.
  destruct (ss_ins ss && negb (nlen (ss_out ss) =? w)); rewrite nlen_app; lia.
Qed.

Lemma sem_from_mono : forall os ss, nlen (ss_out ss) <= nlen (ss_out (sem_from w os ss)).
Proof.
  induction os as [|o os IH]; intros ss; [cbn; lia|].
  change (sem_from w (o :: os) ss) with (sem_from w os (sem_order w o ss)).
  pose proof (sem_order_mono o ss). pose proof (IH (sem_order w o ss)). lia.
Qed.

Lemma main_sem : forall os bs, serialises os bs ->
  forall ss s fuel, Rel ss s -> s_inp s = bs -> nlen (ss_out (sem_from w os ss)) <= w * h -> (length bs < fuel)%nat ->
  exists s', main_loop p w fuel s = Ok s' /\ Rel (sem_from w os ss) s'.
Proof.
  induction 1 as [|o os f b bs Hser Hrest IH]; intros ss s fuel HR Hin Hlen Hf.
  - destruct fuel; [lia|]. cbn [main_loop]. rewrite Hin. exists s. split; [reflexivity|exact HR].
  - change (sem_from w (o :: os) ss) with (sem_from w os (sem_order w o ss)) in *.
    pose proof (sem_from_mono os (sem_order w o ss)) as Hm.
    destruct (order_step o f b bs ss s Hser HR Hin ltac:(lia)) as (code & t & s1 & -> & E1 & HR1 & Hin1).
    destruct fuel; [lia|]. cbn [main_loop]. rewrite Hin. cbn [app]. rewrite E1. cbn [obind].
    apply (IH (sem_order w o ss) s1 fuel HR1 Hin1 Hlen).
    cbn [app length] in Hf. rewrite app_length in Hf. lia.
Qed.

End Sem.
