(* C09, interleaved RLE: the decoder model against the flat per-pixel semantics of RefRle.v.
   The invariant relates the decoder's (x, height, line, prevline) to the flat position
   |out| = r * width + x  and its output buffer to the pixels written so far (row r of the
   bottom-up raster lives at (height-1-r) * width). *)
From RdpV Require Import Base Buf Rle16 RefRle CodecLemmas CodecContent Rle16_proofs.

Ltac Zify.zify_post_hook ::= Z.div_mod_to_equations.

Ltac prj := cbn [s_inp s_out s_x s_cnt s_hgt s_line s_prev s_lastop s_insmix s_c1 s_c2 s_mix s_mask s_mixmask s_bic
                 set_inp set_out set_x set_cnt set_lastop set_insmix set_c1 set_c2 set_mix set_mask set_mixmask set_bic
                 set_newline] in *.

Ltac fin := repeat match goal with |- _ /\ _ => split end; auto; try lia.

(* everything except x / count / height / line / prevline / output *)
Definition same_params (s s' : st) : Prop :=
  s_lastop s' = s_lastop s /\ s_insmix s' = s_insmix s /\ s_c1 s' = s_c1 s /\
  s_c2 s' = s_c2 s /\ s_mix s' = s_mix s /\ s_bic s' = s_bic s.

Lemma same_params_refl s : same_params s s.
Proof. unfold same_params. repeat split. Qed.
Lemma same_params_trans s1 s2 s3 : same_params s1 s2 -> same_params s2 s3 -> same_params s1 s3.
Proof. unfold same_params. intros (A1&A2&A3&A4&A5&A6) (B1&B2&B3&B4&B5&B6). repeat split; congruence. Qed.

Lemma iter_plus {A} (f : A -> A) a b x : Nat.iter (a + b) f x = Nat.iter b f (Nat.iter a f x).
Proof. rewrite Nat.add_comm. induction b as [|b IH]; [reflexivity|]. simpl. rewrite IH. reflexivity. Qed.

Lemma run_add : forall a b px out, run (a + b) px out = run b px (run a px out).
Proof. induction a as [|a IH]; intros b px out; [reflexivity|]. cbn [Nat.add run]. apply IH. Qed.

Lemma nlen_run : forall n px out, nlen (run n px out) = nlen out + N.of_nat n.
Proof.
  induction n as [|n IH]; intros px out; [cbn [run]; lia|].
  cbn [run]. rewrite IH, nlen_app, nlen_cons, nlen_nil. lia.
Qed.

Section Sem.
Variable p : prof.
Variables w h L : N.
Hypothesis Hw : w < 65536.
Hypothesis Hh : h < 65536.
Hypothesis Hw0 : 0 < w.
Hypothesis HL : w * h <= L.

Let whb : w * h <= 4294836225 := wh_bound w h Hw Hh.

(* ---- position and contents *)
Record pos (r x : N) (s : st) : Prop := mkPos {
  ps_r : r < h;
  ps_x : s_x s = x;
  ps_xw : x <= w;
  ps_h : s_hgt s = h - 1 - r;
  ps_line : s_line s = Some ((h - 1 - r) * w);
  ps_prev : s_prev s = if r =? 0 then None else Some ((h - r) * w) }.

Definition cont (out : list N) (b : buf) : Prop :=
  forall r c, c < w -> r * w + c < nlen out -> bget_raw b ((h - 1 - r) * w + c) = nth (N.to_nat (r * w + c)) out 0.

Lemma row_bound r : r < h -> (h - 1 - r) * w + w <= w * h.
Proof.
  intros Hr. replace ((h - 1 - r) * w + w) with ((h - 1 - r + 1) * w) by lia.
  rewrite (N.mul_comm w h). apply N.mul_le_mono_r. lia.
Qed.

Lemma rc_unique r c r' c' : c < w -> c' < w -> r * w + c = r' * w + c' -> r = r' /\ c = c'.
Proof.
  intros Hc Hc' E.
  assert (r = r').
  { destruct (N.lt_trichotomy r r') as [Hlt|[He|Hgt]]; [|exact He|].
    - assert ((r + 1) * w <= r' * w) by (apply N.mul_le_mono_r; lia). lia.
    - assert ((r' + 1) * w <= r * w) by (apply N.mul_le_mono_r; lia). lia. }
  subst. split; [reflexivity|lia].
Qed.

Lemma cont_snoc out b r x v :
  cont out b -> nlen out = r * w + x -> x < w -> r < h ->
  cont (out ++ [v]) (bset_raw b ((h - 1 - r) * w + x) v).
Proof.
  intros Hc Hn Hx Hr r' c' Hc' Hlt. rewrite nlen_app, nlen_cons, nlen_nil in Hlt.
  destruct (N.eq_dec (r' * w + c') (r * w + x)) as [E|Hne].
  - destruct (rc_unique r' c' r x Hc' Hx E) as [-> ->].
    rewrite bget_raw_bset_raw_same. rewrite app_nth2 by (unfold nlen in *; lia).
    replace (N.to_nat (r * w + x) - length out)%nat with O by (unfold nlen in *; lia). reflexivity.
  - assert (Hlt' : r' * w + c' < nlen out) by lia.
    rewrite bget_raw_bset_raw_other.
    + rewrite (Hc r' c' Hc' Hlt'). rewrite app_nth1 by (unfold nlen in *; lia). reflexivity.
    + intros E. apply Hne.
      assert (Hr' : r' < h).
      { destruct (N.lt_ge_cases r' h) as [Hl|Hg]; [exact Hl|].
        assert (h * w <= r' * w) by (apply N.mul_le_mono_r; lia).
        assert ((r + 1) * w <= h * w) by (apply N.mul_le_mono_r; lia). lia. }
      assert (Eq : (h - 1 - r) = (h - 1 - r') /\ x = c').
      { apply rc_unique; try assumption; lia. }
      destruct Eq as [E1 E2]. assert (r = r') by lia. subst. reflexivity.
Qed.

(* inside a scan line *)
Record inl (fg : N) (r : N) (out : list N) (s : st) : Prop := mkInl {
  il_pos : pos r (s_x s) s;
  il_n : nlen out = r * w + s_x s;
  il_cont : cont out (s_out s);
  il_len : blen (s_out s) = L;
  il_mix : s_mix s = fg }.

(* a repeat! expression that stores px(out) at the current pixel; it may consume input ([istep]) under an
   invariant [Iinv out input count] that it re-establishes; it touches nothing else *)
Definition body_px (fg r : N) (body : st -> outcome st) (px : list N -> N)
           (istep : bytes -> bytes) (Iinv : list N -> bytes -> N -> Prop) : Prop :=
  forall out s, inl fg r out s -> s_x s < w -> 1 <= s_cnt s -> Iinv out (s_inp s) (s_cnt s) ->
    body s = Ok (set_out (set_inp s (istep (s_inp s))) (bset_raw (s_out s) ((h - 1 - r) * w + s_x s) (px out))) /\
    Iinv (out ++ [px out]) (istep (s_inp s)) (s_cnt s - 1).

Definition no_input : list N -> bytes -> N -> Prop := fun _ _ _ => True.
Definition keep_input : bytes -> bytes := fun i => i.

Lemma set_inp_same s : set_inp s (s_inp s) = s.
Proof. destruct s. reflexivity. Qed.

Lemma wr_eq fg r out s v : inl fg r out s -> s_x s < w ->
  wr p s v = Ok (set_out s (bset_raw (s_out s) ((h - 1 - r) * w + s_x s) v)).
Proof.
  intros [Hp Hn Hc Hl Hm] Hx. unfold wr. rewrite (ps_line _ _ _ Hp).
  pose proof (row_bound r (ps_r _ _ _ Hp)) as Hb.
  rewrite add64 by lia. cbn [obind]. rewrite bset_ok by lia. reflexivity.
Qed.

Lemma rd_eq fg r out s : inl fg r out s -> s_x s < w -> 0 < r ->
  rd p ((h - r) * w) s = Ok (nth (N.to_nat (nlen out - w)) out 0).
Proof.
  intros [Hp Hn Hc Hl Hm] Hx Hr. unfold rd.
  pose proof (ps_r _ _ _ Hp) as Hrh.
  pose proof (row_bound (r - 1) ltac:(lia)) as Hb. replace (h - 1 - (r - 1)) with (h - r) in Hb by lia.
  rewrite add64 by lia. cbn [obind]. rewrite bget_ok by lia. f_equal.
  pose proof (Hc (r - 1) (s_x s) Hx) as Hcc. replace (h - 1 - (r - 1)) with (h - r) in Hcc by lia.
  assert (Hrw : r * w = (r - 1) * w + w) by (replace r with (r - 1 + 1) at 1 by lia; lia).
  rewrite Hcc by lia. f_equal. lia.
Qed.

Lemma above_row fg r out s : inl fg r out s -> s_x s < w ->
  above w out = if r =? 0 then None else Some (nth (N.to_nat (nlen out - w)) out 0).
Proof.
  intros [Hp Hn Hc Hl Hm] Hx. unfold above.
  assert (E0 : 0 <? w = true) by (apply N.ltb_lt; lia). rewrite E0. cbn [andb].
  destruct (r =? 0) eqn:Er.
  - apply N.eqb_eq in Er. subst r. assert (E : w <=? nlen out = false) by (apply N.leb_gt; lia). rewrite E. reflexivity.
  - apply N.eqb_neq in Er. assert (1 * w <= r * w) by (apply N.mul_le_mono_r; lia).
    assert (E : w <=? nlen out = true) by (apply N.leb_le; lia). rewrite E. reflexivity.
Qed.

(* the four plain expressions *)
Lemma body_const fg r v : body_px fg r (b_const p v) (fun _ => v) keep_input no_input.
Proof.
  intros out s Hi Hx Hc _. unfold keep_input, no_input. rewrite set_inp_same. split; [|exact I].
  unfold b_const. eapply wr_eq; eauto.
Qed.

Lemma body_bg fg r : body_px fg r (if r =? 0 then b_const p 0 else b_copy p ((h - r) * w)) (bg_px w) keep_input no_input.
Proof.
  intros out s Hi Hx Hc _. unfold keep_input, no_input. rewrite set_inp_same. split; [|exact I]. unfold bg_px. rewrite (above_row fg r out s Hi Hx).
  destruct (r =? 0) eqn:Er.
  - unfold b_const. eapply wr_eq; eauto.
  - apply N.eqb_neq in Er. unfold b_copy. rewrite (rd_eq fg r out s Hi Hx) by lia. cbn [obind]. eapply wr_eq; eauto.
Qed.

Lemma body_fg fg r : body_px fg r (if r =? 0 then b_mix p else b_mixprev p ((h - r) * w)) (fg_px w fg) keep_input no_input.
Proof.
  intros out s Hi Hx Hc _. unfold keep_input, no_input. rewrite set_inp_same. split; [|exact I]. unfold fg_px. rewrite (above_row fg r out s Hi Hx).
  pose proof (il_mix _ _ _ _ Hi) as Hm.
  destruct (r =? 0) eqn:Er.
  - unfold b_mix. rewrite Hm. eapply wr_eq; eauto.
  - apply N.eqb_neq in Er. unfold b_mixprev. rewrite (rd_eq fg r out s Hi Hx) by lia. cbn [obind]. rewrite Hm.
    eapply wr_eq; eauto.
Qed.

(* ---- the macro, with contents *)
Section Rep.
Variable fg r : N.
Variable body : st -> outcome st.
Variable px : list N -> N.
Variable istep : bytes -> bytes.
Variable Iinv : list N -> bytes -> N -> Prop.
Hypothesis Hbody : body_px fg r body px istep Iinv.

Definition after (n : nat) (out : list N) (s s' : st) : Prop :=
  inl fg r (run n px out) s' /\ s_x s' = s_x s + N.of_nat n /\ s_cnt s' + N.of_nat n = s_cnt s /\ same_params s s' /\
  s_inp s' = Nat.iter n istep (s_inp s) /\ Iinv (run n px out) (s_inp s') (s_cnt s').

Lemma inl_written out s v x' c' i' :
  inl fg r out s -> s_x s < w -> x' = s_x s + 1 ->
  inl fg r (out ++ [v]) (set_x (set_cnt (set_out (set_inp s i') (bset_raw (s_out s) ((h - 1 - r) * w + s_x s) v)) c') x').
Proof.
  intros [Hp Hn Hc Hl Hm] Hx ->. destruct Hp as [P1 P2 P3 P4 P5 P6].
  constructor; prj.
  - constructor; prj; auto. lia.
  - rewrite nlen_app, nlen_cons, nlen_nil. lia.
  - apply cont_snoc; auto.
  - rewrite blen_bset_raw. exact Hl.
  - exact Hm.
Qed.

Lemma after_refl out s : inl fg r out s -> Iinv out (s_inp s) (s_cnt s) -> after 0 out s s.
Proof. intros Hi HI. unfold after. cbn [run Nat.iter nat_rect]. fin. apply same_params_refl. Qed.

Lemma after_trans a b out s s1 s2 :
  after a out s s1 -> after b (run a px out) s1 s2 -> after (a + b) out s s2.
Proof.
  intros (Hi1 & Hx1 & Hc1 & Hp1 & Hn1 & HI1) (Hi2 & Hx2 & Hc2 & Hp2 & Hn2 & HI2).
  unfold after. rewrite run_add. fin.
  - eapply same_params_trans; eauto.
  - rewrite Hn2, Hn1. symmetry. apply iter_plus.
Qed.

Lemma step_eq out s : inl fg r out s -> s_x s < w -> 1 <= s_cnt s -> Iinv out (s_inp s) (s_cnt s) ->
  exists s', step p body s = Ok s' /\ after 1 out s s'.
Proof.
  intros Hi Hx Hc HI. unfold step. destruct (Hbody out s Hi Hx Hc HI) as [Eb HI']. rewrite Eb. cbn [obind]. prj.
  rewrite sub32 by lia. cbn [obind].
  pose proof (ps_xw _ _ _ (il_pos _ _ _ _ Hi)).
  rewrite add64 by lia. cbn [obind].
  eexists. split; [reflexivity|]. unfold after. cbn [run Nat.iter nat_rect]. split; [apply inl_written; auto|].
  prj. fin. unfold same_params. prj. fin.
Qed.

Lemma steps_eq : forall n out s, inl fg r out s -> s_x s + N.of_nat n <= w -> N.of_nat n <= s_cnt s ->
  Iinv out (s_inp s) (s_cnt s) ->
  exists s', steps p n body s = Ok s' /\ after n out s s'.
Proof.
  induction n as [|n IH]; intros out s Hi Hx Hc HI.
  - cbn [steps]. exists s. split; [reflexivity|]. apply after_refl; assumption.
  - cbn [steps]. destruct (step_eq out s Hi ltac:(lia) ltac:(lia) HI) as (s1 & -> & Ha1).
    cbn [obind]. pose proof Ha1 as (Hi1 & Hx1 & Hc1 & Hp1 & Hn1 & HI1). cbn [run] in Hi1, HI1.
    destruct (IH (out ++ [px out]) s1 Hi1 ltac:(lia) ltac:(lia) HI1) as (s2 & E2 & Ha2).
    exists s2. split; [exact E2|]. change (S n) with (1 + n)%nat. eapply after_trans; eauto.
Qed.

Lemma rep_blk_eq : forall fuel out s, inl fg r out s -> (N.to_nat (w - s_x s) < fuel)%nat ->
  Iinv out (s_inp s) (s_cnt s) ->
  exists j s', rep_blk p w fuel body s = Ok s' /\ after j out s s' /\ N.of_nat j <= s_cnt s.
Proof.
  induction fuel as [|k IH]; intros out s Hi Hf HI; [lia|].
  cbn [rep_blk].
  assert (Hrefl : exists j s', Ok s = Ok s' /\ after j out s s' /\ N.of_nat j <= s_cnt s).
  { exists O, s. split; [reflexivity|]. split; [apply after_refl; assumption|lia]. }
  destruct (8 <=? s_cnt s) eqn:E8; [|exact Hrefl]. apply N.leb_le in E8.
  pose proof (ps_xw _ _ _ (il_pos _ _ _ _ Hi)) as Hxw.
  rewrite add64 by lia. cbn [obind].
  destruct (s_x s + 8 <? w) eqn:Ex; [|exact Hrefl]. apply N.ltb_lt in Ex.
  destruct (steps_eq 8 out s Hi ltac:(cbn; lia) ltac:(cbn; lia) HI) as (s1 & -> & Ha1).
  cbn [obind]. pose proof Ha1 as (Hi1 & Hx1 & Hc1 & Hp1 & Hn1 & HI1). cbn in Hx1, Hc1.
  destruct (IH (run 8 px out) s1 Hi1 ltac:(lia) HI1) as (j & s2 & E2 & Ha2 & Hj).
  exists (8 + j)%nat, s2. split; [exact E2|]. split; [eapply after_trans; eauto|lia].
Qed.

Lemma rep_tail_eq : forall fuel out s, inl fg r out s -> (N.to_nat (w - s_x s) < fuel)%nat ->
  Iinv out (s_inp s) (s_cnt s) ->
  exists s', rep_tail p w fuel body s = Ok s' /\ after (N.to_nat (N.min (s_cnt s) (w - s_x s))) out s s'.
Proof.
  induction fuel as [|k IH]; intros out s Hi Hf HI; [lia|].
  cbn [rep_tail].
  pose proof (ps_xw _ _ _ (il_pos _ _ _ _ Hi)) as Hxw.
  destruct (0 <? s_cnt s) eqn:E0; cbn [andb].
  - apply N.ltb_lt in E0. destruct (s_x s <? w) eqn:Ex.
    + apply N.ltb_lt in Ex.
      destruct (step_eq out s Hi Ex ltac:(lia) HI) as (s1 & -> & Ha1). cbn [obind].
      pose proof Ha1 as (Hi1 & Hx1 & Hc1 & Hp1 & Hn1 & HI1). cbn [run] in Hi1, HI1.
      destruct (IH (out ++ [px out]) s1 Hi1 ltac:(lia) HI1) as (s2 & E2 & Ha2).
      exists s2. split; [exact E2|].
      replace (N.to_nat (N.min (s_cnt s) (w - s_x s))) with (1 + N.to_nat (N.min (s_cnt s1) (w - s_x s1)))%nat by lia.
      eapply after_trans; eauto.
    + apply N.ltb_ge in Ex. exists s. split; [reflexivity|].
      replace (N.to_nat (N.min (s_cnt s) (w - s_x s))) with O by lia. apply after_refl; assumption.
  - apply N.ltb_ge in E0. exists s. split; [reflexivity|].
    replace (N.to_nat (N.min (s_cnt s) (w - s_x s))) with O by lia. apply after_refl; assumption.
Qed.

Lemma repeat_eq out s : inl fg r out s -> Iinv out (s_inp s) (s_cnt s) ->
  exists s', repeat_m p w body s = Ok s' /\ after (N.to_nat (N.min (s_cnt s) (w - s_x s))) out s s'.
Proof.
  intros Hi HI. unfold repeat_m.
  destruct (rep_blk_eq (S (N.to_nat w)) out s Hi ltac:(lia) HI) as (j & s1 & -> & Ha1 & Hj).
  cbn [obind]. pose proof Ha1 as (Hi1 & Hx1 & Hc1 & Hp1 & Hn1 & HI1).
  destruct (rep_tail_eq (S (N.to_nat w)) (run j px out) s1 Hi1 ltac:(lia) HI1) as (s2 & E2 & Ha2).
  exists s2. split; [exact E2|].
  pose proof (ps_xw _ _ _ (il_pos _ _ _ _ Hi1)) as Hxw.
  replace (N.to_nat (N.min (s_cnt s) (w - s_x s))) with (j + N.to_nat (N.min (s_cnt s1) (w - s_x s1)))%nat by lia.
  eapply after_trans; eauto.
Qed.

End Rep.


(* ---- colour image: the pixels come from the input *)
Definition Iimg (n0 : N) (pixels : list N) (rest : bytes) (out : list N) (inp : bytes) (cnt : N) : Prop :=
  exists pre post, pixels = pre ++ post /\ nlen out = n0 + nlen pre /\ nlen post = cnt /\ inp = le16s post ++ rest.
Definition px_img (n0 : N) (pixels : list N) (out : list N) : N := nth (N.to_nat (nlen out - n0)) pixels 0.

Lemma le16_roundtrip v : v < 65536 -> of_le16 (u16_lo v) (u16_hi v) = v.
Proof.
  intros Hv. unfold of_le16, u16_lo, u16_hi.
  pose proof (N.div_mod v 256 ltac:(lia)) as Hdm.
  assert (Hq : v / 256 < 256) by (apply N.div_lt_upper_bound; lia).
  rewrite (N.mod_small (v / 256) 256) by exact Hq. lia.
Qed.

Lemma body_img fg r n0 pixels rest : Forall (fun v => v < 65536) pixels ->
  body_px fg r (b_colimg p) (px_img n0 pixels) (skipn 2) (Iimg n0 pixels rest).
Proof.
  intros Hpix out s Hi Hx Hc (pre & post & Hpp & Hn & Hpost & Hinp).
  destruct post as [|v post]; [rewrite nlen_nil in Hpost; lia|].
  assert (Hv : v < 65536).
  { apply (proj1 (Forall_forall _ _) Hpix). rewrite Hpp. apply in_or_app. right. left. reflexivity. }
  unfold b_colimg. rewrite Hinp. cbn [le16s flat_map le16 app read_u16le]. rewrite le16_roundtrip by exact Hv.
  assert (Hi' : inl fg r out (set_inp s (flat_map le16 post ++ rest))).
  { destruct Hi as [[Q1 Q2 Q3 Q4 Q5 Q6] Q7 Q8 Q9 Q10]. constructor; [constructor|..]; prj; auto. }
  rewrite (wr_eq fg r out _ v Hi') by (prj; exact Hx). prj. cbn [skipn].
  assert (Hpx : px_img n0 pixels out = v).
  { unfold px_img. rewrite Hpp, Hn. replace (n0 + nlen pre - n0) with (nlen pre) by lia.
    rewrite app_nth2 by (unfold nlen; lia). replace (N.to_nat (nlen pre) - length pre)%nat with O by (unfold nlen; lia). reflexivity. }
  rewrite Hpx. split; [reflexivity|].
  exists (pre ++ [v]), post. rewrite <- app_assoc. split; [exact Hpp|].
  rewrite !nlen_app, !nlen_cons, nlen_nil. rewrite nlen_cons in Hpost. split; [lia|]. split; [lia|]. reflexivity.
Qed.

(* ---- between orders: the decoder is lazy about starting a new line *)
Definition lazy (fg : N) (out : list N) (s : st) : Prop :=
  blen (s_out s) = L /\ cont out (s_out s) /\ s_mix s = fg /\
  ((out = [] /\ s_x s = w /\ s_line s = None /\ s_prev s = None /\ s_hgt s = h) \/
   (exists r, pos r (s_x s) s /\ nlen out = r * w + s_x s /\ 1 <= s_x s)).

Lemma inl_lazy fg r out s : inl fg r out s -> 1 <= s_x s -> lazy fg out s.
Proof. intros [Hp Hn Hc Hl Hm] Hx. unfold lazy. fin. right. exists r. auto. Qed.

Definition meas (s : st) : nat := (N.to_nat (s_hgt s) + (if N.ltb (s_x s) w then 1 else 0))%nat.

Lemma next_line_eq fg out s : lazy fg out s -> nlen out < w * h ->
  exists r s1, next_line p w s = Ok s1 /\ inl fg r out s1 /\ s_x s1 < w /\ s_cnt s1 = s_cnt s /\ same_params s s1 /\
               s_inp s1 = s_inp s /\
               (if w <=? s_x s then s_hgt s1 + 1 = s_hgt s else s_hgt s1 = s_hgt s).
Proof.
  intros (Hl & Hc & Hm & Hcase) Hn. unfold next_line.
  destruct Hcase as [(-> & Hx & Hline & Hprev & Hhgt)|(r & Hp & Hnr & _)].
  - (* nothing written yet *)
    rewrite Hx. rewrite N.leb_refl. rewrite Hhgt.
    assert (Hh0 : 0 < h). { destruct (N.eq_dec h 0) as [->|]; [rewrite N.mul_0_r, nlen_nil in Hn; lia|lia]. }
    assert (E : h <=? 0 = false) by (apply N.leb_gt; lia). rewrite E.
    rewrite sub64 by lia. cbn [obind].
    assert ((h - 1) * w <= h * w) by (apply N.mul_le_mono_r; lia).
    rewrite mul64 by lia. cbn [obind].
    exists 0, (set_newline s (h - 1) ((h - 1) * w)). split; [reflexivity|].
    split.
    + constructor; prj; auto; try (rewrite nlen_nil; lia).
      constructor; prj; auto; try lia; try (f_equal; f_equal; lia).
    + prj. fin. unfold same_params. prj. fin.
  - destruct Hp as [P1 P2 P3 P4 P5 P6].
    destruct (w <=? s_x s) eqn:Ew.
    + apply N.leb_le in Ew. assert (Hxw : s_x s = w) by lia.
      assert (Hr1 : r + 1 < h).
      { destruct (N.lt_ge_cases (r + 1) h) as [Hlt|Hge]; [exact Hlt|].
        assert (h * w <= (r + 1) * w) by (apply N.mul_le_mono_r; lia). lia. }
      rewrite P4. assert (E : h - 1 - r <=? 0 = false) by (apply N.leb_gt; lia). rewrite E.
      rewrite sub64 by lia. cbn [obind].
      assert ((h - 1 - r - 1) * w <= h * w) by (apply N.mul_le_mono_r; lia).
      rewrite mul64 by lia. cbn [obind].
      exists (r + 1), (set_newline s (h - 1 - r - 1) ((h - 1 - r - 1) * w)). split; [reflexivity|].
      split.
      * assert (E1 : r + 1 =? 0 = false) by (apply N.eqb_neq; lia).
        constructor; prj; auto; try lia.
        constructor; prj; auto; try lia; try (f_equal; f_equal; lia).
        rewrite E1, P5. f_equal. f_equal. lia.
      * prj. fin. unfold same_params. prj. fin.
    + apply N.leb_gt in Ew.
      exists r, s. split; [reflexivity|]. split.
      * constructor; auto. constructor; auto.
      * fin. apply same_params_refl.
Qed.

(* ---- a whole run: `while count > 0 { new line if needed; handler }` *)
Section Loop.
Variable fg : N.
Variables op fom : N.
Variable px : list N -> N.
Variable istep : bytes -> bytes.
Variable Iinv : list N -> bytes -> N -> Prop.
Variable K : st -> Prop.
Hypothesis HK : forall s s', K s -> same_params s s' -> K s'.
Hypothesis Hop : forall r out s, inl fg r out s -> K s ->
  exists body, handler p w op fom s = repeat_m p w body s /\ body_px fg r body px istep Iinv.

Lemma run_loop : forall fuel out s,
  lazy fg out s -> K s -> Iinv out (s_inp s) (s_cnt s) -> nlen out + s_cnt s <= w * h ->
  (s_cnt s = 0 /\ (1 <= fuel)%nat) \/ (meas s < fuel)%nat ->
  exists s', cnt_loop p w fuel op fom s = Ok s' /\ lazy fg (run (N.to_nat (s_cnt s)) px out) s' /\
             same_params s s' /\ s_cnt s' = 0 /\ s_inp s' = Nat.iter (N.to_nat (s_cnt s)) istep (s_inp s).
Proof.
  induction fuel as [|k IH]; intros out s Hlz HKs HI Hn Hf; [lia|].
  cbn [cnt_loop]. destruct (0 <? s_cnt s) eqn:E0.
  2:{ apply N.ltb_ge in E0. assert (Ez : s_cnt s = 0) by lia. rewrite Ez. cbn [N.to_nat run Nat.iter nat_rect].
      exists s. fin. apply same_params_refl. }
  apply N.ltb_lt in E0. destruct Hf as [Hf|Hf]; [lia|].
  destruct (next_line_eq fg out s Hlz ltac:(lia)) as (r & s1 & -> & Hi1 & Hx1 & Hc1 & Hp1 & Hn1 & Hh1).
  cbn [obind].
  destruct (Hop r out s1 Hi1 (HK _ _ HKs Hp1)) as (body & -> & Hbody).
  destruct (repeat_eq fg r body px istep Iinv Hbody out s1 Hi1) as (s2 & -> & Ha2); [rewrite Hn1, Hc1; exact HI|].
  cbn [obind]. destruct Ha2 as (Hi2 & Hx2 & Hc2 & Hp2 & Hn2 & HI2).
  set (kk := N.to_nat (N.min (s_cnt s1) (w - s_x s1))) in *.
  assert (Hkk : (1 <= kk)%nat) by lia.
  assert (Hk2 : nlen (run kk px out) = nlen out + N.of_nat kk) by apply nlen_run.
  destruct (IH (run kk px out) s2 (inl_lazy _ _ _ _ Hi2 ltac:(lia))) as (s3 & E3 & Hlz3 & Hp3 & Hc3 & Hn3).
  - eapply HK; [|exact Hp2]. eapply HK; eauto.
  - exact HI2.
  - lia.
  - (* fuel *)
    unfold meas in *.
    destruct (N.eq_dec (s_cnt s2) 0) as [Hz|Hnz]; [left; split; [exact Hz|]|right].
    + destruct (w <=? s_x s) eqn:Ew.
      * apply N.leb_le in Ew. destruct (N.ltb (s_x s) w) eqn:Ex; [apply N.ltb_lt in Ex; lia|]. lia.
      * apply N.leb_gt in Ew. destruct (N.ltb (s_x s) w) eqn:Ex; [|apply N.ltb_ge in Ex; lia]. lia.
    + assert (Hx2w : s_x s2 = w) by lia.
      pose proof (ps_h _ _ _ (il_pos _ _ _ _ Hi2)) as Hh2. pose proof (ps_h _ _ _ (il_pos _ _ _ _ Hi1)) as Hh1'.
      destruct (N.ltb (s_x s2) w) eqn:Ex2; [apply N.ltb_lt in Ex2; lia|].
      destruct (w <=? s_x s) eqn:Ew.
      * apply N.leb_le in Ew. destruct (N.ltb (s_x s) w) eqn:Ex; [apply N.ltb_lt in Ex; lia|]. lia.
      * apply N.leb_gt in Ew. destruct (N.ltb (s_x s) w) eqn:Ex; [|apply N.ltb_ge in Ex; lia]. lia.
  - exists s3. split; [exact E3|].
    replace (N.to_nat (s_cnt s)) with (kk + N.to_nat (s_cnt s2))%nat by lia.
    rewrite run_add. split; [exact Hlz3|]. split.
    + eapply same_params_trans; [exact Hp1|]. eapply same_params_trans; eauto.
    + split; [exact Hc3|]. rewrite Hn3, Hn2, Hn1. symmetry. apply iter_plus.
Qed.

End Loop.


(* ---- the handlers of the plain orders are the macro applied to one of the expressions above *)
Lemma hop_bg fg fom r out s : inl fg r out s -> s_insmix s = false ->
  exists body, handler p w 0 fom s = repeat_m p w body s /\ body_px fg r body (bg_px w) keep_input no_input.
Proof.
  intros Hi Hins. exists (if r =? 0 then b_const p 0 else b_copy p ((h - r) * w)). split; [|apply body_bg].
  unfold handler. change (0 =? 0) with true. cbv iota. rewrite Hins. cbn [obind].
  rewrite (ps_prev _ _ _ (il_pos _ _ _ _ Hi)). destruct (r =? 0); reflexivity.
Qed.

Lemma hop_fg fg fom r out s : inl fg r out s -> True ->
  exists body, handler p w 1 fom s = repeat_m p w body s /\ body_px fg r body (fg_px w fg) keep_input no_input.
Proof.
  intros Hi _. exists (if r =? 0 then b_mix p else b_mixprev p ((h - r) * w)). split; [|apply body_fg].
  unfold handler. change (1 =? 0) with false. change (1 =? 1) with true. cbv iota.
  rewrite (ps_prev _ _ _ (il_pos _ _ _ _ Hi)). destruct (r =? 0); reflexivity.
Qed.

Lemma hop_col fg fom c r out s : inl fg r out s -> s_c2 s = c ->
  exists body, handler p w 3 fom s = repeat_m p w body s /\ body_px fg r body (fun _ => c) keep_input no_input.
Proof.
  intros Hi Hc. exists (b_const p c). split; [|apply body_const].
  unfold handler. change (3 =? 0) with false. change (3 =? 1) with false. change (3 =? 2) with false.
  change (3 =? 3) with true. cbv iota. rewrite Hc. reflexivity.
Qed.

Lemma hop_img fg fom n0 pixels rest r out s : Forall (fun v => v < 65536) pixels -> inl fg r out s -> True ->
  exists body, handler p w 4 fom s = repeat_m p w body s /\ body_px fg r body (px_img n0 pixels) (skipn 2) (Iimg n0 pixels rest).
Proof.
  intros Hpix Hi _. exists (b_colimg p). split; [|apply body_img; exact Hpix]. reflexivity.
Qed.

Lemma hop_white fg fom r out s : inl fg r out s -> True ->
  exists body, handler p w 13 fom s = repeat_m p w body s /\ body_px fg r body (fun _ => 65535) keep_input no_input.
Proof. intros Hi _. exists (b_const p 65535). split; [reflexivity|apply body_const]. Qed.

Lemma hop_black fg fom r out s : inl fg r out s -> True ->
  exists body, handler p w 14 fom s = repeat_m p w body s /\ body_px fg r body (fun _ => 0) keep_input no_input.
Proof. intros Hi _. exists (b_const p 0). split; [reflexivity|apply body_const]. Qed.

Lemma iter_keep n (i : bytes) : Nat.iter n keep_input i = i.
Proof. induction n as [|n IH]; [reflexivity|]. simpl. rewrite IH. reflexivity. Qed.

(* ---- background run whose first pixel is the inserted foreground pixel *)
Lemma bg_insert_loop fg fom : forall fuel out s,
  lazy fg out s -> s_insmix s = true -> 1 <= s_cnt s -> nlen out + s_cnt s <= w * h -> (meas s < fuel)%nat ->
  exists s', cnt_loop p w fuel 0 fom s = Ok s' /\
             lazy fg (run (N.to_nat (s_cnt s) - 1) (bg_px w) (out ++ [fg_px w fg out])) s' /\
             s_insmix s' = false /\ s_lastop s' = s_lastop s /\ s_cnt s' = 0 /\ s_inp s' = s_inp s.
Proof.
  intros fuel out s Hlz Hins Hc Hn Hf. destruct fuel as [|k]; [lia|].
  cbn [cnt_loop]. assert (E0 : 0 <? s_cnt s = true) by (apply N.ltb_lt; lia). rewrite E0.
  destruct (next_line_eq fg out s Hlz ltac:(lia)) as (r & s1 & -> & Hi1 & Hx1 & Hc1 & Hp1 & Hn1 & Hh1).
  cbn [obind].
  pose proof Hp1 as (Q1 & Q2 & Q3 & Q4 & Q5 & Q6).
  (* the inserted pixel *)
  unfold handler. change (0 =? 0) with true. cbv iota. rewrite Q2, Hins.
  pose proof (body_fg fg r out s1 Hi1 Hx1 ltac:(lia) I) as [Eb _]. unfold keep_input in Eb. rewrite set_inp_same in Eb.
  assert (Ebody : match s_prev s1 with Some e => b_mixprev p e s1 | None => b_mix p s1 end =
                  Ok (set_out s1 (bset_raw (s_out s1) ((h - 1 - r) * w + s_x s1) (fg_px w fg out)))).
  { rewrite (ps_prev _ _ _ (il_pos _ _ _ _ Hi1)). destruct (r =? 0); exact Eb. }
  rewrite Ebody. cbn [obind]. prj.
  rewrite sub32 by lia. cbn [obind].
  pose proof (ps_xw _ _ _ (il_pos _ _ _ _ Hi1)) as Hxw.
  rewrite add64 by lia. cbn [obind].
  set (v := fg_px w fg out).
  set (s1' := set_x (set_cnt (set_insmix (set_out s1 (bset_raw (s_out s1) ((h - 1 - r) * w + s_x s1) v)) false) (s_cnt s1 - 1)) (s_x s1 + 1)).
  assert (Hi1' : inl fg r (out ++ [v]) s1').
  { destruct Hi1 as [[P1 P2 P3 P4 P5 P6] Hnn Hcc Hll Hmm]. subst s1'. constructor; [constructor|..]; prj; auto; try lia;
      try (rewrite nlen_app, nlen_cons, nlen_nil; lia); try (apply cont_snoc; auto; fail);
      try (rewrite blen_bset_raw; exact Hll). }
  assert (Hins1' : s_insmix s1' = false) by (subst s1'; prj; reflexivity).
  destruct (hop_bg fg fom r (out ++ [v]) s1' Hi1' Hins1') as (body & Eh & Hbody).
  unfold handler in Eh. change (0 =? 0) with true in Eh. cbv iota in Eh. rewrite Hins1' in Eh. cbn [obind] in Eh.
  rewrite Eh.
  destruct (repeat_eq fg r body (bg_px w) keep_input no_input Hbody (out ++ [v]) s1' Hi1' I) as (s2 & -> & Ha2).
  cbn [obind]. destruct Ha2 as (Hi2 & Hx2 & Hc2 & Hp2 & Hn2 & _).
  set (kk := N.to_nat (N.min (s_cnt s1') (w - s_x s1'))) in *.
  assert (Hx1' : s_x s1' = s_x s1 + 1) by (subst s1'; prj; reflexivity).
  assert (Hc1' : s_cnt s1' = s_cnt s1 - 1) by (subst s1'; prj; reflexivity).
  assert (Hh1' : s_hgt s1' = s_hgt s1) by (subst s1'; prj; reflexivity).
  assert (Hl1' : s_lastop s1' = s_lastop s1) by (subst s1'; prj; reflexivity).
  assert (Hnp1' : s_inp s1' = s_inp s1) by (subst s1'; prj; reflexivity).
  pose proof Hp2 as (R1 & R2 & R3 & R4 & R5 & R6).
  assert (Hk2 : nlen (run kk (bg_px w) (out ++ [v])) = nlen out + 1 + N.of_nat kk).
  { rewrite nlen_run, nlen_app, nlen_cons, nlen_nil. lia. }
  assert (HK' : forall sa sb, s_insmix sa = false -> same_params sa sb -> s_insmix sb = false)
    by (intros sa sb Ha (_ & Hb & _); congruence).
  assert (Hop' : forall r0 out0 s0, inl fg r0 out0 s0 -> s_insmix s0 = false ->
            exists body, handler p w 0 fom s0 = repeat_m p w body s0 /\ body_px fg r0 body (bg_px w) keep_input no_input)
    by (intros r0 out0 s0 Hi0 Hk0; apply (hop_bg fg fom r0 out0 s0 Hi0 Hk0)).
  destruct (run_loop fg 0 fom (bg_px w) keep_input no_input (fun s => s_insmix s = false) HK' Hop'
                     k (run kk (bg_px w) (out ++ [v])) s2) as (s3 & E3 & Hlz3 & Hp3 & Hc3 & Hn3).
  - apply (inl_lazy _ _ _ _ Hi2). lia.
  - congruence.
  - exact I.
  - lia.
  - unfold meas in *.
    pose proof (ps_h _ _ _ (il_pos _ _ _ _ Hi2)) as Hh2. pose proof (ps_h _ _ _ (il_pos _ _ _ _ Hi1')) as Hh1''.
    destruct (N.eq_dec (s_cnt s2) 0) as [Hz|Hnz]; [left; split; [exact Hz|]|right].
    + destruct (w <=? s_x s) eqn:Ew.
      * apply N.leb_le in Ew. destruct (N.ltb (s_x s) w) eqn:Ex; [apply N.ltb_lt in Ex; lia|]. lia.
      * apply N.leb_gt in Ew. destruct (N.ltb (s_x s) w) eqn:Ex; [|apply N.ltb_ge in Ex; lia]. lia.
    + assert (Hx2w : s_x s2 = w) by lia.
      destruct (N.ltb (s_x s2) w) eqn:Ex2; [apply N.ltb_lt in Ex2; lia|].
      destruct (w <=? s_x s) eqn:Ew.
      * apply N.leb_le in Ew. destruct (N.ltb (s_x s) w) eqn:Ex; [apply N.ltb_lt in Ex; lia|]. lia.
      * apply N.leb_gt in Ew. destruct (N.ltb (s_x s) w) eqn:Ex; [|apply N.ltb_ge in Ex; lia]. lia.
  - exists s3. split; [exact E3|].
    replace (N.to_nat (s_cnt s) - 1)%nat with (kk + N.to_nat (s_cnt s2))%nat by lia.
    rewrite run_add. split; [exact Hlz3|].
    destruct Hp3 as (T1 & T2 & T3 & T4 & T5 & T6).
    split; [congruence|]. split; [congruence|]. split; [exact Hc3|].
    rewrite Hn3, iter_keep, Hn2, iter_keep. congruence.
Qed.


(* ---- order headers: what decode_header / extend_count make of every legal form *)
Ltac kill_eqb :=
  repeat match goal with
         | |- context [?a =? ?b] =>
             let E := fresh "E" in
             destruct (a =? b) eqn:E; [apply N.eqb_eq in E; try lia | apply N.eqb_neq in E; try lia]
         end.
Ltac kill_ltb :=
  repeat match goal with
         | |- context [?a <? ?b] =>
             let E := fresh "E" in
             destruct (a <? b) eqn:E; [apply N.ltb_lt in E; try lia | apply N.ltb_ge in E; try lia]
         end.

Lemma divmod_add c q n : 0 < c -> n < c -> (q * c + n) / c = q /\ (q * c + n) mod c = n.
Proof.
  intros Hc Hn. split.
  - rewrite N.div_add_l by lia. rewrite N.div_small by exact Hn. lia.
  - rewrite N.add_comm, N.mod_add by lia. apply N.mod_small. exact Hn.
Qed.

Lemma dh_reg code inp : code < 192 -> decode_header code inp = Ok (code / 32, code mod 32, 32, inp).
Proof.
  intros Hc. unfold decode_header.
  assert (H16 : code / 16 < 12) by (apply N.div_lt_upper_bound; lia).
  assert (E : forall k, 12 <= k -> (code / 16 =? k) = false) by (intros k Hk; apply N.eqb_neq; lia).
  rewrite !E by lia. cbn [orb].
  rewrite N.div_div by lia. reflexivity.
Qed.

Lemma dh_lite code inp : 192 <= code -> code < 240 -> decode_header code inp = Ok (code / 16 - 6, code mod 16, 16, inp).
Proof.
  intros H1 H2. unfold decode_header.
  assert (Hlo : 12 <= code / 16) by (apply N.div_le_lower_bound; lia).
  assert (Hhi : code / 16 < 15) by (apply N.div_lt_upper_bound; lia).
  assert (Hor : (code / 16 =? 12) || (code / 16 =? 13) || (code / 16 =? 14) = true).
  { assert (Hc : code / 16 = 12 \/ code / 16 = 13 \/ code / 16 = 14) by lia.
    destruct Hc as [->|[->| ->]]; reflexivity. }
  rewrite Hor. reflexivity.
Qed.

Lemma read_le16 n rest : n < 65536 -> read_u16le (le16 n ++ rest) = Ok (n, rest).
Proof. intros Hn. cbn [le16 app read_u16le]. rewrite le16_roundtrip by exact Hn. reflexivity. Qed.

Lemma dh_mega k n rest : k < 9 -> n < 65536 -> decode_header (240 + k) (le16 n ++ rest) = Ok (k, n, 0, rest).
Proof.
  intros Hk Hn. unfold decode_header.
  destruct (divmod_add 16 15 k ltac:(lia) ltac:(lia)) as [Hd Hm]. change (15 * 16) with 240 in Hd, Hm.
  rewrite Hd, Hm. cbn [N.eqb Pos.eqb orb].
  assert (E : k <? 9 = true) by (apply N.ltb_lt; lia). rewrite E. rewrite read_le16 by exact Hn. reflexivity.
Qed.

Lemma dh_special k inp : 11 <= k -> k < 16 -> decode_header (240 + k) inp = Ok (k, 1, 0, inp).
Proof.
  intros H1 H2. unfold decode_header.
  destruct (divmod_add 16 15 k ltac:(lia) ltac:(lia)) as [Hd Hm]. change (15 * 16) with 240 in Hd, Hm.
  rewrite Hd, Hm. cbn [N.eqb Pos.eqb orb].
  assert (E : k <? 9 = false) by (apply N.ltb_ge; lia). rewrite E.
  assert (E' : k <? 11 = false) by (apply N.ltb_ge; lia). rewrite E'. reflexivity.
Qed.

Lemma ec_plain op cnt off inp : op <> 2 -> op <> 7 -> off <> 0 -> cnt <> 0 -> extend_count p op cnt off inp = Ok (cnt, inp).
Proof.
  intros H2 H7 Ho Hc. unfold extend_count.
  apply N.eqb_neq in H2, H7, Ho, Hc. rewrite H2, H7, Ho, Hc. reflexivity.
Qed.

Lemma ec_ext op off b inp : op <> 2 -> op <> 7 -> off <> 0 -> b + off < 4294967296 ->
  extend_count p op 0 off (b :: inp) = Ok (b + off, inp).
Proof.
  intros H2 H7 Ho Hb. unfold extend_count.
  apply N.eqb_neq in H2, H7, Ho. rewrite H2, H7, Ho. cbn [negb orb N.eqb read_u8].
  rewrite add32 by exact Hb. reflexivity.
Qed.

Lemma ec_mega op cnt inp : extend_count p op cnt 0 inp = Ok (cnt, inp).
Proof. reflexivity. Qed.

(* what the header of an ordinary run order decodes to, in each of its forms *)
Definition hdr_spec (op n : N) (hb rest : bytes) : Prop :=
  exists code t cnt0 off r1, hb = code :: t /\
    decode_header code (t ++ rest) = Ok (op, cnt0, off, r1) /\ extend_count p op cnt0 off r1 = Ok (n, rest).

Lemma hdr_reg f op n hb rest : op < 5 -> op <> 2 ->
  hdr_run f (op * 32) 31 32 (240 + op) n = Some hb -> hdr_spec op n hb rest /\ 1 <= n <= 65535.
Proof.
  intros Hop Hop2 Hhd. unfold hdr_spec. destruct f; cbn [hdr_run] in Hhd.
  - destruct ((1 <=? n) && (n <=? 31)) eqn:En; [|discriminate]. inversion Hhd; subst hb. clear Hhd.
    apply andb_true_iff in En. destruct En as [E1 E2]. apply N.leb_le in E1, E2.
    split; [|lia]. exists (op * 32 + n), [], n, 32, rest. split; [reflexivity|]. cbn [app].
    destruct (divmod_add 32 op n ltac:(lia) ltac:(lia)) as [Hd Hm].
    assert (op * 32 <= 4 * 32) by (apply N.mul_le_mono_r; lia).
    rewrite dh_reg by lia. rewrite Hd, Hm. split; [reflexivity|]. apply ec_plain; lia.
  - destruct ((32 <=? n) && (n <=? 32 + 255)) eqn:En; [|discriminate]. inversion Hhd; subst hb. clear Hhd.
    apply andb_true_iff in En. destruct En as [E1 E2]. apply N.leb_le in E1, E2.
    split; [|lia]. exists (op * 32), [n - 32], 0, 32, ((n - 32) :: rest). split; [reflexivity|]. cbn [app].
    destruct (divmod_add 32 op 0 ltac:(lia) ltac:(lia)) as [Hd Hm]. rewrite N.add_0_r in Hd, Hm.
    assert (op * 32 <= 4 * 32) by (apply N.mul_le_mono_r; lia).
    rewrite dh_reg by lia. rewrite Hd, Hm. split; [reflexivity|].
    rewrite ec_ext by lia. repeat f_equal. lia.
  - destruct ((1 <=? n) && (n <=? 65535)) eqn:En; [|discriminate]. inversion Hhd; subst hb. clear Hhd.
    apply andb_true_iff in En. destruct En as [E1 E2]. apply N.leb_le in E1, E2.
    split; [|lia]. exists (240 + op), (le16 n), n, 0, rest. split; [reflexivity|].
    rewrite dh_mega by lia. split; reflexivity.
Qed.

(* the lite form (SET-FG run: opcode 6) *)
Lemma hdr_lite6 f n hb rest :
  hdr_run f 192 15 16 246 n = Some hb -> hdr_spec 6 n hb rest /\ 1 <= n <= 65535.
Proof.
  intros Hhd. unfold hdr_spec. destruct f; cbn [hdr_run] in Hhd.
  - destruct ((1 <=? n) && (n <=? 15)) eqn:En; [|discriminate]. inversion Hhd; subst hb. clear Hhd.
    apply andb_true_iff in En. destruct En as [E1 E2]. apply N.leb_le in E1, E2.
    split; [|lia]. exists (192 + n), [], n, 16, rest. split; [reflexivity|]. cbn [app].
    destruct (divmod_add 16 12 n ltac:(lia) ltac:(lia)) as [Hd Hm]. change (12 * 16) with 192 in Hd, Hm.
    rewrite dh_lite by lia. rewrite Hd, Hm. split; [reflexivity|]. apply ec_plain; lia.
  - destruct ((16 <=? n) && (n <=? 16 + 255)) eqn:En; [|discriminate]. inversion Hhd; subst hb. clear Hhd.
    apply andb_true_iff in En. destruct En as [E1 E2]. apply N.leb_le in E1, E2.
    split; [|lia]. exists 192, [n - 16], 0, 16, ((n - 16) :: rest). split; [reflexivity|]. cbn [app].
    rewrite dh_lite by lia. split; [reflexivity|].
    rewrite ec_ext by lia. repeat f_equal. lia.
  - destruct ((1 <=? n) && (n <=? 65535)) eqn:En; [|discriminate]. inversion Hhd; subst hb. clear Hhd.
    apply andb_true_iff in En. destruct En as [E1 E2]. apply N.leb_le in E1, E2.
    split; [|lia]. exists 246, (le16 n), n, 0, rest. split; [reflexivity|].
    change 246 with (240 + 6). rewrite dh_mega by lia. split; reflexivity.
Qed.


(* ---- one order *)
Definition supported (o : RefRle.order) : bool :=
  match o with
  | OBg _ | OFg _ | OSetFg _ _ | OColor _ _ | OImage _ | OWhite | OBlack => true
  | _ => false
  end.

Definition Rel (ss : sstate) (s : st) : Prop :=
  lazy (ss_fg ss) (ss_out ss) s /\ (s_lastop s = 0 <-> ss_ins ss = true) /\ s_insmix s = false /\
  (ss_ins ss = true -> ss_out ss <> []).

Lemma lazy_ext fg fg' out s s' :
  lazy fg out s -> s_out s' = s_out s -> s_x s' = s_x s -> s_line s' = s_line s -> s_prev s' = s_prev s ->
  s_hgt s' = s_hgt s -> s_mix s' = fg' -> lazy fg' out s'.
Proof.
  intros (Hl & Hc & Hm & Hcase) E1 E2 E3 E4 E5 E6. unfold lazy. rewrite E1, E2, E3, E4, E5. fin.
  destruct Hcase as [H0|(r & [P1 P2 P3 P4 P5 P6] & Hn & Hx)]; [left; exact H0|right].
  exists r. split; [|split; assumption]. constructor; rewrite ?E2, ?E3, ?E4, ?E5; auto.
Qed.

Lemma order_unfold code s0 op cnt0 off r1 n r2 op' fom s1 :
  decode_header code (s_inp s0) = Ok (op, cnt0, off, r1) -> extend_count p op cnt0 off r1 = Ok (n, r2) ->
  order_params w op (set_inp s0 r2) = Ok (op', fom, s1) ->
  Rle16.order p w code s0 = cnt_loop p w (S (S (N.to_nat (s_hgt s1)))) op' fom (set_cnt (set_mixmask (set_lastop s1 op') 0) n).
Proof. intros E1 E2 E3. unfold Rle16.order. rewrite E1, E2, E3. reflexivity. Qed.

(* a plain run of n pixels from the state an order header leaves *)
Lemma plain_run fg op fom px istep Iinv (K : st -> Prop) out s1 n :
  (forall s s', K s -> same_params s s' -> K s') ->
  (forall r out s, inl fg r out s -> K s -> exists body, handler p w op fom s = repeat_m p w body s /\ body_px fg r body px istep Iinv) ->
  lazy fg out s1 -> K (set_cnt (set_mixmask (set_lastop s1 op) 0) n) -> Iinv out (s_inp s1) n -> nlen out + n <= w * h ->
  exists s', cnt_loop p w (S (S (N.to_nat (s_hgt s1)))) op fom (set_cnt (set_mixmask (set_lastop s1 op) 0) n) = Ok s' /\
             lazy fg (run (N.to_nat n) px out) s' /\ s_lastop s' = op /\ s_insmix s' = s_insmix s1 /\
             s_inp s' = Nat.iter (N.to_nat n) istep (s_inp s1).
Proof.
  intros HK Hop Hlz HKs HI Hn.
  set (s2 := set_cnt (set_mixmask (set_lastop s1 op) 0) n) in *.
  destruct (run_loop fg op fom px istep Iinv K HK Hop (S (S (N.to_nat (s_hgt s1)))) out s2) as (s' & E & Hlz' & Hp' & Hc' & Hi').
  - eapply lazy_ext; [exact Hlz|..]; subst s2; prj; try reflexivity. destruct Hlz as (_ & _ & Hm & _). exact Hm.
  - exact HKs.
  - subst s2. prj. exact HI.
  - subst s2. prj. exact Hn.
  - right. unfold meas. subst s2. prj. destruct (N.ltb (s_x s1) w); lia.
  - exists s'. split; [exact E|]. subst s2. prj. destruct Hp' as (T1 & T2 & _). prj. fin.
Qed.

Lemma nlen_le16s l : nlen (le16s l) = 2 * nlen l.
Proof. unfold nlen, le16s. rewrite (length_flat_map_block le16 2) by reflexivity. lia. Qed.

Lemma run_img n0 pixels : forall post pre out, pixels = pre ++ post -> nlen out = n0 + nlen pre ->
  run (length post) (px_img n0 pixels) out = out ++ post.
Proof.
  induction post as [|v post IH]; intros pre out Hp Hn; [cbn [length run]; rewrite app_nil_r; reflexivity|].
  cbn [length run].
  assert (Hv : px_img n0 pixels out = v).
  { unfold px_img. rewrite Hp, Hn. replace (n0 + nlen pre - n0) with (nlen pre) by lia.
    rewrite app_nth2 by (unfold nlen; lia). replace (N.to_nat (nlen pre) - length pre)%nat with O by (unfold nlen; lia). reflexivity. }
  rewrite Hv. rewrite (IH (pre ++ [v])).
  - rewrite <- app_assoc. reflexivity.
  - rewrite <- app_assoc. exact Hp.
  - rewrite !nlen_app, nlen_cons, nlen_nil. lia.
Qed.

Lemma iter_skip2 : forall l rest, Nat.iter (length l) (skipn 2) (le16s l ++ rest) = rest.
Proof.
  induction l as [|v l IH]; intros rest; [reflexivity|].
  cbn [length]. rewrite <- Nat.add_1_r. rewrite Nat.add_comm. rewrite iter_plus.
  cbn [Nat.iter nat_rect le16s flat_map le16 app skipn]. apply IH.
Qed.

Lemma bg_insert_cond ss s : Rel ss s ->
  (s_lastop s =? 0) && negb ((s_x s =? w) && is_none (s_prev s)) = ss_ins ss && negb (nlen (ss_out ss) =? w).
Proof.
  intros ((Hl & Hc & Hm & Hcase) & Hlast & Hins & Hne).
  destruct (ss_ins ss) eqn:Ei.
  - assert (E : s_lastop s =? 0 = true) by (apply N.eqb_eq; apply Hlast; reflexivity). rewrite E. cbn [andb]. f_equal.
    destruct Hcase as [(H0 & _)|(r & [P1 P2 P3 P4 P5 P6] & Hn & Hx)]; [exfalso; apply (Hne eq_refl); exact H0|].
    rewrite P6, Hn. destruct (r =? 0) eqn:Er.
    + apply N.eqb_eq in Er. subst r. cbn [is_none]. rewrite andb_true_r. f_equal; try lia.
    + apply N.eqb_neq in Er. cbn [is_none]. rewrite andb_false_r. symmetry. apply N.eqb_neq.
      assert (1 * w <= r * w) by (apply N.mul_le_mono_r; lia). lia.
  - assert (E : s_lastop s =? 0 = false).
    { apply N.eqb_neq. intros H0. apply Hlast in H0. discriminate. }
    rewrite E. reflexivity.
Qed.

Lemma order_step o f hb rest ss s :
  supported o = true -> ser f o = Some hb -> Rel ss s -> s_inp s = hb ++ rest ->
  nlen (ss_out (sem_order w o ss)) <= w * h ->
  exists code t s', hb = code :: t /\ Rle16.order p w code (set_inp s (t ++ rest)) = Ok s' /\
                    Rel (sem_order w o ss) s' /\ s_inp s' = rest.
Proof.
  intros Hsup Hser HR Hin Hlen.
  pose proof HR as (Hlz & Hlast & Hins & Hne).
  destruct o; try discriminate; cbn [ser] in Hser; cbn [sem_order ss_out ss_fg ss_ins] in *.
  - (* background run *)
    destruct (hdr_reg f 0 n hb rest ltac:(lia) ltac:(lia) Hser) as ((code & t & cnt0 & off & r1 & -> & E1 & E2) & Hn1).
    exists code, t.
    set (s0 := set_inp s (t ++ rest)).
    pose proof (bg_insert_cond ss s HR) as Hcond.
    assert (Hlz0 : lazy (ss_fg ss) (ss_out ss) (set_inp s0 rest)).
    { eapply lazy_ext; [exact Hlz|..]; subst s0; prj; try reflexivity. destruct Hlz as (_ & _ & Hm & _). exact Hm. }
    destruct (ss_ins ss && negb (nlen (ss_out ss) =? w)) eqn:Ecase.
    + (* the inserted foreground pixel *)
      assert (E3 : order_params w 0 (set_inp s0 rest) = Ok (0, 0, set_insmix (set_inp s0 rest) true)).
      { unfold order_params. change (0 =? 0) with true. cbv iota. subst s0. prj. rewrite Hcond. reflexivity. }
      rewrite (order_unfold code s0 0 cnt0 off r1 n rest 0 0 _ E1 E2 E3).
      set (s2 := set_cnt (set_mixmask (set_lastop (set_insmix (set_inp s0 rest) true) 0) 0) n).
      destruct (bg_insert_loop (ss_fg ss) 0 (S (S (N.to_nat (s_hgt s2)))) (ss_out ss) s2) as (s' & E & Hlz' & Hi' & Hl' & Hc' & Hn').
      * eapply lazy_ext; [exact Hlz0|..]; subst s2; prj; try reflexivity. destruct Hlz as (_ & _ & Hm & _). exact Hm.
      * subst s2. prj. reflexivity.
      * subst s2. prj. lia.
      * subst s2. prj. rewrite nlen_run, nlen_app, nlen_cons, nlen_nil in Hlen. lia.
      * unfold meas. destruct (N.ltb (s_x s2) w); lia.
      * exists s'. split; [reflexivity|]. split; [subst s2 s0; prj; exact E|].
        subst s2. prj. split; [|subst s0; prj; exact Hn'].
        unfold Rel. cbn [ss_out ss_fg ss_ins]. split; [exact Hlz'|]. split; [split; [reflexivity|intros _; exact Hl']|].
        split; [exact Hi'|]. intros _ H0. apply (f_equal nlen) in H0. rewrite nlen_run, nlen_app, nlen_cons, nlen_nil in H0. lia.
    + (* an ordinary background run *)
      assert (E3 : order_params w 0 (set_inp s0 rest) = Ok (0, 0, set_inp s0 rest)).
      { unfold order_params. change (0 =? 0) with true. cbv iota. subst s0. prj. rewrite Hcond. reflexivity. }
      rewrite (order_unfold code s0 0 cnt0 off r1 n rest 0 0 _ E1 E2 E3).
      assert (Hrun : run (N.to_nat n - 1) (bg_px w) (ss_out ss ++ [bg_px w (ss_out ss)]) = run (N.to_nat n) (bg_px w) (ss_out ss)).
      { replace (N.to_nat n) with (S (N.to_nat n - 1)) at 2 by lia. reflexivity. }
      rewrite Hrun in *.
      destruct (plain_run (ss_fg ss) 0 0 (bg_px w) keep_input no_input (fun s => s_insmix s = false) (ss_out ss) (set_inp s0 rest) n)
        as (s' & E & Hlz' & Hl' & Hi' & Hn').
      * intros sa sb Ha (_ & Hb & _). congruence.
      * intros r0 out0 sx Hi0 Hk0. apply (hop_bg (ss_fg ss) 0 r0 out0 sx Hi0 Hk0).
      * exact Hlz0.
      * subst s0. prj. exact Hins.
      * exact I.
      * rewrite nlen_run in Hlen. lia.
      * exists s'. split; [reflexivity|]. split; [exact E|]. rewrite iter_keep in Hn'. subst s0. prj.
        split; [|exact Hn'].
        unfold Rel. cbn [ss_out ss_fg ss_ins]. split; [exact Hlz'|]. split; [split; [reflexivity|intros _; exact Hl']|].
        split; [congruence|]. intros _ H0. apply (f_equal nlen) in H0. rewrite nlen_run, nlen_nil in H0. lia.
  - (* foreground run *)
    destruct (hdr_reg f 1 n hb rest ltac:(lia) ltac:(lia) Hser) as ((code & t & cnt0 & off & r1 & -> & E1 & E2) & Hn1).
    exists code, t.
    set (s0 := set_inp s (t ++ rest)).
    assert (E3 : order_params w 1 (set_inp s0 rest) = Ok (1, 0, set_inp s0 rest)) by reflexivity.
    rewrite (order_unfold code s0 1 cnt0 off r1 n rest 1 0 _ E1 E2 E3).
    destruct (plain_run (ss_fg ss) 1 0 (fg_px w (ss_fg ss)) keep_input no_input (fun _ => True) (ss_out ss) (set_inp s0 rest) n)
      as (s' & E & Hlz' & Hl' & Hi' & Hn'); auto.
    + intros r0 out0 sx Hi0 Hk0. apply (hop_fg (ss_fg ss) 0 r0 out0 sx Hi0 Hk0).
    + eapply lazy_ext; [exact Hlz|..]; subst s0; prj; try reflexivity. destruct Hlz as (_ & _ & Hm & _). exact Hm.
    + exact I.
    + rewrite nlen_run in Hlen. lia.
    + exists s'. split; [reflexivity|]. split; [exact E|]. rewrite iter_keep in Hn'. subst s0. prj.
      split; [|exact Hn'].
      unfold Rel. cbn [ss_out ss_fg ss_ins]. split; [exact Hlz'|]. split; [split; [intros H0; rewrite Hl' in H0; discriminate|discriminate]|].
      split; [congruence|discriminate].
  - (* set foreground + foreground run *)
    destruct (is16 fg) eqn:Efg; [|discriminate]. unfold is16 in Efg. apply N.ltb_lt in Efg.
    destruct (hdr_run f 192 15 16 246 n) as [h0|] eqn:Eh; [|discriminate]. cbn [omap] in Hser. inversion Hser; subst hb. clear Hser.
    destruct (hdr_lite6 f n h0 (le16 fg ++ rest) Eh) as ((code & t & cnt0 & off & r1 & -> & E1 & E2) & Hn1).
    exists code, (t ++ le16 fg).
    set (s0 := set_inp s ((t ++ le16 fg) ++ rest)).
    assert (E1' : decode_header code (s_inp s0) = Ok (6, cnt0, off, r1)).
    { subst s0. prj. rewrite <- app_assoc. exact E1. }
    assert (E3 : order_params w 6 (set_inp s0 (le16 fg ++ rest)) = Ok (1, 0, set_inp (set_mix (set_inp s0 (le16 fg ++ rest)) fg) rest)).
    { unfold order_params. change (6 =? 0) with false. change (6 =? 8) with false. change (6 =? 3) with false.
      change ((6 =? 6) || (6 =? 7)) with true. cbv iota. prj. rewrite read_le16 by exact Efg. reflexivity. }
    rewrite (order_unfold code s0 6 cnt0 off r1 n _ 1 0 _ E1' E2 E3).
    set (s1 := set_inp (set_mix (set_inp s0 (le16 fg ++ rest)) fg) rest).
    destruct (plain_run fg 1 0 (fg_px w fg) keep_input no_input (fun _ => True) (ss_out ss) s1 n)
      as (s' & E & Hlz' & Hl' & Hi' & Hn'); auto.
    + intros r0 out0 sx Hi0 Hk0. apply (hop_fg fg 0 r0 out0 sx Hi0 Hk0).
    + eapply lazy_ext; [exact Hlz|..]; subst s1 s0; prj; reflexivity.
    + exact I.
    + rewrite nlen_run in Hlen. lia.
    + exists s'. split; [reflexivity|]. split; [exact E|]. rewrite iter_keep in Hn'. subst s1 s0. prj.
      split; [|exact Hn'].
      unfold Rel. cbn [ss_out ss_fg ss_ins]. split; [exact Hlz'|]. split; [split; [intros H0; rewrite Hl' in H0; discriminate|discriminate]|].
      split; [congruence|discriminate].
  - (* colour run *)
    destruct (is16 c) eqn:Ec; [|discriminate]. unfold is16 in Ec. apply N.ltb_lt in Ec.
    destruct (hdr_run f 96 31 32 243 n) as [h0|] eqn:Eh; [|discriminate]. cbn [omap] in Hser. inversion Hser; subst hb. clear Hser.
    destruct (hdr_reg f 3 n h0 (le16 c ++ rest) ltac:(lia) ltac:(lia) Eh) as ((code & t & cnt0 & off & r1 & -> & E1 & E2) & Hn1).
    exists code, (t ++ le16 c).
    set (s0 := set_inp s ((t ++ le16 c) ++ rest)).
    assert (E1' : decode_header code (s_inp s0) = Ok (3, cnt0, off, r1)).
    { subst s0. prj. rewrite <- app_assoc. exact E1. }
    assert (E3 : order_params w 3 (set_inp s0 (le16 c ++ rest)) = Ok (3, 0, set_inp (set_c2 (set_inp s0 (le16 c ++ rest)) c) rest)).
    { unfold order_params. change (3 =? 0) with false. change (3 =? 8) with false. change (3 =? 3) with true. cbv iota.
      prj. rewrite read_le16 by exact Ec. reflexivity. }
    rewrite (order_unfold code s0 3 cnt0 off r1 n _ 3 0 _ E1' E2 E3).
    set (s1 := set_inp (set_c2 (set_inp s0 (le16 c ++ rest)) c) rest).
    destruct (plain_run (ss_fg ss) 3 0 (fun _ => c) keep_input no_input (fun sx => s_c2 sx = c) (ss_out ss) s1 n)
      as (s' & E & Hlz' & Hl' & Hi' & Hn').
    + intros sa sb Ha (_ & _ & _ & Hb & _). congruence.
    + intros r0 out0 sx Hi0 Hk0. apply (hop_col (ss_fg ss) 0 c r0 out0 sx Hi0 Hk0).
    + eapply lazy_ext; [exact Hlz|..]; subst s1 s0; prj; try reflexivity. destruct Hlz as (_ & _ & Hm & _). exact Hm.
    + subst s1. prj. reflexivity.
    + exact I.
    + rewrite nlen_run in Hlen. lia.
    + exists s'. split; [reflexivity|]. split; [exact E|]. rewrite iter_keep in Hn'. subst s1 s0. prj.
      split; [|exact Hn'].
      unfold Rel. cbn [ss_out ss_fg ss_ins]. split; [exact Hlz'|]. split; [split; [intros H0; rewrite Hl' in H0; discriminate|discriminate]|].
      split; [congruence|discriminate].
  - (* colour image *)
    destruct (forallb is16 pixels) eqn:Epx; [|discriminate].
    assert (Hpix : Forall (fun v => v < 65536) pixels).
    { apply Forall_forall. intros v Hv. rewrite forallb_forall in Epx. specialize (Epx v Hv). unfold is16 in Epx. apply N.ltb_lt. exact Epx. }
    destruct (hdr_run f 128 31 32 244 (nlen pixels)) as [h0|] eqn:Eh; [|discriminate]. cbn [omap] in Hser. inversion Hser; subst hb. clear Hser.
    destruct (hdr_reg f 4 (nlen pixels) h0 (le16s pixels ++ rest) ltac:(lia) ltac:(lia) Eh) as ((code & t & cnt0 & off & r1 & -> & E1 & E2) & Hn1).
    exists code, (t ++ le16s pixels).
    set (s0 := set_inp s ((t ++ le16s pixels) ++ rest)).
    assert (E1' : decode_header code (s_inp s0) = Ok (4, cnt0, off, r1)).
    { subst s0. prj. rewrite <- app_assoc. exact E1. }
    assert (E3 : order_params w 4 (set_inp s0 (le16s pixels ++ rest)) = Ok (4, 0, set_inp s0 (le16s pixels ++ rest))) by reflexivity.
    rewrite (order_unfold code s0 4 cnt0 off r1 (nlen pixels) _ 4 0 _ E1' E2 E3).
    set (s1 := set_inp s0 (le16s pixels ++ rest)).
    destruct (plain_run (ss_fg ss) 4 0 (px_img (nlen (ss_out ss)) pixels) (skipn 2) (Iimg (nlen (ss_out ss)) pixels rest)
                        (fun _ => True) (ss_out ss) s1 (nlen pixels)) as (s' & E & Hlz' & Hl' & Hi' & Hn'); auto.
    + intros r0 out0 sx Hi0 Hk0. apply (hop_img (ss_fg ss) 0 (nlen (ss_out ss)) pixels rest r0 out0 sx Hpix Hi0 Hk0).
    + eapply lazy_ext; [exact Hlz|..]; subst s1 s0; prj; try reflexivity. destruct Hlz as (_ & _ & Hm & _). exact Hm.
    + exists [], pixels. subst s1. prj. rewrite nlen_nil. fin.
    + rewrite nlen_app in Hlen. lia.
    + replace (N.to_nat (nlen pixels)) with (length pixels) in * by (unfold nlen; lia).
      rewrite (run_img (nlen (ss_out ss)) pixels pixels [] (ss_out ss) eq_refl ltac:(rewrite nlen_nil; lia)) in Hlz'.
      exists s'. split; [reflexivity|]. split; [exact E|]. subst s1 s0. prj.
      rewrite iter_skip2 in Hn'. split; [|exact Hn'].
      unfold Rel. cbn [ss_out ss_fg ss_ins]. split; [exact Hlz'|]. split; [split; [intros H0; rewrite Hl' in H0; discriminate|discriminate]|].
      split; [congruence|discriminate].
  - (* white *)
    destruct f; try discriminate. inversion Hser; subst hb. clear Hser.
    exists 253, []. cbn [app].
    set (s0 := set_inp s rest).
    assert (E1 : decode_header 253 (s_inp s0) = Ok (13, 1, 0, rest)) by (change 253 with (240 + 13); apply dh_special; lia).
    assert (E3 : order_params w 13 (set_inp s0 rest) = Ok (13, 0, set_inp s0 rest)) by reflexivity.
    rewrite (order_unfold 253 s0 13 1 0 rest 1 rest 13 0 _ E1 (ec_mega 13 1 rest) E3).
    destruct (plain_run (ss_fg ss) 13 0 (fun _ => 65535) keep_input no_input (fun _ => True) (ss_out ss) (set_inp s0 rest) 1)
      as (s' & E & Hlz' & Hl' & Hi' & Hn'); auto.
    + intros r0 out0 sx Hi0 Hk0. apply (hop_white (ss_fg ss) 0 r0 out0 sx Hi0 Hk0).
    + eapply lazy_ext; [exact Hlz|..]; subst s0; prj; try reflexivity. destruct Hlz as (_ & _ & Hm & _). exact Hm.
    + exact I.
    + rewrite nlen_app, nlen_cons, nlen_nil in Hlen. lia.
    + exists s'. split; [reflexivity|]. split; [exact E|]. rewrite iter_keep in Hn'. subst s0. prj.
      split; [|exact Hn'].
      unfold Rel. cbn [ss_out ss_fg ss_ins]. split; [exact Hlz'|]. split; [split; [intros H0; rewrite Hl' in H0; discriminate|discriminate]|].
      split; [congruence|discriminate].
  - (* black *)
    destruct f; try discriminate. inversion Hser; subst hb. clear Hser.
    exists 254, []. cbn [app].
    set (s0 := set_inp s rest).
    assert (E1 : decode_header 254 (s_inp s0) = Ok (14, 1, 0, rest)) by (change 254 with (240 + 14); apply dh_special; lia).
    assert (E3 : order_params w 14 (set_inp s0 rest) = Ok (14, 0, set_inp s0 rest)) by reflexivity.
    rewrite (order_unfold 254 s0 14 1 0 rest 1 rest 14 0 _ E1 (ec_mega 14 1 rest) E3).
    destruct (plain_run (ss_fg ss) 14 0 (fun _ => 0) keep_input no_input (fun _ => True) (ss_out ss) (set_inp s0 rest) 1)
      as (s' & E & Hlz' & Hl' & Hi' & Hn'); auto.
    + intros r0 out0 sx Hi0 Hk0. apply (hop_black (ss_fg ss) 0 r0 out0 sx Hi0 Hk0).
    + eapply lazy_ext; [exact Hlz|..]; subst s0; prj; try reflexivity. destruct Hlz as (_ & _ & Hm & _). exact Hm.
    + exact I.
    + rewrite nlen_app, nlen_cons, nlen_nil in Hlen. lia.
    + exists s'. split; [reflexivity|]. split; [exact E|]. rewrite iter_keep in Hn'. subst s0. prj.
      split; [|exact Hn'].
      unfold Rel. cbn [ss_out ss_fg ss_ins]. split; [exact Hlz'|]. split; [split; [intros H0; rewrite Hl' in H0; discriminate|discriminate]|].
      split; [congruence|discriminate].
Qed.


(* ---- the whole stream *)
Lemma sem_order_mono o ss : supported o = true -> nlen (ss_out ss) <= nlen (ss_out (sem_order w o ss)).
Proof.
  intros Hs. destruct o; try discriminate; cbn [sem_order ss_out]; rewrite ?nlen_run, ?nlen_app; try lia.
  destruct (ss_ins ss && negb (nlen (ss_out ss) =? w)); rewrite nlen_app; lia.
Qed.

Lemma sem_from_mono : forall os ss, Forall (fun o => supported o = true) os ->
  nlen (ss_out ss) <= nlen (ss_out (sem_from w os ss)).
Proof.
  induction os as [|o os IH]; intros ss Hs; [cbn; lia|].
  pose proof (Forall_inv Hs) as Ho. pose proof (Forall_inv_tail Hs) as Hs'. cbv beta in Ho.
  change (sem_from w (o :: os) ss) with (sem_from w os (sem_order w o ss)).
  pose proof (sem_order_mono o ss Ho). pose proof (IH (sem_order w o ss) Hs'). lia.
Qed.

Lemma main_sem : forall os bs, serialises os bs -> Forall (fun o => supported o = true) os ->
  forall ss s fuel, Rel ss s -> s_inp s = bs -> nlen (ss_out (sem_from w os ss)) <= w * h -> (length bs < fuel)%nat ->
  exists s', main_loop p w fuel s = Ok s' /\ Rel (sem_from w os ss) s'.
Proof.
  induction 1 as [|o os f b bs Hser Hrest IH]; intros Hsup ss s fuel HR Hin Hlen Hf.
  - destruct fuel; [lia|]. cbn [main_loop]. rewrite Hin. exists s. split; [reflexivity|exact HR].
  - pose proof (Forall_inv Hsup) as Ho. pose proof (Forall_inv_tail Hsup) as Hsup'. cbv beta in Ho.
    change (sem_from w (o :: os) ss) with (sem_from w os (sem_order w o ss)) in *.
    pose proof (sem_from_mono os (sem_order w o ss) Hsup') as Hm.
    destruct (order_step o f b bs ss s Ho Hser HR Hin ltac:(lia)) as (code & t & s1 & -> & E1 & HR1 & Hin1).
    destruct fuel; [lia|]. cbn [main_loop]. rewrite Hin. cbn [app]. rewrite E1. cbn [obind].
    apply (IH Hsup' (sem_order w o ss) s1 fuel HR1 Hin1 Hlen).
    cbn [app length] in Hf. rewrite app_length in Hf. lia.
Qed.

End Sem.
