(* Model of codec/rle.rs rle_16_decompress (interleaved RLE, 16 bpp) as repaired:
   unknown order codes return InvalidData, the run count is a u32.

   Transliteration conventions: `usize` is 64 bits, `count` is a u32; every `+ - *` of
   the Rust text is [add_w]/[sub_w]/[mul_w] under the build profile (Debug traps,
   Release wraps); `x >> k`, `x & (2^k-1)` on unsigned bytes are written `/ 2^k`,
   `mod 2^k`; every `output[..]` is a checked [bget]/[bset] (Panic when out of range);
   `line.unwrap()` is Panic on None; `?` on a cursor read is [Err EIo].  Loops carry
   fuel: [Spin] when it runs out (excluded by C08_total).  No proofs in this file. *)
From RdpV Require Import Base Buf.

Record st := mkS {
  s_inp : bytes;            (* what the Cursor has not consumed yet *)
  s_out : buf;              (* output: &mut [u16] *)
  s_x : N;                  (* x: usize *)
  s_cnt : N;                (* count: u32 *)
  s_hgt : N;                (* height: usize, counts down *)
  s_line : option N;        (* line: Option<usize> *)
  s_prev : option N;        (* prevline: Option<usize> *)
  s_lastop : N;             (* lastopcode: u8 *)
  s_insmix : bool;          (* insertmix *)
  s_c1 : N; s_c2 : N;       (* colour1, colour2: u16 *)
  s_mix : N;                (* mix: u16 *)
  s_mask : N;               (* mask: u8 *)
  s_mixmask : N;            (* mixmask: u8 *)
  s_bic : bool }.           (* bicolour *)

Definition set_inp (s : st) (v : bytes) : st :=
  mkS v (s_out s) (s_x s) (s_cnt s) (s_hgt s) (s_line s) (s_prev s) (s_lastop s) (s_insmix s) (s_c1 s) (s_c2 s) (s_mix s) (s_mask s) (s_mixmask s) (s_bic s).
Definition set_out (s : st) (v : buf) : st :=
  mkS (s_inp s) v (s_x s) (s_cnt s) (s_hgt s) (s_line s) (s_prev s) (s_lastop s) (s_insmix s) (s_c1 s) (s_c2 s) (s_mix s) (s_mask s) (s_mixmask s) (s_bic s).
Definition set_x (s : st) (v : N) : st :=
  mkS (s_inp s) (s_out s) v (s_cnt s) (s_hgt s) (s_line s) (s_prev s) (s_lastop s) (s_insmix s) (s_c1 s) (s_c2 s) (s_mix s) (s_mask s) (s_mixmask s) (s_bic s).
Definition set_cnt (s : st) (v : N) : st :=
  mkS (s_inp s) (s_out s) (s_x s) v (s_hgt s) (s_line s) (s_prev s) (s_lastop s) (s_insmix s) (s_c1 s) (s_c2 s) (s_mix s) (s_mask s) (s_mixmask s) (s_bic s).
Definition set_lastop (s : st) (v : N) : st :=
  mkS (s_inp s) (s_out s) (s_x s) (s_cnt s) (s_hgt s) (s_line s) (s_prev s) v (s_insmix s) (s_c1 s) (s_c2 s) (s_mix s) (s_mask s) (s_mixmask s) (s_bic s).
Definition set_insmix (s : st) (v : bool) : st :=
  mkS (s_inp s) (s_out s) (s_x s) (s_cnt s) (s_hgt s) (s_line s) (s_prev s) (s_lastop s) v (s_c1 s) (s_c2 s) (s_mix s) (s_mask s) (s_mixmask s) (s_bic s).
Definition set_c1 (s : st) (v : N) : st :=
  mkS (s_inp s) (s_out s) (s_x s) (s_cnt s) (s_hgt s) (s_line s) (s_prev s) (s_lastop s) (s_insmix s) v (s_c2 s) (s_mix s) (s_mask s) (s_mixmask s) (s_bic s).
Definition set_c2 (s : st) (v : N) : st :=
  mkS (s_inp s) (s_out s) (s_x s) (s_cnt s) (s_hgt s) (s_line s) (s_prev s) (s_lastop s) (s_insmix s) (s_c1 s) v (s_mix s) (s_mask s) (s_mixmask s) (s_bic s).
Definition set_mix (s : st) (v : N) : st :=
  mkS (s_inp s) (s_out s) (s_x s) (s_cnt s) (s_hgt s) (s_line s) (s_prev s) (s_lastop s) (s_insmix s) (s_c1 s) (s_c2 s) v (s_mask s) (s_mixmask s) (s_bic s).
Definition set_mask (s : st) (v : N) : st :=
  mkS (s_inp s) (s_out s) (s_x s) (s_cnt s) (s_hgt s) (s_line s) (s_prev s) (s_lastop s) (s_insmix s) (s_c1 s) (s_c2 s) (s_mix s) v (s_mixmask s) (s_bic s).
Definition set_mixmask (s : st) (v : N) : st :=
  mkS (s_inp s) (s_out s) (s_x s) (s_cnt s) (s_hgt s) (s_line s) (s_prev s) (s_lastop s) (s_insmix s) (s_c1 s) (s_c2 s) (s_mix s) (s_mask s) v (s_bic s).
Definition set_bic (s : st) (v : bool) : st :=
  mkS (s_inp s) (s_out s) (s_x s) (s_cnt s) (s_hgt s) (s_line s) (s_prev s) (s_lastop s) (s_insmix s) (s_c1 s) (s_c2 s) (s_mix s) (s_mask s) (s_mixmask s) v.
(* x = 0; height -= 1; prevline = line; line = Some(height * width) *)
Definition set_newline (s : st) (hgt l : N) : st :=
  mkS (s_inp s) (s_out s) 0 (s_cnt s) hgt (Some l) (s_line s) (s_lastop s) (s_insmix s) (s_c1 s) (s_c2 s) (s_mix s) (s_mask s) (s_mixmask s) (s_bic s).

Section Rle16.
Variable p : prof.
Variable width : N.

(* output[e + x] *)
Definition rd (e : N) (s : st) : outcome N :=
  i <- add_w p 64 e (s_x s);; bget (s_out s) i.

(* output[line.unwrap() + x] = v *)
Definition wr (s : st) (v : N) : outcome st :=
  match s_line s with
  | None => Panic
  | Some l => i <- add_w p 64 l (s_x s);; o <- bset (s_out s) i v;; Ok (set_out s o)
  end.

(* ---- the expressions handed to repeat!, one function per order kind *)

(* output[line + x] = output[e + x] *)
Definition b_copy (e : N) (s : st) : outcome st := v <- rd e s;; wr s v.
(* output[line + x] = output[e + x] ^ mix *)
Definition b_mixprev (e : N) (s : st) : outcome st := v <- rd e s;; wr s (N.lxor v (s_mix s)).
(* output[line + x] = <constant> *)
Definition b_const (v : N) (s : st) : outcome st := wr s v.
(* output[line + x] = mix *)
Definition b_mix (s : st) : outcome st := wr s (s_mix s).

(* fill-or-mix: shift the mask bit, fetch a new mask byte every 8 pixels *)
Definition fom_mask_step (fom : N) (s : st) : outcome st :=
  let mm := (s_mixmask s * 2) mod 256 in                       (* mixmask <<= 1 *)
  if mm =? 0 then
    if negb (fom =? 0) then Ok (set_mixmask (set_mask s fom) 1)
    else match read_u8 (s_inp s) with
         | Ok (b, r) => Ok (set_mixmask (set_mask (set_inp s r) b) 1)
         | Err e => Err e | Panic => Panic | Spin => Spin
         end
  else Ok (set_mixmask s mm).
Definition fom_bit (s : st) : bool := negb (N.land (s_mask s) (s_mixmask s) =? 0).

Definition b_fom_prev (fom e : N) (s : st) : outcome st :=
  s1 <- fom_mask_step fom s;;
  if fom_bit s1 then b_mixprev e s1 else b_copy e s1.
Definition b_fom_first (fom : N) (s : st) : outcome st :=
  s1 <- fom_mask_step fom s;;
  if fom_bit s1 then b_mix s1 else b_const 0 s1.

(* output[line + x] = input_cursor.read_u16::<LittleEndian>()? *)
Definition b_colimg (s : st) : outcome st :=
  match read_u16le (s_inp s) with
  | Ok (v, r) => wr (set_inp s r) v
  | Err e => Err e | Panic => Panic | Spin => Spin
  end.

(* dithered run: colour1, colour2 alternately; count += 1 on the first of each pair *)
Definition b_bicol (s : st) : outcome st :=
  if s_bic s then
    s1 <- wr s (s_c2 s);; Ok (set_bic s1 false)
  else
    s1 <- wr s (s_c1 s);;
    c <- add_w p 32 (s_cnt s1) 1;;
    Ok (set_cnt (set_bic s1 true) c).

(* ---- the repeat! macro as written: $expr; $count -= 1; $x += 1; *)
Definition step (body : st -> outcome st) (s : st) : outcome st :=
  s1 <- body s;;
  c <- sub_w p 32 (s_cnt s1) 1;;
  x <- add_w p 64 (s_x s1) 1;;
  Ok (set_x (set_cnt s1 c) x).

Fixpoint steps (n : nat) (body : st -> outcome st) (s : st) : outcome st :=
  match n with
  | O => Ok s
  | S k => s1 <- step body s;; steps k body s1
  end.

(* while (count & !0x7) != 0 && (x + 8) < width { 8 times: expr; count -= 1; x += 1 } *)
Fixpoint rep_blk (fuel : nat) (body : st -> outcome st) (s : st) : outcome st :=
  match fuel with
  | O => Spin
  | S k =>
      if 8 <=? s_cnt s then                                    (* (count & !0x7) != 0 *)
        x8 <- add_w p 64 (s_x s) 8;;
        if x8 <? width then s1 <- steps 8 body s;; rep_blk k body s1
        else Ok s
      else Ok s
  end.

(* while count > 0 && x < width { expr; count -= 1; x += 1 } *)
Fixpoint rep_tail (fuel : nat) (body : st -> outcome st) (s : st) : outcome st :=
  match fuel with
  | O => Spin
  | S k =>
      if (0 <? s_cnt s) && (s_x s <? width) then s1 <- step body s;; rep_tail k body s1
      else Ok s
  end.

Definition repeat_m (body : st -> outcome st) (s : st) : outcome st :=
  s1 <- rep_blk (S (N.to_nat width)) body s;;
  rep_tail (S (N.to_nat width)) body s1.

(* ---- first half of the loop body: order header *)

(* (opcode, count, offset, rest of input) *)
Definition decode_header (code : N) (inp : bytes) : outcome (N * N * N * bytes) :=
  let opcode := code / 16 in                                   (* code >> 4 *)
  if (opcode =? 12) || (opcode =? 13) || (opcode =? 14) then
    Ok (opcode - 6, code mod 16, 16, inp)
  else if opcode =? 15 then
    let op := code mod 16 in
    if op <? 9 then
      match read_u16le inp with
      | Ok (c, r) => Ok (op, c, 0, r)
      | Err e => Err e | Panic => Panic | Spin => Spin
      end
    else if op <? 11 then Ok (op, 8, 0, inp)
    else Ok (op, 1, 0, inp)
  else Ok (opcode / 2, code mod 32, 32, inp).                   (* opcode >>= 1; code & 0x1f *)

(* if offset != 0 { ... count extension ... } *)
Definition extend_count (op count offset : N) (inp : bytes) : outcome (N * bytes) :=
  if negb (offset =? 0) then
    let isfom := (op =? 2) || (op =? 7) in
    if count =? 0 then
      match read_u8 inp with
      | Ok (b, r) => c <- add_w p 32 b (if isfom then 1 else offset);; Ok (c, r)
      | Err e => Err e | Panic => Panic | Spin => Spin
      end
    else if isfom then Ok ((count * 8) mod 2 ^ 32, inp)           (* count <<= 3 *)
    else Ok (count, inp)
  else Ok (count, inp).

Definition is_none {A} (o : option A) : bool := match o with None => true | Some _ => false end.

(* the second `match opcode`: parameters of the order; returns (opcode', fom_mask, state) *)
Definition order_params (op : N) (s : st) : outcome (N * N * st) :=
  if op =? 0 then
    if (s_lastop s =? op) && negb ((s_x s =? width) && is_none (s_prev s))
    then Ok (op, 0, set_insmix s true) else Ok (op, 0, s)
  else if op =? 8 then
    match read_u16le (s_inp s) with
    | Ok (c1, r1) =>
        match read_u16le r1 with
        | Ok (c2, r2) => Ok (op, 0, set_inp (set_c2 (set_c1 s c1) c2) r2)
        | Err e => Err e | Panic => Panic | Spin => Spin
        end
    | Err e => Err e | Panic => Panic | Spin => Spin
    end
  else if op =? 3 then
    match read_u16le (s_inp s) with
    | Ok (c2, r) => Ok (op, 0, set_inp (set_c2 s c2) r)
    | Err e => Err e | Panic => Panic | Spin => Spin
    end
  else if (op =? 6) || (op =? 7) then
    match read_u16le (s_inp s) with
    | Ok (m, r) => Ok (op - 5, 0, set_inp (set_mix s m) r)
    | Err e => Err e | Panic => Panic | Spin => Spin
    end
  else if op =? 9 then Ok (2, 3, set_mask s 3)
  else if op =? 10 then Ok (2, 5, set_mask s 5)
  else Ok (op, 0, s).

(* ---- second half: while count > 0 { new line if needed; match opcode { .. } } *)

(* if x >= width { if height <= 0 { return Err } x = 0; height -= 1; prevline = line; line = Some(height * width) } *)
Definition next_line (s : st) : outcome st :=
  if width <=? s_x s then
    if s_hgt s <=? 0 then Err EInvalidData
    else
      hgt <- sub_w p 64 (s_hgt s) 1;;
      l <- mul_w p 64 hgt width;;
      Ok (set_newline s hgt l)
  else Ok s.

Definition handler (op fom : N) (s : st) : outcome st :=
  if op =? 0 then
    s1 <- (if s_insmix s then
             s' <- (match s_prev s with Some e => b_mixprev e s | None => b_mix s end);;
             c <- sub_w p 32 (s_cnt s') 1;;
             x <- add_w p 64 (s_x s') 1;;
             Ok (set_x (set_cnt (set_insmix s' false) c) x)
           else Ok s);;
    match s_prev s1 with
    | Some e => repeat_m (b_copy e) s1
    | None => repeat_m (b_const 0) s1
    end
  else if op =? 1 then
    match s_prev s with
    | Some e => repeat_m (b_mixprev e) s
    | None => repeat_m b_mix s
    end
  else if op =? 2 then
    match s_prev s with
    | Some e => repeat_m (b_fom_prev fom e) s
    | None => repeat_m (b_fom_first fom) s
    end
  else if op =? 3 then repeat_m (b_const (s_c2 s)) s
  else if op =? 4 then repeat_m b_colimg s
  else if op =? 8 then repeat_m b_bicol s
  else if op =? 13 then repeat_m (b_const 65535) s
  else if op =? 14 then repeat_m (b_const 0) s
  else Err EInvalidData.                                       (* repaired: was panic!("opcode") *)

Fixpoint cnt_loop (fuel : nat) (op fom : N) (s : st) : outcome st :=
  match fuel with
  | O => Spin
  | S k =>
      if 0 <? s_cnt s then
        s1 <- next_line s;;
        s2 <- handler op fom s1;;
        cnt_loop k op fom s2
      else Ok s
  end.

(* one iteration of `while position < input.len()` (the caller has checked that) *)
Definition order (code : N) (s : st) : outcome st :=
  match decode_header code (s_inp s) with
  | Ok (op, count, offset, r1) =>
      match extend_count op count offset r1 with
      | Ok (count, r2) =>
          match order_params op (set_inp s r2) with
          | Ok (op', fom, s1) =>
              let s2 := set_cnt (set_mixmask (set_lastop s1 op') 0) count in
              cnt_loop (S (S (N.to_nat (s_hgt s2)))) op' fom s2
          | Err e => Err e | Panic => Panic | Spin => Spin
          end
      | Err e => Err e | Panic => Panic | Spin => Spin
      end
  | Err e => Err e | Panic => Panic | Spin => Spin
  end.

Fixpoint main_loop (fuel : nat) (s : st) : outcome st :=
  match fuel with
  | O => Spin
  | S k =>
      match s_inp s with
      | [] => Ok s
      | code :: r => s1 <- order code (set_inp s r);; main_loop k s1
      end
  end.

Definition init_st (height : N) (input : bytes) (out : buf) : st :=
  mkS input out width 0 height None None 255 false 0 0 65535 0 0 false.

(* rle_16_decompress(input, width, height, output) *)
Definition rle16 (height : N) (input : bytes) (out : buf) : outcome buf :=
  s <- main_loop (S (length input)) (init_st height input out);; Ok (s_out s).

End Rle16.
