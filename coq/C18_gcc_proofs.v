(* C18, GCC part: core/gcc.rs (model Gcc.v) against the reference encoder RefGcc.v.
     (a) Version::from is the two-entry table;
     (b) write_conference_create_request emits exactly the reference bytes;
     (c) read_conference_create_response decodes every reference response that carries
         the three server blocks (any order, unknown blocks in between) to the channel ids
         and version that were encoded;
     (d) block-level round trips of the client / server data blocks;
     (e) concrete examples, including the two known defects (as refuted examples). *)
From RdpV Require Import Base Msg MsgInd MsgTheory Per RefPer C18_per_proofs Gcc RefGcc.
Open Scope string_scope.
Open Scope list_scope.
Open Scope N_scope.

Ltac Zify.zify_post_hook ::= Z.to_euclidean_division_equations.

(* ================================================================ (a) Version::from *)
Theorem version_from_table :
  version_from 524289 = RdpVersion /\ version_from 524292 = RdpVersion5plus /\
  forall e, e <> 524289 -> e <> 524292 -> version_from e = VersionUnknown.
Proof.
  split; [reflexivity|]. split; [reflexivity|].
  intros e H1 H2. unfold version_from, RDP_VERSION_4, RDP_VERSION_5_PLUS.
  destruct (N.eqb_spec e 524289) as [E1|_]; [contradiction|].
  destruct (N.eqb_spec e 524292) as [E2|_]; [contradiction|]. reflexivity.
Qed.

(* ================================================================ (b) the request *)
Lemma add16_ok p a b : a + b < 65536 -> add_w p 16 a b = Ok (a + b).
Proof.
  intros H. unfold add_w. change (2 ^ 16) with 65536.
  destruct (N.ltb_spec (a + b) 65536); [reflexivity|lia].
Qed.

Lemma numeric_one p : per_write_numeric_string p [49] 1 = Ok [0; 16].
Proof. destruct p; reflexivity. Qed.

(* the bytes, explicitly *)
Definition request_bytes (user_data : bytes) : bytes :=
  [0; 5; 0; 20; 124; 0; 1] ++ per_write_length (nlen user_data + 14)
  ++ [0; 8; 0; 16; 0; 1; 192; 0; 68; 117; 99; 97] ++ per_write_length (nlen user_data) ++ user_data.

Theorem gcc_request_bytes : forall p user_data, nlen user_data + 14 < 32768 ->
  gcc_write_conference_create_request p user_data = Ok (request_bytes user_data)
  /\ ref_conference_create_request user_data = Some (request_bytes user_data).
Proof.
  intros p ud H. split.
  - unfold gcc_write_conference_create_request.
    change (per_write_object_identifier T124_02_98_OID) with (@Ok bytes [5; 0; 20; 124; 0; 1]).
    cbn [obind]. rewrite N.mod_small by lia. rewrite add16_ok by lia. cbn [obind].
    rewrite numeric_one. cbn [obind].
    change (per_write_padding 1) with (@Ok bytes [0]). cbn [obind].
    rewrite (per_octet_stream_write ud 0) by lia. rewrite N.sub_0_r.
    change (per_write_octet_stream H221_CS_KEY 4) with [0; 68; 117; 99; 97].
    unfold per_write_choice, per_write_selection, per_write_number_of_set, request_bytes.
    cbn [app]. rewrite <- ?app_assoc. reflexivity.
  - unfold ref_conference_create_request.
    rewrite (per_length_ref (nlen ud + 14)) by lia. rewrite (per_length_ref (nlen ud)) by lia.
    unfold request_bytes, t124_key. cbn [app]. reflexivity.
Qed.

Theorem gcc_request_ref : forall p user_data, nlen user_data + 14 < 32768 ->
  exists b, gcc_write_conference_create_request p user_data = Ok b
            /\ ref_conference_create_request user_data = Some b.
Proof. intros p ud H. exists (request_bytes ud). now apply gcc_request_bytes. Qed.

(* ================================================================ (c) the response *)
(* ---- what the three block bodies are read into ---- *)
Definition opt_u32 (o : option N) : msg :=
  MOpt (match o with Some x => Some (g_u32 x) | None => None end).

Definition core_msg (version : N) (requested flags : option N) : msg :=
  MComp [ ("rdpVersion", g_u32 version); ("clientRequestedProtocol", opt_u32 requested);
          ("earlyCapabilityFlags", opt_u32 (match requested with Some _ => flags | None => None end)) ].

Definition security_msg (method level : N) : msg :=
  MComp [ ("encryptionMethod", g_u32 method); ("encryptionLevel", g_u32 level) ].

Definition net_msg (io : N) (ids : list N) : msg :=
  MComp [ ("MCSChannelId", g_u16 io);
          ("channelCount", MDyn (g_u16 (nlen ids)) (CloSize "channelIdArray" (XMul XSelf 2)));
          ("channelIdArray", MArray (map g_u16 ids) (Some (g_u16 0))) ].

Definition opt_lt (o : option N) (k : N) : Prop := match o with Some x => x < k | None => True end.

(* ---- SC_CORE: the three shapes, read directly ---- *)
Lemma read_core_4 p a0 a1 a2 a3 :
  read p server_core_data [a0; a1; a2; a3] =
  ROk (MComp [ ("rdpVersion", g_u32 (of_le32 a0 a1 a2 a3)); ("clientRequestedProtocol", MOpt None);
               ("earlyCapabilityFlags", MOpt None) ]) [] 0.
Proof. reflexivity. Qed.

Lemma read_core_8 p a0 a1 a2 a3 b0 b1 b2 b3 :
  read p server_core_data [a0; a1; a2; a3; b0; b1; b2; b3] =
  ROk (MComp [ ("rdpVersion", g_u32 (of_le32 a0 a1 a2 a3));
               ("clientRequestedProtocol", MOpt (Some (g_u32 (of_le32 b0 b1 b2 b3))));
               ("earlyCapabilityFlags", MOpt None) ]) [] 0.
Proof. reflexivity. Qed.

Lemma read_core_12 p a0 a1 a2 a3 b0 b1 b2 b3 c0 c1 c2 c3 :
  read p server_core_data [a0; a1; a2; a3; b0; b1; b2; b3; c0; c1; c2; c3] =
  ROk (MComp [ ("rdpVersion", g_u32 (of_le32 a0 a1 a2 a3));
               ("clientRequestedProtocol", MOpt (Some (g_u32 (of_le32 b0 b1 b2 b3))));
               ("earlyCapabilityFlags", MOpt (Some (g_u32 (of_le32 c0 c1 c2 c3)))) ]) [] 0.
Proof. reflexivity. Qed.

Lemma read_core_body p version requested flags :
  version < 4294967296 -> opt_lt requested 4294967296 -> opt_lt flags 4294967296 ->
  read p server_core_data (ref_sc_core_body version requested flags) = ROk (core_msg version requested flags) [] 0.
Proof.
  intros Hv Hr Hf. unfold ref_sc_core_body, core_msg, opt_u32.
  destruct requested as [r|]; [destruct flags as [f|]|]; cbn [opt_lt] in Hr, Hf; unfold le32; cbn [app].
  - rewrite read_core_12, !le32_of by assumption. reflexivity.
  - rewrite read_core_8, !le32_of by assumption. reflexivity.
  - rewrite read_core_4, !le32_of by assumption. reflexivity.
Qed.

(* ---- SC_SECURITY ---- *)
Lemma read_security_8 p a0 a1 a2 a3 b0 b1 b2 b3 :
  read p server_security_data [a0; a1; a2; a3; b0; b1; b2; b3] =
  ROk (security_msg (of_le32 a0 a1 a2 a3) (of_le32 b0 b1 b2 b3)) [] 0.
Proof. reflexivity. Qed.

Lemma read_security_body p method level : method < 4294967296 -> level < 4294967296 ->
  read p server_security_data (ref_sc_security_body method level) = ROk (security_msg method level) [] 0.
Proof.
  intros Hm Hl. unfold ref_sc_security_body, le32. cbn [app].
  rewrite read_security_8, !le32_of by assumption. reflexivity.
Qed.

Lemma mul64_ok p a b : a * b < 18446744073709551616 -> mul_w p usize_bits a b = Ok (a * b).
Proof.
  intros H. unfold mul_w, usize_bits. change (2 ^ 64) with 18446744073709551616.
  destruct (N.ltb_spec (a * b) 18446744073709551616); [reflexivity|lia].
Qed.

Lemma write_list_u16 p ids : write_list p (map g_u16 ids) = Some (flat_map le16 ids).
Proof.
  induction ids as [|i ids IH]; [reflexivity|].
  cbn [map write_list flat_map]. rewrite IH. reflexivity.
Qed.

Lemma length_list_u16 p ids : length_list p (map g_u16 ids) = Some (nlen ids * 2).
Proof.
  induction ids as [|i ids IH]; [reflexivity|].
  cbn [map length_list]. rewrite IH. cbn [g_u16 mlength]. rewrite nlen_cons. f_equal. lia.
Qed.

Lemma wf_elems_u16 p ids : Forall (fun i => i < 65536) ids -> wf_elems p (wf p) (g_u16 0) (map g_u16 ids) = true.
Proof.
  induction ids as [|i ids IH]; intros HF; [reflexivity|].
  inversion HF as [|? ? Hi Htl]; subst. cbn [map wf_elems]. rewrite (IH Htl).
  unfold g_u16 at 1 2. cbn [wf endian_eqb andb]. apply N.ltb_lt in Hi. rewrite Hi. reflexivity.
Qed.

Ltac wf_cbn :=
  cbn [wf wf_fields wf_trame mem dyn_lookup options eval_clo eval_cexp num_of obind
       String.eqb Ascii.eqb Bool.eqb andb is_nil endian_eqb clo_eqb cexp_eqb ccond_eqb].

Lemma net_wf p io ids : io < 65536 -> Forall (fun i => i < 65536) ids -> nlen ids < 65536 ->
  wf p false server_network_data (net_msg io ids) = true.
Proof.
  intros Hio HF Hn. unfold server_network_data, net_msg.
  unfold g_u16. change (fun v : N => MU16 LE v) with g_u16.
  wf_cbn. rewrite mul64_ok by lia. wf_cbn.
  rewrite wf_elems_u16 by assumption. unfold length_is. rewrite length_array_eq, length_list_u16.
  rewrite !N.eqb_refl. apply N.ltb_lt in Hn. rewrite Hn.
  assert (Hm : (nlen ids * 2 <=? isize_max) = true) by (apply N.leb_le; apply N.ltb_lt in Hn; unfold isize_max; lia).
  rewrite Hm. apply N.ltb_lt in Hio. rewrite Hio. reflexivity.
Qed.

Lemma net_write p io ids : nlen ids < 65536 ->
  write p (net_msg io ids) = Some (le16 io ++ le16 (nlen ids) ++ flat_map le16 ids).
Proof.
  intros Hn. unfold net_msg. rewrite write_comp_eq.
  cbn [write_fields mem]. rewrite write_array_eq, write_list_u16.
  cbn [write g_u16 enc16 options eval_clo eval_cexp num_of obind].
  rewrite mul64_ok by lia. 
  rewrite app_nil_r. reflexivity.
Qed.

Definition net_pad (ids : list N) : bytes := if N.odd (nlen ids) then [0; 0] else [].

Lemma app4_assoc (a b c d : bytes) : a ++ b ++ c ++ d = (a ++ b ++ c) ++ d.
Proof. rewrite <- !app_assoc. reflexivity. Qed.

(* the pad of an odd count stays unread in the block buffer *)
Lemma read_net_body p io ids : io < 65536 -> Forall (fun i => i < 65536) ids -> nlen ids < 65536 ->
  exists a, read p server_network_data (ref_sc_net_body io ids) = ROk (net_msg io ids) (net_pad ids) a.
Proof.
  intros Hio HF Hn. unfold ref_sc_net_body. fold (net_pad ids).
  rewrite app4_assoc.
  apply (read_write p server_network_data (net_msg io ids) false).
  - apply net_wf; assumption.
  - apply net_write; assumption.
  - intros Hd; discriminate.
Qed.

(* ---- one iteration of the block loop on a reference block ---- *)
Lemma sub16_ok p a b : b <= a -> sub_w p 16 a b = Ok (a - b).
Proof. intros H. unfold sub_w. destruct (N.leb_spec b a); [reflexivity|lia]. Qed.

Lemma read_blocks_step p fuel ty body rest acc : ty < 65536 -> nlen body + 4 < 65536 ->
  gcc_read_blocks p (S fuel) (ref_block ty body ++ rest) acc =
    if ty =? SC_CORE then
      obind (lift_read (read p server_core_data body)) (fun m =>
        gcc_read_blocks p fuel rest {| b_core := Some m; b_net := b_net acc |})
    else if ty =? SC_SECURITY then
      obind (lift_read (read p server_security_data body)) (fun _ => gcc_read_blocks p fuel rest acc)
    else if ty =? SC_NET then
      obind (lift_read (read p server_network_data body)) (fun m =>
        gcc_read_blocks p fuel rest {| b_core := b_core acc; b_net := Some m |})
    else gcc_read_blocks p fuel rest acc.
Proof.
  intros Hty Hlen. unfold ref_block. rewrite <- !app_assoc. unfold le16. cbn [app].
  cbn [gcc_read_blocks]. rewrite !le16_of by assumption.
  destruct (N.ltb_spec (nlen body + 4) 4); [lia|]. cbn [obind]. replace (nlen body + 4 - 4) with (nlen body) by lia.
  rewrite ntake_app. reflexivity.
Qed.

(* ---- a list of server blocks, in any order, possibly with blocks the client does not know ---- *)
Inductive sblock :=
| BCore (version : N) (requested flags : option N)
| BSecurity (method level : N)
| BNet (io : N) (ids : list N)
| BOther (ty : N) (body : bytes).

Definition enc_block (b : sblock) : bytes :=
  match b with
  | BCore v r f => ref_sc_core v r f
  | BSecurity m l => ref_sc_security m l
  | BNet io ids => ref_sc_net io ids
  | BOther ty body => ref_block ty body
  end.

Definition enc_blocks (bl : list sblock) : bytes := flat_map enc_block bl.

Definition block_vals_ok (b : sblock) : Prop :=
  match b with
  | BCore v r f => v < 4294967296 /\ opt_lt r 4294967296 /\ opt_lt f 4294967296
  | BSecurity m l => m < 4294967296 /\ l < 4294967296
  | BNet io ids => io < 65536 /\ Forall (fun i => i < 65536) ids
  | BOther ty _ => ty < 65536 /\ ty <> SC_CORE /\ ty <> SC_SECURITY /\ ty <> SC_NET
  end.

(* what the loop remembers of a block: HashMap insert, the last one wins *)
Definition upd (acc : blocks) (b : sblock) : blocks :=
  match b with
  | BCore v r f => {| b_core := Some (core_msg v r f); b_net := b_net acc |}
  | BNet io ids => {| b_core := b_core acc; b_net := Some (net_msg io ids) |}
  | _ => acc
  end.

Lemma nlen_ref_block ty body : nlen (ref_block ty body) = nlen body + 4.
Proof. unfold ref_block, le16. rewrite !nlen_app, !nlen_cons, nlen_nil. lia. Qed.

Lemma nlen_flat_le16 ids : nlen (flat_map le16 ids) = nlen ids * 2.
Proof.
  induction ids as [|i ids IH]; [reflexivity|].
  cbn [flat_map]. unfold le16 at 1. rewrite nlen_app, !nlen_cons, nlen_nil, IH. lia.
Qed.

Lemma nlen_net_body io ids : nlen ids * 2 + 4 <= nlen (ref_sc_net_body io ids).
Proof.
  unfold ref_sc_net_body, le16 at 1 2. rewrite !nlen_app, !nlen_cons, nlen_nil, nlen_flat_le16. lia.
Qed.

Lemma read_blocks_one p fuel b rest acc : block_vals_ok b -> nlen (enc_block b) < 65536 ->
  gcc_read_blocks p (S fuel) (enc_block b ++ rest) acc = gcc_read_blocks p fuel rest (upd acc b).
Proof.
  intros Hv Hn. destruct b as [v r f|m l|io ids|ty body]; cbn [enc_block block_vals_ok upd] in *.
  - destruct Hv as (Hv & Hr & Hf). unfold ref_sc_core in *. rewrite nlen_ref_block in Hn.
    rewrite read_blocks_step by lia. change (3073 =? SC_CORE) with true. cbv iota.
    rewrite read_core_body by assumption. reflexivity.
  - destruct Hv as (Hm & Hl). unfold ref_sc_security in *. rewrite nlen_ref_block in Hn.
    rewrite read_blocks_step by lia. change (3074 =? SC_CORE) with false. change (3074 =? SC_SECURITY) with true.
    cbv iota. rewrite read_security_body by assumption. reflexivity.
  - unfold ref_sc_net in *. rewrite nlen_ref_block in Hn. pose proof (nlen_net_body io ids) as Hb. destruct Hv as [Hio Hv].
    rewrite read_blocks_step by lia.
    change (3075 =? SC_CORE) with false. change (3075 =? SC_SECURITY) with false. change (3075 =? SC_NET) with true.
    cbv iota. destruct (read_net_body p io ids Hio Hv ltac:(lia)) as [a Hr]. rewrite Hr. reflexivity.
  - destruct Hv as (Hty & H1 & H2 & H3). rewrite nlen_ref_block in Hn.
    rewrite read_blocks_step by lia.
    destruct (N.eqb_spec ty SC_CORE); [contradiction|].
    destruct (N.eqb_spec ty SC_SECURITY); [contradiction|].
    destruct (N.eqb_spec ty SC_NET); [contradiction|]. reflexivity.
Qed.

Lemma nlen_enc_block_pos b : 4 <= nlen (enc_block b).
Proof.
  destruct b; cbn [enc_block]; unfold ref_sc_core, ref_sc_security, ref_sc_net; rewrite nlen_ref_block; lia.
Qed.

Lemma read_blocks_all p bl : forall fuel acc,
  Forall block_vals_ok bl -> nlen (enc_blocks bl) < 65536 -> (List.length bl < fuel)%nat ->
  gcc_read_blocks p fuel (enc_blocks bl) acc = Ok (fold_left upd bl acc).
Proof.
  induction bl as [|b bl IH]; intros fuel acc HF Hn Hfuel; (destruct fuel as [|fuel]; [lia|]).
  - reflexivity.
  - inversion HF as [|? ? Hb Hbl]; subst. unfold enc_blocks in *. cbn [flat_map] in *.
    rewrite nlen_app in Hn. rewrite read_blocks_one by (assumption || lia).
    cbn [fold_left]. apply IH; [assumption|lia|cbn [List.length] in Hfuel; lia].
Qed.

Lemma length_enc_blocks bl : (List.length bl <= List.length (enc_blocks bl))%nat.
Proof.
  induction bl as [|b bl IH]; [apply Nat.le_refl|].
  unfold enc_blocks in *. cbn [flat_map List.length]. rewrite app_length.
  pose proof (nlen_enc_block_pos b) as H. unfold nlen in H. lia.
Qed.

(* ---- the PER envelope ---- *)
Lemma ref_length_inv n l : ref_length n = Some l -> n < 32768 /\ l = per_write_length n.
Proof.
  intros H. assert (Hn : n < 32768).
  { unfold ref_length in H. destruct (N.ltb_spec n 128); [lia|]. destruct (N.ltb_spec n 32768); [lia|discriminate]. }
  split; [exact Hn|]. rewrite (per_length_ref n Hn) in H. congruence.
Qed.

Lemma ref_integer_inv n l : ref_integer n = Some l -> n < 4294967296 /\ l = per_write_integer n.
Proof.
  intros H. assert (Hn : n < 4294967296).
  { unfold ref_integer in H. destruct (N.ltb_spec n 256); [lia|]. destruct (N.ltb_spec n 65536); [lia|].
    destruct (N.ltb_spec n 4294967296); [lia|discriminate]. }
  split; [exact Hn|]. rewrite (per_integer_ref n Hn) in H. congruence.
Qed.

Lemma read_t124_oid r : per_read_object_identifier T124_02_98_OID (5 :: 0 :: 20 :: 124 :: 0 :: 1 :: r) = Ok (true, r).
Proof. reflexivity. Qed.

Lemma read_mcdn p r : per_read_octet_stream p H221_SC_KEY 4 (0 :: 77 :: 99 :: 68 :: 110 :: r) = Ok (tt, r).
Proof. destruct p; reflexivity. Qed.

Lemma read_node_id node_id r : 1001 <= node_id -> node_id < 65536 ->
  per_read_integer_16 1001 (be16 (node_id - 1001) ++ r) = Ok (node_id, r).
Proof.
  intros H1 H2. destruct (per_integer_16_roundtrip Debug node_id 1001 r H1 H2) as (b & Hw & Hr & _).
  rewrite per_integer_16_write in Hw by assumption. injection Hw as <-. exact Hr.
Qed.

Definition no_blocks : blocks := {| b_core := None; b_net := None |}.

(* the reader on the envelope: the connectPDU length [n] is read and ignored *)
Lemma read_envelope p n node_id tag result blocks :
  n < 32768 -> 1001 <= node_id -> node_id < 65536 -> tag < 4294967296 -> nlen blocks < 32768 ->
  gcc_read_conference_create_response p
    (t124_key ++ per_write_length n ++ [20] ++ be16 (node_id - 1001) ++ per_write_integer tag ++ [result] ++ [1] ++ [192]
     ++ [0; 77; 99; 68; 110] ++ per_write_length (nlen blocks) ++ blocks)
  = obind (gcc_read_blocks p (S (List.length blocks)) blocks no_blocks) gcc_server_data.
Proof.
  intros Hn Hlo Hhi Htag Hb. unfold gcc_read_conference_create_response, t124_key.
  cbn [app per_read_choice rd_u8 obind]. rewrite read_t124_oid. cbn [obind].
  rewrite per_length_roundtrip by assumption. cbn [obind per_read_choice rd_u8].
  rewrite read_node_id by assumption. cbn [obind].
  rewrite per_integer_roundtrip by assumption.
  cbn [obind per_read_enumerates per_read_number_of_set per_read_choice rd_u8].
  rewrite read_mcdn. cbn [obind].
  rewrite per_length_roundtrip by assumption. cbn [obind].
  rewrite N.min_id. unfold nlen. rewrite Nat2N.id, firstn_all. reflexivity.
Qed.

Theorem gcc_response_blocks : forall p node_id tag result bl b,
  Forall block_vals_ok bl -> node_id < 65536 ->
  ref_conference_create_response node_id tag result (enc_blocks bl) = Some b ->
  gcc_read_conference_create_response p b = gcc_server_data (fold_left upd bl no_blocks).
Proof.
  intros p node_id tag result bl b HF Hnode Href.
  unfold ref_conference_create_response in Href.
  destruct (N.leb_spec 1001 node_id) as [Hlo|]; [|discriminate]. cbn [andb] in Href.
  destruct ((node_id <? 1001 + 65536) && (result <? 256)); [|discriminate].
  destruct (ref_integer tag) as [ti|] eqn:Eti; [|discriminate].
  destruct (ref_length (nlen (enc_blocks bl))) as [lb|] eqn:Elb; [|discriminate].
  cbv zeta in Href.
  match type of Href with context [ref_length ?n] => destruct (ref_length n) as [lp|] eqn:Elp; [|discriminate] end.
  injection Href as <-.
  apply ref_integer_inv in Eti. destruct Eti as [Htag ->].
  apply ref_length_inv in Elb. destruct Elb as [Hblocks ->].
  apply ref_length_inv in Elp. destruct Elp as [Hpdu ->].
  refine (eq_trans (read_envelope p _ node_id tag result (enc_blocks bl) Hpdu Hlo Hnode Htag Hblocks) _).
  rewrite read_blocks_all; [reflexivity|assumption|lia|].
  pose proof (length_enc_blocks bl). lia.
Qed.

(* ---- from the collected blocks to ServerData ---- *)
Lemma u16_values_map ids : u16_values (map g_u16 ids) = Ok ids.
Proof.
  induction ids as [|i ids IH]; [reflexivity|].
  cbn [map u16_values]. change (cast_num 16 (Some (g_u16 i))) with (Ok i). rewrite IH. reflexivity.
Qed.

Lemma server_data_ok v r f io ids :
  gcc_server_data {| b_core := Some (core_msg v r f); b_net := Some (net_msg io ids) |} = Ok (io, ids, version_from v).
Proof.
  unfold gcc_server_data. cbn [b_net b_core].
  change (get (net_msg io ids) "channelIdArray") with (Some (MArray (map g_u16 ids) (Some (g_u16 0)))).
  cbn [trame_of]. rewrite u16_values_map. cbn [obind].
  change (cast_num 32 (get (core_msg v r f) "rdpVersion")) with (Ok v). reflexivity.
Qed.

(* general form: whatever the order, the duplicates and the unknown blocks, the answer is
   made of the LAST core block and the LAST net block *)
Theorem gcc_response_blocks_ok : forall p node_id tag result bl b version requested flags io ids,
  Forall block_vals_ok bl -> node_id < 65536 ->
  fold_left upd bl no_blocks = {| b_core := Some (core_msg version requested flags); b_net := Some (net_msg io ids) |} ->
  ref_conference_create_response node_id tag result (enc_blocks bl) = Some b ->
  gcc_read_conference_create_response p b = Ok (io, ids, version_from version).
Proof.
  intros p node_id tag result bl b v r f io ids HF Hnode Hfold Href.
  rewrite (gcc_response_blocks p node_id tag result bl b HF Hnode Href), Hfold. apply server_data_ok.
Qed.

(* THE ROUND TRIP, the three blocks in the order every server sends them *)
Theorem gcc_response_roundtrip : forall p node_id tag result version requested flags method level io ids b,
  io < 65536 -> Forall (fun i => i < 65536) ids ->
  version < 4294967296 -> opt_lt requested 4294967296 -> opt_lt flags 4294967296 ->
  method < 4294967296 -> level < 4294967296 ->
  1001 <= node_id -> node_id <= 65535 -> tag < 4294967296 -> result < 256 -> nlen ids < 16000 ->
  ref_conference_create_response node_id tag result
    (ref_sc_core version requested flags ++ ref_sc_security method level ++ ref_sc_net io ids) = Some b ->
  gcc_read_conference_create_response p b = Ok (io, ids, version_from version).
Proof.
  intros p node_id tag result v r f m l io ids b Hio Hids Hv Hr Hf Hm Hl Hlo Hhi Htag Hres Hn Href.
  apply (gcc_response_blocks_ok p node_id tag result [BCore v r f; BSecurity m l; BNet io ids] b v r f io ids).
  - repeat constructor; assumption.
  - lia.
  - reflexivity.
  - unfold enc_blocks. cbn [flat_map enc_block]. rewrite app_nil_r. exact Href.
Qed.

(* the hypothesis [... = Some b] is satisfiable on the whole stated domain *)
Lemma nlen_core_body v r f : nlen (ref_sc_core_body v r f) <= 12.
Proof.
  unfold ref_sc_core_body, le32. destruct r as [r|]; [destruct f as [f|]|];
    rewrite ?nlen_app, ?nlen_cons, ?(@nlen_nil N); lia.
Qed.

Lemma nlen_net_body_le io ids : nlen (ref_sc_net_body io ids) <= nlen ids * 2 + 6.
Proof.
  unfold ref_sc_net_body, le16 at 1 2. rewrite !nlen_app, !nlen_cons, nlen_nil, nlen_flat_le16.
  destruct (N.odd (nlen ids)); rewrite ?nlen_cons, ?(@nlen_nil N); lia.
Qed.

Lemma nlen_write_length n : nlen (per_write_length n) <= 2.
Proof. unfold per_write_length. destruct (127 <? n); unfold be16; rewrite ?nlen_cons, ?(@nlen_nil N); lia. Qed.

Lemma nlen_write_integer n : nlen (per_write_integer n) <= 5.
Proof.
  unfold per_write_integer. change (per_write_length 1) with [1]. change (per_write_length 2) with [2].
  change (per_write_length 4) with [4].
  destruct (n <=? 255); [|destruct (n <=? 65535)]; unfold be16, be32; cbn [app];
    rewrite ?nlen_cons, ?(@nlen_nil N); lia.
Qed.

Theorem gcc_response_defined : forall node_id tag result version requested flags method level io ids,
  1001 <= node_id -> node_id <= 65535 -> tag < 4294967296 -> result < 256 -> nlen ids < 16000 ->
  exists b, ref_conference_create_response node_id tag result
              (ref_sc_core version requested flags ++ ref_sc_security method level ++ ref_sc_net io ids) = Some b.
Proof.
  intros node_id tag result v r f m l io ids Hlo Hhi Htag Hres Hn.
  set (blocks := ref_sc_core v r f ++ ref_sc_security m l ++ ref_sc_net io ids).
  assert (Hb : nlen blocks < 32100).
  { unfold blocks, ref_sc_core, ref_sc_security, ref_sc_net. rewrite !nlen_app, !nlen_ref_block.
    pose proof (nlen_core_body v r f). pose proof (nlen_net_body_le io ids).
    unfold ref_sc_security_body, le32. rewrite !nlen_app, !nlen_cons, nlen_nil. lia. }
  unfold ref_conference_create_response.
  destruct (N.leb_spec 1001 node_id); [|lia]. destruct (N.ltb_spec node_id (1001 + 65536)); [|lia].
  destruct (N.ltb_spec result 256); [|lia]. cbn [andb].
  rewrite (per_integer_ref tag Htag), (per_length_ref (nlen blocks)) by lia. cbv zeta.
  match goal with |- context [ref_length ?n] => assert (Hp : n < 32768) end.
  { pose proof (nlen_write_integer tag). pose proof (nlen_write_length (nlen blocks)).
    unfold be16. rewrite !nlen_app, !nlen_cons, !nlen_nil. lia. }
  rewrite per_length_ref by exact Hp. eexists; reflexivity.
Qed.

(* ---- any order of the three blocks ---- *)
Definition orders3 {A} (a b c : A) : list (list A) :=
  [[a; b; c]; [a; c; b]; [b; a; c]; [b; c; a]; [c; a; b]; [c; b; a]].

Theorem gcc_response_any_order : forall p node_id tag result version requested flags method level io ids bl b,
  io < 65536 -> Forall (fun i => i < 65536) ids ->
  version < 4294967296 -> opt_lt requested 4294967296 -> opt_lt flags 4294967296 ->
  method < 4294967296 -> level < 4294967296 -> node_id <= 65535 ->
  In bl (orders3 (BCore version requested flags) (BSecurity method level) (BNet io ids)) ->
  ref_conference_create_response node_id tag result (enc_blocks bl) = Some b ->
  gcc_read_conference_create_response p b = Ok (io, ids, version_from version).
Proof.
  intros p node_id tag result v r f m l io ids bl b Hio Hids Hv Hr Hf Hm Hl Hhi Hin Href.
  assert (Hc : block_vals_ok (BCore v r f)) by (cbn; auto).
  assert (Hs : block_vals_ok (BSecurity m l)) by (cbn; auto).
  assert (Hn : block_vals_ok (BNet io ids)) by (split; assumption).
  apply (gcc_response_blocks_ok p node_id tag result bl b v r f io ids); [| lia | | exact Href];
    cbn [orders3 In] in Hin; decompose [or] Hin; subst; try contradiction;
    try reflexivity; repeat constructor; assumption.
Qed.

(* ---- blocks of unknown type anywhere around the three ---- *)
Definition is_other (b : sblock) : Prop :=
  match b with BOther ty _ => ty < 65536 /\ ty <> SC_CORE /\ ty <> SC_SECURITY /\ ty <> SC_NET | _ => False end.

Lemma fold_other us : forall acc, Forall is_other us -> fold_left upd us acc = acc.
Proof.
  induction us as [|u us IH]; intros acc HF; [reflexivity|].
  inversion HF as [|? ? Hu Hus]; subst. destruct u; try contradiction. cbn [fold_left upd]. apply IH, Hus.
Qed.

Lemma other_vals_ok us : Forall is_other us -> Forall block_vals_ok us.
Proof. intros HF. eapply Forall_impl; [|exact HF]. intros u Hu. destruct u; try contradiction. exact Hu. Qed.

Theorem gcc_response_unknown_blocks : forall p node_id tag result version requested flags method level io ids u0 u1 u2 u3 b,
  io < 65536 -> Forall (fun i => i < 65536) ids ->
  version < 4294967296 -> opt_lt requested 4294967296 -> opt_lt flags 4294967296 ->
  method < 4294967296 -> level < 4294967296 -> node_id <= 65535 ->
  Forall is_other u0 -> Forall is_other u1 -> Forall is_other u2 -> Forall is_other u3 ->
  ref_conference_create_response node_id tag result
    (enc_blocks (u0 ++ [BCore version requested flags] ++ u1 ++ [BSecurity method level] ++ u2 ++ [BNet io ids] ++ u3)) = Some b ->
  gcc_read_conference_create_response p b = Ok (io, ids, version_from version).
Proof.
  intros p node_id tag result v r f m l io ids u0 u1 u2 u3 b Hio Hids Hv Hr Hf Hm Hl Hhi H0 H1 H2 H3 Href.
  eapply gcc_response_blocks_ok; [| |  |exact Href].
  - repeat (apply Forall_app; split); try (apply other_vals_ok; assumption); repeat constructor; cbn; auto.
  - lia.
  - rewrite !fold_left_app. rewrite (fold_other u0) by assumption. cbn [fold_left upd].
    rewrite (fold_other u1) by assumption. cbn [fold_left upd].
    rewrite (fold_other u2) by assumption. cbn [fold_left upd].
    rewrite (fold_other u3) by assumption. reflexivity.
Qed.

(* ================================================================ (d) block-level round trips *)
Ltac split_and := repeat match goal with |- (_ && _) = true => apply andb_true_iff; split end.

Lemma client_core_data_wf p closed version width height layout name16 selected :
  version < 4294967296 -> width < 65536 -> height < 65536 -> layout < 4294967296 ->
  List.length name16 = 32%nat -> selected < 4294967296 ->
  wf p closed (client_core_data 0 0 0 0 (repeat 0 32) 0) (client_core_data version width height layout name16 selected) = true.
Proof.
  intros Hv Hw Hh Hl Hn Hs. unfold client_core_data, g_u16, g_u32.
  wf_cbn. rewrite Hn. split_and; first [reflexivity | apply N.ltb_lt; assumption].
Qed.

(* shape of the block-level statements: the message is writable, its length() is the number
   of bytes written, and the bytes read back into the template give the message exactly *)
Definition block_roundtrip (p : prof) (closed : bool) (t m : msg) : Prop :=
  exists b, write p m = Some b /\ mlength p m = Some (nlen b) /\
            forall rest, (closed = true -> rest = []) -> exists a, read p t (b ++ rest) = ROk m rest a.

Theorem client_core_data_roundtrip : forall p version width height layout name16 selected,
  version < 4294967296 -> width < 65536 -> height < 65536 -> layout < 4294967296 ->
  List.length name16 = 32%nat -> selected < 4294967296 ->
  block_roundtrip p false (client_core_data 0 0 0 0 (repeat 0 32) 0)
                  (client_core_data version width height layout name16 selected).
Proof. intros. apply read_write_total. apply client_core_data_wf; assumption. Qed.

(* the body is 212 bytes: with its header, the 216 of TS_UD_CS_CORE up to serverSelectedProtocol *)
Lemma client_core_data_length p version width height layout name16 selected :
  List.length name16 = 32%nat ->
  mlength p (client_core_data version width height layout name16 selected) = Some 212.
Proof. intros Hn. unfold client_core_data. cbn [mlength mem options g_u16 g_u32]. unfold nlen. rewrite Hn. reflexivity. Qed.

Theorem client_security_data_roundtrip : forall p,
  block_roundtrip p false client_security_data client_security_data.
Proof. intros p. apply read_write_total. destruct p; reflexivity. Qed.

Theorem client_network_data_roundtrip : forall p count defs, count < 4294967296 ->
  block_roundtrip p true (client_network_data 0 []) (client_network_data count defs).
Proof.
  intros p count defs Hc. apply read_write_total. unfold client_network_data, g_u32. wf_cbn.
  apply N.ltb_lt in Hc. rewrite Hc. reflexivity.
Qed.

Theorem server_security_data_roundtrip : forall p method level, method < 4294967296 -> level < 4294967296 ->
  block_roundtrip p false server_security_data (security_msg method level).
Proof.
  intros p m l Hm Hl. apply read_write_total. unfold server_security_data, security_msg, g_u32. wf_cbn.
  apply N.ltb_lt in Hm, Hl. rewrite Hm, Hl. reflexivity.
Qed.

(* server_core_data: both optional fields present (self-delimiting) *)
Theorem server_core_data_roundtrip_both : forall p version requested flags,
  version < 4294967296 -> requested < 4294967296 -> flags < 4294967296 ->
  block_roundtrip p false server_core_data (core_msg version (Some requested) (Some flags)).
Proof.
  intros p v r f Hv Hr Hf. apply read_write_total. unfold server_core_data, core_msg, opt_u32, g_u32. wf_cbn.
  apply N.ltb_lt in Hv, Hr, Hf. rewrite Hv, Hr, Hf. reflexivity.
Qed.

(* only clientRequestedProtocol: the absent last field needs the end of the reader *)
Theorem server_core_data_roundtrip_one : forall p version requested,
  version < 4294967296 -> requested < 4294967296 ->
  block_roundtrip p true server_core_data (core_msg version (Some requested) None).
Proof.
  intros p v r Hv Hr. apply read_write_total. unfold server_core_data, core_msg, opt_u32, g_u32. wf_cbn.
  apply N.ltb_lt in Hv, Hr. rewrite Hv, Hr. reflexivity.
Qed.

(* no optional field: two absent trailing fields in a row; the checker covers them (the first absent
   field is followed by a field that writes nothing), the open reader is still refused *)
Lemma server_core_data_none_wf p version : version < 4294967296 ->
  wf p true server_core_data (core_msg version None None) = true /\
  wf p false server_core_data (core_msg version None None) = false.
Proof.
  intros Hv. apply N.ltb_lt in Hv. unfold server_core_data, core_msg, opt_u32, g_u32. wf_cbn. rewrite Hv.
  destruct p; split; reflexivity.
Qed.

Theorem server_core_data_roundtrip_none : forall p version, version < 4294967296 ->
  block_roundtrip p true server_core_data (core_msg version None None).
Proof. intros p v Hv. apply read_write_total. apply server_core_data_none_wf. exact Hv. Qed.

(* the bytes written are the reference block bodies *)
Lemma core_msg_write p v r f : write p (core_msg v r f) = Some (ref_sc_core_body v r f).
Proof.
  destruct r as [r|]; [destruct f as [f|]|]; unfold ref_sc_core_body; rewrite ?app_nil_r; reflexivity.
Qed.

Lemma security_msg_write p m l : write p (security_msg m l) = Some (ref_sc_security_body m l).
Proof. reflexivity. Qed.

Lemma net_msg_write p io ids : nlen ids < 65536 ->
  exists w, write p (net_msg io ids) = Some w /\ ref_sc_net_body io ids = w ++ net_pad ids.
Proof.
  intros Hn. eexists. split; [apply net_write; exact Hn|].
  unfold ref_sc_net_body. fold (net_pad ids). apply app4_assoc.
Qed.

(* server_network_data is self-delimiting (the id array is sized by the count) *)
Theorem server_network_data_roundtrip : forall p io ids,
  io < 65536 -> Forall (fun i => i < 65536) ids -> nlen ids < 65536 ->
  block_roundtrip p false server_network_data (net_msg io ids).
Proof. intros p io ids Hio HF Hn. apply read_write_total. apply net_wf; assumption. Qed.

(* ================================================================ (e) non-vacuity and the known defects *)
Definition ex_blocks : bytes :=
  ref_sc_core 524292 (Some 1) None ++ ref_sc_security 0 0 ++ ref_sc_net 1003 [1004; 1005; 1006].

Definition ex_response : bytes :=
  [0; 5; 0; 20; 124; 0; 1; 54; 20; 118; 10; 1; 1; 0; 1; 192; 0; 77; 99; 68; 110; 40;
   1; 12; 12; 0; 4; 0; 8; 0; 1; 0; 0; 0;
   2; 12; 12; 0; 0; 0; 0; 0; 0; 0; 0; 0;
   3; 12; 16; 0; 235; 3; 3; 0; 236; 3; 237; 3; 238; 3; 0; 0].

Example gcc_response_example_bytes : ref_conference_create_response 31219 1 0 ex_blocks = Some ex_response.
Proof. vm_compute. reflexivity. Qed.

Example gcc_response_example :
  gcc_read_conference_create_response Debug ex_response = Ok (1003, [1004; 1005; 1006], RdpVersion5plus)
  /\ gcc_read_conference_create_response Release ex_response = Ok (1003, [1004; 1005; 1006], RdpVersion5plus).
Proof. split; vm_compute; reflexivity. Qed.

(* the same through the theorem: its hypotheses are satisfiable *)
Example gcc_response_example_by_theorem p :
  gcc_read_conference_create_response p ex_response = Ok (1003, [1004; 1005; 1006], version_from 524292).
Proof.
  apply (gcc_response_roundtrip p 31219 1 0 524292 (Some 1) None 0 0 1003 [1004; 1005; 1006] ex_response);
    try (cbn [opt_lt]; lia); try exact I.
  - repeat constructor.
  - unfold nlen. cbn [List.length N.of_nat]. lia.
  - exact gcc_response_example_bytes.
Qed.

(* even count: no pad; SC_NET first, an unknown block (type 0x0C04) in between *)
Example gcc_response_example_reordered :
  match ref_conference_create_response 1001 70000 0
          (ref_sc_net 1007 [1004; 1005] ++ ref_block 3076 [9; 9; 9] ++ ref_sc_core 524289 None None ++ ref_sc_security 2 1) with
  | Some b => gcc_read_conference_create_response Debug b = Ok (1007, [1004; 1005], RdpVersion)
  | None => False
  end.
Proof. vm_compute. reflexivity. Qed.

Example gcc_request_example :
  gcc_write_conference_create_request Debug [1; 2; 3]
    = Ok [0; 5; 0; 20; 124; 0; 1; 17; 0; 8; 0; 16; 0; 1; 192; 0; 68; 117; 99; 97; 3; 1; 2; 3]
  /\ gcc_write_conference_create_request Release [1; 2; 3]
    = Ok [0; 5; 0; 20; 124; 0; 1; 17; 0; 8; 0; 16; 0; 1; 192; 0; 68; 117; 99; 97; 3; 1; 2; 3]
  /\ ref_conference_create_request [1; 2; 3]
    = Some [0; 5; 0; 20; 124; 0; 1; 17; 0; 8; 0; 16; 0; 1; 192; 0; 68; 117; 99; 97; 3; 1; 2; 3].
Proof. repeat split; vm_compute; reflexivity. Qed.

(* ---- the two defects repaired under property C05 (5244ade, 6fc1e27): plain examples ---- *)
(* a well-formed response WITHOUT an SC_NET block is an error (it used to panic on the map index) *)
Definition ex_response_no_net : bytes :=
  [0; 5; 0; 20; 124; 0; 1; 38; 20; 118; 10; 1; 1; 0; 1; 192; 0; 77; 99; 68; 110; 24;
   1; 12; 12; 0; 4; 0; 8; 0; 1; 0; 0; 0;
   2; 12; 12; 0; 0; 0; 0; 0; 0; 0; 0; 0].

Example gcc_response_no_net_refused :
  ref_conference_create_response 31219 1 0 (ref_sc_core 524292 (Some 1) None ++ ref_sc_security 0 0) = Some ex_response_no_net
  /\ gcc_read_conference_create_response Debug ex_response_no_net = Err EInvalidData
  /\ gcc_read_conference_create_response Release ex_response_no_net = Err EInvalidData.
Proof. repeat split; vm_compute; reflexivity. Qed.

(* a block whose declared length (3) is below the header size is refused in both profiles
   (the u16 subtraction used to underflow) *)
Definition ex_response_short_block : bytes :=
  [0; 5; 0; 20; 124; 0; 1; 42; 20; 118; 10; 1; 1; 0; 1; 192; 0; 77; 99; 68; 110; 28;
   1; 12; 12; 0; 4; 0; 8; 0; 1; 0; 0; 0;
   3; 12; 3; 0;
   3; 12; 12; 0; 235; 3; 1; 0; 236; 3; 0; 0].

Example gcc_response_short_block_refused :
  ref_conference_create_response 31219 1 0 (ref_sc_core 524292 (Some 1) None ++ [3; 12; 3; 0] ++ ref_sc_net 1003 [1004]) = Some ex_response_short_block
  /\ gcc_read_conference_create_response Debug ex_response_short_block = Err EInvalidSize
  /\ gcc_read_conference_create_response Release ex_response_short_block = Err EInvalidSize.
Proof. repeat split; vm_compute; reflexivity. Qed.
