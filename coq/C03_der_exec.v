(* C03 / NLA: the EXECUTABLE TSRequest codecs -- the DER writers of CsspGateExec.v (model of yasna::construct_der on the
   fixed shapes of nla/cssp.rs) and the readers of DerRead.v (model of yasna 0.3.2's DER reader on the two read
   templates) -- satisfy [codec_ok]: the writers produce the encoding of C18's TLV model (Der.v), the readers return
   the token of a reply that arrives whole.  With it the NLA theorems of C03 hold for the executable instance
   (FlowNlaRun.v) with no hypothesis on the codecs. *)
From Coq Require Import Lia.
From RdpV Require Import Base Der DerRead CsspGateExec C18_der_proofs.
Open Scope list_scope.
Open Scope N_scope.
#[local] Notation length := List.length (only parsing).

(* ================================================================== A. length octets: der_len = enc_len *)
Lemma be_digits_snoc b : b <> 0 -> forall j n, Der.be_digits b (S j) n = Der.be_digits b j (n / b) ++ [n mod b].
Proof.
  intros Hb. induction j as [|j IH]; intros n.
  - cbn [Der.be_digits app N.of_nat]. rewrite N.pow_0_r, N.div_1_r. reflexivity.
  - change (Der.be_digits b (S (S j)) n) with ((n / b ^ N.of_nat (S j)) mod b :: Der.be_digits b (S j) n).
    rewrite IH. change (Der.be_digits b (S j) (n / b)) with ((n / b / b ^ N.of_nat j) mod b :: Der.be_digits b j (n / b)).
    cbn [app]. f_equal. f_equal.
    rewrite Nat2N.inj_succ, N.pow_succ_r', N.div_div; [reflexivity|exact Hb|].
    apply N.pow_nonzero. exact Hb.
Qed.

(* the digit loop of CsspGateExec.v on a number of exactly k+1 base-256 digits, with enough fuel *)
Lemma exec_digits k : forall fuel n acc,
  (k < fuel)%nat -> 256 ^ N.of_nat k <= n < 256 ^ N.of_nat (S k) ->
  CsspGateExec.be_digits fuel n acc = be_bytes (S k) n ++ acc.
Proof.
  induction k as [|k IH]; intros fuel n acc Hf [Hlo Hhi].
  - destruct fuel as [|fuel]; [lia|]. cbn [CsspGateExec.be_digits].
    change (256 ^ N.of_nat 0) with 1 in Hlo. change (256 ^ N.of_nat 1) with 256 in Hhi.
    replace (n =? 0) with false by (symmetry; apply N.eqb_neq; lia).
    assert (Hq : n / 256 = 0) by (apply N.div_small; exact Hhi).
    rewrite Hq. unfold be_bytes. cbn [Der.be_digits N.of_nat]. rewrite N.pow_0_r, N.div_1_r. cbn [app].
    destruct fuel; reflexivity.
  - destruct fuel as [|fuel]; [lia|]. cbn [CsspGateExec.be_digits].
    assert (Hp : 256 ^ N.of_nat (S k) <> 0) by (apply N.pow_nonzero; discriminate).
    replace (n =? 0) with false by (symmetry; apply N.eqb_neq; lia).
    rewrite (IH fuel (n / 256) (n mod 256 :: acc)); [| lia |].
    + unfold be_bytes. rewrite (be_digits_snoc 256 ltac:(discriminate) (S k) n), <- app_assoc. reflexivity.
    + rewrite !Nat2N.inj_succ, !N.pow_succ_r' in *. split.
      * apply N.div_le_lower_bound; [discriminate|]. lia.
      * apply N.div_lt_upper_bound; [discriminate|]. lia.
Qed.

Definition DER_MAX : N := 4722366482869645213696.    (* 256^9: what 9 length octets can announce *)

Lemma der_len_enc_len n : n < DER_MAX -> der_len n = enc_len n.
Proof.
  intros Hn. unfold der_len, enc_len. destruct (n <? 128) eqn:Hs; [reflexivity|].
  apply N.ltb_ge in Hs.
  destruct (ndigits8_spec n) as [k [Hk [Hlo Hhi]]]; [lia|].
  assert (Hk9 : (k < 9)%nat).
  { destruct (Nat.lt_ge_cases k 9) as [H|H]; [exact H|]. exfalso.
    assert (256 ^ 9 <= 256 ^ N.of_nat k) by (apply N.pow_le_mono_r; lia).
    change (256 ^ 9) with DER_MAX in *. lia. }
  rewrite Hk, (exec_digits k 9 n [] Hk9 (conj Hlo Hhi)), app_nil_r, nlen_be_bytes. reflexivity.
Qed.

Lemma nlen_enc_len n : n < DER_MAX -> nlen (enc_len n) <= 10.
Proof.
  intros Hn. unfold enc_len. destruct (n <? 128) eqn:Hs; [unfold nlen; cbn; lia|].
  apply N.ltb_ge in Hs.
  destruct (ndigits8_spec n) as [k [Hk [Hlo Hhi]]]; [lia|].
  assert (Hk9 : (k < 9)%nat).
  { destruct (Nat.lt_ge_cases k 9) as [H|H]; [exact H|]. exfalso.
    assert (256 ^ 9 <= 256 ^ N.of_nat k) by (apply N.pow_le_mono_r; lia).
    change (256 ^ 9) with DER_MAX in *. lia. }
  rewrite Hk, nlen_cons, nlen_be_bytes. lia.
Qed.

(* ================================================================== B. the writers of CsspGateExec.v produce the DER of Der.v *)
(* one TLV with a low tag number: identifier octet [tag] *)
Lemma der_tlv_tlv tag ct k body :
  enc_ident (fst ct) k (snd ct) = [tag] -> nlen body < DER_MAX -> der_tlv tag body = tlv ct k body.
Proof. intros Hi Hb. unfold der_tlv, tlv. rewrite Hi, (der_len_enc_len _ Hb). reflexivity. Qed.

Lemma nlen_tlv_le tag ct k body B :
  enc_ident (fst ct) k (snd ct) = [tag] -> nlen body <= B -> B < DER_MAX -> nlen (tlv ct k body) <= B + 11.
Proof.
  intros Hi Hb HB. unfold tlv. rewrite Hi, !nlen_app.
  pose proof (nlen_enc_len (nlen body) ltac:(lia)). change (nlen [tag]) with 1. lia.
Qed.

(* the arguments of a writer are far below what DER length octets can announce *)
Definition ARG_MAX : N := 4294967296.

Lemma nlen_tlv_le' tag ct k body B B' :
  enc_ident (fst ct) k (snd ct) = [tag] -> nlen body <= B -> B < DER_MAX -> B + 11 <= B' -> nlen (tlv ct k body) <= B'.
Proof. intros Hi Hb HB HB'. pose proof (nlen_tlv_le tag ct k body B Hi Hb HB). lia. Qed.

Ltac tlv_bound H :=
  eapply nlen_tlv_le'; [reflexivity | exact H | unfold DER_MAX, ARG_MAX in *; lia | unfold ARG_MAX in *; lia].
Ltac tlv_eq tag ct k body := rewrite (der_tlv_tlv tag ct k body eq_refl) by (unfold DER_MAX, ARG_MAX in *; lia).

Lemma x_ts_request_der nego : nlen nego <= ARG_MAX -> x_create_ts_request nego = der_encode (ts_request nego).
Proof.
  intros Hn. unfold x_create_ts_request, der_encode, ts_request, der_seq, der_ctx, der_octets, der_small_int.
  cbn [der_enc pick map List.concat]. rewrite !app_nil_r.
  change (160 + 0) with 160. change (160 + 1) with 161.
  change (der_tlv 160 [2; 1; 2]) with (tlv (Context, 0) true (tlv (Universal, 2) false (enc_int 2))).
  set (b1 := tlv (Universal, 4) false nego). set (b2 := tlv (Context, 0) true b1).
  set (b3 := tlv (Universal, 16) true b2). set (b4 := tlv (Universal, 16) true b3). set (b5 := tlv (Context, 1) true b4).
  assert (H1 : nlen b1 <= ARG_MAX + 11) by (unfold b1; tlv_bound Hn).
  assert (H2 : nlen b2 <= ARG_MAX + 22) by (unfold b2; tlv_bound H1).
  assert (H3 : nlen b3 <= ARG_MAX + 33) by (unfold b3; tlv_bound H2).
  assert (H4 : nlen b4 <= ARG_MAX + 44) by (unfold b4; tlv_bound H3).
  assert (H5 : nlen b5 <= ARG_MAX + 55) by (unfold b5; tlv_bound H4).
  tlv_eq 4 (Universal, 4) false nego. fold b1. tlv_eq 160 (Context, 0) true b1. fold b2.
  tlv_eq 48 (Universal, 16) true b2. fold b3. tlv_eq 48 (Universal, 16) true b3. fold b4.
  tlv_eq 161 (Context, 1) true b4. fold b5.
  apply (der_tlv_tlv 48 (Universal, 16) true _ eq_refl).
  rewrite nlen_app. change (nlen (tlv (Context, 0) true (tlv (Universal, 2) false (enc_int 2)))) with 5.
  unfold DER_MAX, ARG_MAX in *. lia.
Qed.

Lemma x_ts_authenticate_der nego pka :
  nlen nego + nlen pka <= ARG_MAX -> x_create_ts_authenticate nego pka = der_encode (ts_authenticate nego pka).
Proof.
  intros Hn. unfold x_create_ts_authenticate, der_encode, ts_authenticate, der_seq, der_ctx, der_octets, der_small_int.
  cbn [der_enc pick map List.concat]. rewrite !app_nil_r.
  change (160 + 0) with 160. change (160 + 1) with 161. change (160 + 3) with 163.
  change (der_tlv 160 [2; 1; 2]) with (tlv (Context, 0) true (tlv (Universal, 2) false (enc_int 2))).
  set (b1 := tlv (Universal, 4) false nego). set (b2 := tlv (Context, 0) true b1).
  set (b3 := tlv (Universal, 16) true b2). set (b4 := tlv (Universal, 16) true b3). set (b5 := tlv (Context, 1) true b4).
  set (c1 := tlv (Universal, 4) false pka). set (c2 := tlv (Context, 3) true c1).
  assert (Hn1 : nlen nego <= ARG_MAX) by lia. assert (Hn2 : nlen pka <= ARG_MAX) by lia.
  assert (H1 : nlen b1 <= nlen nego + 11) by (unfold b1; eapply nlen_tlv_le'; [reflexivity|apply N.le_refl|unfold DER_MAX, ARG_MAX in *; lia|lia]).
  assert (H2 : nlen b2 <= nlen nego + 22) by (unfold b2; tlv_bound H1).
  assert (H3 : nlen b3 <= nlen nego + 33) by (unfold b3; tlv_bound H2).
  assert (H4 : nlen b4 <= nlen nego + 44) by (unfold b4; tlv_bound H3).
  assert (H5 : nlen b5 <= nlen nego + 55) by (unfold b5; tlv_bound H4).
  assert (G1 : nlen c1 <= nlen pka + 11) by (unfold c1; eapply nlen_tlv_le'; [reflexivity|apply N.le_refl|unfold DER_MAX, ARG_MAX in *; lia|lia]).
  assert (G2 : nlen c2 <= nlen pka + 22) by (unfold c2; tlv_bound G1).
  tlv_eq 4 (Universal, 4) false nego. fold b1. tlv_eq 160 (Context, 0) true b1. fold b2.
  tlv_eq 48 (Universal, 16) true b2. fold b3. tlv_eq 48 (Universal, 16) true b3. fold b4.
  tlv_eq 161 (Context, 1) true b4. fold b5.
  tlv_eq 4 (Universal, 4) false pka. fold c1. tlv_eq 163 (Context, 3) true c1. fold c2.
  apply (der_tlv_tlv 48 (Universal, 16) true _ eq_refl).
  rewrite !nlen_app. change (nlen (tlv (Context, 0) true (tlv (Universal, 2) false (enc_int 2)))) with 5.
  unfold DER_MAX, ARG_MAX in *. lia.
Qed.

Lemma x_ts_authinfo_der info : nlen info <= ARG_MAX -> x_create_ts_authinfo info = der_encode (ts_authinfo info).
Proof.
  intros Hn. unfold x_create_ts_authinfo, der_encode, ts_authinfo, der_seq, der_ctx, der_octets, der_small_int.
  cbn [der_enc pick map List.concat]. rewrite !app_nil_r.
  change (160 + 0) with 160. change (160 + 2) with 162.
  change (der_tlv 160 [2; 1; 2]) with (tlv (Context, 0) true (tlv (Universal, 2) false (enc_int 2))).
  set (c1 := tlv (Universal, 4) false info). set (c2 := tlv (Context, 2) true c1).
  assert (G1 : nlen c1 <= ARG_MAX + 11) by (unfold c1; tlv_bound Hn).
  assert (G2 : nlen c2 <= ARG_MAX + 22) by (unfold c2; tlv_bound G1).
  tlv_eq 4 (Universal, 4) false info. fold c1. tlv_eq 162 (Context, 2) true c1. fold c2.
  apply (der_tlv_tlv 48 (Universal, 16) true _ eq_refl).
  rewrite !nlen_app. change (nlen (tlv (Context, 0) true (tlv (Universal, 2) false (enc_int 2)))) with 5.
  unfold DER_MAX, ARG_MAX in *. lia.
Qed.

Lemma x_ts_credentials_der d u pw :
  nlen d + nlen u + nlen pw <= ARG_MAX -> x_create_ts_credentials d u pw = der_encode (ts_credentials d u pw).
Proof.
  intros Hn. unfold x_create_ts_credentials, der_encode, ts_credentials, ts_password_creds, der_seq, der_ctx, der_octets, der_small_int.
  cbn [der_enc pick map List.concat]. unfold der_encode. cbn [der_enc pick map List.concat]. rewrite !app_nil_r.
  change (160 + 0) with 160. change (160 + 1) with 161. change (160 + 2) with 162.
  change (der_tlv 160 [2; 1; 1]) with (tlv (Context, 0) true (tlv (Universal, 2) false (enc_int 1))).
  set (d1 := tlv (Universal, 4) false d). set (d2 := tlv (Context, 0) true d1).
  set (u1 := tlv (Universal, 4) false u). set (u2 := tlv (Context, 1) true u1).
  set (p1 := tlv (Universal, 4) false pw). set (p2 := tlv (Context, 2) true p1).
  set (s1 := tlv (Universal, 16) true (d2 ++ u2 ++ p2)).
  set (o1 := tlv (Universal, 4) false s1). set (o2 := tlv (Context, 1) true o1).
  assert (D1 : nlen d1 <= nlen d + 11) by (unfold d1; eapply nlen_tlv_le'; [reflexivity|apply N.le_refl|unfold DER_MAX, ARG_MAX in *; lia|lia]).
  assert (D2 : nlen d2 <= nlen d + 22) by (unfold d2; tlv_bound D1).
  assert (U1 : nlen u1 <= nlen u + 11) by (unfold u1; eapply nlen_tlv_le'; [reflexivity|apply N.le_refl|unfold DER_MAX, ARG_MAX in *; lia|lia]).
  assert (U2 : nlen u2 <= nlen u + 22) by (unfold u2; tlv_bound U1).
  assert (P1 : nlen p1 <= nlen pw + 11) by (unfold p1; eapply nlen_tlv_le'; [reflexivity|apply N.le_refl|unfold DER_MAX, ARG_MAX in *; lia|lia]).
  assert (P2 : nlen p2 <= nlen pw + 22) by (unfold p2; tlv_bound P1).
  assert (S0 : nlen (d2 ++ u2 ++ p2) <= ARG_MAX + 66) by (rewrite !nlen_app; lia).
  assert (S1 : nlen s1 <= ARG_MAX + 77) by (unfold s1; tlv_bound S0).
  assert (O1 : nlen o1 <= ARG_MAX + 88) by (unfold o1; tlv_bound S1).
  assert (O2 : nlen o2 <= ARG_MAX + 99) by (unfold o2; tlv_bound O1).
  tlv_eq 4 (Universal, 4) false d. fold d1. tlv_eq 160 (Context, 0) true d1. fold d2.
  tlv_eq 4 (Universal, 4) false u. fold u1. tlv_eq 161 (Context, 1) true u1. fold u2.
  tlv_eq 4 (Universal, 4) false pw. fold p1. tlv_eq 162 (Context, 2) true p1. fold p2.
  tlv_eq 48 (Universal, 16) true (d2 ++ u2 ++ p2). fold s1.
  tlv_eq 4 (Universal, 4) false s1. fold o1. tlv_eq 161 (Context, 1) true o1. fold o2.
  apply (der_tlv_tlv 48 (Universal, 16) true _ eq_refl).
  rewrite !nlen_app. change (nlen (tlv (Context, 0) true (tlv (Universal, 2) false (enc_int 1)))) with 5.
  unfold DER_MAX, ARG_MAX in *. lia.
Qed.

(* an upper bound on the DER of TSCredentials (for the size guards of the writers that seal it) *)
Lemma nlen_ts_credentials_le d u pw :
  nlen d + nlen u + nlen pw <= ARG_MAX -> nlen (der_encode (ts_credentials d u pw)) <= nlen d + nlen u + nlen pw + 128.
Proof.
  intros Hn. unfold der_encode, ts_credentials, ts_password_creds.
  cbn [der_enc pick map List.concat]. unfold der_encode. cbn [der_enc pick map List.concat]. rewrite !app_nil_r.
  set (d1 := tlv (Universal, 4) false d). set (d2 := tlv (Context, 0) true d1).
  set (u1 := tlv (Universal, 4) false u). set (u2 := tlv (Context, 1) true u1).
  set (p1 := tlv (Universal, 4) false pw). set (p2 := tlv (Context, 2) true p1).
  set (s1 := tlv (Universal, 16) true (d2 ++ u2 ++ p2)).
  set (o1 := tlv (Universal, 4) false s1). set (o2 := tlv (Context, 1) true o1).
  assert (D1 : nlen d1 <= nlen d + 11) by (unfold d1; eapply nlen_tlv_le'; [reflexivity|apply N.le_refl|unfold DER_MAX, ARG_MAX in *; lia|lia]).
  assert (D2 : nlen d2 <= nlen d + 22) by (unfold d2; tlv_bound D1).
  assert (U1 : nlen u1 <= nlen u + 11) by (unfold u1; eapply nlen_tlv_le'; [reflexivity|apply N.le_refl|unfold DER_MAX, ARG_MAX in *; lia|lia]).
  assert (U2 : nlen u2 <= nlen u + 22) by (unfold u2; tlv_bound U1).
  assert (P1 : nlen p1 <= nlen pw + 11) by (unfold p1; eapply nlen_tlv_le'; [reflexivity|apply N.le_refl|unfold DER_MAX, ARG_MAX in *; lia|lia]).
  assert (P2 : nlen p2 <= nlen pw + 22) by (unfold p2; tlv_bound P1).
  assert (S0 : nlen (d2 ++ u2 ++ p2) <= nlen d + nlen u + nlen pw + 66) by (rewrite !nlen_app; lia).
  assert (S1 : nlen s1 <= nlen d + nlen u + nlen pw + 77) by (unfold s1; tlv_bound S0).
  assert (O1 : nlen o1 <= nlen d + nlen u + nlen pw + 88) by (unfold o1; tlv_bound S1).
  assert (O2 : nlen o2 <= nlen d + nlen u + nlen pw + 99) by (unfold o2; tlv_bound O1).
  assert (T0 : nlen (tlv (Context, 0) true (tlv (Universal, 2) false (enc_int 1)) ++ o2) <= nlen d + nlen u + nlen pw + 104).
  { rewrite nlen_app. change (nlen (tlv (Context, 0) true (tlv (Universal, 2) false (enc_int 1)))) with 5. lia. }
  tlv_bound T0.
Qed.

(* ================================================================== C. the yasna model of DerRead.v reads the DER of Der.v *)
Ltac Zify.zify_post_hook ::= Z.to_euclidean_division_equations.

Lemma ndigits8_eq n k : 256 ^ N.of_nat k <= n < 256 ^ N.of_nat (S k) -> ndigits 8 n = S k.
Proof.
  intros [Hlo Hhi].
  assert (Hn : n <> 0) by (pose proof (N.pow_nonzero 256 (N.of_nat k) ltac:(discriminate)); lia).
  destruct (ndigits8_spec n Hn) as [k' [Hk [Hlo' Hhi']]]. rewrite Hk. f_equal.
  destruct (Nat.lt_trichotomy k' k) as [H|[H|H]]; [exfalso|exact H|exfalso].
  - assert (256 ^ N.of_nat (S k') <= 256 ^ N.of_nat k) by (apply N.pow_le_mono_r; lia). lia.
  - assert (256 ^ N.of_nat (S k) <= 256 ^ N.of_nat k') by (apply N.pow_le_mono_r; lia). lia.
Qed.

Lemma enc_len_cases n : n < 65536 ->
  enc_len n = if n <? 128 then [n] else if n <? 256 then [129; n] else [130; n / 256; n mod 256].
Proof.
  intros Hn. unfold enc_len. destruct (N.ltb_spec n 128) as [H1|H1]; [reflexivity|].
  destruct (N.ltb_spec n 256) as [H2|H2].
  - rewrite (ndigits8_eq n 0) by (cbn; lia). unfold be_bytes. cbn [Der.be_digits N.of_nat].
    rewrite N.pow_0_r, N.div_1_r, N.mod_small by lia. reflexivity.
  - rewrite (ndigits8_eq n 1) by (cbn; lia). unfold be_bytes. cbn [Der.be_digits N.of_nat].
    rewrite N.pow_0_r, N.div_1_r. change (256 ^ 1) with 256. rewrite (N.mod_small (n / 256)) by lia. reflexivity.
Qed.

Lemma land_128_small n : n < 128 -> N.land n 128 = 0.
Proof.
  intros Hn. apply N.bits_inj_0. intros m. rewrite N.land_spec.
  change 128 with (2 ^ 7). rewrite N.pow2_bits_eqb.
  destruct (N.eqb_spec 7 m) as [<-|Hne]; [|apply andb_false_r].
  rewrite andb_true_r. destruct (N.eq_dec n 0) as [->|Hz]; [reflexivity|].
  apply N.bits_above_log2. apply N.log2_lt_pow2; lia.
Qed.

Lemma read_length_enc pos n r : n < 65536 -> pos < two64 - 8 ->
  read_length (pos, enc_len n ++ r) = Some (Some n, (pos + nlen (enc_len n), r)).
Proof.
  intros Hn Hp. rewrite (enc_len_cases n Hn). unfold read_length.
  destruct (N.ltb_spec n 128) as [H1|H1]; [|destruct (N.ltb_spec n 256) as [H2|H2]]; cbn [app snd fst].
  - replace (n =? 128) with false by (symmetry; apply N.eqb_neq; lia).
    replace (n =? 255) with false by (symmetry; apply N.eqb_neq; lia).
    rewrite (land_128_small n H1). reflexivity.
  - change (129 =? 128) with false. change (129 =? 255) with false. change (N.land 129 128 =? 0) with false.
    change (N.to_nat (N.land 129 127)) with 1%nat. cbn [len_digits].
    change (two64 <=? 0 * 256) with false. cbv iota. change (0 * 256 + n) with n.
    replace (n <? 128) with false by (symmetry; apply N.ltb_ge; lia).
    change (nlen [129; n]) with 2. replace (pos + 1 + 1) with (pos + 2) by lia. reflexivity.
  - change (130 =? 128) with false. change (130 =? 255) with false. change (N.land 130 128 =? 0) with false.
    change (N.to_nat (N.land 130 127)) with 2%nat. cbn [len_digits].
    change (two64 <=? 0 * 256) with false. cbv iota. change (0 * 256 + n / 256) with (n / 256).
    replace (two64 <=? n / 256 * 256) with false by (symmetry; apply N.leb_gt; unfold two64; lia).
    replace (n / 256 * 256 + n mod 256) with n by lia.
    replace (n <? 128) with false by (symmetry; apply N.ltb_ge; lia).
    change (nlen [130; n / 256; n mod 256]) with 3. replace (pos + 1 + 1 + 1) with (pos + 3) by lia. reflexivity.
Qed.

Lemma enc_ident_low c k t : t < 31 -> enc_ident c k t = [class_bits c * 64 + (if k then 32 else 0) + t].
Proof. intros Ht. unfold enc_ident. replace (t <? 31) with true by (symmetry; apply N.ltb_lt; exact Ht). reflexivity. Qed.

Lemma read_identifier_low (c : tclass) (k : bool) (t pos : N) (r : bytes) : t < 31 ->
  read_identifier (pos, (class_bits c * 64 + (if k then 32 else 0) + t) :: r) = DOk ((class_bits c, k, t), (pos + 1, r)).
Proof.
  intros Ht. unfold read_identifier. cbn [snd fst].
  set (x := class_bits c * 64 + (if k then 32 else 0) + t).
  assert (H1 : x / 64 = class_bits c) by (unfold x; destruct c, k; cbn [class_bits]; lia).
  assert (H2 : negb ((x / 32) mod 2 =? 0) = k).
  { destruct k; [replace ((x / 32) mod 2) with 1 by (unfold x; destruct c; cbn [class_bits]; lia)
                |replace ((x / 32) mod 2) with 0 by (unfold x; destruct c; cbn [class_bits]; lia)]; reflexivity. }
  assert (H3 : x mod 32 = t) by (unfold x; destruct c, k; cbn [class_bits]; lia).
  rewrite H1, H2, H3. replace (t =? 31) with false by (symmetry; apply N.eqb_neq; lia). reflexivity.
Qed.

Section Readers.
Variable p : prof.

(* one TLV of Der.v under read_general: the contents as the limited buffer, the rest after it *)
Lemma read_general_tlv c k t pos content rest :
  t < 31 -> nlen content < 65536 -> pos < 4294967296 ->
  read_general p (class_bits c) t (pos, tlv (c, t) k content ++ rest) =
  DOk (k, (pos + 1 + nlen (enc_len (nlen content)), content),
          (pos + 1 + nlen (enc_len (nlen content)) + nlen content, rest)).
Proof.
  intros Ht Hc Hp. unfold read_general, tlv. cbn [fst snd]. rewrite (enc_ident_low c k t Ht). cbn [app].
  rewrite (read_identifier_low c k t pos _ Ht). rewrite !N.eqb_refl. cbn [andb negb].
  rewrite <- app_assoc.
  match goal with |- context [read_length ?s] =>
    replace (read_length s) with (Some (Some (nlen content), (pos + 1 + nlen (enc_len (nlen content)), content ++ rest)))
      by (symmetry; apply (read_length_enc (pos + 1) (nlen content) (content ++ rest) Hc); unfold two64; lia)
  end.
  cbn [fst snd].
  pose proof (nlen_enc_len (nlen content) ltac:(unfold DER_MAX; lia)) as Hl.
  replace (two64 <=? pos + 1 + nlen (enc_len (nlen content)) + nlen content) with false
    by (symmetry; apply N.leb_gt; unfold two64; lia).
  replace (nlen (content ++ rest) <? nlen content) with false by (symmetry; apply N.ltb_ge; rewrite nlen_app; lia).
  unfold nlen at 3 7. rewrite Nat2N.id.
  rewrite firstn_app, firstn_all, Nat.sub_diag, skipn_app, skipn_all, Nat.sub_diag. cbn [firstn skipn app].
  rewrite app_nil_r. reflexivity.
Qed.

Lemma nlen_enc_len_small n : n < 65536 -> nlen (enc_len n) <= 3.
Proof.
  intros Hn. rewrite (enc_len_cases n Hn). destruct (n <? 128); [|destruct (n <? 256)]; unfold nlen; cbn [List.length N.of_nat]; lia.
Qed.

Lemma nlen_tlv_eq c k t content : t < 31 -> nlen (tlv (c, t) k content) = 1 + nlen (enc_len (nlen content)) + nlen content.
Proof. intros Ht. unfold tlv. cbn [fst snd]. rewrite (enc_ident_low c k t Ht), !nlen_app, nlen_cons. change (nlen (@nil N)) with 0. lia. Qed.

Lemma nlen_tlv_small c k t content : t < 31 -> nlen content < 65536 -> nlen (tlv (c, t) k content) <= nlen content + 4.
Proof. intros Ht Hc. rewrite (nlen_tlv_eq c k t content Ht). pose proof (nlen_enc_len_small _ Hc). lia. Qed.

Lemma primitive_tlv c t pos content rest :
  t < 31 -> nlen content < 65536 -> pos < 4294967296 ->
  primitive p (class_bits c) t (pos, tlv (c, t) false content ++ rest)
  = DOk (content, (pos + nlen (tlv (c, t) false content), rest)).
Proof.
  intros Ht Hc Hp. unfold primitive. rewrite (read_general_tlv c false t pos content rest Ht Hc Hp).
  rewrite (nlen_tlv_eq c false t content Ht).
  replace (pos + 1 + nlen (enc_len (nlen content)) + nlen content) with (pos + (1 + nlen (enc_len (nlen content)) + nlen content)) by lia.
  reflexivity.
Qed.

Lemma constructed_tlv {A} c t (body : dst -> dres (A * dst)) pos content rest a endpos :
  t < 31 -> nlen content < 65536 -> pos < 4294967296 ->
  body (pos + 1 + nlen (enc_len (nlen content)), content) = DOk (a, (endpos, [])) ->
  constructed p (class_bits c) t body (pos, tlv (c, t) true content ++ rest)
  = DOk (a, (pos + nlen (tlv (c, t) true content), rest)).
Proof.
  intros Ht Hc Hp Hb. unfold constructed. rewrite (read_general_tlv c true t pos content rest Ht Hc Hp).
  cbn [negb]. rewrite Hb. cbn [snd]. rewrite (nlen_tlv_eq c true t content Ht).
  replace (pos + 1 + nlen (enc_len (nlen content)) + nlen content) with (pos + (1 + nlen (enc_len (nlen content)) + nlen content)) by lia.
  reflexivity.
Qed.

(* ---- the shapes of the two replies *)
(* [0] INTEGER 2 *)
Lemma read_version pos rest : pos < 4294967296 - 16 ->
  tagged p 0 (read_u32 p) (pos, tlv (Context, 0) true (tlv (Universal, 2) false (enc_int 2)) ++ rest)
  = DOk (2, (pos + 5, rest)).
Proof.
  intros Hp. unfold tagged.
  assert (Hb : read_u32 p (pos + 1 + nlen (enc_len (nlen (tlv (Universal, 2) false (enc_int 2)))), tlv (Universal, 2) false (enc_int 2))
               = DOk (2, (pos + 5, []))).
  { change (enc_int 2) with [2]. change (nlen (enc_len (nlen (tlv (Universal, 2) false [2])))) with 1.
    unfold read_u32.
    pose proof (primitive_tlv Universal 2 (pos + 1 + 1) [2] [] ltac:(lia) ltac:(reflexivity) ltac:(lia)) as H.
    rewrite app_nil_r in H. cbn [class_bits] in H.
    match goal with |- context [primitive p 0 2 ?s] => replace (primitive p 0 2 s) with (DOk ([2], (pos + 1 + 1 + nlen (tlv (Universal, 2) false [2]), @nil N))) by (symmetry; exact H) end.
    change (128 <=? 2) with false. cbv iota. change (nlen (tlv (Universal, 2) false [2])) with 3.
    replace (pos + 1 + 1 + 3) with (pos + 5) by lia. reflexivity. }
  pose proof (constructed_tlv Context 0 (read_u32 p) pos (tlv (Universal, 2) false (enc_int 2)) rest 2 (pos + 5)
                ltac:(lia) ltac:(reflexivity) ltac:(lia) Hb) as H.
  cbn [class_bits] in H. etransitivity; [exact H|]. reflexivity.
Qed.

(* [n] OCTET STRING *)
Lemma read_tagged_octets n pos (b rest : bytes) : n < 31 -> nlen b <= 1500 -> pos < 4294967296 - 16 ->
  tagged p n (read_bytes p) (pos, tlv (Context, n) true (tlv (Universal, 4) false b) ++ rest)
  = DOk (b, (pos + nlen (tlv (Context, n) true (tlv (Universal, 4) false b)), rest)).
Proof.
  intros Hn Hb Hp. unfold tagged.
  pose proof (nlen_tlv_small Universal false 4 b ltac:(lia) ltac:(lia)) as H4.
  pose proof (nlen_enc_len_small (nlen (tlv (Universal, 4) false b)) ltac:(lia)) as H3.
  pose proof (primitive_tlv Universal 4 (pos + 1 + nlen (enc_len (nlen (tlv (Universal, 4) false b)))) b [] ltac:(lia) ltac:(lia) ltac:(lia)) as H.
  rewrite app_nil_r in H. cbn [class_bits] in H.
  pose proof (constructed_tlv Context n (read_bytes p) pos (tlv (Universal, 4) false b) rest b _ Hn ltac:(lia) ltac:(lia) H) as H'.
  cbn [class_bits] in H'. exact H'.
Qed.


(* SEQUENCE { [0] OCTET STRING } *)
Lemma read_token_seq pos (b rest : bytes) : nlen b <= 1500 -> pos < 4294967296 - 32 ->
  sequence p (tagged p 0 (read_bytes p)) (pos, tlv (Universal, 16) true (tlv (Context, 0) true (tlv (Universal, 4) false b)) ++ rest)
  = DOk (b, (pos + nlen (tlv (Universal, 16) true (tlv (Context, 0) true (tlv (Universal, 4) false b))), rest)).
Proof.
  intros Hb Hp. unfold sequence.
  pose proof (nlen_tlv_small Universal false 4 b ltac:(lia) ltac:(lia)) as H4.
  pose proof (nlen_tlv_small Context true 0 (tlv (Universal, 4) false b) ltac:(lia) ltac:(lia)) as H5.
  set (e := tlv (Context, 0) true (tlv (Universal, 4) false b)) in *.
  pose proof (nlen_enc_len_small (nlen e) ltac:(lia)) as H3.
  pose proof (read_tagged_octets 0 (pos + 1 + nlen (enc_len (nlen e))) b [] ltac:(lia) Hb ltac:(lia)) as H.
  rewrite app_nil_r in H. fold e in H.
  pose proof (constructed_tlv Universal 16 (tagged p 0 (read_bytes p)) pos e rest b _ ltac:(lia) ltac:(lia) ltac:(lia) H) as H'.
  cbn [class_bits] in H'. exact H'.
Qed.

(* SEQUENCE OF with one element *)
Lemma read_tokens pos (b rest : bytes) : nlen b <= 1500 -> pos < 4294967296 - 64 ->
  let e := tlv (Universal, 16) true (tlv (Context, 0) true (tlv (Universal, 4) false b)) in
  sequence_of p (sequence p (tagged p 0 (read_bytes p))) (pos, tlv (Universal, 16) true e ++ rest)
  = DOk ([b], (pos + nlen (tlv (Universal, 16) true e), rest)).
Proof.
  intros Hb Hp e. unfold sequence_of. unfold sequence at 1.
  pose proof (nlen_tlv_small Universal false 4 b ltac:(lia) ltac:(lia)) as H4.
  pose proof (nlen_tlv_small Context true 0 (tlv (Universal, 4) false b) ltac:(lia) ltac:(lia)) as H5.
  pose proof (nlen_tlv_small Universal true 16 (tlv (Context, 0) true (tlv (Universal, 4) false b)) ltac:(lia) ltac:(lia)) as H6.
  fold e in H6.
  pose proof (nlen_enc_len_small (nlen e) ltac:(lia)) as H3.
  set (pos1 := pos + 1 + nlen (enc_len (nlen e))).
  pose proof (read_token_seq pos1 b [] Hb ltac:(unfold pos1; lia)) as H. rewrite app_nil_r in H. fold e in H.
  assert (Hloop : seq_of_loop (S (List.length (snd (pos1, e)))) (sequence p (tagged p 0 (read_bytes p))) (pos1, e) []
                  = DOk ([b], (pos1 + nlen e, []))).
  { cbn [snd]. destruct (tlv_nonempty (Universal, 16) true (tlv (Context, 0) true (tlv (Universal, 4) false b))) as [y [ys Ey]].
    fold e in Ey. rewrite Ey at 1. cbn [List.length seq_of_loop].
    match goal with |- context [sequence p ?el (pos1, e)] => replace (sequence p el (pos1, e)) with (DOk (b, (pos1 + nlen e, @nil N))) by (symmetry; exact H) end.
    reflexivity. }
  pose proof (constructed_tlv Universal 16 (fun c => seq_of_loop (S (List.length (snd c))) (sequence p (tagged p 0 (read_bytes p))) c [])
                pos e rest [b] _ ltac:(lia) ltac:(lia) ltac:(lia) Hloop) as H'.
  cbn [class_bits] in H'. exact H'.
Qed.

(* ---- the two read templates on the two replies *)
Theorem der_ts_validate_reads k : nlen k <= 1500 -> der_ts_validate p (der_encode (ts_validate k)) = Ok k.
Proof.
  intros Hk. unfold der_ts_validate, parse_der, der_encode, ts_validate. cbn [der_enc pick map List.concat]. rewrite !app_nil_r.
  set (A := tlv (Context, 0) true (tlv (Universal, 2) false (enc_int 2))).
  set (V := tlv (Context, 3) true (tlv (Universal, 4) false k)).
  pose proof (nlen_tlv_small Universal false 4 k ltac:(lia) ltac:(lia)) as H4.
  pose proof (nlen_tlv_small Context true 3 (tlv (Universal, 4) false k) ltac:(lia) ltac:(lia)) as H5. fold V in H5.
  assert (HA : nlen A = 5) by reflexivity.
  pose proof (nlen_enc_len_small (nlen (A ++ V)) ltac:(rewrite nlen_app; lia)) as H3.
  set (pos1 := 0 + 1 + nlen (enc_len (nlen (A ++ V)))).
  assert (Hbody : bindd (tagged p 0 (read_u32 p) (pos1, A ++ V)) (fun _ c1 => tagged p 3 (read_bytes p) c1)
                  = DOk (k, (pos1 + 5 + nlen V, []))).
  { pose proof (read_version pos1 V ltac:(unfold pos1; lia)) as H1. fold A in H1.
    match goal with |- context [tagged p 0 (read_u32 p) ?s] => replace (tagged p 0 (read_u32 p) s) with (DOk (2, (pos1 + 5, V))) by (symmetry; exact H1) end.
    unfold bindd.
    pose proof (read_tagged_octets 3 (pos1 + 5) k [] ltac:(lia) Hk ltac:(unfold pos1; lia)) as H2. rewrite app_nil_r in H2. fold V in H2.
    match goal with |- context [tagged p 3 (read_bytes p) ?s] => replace (tagged p 3 (read_bytes p) s) with (DOk (k, (pos1 + 5 + nlen V, @nil N))) by (symmetry; exact H2) end.
    reflexivity. }
  pose proof (constructed_tlv Universal 16 (fun c => bindd (tagged p 0 (read_u32 p) c) (fun _ c1 => tagged p 3 (read_bytes p) c1))
                0 (A ++ V) [] k _ ltac:(lia) ltac:(rewrite nlen_app; lia) ltac:(lia) Hbody) as H'.
  cbn [class_bits] in H'. rewrite app_nil_r in H'.
  match goal with |- context [sequence p ?bd ?s] => replace (sequence p bd s) with (DOk (k, (0 + nlen (tlv (Universal, 16) true (A ++ V)), @nil N))) by (symmetry; exact H') end.
  reflexivity.
Qed.

Theorem der_ts_request_reads t : nlen t <= 1500 -> der_ts_request p (der_encode (ts_request t)) = Ok [t].
Proof.
  intros Ht. unfold der_ts_request, parse_der, der_encode, ts_request. cbn [der_enc pick map List.concat]. rewrite !app_nil_r.
  set (A := tlv (Context, 0) true (tlv (Universal, 2) false (enc_int 2))).
  set (e := tlv (Universal, 16) true (tlv (Context, 0) true (tlv (Universal, 4) false t))).
  set (S1 := tlv (Universal, 16) true e).
  set (B := tlv (Context, 1) true S1).
  pose proof (nlen_tlv_small Universal false 4 t ltac:(lia) ltac:(lia)) as H4.
  pose proof (nlen_tlv_small Context true 0 (tlv (Universal, 4) false t) ltac:(lia) ltac:(lia)) as H5.
  pose proof (nlen_tlv_small Universal true 16 (tlv (Context, 0) true (tlv (Universal, 4) false t)) ltac:(lia) ltac:(lia)) as H6. fold e in H6.
  pose proof (nlen_tlv_small Universal true 16 e ltac:(lia) ltac:(lia)) as H7. fold S1 in H7.
  pose proof (nlen_tlv_small Context true 1 S1 ltac:(lia) ltac:(lia)) as H8. fold B in H8.
  assert (HA : nlen A = 5) by reflexivity.
  pose proof (nlen_enc_len_small (nlen (A ++ B)) ltac:(rewrite nlen_app; lia)) as H3.
  pose proof (nlen_enc_len_small (nlen S1) ltac:(lia)) as H3'.
  set (pos1 := 0 + 1 + nlen (enc_len (nlen (A ++ B)))).
  assert (Hbody : bindd (tagged p 0 (read_u32 p) (pos1, A ++ B))
                        (fun _ c1 => tagged p 1 (sequence_of p (sequence p (tagged p 0 (read_bytes p)))) c1)
                  = DOk ([t], (pos1 + 5 + nlen B, []))).
  { pose proof (read_version pos1 B ltac:(unfold pos1; lia)) as H1. fold A in H1.
    match goal with |- context [tagged p 0 (read_u32 p) ?s] => replace (tagged p 0 (read_u32 p) s) with (DOk (2, (pos1 + 5, B))) by (symmetry; exact H1) end.
    unfold bindd.
    pose proof (read_tokens (pos1 + 5 + 1 + nlen (enc_len (nlen S1))) t [] Ht ltac:(unfold pos1; lia)) as H2.
    cbv zeta in H2. rewrite app_nil_r in H2. fold e in H2. fold S1 in H2.
    pose proof (constructed_tlv Context 1 (sequence_of p (sequence p (tagged p 0 (read_bytes p)))) (pos1 + 5) S1 [] [t] _
                  ltac:(lia) ltac:(lia) ltac:(unfold pos1; lia) H2) as H2'.
    cbn [class_bits] in H2'. rewrite app_nil_r in H2'. fold B in H2'.
    match goal with |- context [tagged p 1 ?bd ?s] => replace (tagged p 1 bd s) with (DOk ([t], (pos1 + 5 + nlen B, @nil N))) by (symmetry; exact H2') end.
    reflexivity. }
  pose proof (constructed_tlv Universal 16
                (fun c => bindd (tagged p 0 (read_u32 p) c) (fun _ c1 => tagged p 1 (sequence_of p (sequence p (tagged p 0 (read_bytes p)))) c1))
                0 (A ++ B) [] [t] _ ltac:(lia) ltac:(rewrite nlen_app; lia) ltac:(lia) Hbody) as H'.
  cbn [class_bits] in H'. rewrite app_nil_r in H'.
  match goal with |- context [sequence p ?bd ?s] => replace (sequence p bd s) with (DOk ([t], (0 + nlen (tlv (Universal, 16) true (A ++ B)), @nil N))) by (symmetry; exact H') end.
  reflexivity.
Qed.

End Readers.
